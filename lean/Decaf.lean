import Decaf.Model.Lit
import Decaf.Generated.Constants
import Decaf.Model.Field
