/- `#audit_ns C17` prints, for every theorem whose name starts with the given namespace, the axioms it depends on. -/
import Lean
open Lean Elab Command

elab "#audit_ns " ns:ident : command => do
  let env ← getEnv
  let pre := ns.getId
  let mut names : Array Name := #[]
  for (n, ci) in env.constants.toList do
    let last := match n with | .str _ s => s | _ => ""
    let auto := last == "injEq" || last == "sizeOf_spec" || last == "inj" || ((last.startsWith "eq_") && (((last.drop 3).toString.all Char.isDigit) || last == "eq_def" || last == "eq_unfold")) || last.startsWith "match_" || last.startsWith "noConfusion" || last == "ext" || last == "ext_iff"
    if pre.isPrefixOf n && !n.isInternal && !auto then
      match ci with
      | .thmInfo _ => names := names.push n
      | _ => pure ()
  let sorted := names.qsort (fun a b => a.toString < b.toString)
  for n in sorted do
    let axs ← liftCoreM (collectAxioms n)
    let axl := (axs.toList.map toString).mergeSort (· ≤ ·)
    logInfo m!"AUDIT {n} axioms={axl}"
