/-
Encoding and decoding of decaf377 over an arbitrary field, for an arbitrary sign and an arbitrary
square-root-of-ratio routine meeting its contract.

* `decodeF`, `encodeF`: the optimised formulas of `encoding.rs` / `min_curve/element.rs`.
* `DecodesTo`, `EncodesTo`: the specification of ristretto.sage (`Decaf_1_1_Point.decodeSpec / encodeSpec`,
  a = -1, cofactor 4, isoMagic = 1), stated relationally so that it does not depend on which square root a
  `sqrt` function happens to return:
    - decodeSpec: s non-negative; t a root of a²s⁴ + 2(a-2d)s² + 1 = (1-s²)² - 4ds² with 2s/t non-negative
      (sage: the non-negative root, negated when `altx = 2s/t` is negative); x = 2s/(1+as²), y = (1-as²)/t.
      At s = 0 sage returns (0,1); the relation also admits (0,-1), the other member of the same coset.
    - encodeSpec: 0 if x = 0 or y = 0; else ρ the root of 1 - ax² with xy/ρ non-negative
      (sage: `sr` non-negative, `s = (1+sr)/x` if `altx = xy/sr` is negative, else `(1-sr)/x`), s = |(1-ρ)/x|.
-/
import Decaf.Spec.Sign
import Decaf.Spec.Extended

namespace Decaf
open Edwards

variable {K : Type*} [Field K] (P : Params K) (S : Sign K) {ζ : K} (R : SqrtRatio K ζ)

/-- the discriminant u₂(s) = (1-s²)² - 4ds² -/
def u2 (s : K) : K := (1 - s ^ 2) ^ 2 - 4 * P.d * s ^ 2

/-- optimised decoding (field-element level) -/
def decodeF (s : K) : Option (K × K) :=
  if S.neg s then none
  else
    let ss := s ^ 2
    let u1 := 1 - ss
    let u2 := u1 ^ 2 - 4 * P.d * ss
    let r := R.sr 1 (u2 * u1 ^ 2)
    if !r.1 then none
    else
      let t2 := 2 * s * u1
      let v := if S.neg (t2 * r.2) then -r.2 else r.2
      some (t2 * v ^ 2 * u2, (1 + ss) * v * u1)

/-- optimised encoding on extended coordinates -/
def encodeF (X _Y Z T : K) : K :=
  let amd := -1 - P.d
  let u1 := (X + T) * (X - T)
  let v := (R.sr 1 (u1 * amd * X ^ 2)).2
  let u2 := S.abs (v * u1)
  let u3 := u2 * Z - T
  S.abs (amd * v * u3 * X)

/-- specification of decoding (see the header) -/
def DecodesTo (s x y : K) : Prop :=
  S.neg s = false ∧ ∃ t, t ^ 2 = u2 P s ∧ S.neg (2 * s / t) = false ∧ x = 2 * s / (1 - s ^ 2) ∧ y = (1 + s ^ 2) / t

/-- specification of encoding (see the header) -/
def EncodesTo (x y s : K) : Prop :=
  ((x = 0 ∨ y = 0) ∧ s = 0) ∨
  (x ≠ 0 ∧ y ≠ 0 ∧ ∃ ρ, ρ ^ 2 = 1 + x ^ 2 ∧ S.neg (x * y / ρ) = false ∧ s = S.abs ((1 - ρ) / x))

variable {P S}

/-! ### basic facts about the discriminant -/

theorem u2_ne_zero (s : K) : u2 P s ≠ 0 := by
  intro h
  unfold u2 at h
  by_cases hs : s = 0
  · subst hs; simp at h
  · apply P.hd
    refine ⟨(1 - s ^ 2) / (2 * s), ?_⟩
    have := P.h2
    field_simp
    linear_combination -h

theorem one_sub_sq_ne_zero_of_root {s t : K} (ht : t ^ 2 = u2 P s) : 1 - s ^ 2 ≠ 0 := by
  intro h
  unfold u2 at ht
  have hs2 : s ^ 2 = 1 := by linear_combination -h
  rw [h, hs2] at ht
  -- t² = -4d  ⇒  d = (c t / 2)²
  apply P.hd
  refine ⟨P.c * t / 2, ?_⟩
  have h2 := P.h2
  have hc := P.hc
  rw [div_mul_div_comm, eq_div_iff (mul_ne_zero h2 h2)]
  linear_combination ht - t ^ 2 * hc

/-- a decoded point is on the curve and even -/
theorem DecodesTo.onCurve {s x y : K} (h : DecodesTo P S s x y) : OnCurve P.d x y := by
  obtain ⟨_, t, ht, _, hx, hy⟩ := h
  have hu1 := one_sub_sq_ne_zero_of_root ht
  have ht0 : t ≠ 0 := by rintro rfl; exact u2_ne_zero s (by rw [← ht]; ring)
  unfold u2 at ht
  unfold OnCurve
  rw [hx, hy]
  field_simp
  linear_combination (-(4 * s ^ 2) - (1 - s ^ 2) ^ 2) * ht

theorem DecodesTo.isEven {s x y : K} (h : DecodesTo P S s x y) : IsSquare (1 - P.d * x ^ 2) := by
  obtain ⟨_, t, ht, _, hx, _⟩ := h
  have hu1 := one_sub_sq_ne_zero_of_root ht
  unfold u2 at ht
  refine ⟨t / (1 - s ^ 2), ?_⟩
  rw [hx]
  field_simp
  linear_combination -ht

/-- the algebra of decoding for ANY inverse square root `v` of `u₂u₁²` (used for the native decoder, where `v` comes
from the square-root routine, and for the R1CS gadget, where `v` is a prover-supplied witness) -/
theorem decodes_of_root {s v : K} (hn : S.neg s = false)
    (hv : v ^ 2 * (((1 - s ^ 2) ^ 2 - 4 * P.d * s ^ 2) * (1 - s ^ 2) ^ 2) = 1) :
    let v' := if S.neg (2 * s * (1 - s ^ 2) * v) = true then -v else v
    DecodesTo P S s (2 * s * (1 - s ^ 2) * v' ^ 2 * ((1 - s ^ 2) ^ 2 - 4 * P.d * s ^ 2)) ((1 + s ^ 2) * v' * (1 - s ^ 2)) := by
  intro v'
  set u1 := 1 - s ^ 2 with hu1
  set uu := u1 ^ 2 - 4 * P.d * s ^ 2 with huu
  have hu1ne : u1 ≠ 0 := by
    intro h0; rw [h0] at hv; simp at hv
  have hv'sq : v' ^ 2 = v ^ 2 := by
    show (if S.neg (2 * s * u1 * v) = true then -v else v) ^ 2 = v ^ 2
    split <;> ring
  have hv2' : v' ^ 2 * (uu * u1 ^ 2) = 1 := by rw [hv'sq]; exact hv
  have hvne : v' ≠ 0 := by
    intro h0; rw [h0] at hv2'; simp at hv2'
  have hnonneg : S.neg (2 * s * u1 * v') = false := by
    show S.neg (2 * s * u1 * (if S.neg (2 * s * u1 * v) = true then -v else v)) = false
    by_cases hc : S.neg (2 * s * u1 * v) = true
    · rw [if_pos hc]
      have hz : 2 * s * u1 * v ≠ 0 := by
        intro h0; rw [h0, S.neg_zero] at hc; exact absurd hc (by simp)
      have : 2 * s * u1 * -v = -(2 * s * u1 * v) := by ring
      rw [this, S.neg_neg _ hz, hc]; rfl
    · rw [if_neg hc]; simpa using hc
  refine ⟨hn, 1 / (v' * u1), ?_, ?_, ?_, ?_⟩
  · unfold u2
    rw [← hu1, ← huu]
    clear_value v' uu u1
    field_simp
    linear_combination -hv2'
  · have : 2 * s / (1 / (v' * u1)) = 2 * s * u1 * v' := by
      clear_value v' uu u1
      field_simp
    rw [this]; exact hnonneg
  · rw [← hu1]
    clear_value v' uu u1
    field_simp
    linear_combination (2 * s) * hv2'
  · clear_value v' uu u1
    field_simp

variable {R}

/-- what the optimised decoder returns satisfies the specification -/
theorem decodeF_some {s x y : K} (h : decodeF P S R s = some (x, y)) : DecodesTo P S s x y := by
  unfold decodeF at h
  by_cases hn : S.neg s = true
  · simp [hn] at h
  · have hn' : S.neg s = false := by simpa using hn
    simp only [hn', Bool.false_eq_true, if_false] at h
    set u1 := 1 - s ^ 2 with hu1
    set uu := u1 ^ 2 - 4 * P.d * s ^ 2 with huu
    set r := R.sr 1 (uu * u1 ^ 2) with hr
    by_cases hr1 : r.1 = true
    · simp only [hr1, Bool.not_true, Bool.false_eq_true, if_false, Option.some.injEq, Prod.mk.injEq] at h
      obtain ⟨hx, hy⟩ := h
      have hden : uu * u1 ^ 2 ≠ 0 := by
        intro h0
        have := R.den_zero 1 one_ne_zero
        rw [hr, h0, this] at hr1
        exact absurd hr1 (by simp)
      have hsq : IsSquare ((1 : K) / (uu * u1 ^ 2)) := by
        by_contra hns
        have := (R.nonsquare 1 _ one_ne_zero hden hns).1
        rw [← hr, hr1] at this
        exact absurd this (by simp)
      have hv2 := (R.square 1 _ one_ne_zero hden hsq).2
      rw [← hr] at hv2
      have hu1ne : u1 ≠ 0 := by
        intro h0; apply hden; rw [h0]; ring
      have huune : uu ≠ 0 := by
        intro h0; apply hden; rw [h0]; ring
      -- the sign-adjusted v
      set v := if S.neg (2 * s * u1 * r.2) = true then -r.2 else r.2 with hv
      have hvsq : v ^ 2 = r.2 ^ 2 := by
        rw [hv]; split <;> ring
      have hvne : v ≠ 0 := by
        intro h0
        rw [h0] at hvsq
        have : r.2 ^ 2 = 0 := by rw [← hvsq]; ring
        rw [this, zero_mul] at hv2
        exact one_ne_zero hv2.symm
      have hnonneg : S.neg (2 * s * u1 * v) = false := by
        rw [hv]
        by_cases hc : S.neg (2 * s * u1 * r.2) = true
        · rw [if_pos hc]
          have hz : 2 * s * u1 * r.2 ≠ 0 := by
            intro h0; rw [h0, S.neg_zero] at hc; exact absurd hc (by simp)
          have : 2 * s * u1 * -r.2 = -(2 * s * u1 * r.2) := by ring
          rw [this, S.neg_neg _ hz, hc]; rfl
        · rw [if_neg hc]; simpa using hc
      have hv2' : v ^ 2 * (uu * u1 ^ 2) = 1 := by rw [hvsq]; exact hv2
      refine ⟨hn', 1 / (v * u1), ?_, ?_, ?_, ?_⟩
      · unfold u2
        rw [← hu1, ← huu]
        clear_value v r uu u1
        field_simp
        linear_combination -hv2'
      · have : 2 * s / (1 / (v * u1)) = 2 * s * u1 * v := by
          clear_value v r uu u1
          field_simp
        rw [this]; exact hnonneg
      · rw [← hx, ← hu1]
        clear_value v r uu u1
        field_simp
        linear_combination (2 * s) * hv2'
      · rw [← hy]
        clear_value v r uu u1
        field_simp
    · have : r.1 = false := by simpa using hr1
      simp [this] at h

/-- the optimised decoder accepts exactly what the specification accepts -/
theorem decodeF_isSome_iff (s : K) : (decodeF P S R s).isSome ↔ ∃ x y, DecodesTo P S s x y := by
  constructor
  · intro h
    obtain ⟨⟨x, y⟩, hxy⟩ := Option.isSome_iff_exists.mp h
    exact ⟨x, y, decodeF_some hxy⟩
  · rintro ⟨x, y, hn, t, ht, _, _, _⟩
    have hu1 := one_sub_sq_ne_zero_of_root ht
    have ht0 : t ≠ 0 := by rintro rfl; exact u2_ne_zero s (by rw [← ht]; ring)
    unfold u2 at ht
    unfold decodeF
    simp only [hn, Bool.false_eq_true, if_false]
    have hden : ((1 - s ^ 2) ^ 2 - 4 * P.d * s ^ 2) * (1 - s ^ 2) ^ 2 ≠ 0 := by
      rw [← ht]; exact mul_ne_zero (pow_ne_zero 2 ht0) (pow_ne_zero 2 hu1)
    have hsq : IsSquare ((1 : K) / (((1 - s ^ 2) ^ 2 - 4 * P.d * s ^ 2) * (1 - s ^ 2) ^ 2)) := by
      refine ⟨1 / (t * (1 - s ^ 2)), ?_⟩
      rw [← ht]; field_simp
    have := (R.square 1 _ one_ne_zero hden hsq).1
    simp [this]

/-- the specification determines the point (up to the coset ambiguity at s = 0) -/
theorem DecodesTo.unique {s x y x' y' : K} (h : DecodesTo P S s x y) (h' : DecodesTo P S s x' y') :
    x' = x ∧ (y' = y ∨ (s = 0 ∧ y' = -y)) := by
  obtain ⟨_, t, ht, hn, hx, hy⟩ := h
  obtain ⟨_, t', ht', hn', hx', hy'⟩ := h'
  refine ⟨by rw [hx, hx'], ?_⟩
  have ht0 : t ≠ 0 := by rintro rfl; exact u2_ne_zero s (by rw [← ht]; ring)
  have ht0' : t' ≠ 0 := by rintro rfl; exact u2_ne_zero s (by rw [← ht']; ring)
  rcases sq_eq_sq_iff_eq_or_eq_neg.mp (ht'.trans ht.symm) with e | e
  · left; rw [hy, hy', e]
  · by_cases hs : s = 0
    · right; refine ⟨hs, ?_⟩; rw [hy, hy', e]; field_simp
    · exfalso
      have hz : 2 * s / t ≠ 0 := div_ne_zero (mul_ne_zero P.h2 hs) ht0
      have : 2 * s / t' = -(2 * s / t) := by rw [e]; field_simp
      rw [this, S.neg_neg _ hz, hn] at hn'
      exact absurd hn' (by simp)

/-! ### encoding -/

/-- `1 + d ≠ 0` (d ≠ -1 because -1 is a square and d is not) -/
theorem one_add_d_ne_zero : (1 : K) + P.d ≠ 0 := by
  intro h0
  apply P.hd
  exact ⟨P.c, by have := P.hc; linear_combination h0 - this⟩

/-- on the even subgroup y ≠ 0, provided 1 + d is not a square -/
theorem y_ne_zero_of_even (hd1 : ¬ IsSquare (1 + P.d)) {x y : K} (hc : OnCurve P.d x y)
    (he : IsSquare (1 - P.d * x ^ 2)) : y ≠ 0 := by
  rintro rfl
  unfold OnCurve at hc
  apply hd1
  obtain ⟨w, hw⟩ := he
  refine ⟨w, ?_⟩
  rw [← hw]
  linear_combination (-P.d) * hc

/-- the optimised encoder computes the specified encoding, for every representative of every even point -/
theorem encodeF_spec (hd1 : ¬ IsSquare (1 + P.d)) {X Y Z T x y : K} (r : Repr X Y Z T x y)
    (hc : OnCurve P.d x y) (he : IsSquare (1 - P.d * x ^ 2)) :
    EncodesTo S x y (encodeF P S R X Y Z T) := by
  have hy := y_ne_zero_of_even hd1 hc he
  have ht := r.t_eq
  have hz := r.z
  by_cases hx : x = 0
  · left
    refine ⟨Or.inl hx, ?_⟩
    have hX : X = 0 := by rw [r.hx, hx, zero_mul]
    have hT : T = 0 := by rw [ht, hx]; ring
    unfold encodeF
    simp only [hX, hT, add_zero, sub_zero, mul_zero, zero_mul]
    simp
  · right
    refine ⟨hx, hy, ?_⟩
    obtain ⟨w, hw⟩ := he
    have hw0 : w ≠ 0 := by
      rintro rfl
      have hpt : OnCurve P.d x y := hc
      exact (Point.one_sub_ne_zero (⟨x, y, hpt⟩ : Point P)) (by simpa using hw)
    have h1d := one_add_d_ne_zero (P := P)
    unfold OnCurve at hc
    -- the argument of the square root
    set den := (X + T) * (X - T) * (-1 - P.d) * X ^ 2 with hden
    have hdenw : den * w ^ 2 = (1 + P.d) ^ 2 * x ^ 6 * Z ^ 4 := by
      rw [hden, r.hx, ht]
      linear_combination ((1 + P.d) * x ^ 4 * Z ^ 4 * (1 - y ^ 2)) * hw + ((1 + P.d) * x ^ 4 * Z ^ 4) * hc
    have hden0 : den ≠ 0 := by
      intro h0
      rw [h0, zero_mul] at hdenw
      have : (1 + P.d) ^ 2 * x ^ 6 * Z ^ 4 ≠ 0 :=
        mul_ne_zero (mul_ne_zero (pow_ne_zero 2 h1d) (pow_ne_zero 6 hx)) (pow_ne_zero 4 hz)
      exact this hdenw.symm
    have hsq : IsSquare ((1 : K) / den) := by
      refine ⟨w / ((1 + P.d) * x ^ 3 * Z ^ 2), ?_⟩
      rw [div_mul_div_comm, div_eq_div_iff hden0 (mul_ne_zero (mul_ne_zero (mul_ne_zero h1d (pow_ne_zero 3 hx)) (pow_ne_zero 2 hz))
        (mul_ne_zero (mul_ne_zero h1d (pow_ne_zero 3 hx)) (pow_ne_zero 2 hz)))]
      linear_combination -hdenw
    set v := (R.sr 1 den).2 with hv
    have hv2 : v ^ 2 * den = 1 := (R.square 1 den one_ne_zero hden0 hsq).2
    have hvw : (1 + P.d) ^ 2 * v ^ 2 * x ^ 6 * Z ^ 4 = w ^ 2 := by
      linear_combination (w ^ 2) * hv2 - (v ^ 2) * hdenw
    -- |v u1| = |x / w|
    set u1 := (X + T) * (X - T) with hu1
    have hu1v : (v * u1) ^ 2 = (x / w) ^ 2 := by
      rw [div_pow, eq_div_iff (pow_ne_zero 2 hw0)]
      have hu1e : u1 = x ^ 2 * Z ^ 2 * (1 - y ^ 2) := by rw [hu1, r.hx, ht]; ring
      -- (v u1)² w² (1+d)² x⁴ Z⁴ ... reduce with hvw
      have h6 : x ^ 4 * Z ^ 4 * (1 + P.d) ^ 2 ≠ 0 :=
        mul_ne_zero (mul_ne_zero (pow_ne_zero 4 hx) (pow_ne_zero 4 hz)) (pow_ne_zero 2 h1d)
      apply mul_right_cancel₀ h6
      rw [hu1e]
      linear_combination (x ^ 2 * Z ^ 4 * (1 - y ^ 2) ^ 2 * w ^ 2) * hvw
        - (x ^ 2 * Z ^ 4 * ((1 - y ^ 2) * w ^ 2 - (1 + P.d) * x ^ 2)) * hc
        - (x ^ 2 * Z ^ 4 * ((1 - y ^ 2) * w ^ 2 - (1 + P.d) * x ^ 2) * (1 - y ^ 2)) * hw
    have habs : S.abs (v * u1) = S.abs (x / w) := S.abs_eq_abs_of_sq_eq hu1v
    obtain ⟨σ, hσ, hσx⟩ : ∃ σ : K, (σ = 1 ∨ σ = -1) ∧ S.abs (x / w) = σ * (x / w) := by
      rcases S.abs_eq_self_or_neg (x / w) with h | h
      · exact ⟨1, Or.inl rfl, by rw [h, one_mul]⟩
      · exact ⟨-1, Or.inr rfl, by rw [h]; ring⟩
    have hnn : S.neg (σ * (x / w)) = false := by rw [← hσx]; exact S.abs_nonneg _
    have hx2 : x ^ 2 ≠ 0 := pow_ne_zero 2 hx
    refine ⟨σ * y * w, ?_, ?_, ?_⟩
    · rcases hσ with rfl | rfl
      · linear_combination (-(y ^ 2)) * hw + hc
      · linear_combination (-(y ^ 2)) * hw + hc
    · have : x * y / (σ * y * w) = σ * (x / w) := by
        rcases hσ with rfl | rfl <;> field_simp
      rw [this]; exact hnn
    · unfold encodeF
      simp only []
      rw [← hden, ← hv, ← hu1, habs, hσx]
      apply S.abs_eq_abs_of_sq_eq
      rw [div_pow, eq_div_iff hx2, r.hx, ht]
      rcases hσ with rfl | rfl
      · field_simp
        linear_combination ((1 - w * y) ^ 2) * hvw
      · field_simp
        linear_combination ((-1 - w * y) ^ 2) * hvw

/-! ### uniqueness, coset invariance and the two round trips (all at the level of the specification) -/

theorem EncodesTo.unique {x y s s' : K} (h : EncodesTo S x y s) (h' : EncodesTo S x y s') : s' = s := by
  rcases h with ⟨h0, rfl⟩ | ⟨hx, hy, ρ, hρ, hn, rfl⟩ <;> rcases h' with ⟨h0', rfl⟩ | ⟨hx', hy', ρ', hρ', hn', rfl⟩
  · rfl
  · rcases h0 with h | h <;> contradiction
  · rcases h0' with h | h <;> contradiction
  · rcases sq_eq_sq_iff_eq_or_eq_neg.mp (hρ'.trans hρ.symm) with e | e
    · rw [e]
    · by_cases hρ0 : ρ = 0
      · rw [e, hρ0, neg_zero]
      · exfalso
        have hz : x * y / ρ ≠ 0 := div_ne_zero (mul_ne_zero hx hy) hρ0
        have : x * y / ρ' = -(x * y / ρ) := by rw [e]; field_simp
        rw [this, S.neg_neg _ hz, hn] at hn'
        exact absurd hn' (by simp)

/-- the two members of a coset have the same specified encoding -/
theorem EncodesTo.neg {x y s : K} (h : EncodesTo S x y s) : EncodesTo S (-x) (-y) s := by
  rcases h with ⟨h0, rfl⟩ | ⟨hx, hy, ρ, hρ, hn, rfl⟩
  · left; exact ⟨by rcases h0 with h | h <;> simp [h], rfl⟩
  · right
    refine ⟨neg_ne_zero.mpr hx, neg_ne_zero.mpr hy, ρ, by rw [hρ]; ring, by rwa [neg_mul_neg], ?_⟩
    have : (1 - ρ) / -x = -((1 - ρ) / x) := by field_simp
    rw [this, S.abs_neg]

/-- encode ∘ decode = id -/
theorem DecodesTo.encodesTo (hd1 : ¬ IsSquare (1 + P.d)) {s x y : K} (h : DecodesTo P S s x y) : EncodesTo S x y s := by
  have hon := h.onCurve
  obtain ⟨hns, t, ht, hn, hx, hy⟩ := h
  have hu1 := one_sub_sq_ne_zero_of_root ht
  have ht0 : t ≠ 0 := by rintro rfl; exact u2_ne_zero s (by rw [← ht]; ring)
  by_cases hs : s = 0
  · left; refine ⟨Or.inl ?_, hs⟩; rw [hx, hs]; simp
  · right
    have h1s : 1 + s ^ 2 ≠ 0 := by
      intro h0
      apply hd1
      refine ⟨t / 2, ?_⟩
      unfold u2 at ht
      have h2 := P.h2
      rw [div_mul_div_comm, eq_div_iff (mul_ne_zero h2 h2)]
      have hs2 : s ^ 2 = -1 := by linear_combination h0
      rw [hs2] at ht
      linear_combination -ht
    have hx0 : x ≠ 0 := by rw [hx]; exact div_ne_zero (mul_ne_zero P.h2 hs) hu1
    have hy0 : y ≠ 0 := by rw [hy]; exact div_ne_zero h1s ht0
    refine ⟨hx0, hy0, (1 + s ^ 2) / (1 - s ^ 2), ?_, ?_, ?_⟩
    · rw [hx]; field_simp; ring
    · have : x * y / ((1 + s ^ 2) / (1 - s ^ 2)) = 2 * s / t := by rw [hx, hy]; field_simp
      rw [this]; exact hn
    · have : (1 - (1 + s ^ 2) / (1 - s ^ 2)) / x = -s := by
        have h2 := P.h2
        rw [hx]; field_simp; ring
      rw [this, S.abs_neg, S.abs_of_nonneg hns]

/-- decode ∘ encode ~ id on the even subgroup: the specified encoding of an even point decodes (by the
specification) to that point or to the other member of its coset -/
theorem EncodesTo.decodesTo (hd1 : ¬ IsSquare (1 + P.d)) {x y s : K} (h : EncodesTo S x y s)
    (hc : OnCurve P.d x y) (he : IsSquare (1 - P.d * x ^ 2)) :
    ∃ x' y', DecodesTo P S s x' y' ∧ ((x' = x ∧ y' = y) ∨ (x' = -x ∧ y' = -y)) := by
  have hy0 := y_ne_zero_of_even hd1 hc he
  have h2 := P.h2
  rcases h with ⟨h0, rfl⟩ | ⟨hx, _, ρ, hρ, hn, hs⟩
  · -- x = 0: the point is (0, ±1) and s = 0
    have hx : x = 0 := by rcases h0 with h | h; exact h; exact absurd h hy0
    unfold OnCurve at hc
    rw [hx] at hc
    have hy2 : y ^ 2 = 1 := by linear_combination hc
    refine ⟨0, y, ⟨S.neg_zero, 1 / y, ?_, ?_, ?_, ?_⟩, Or.inl ⟨hx.symm, rfl⟩⟩
    · unfold u2; field_simp; linear_combination -hy2
    · simp [S.neg_zero]
    · simp
    · field_simp; ring
  · obtain ⟨w, hw⟩ := he
    have hw0 : w ≠ 0 := by
      rintro rfl
      exact (Point.one_sub_ne_zero (⟨x, y, hc⟩ : Point P)) (by simpa using hw)
    unfold OnCurve at hc
    -- ρ ≠ ±1 because x ≠ 0
    have hρ1 : ρ + 1 ≠ 0 := by
      intro h0; apply hx
      have : x ^ 2 = 0 := by linear_combination -hρ + (ρ - 1) * h0
      exact pow_eq_zero_iff (by norm_num) |>.mp this
    have hρ2 : ρ - 1 ≠ 0 := by
      intro h0; apply hx
      have : x ^ 2 = 0 := by linear_combination -hρ + (ρ + 1) * h0
      exact pow_eq_zero_iff (by norm_num) |>.mp this
    have hρ0 : ρ ≠ 0 := by
      rintro rfl
      -- then x*y/0 = 0 is fine, but 1 + x² = 0 and y²w² = 1 + x² = 0 contradicts y, w ≠ 0
      have : y ^ 2 * (w * w) = 0 := by linear_combination (y ^ 2) * (-hw) + hc - hρ
      rcases mul_eq_zero.mp this with h | h
      · exact hy0 (pow_eq_zero_iff (by norm_num) |>.mp h)
      · exact hw0 (mul_self_eq_zero.mp h)
    set s0 := (1 - ρ) / x with hs0
    have hs00 : s0 ≠ 0 := by
      rw [hs0]; exact div_ne_zero (by intro h; apply hρ2; linear_combination -h) hx
    -- s = τ s0
    obtain ⟨τ, hτ, hsτ⟩ : ∃ τ : K, (τ = 1 ∨ τ = -1) ∧ s = τ * s0 := by
      rw [hs]
      rcases S.abs_eq_self_or_neg s0 with h | h
      · exact ⟨1, Or.inl rfl, by rw [h, one_mul]⟩
      · exact ⟨-1, Or.inr rfl, by rw [h]; ring⟩
    have hsnn : S.neg s = false := by rw [hs]; exact S.abs_nonneg _
    have hs2 : s ^ 2 = (ρ - 1) / (ρ + 1) := by
      rw [hsτ, hs0, eq_div_iff hρ1]
      rcases hτ with rfl | rfl <;> field_simp <;> linear_combination (ρ - 1) * hρ
    -- ρ = ε y w
    obtain ⟨ε, hε, hρε⟩ : ∃ ε : K, (ε = 1 ∨ ε = -1) ∧ ρ = ε * (y * w) := by
      have : ρ ^ 2 = (y * w) ^ 2 := by linear_combination hρ + (y ^ 2) * hw - hc
      rcases sq_eq_sq_iff_eq_or_eq_neg.mp this with h | h
      · exact ⟨1, Or.inl rfl, by rw [h, one_mul]⟩
      · exact ⟨-1, Or.inr rfl, by rw [h]; ring⟩
    -- choose the sign of t
    set t1 := 2 * w / (ρ + 1) with ht1
    have ht10 : t1 ≠ 0 := div_ne_zero (mul_ne_zero h2 hw0) hρ1
    obtain ⟨κ, hκ, hκn⟩ := S.exists_sign_nonneg (2 * s / t1)
    have hκ0 : κ ≠ 0 := by rcases hκ with rfl | rfl <;> norm_num
    have hκinv : 2 * s / (κ * t1) = κ * (2 * s / t1) := by
      rcases hκ with rfl | rfl <;> field_simp
    -- the sign bookkeeping: ε = -τκ
    have hA : x / w ≠ 0 := div_ne_zero hx hw0
    have n1 : S.neg (ε * (x / w)) = false := by
      have : x * y / ρ = ε * (x / w) := by
        rw [hρε]; rcases hε with rfl | rfl <;> field_simp
      rw [← this]; exact hn
    have n2 : S.neg (-(τ * κ) * (x / w)) = false := by
      have : κ * (2 * s / t1) = -(τ * κ) * (x / w) := by
        rw [hsτ, hs0, ht1]
        field_simp
        linear_combination (-τ) * hρ
      rw [← this]; exact hκn
    have hsign : ε = -(τ * κ) := by
      apply S.sign_unique hA hε _ n1 n2
      rcases hτ with rfl | rfl <;> rcases hκ with rfl | rfl <;> simp
    refine ⟨-τ * x, -τ * y, ⟨hsnn, κ * t1, ?_, ?_, ?_, ?_⟩, ?_⟩
    · -- (κ t1)² = u2 s
      unfold u2
      rw [hs2, ht1]
      rcases hκ with rfl | rfl <;> field_simp <;> linear_combination (-4 : K) * hw + 4 * P.d * hρ
    · rw [hκinv]; exact hκn
    · have e1 : 1 - (ρ - 1) / (ρ + 1) = 2 / (ρ + 1) := by field_simp; ring
      rw [hs2, e1, hsτ, hs0]
      field_simp
      linear_combination τ * hρ
    · have e2 : 1 + (ρ - 1) / (ρ + 1) = 2 * ρ / (ρ + 1) := by field_simp; ring
      have e3 : 2 * ρ / (ρ + 1) / (κ * t1) = κ * ρ / w := by
        rw [ht1]; rcases hκ with rfl | rfl <;> field_simp
      rw [hs2, e2, e3, hρε, hsign]
      rcases hτ with rfl | rfl <;> rcases hκ with rfl | rfl <;> field_simp
    · rcases hτ with rfl | rfl
      · right; constructor <;> ring
      · left; constructor <;> ring

end Decaf
