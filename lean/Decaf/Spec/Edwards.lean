/-
The twisted Edwards curve  E : -x² + y² = 1 + d·x²y²  (a = -1) over a field in which -1 is a square and d is
not, with its complete addition law, as a commutative group.  Proved from scratch: completeness
(Bernstein–Lange), closure, associativity (cofactors in `Lemmas/EdwardsIdentities`).
-/
import Mathlib.Algebra.Field.Basic
import Mathlib.Algebra.Group.Even
import Mathlib.Algebra.Group.Subgroup.Basic
import Mathlib.Tactic.FieldSimp
import Mathlib.Tactic.LinearCombination
import Mathlib.Tactic.Ring
import Decaf.Lemmas.EdwardsIdentities

namespace Edwards

variable {K : Type*} [Field K]

/-- parameters of the curve and the two arithmetic facts completeness needs -/
structure Params (K : Type*) [Field K] where
  d : K
  c : K
  hc : c ^ 2 = -1
  hd : ¬ IsSquare d
  h2 : (2 : K) ≠ 0

def OnCurve (d x y : K) : Prop := -x ^ 2 + y ^ 2 = 1 + d * x ^ 2 * y ^ 2

/-- Bernstein–Lange completeness for a = -1 = c². -/
theorem complete (c d x1 y1 x2 y2 : K) (hc : c ^ 2 = -1) (hd : ¬ IsSquare d) (h2ne : (2 : K) ≠ 0)
    (h1 : -x1 ^ 2 + y1 ^ 2 = 1 + d * x1 ^ 2 * y1 ^ 2) (h2 : -x2 ^ 2 + y2 ^ 2 = 1 + d * x2 ^ 2 * y2 ^ 2)
    (hee : (d * x1 * x2 * y1 * y2) ^ 2 = 1) : False := by
  have hx1 : x1 ≠ 0 := by rintro rfl; simp at hee
  have hy1 : y1 ≠ 0 := by rintro rfl; simp at hee
  have hy2 : y2 ≠ 0 := by rintro rfl; simp at hee
  set e := d * x1 * x2 * y1 * y2 with he
  have key1 : (c * x1 + e * y1) ^ 2 = d * (x1 * y1 * (c * x2 + y2)) ^ 2 := by
    linear_combination x1 ^ 2 * hc + y1 ^ 2 * hee + h1 - d * x1 ^ 2 * y1 ^ 2 * x2 ^ 2 * hc - d * x1 ^ 2 * y1 ^ 2 * h2 - hee
  have key2 : (c * x1 - e * y1) ^ 2 = d * (x1 * y1 * (c * x2 - y2)) ^ 2 := by
    linear_combination x1 ^ 2 * hc + y1 ^ 2 * hee + h1 - d * x1 ^ 2 * y1 ^ 2 * x2 ^ 2 * hc - d * x1 ^ 2 * y1 ^ 2 * h2 - hee
  by_cases hA : c * x2 + y2 = 0
  · by_cases hB : c * x2 - y2 = 0
    · apply hy2
      have : (2 : K) * y2 = 0 := by linear_combination hA - hB
      exact (mul_eq_zero.mp this).resolve_left h2ne
    · apply hd
      refine ⟨(c * x1 - e * y1) / (x1 * y1 * (c * x2 - y2)), ?_⟩
      have hne : x1 * y1 * (c * x2 - y2) ≠ 0 := mul_ne_zero (mul_ne_zero hx1 hy1) hB
      field_simp
      linear_combination -key2
  · apply hd
    refine ⟨(c * x1 + e * y1) / (x1 * y1 * (c * x2 + y2)), ?_⟩
    have hne : x1 * y1 * (c * x2 + y2) ≠ 0 := mul_ne_zero (mul_ne_zero hx1 hy1) hA
    field_simp
    linear_combination -key1

variable (P : Params K)

theorem denom_pos_ne_zero {x1 y1 x2 y2 : K} (h1 : OnCurve P.d x1 y1) (h2 : OnCurve P.d x2 y2) :
    1 + P.d * x1 * x2 * y1 * y2 ≠ 0 := by
  intro h
  apply complete P.c P.d x1 y1 x2 y2 P.hc P.hd P.h2 h1 h2
  have : P.d * x1 * x2 * y1 * y2 = -1 := by linear_combination h
  rw [this]; ring

theorem denom_neg_ne_zero {x1 y1 x2 y2 : K} (h1 : OnCurve P.d x1 y1) (h2 : OnCurve P.d x2 y2) :
    1 - P.d * x1 * x2 * y1 * y2 ≠ 0 := by
  intro h
  apply complete P.c P.d x1 y1 x2 y2 P.hc P.hd P.h2 h1 h2
  have : P.d * x1 * x2 * y1 * y2 = 1 := by linear_combination -h
  rw [this]; ring

/-- the affine addition law (a = -1) -/
def addX (d x1 y1 x2 y2 : K) : K := (x1 * y2 + y1 * x2) / (1 + d * x1 * x2 * y1 * y2)
def addY (d x1 y1 x2 y2 : K) : K := (y1 * y2 + x1 * x2) / (1 - d * x1 * x2 * y1 * y2)

theorem add_onCurve {x1 y1 x2 y2 : K} (h1 : OnCurve P.d x1 y1) (h2 : OnCurve P.d x2 y2) :
    OnCurve P.d (addX P.d x1 y1 x2 y2) (addY P.d x1 y1 x2 y2) := by
  have hp := denom_pos_ne_zero P h1 h2
  have hn := denom_neg_ne_zero P h1 h2
  unfold OnCurve addX addY
  have key := closure_num P.d x1 y1 x2 y2 h1 h2
  set B := 1 + P.d * x1 * x2 * y1 * y2 with hB
  set D := 1 - P.d * x1 * x2 * y1 * y2 with hD
  field_simp
  linear_combination key

/-- points of E -/
@[ext] structure Point where
  x : K
  y : K
  on : OnCurve P.d x y

namespace Point
variable {P}

instance : Zero (Point P) := ⟨⟨0, 1, by simp [OnCurve]⟩⟩
instance : Add (Point P) := ⟨fun a b => ⟨addX P.d a.x a.y b.x b.y, addY P.d a.x a.y b.x b.y, add_onCurve P a.on b.on⟩⟩
instance : Neg (Point P) := ⟨fun a => ⟨-a.x, a.y, by have := a.on; simpa [OnCurve] using this⟩⟩

@[simp] theorem zero_x : (0 : Point P).x = 0 := rfl
@[simp] theorem zero_y : (0 : Point P).y = 1 := rfl
@[simp] theorem neg_x (a : Point P) : (-a).x = -a.x := rfl
@[simp] theorem neg_y (a : Point P) : (-a).y = a.y := rfl
theorem add_x (a b : Point P) : (a + b).x = addX P.d a.x a.y b.x b.y := rfl
theorem add_y (a b : Point P) : (a + b).y = addY P.d a.x a.y b.x b.y := rfl

theorem add_comm' (a b : Point P) : a + b = b + a := by
  ext
  · simp only [add_x, addX]; ring_nf
  · simp only [add_y, addY]; ring_nf

theorem zero_add' (a : Point P) : 0 + a = a := by
  ext
  · simp [add_x, addX]
  · simp [add_y, addY]

theorem neg_add_cancel' (a : Point P) : -a + a = 0 := by
  have h := a.on
  unfold OnCurve at h
  have hp := denom_pos_ne_zero P (-a).on a.on
  have hn := denom_neg_ne_zero P (-a).on a.on
  simp only [neg_x, neg_y] at hp hn
  ext
  · simp only [add_x, addX, neg_x, neg_y, zero_x]
    rw [div_eq_zero_iff]; left; ring
  · simp only [add_y, addY, neg_x, neg_y, zero_y]
    rw [div_eq_one_iff_eq hn]
    linear_combination h

/-- clearing the inner denominators of a nested sum (left nesting) -/
private theorem nest_left (s : K) (A B C D u v e : K) (hB : B ≠ 0) (hD : D ≠ 0) :
    (A / B * v + C / D * u) / (1 + s * (e * (A / B) * u * (C / D) * v)) =
      (A * D * v + C * B * u) / (B * D + s * (e * A * C * u * v)) := by
  have h1 : A / B * v + C / D * u = (A * D * v + C * B * u) / (B * D) := by field_simp
  have h2 : 1 + s * (e * (A / B) * u * (C / D) * v) = (B * D + s * (e * A * C * u * v)) / (B * D) := by field_simp
  rw [h1, h2, div_div_div_cancel_right₀ (mul_ne_zero hB hD)]

private theorem nest_left_ne (s : K) (A B C D u v e : K) (hB : B ≠ 0) (hD : D ≠ 0)
    (h : 1 + s * (e * (A / B) * u * (C / D) * v) ≠ 0) : B * D + s * (e * A * C * u * v) ≠ 0 := by
  have h2 : 1 + s * (e * (A / B) * u * (C / D) * v) = (B * D + s * (e * A * C * u * v)) / (B * D) := by field_simp
  rw [h2] at h
  exact fun h0 => h (by rw [h0, zero_div])

theorem add_assoc' (a b c : Point P) : a + b + c = a + (b + c) := by
  have h1 := a.on; have h2 := b.on; have h3 := c.on
  have pab := denom_pos_ne_zero P a.on b.on
  have nab := denom_neg_ne_zero P a.on b.on
  have pbc := denom_pos_ne_zero P b.on c.on
  have nbc := denom_neg_ne_zero P b.on c.on
  have pL := denom_pos_ne_zero P (a + b).on c.on
  have nL := denom_neg_ne_zero P (a + b).on c.on
  have pR := denom_pos_ne_zero P a.on (b + c).on
  have nR := denom_neg_ne_zero P a.on (b + c).on
  simp only [add_x, add_y, addX, addY] at pL nL pR nR
  unfold OnCurve at h1 h2 h3
  -- names for the inner numerators / denominators
  set A := a.x * b.y + a.y * b.x with hA
  set B := 1 + P.d * a.x * b.x * a.y * b.y with hB
  set C := a.y * b.y + a.x * b.x with hC
  set D := 1 - P.d * a.x * b.x * a.y * b.y with hD
  set A' := b.x * c.y + b.y * c.x with hA'
  set B' := 1 + P.d * b.x * c.x * b.y * c.y with hB'
  set C' := b.y * c.y + b.x * c.x with hC'
  set D' := 1 - P.d * b.x * c.x * b.y * c.y with hD'
  ext
  · simp only [add_x, add_y, addX, addY]
    rw [← hA, ← hB, ← hC, ← hD, ← hA', ← hB', ← hC', ← hD']
    have key := assoc_x_num P.d a.x a.y b.x b.y c.x c.y h1 h2 h3
    -- left side
    have eL : (A / B * c.y + C / D * c.x) / (1 + P.d * (A / B) * c.x * (C / D) * c.y)
        = (A * D * c.y + C * B * c.x) / (B * D + 1 * (P.d * A * C * c.x * c.y)) := by
      have := nest_left (1 : K) A B C D c.x c.y P.d pab nab
      simpa [mul_assoc, mul_comm, mul_left_comm] using this
    have neL : B * D + 1 * (P.d * A * C * c.x * c.y) ≠ 0 := by
      apply nest_left_ne (1 : K) A B C D c.x c.y P.d pab nab
      have : 1 + 1 * (P.d * (A / B) * c.x * (C / D) * c.y) = 1 + P.d * (A / B) * c.x * (C / D) * c.y := by ring
      rw [this]; exact pL
    have eR : (a.x * (C' / D') + a.y * (A' / B')) / (1 + P.d * a.x * (A' / B') * a.y * (C' / D'))
        = (A' * D' * a.y + C' * B' * a.x) / (B' * D' + 1 * (P.d * A' * C' * a.x * a.y)) := by
      have := nest_left (1 : K) A' B' C' D' a.x a.y P.d pbc nbc
      rw [← this]; congr 1 <;> ring
    have neR : B' * D' + 1 * (P.d * A' * C' * a.x * a.y) ≠ 0 := by
      apply nest_left_ne (1 : K) A' B' C' D' a.x a.y P.d pbc nbc
      have : 1 + 1 * (P.d * (A' / B') * a.x * (C' / D') * a.y) = 1 + P.d * a.x * (A' / B') * a.y * (C' / D') := by ring
      rw [this]; exact pR
    rw [eL, eR, div_eq_div_iff neL neR]
    simp only [hA, hB, hC, hD, hA', hB', hC', hD']
    linear_combination key
  · simp only [add_x, add_y, addX, addY]
    rw [← hA, ← hB, ← hC, ← hD, ← hA', ← hB', ← hC', ← hD']
    have key := assoc_y_num P.d a.x a.y b.x b.y c.x c.y h1 h2 h3
    have eL : (C / D * c.y + A / B * c.x) / (1 - P.d * (A / B) * c.x * (C / D) * c.y)
        = (C * B * c.y + A * D * c.x) / (D * B + (-1) * (P.d * C * A * c.x * c.y)) := by
      have := nest_left (-1 : K) C D A B c.x c.y P.d nab pab
      rw [← this]; congr 1 <;> ring
    have neL : D * B + (-1) * (P.d * C * A * c.x * c.y) ≠ 0 := by
      apply nest_left_ne (-1 : K) C D A B c.x c.y P.d nab pab
      have : 1 + (-1) * (P.d * (C / D) * c.x * (A / B) * c.y) = 1 - P.d * (A / B) * c.x * (C / D) * c.y := by ring
      rw [this]; exact nL
    have eR : (a.y * (C' / D') + a.x * (A' / B')) / (1 - P.d * a.x * (A' / B') * a.y * (C' / D'))
        = (C' * B' * a.y + A' * D' * a.x) / (D' * B' + (-1) * (P.d * C' * A' * a.x * a.y)) := by
      have := nest_left (-1 : K) C' D' A' B' a.x a.y P.d nbc pbc
      rw [← this]; congr 1 <;> ring
    have neR : D' * B' + (-1) * (P.d * C' * A' * a.x * a.y) ≠ 0 := by
      apply nest_left_ne (-1 : K) C' D' A' B' a.x a.y P.d nbc pbc
      have : 1 + (-1) * (P.d * (C' / D') * a.x * (A' / B') * a.y) = 1 - P.d * a.x * (A' / B') * a.y * (C' / D') := by ring
      rw [this]; exact nR
    rw [eL, eR, div_eq_div_iff neL neR]
    simp only [hA, hB, hC, hD, hA', hB', hC', hD']
    linear_combination key

instance : AddCommGroup (Point P) where
  add_assoc := add_assoc'
  zero_add := zero_add'
  add_zero a := by rw [add_comm', zero_add']
  add_comm := add_comm'
  neg_add_cancel := neg_add_cancel'
  nsmul := nsmulRec
  zsmul := zsmulRec

end Point
end Edwards
