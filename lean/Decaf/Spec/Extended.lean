/-
Extended twisted Edwards coordinates (X:Y:Z:T), x = X/Z, y = Y/Z, T·Z = X·Y, over any field:
the Hisil–Wong–Carter–Dawson addition (8M + 1D, k = 2d) and the dedicated doubling used by
`min_curve/element.rs` compute the affine law of `Spec/Edwards`, for every pair of points (complete).
-/
import Decaf.Spec.Decaf

namespace Edwards
variable {K : Type*} [Field K]

/-- `(X,Y,Z,T)` represents the affine point `(x,y)` -/
structure Repr (X Y Z T x y : K) : Prop where
  z : Z ≠ 0
  hx : X = x * Z
  hy : Y = y * Z
  ht : T * Z = X * Y

theorem Repr.t_eq {X Y Z T x y : K} (h : Repr X Y Z T x y) : T = x * y * Z := by
  have := h.ht
  rw [h.hx, h.hy] at this
  have hz := h.z
  field_simp at this ⊢
  linear_combination this

/-- HWCD addition with k = 2d -/
theorem hwcd_add (P : Params K) {X1 Y1 Z1 T1 X2 Y2 Z2 T2 x1 y1 x2 y2 : K}
    (r1 : Repr X1 Y1 Z1 T1 x1 y1) (r2 : Repr X2 Y2 Z2 T2 x2 y2)
    (h1 : OnCurve P.d x1 y1) (h2 : OnCurve P.d x2 y2) (k : K) (hk : k = 2 * P.d) :
    let A := (Y1 - X1) * (Y2 - X2)
    let B := (Y1 + X1) * (Y2 + X2)
    let C := k * T1 * T2
    let D := (Z1 + Z1) * Z2
    let E := B - A
    let F := D - C
    let G := D + C
    let H := B + A
    Repr (E * F) (G * H) (F * G) (E * H) (addX P.d x1 y1 x2 y2) (addY P.d x1 y1 x2 y2) := by
  intro A B C D E F G H
  have hp := denom_pos_ne_zero P h1 h2
  have hn := denom_neg_ne_zero P h1 h2
  have t1 := r1.t_eq
  have t2 := r2.t_eq
  have z1 := r1.z
  have z2 := r2.z
  have two := P.h2
  have hF : F = 2 * Z1 * Z2 * (1 - P.d * x1 * x2 * y1 * y2) := by
    simp only [F, D, C, hk, t1, t2]; ring
  have hG : G = 2 * Z1 * Z2 * (1 + P.d * x1 * x2 * y1 * y2) := by
    simp only [G, D, C, hk, t1, t2]; ring
  have hE : E = 2 * Z1 * Z2 * (x1 * y2 + y1 * x2) := by
    simp only [E, B, A, r1.hx, r1.hy, r2.hx, r2.hy]; ring
  have hH : H = 2 * Z1 * Z2 * (y1 * y2 + x1 * x2) := by
    simp only [H, B, A, r1.hx, r1.hy, r2.hx, r2.hy]; ring
  have hF0 : F ≠ 0 := by rw [hF]; exact mul_ne_zero (mul_ne_zero (mul_ne_zero two z1) z2) hn
  have hG0 : G ≠ 0 := by rw [hG]; exact mul_ne_zero (mul_ne_zero (mul_ne_zero two z1) z2) hp
  refine ⟨mul_ne_zero hF0 hG0, ?_, ?_, by ring⟩
  · unfold addX
    rw [div_mul_eq_mul_div, eq_div_iff hp, hE, hF, hG]; ring
  · unfold addY
    rw [div_mul_eq_mul_div, eq_div_iff hn, hF, hG, hH]; ring

/-- dedicated doubling (a = -1) -/
theorem hwcd_double (P : Params K) {X Y Z T x y : K} (r : Repr X Y Z T x y) (h : OnCurve P.d x y) :
    let a := X ^ 2
    let b := Y ^ 2
    let c := Z ^ 2 + Z ^ 2
    let d' := -a
    let e := (X + Y) ^ 2 - a - b
    let g := d' + b
    let f := g - c
    let h' := d' - b
    Repr (e * f) (g * h') (f * g) (e * h') (addX P.d x y x y) (addY P.d x y x y) := by
  intro a b c d' e g f h'
  have hp := denom_pos_ne_zero P h h
  have hn := denom_neg_ne_zero P h h
  have z := r.z
  unfold OnCurve at h
  -- g = Z²(y² - x²) = Z²(1 + d x²y²);  f = g - 2Z² = -Z²(1 - d x² y²)
  have hg : g = Z ^ 2 * (1 + P.d * x * x * y * y) := by
    simp only [g, d', a, b, r.hx, r.hy]; linear_combination Z ^ 2 * h
  have hf : f = -(Z ^ 2 * (1 - P.d * x * x * y * y)) := by
    simp only [f, c]; rw [hg]; ring
  have he : e = 2 * x * y * Z ^ 2 := by simp only [e, a, b, r.hx, r.hy]; ring
  have hh : h' = -(Z ^ 2 * (y * y + x * x)) := by simp only [h', d', a, b, r.hx, r.hy]; ring
  have hz2 : Z ^ 2 ≠ 0 := pow_ne_zero 2 z
  have hg0 : g ≠ 0 := by rw [hg]; exact mul_ne_zero hz2 hp
  have hf0 : f ≠ 0 := by rw [hf]; exact neg_ne_zero.mpr (mul_ne_zero hz2 hn)
  refine ⟨mul_ne_zero hf0 hg0, ?_, ?_, by ring⟩
  · unfold addX
    rw [div_mul_eq_mul_div, eq_div_iff hp, he, hf, hg]; ring
  · unfold addY
    rw [div_mul_eq_mul_div, eq_div_iff hn, hf, hg, hh]; ring

theorem repr_neg {X Y Z T x y : K} (r : Repr X Y Z T x y) : Repr (-X) Y Z (-T) (-x) y :=
  ⟨r.z, by rw [r.hx]; ring, r.hy, by have := r.ht; linear_combination -this⟩

theorem repr_affine {x y : K} : Repr x y 1 (x * y) x y := ⟨one_ne_zero, by ring, by ring, by ring⟩

/-- normalising to affine coordinates recovers the point -/
theorem repr_div {X Y Z T x y : K} (r : Repr X Y Z T x y) : X * Z⁻¹ = x ∧ Y * Z⁻¹ = y := by
  have z := r.z
  constructor
  · rw [r.hx]; field_simp
  · rw [r.hy]; field_simp

end Edwards
