/-
Primality of the three moduli, by Pratt certificates checked in the kernel (`decide +kernel` over
`Model.powMod`, Mathlib's `lucas_primality`).  GENERATED ONCE by tools/gen_pratt.py (sympy finds the
factorisations and witnesses; nothing it says is trusted).  The witnesses for q, r, p are the repository's
own multiplicative generators 22, 5, 15.
-/
import Decaf.Lemmas.PowMod
import Decaf.Props.C17

namespace Model
set_option maxRecDepth 100000

theorem prime_9586122913090633729 : Nat.Prime 9586122913090633729 :=
  prime_of_lucas_cert _ 11 [2, 3, 7, 13, 499] [46, 1, 1, 1, 1] (by norm_num) (by decide +kernel) rfl
    (by intro l hl; simp only [List.mem_cons, List.not_mem_nil, or_false] at hl; rcases hl with rfl|rfl|rfl|rfl|rfl <;> first | norm_num)
    (by decide +kernel) (by decide +kernel)

theorem prime_1832756501 : Nat.Prime 1832756501 :=
  prime_of_lucas_cert _ 2 [2, 5, 29, 126397] [2, 3, 1, 1] (by norm_num) (by decide +kernel) rfl
    (by intro l hl; simp only [List.mem_cons, List.not_mem_nil, or_false] at hl; rcases hl with rfl|rfl|rfl|rfl <;> first | norm_num)
    (by decide +kernel) (by decide +kernel)

theorem prime_49484425527001 : Nat.Prime 49484425527001 :=
  prime_of_lucas_cert _ 14 [2, 3, 5, 1832756501] [3, 3, 3, 1] (by norm_num) (by decide +kernel) rfl
    (by intro l hl; simp only [List.mem_cons, List.not_mem_nil, or_false] at hl; rcases hl with rfl|rfl|rfl|rfl <;> first | exact prime_1832756501 | norm_num)
    (by decide +kernel) (by decide +kernel)

theorem prime_958612291309063373 : Nat.Prime 958612291309063373 :=
  prime_of_lucas_cert _ 2 [2, 29, 167, 49484425527001] [2, 1, 1, 1] (by norm_num) (by decide +kernel) rfl
    (by intro l hl; simp only [List.mem_cons, List.not_mem_nil, or_false] at hl; rcases hl with rfl|rfl|rfl|rfl <;> first | exact prime_49484425527001 | norm_num)
    (by decide +kernel) (by decide +kernel)

theorem prime_8444461749428370424248824938781546531375899335154063827935233455917409239041 : Nat.Prime 8444461749428370424248824938781546531375899335154063827935233455917409239041 :=
  prime_of_lucas_cert _ 22 [2, 3, 5, 7, 13, 499, 958612291309063373, 9586122913090633729] [47, 1, 1, 1, 1, 1, 1, 2] (by norm_num) (by decide +kernel) rfl
    (by intro l hl; simp only [List.mem_cons, List.not_mem_nil, or_false] at hl; rcases hl with rfl|rfl|rfl|rfl|rfl|rfl|rfl|rfl <;> first | exact prime_958612291309063373 | exact prime_9586122913090633729 | norm_num)
    (by decide +kernel) (by decide +kernel)

theorem prime_1282495723 : Nat.Prime 1282495723 :=
  prime_of_lucas_cert _ 5 [2, 3, 229, 933403] [1, 1, 1, 1] (by norm_num) (by decide +kernel) rfl
    (by intro l hl; simp only [List.mem_cons, List.not_mem_nil, or_false] at hl; rcases hl with rfl|rfl|rfl|rfl <;> first | norm_num)
    (by decide +kernel) (by decide +kernel)

theorem prime_188799526603 : Nat.Prime 188799526603 :=
  prime_of_lucas_cert _ 3 [2, 3, 17, 71, 1187, 7321] [1, 2, 1, 1, 1, 1] (by norm_num) (by decide +kernel) rfl
    (by intro l hl; simp only [List.mem_cons, List.not_mem_nil, or_false] at hl; rcases hl with rfl|rfl|rfl|rfl|rfl|rfl <;> first | norm_num)
    (by decide +kernel) (by decide +kernel)

theorem prime_4153589585267 : Nat.Prime 4153589585267 :=
  prime_of_lucas_cert _ 2 [2, 11, 188799526603] [1, 1, 1] (by norm_num) (by decide +kernel) rfl
    (by intro l hl; simp only [List.mem_cons, List.not_mem_nil, or_false] at hl; rcases hl with rfl|rfl|rfl <;> first | exact prime_188799526603 | norm_num)
    (by decide +kernel) (by decide +kernel)

theorem prime_38740043 : Nat.Prime 38740043 :=
  prime_of_lucas_cert _ 5 [2, 11, 17, 103583] [1, 1, 1, 1] (by norm_num) (by decide +kernel) rfl
    (by intro l hl; simp only [List.mem_cons, List.not_mem_nil, or_false] at hl; rcases hl with rfl|rfl|rfl|rfl <;> first | norm_num)
    (by decide +kernel) (by decide +kernel)

theorem prime_11892231440692483 : Nat.Prime 11892231440692483 :=
  prime_of_lucas_cert _ 3 [2, 3, 11, 71, 109, 601, 38740043] [1, 1, 1, 1, 1, 1, 1] (by norm_num) (by decide +kernel) rfl
    (by intro l hl; simp only [List.mem_cons, List.not_mem_nil, or_false] at hl; rcases hl with rfl|rfl|rfl|rfl|rfl|rfl|rfl <;> first | exact prime_38740043 | norm_num)
    (by decide +kernel) (by decide +kernel)

theorem prime_516860609 : Nat.Prime 516860609 :=
  prime_of_lucas_cert _ 3 [2, 11, 734177] [6, 1, 1] (by norm_num) (by decide +kernel) rfl
    (by intro l hl; simp only [List.mem_cons, List.not_mem_nil, or_false] at hl; rcases hl with rfl|rfl|rfl <;> first | norm_num)
    (by decide +kernel) (by decide +kernel)

theorem prime_15505818271 : Nat.Prime 15505818271 :=
  prime_of_lucas_cert _ 6 [2, 3, 5, 516860609] [1, 1, 1, 1] (by norm_num) (by decide +kernel) rfl
    (by intro l hl; simp only [List.mem_cons, List.not_mem_nil, or_false] at hl; rcases hl with rfl|rfl|rfl|rfl <;> first | exact prime_516860609 | norm_num)
    (by decide +kernel) (by decide +kernel)

theorem prime_212367687039617 : Nat.Prime 212367687039617 :=
  prime_of_lucas_cert _ 3 [2, 107, 15505818271] [7, 1, 1] (by norm_num) (by decide +kernel) rfl
    (by intro l hl; simp only [List.mem_cons, List.not_mem_nil, or_false] at hl; rcases hl with rfl|rfl|rfl <;> first | exact prime_15505818271 | norm_num)
    (by decide +kernel) (by decide +kernel)

theorem prime_227853185823450011796547 : Nat.Prime 227853185823450011796547 :=
  prime_of_lucas_cert _ 3 [2, 3, 12511, 14293, 212367687039617] [1, 1, 1, 1, 1] (by norm_num) (by decide +kernel) rfl
    (by intro l hl; simp only [List.mem_cons, List.not_mem_nil, or_false] at hl; rcases hl with rfl|rfl|rfl|rfl|rfl <;> first | exact prime_212367687039617 | norm_num)
    (by decide +kernel) (by decide +kernel)

theorem prime_127594226306900005382664386181896662579473947460767 : Nat.Prime 127594226306900005382664386181896662579473947460767 :=
  prime_of_lucas_cert _ 5 [2, 73, 149, 181, 11959, 11892231440692483, 227853185823450011796547] [1, 1, 1, 1, 1, 1, 1] (by norm_num) (by decide +kernel) rfl
    (by intro l hl; simp only [List.mem_cons, List.not_mem_nil, or_false] at hl; rcases hl with rfl|rfl|rfl|rfl|rfl|rfl|rfl <;> first | exact prime_11892231440692483 | exact prime_227853185823450011796547 | norm_num)
    (by decide +kernel) (by decide +kernel)

theorem prime_2111115437357092606062206234695386632838870926408408195193685246394721360383 : Nat.Prime 2111115437357092606062206234695386632838870926408408195193685246394721360383 :=
  prime_of_lucas_cert _ 5 [2, 1553, 1282495723, 4153589585267, 127594226306900005382664386181896662579473947460767] [1, 1, 1, 1, 1] (by norm_num) (by decide +kernel) rfl
    (by intro l hl; simp only [List.mem_cons, List.not_mem_nil, or_false] at hl; rcases hl with rfl|rfl|rfl|rfl|rfl <;> first | exact prime_1282495723 | exact prime_4153589585267 | exact prime_127594226306900005382664386181896662579473947460767 | norm_num)
    (by decide +kernel) (by decide +kernel)

theorem prime_71924131 : Nat.Prime 71924131 :=
  prime_of_lucas_cert _ 2 [2, 3, 5, 317, 2521] [1, 2, 1, 1, 1] (by norm_num) (by decide +kernel) rfl
    (by intro l hl; simp only [List.mem_cons, List.not_mem_nil, or_false] at hl; rcases hl with rfl|rfl|rfl|rfl|rfl <;> first | norm_num)
    (by decide +kernel) (by decide +kernel)

theorem prime_6633514200929891813 : Nat.Prime 6633514200929891813 :=
  prime_of_lucas_cert _ 2 [2, 19, 25537, 47521, 71924131] [2, 1, 1, 1, 1] (by norm_num) (by decide +kernel) rfl
    (by intro l hl; simp only [List.mem_cons, List.not_mem_nil, or_false] at hl; rcases hl with rfl|rfl|rfl|rfl|rfl <;> first | exact prime_71924131 | norm_num)
    (by decide +kernel) (by decide +kernel)

theorem prime_22433633 : Nat.Prime 22433633 :=
  prime_of_lucas_cert _ 3 [2, 13, 53927] [5, 1, 1] (by norm_num) (by decide +kernel) rfl
    (by intro l hl; simp only [List.mem_cons, List.not_mem_nil, or_false] at hl; rcases hl with rfl|rfl|rfl <;> first | norm_num)
    (by decide +kernel) (by decide +kernel)

theorem prime_494527005853 : Nat.Prime 494527005853 :=
  prime_of_lucas_cert _ 5 [2, 3, 11, 167, 22433633] [2, 1, 1, 1, 1] (by norm_num) (by decide +kernel) rfl
    (by intro l hl; simp only [List.mem_cons, List.not_mem_nil, or_false] at hl; rcases hl with rfl|rfl|rfl|rfl|rfl <;> first | exact prime_22433633 | norm_num)
    (by decide +kernel) (by decide +kernel)

theorem prime_76872275827 : Nat.Prime 76872275827 :=
  prime_of_lucas_cert _ 2 [2, 3, 17, 19, 23, 229, 443] [1, 1, 2, 1, 1, 1, 1] (by norm_num) (by decide +kernel) rfl
    (by intro l hl; simp only [List.mem_cons, List.not_mem_nil, or_false] at hl; rcases hl with rfl|rfl|rfl|rfl|rfl|rfl|rfl <;> first | norm_num)
    (by decide +kernel) (by decide +kernel)

theorem prime_1844934619849 : Nat.Prime 1844934619849 :=
  prime_of_lucas_cert _ 14 [2, 3, 76872275827] [3, 1, 1] (by norm_num) (by decide +kernel) rfl
    (by intro l hl; simp only [List.mem_cons, List.not_mem_nil, or_false] at hl; rcases hl with rfl|rfl|rfl <;> first | exact prime_76872275827 | norm_num)
    (by decide +kernel) (by decide +kernel)

theorem prime_111286271775829695101 : Nat.Prime 111286271775829695101 :=
  prime_of_lucas_cert _ 2 [2, 5, 73, 8263, 1844934619849] [2, 2, 1, 1, 1] (by norm_num) (by decide +kernel) rfl
    (by intro l hl; simp only [List.mem_cons, List.not_mem_nil, or_false] at hl; rcases hl with rfl|rfl|rfl|rfl|rfl <;> first | exact prime_1844934619849 | norm_num)
    (by decide +kernel) (by decide +kernel)

theorem prime_222572543551659390203 : Nat.Prime 222572543551659390203 :=
  prime_of_lucas_cert _ 2 [2, 111286271775829695101] [1, 1] (by norm_num) (by decide +kernel) rfl
    (by intro l hl; simp only [List.mem_cons, List.not_mem_nil, or_false] at hl; rcases hl with rfl|rfl <;> first | exact prime_111286271775829695101 | norm_num)
    (by decide +kernel) (by decide +kernel)

theorem prime_97931919162730131689321 : Nat.Prime 97931919162730131689321 :=
  prime_of_lucas_cert _ 3 [2, 5, 11, 222572543551659390203] [3, 1, 1, 1] (by norm_num) (by decide +kernel) rfl
    (by intro l hl; simp only [List.mem_cons, List.not_mem_nil, or_false] at hl; rcases hl with rfl|rfl|rfl|rfl <;> first | exact prime_222572543551659390203 | norm_num)
    (by decide +kernel) (by decide +kernel)

theorem prime_3721412928183745004194199 : Nat.Prime 3721412928183745004194199 :=
  prime_of_lucas_cert _ 13 [2, 19, 97931919162730131689321] [1, 1, 1] (by norm_num) (by decide +kernel) rfl
    (by intro l hl; simp only [List.mem_cons, List.not_mem_nil, or_false] at hl; rcases hl with rfl|rfl|rfl <;> first | exact prime_97931919162730131689321 | norm_num)
    (by decide +kernel) (by decide +kernel)

theorem prime_4777599223 : Nat.Prime 4777599223 :=
  prime_of_lucas_cert _ 3 [2, 3, 11, 59, 408971] [1, 2, 1, 1, 1] (by norm_num) (by decide +kernel) rfl
    (by intro l hl; simp only [List.mem_cons, List.not_mem_nil, or_false] at hl; rcases hl with rfl|rfl|rfl|rfl|rfl <;> first | norm_num)
    (by decide +kernel) (by decide +kernel)

theorem prime_8583511 : Nat.Prime 8583511 :=
  prime_of_lucas_cert _ 6 [2, 3, 5, 13, 1693] [1, 1, 1, 2, 1] (by norm_num) (by decide +kernel) rfl
    (by intro l hl; simp only [List.mem_cons, List.not_mem_nil, or_false] at hl; rcases hl with rfl|rfl|rfl|rfl|rfl <;> first | norm_num)
    (by decide +kernel) (by decide +kernel)

theorem prime_5301089 : Nat.Prime 5301089 :=
  prime_of_lucas_cert _ 3 [2, 13, 12743] [5, 1, 1] (by norm_num) (by decide +kernel) rfl
    (by intro l hl; simp only [List.mem_cons, List.not_mem_nil, or_false] at hl; rcases hl with rfl|rfl|rfl <;> first | norm_num)
    (by decide +kernel) (by decide +kernel)

theorem prime_5187222954756607 : Nat.Prime 5187222954756607 :=
  prime_of_lucas_cert _ 3 [2, 3, 19, 5301089, 8583511] [1, 1, 1, 1, 1] (by norm_num) (by decide +kernel) rfl
    (by intro l hl; simp only [List.mem_cons, List.not_mem_nil, or_false] at hl; rcases hl with rfl|rfl|rfl|rfl|rfl <;> first | exact prime_5301089 | exact prime_8583511 | norm_num)
    (by decide +kernel) (by decide +kernel)

theorem prime_7880826209898991662826602799 : Nat.Prime 7880826209898991662826602799 :=
  prime_of_lucas_cert _ 21 [2, 3, 53, 4777599223, 5187222954756607] [1, 1, 1, 1, 1] (by norm_num) (by decide +kernel) rfl
    (by intro l hl; simp only [List.mem_cons, List.not_mem_nil, or_false] at hl; rcases hl with rfl|rfl|rfl|rfl|rfl <;> first | exact prime_4777599223 | exact prime_5187222954756607 | norm_num)
    (by decide +kernel) (by decide +kernel)

theorem prime_73387170334035996766247648424745786170238574695861388454532790956181 : Nat.Prime 73387170334035996766247648424745786170238574695861388454532790956181 :=
  prime_of_lucas_cert _ 3 [2, 5, 11, 23, 494527005853, 3721412928183745004194199, 7880826209898991662826602799] [2, 1, 1, 1, 1, 1, 1] (by norm_num) (by decide +kernel) rfl
    (by intro l hl; simp only [List.mem_cons, List.not_mem_nil, or_false] at hl; rcases hl with rfl|rfl|rfl|rfl|rfl|rfl|rfl <;> first | exact prime_494527005853 | exact prime_3721412928183745004194199 | exact prime_7880826209898991662826602799 | norm_num)
    (by decide +kernel) (by decide +kernel)

theorem prime_258664426012969094010652733694893533536393512754914660539884262666720468348340822774968888139573360124440321458177 : Nat.Prime 258664426012969094010652733694893533536393512754914660539884262666720468348340822774968888139573360124440321458177 :=
  prime_of_lucas_cert _ 15 [2, 3, 7, 13, 53, 409, 499, 2557, 6633514200929891813, 73387170334035996766247648424745786170238574695861388454532790956181] [46, 1, 1, 1, 1, 1, 1, 1, 1, 1] (by norm_num) (by decide +kernel) rfl
    (by intro l hl; simp only [List.mem_cons, List.not_mem_nil, or_false] at hl; rcases hl with rfl|rfl|rfl|rfl|rfl|rfl|rfl|rfl|rfl|rfl <;> first | exact prime_6633514200929891813 | exact prime_73387170334035996766247648424745786170238574695861388454532790956181 | norm_num)
    (by decide +kernel) (by decide +kernel)

theorem prime_q : Nat.Prime q := by rw [C17.q_val]; exact prime_8444461749428370424248824938781546531375899335154063827935233455917409239041
theorem prime_r : Nat.Prime r := by rw [C17.r_val]; exact prime_2111115437357092606062206234695386632838870926408408195193685246394721360383
theorem prime_p : Nat.Prime p := by rw [C17.p_val]; exact prime_258664426012969094010652733694893533536393512754914660539884262666720468348340822774968888139573360124440321458177
instance : Fact (Nat.Prime q) := ⟨prime_q⟩
instance : Fact (Nat.Prime r) := ⟨prime_r⟩
instance : Fact (Nat.Prime p) := ⟨prime_p⟩
end Model
