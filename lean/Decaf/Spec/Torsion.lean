/-
The 2-power torsion of E, elementary and field-generic: the only points killed by 2 are O and T2 = (0,-1);
a point whose double is T2 has y = 0; no double has y = 0 when 1 + d is not a square (so no point of order 8);
a point with y = 0 is not even.  Consequences used for the group order (DESIGN.md §5.7):
  8•Q = 0 → 4•Q = 0,   and   Q even ∧ 4•Q = 0 → Q ∈ {O, T2}.
-/
import Decaf.Spec.Decaf

namespace Edwards
variable {K : Type*} [Field K] {P : Params K}

namespace Point

theorem T2_ne_zero : (T2 : Point P) ≠ 0 := by
  intro h
  have hy := congrArg Point.y h
  rw [T2_y, zero_y] at hy
  apply P.h2
  linear_combination -hy

theorem eq_zero_or_T2_of_x_eq_zero {a : Point P} (hx : a.x = 0) : a = 0 ∨ a = T2 := by
  have hon := a.on
  unfold OnCurve at hon
  rw [hx] at hon
  have hy : (a.y - 1) * (a.y + 1) = 0 := by linear_combination hon
  rcases mul_eq_zero.mp hy with h | h
  · left; ext
    · rw [hx, zero_x]
    · rw [zero_y]; linear_combination h
  · right; ext
    · rw [hx, T2_x]
    · rw [T2_y]; linear_combination h

/-- the 2-torsion of E is {O, T2} -/
theorem add_self_eq_zero_iff (a : Point P) : a + a = 0 ↔ a = 0 ∨ a = T2 := by
  constructor
  · intro h
    apply eq_zero_or_T2_of_x_eq_zero
    have h1 : a = -a := eq_neg_of_add_eq_zero_left h
    have hx := congrArg Point.x h1
    rw [neg_x] at hx
    have h2 : (2 : K) * a.x = 0 := by linear_combination hx
    rcases mul_eq_zero.mp h2 with h3 | h3
    · exact absurd h3 P.h2
    · exact h3
  · rintro (rfl | rfl)
    · exact add_zero 0
    · exact T2_add_T2

/-- a point whose double is T2 lies on the x-axis -/
theorem y_eq_zero_of_add_self_eq_T2 {a : Point P} (h : a + a = T2) : a.y = 0 := by
  have hx := congrArg Point.x h
  rw [add_x, T2_x] at hx
  unfold addX at hx
  rcases div_eq_zero_iff.mp hx with hn | hd
  · have h2 : (2 : K) * (a.x * a.y) = 0 := by linear_combination hn
    rcases mul_eq_zero.mp h2 with h3 | h3
    · exact absurd h3 P.h2
    · rcases mul_eq_zero.mp h3 with h4 | h4
      · exfalso
        have h0 : a + a = 0 := (add_self_eq_zero_iff a).mpr (eq_zero_or_T2_of_x_eq_zero h4)
        rw [h0] at h
        exact T2_ne_zero h.symm
      · exact h4
  · exact absurd hd (denom_pos_ne_zero P a.on a.on)

/-- no double lies on the x-axis when 1 + d is not a square: E has no point of order 8 -/
theorem add_self_y_ne_zero (h1d : ¬ IsSquare (1 + P.d)) (a : Point P) : (a + a).y ≠ 0 := by
  intro hy
  rw [add_y] at hy
  unfold addY at hy
  rcases div_eq_zero_iff.mp hy with hn | hd
  · apply h1d
    have hon := a.on
    unfold OnCurve at hon
    refine ⟨P.d * a.y ^ 2 + 1, ?_⟩
    have hx2 : a.x ^ 2 = -a.y ^ 2 := by linear_combination hn
    have e : P.d * a.y ^ 4 + 2 * a.y ^ 2 = 1 := by
      have : -a.x ^ 2 + a.y ^ 2 = 1 + P.d * a.x ^ 2 * a.y ^ 2 := hon
      rw [hx2] at this
      linear_combination this
    linear_combination -P.d * e
  · exact absurd hd (denom_neg_ne_zero P a.on a.on)

/-- points on the x-axis are not even -/
theorem not_isEven_of_y_eq_zero (h1d : ¬ IsSquare (1 + P.d)) {a : Point P} (hy : a.y = 0) : ¬ IsEven a := by
  intro he
  apply h1d
  have hon := a.on
  unfold OnCurve at hon
  rw [hy] at hon
  have hx2 : a.x ^ 2 = -1 := by linear_combination -hon
  unfold IsEven at he
  rw [hx2] at he
  have e : 1 - P.d * -1 = 1 + P.d := by ring
  rwa [e] at he

/-- 8-torsion is 4-torsion -/
theorem four_nsmul_eq_zero_of_eight (h1d : ¬ IsSquare (1 + P.d)) {Q : Point P} (h8 : 8 • Q = 0) : 4 • Q = 0 := by
  have e8 : 8 • Q = 4 • Q + 4 • Q := by rw [← add_nsmul]
  rw [e8] at h8
  rcases (add_self_eq_zero_iff _).mp h8 with h | h
  · exact h
  · exfalso
    have e4 : 4 • Q = (Q + Q) + (Q + Q) := by
      rw [show (4 : ℕ) = 2 + 2 from rfl, add_nsmul, two_nsmul]
    rw [e4] at h
    exact add_self_y_ne_zero h1d Q (y_eq_zero_of_add_self_eq_T2 h)

/-- an even point of 4-torsion is O or T2 -/
theorem even_four_torsion (h1d : ¬ IsSquare (1 + P.d)) {Q : Point P} (he : IsEven Q) (h4 : 4 • Q = 0) : Q = 0 ∨ Q = T2 := by
  have e4 : 4 • Q = (Q + Q) + (Q + Q) := by
    rw [show (4 : ℕ) = 2 + 2 from rfl, add_nsmul, two_nsmul]
  rw [e4] at h4
  rcases (add_self_eq_zero_iff _).mp h4 with h | h
  · exact (add_self_eq_zero_iff Q).mp h
  · exact absurd he (not_isEven_of_y_eq_zero h1d (y_eq_zero_of_add_self_eq_T2 h))

/-- the point (c, 0), c² = -1, of order four -/
def C4 : Point P := ⟨P.c, 0, by unfold OnCurve; rw [P.hc]; ring⟩

theorem C4_add_C4 : (C4 + C4 : Point P) = T2 := by
  ext
  · rw [add_x, T2_x]; unfold addX C4; simp
  · rw [add_y, T2_y]; unfold addY C4
    simp only [mul_zero, zero_add, sub_zero, div_one]
    rw [← sq, P.hc]

end Point
end Edwards
