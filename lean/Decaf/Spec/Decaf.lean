/-
The Decaf quotient of E: the 2-torsion point T2 = (0,-1), the coset relation P ~ P + T2, the equality test
x₁y₂ = y₁x₂ (which decides the coset relation on all of E), and the even subgroup
𝔾 = {P | 1 - d·x² is a square}, shown to be a subgroup containing T2 and every double — without point counting.
-/
import Decaf.Spec.Edwards
import Mathlib.Tactic.Abel

namespace Edwards
variable {K : Type*} [Field K] {P : Params K}

namespace Point

/-- the point of order two -/
def T2 : Point P := ⟨0, -1, by simp [OnCurve]⟩

@[simp] theorem T2_x : (T2 : Point P).x = 0 := rfl
@[simp] theorem T2_y : (T2 : Point P).y = -1 := rfl

theorem add_T2_x (a : Point P) : (a + T2).x = -a.x := by simp [add_x, addX]
theorem add_T2_y (a : Point P) : (a + T2).y = -a.y := by simp [add_y, addY]

theorem T2_add_T2 : (T2 + T2 : Point P) = 0 := by
  ext <;> simp [add_T2_x, add_T2_y]

/-- the Decaf coset relation -/
def Coset (a b : Point P) : Prop := b = a ∨ b = a + T2

theorem Coset.refl (a : Point P) : Coset a a := Or.inl rfl

theorem Coset.symm {a b : Point P} (h : Coset a b) : Coset b a := by
  rcases h with rfl | rfl
  · exact Or.inl rfl
  · right; rw [add_assoc, T2_add_T2, add_zero]

theorem Coset.trans {a b c : Point P} (h1 : Coset a b) (h2 : Coset b c) : Coset a c := by
  rcases h1 with rfl | rfl <;> rcases h2 with rfl | rfl
  · exact Or.inl rfl
  · exact Or.inr rfl
  · exact Or.inr rfl
  · left; rw [add_assoc, T2_add_T2, add_zero]

theorem Coset.add {a b a' b' : Point P} (h1 : Coset a a') (h2 : Coset b b') : Coset (a + b) (a' + b') := by
  rcases h1 with rfl | rfl <;> rcases h2 with rfl | rfl
  · exact Or.inl rfl
  · right; abel
  · right; abel
  · left
    have : a + T2 + (b + T2) = a + b + (T2 + T2) := by abel
    rw [this, T2_add_T2, add_zero]

theorem Coset.neg {a a' : Point P} (h : Coset a a') : Coset (-a) (-a') := by
  rcases h with rfl | rfl
  · exact Or.inl rfl
  · right
    have hT : (-T2 : Point P) = T2 := by ext <;> simp
    rw [neg_add, hT]

theorem coset_iff_coords (a b : Point P) : Coset a b ↔ (b.x = a.x ∧ b.y = a.y) ∨ (b.x = -a.x ∧ b.y = -a.y) := by
  constructor
  · rintro (rfl | rfl)
    · exact Or.inl ⟨rfl, rfl⟩
    · exact Or.inr ⟨add_T2_x a, add_T2_y a⟩
  · rintro (⟨hx, hy⟩ | ⟨hx, hy⟩)
    · left; ext <;> assumption
    · right; ext
      · rw [add_T2_x]; exact hx
      · rw [add_T2_y]; exact hy

/-- **Decaf equality**: the cross-multiplication test decides the coset relation, on all of E. -/
theorem cross_eq_iff_coset (a b : Point P) : a.x * b.y = a.y * b.x ↔ Coset a b := by
  rw [coset_iff_coords]
  constructor
  · intro h
    have ha := a.on; have hb := b.on
    unfold OnCurve at ha hb
    have pe := denom_pos_ne_zero P a.on b.on
    have ne := denom_neg_ne_zero P a.on b.on
    -- y_b² = y_a²
    have hy2 : (b.y ^ 2 - a.y ^ 2) * ((1 + P.d * a.x * b.x * a.y * b.y) * (1 - P.d * a.x * b.x * a.y * b.y)) = 0 := by
      linear_combination (-(b.y ^ 2) - P.d * a.y ^ 2 * b.y ^ 2 * b.x ^ 2) * ha + (a.y ^ 2 + P.d * a.y ^ 2 * b.y ^ 2 * a.x ^ 2) * hb
        + (-(a.x * b.y + a.y * b.x) * (1 + P.d * a.y ^ 2 * b.y ^ 2)) * h
    have hy2' : b.y ^ 2 = a.y ^ 2 := by
      have := (mul_eq_zero.mp hy2).resolve_right (mul_ne_zero pe ne)
      linear_combination this
    have hd1 : (1 : K) + P.d ≠ 0 := by
      intro h0
      apply P.hd
      exact ⟨P.c, by have := P.hc; linear_combination h0 - this⟩
    have h1dy : 1 + P.d * a.y ^ 2 ≠ 0 := by
      intro h0
      have := one_sub_one_add P.d a.x a.y ha
      apply hd1
      linear_combination -this + (1 - P.d * a.x ^ 2) * h0
    have hx2' : b.x ^ 2 = a.x ^ 2 := by
      have h0 : (b.x ^ 2 - a.x ^ 2) * (1 + P.d * a.y ^ 2) = 0 := by
        linear_combination ha - hb + (1 - P.d * b.x ^ 2) * hy2'
      have := (mul_eq_zero.mp h0).resolve_right h1dy
      linear_combination this
    have two : (2 : K) ≠ 0 := P.h2
    rcases sq_eq_sq_iff_eq_or_eq_neg.mp hy2' with hy | hy <;> rcases sq_eq_sq_iff_eq_or_eq_neg.mp hx2' with hx | hx
    · exact Or.inl ⟨hx, hy⟩
    · -- b.x = -a.x, b.y = a.y : then a.x * a.y = 0
      rw [hx, hy] at h
      have h0 : a.x * a.y = 0 := by
        have : (2 : K) * (a.x * a.y) = 0 := by linear_combination h
        exact (mul_eq_zero.mp this).resolve_left two
      rcases mul_eq_zero.mp h0 with h1 | h1
      · left; exact ⟨by rw [hx, h1, neg_zero], hy⟩
      · right; exact ⟨hx, by rw [hy, h1, neg_zero]⟩
    · rw [hx, hy] at h
      have h0 : a.x * a.y = 0 := by
        have : (2 : K) * (a.x * a.y) = 0 := by linear_combination -h
        exact (mul_eq_zero.mp this).resolve_left two
      rcases mul_eq_zero.mp h0 with h1 | h1
      · right; exact ⟨by rw [hx, h1, neg_zero], hy⟩
      · left; exact ⟨hx, by rw [hy, h1, neg_zero]⟩
    · exact Or.inr ⟨hx, hy⟩
  · rintro (⟨hx, hy⟩ | ⟨hx, hy⟩) <;> rw [hx, hy] <;> ring

/-! ### the even subgroup -/

/-- `1 - d·x²` never vanishes on E (d is not a square) -/
theorem one_sub_ne_zero (a : Point P) : 1 - P.d * a.x ^ 2 ≠ 0 := by
  intro h
  by_cases hx : a.x = 0
  · rw [hx] at h; simp at h
  · apply P.hd
    refine ⟨1 / a.x, ?_⟩
    field_simp
    linear_combination -h

/-- membership in the image of the decaf377 group: `1 - d·x²` is a square -/
def IsEven (a : Point P) : Prop := IsSquare (1 - P.d * a.x ^ 2)

theorem isEven_zero : IsEven (0 : Point P) := ⟨1, by simp⟩
theorem isEven_T2 : IsEven (T2 : Point P) := ⟨1, by simp⟩
theorem isEven_neg {a : Point P} (h : IsEven a) : IsEven (-a) := by
  unfold IsEven at *; simpa using h

theorem isEven_add {a b : Point P} (ha : IsEven a) (hb : IsEven b) : IsEven (a + b) := by
  obtain ⟨u, hu⟩ := ha
  obtain ⟨v, hv⟩ := hb
  have hu0 : u ≠ 0 := by rintro rfl; exact one_sub_ne_zero a (by rw [hu]; ring)
  have hv0 : v ≠ 0 := by rintro rfl; exact one_sub_ne_zero b (by rw [hv]; ring)
  have hB := denom_pos_ne_zero P a.on b.on
  have key := char_mul P.d a.x a.y b.x b.y a.on b.on
  set B := 1 + P.d * a.x * b.x * a.y * b.y with hBdef
  set A := a.x * b.y + a.y * b.x with hAdef
  set S := 1 - P.d * (a.x ^ 2 + b.x ^ 2 + a.x ^ 2 * b.x ^ 2) with hSdef
  refine ⟨S / (u * v * B), ?_⟩
  rw [add_x, addX, ← hAdef, ← hBdef]
  rw [hu, hv] at key
  have hne : u * v * B ≠ 0 := mul_ne_zero (mul_ne_zero hu0 hv0) hB
  rw [div_mul_div_comm, eq_div_iff (mul_ne_zero hne hne), div_pow]
  have : (1 - P.d * (A ^ 2 / B ^ 2)) * (u * v * B * (u * v * B)) = (B ^ 2 - P.d * A ^ 2) * (u * u) * (v * v) := by
    field_simp
  rw [this]
  linear_combination key

/-- every double is even -/
theorem isEven_double (a : Point P) : IsEven (a + a) := by
  have hB := denom_pos_ne_zero P a.on a.on
  set B := 1 + P.d * a.x * a.x * a.y * a.y with hBdef
  refine ⟨(1 - P.d * a.x * a.x * a.y * a.y) / B, ?_⟩
  rw [add_x, addX, ← hBdef, div_mul_div_comm, eq_div_iff (mul_ne_zero hB hB), div_pow]
  have : (1 - P.d * ((a.x * a.y + a.y * a.x) ^ 2 / B ^ 2)) * (B * B) = B ^ 2 - P.d * (a.x * a.y + a.y * a.x) ^ 2 := by
    field_simp
  rw [this, hBdef]
  ring

/-- the even points form a subgroup 𝔾 of E -/
def even (P : Params K) : AddSubgroup (Point P) where
  carrier := {a | IsEven a}
  add_mem' := isEven_add
  zero_mem' := isEven_zero
  neg_mem' := isEven_neg

theorem T2_mem_even : (T2 : Point P) ∈ even P := isEven_T2

theorem isEven_of_coset {a b : Point P} (h : Coset a b) (ha : IsEven a) : IsEven b := by
  rcases h with rfl | rfl
  · exact ha
  · exact isEven_add ha isEven_T2

end Point
end Edwards
