/-
The Elligator 2 map of decaf377 over an arbitrary field: optimised formulas (`elligator.rs`,
`min_curve/element.rs`) against the specification of ristretto.sage (`Decaf_1_1_Point.elligatorSpec` followed by
`fromJacobiQuartic`, a = -1, qnr = ζ), stated relationally:

  r = ζ·r₀²,  den = (dr - (d-a))((d-a)r - d),  n₁ = (r+1)(a-2d)/den,  n₂ = r·n₁;
  if n₁ is a square:  s = the non-negative root of n₁,        t = -(r-1)(a-2d)²/den - 1
  otherwise:          s = -(the non-negative root of n₂),     t = r(r-1)(a-2d)²/den - 1;
  the point is (2s/(1+as²), (1-as²)/t).

(sage's `den == 0` and `s == 0` branches are shown to be unreachable: `ellDen_ne_zero`, and s² ∈ {n₁, n₂} ≠ 0.)
-/
import Decaf.Spec.Encoding

namespace Decaf
open Edwards

variable {K : Type*} [Field K] (P : Params K) (S : Sign K) {ζ : K} (R : SqrtRatio K ζ)

def ellDen (r : K) : K := (P.d * r - (P.d + 1)) * ((P.d + 1) * r - P.d)
def ellNum (r : K) : K := (r + 1) * (-1 - 2 * P.d)

/-- the optimised map, returning extended coordinates (X, Y, Z, T) -/
def elligatorF (r0 : K) : K × K × K × K :=
  let r := ζ * r0 ^ 2
  let den := ellDen P r
  let num := ellNum P r
  let res := R.sr 1 (num * den)
  let sgn : K := if res.1 then 1 else -1
  let tw : K := if res.1 then 1 else r0
  let isri := res.2 * tw
  let s := isri * num
  let t := -sgn * isri * s * (r - 1) * (-1 - 2 * P.d) ^ 2 - 1
  let s := if S.neg s = res.1 then -s else s
  let E := 2 * s
  let F := 1 + -1 * s ^ 2
  let G := 1 - -1 * s ^ 2
  let H := t
  (E * H, F * G, F * H, E * G)

/-- the specification -/
def ElligatorTo (ζ : K) (r0 x y : K) : Prop :=
  let r := ζ * r0 ^ 2
  let n1 := ellNum P r / ellDen P r
  ∃ s t : K,
    ((IsSquare n1 ∧ s ^ 2 = n1 ∧ S.neg s = false ∧ t = -(r - 1) * (-1 - 2 * P.d) ^ 2 / ellDen P r - 1) ∨
     (¬ IsSquare n1 ∧ s ^ 2 = r * n1 ∧ S.neg (-s) = false ∧ t = r * (r - 1) * (-1 - 2 * P.d) ^ 2 / ellDen P r - 1)) ∧
    x = 2 * s / (1 - s ^ 2) ∧ y = (1 + s ^ 2) / t

variable {P S}

/-- invariance under r₀ ↦ -r₀ is built into the specification -/
theorem ElligatorTo.neg_iff {r0 x y : K} : ElligatorTo P S ζ (-r0) x y ↔ ElligatorTo P S ζ r0 x y := by
  unfold ElligatorTo; simp only [neg_sq]

/-- the hypotheses on the constants under which the map is defined everywhere -/
structure EllHyp (P : Params K) (ζ : K) : Prop where
  zeta : ¬ IsSquare ζ
  h1 : ¬ IsSquare ((P.d + 1) / (P.d * ζ))
  h2 : ¬ IsSquare (P.d / ((P.d + 1) * ζ))
  h3 : (1 : K) + 2 * P.d ≠ 0

theorem ellDen_ne_zero (H : EllHyp P ζ) (r0 : K) : ellDen P (ζ * r0 ^ 2) ≠ 0 := by
  have hd0 : P.d ≠ 0 := by rintro h; exact P.hd (by rw [h]; exact ⟨0, by ring⟩)
  have hd1 := one_add_d_ne_zero (P := P)
  have hz0 : ζ ≠ 0 := by rintro h; exact H.zeta (by rw [h]; exact ⟨0, by ring⟩)
  unfold ellDen
  intro h
  rcases mul_eq_zero.mp h with h | h
  · -- d ζ r0² = d + 1
    apply H.h1
    have hr0 : r0 ≠ 0 := by
      rintro rfl
      apply hd1; linear_combination -h
    refine ⟨r0, ?_⟩
    rw [div_eq_iff (mul_ne_zero hd0 hz0)]
    linear_combination -h
  · apply H.h2
    have hr0 : r0 ≠ 0 := by
      rintro rfl
      apply hd0; linear_combination -h
    refine ⟨r0, ?_⟩
    have hd1' : P.d + 1 ≠ 0 := by rwa [add_comm]
    rw [div_eq_iff (mul_ne_zero hd1' hz0)]
    linear_combination -h

theorem ellNum_ne_zero (H : EllHyp P ζ) (r0 : K) : ellNum P (ζ * r0 ^ 2) ≠ 0 := by
  unfold ellNum
  apply mul_ne_zero
  · intro h
    by_cases hr0 : r0 = 0
    · subst hr0; simp at h
    · apply H.zeta
      refine ⟨P.c / r0, ?_⟩
      have hc := P.hc
      field_simp
      linear_combination h - hc
  · intro h; apply H.h3; linear_combination -h

/-- the Jacobi-quartic identity t² = (1-s²)² - 4ds², in the two cases -/
theorem quartic_case1 {r den s2 t : K} (hden : den = (P.d * r - (P.d + 1)) * ((P.d + 1) * r - P.d)) (hd : den ≠ 0)
    (hs : s2 = (r + 1) * (-1 - 2 * P.d) / den) (ht : t = -(r - 1) * (-1 - 2 * P.d) ^ 2 / den - 1) :
    t ^ 2 = (1 - s2) ^ 2 - 4 * P.d * s2 := by
  rw [hs, ht]; field_simp; rw [hden]; ring

theorem quartic_case2 {r den s2 t : K} (hden : den = (P.d * r - (P.d + 1)) * ((P.d + 1) * r - P.d)) (hd : den ≠ 0)
    (hs : s2 = r * ((r + 1) * (-1 - 2 * P.d) / den)) (ht : t = r * (r - 1) * (-1 - 2 * P.d) ^ 2 / den - 1) :
    t ^ 2 = (1 - s2) ^ 2 - 4 * P.d * s2 := by
  rw [hs, ht]; field_simp; rw [hden]; ring

/-- a point of the Jacobi quartic maps to an even point of E, represented by (EH : FG : FH : EG) -/
theorem jq_point {s t : K} (ht : t ^ 2 = u2 P s) :
    OnCurve P.d (2 * s / (1 - s ^ 2)) ((1 + s ^ 2) / t) ∧ IsSquare (1 - P.d * (2 * s / (1 - s ^ 2)) ^ 2) ∧
    Repr (2 * s * t) ((1 + -1 * s ^ 2) * (1 - -1 * s ^ 2)) ((1 + -1 * s ^ 2) * t) (2 * s * (1 - -1 * s ^ 2))
      (2 * s / (1 - s ^ 2)) ((1 + s ^ 2) / t) := by
  have hu1 := one_sub_sq_ne_zero_of_root ht
  have ht0 : t ≠ 0 := by rintro rfl; exact u2_ne_zero s (by rw [← ht]; ring)
  unfold u2 at ht
  refine ⟨?_, ?_, ?_⟩
  · unfold OnCurve; field_simp; linear_combination (-(4 * s ^ 2) - (1 - s ^ 2) ^ 2) * ht
  · refine ⟨t / (1 - s ^ 2), ?_⟩
    field_simp; linear_combination -ht
  · have hF : (1 + -1 * s ^ 2) = 1 - s ^ 2 := by ring
    refine ⟨by rw [hF]; exact mul_ne_zero hu1 ht0, ?_, ?_, by ring⟩
    · rw [hF]; field_simp
    · rw [hF]; field_simp; ring

theorem isSquare_inv_mul_iff {a b : K} (ha : a ≠ 0) (hb : b ≠ 0) : IsSquare ((1 : K) / (a * b)) ↔ IsSquare (a / b) := by
  constructor
  · rintro ⟨w, hw⟩
    refine ⟨w * a, ?_⟩
    rw [div_eq_iff hb]
    have : w * w * (a * b) = 1 := by rw [← hw]; field_simp
    linear_combination (-a) * this
  · rintro ⟨w, hw⟩
    refine ⟨w / a, ?_⟩
    rw [div_eq_iff hb] at hw
    rw [div_mul_div_comm, div_eq_div_iff (mul_ne_zero ha hb) (mul_ne_zero ha ha)]
    linear_combination (a) * hw

variable {R}

/-- **the optimised map computes the specified map**: its output represents a point of the even subgroup which the
specification defines, for every r₀ (no division by zero anywhere: Z ≠ 0 is part of `Repr`) -/
theorem elligatorF_spec (H : EllHyp P ζ) (r0 : K) :
    ∃ x y, Repr (elligatorF P S R r0).1 (elligatorF P S R r0).2.1 (elligatorF P S R r0).2.2.1 (elligatorF P S R r0).2.2.2 x y ∧
      ElligatorTo P S ζ r0 x y ∧ OnCurve P.d x y ∧ IsSquare (1 - P.d * x ^ 2) := by
  have hden := ellDen_ne_zero H r0
  have hnum := ellNum_ne_zero H r0
  set r := ζ * r0 ^ 2 with hr
  set den := ellDen P r with hdendef
  set num := ellNum P r with hnumdef
  have hdenE : den = (P.d * r - (P.d + 1)) * ((P.d + 1) * r - P.d) := rfl
  have hnumE : num = (r + 1) * (-1 - 2 * P.d) := rfl
  have hx0 : num * den ≠ 0 := mul_ne_zero hnum hden
  by_cases hsq : IsSquare (num / den)
  · -- square case
    have hsq' : IsSquare ((1 : K) / (num * den)) := (isSquare_inv_mul_iff hnum hden).mpr hsq
    obtain ⟨hf, hi⟩ := R.square 1 (num * den) one_ne_zero hx0 hsq'
    set i := (R.sr 1 (num * den)).2 with hidef
    have hi' : i ^ 2 * num = 1 / den := by
      rw [eq_div_iff hden]; linear_combination hi
    set s0 := i * 1 * num with hs0
    set t := -(1 : K) * (i * 1) * s0 * (r - 1) * (-1 - 2 * P.d) ^ 2 - 1 with htdef
    set sf := if S.neg s0 = true then -s0 else s0 with hsf
    have hsfabs : sf = S.abs s0 := rfl
    have hs2 : sf ^ 2 = num / den := by
      rw [hsfabs, S.abs_sq, hs0, eq_div_iff hden]
      linear_combination num * hi
    have ht : t = -(r - 1) * (-1 - 2 * P.d) ^ 2 / den - 1 := by
      rw [htdef, hs0]
      have : -(1 : K) * (i * 1) * (i * 1 * num) * (r - 1) * (-1 - 2 * P.d) ^ 2 = -(i ^ 2 * num) * (r - 1) * (-1 - 2 * P.d) ^ 2 := by ring
      rw [this, hi']; field_simp
    have hq : t ^ 2 = u2 P sf := by
      unfold u2
      exact quartic_case1 hdenE hden (by rw [hs2, hnumE]) ht
    obtain ⟨hon, hev, hrep⟩ := jq_point hq
    refine ⟨2 * sf / (1 - sf ^ 2), (1 + sf ^ 2) / t, ?_, ?_, hon, hev⟩
    · have : elligatorF P S R r0 = (2 * sf * t, (1 + -1 * sf ^ 2) * (1 - -1 * sf ^ 2), (1 + -1 * sf ^ 2) * t, 2 * sf * (1 - -1 * sf ^ 2)) := by
        unfold elligatorF
        simp only [← hr, ← hdendef, ← hnumdef, hf, if_true]
        rfl
      rw [this]; exact hrep
    · unfold ElligatorTo
      simp only [← hr, ← hdendef, ← hnumdef]
      exact ⟨sf, t, Or.inl ⟨hsq, hs2, by rw [hsfabs]; exact S.abs_nonneg _, ht⟩, rfl, rfl⟩
  · -- non-square case
    have hsq' : ¬ IsSquare ((1 : K) / (num * den)) := fun h => hsq ((isSquare_inv_mul_iff hnum hden).mp h)
    obtain ⟨hf, hi⟩ := R.nonsquare 1 (num * den) one_ne_zero hx0 hsq'
    set i := (R.sr 1 (num * den)).2 with hidef
    have hi' : (i * r0) ^ 2 * num = r / den := by
      rw [eq_div_iff hden, hr]; linear_combination (r0 ^ 2) * hi
    set s0 := i * r0 * num with hs0
    set t := -(-1 : K) * (i * r0) * s0 * (r - 1) * (-1 - 2 * P.d) ^ 2 - 1 with htdef
    set sf := if S.neg s0 = false then -s0 else s0 with hsf
    have hsf2 : sf ^ 2 = s0 ^ 2 := by rw [hsf]; split <;> ring
    have hs2 : sf ^ 2 = r * (num / den) := by
      rw [hsf2, hs0, mul_div_assoc', eq_div_iff hden, hr]
      linear_combination (num * r0 ^ 2) * hi
    have ht : t = r * (r - 1) * (-1 - 2 * P.d) ^ 2 / den - 1 := by
      rw [htdef, hs0]
      have : -(-1 : K) * (i * r0) * (i * r0 * num) * (r - 1) * (-1 - 2 * P.d) ^ 2 = ((i * r0) ^ 2 * num) * (r - 1) * (-1 - 2 * P.d) ^ 2 := by ring
      rw [this, hi']; field_simp
    have hq : t ^ 2 = u2 P sf := by
      unfold u2
      exact quartic_case2 hdenE hden (by rw [hs2, hnumE]) ht
    obtain ⟨hon, hev, hrep⟩ := jq_point hq
    have hnn : S.neg (-sf) = false := by
      rw [hsf]
      by_cases hc : S.neg s0 = false
      · rw [if_pos hc, neg_neg]; exact hc
      · rw [if_neg hc]
        have hc' : S.neg s0 = true := by simpa using hc
        have h0 : s0 ≠ 0 := by rintro h; rw [h, S.neg_zero] at hc'; exact absurd hc' (by simp)
        rw [S.neg_neg s0 h0, hc']; rfl
    refine ⟨2 * sf / (1 - sf ^ 2), (1 + sf ^ 2) / t, ?_, ?_, hon, hev⟩
    · have : elligatorF P S R r0 = (2 * sf * t, (1 + -1 * sf ^ 2) * (1 - -1 * sf ^ 2), (1 + -1 * sf ^ 2) * t, 2 * sf * (1 - -1 * sf ^ 2)) := by
        unfold elligatorF
        simp only [← hr, ← hdendef, ← hnumdef, hf, Bool.false_eq_true, if_false]
        rfl
      rw [this]; exact hrep
    · unfold ElligatorTo
      simp only [← hr, ← hdendef, ← hnumdef]
      exact ⟨sf, t, Or.inr ⟨hsq, hs2, hnn, ht⟩, rfl, rfl⟩

/-- the specification determines the point -/
theorem ElligatorTo.unique {r0 x y x' y' : K} (h : ElligatorTo P S ζ r0 x y) (h' : ElligatorTo P S ζ r0 x' y') :
    x' = x ∧ y' = y := by
  obtain ⟨s, t, hc, hx, hy⟩ := h
  obtain ⟨s', t', hc', hx', hy'⟩ := h'
  have hs : s' = s ∧ t' = t := by
    rcases hc with ⟨hq, h2, hn, ht⟩ | ⟨hq, h2, hn, ht⟩ <;> rcases hc' with ⟨hq', h2', hn', ht'⟩ | ⟨hq', h2', hn', ht'⟩
    · exact ⟨S.eq_of_sq_eq_of_nonneg (h2'.trans h2.symm) hn' hn, ht'.trans ht.symm⟩
    · exact absurd hq hq'
    · exact absurd hq' hq
    · have := S.eq_of_sq_eq_of_nonneg (a := -s') (b := -s) (by rw [neg_sq, neg_sq]; exact h2'.trans h2.symm) hn' hn
      exact ⟨neg_inj.mp this, ht'.trans ht.symm⟩
  rw [hx, hy, hx', hy', hs.1, hs.2]; exact ⟨rfl, rfl⟩

end Decaf
