/-
An abstract sign on a field (src/sign.rs: "negative" = odd canonical representative) and the four-case contract of
the square-root-of-ratio routine.  Everything about encoding, decoding and Elligator is proved for EVERY sign
with these two properties and EVERY routine meeting the contract — hence for both backends and either root.
-/
import Mathlib.Algebra.Field.Basic
import Mathlib.Algebra.Group.Even
import Mathlib.Tactic.FieldSimp
import Mathlib.Tactic.LinearCombination
import Mathlib.Tactic.Ring

namespace Decaf

variable {K : Type*} [Field K]

structure Sign (K : Type*) [Field K] where
  neg : K → Bool
  neg_zero : neg 0 = false
  neg_neg : ∀ z : K, z ≠ 0 → neg (-z) = !neg z

namespace Sign
variable (S : Sign K)

def abs (z : K) : K := if S.neg z then -z else z

theorem abs_of_nonneg {z : K} (h : S.neg z = false) : S.abs z = z := by simp [abs, h]
theorem abs_of_neg {z : K} (h : S.neg z = true) : S.abs z = -z := by simp [abs, h]

@[simp] theorem abs_zero : S.abs 0 = 0 := by simp [abs, S.neg_zero]

theorem abs_eq_self_or_neg (z : K) : S.abs z = z ∨ S.abs z = -z := by
  unfold abs; split <;> simp

theorem abs_nonneg (z : K) : S.neg (S.abs z) = false := by
  unfold abs
  by_cases h : S.neg z = true
  · rw [if_pos h]
    have hz : z ≠ 0 := by rintro rfl; rw [S.neg_zero] at h; exact absurd h (by simp)
    rw [S.neg_neg z hz, h]; rfl
  · rw [if_neg h]; simpa using h

theorem abs_neg (z : K) : S.abs (-z) = S.abs z := by
  by_cases hz : z = 0
  · subst hz; simp
  · unfold abs
    rw [S.neg_neg z hz]
    by_cases h : S.neg z = true
    · simp [h]
    · have : S.neg z = false := by simpa using h
      simp [this]

theorem abs_sq (z : K) : S.abs z ^ 2 = z ^ 2 := by
  rcases S.abs_eq_self_or_neg z with h | h <;> rw [h] <;> ring

theorem abs_eq_zero_iff {z : K} : S.abs z = 0 ↔ z = 0 := by
  rcases S.abs_eq_self_or_neg z with h | h <;> rw [h] <;> simp

/-- two elements with the same square and both non-negative are equal -/
theorem eq_of_sq_eq_of_nonneg {a b : K} (h : a ^ 2 = b ^ 2) (ha : S.neg a = false) (hb : S.neg b = false) : a = b := by
  rcases sq_eq_sq_iff_eq_or_eq_neg.mp h with h1 | h1
  · exact h1
  · by_cases hb0 : b = 0
    · subst hb0; simpa using h1
    · rw [h1, S.neg_neg b hb0, hb] at ha
      exact absurd ha (by simp)

theorem abs_eq_abs_of_sq_eq {a b : K} (h : a ^ 2 = b ^ 2) : S.abs a = S.abs b :=
  S.eq_of_sq_eq_of_nonneg (by rw [S.abs_sq, S.abs_sq, h]) (S.abs_nonneg a) (S.abs_nonneg b)

/-- for z ≠ 0 exactly one of z, -z is non-negative -/
theorem nonneg_or_neg_nonneg {z : K} (hz : z ≠ 0) : (S.neg z = false ∧ S.neg (-z) = true) ∨ (S.neg z = true ∧ S.neg (-z) = false) := by
  rw [S.neg_neg z hz]
  cases S.neg z <;> simp

/-- `abs (σ * z) = abs z` for a sign σ = ±1 -/
theorem abs_mul_sign {σ z : K} (hσ : σ = 1 ∨ σ = -1) : S.abs (σ * z) = S.abs z := by
  rcases hσ with rfl | rfl
  · rw [one_mul]
  · rw [neg_one_mul, S.abs_neg]

/-- a non-zero element has exactly one non-negative sign multiple -/
theorem sign_unique {A σ1 σ2 : K} (hA : A ≠ 0) (h1 : σ1 = 1 ∨ σ1 = -1) (h2 : σ2 = 1 ∨ σ2 = -1)
    (n1 : S.neg (σ1 * A) = false) (n2 : S.neg (σ2 * A) = false) : σ1 = σ2 := by
  rcases h1 with rfl | rfl <;> rcases h2 with rfl | rfl
  · rfl
  · exfalso
    rw [one_mul] at n1
    rw [neg_one_mul, S.neg_neg A hA, n1] at n2
    exact absurd n2 (by simp)
  · exfalso
    rw [one_mul] at n2
    rw [neg_one_mul, S.neg_neg A hA, n2] at n1
    exact absurd n1 (by simp)
  · rfl

/-- one of ±t makes `z / t` non-negative -/
theorem exists_sign_nonneg (z : K) : ∃ κ : K, (κ = 1 ∨ κ = -1) ∧ S.neg (κ * z) = false := by
  by_cases h : S.neg z = true
  · refine ⟨-1, Or.inr rfl, ?_⟩
    have hz : z ≠ 0 := by rintro rfl; rw [S.neg_zero] at h; exact absurd h (by simp)
    rw [neg_one_mul, S.neg_neg z hz, h]; rfl
  · exact ⟨1, Or.inl rfl, by rw [one_mul]; simpa using h⟩

end Sign

/-- the four-case contract of `sqrt_ratio_zeta` (C09) -/
structure SqrtRatio (K : Type*) [Field K] (ζ : K) where
  sr : K → K → Bool × K
  num_zero : ∀ den, sr 0 den = (true, 0)
  den_zero : ∀ num, num ≠ 0 → sr num 0 = (false, 0)
  square : ∀ num den, num ≠ 0 → den ≠ 0 → IsSquare (num / den) → (sr num den).1 = true ∧ (sr num den).2 ^ 2 * den = num
  nonsquare : ∀ num den, num ≠ 0 → den ≠ 0 → ¬ IsSquare (num / den) →
    (sr num den).1 = false ∧ (sr num den).2 ^ 2 * den = ζ * num

end Decaf
