/-
Executable model of the group layer.  Core Lean only.

Everything above the square root takes the routine as a parameter `sr : Nat → Nat → Option (Bool × Nat)`
(`none` = panic), so one definition models both builds; the theorems quantify over every `sr` that meets
the four-case contract.
-/
import Decaf.Model.Sqrt

namespace Model

/-- src/sign.rs: non-negative iff the canonical value is even -/
def isNeg (x : Nat) : Bool := x % 2 == 1
def fabs (x : Nat) : Nat := if isNeg x then fneg q x else x

def cA : Nat := C17.coeffA
def cD : Nat := C17.coeffD
def cK : Nat := fqLit Gen.min_curve_constants.top.COEFF_K

/-- extended twisted-Edwards coordinates -/
structure Ext where
  X : Nat
  Y : Nat
  Z : Nat
  T : Nat
  deriving Repr, BEq, DecidableEq, Inhabited

abbrev SR := Nat → Nat → Option (Bool × Nat)

inductive DecErr | encoding | length | panic
  deriving Repr, BEq, DecidableEq

namespace Ext

def identity : Ext := ⟨0, 1, 1, 0⟩

/-- min_curve/element.rs:291-332  (8M + 1D, k = 2d) -/
def addMin (p1 p2 : Ext) : Ext :=
  let a := fmul q (fsub q p1.Y p1.X) (fsub q p2.Y p2.X)
  let b := fmul q (fadd q p1.Y p1.X) (fadd q p2.Y p2.X)
  let c := fmul q (fmul q cK p1.T) p2.T
  let d := fmul q (fadd q p1.Z p1.Z) p2.Z
  let e := fsub q b a
  let f := fsub q d c
  let g := fadd q d c
  let h := fadd q b a
  ⟨fmul q e f, fmul q g h, fmul q f g, fmul q e h⟩

/-- min_curve/element.rs:119-136 -/
def doubleMin (p : Ext) : Ext :=
  let a := fsq q p.X
  let b := fsq q p.Y
  let c := fsq q p.Z
  let c := fadd q c c
  let d := fneg q a
  let e := fsub q (fsub q (fsq q (fadd q p.X p.Y)) a) b
  let g := fadd q d b
  let f := fsub q g c
  let h := fsub q d b
  ⟨fmul q e f, fmul q g h, fmul q f g, fmul q e h⟩

def neg (p : Ext) : Ext := ⟨fneg q p.X, p.Y, p.Z, fneg q p.T⟩

def subMin (p1 p2 : Ext) : Ext := addMin p1 (neg p2)

/-- the reference affine law (complete on E): what arkworks' `Projective` arithmetic denotes -/
def affine (p : Ext) : Nat × Nat :=
  let zi := finv q p.Z
  (fmul q p.X zi, fmul q p.Y zi)

def ofAffine (xy : Nat × Nat) : Ext := ⟨xy.1, xy.2, 1, fmul q xy.1 xy.2⟩

def addAffine (a b : Nat × Nat) : Nat × Nat :=
  let (x1, y1) := a
  let (x2, y2) := b
  let m := fmul q cD (fmul q (fmul q x1 x2) (fmul q y1 y2))
  (fmul q (fadd q (fmul q x1 y2) (fmul q y1 x2)) (finv q (fadd q 1 m)),
   fmul q (fsub q (fmul q y1 y2) (fmul q cA (fmul q x1 x2))) (finv q (fsub q 1 m)))

def addRef (p1 p2 : Ext) : Ext := ofAffine (addAffine p1.affine p2.affine)
def doubleRef (p : Ext) : Ext := addRef p p
def subRef (p1 p2 : Ext) : Ext := addRef p1 (neg p2)

/-- `PartialEq`: x1*y2 == y1*x2 -/
def eq (p1 p2 : Ext) : Bool := fmul q p1.X p2.Y == fmul q p1.Y p2.X
def isIdentity (p : Ext) : Bool := p.X == 0

/-- LSB-first ladder over 64-bit limbs (`scalar_mul_both`), `add`/`dbl` abstract -/
def ladderLsbAux (add : Ext → Ext → Ext) (dbl : Ext → Ext) : List Bool → Ext → Ext → Ext
  | [], acc, _ => acc
  | b :: bs, acc, ins => ladderLsbAux add dbl bs (if b then add acc ins else acc) (dbl ins)

def scalarMulMin (p : Ext) (limbs : List Nat) : Ext :=
  ladderLsbAux addMin doubleMin (limbsBits limbs) identity p

/-- arkworks `mul_bigint`: MSB-first double-and-add, skipping leading zeros -/
def ladderMsbAux (add : Ext → Ext → Ext) (dbl : Ext → Ext) (p : Ext) : List Bool → Ext → Ext
  | [], acc => acc
  | b :: bs, acc =>
    let acc := dbl acc
    ladderMsbAux add dbl p bs (if b then add acc p else acc)

def scalarMulRef (p : Ext) (limbs : List Nat) : Ext :=
  ladderMsbAux addRef doubleRef p ((limbsBits limbs).reverse.dropWhile (· == false)) identity

/-- encode (ark_curve/encoding.rs:94-112, min_curve/element.rs:163-180) -/
def encodeField (sr : SR) (p : Ext) : Option Nat :=
  let aMinusD := fsub q cA cD
  let u1 := fmul q (fadd q p.X p.T) (fsub q p.X p.T)
  match sr 1 (fmul q (fmul q u1 aMinusD) (fsq q p.X)) with
  | none => none
  | some (_, v) =>
    let u2 := fabs (fmul q v u1)
    let u3 := fsub q (fmul q u2 p.Z) p.T
    some (fabs (fmul q (fmul q (fmul q aMinusD v) u3) p.X))

def encode (sr : SR) (p : Ext) : Option (List Nat) := (encodeField sr p).map (fun s => toLeBytes s 32)

end Ext

/-- canonical parse of 32 bytes as an Fq element (`deserialize_compressed` / `from_bytes_checked`) -/
def fqFromBytesChecked (bytes : List Nat) : Option Nat :=
  let v := leBytes bytes
  if v < q then some v else none

/-- decoding of an already parsed, canonical field element (steps 2-6 of `vartime_decompress`) -/
def decodeField (sr : SR) (s : Nat) : Except DecErr Ext :=
  if isNeg s then .error .encoding
  else
    let ss := fsq q s
    let u1 := fsub q 1 ss
    let u2 := fsub q (fsq q u1) (fmul q (fmul q 4 cD) ss)
    match sr 1 (fmul q u2 (fsq q u1)) with
    | none => .error .panic
    | some (wasSquare, v) =>
      if !wasSquare then .error .encoding
      else
        let twoSU1 := fmul q (fmul q 2 s) u1
        let check := fmul q twoSU1 v
        let v := if isNeg check then fneg q v else v
        let x := fmul q (fmul q twoSU1 (fsq q v)) u2
        let y := fmul q (fmul q (fadd q 1 ss) v) u1
        .ok ⟨x, y, 1, fmul q x y⟩

/-- decode (ark_curve/encoding.rs:32-86, min_curve/element.rs:248-288); input: exactly 32 bytes -/
def decode32 (sr : SR) (bytes : List Nat) : Except DecErr Ext :=
  if bytes.getD 31 0 / 32 != 0 then .error .encoding
  else match fqFromBytesChecked bytes with
  | none => .error .encoding
  | some s => decodeField sr s

/-- `TryFrom<&[u8]>` -/
def decodeSlice (sr : SR) (bytes : List Nat) : Except DecErr Ext :=
  if bytes.length != 32 then .error .length else decode32 sr bytes

/-- Elligator (ark_curve/elligator.rs:16-67, min_curve/element.rs:189-232) -/
def elligator (sr : SR) (zeta : Nat) (r0 : Nat) : Option Ext :=
  let r := fmul q zeta (fsq q r0)
  let den := fmul q (fsub q (fmul q cD r) (fsub q cD cA)) (fsub q (fmul q (fsub q cD cA) r) cD)
  let num := fmul q (fadd q r 1) (fsub q cA (fmul q 2 cD))
  let x := fmul q num den
  match sr 1 x with
  | none => none
  | some (iss, isri) =>
    let sgn := if iss then 1 else fneg q 1
    let twiddle := if iss then 1 else r0
    let isri := fmul q isri twiddle
    let s := fmul q isri num
    let t := fsub q (fmul q (fmul q (fmul q (fmul q (fneg q sgn) isri) s) (fsub q r 1)) (fsq q (fsub q cA (fmul q 2 cD)))) 1
    let s := if isNeg s == iss then fneg q s else s
    let E := fmul q 2 s
    let F := fadd q 1 (fmul q cA (fsq q s))
    let G := fsub q 1 (fmul q cA (fsq q s))
    let H := t
    some ⟨fmul q E H, fmul q F G, fmul q F H, fmul q E G⟩

/-- the two-input hash (`hash_to_curve`): the group sum, by the backend's addition, of the two one-input images -/
def hashToCurve (sr : SR) (zeta : Nat) (add : Ext → Ext → Ext) (r1 r2 : Nat) : Option Ext :=
  (elligator sr zeta r1).bind fun a => (elligator sr zeta r2).bind fun b => some (add a b)

/-! ### Specification (transcription of ristretto.sage, Decaf_1_1_Point with a = -1, d = 3021, cofactor 4,
isoMagic = 1, qnr = ZETA), executable so that the driver can serve as oracle. -/

/-- some square root (by the minimal Tonelli–Shanks), checked -/
def anySqrt (x : Nat) : Option Nat :=
  let y := ourSqrt x
  if fmul q y y == x % q then some y else none

/-- `xsqrt`: the non-negative root, `none` if not a square -/
def xsqrt (x : Nat) : Option Nat := (anySqrt x).map fabs

/-- decodeSpec (ristretto.sage:337-352) on the integer already parsed; `none` = InvalidEncodingException -/
def decodeSpecField (s : Nat) : Option (Nat × Nat) :=
  if isNeg s then none
  else if s == 0 then some (0, 1)
  else
    let a := cA
    let d := cD
    let s2 := fsq q s
    match xsqrt (fadd q (fadd q (fmul q (fsq q a) (fsq q s2)) (fmul q (fmul q 2 (fsub q a (fmul q 2 d))) s2)) 1) with
    | none => none
    | some t =>
      let altx := fmul q (fmul q 2 s) (finv q t)
      let t := if isNeg altx then fneg q t else t
      let x := fmul q (fmul q 2 s) (finv q (fadd q 1 (fmul q a s2)))
      let y := fmul q (fsub q 1 (fmul q a s2)) (finv q t)
      some (x, y)

/-- bytesToGf(mustBeProper, mustBePositive) then decodeSpec -/
def decodeSpec (bytes : List Nat) : Option (Nat × Nat) :=
  if bytes.length != 32 then none
  else if leBytes bytes ≥ q then none
  else decodeSpecField (leBytes bytes)

/-- encodeSpec (ristretto.sage:320-334) on an affine point of the even subgroup -/
def encodeSpecField (xy : Nat × Nat) : Option Nat :=
  let (x, y) := xy
  if x == 0 || y == 0 then some 0
  else
    match xsqrt (fsub q 1 (fmul q cA (fsq q x))) with
    | none => none
    | some sr =>
      let altx := fmul q (fmul q x y) (finv q sr)
      let s := if isNeg altx then fmul q (fadd q 1 sr) (finv q x) else fmul q (fsub q 1 sr) (finv q x)
      some (fabs s)

/-- elligatorSpec (ristretto.sage:562-583) followed by fromJacobiQuartic -/
def elligatorSpec (zeta r0 : Nat) : Option (Nat × Nat) :=
  let a := cA
  let d := cD
  let r := fmul q zeta (fsq q r0)
  let den := fmul q (fsub q (fmul q d r) (fsub q d a)) (fsub q (fmul q (fsub q d a) r) d)
  if den == 0 then some (0, 1)
  else
    let n1 := fmul q (fmul q (fadd q r 1) (fsub q a (fmul q 2 d))) (finv q den)
    let n2 := fmul q r n1
    let am2d2 := fsq q (fsub q a (fmul q 2 d))
    let st : Option (Nat × Nat) :=
      match xsqrt n1 with
      | some s => some (s, fsub q (fmul q (fmul q (fneg q (fsub q r 1)) am2d2) (finv q den)) 1)
      | none =>
        match xsqrt n2 with
        | some s => some (fneg q s, fsub q (fmul q (fmul q (fmul q r (fsub q r 1)) am2d2) (finv q den)) 1)
        | none => none
    match st with
    | none => none
    | some (s, t) =>
      if s == 0 then some (0, 1)
      else some (fmul q (fmul q 2 s) (finv q (fadd q 1 (fmul q a (fsq q s)))),
                 fmul q (fsub q 1 (fmul q a (fsq q s))) (finv q t))

end Model
