/-
Line-protocol interpreter over the model (shared by the `driver` executable).  Core Lean only.
See /verif/DESIGN.md §2.4 for the protocol.  Output is canonical text, one line per input line.
-/
import Decaf.Model.Curve
import Decaf.Model.Glue
import Decaf.Model.R1cs

namespace Model.Exec
open Model

def hexDigit (c : Char) : Option Nat :=
  if '0' ≤ c ∧ c ≤ '9' then some (c.toNat - 48)
  else if 'a' ≤ c ∧ c ≤ 'f' then some (c.toNat - 87)
  else if 'A' ≤ c ∧ c ≤ 'F' then some (c.toNat - 55)
  else none

def parseHexAux : List Char → List Nat → Option (List Nat)
  | [], acc => some acc.reverse
  | [_], _ => none
  | a :: b :: rest, acc =>
    match hexDigit a, hexDigit b with
    | some x, some y => parseHexAux rest ((16 * x + y) :: acc)
    | _, _ => none

/-- "-" is the empty byte string -/
def parseHex (s : String) : Option (List Nat) :=
  if s == "-" then some [] else parseHexAux s.toList []

def hexChar (n : Nat) : Char := if n < 10 then Char.ofNat (48 + n) else Char.ofNat (87 + n)

def toHex (bs : List Nat) : String :=
  if bs.isEmpty then "-" else String.ofList (bs.flatMap (fun b => [hexChar (b / 16), hexChar (b % 16)]))

def parseLimbs (s : String) : Option (List Nat) :=
  if s == "-" then some [] else (s.splitOn ",").mapM (fun t => t.toNat?)

structure Build where
  name : String
  sr : SR
  add : Ext → Ext → Ext
  dbl : Ext → Ext
  zeta : Nat

def arkBuild : Build := ⟨"ark", sqrtRatioArk, Ext.addRef, Ext.doubleRef, ZETA⟩
def minBuild : Build := ⟨"min", sqrtRatioMin, Ext.addMin, Ext.doubleMin, ZETA_min⟩

def fqP : FP := ⟨q, 4, 253, fqLit Gen.fields_fq.Fq.FIELD_SIZE_POWER_OF_TWO⟩
def frP : FP := ⟨r, 4, 251, frLit Gen.fields_fr.Fr.FIELD_SIZE_POWER_OF_TWO⟩
def fpP : FP := ⟨p, 6, 377, fpLit Gen.fields_fp.Fp.FIELD_SIZE_POWER_OF_TWO⟩

def fieldOf (s : String) : Option (FP × List Nat) :=
  match s with
  | "fq" => some (fqP, Gen.fields_fq.Fq.MODULUS_LIMBS.nats)
  | "fr" => some (frP, Gen.fields_fr.Fr.MODULUS_LIMBS.nats)
  | "fp" => some (fpP, Gen.fields_fp.Fp.MODULUS_LIMBS.nats)
  | _ => none

/-- parse a canonical field element given as hex of N_8 LE bytes -/
def parseFe (F : FP) (s : String) : Option Nat :=
  match parseHex s with
  | some bs => if bs.length == F.n8 && leBytes bs < F.m then some (leBytes bs) else none
  | none => none

def feHex (F : FP) (x : Nat) : String := toHex (F.toBytesLe x)

def ordStr : Ordering → String
  | .lt => "lt" | .eq => "eq" | .gt => "gt"

/-- `AffineRepr::from_random_bytes` (ark_curve/element.rs, after repair): arkworks' `get_point_from_y_unchecked`
on `y = from_le_bytes_mod_order(bytes)` with the default (non-negative) flag, then doubled.  `none` = `None`. -/
def fromRandomBytes (bytes : List Nat) : Option Ext :=
  let y := fqP.fromLeBytesModOrder bytes
  let y2 := fsq q y
  let num := fsub q 1 y2
  let den := fsub q cA (fmul q y2 cD)
  if den == 0 then none
  else
    let x2 := fmul q (finv q den) num
    match fqSqrt x2 with
    | some (some x) =>
      let nx := fneg q x
      let x' := if x ≤ nx then x else nx
      some (Ext.doubleRef (Ext.ofAffine (x', y)))
    | _ => none

/-- the validity oracle of C06, evaluated on the model -/
def validExt (B : Build) (e : Ext) : Bool :=
  let rt := match e.encode B.sr with
    | some bs => (match decodeSlice B.sr bs with | .ok e' => e'.eq e | _ => false)
    | none => false
  let rp := Ext.ladderLsbAux B.add B.dbl (limbsBits (toLimbs 64 r 4)) Ext.identity e
  let (x, y) := e.affine
  rt && rp.isIdentity && C17.onCurve x y

/-! ### group programs -/

def getReg (regs : List (String × Ext)) (r : String) : Option Ext := (regs.find? (·.1 == r)).map (·.2)

def baseName (op : String) : String := (op.splitOn ".").headD ""

def scalarOfHex (s : String) : Option (List Nat) :=
  (parseFe frP s).map (fun k => toLimbs 64 k 4)

def genExt : Ext := ⟨C17.bx, C17.by', 1, C17.bt⟩

/-- one statement `dst=op:args`; returns the new register file or an error tag -/
def execAssign (B : Build) (regs : List (String × Ext)) (dst op : String) (args : List String) :
    Except String (List (String × Ext)) :=
  let put (e : Ext) : Except String (List (String × Ext)) := .ok ((dst, e) :: regs.filter (·.1 != dst))
  let reg (r : String) : Except String Ext := match getReg regs r with | some e => .ok e | none => .error "badreg"
  match baseName op, args with
  | "gen", [] => put genExt
  | "id", [] => put Ext.identity
  | "dec", [h] =>
    -- every (Compress, Validate) mode other than (Yes, Yes) of the stream deserialisers is `unimplemented!()`
    if ["deser_elem_unc", "deser_elem_unchecked", "deser_elem_unc_unchecked", "deser_aff_unc", "deser_aff_unchecked",
        "deser_aff_unc_unchecked"].contains ((op.splitOn ".").getD 1 "") then .error "panic" else
    match parseHex h with
    | none => .error "bad-op"
    | some bs => match decodeSlice B.sr bs with
      | .ok e => put e
      | .error .encoding => .error "err-enc"
      | .error .length => .error "err-len"
      | .error .panic => .error "panic"
  | "ell", [h] =>
    match parseFe fqP h with
    | none => .error "bad-op"
    | some r0 => match elligator B.sr B.zeta r0 with | some e => put e | none => .error "panic"
  | "h2c", [h1, h2] =>
    match parseFe fqP h1, parseFe fqP h2 with
    | some r1, some r2 =>
      match hashToCurve B.sr B.zeta B.add r1 r2 with
      | some e => put e
      | none => .error "panic"
    | _, _ => .error "bad-op"
  | "frb", [h] =>
    match parseHex h with
    | none => .error "bad-op"
    | some bs => match fromRandomBytes bs with | some e => put e | none => .error "none"
  | "add", [a, b] => do put (B.add (← reg a) (← reg b))
  | "sub", [a, b] => do put (B.add (← reg a) (Ext.neg (← reg b)))
  | "neg", [a] => do put (Ext.neg (← reg a))
  | "dbl", [a] => do put (B.dbl (← reg a))
  | "aff", [a] => do put (Ext.ofAffine (← reg a).affine)
  | "nbat", rs | "bconv", rs =>
    -- entry i (the form) of a batch normalisation: the affine form of that element
    match ((op.splitOn ".").getD 1 "").toNat? with
    | some i => match rs[i]? with
      | some a => do put (Ext.ofAffine (← reg a).affine)
      | none => .error "bad-op"
    | none => .error "bad-op"
  | "redec", [a] => do
    let e ← reg a
    match e.encode B.sr with
    | none => .error "panic"
    | some bs => match decodeSlice B.sr bs with
      | .ok e' => put e'
      | .error .encoding => .error "err-enc"
      | .error .length => .error "err-len"
      | .error .panic => .error "panic"
  | "mul", [a, k] =>
    match scalarOfHex k with
    | none => .error "bad-op"
    | some limbs => do
      let e ← reg a
      put (if B.name == "min" then Ext.ladderLsbAux B.add B.dbl (limbsBits limbs) Ext.identity e
           else Ext.ladderMsbAux B.add B.dbl e ((limbsBits limbs).reverse.dropWhile (· == false)) Ext.identity)
  | "mulbig", [a, ls] =>
    match parseLimbs (ls.replace "+" ",") with
    | none => .error "bad-op"
    | some limbs => do
      let e ← reg a
      put (if B.name == "min" then Ext.ladderLsbAux B.add B.dbl (limbsBits limbs) Ext.identity e
           else Ext.ladderMsbAux B.add B.dbl e ((limbsBits limbs).reverse.dropWhile (· == false)) Ext.identity)
  | "sum", rs => do
    let es ← rs.mapM reg
    put (es.foldl B.add Ext.identity)
  | "msm", kvs => do
    -- args alternate: reg, scalar, reg, scalar, …
    let rec go : List String → Ext → Except String Ext
      | a :: k :: rest, acc =>
        match scalarOfHex k, getReg regs a with
        | some limbs, some e =>
          go rest (B.add acc (Ext.ladderLsbAux B.add B.dbl (limbsBits limbs) Ext.identity e))
        | _, _ => .error "bad-op"
      | [], acc => .ok acc
      | _, _ => .error "bad-op"
    put (← go kvs Ext.identity)
  | _, _ => .error "bad-op"

def execOutput (B : Build) (regs : List (String × Ext)) (op : String) (args : List String) : String :=
  let reg (r : String) := getReg regs r
  match baseName op, args with
  | "enc", [a] =>
    match reg a with
    | none => "badreg"
    | some e => match e.encode B.sr with | some bs => toHex bs | none => "panic"
  | "specenc", [a] =>
    match reg a with
    | none => "badreg"
    | some e => match encodeSpecField e.affine with | some s => toHex (toLeBytes s 32) | none => "spec-undefined"
  | "eq", [a, b] =>
    match reg a, reg b with
    | some x, some y => if x.eq y then "1" else "0"
    | _, _ => "badreg"
  | "isid", [a] =>
    match reg a with
    | some x => if x.isIdentity then "1" else "0"
    | none => "badreg"
  | "valid", [a] =>
    match reg a with
    | some x => if validExt B x then "valid" else "INVALID"
    | none => "badreg"
  | "heq", [a, b] =>
    -- hash equality: after repair the hash input is the encoding
    match reg a, reg b with
    | some x, some y => if x.encode B.sr == y.encode B.sr then "1" else "0"
    | _, _ => "badreg"
  | _, _ => "bad-op"

def execProg (B : Build) (prog : String) : String := Id.run do
  let stmts := prog.splitOn ";"
  let mut regs : List (String × Ext) := []
  let mut outs : List String := []
  for st in stmts do
    if st.isEmpty then continue
    match st.splitOn "=" with
    | [dst, rhs] =>
      let (op, args) := match rhs.splitOn ":" with
        | [o] => (o, ([] : List String))
        | [o, a] => (o, if a.isEmpty then [] else a.splitOn ",")
        | _ => ("bad", [])
      match execAssign B regs dst op args with
      | .ok r => regs := r
      | .error e => return String.intercalate " " (outs.reverse ++ [e])
    | [rhs] =>
      let (op, args) := match rhs.splitOn ":" with
        | [o, a] => (o, a.splitOn ",")
        | _ => ("bad", [])
      outs := execOutput B regs op args :: outs
    | _ => return String.intercalate " " (outs.reverse ++ ["bad-op"])
  return String.intercalate " " outs.reverse

/-! ### field ops: `f.<field>.<op>[.<form>] args…` -/

def boolStr (b : Bool) : String := if b then "1" else "0"

def execField (B : Build) (fld op : String) (args : List String) : String :=
  match fieldOf fld with
  | none => "bad-op"
  | some (F, modLimbs) =>
    let fe := parseFe F
    let out := feHex F
    match op, args with
    | "add", [a, b] => match fe a, fe b with | some x, some y => out (fadd F.m x y) | _, _ => "bad-op"
    | "sub", [a, b] => match fe a, fe b with | some x, some y => out (fsub F.m x y) | _, _ => "bad-op"
    | "mul", [a, b] => match fe a, fe b with | some x, some y => out (fmul F.m x y) | _, _ => "bad-op"
    | "div", [a, b] => match fe a, fe b with
        | some x, some y => if y == 0 then "panic" else out (fdiv F.m x y) | _, _ => "bad-op"
    | "neg", [a] => match fe a with | some x => out (fneg F.m x) | _ => "bad-op"
    | "square", [a] => match fe a with | some x => out (fsq F.m x) | _ => "bad-op"
    | "double", [a] => match fe a with | some x => out (fadd F.m x x) | _ => "bad-op"
    | "inv", [a] => match fe a with
        | some x => (match F.inverse x with | some y => out y | none => "none") | _ => "bad-op"
    | "pow", [a, ls] => match fe a, parseLimbs ls with
        | some x, some l => out (F.powLimbs x l) | _, _ => "bad-op"
    | "power", [a, ls] => match fe a, parseLimbs ls with
        | some x, some l => out (F.power x l) | _, _ => "bad-op"
    | "sum", [as] => match (if as == "-" then some [] else (as.splitOn ",").mapM fe) with
        | some xs => out (F.sum xs) | none => "bad-op"
    | "product", [as] => match (if as == "-" then some [] else (as.splitOn ",").mapM fe) with
        | some xs => out (F.product xs) | none => "bad-op"
    | "select", [a, b, c] => match fe a, fe b with
        | some x, some y => out (F.selectLimbs (if B.name == "min" then 32 else 64) x y (c == "1")) | _, _ => "bad-op"
    | "cteq", [a, b] => match fe a, fe b with
        | some x, some y => boolStr (F.ctEq (if B.name == "min" then 32 else 64) x y) | _, _ => "bad-op"
    | "eq", [a, b] => match fe a, fe b with | some x, some y => boolStr (x == y) | _, _ => "bad-op"
    | "from_le_mod", [h] => match parseHex h with | some bs => out (F.fromLeBytesModOrder bs) | none => "bad-op"
    | "from_be_mod", [h] => match parseHex h with | some bs => out (F.fromBeBytesModOrder bs) | none => "bad-op"
    | "from_bytes_checked", [h] => match parseHex h with
        | some bs => if bs.length != F.n8 then "bad-op" else
            match F.fromBytesChecked bs with | some x => "ok " ++ out x | none => "err"
        | none => "bad-op"
    | "to_bytes", [a] => match fe a with | some x => out x | none => "bad-op"
    | "from_bigint", [ls] => match parseLimbs ls with
        | some l => if l.length != F.nl then "bad-op" else
            match F.fromBigint l modLimbs with | some x => "some " ++ out x | none => "none"
        | none => "bad-op"
    | "from_mont", [ls] => match parseLimbs ls with
        | some l => if l.length != F.nl then "bad-op" else
            -- in-range Montgomery limbs denote M·R⁻¹ mod p; out-of-range limbs are outside every property
            if Lit.ofLimbs 64 l < F.m then out (F.fromMont (Lit.ofLimbs 64 l)) else "out-of-range"
        | none => "bad-op"
    | "into_bigint", [a] => match fe a with
        | some x => String.intercalate "," ((F.toLeLimbs x).map toString) | none => "bad-op"
    | "ser_flags", [k, fl, a] => match fe a, k.toNat?, fl.toNat? with
        | some x, some kind, some flag =>
          let mask := match kind, flag with
            | 0, _ => 0 | 1, 1 => 128 | 1, _ => 0 | 2, 1 => 128 | 2, 2 => 64 | 2, _ => 0
            | k, f => if k ≥ 8 then f % 256 else (f % 2 ^ k) * 2 ^ (8 - k)
          (match F.serWithFlags x (FP.flagBitsOf kind) mask with | some bs => toHex bs | none => "err")
        | _, _, _ => "bad-op"
    | "deser_flags", [k, h] => match parseHex h, k.toNat? with
        | some bs, some kind =>
          (match F.deserWithFlags kind bs modLimbs with
           | .ok (v, flag) => s!"ok {out v} {flag}"
           | .error .io => "err-io" | .error .unexpectedFlags => "err-flags" | .error .invalidData => "err-data")
        | _, _ => "bad-op"
    | "cmp", [a, b] => match fe a, fe b with | some x, some y => ordStr (F.cmp x y) | _, _ => "bad-op"
    | "hash_eq", [a, b] => match fe a, fe b with | some x, some y => boolStr (F.toBytesLe x == F.toBytesLe y) | _, _ => "bad-op"
    | "from_u128", [n] => match n.toNat? with | some v => out (v % F.m) | none => "bad-op"
    | "from_str", [s] => match F.fromStr (if s == "-" then [] else s.toList) with | some x => "ok " ++ out x | none => "err"
    | "display", [a] => match fe a with | some x => (let d := FP.display x; if d.isEmpty then "-" else d) | none => "bad-op"
    | "biguint_rt", [h] => match parseHex h with | some bs => out (F.fromLeBytesModOrder bs) | none => "bad-op"
    | "sqrt", [a] => match fe a with
        | some x =>
          let res : Option (Option Nat) := if fld == "fq" then fqSqrt x else if fld == "fp" then fpSqrt x else some (frSqrt x)
          (match res with
           | none => "nonterm"
           | some none => "none"
           | some (some y) => "some " ++ out (if y % 2 == 1 then fneg F.m y else y))   -- canonicalised: the even root
        | none => "bad-op"
    | "legendre", [a] => match fe a with
        | some x => toString (legendre F.m (toLimbs 64 ((F.m - 1) / 2) F.nl) x) | none => "bad-op"
    | "const", [name] =>
      let limbs (l : Lit) := String.intercalate "," (l.nats.map toString)
      (match fld, name with
      | _, "ZERO" => out 0
      | _, "ONE" => out (1 % F.m)
      | "fq", "MULTIPLICATIVE_GENERATOR" => out (fqLit Gen.fields_fq.Fq.MULTIPLICATIVE_GENERATOR)
      | "fr", "MULTIPLICATIVE_GENERATOR" => out (frLit Gen.fields_fr.Fr.MULTIPLICATIVE_GENERATOR)
      | "fp", "MULTIPLICATIVE_GENERATOR" => out (fpLit Gen.fields_fp.Fp.MULTIPLICATIVE_GENERATOR)
      | "fq", "TWO_ADIC_ROOT_OF_UNITY" => out (fqLit Gen.fields_fq.Fq.TWO_ADIC_ROOT_OF_UNITY)
      | "fr", "TWO_ADIC_ROOT_OF_UNITY" => out (frLit Gen.fields_fr.Fr.TWO_ADIC_ROOT_OF_UNITY)
      | "fp", "TWO_ADIC_ROOT_OF_UNITY" => out (fpLit Gen.fields_fp.Fp.TWO_ADIC_ROOT_OF_UNITY)
      | "fq", "FIELD_SIZE_POWER_OF_TWO" => out (fqLit Gen.fields_fq.Fq.FIELD_SIZE_POWER_OF_TWO)
      | "fr", "FIELD_SIZE_POWER_OF_TWO" => out (frLit Gen.fields_fr.Fr.FIELD_SIZE_POWER_OF_TWO)
      | "fp", "FIELD_SIZE_POWER_OF_TWO" => out (fpLit Gen.fields_fp.Fp.FIELD_SIZE_POWER_OF_TWO)
      | "fq", "QUADRATIC_NON_RESIDUE_TO_TRACE" => out (fqLit Gen.fields_fq.Fq.QUADRATIC_NON_RESIDUE_TO_TRACE)
      | "fp", "QUADRATIC_NON_RESIDUE_TO_TRACE" => out (fpLit Gen.fields_fp.Fp.QUADRATIC_NON_RESIDUE_TO_TRACE)
      | "fq", "ZETA" => out B.zeta
      | "fp", "MINUS_ONE" => out (if B.name == "min" then fpLit Gen.fields_fp_u32_wrapper.Fp.MINUS_ONE else fpLit Gen.fields_fp_u64_wrapper.Fp.MINUS_ONE)
      | "fp", "QUADRATIC_NON_RESIDUE" => out (if B.name == "min" then fpLit Gen.fields_fp_u32_wrapper.Fp.QUADRATIC_NON_RESIDUE else fpLit Gen.fields_fp_u64_wrapper.Fp.QUADRATIC_NON_RESIDUE)
      | "fq", "MODULUS_LIMBS" => limbs Gen.fields_fq.Fq.MODULUS_LIMBS
      | "fr", "MODULUS_LIMBS" => limbs Gen.fields_fr.Fr.MODULUS_LIMBS
      | "fp", "MODULUS_LIMBS" => limbs Gen.fields_fp.Fp.MODULUS_LIMBS
      | "fq", "MODULUS_MINUS_ONE_DIV_TWO_LIMBS" => limbs Gen.fields_fq.Fq.MODULUS_MINUS_ONE_DIV_TWO_LIMBS
      | "fr", "MODULUS_MINUS_ONE_DIV_TWO_LIMBS" => limbs Gen.fields_fr.Fr.MODULUS_MINUS_ONE_DIV_TWO_LIMBS
      | "fp", "MODULUS_MINUS_ONE_DIV_TWO_LIMBS" => limbs Gen.fields_fp.Fp.MODULUS_MINUS_ONE_DIV_TWO_LIMBS
      | "fq", "TRACE_LIMBS" => limbs Gen.fields_fq.Fq.TRACE_LIMBS
      | "fr", "TRACE_LIMBS" => limbs Gen.fields_fr.Fr.TRACE_LIMBS
      | "fp", "TRACE_LIMBS" => limbs Gen.fields_fp.Fp.TRACE_LIMBS
      | "fq", "TRACE_MINUS_ONE_DIV_TWO_LIMBS" => limbs Gen.fields_fq.Fq.TRACE_MINUS_ONE_DIV_TWO_LIMBS
      | "fr", "TRACE_MINUS_ONE_DIV_TWO_LIMBS" => limbs Gen.fields_fr.Fr.TRACE_MINUS_ONE_DIV_TWO_LIMBS
      | "fp", "TRACE_MINUS_ONE_DIV_TWO_LIMBS" => limbs Gen.fields_fp.Fp.TRACE_MINUS_ONE_DIV_TWO_LIMBS
      | "fq", "MODULUS_BIT_SIZE" => toString Gen.fields_fq.Fq.MODULUS_BIT_SIZE.natVal
      | "fr", "MODULUS_BIT_SIZE" => toString Gen.fields_fr.Fr.MODULUS_BIT_SIZE.natVal
      | "fp", "MODULUS_BIT_SIZE" => toString Gen.fields_fp.Fp.MODULUS_BIT_SIZE.natVal
      | "fq", "TWO_ADICITY" => toString Gen.fields_fq.Fq.TWO_ADICITY.natVal
      | "fr", "TWO_ADICITY" => toString Gen.fields_fr.Fr.TWO_ADICITY.natVal
      | "fp", "TWO_ADICITY" => toString Gen.fields_fp.Fp.TWO_ADICITY.natVal
      | _, _ => "unsupported")
    | "srz", [a, b] => match fe a, fe b with
        | some x, some y => if fld != "fq" then "bad-op" else
          (match B.sr x y with
           | none => "panic"
           | some (f, v) => s!"{boolStr f} {out (if v % 2 == 1 then fneg q v else v)}")
        | _, _ => "bad-op"
    | _, _ => "bad-op"

/-- Spec-level oracles, independent of the optimised model: `spec.dec <hex>`, `spec.ell <fq>` -/
def execSpec (op : String) (args : List String) : String :=
  match op, args with
  | "dec", [h] => match parseHex h with
      | some bs =>
        if bs.length != 32 then "err-len" else
        (match decodeSpec bs with
        | some xy => (match encodeSpecField xy with | some s => toHex (toLeBytes s 32) | none => "spec-undefined")
        | none => "err-enc")
      | none => "bad-op"
  | "ell", [h] => match parseFe fqP h with
      | some r0 => (match elligatorSpec ZETA r0 with
        | some xy => (match encodeSpecField xy with | some s => toHex (toLeBytes s 32) | none => "spec-undefined")
        | none => "none")
      | none => "bad-op"
  | "gell", [h] => match parseFe fqP h with
      | some r0 => (match elligatorSpec ZETA r0 with
        | some xy => (match encodeSpecField xy with | some s => "sat=1 out=" ++ toHex (toLeBytes s 32) | none => "spec-undefined")
        | none => "none")
      | none => "bad-op"
  | "ell3", [h] => match parseFe fqP h with
      | some r0 => (match elligatorSpec ZETA r0 with
        | some xy => (match encodeSpecField xy with | some s => toHex (toLeBytes s 32) ++ " 1 1" | none => "spec-undefined")
        | none => "none")
      | none => "bad-op"
  | _, _ => "bad-op"

/-! ### gadgets: `g.<op> key=value …` (arkworks build only) -/

def kvGet (args : List String) (k : String) : Option String :=
  args.findSome? (fun a => match a.splitOn "=" with
    | key :: rest => if key == k then some (String.intercalate "=" rest) else none
    | _ => none)

def kvAll (args : List String) (k : String) : List String :=
  args.filterMap (fun a => match a.splitOn "=" with
    | key :: rest => if key == k then some (String.intercalate "=" rest) else none
    | _ => none)

def parseHint (s : String) : Option R1cs.Hint :=
  if s == "honest" then some none
  else match s.splitOn "," with
    | [f, y] => (parseFe fqP y).map (fun yv => some (f == "1", yv))
    | _ => none

/-- the element argument `k=<enc>` / `kxy=<x>,<y>` / `kp=<program with / for ; and ~ for =>` as affine coordinates -/
def elemArg (args : List String) (k : String) : Option (Nat × Nat) :=
  match kvGet args k with
  | some h => (match parseHex h with
      | some bs => (match decodeSlice sqrtRatioArk bs with | .ok e => some e.affine | _ => none)
      | none => none)
  | none =>
    match kvGet args (k ++ "xy") with
    | some xy => (match xy.splitOn "," with
        | [x, y] => (match parseFe fqP x, parseFe fqP y with | some a, some b => some (a, b) | _, _ => none)
        | _ => none)
    | none =>
      match kvGet args (k ++ "p") with
      | some pr =>
        let prog := (pr.replace "/" ";").replace "~" "="
        -- run the program, read register E
        let stmts := prog.splitOn ";"
        let regs := stmts.foldl (fun (acc : Option (List (String × Ext))) st =>
          match acc with
          | none => none
          | some regs =>
            if st.isEmpty then some regs else
            match st.splitOn "=" with
            | [dst, rhs] =>
              let (op, as) := match rhs.splitOn ":" with
                | [o] => (o, ([] : List String))
                | [o, a] => (o, if a.isEmpty then [] else a.splitOn ",")
                | _ => ("bad", [])
              (match execAssign arkBuild regs dst op as with | .ok r => some r | .error _ => none)
            | _ => some regs) (some [])
        (regs.bind (fun r => getReg r "E")).map (·.affine)
      | none => none

def pointOut (xy : Nat × Nat) : String :=
  if C17.onCurve xy.1 xy.2 then
    match (Ext.ofAffine xy).encode sqrtRatioArk with | some bs => toHex bs | none => "panic"
  else "offcurve"

def gOut (sat : Bool) (out : String) : String := s!"sat={boolStr sat} out={out}"

/-- when the system is unsatisfied the values carried are not part of the observable -/
def gOut2 (sat : Bool) (out : String) : String := if sat then gOut true out else "sat=0"

/-- an element-valued gadget result; with `post=enc` also the encoding the compress gadget derives from it -/
def finOut (args : List String) (xy : Nat × Nat) : String :=
  pointOut xy ++ (if kvGet args "post" == some "enc" then ";enc=" ++ feHex fqP (R1cs.compress xy.1 xy.2 none).2 else "")

def execGadget (op : String) (args : List String) : String :=
  let hints := (kvAll args "hint").filterMap parseHint
  let h0 : R1cs.Hint := hints.headD none
  let fq (k : String) := (kvGet args k).bind (parseFe fqP)
  match op with
  | "isqrt" => match fq "x" with
      | some x => let (sat, f, y) := R1cs.isqrt x h0; gOut sat s!"{boolStr f},{feHex fqP (fabs y)}"
      | none => "bad-op"
  | "isneg" => match fq "x" with | some x => gOut true (boolStr (isNeg x)) | none => "bad-op"
  | "isnonneg" => match fq "x" with | some x => gOut true (boolStr (!isNeg x)) | none => "bad-op"
  | "abs" => match fq "x" with | some x => gOut true (feHex fqP (fabs x)) | none => "bad-op"
  | "compress" => match elemArg args "e" with
      | some (x, y) => let (sat, s) := R1cs.compress x y h0; gOut (sat && C17.onCurve x y) (feHex fqP s)
      | none => "bad-elem"
  | "decompress" => match fq "s" with
      | some s => let (sat, x, y) := R1cs.decompress s h0; gOut sat (pointOut (x, y))
      | none => "bad-op"
  | "elligator" => match fq "r0" with
      | some r0 => let (sat, x, y) := R1cs.elligator r0 h0; gOut sat (pointOut (x, y))
      | none => "bad-op"
  | "alloc_witness" | "alloc_witness_aff" => match elemArg args "e" with
      | some (x, y) => let (sat, dx, dy) := R1cs.allocWitness x y h0; gOut sat (pointOut (dx, dy))
      | none => "bad-elem"
  | "alloc_constant" => match elemArg args "e" with
      | some xy => gOut true (pointOut xy)
      | none => "bad-elem"
  | "add" | "add_ref" | "add_asg" | "add_const" | "add_const_asg" => match elemArg args "a", elemArg args "b" with
      | some a, some b => gOut (C17.onCurve a.1 a.2 && C17.onCurve b.1 b.2) (finOut args (Ext.addAffine a b))
      | _, _ => "bad-elem"
  | "sub" | "sub_ref" | "sub_asg" | "sub_const" | "sub_const_asg" => match elemArg args "a", elemArg args "b" with
      | some a, some b => gOut (C17.onCurve a.1 a.2 && C17.onCurve b.1 b.2) (finOut args (Ext.addAffine a (fneg q b.1, b.2)))
      | _, _ => "bad-elem"
  | "neg" => match elemArg args "a" with
      | some a => gOut (C17.onCurve a.1 a.2) (finOut args (fneg q a.1, a.2)) | none => "bad-elem"
  | "dbl" => match elemArg args "a" with
      | some a => gOut (C17.onCurve a.1 a.2) (finOut args (Ext.addAffine a a)) | none => "bad-elem"
  | "iseq" => match elemArg args "a", elemArg args "b" with
      | some a, some b => gOut (C17.onCurve a.1 a.2 && C17.onCurve b.1 b.2) (boolStr (R1cs.isEq a b)) | _, _ => "bad-elem"
  | "enforce_eq" => match elemArg args "a", elemArg args "b" with
      | some a, some b => gOut (C17.onCurve a.1 a.2 && C17.onCurve b.1 b.2 && R1cs.isEq a b) "-" | _, _ => "bad-elem"
  | "enforce_neq" => match elemArg args "a", elemArg args "b" with
      | some a, some b => gOut (C17.onCurve a.1 a.2 && C17.onCurve b.1 b.2 && !R1cs.isEq a b) "-" | _, _ => "bad-elem"
  | "cenforce_eq" => match elemArg args "a", elemArg args "b" with
      | some a, some b => gOut (C17.onCurve a.1 a.2 && C17.onCurve b.1 b.2 && (kvGet args "c" != some "1" || R1cs.isEq a b)) "-" | _, _ => "bad-elem"
  | "cenforce_neq" => match elemArg args "a", elemArg args "b" with
      | some a, some b => gOut (C17.onCurve a.1 a.2 && C17.onCurve b.1 b.2 && (kvGet args "c" != some "1" || !R1cs.isEq a b)) "-" | _, _ => "bad-elem"
  | "select" => match elemArg args "a", elemArg args "b" with
      | some a, some b => gOut (C17.onCurve a.1 a.2 && C17.onCurve b.1 b.2) (finOut args (if kvGet args "c" == some "1" then a else b))
      | _, _ => "bad-elem"
  | "scalarmul" => match elemArg args "a", kvGet args "bits" with
      | some a, some bits =>
        gOut (C17.onCurve a.1 a.2) (finOut args (R1cs.scalarMulLe (bits.toList.map (· == '1')) (0, 1) a))
      | _, _ => "bad-elem"
  | "lazy2" => match fq "s1", fq "s2" with
    | some s1, some s2 =>
      -- both operands are decoded in circuit, whenever that happens: the verdict includes both decodings
      let (sat1, x1, y1) := R1cs.decompress s1 none
      let (sat2, x2, y2) := R1cs.decompress s2 none
      let a := (x1, y1)
      let b := (x2, y2)
      match (kvGet args "bop").getD "" with
      | "iseq" => gOut2 (sat1 && sat2) (boolStr (R1cs.isEq a b))
      | "enforce_eq" => gOut2 (sat1 && sat2 && R1cs.isEq a b) "-"
      | "enforce_neq" => gOut2 (sat1 && sat2 && !R1cs.isEq a b) "-"
      | "cenforce_eq0" => gOut2 (sat1 && sat2) "-"
      | "add" => gOut2 (sat1 && sat2) (pointOut (Ext.addAffine a b))
      | "select" => gOut2 (sat1 && sat2) (pointOut a)
      | _ => "bad-op"
    | _, _ => "bad-op"
  | "lazy" =>
    let ops := ((kvGet args "ops").getD "").splitOn "," |>.filter (· != "")
    let st0 : Option R1cs.Lazy :=
      if kvGet args "from" == some "enc" then (fq "s").map R1cs.Lazy.enc
      else (elemArg args "e").map (fun xy => R1cs.Lazy.elem xy.1 xy.2)
    match st0 with
    | none => "bad-op"
    | some st0 =>
      let init : R1cs.Lazy × List R1cs.Hint × Bool × List String :=
        (st0, hints, (match st0 with | .elem x y => C17.onCurve x y | _ => true), [])
      let (_, _, sat, outs) := ops.foldl (fun (acc : R1cs.Lazy × List R1cs.Hint × Bool × List String) o =>
        let (st, hs, sat, outs) := acc
        let f := if o == "enc" || o == "clone_enc" then R1cs.Force.enc else R1cs.Force.elem
        let (st', em, ok) := st.step f (hs.headD none)
        let hs' := if em == .nothing then hs else hs.drop 1
        let v := match f with
          | .enc => (st'.encVal.map (feHex fqP)).getD "?"
          | .elem => (st'.elemVal.map pointOut).getD "?"
        -- `clone_*` forces a deep copy of the variable (derive(Clone) on the RefCell): the original keeps its state
        ((if o.startsWith "clone_" then st else st'), hs', sat && ok, outs ++ [s!"{o}:{v}+{if em == .nothing then "0" else "N"}"])) init
      gOut sat (String.intercalate "|" outs)
  | _ => "bad-op"

def execLine (B : Build) (line : String) : String :=
  match line.trimAscii.toString.splitOn " " with
  | "prog" :: [p] => execProg B p
  | op :: args =>
    match op.splitOn "." with
    | "f" :: fld :: o :: _ => execField B fld o args
    | "spec" :: o :: _ => execSpec o args
    | "g" :: o :: _ => execGadget o args
    | _ => "bad-op"
  | [] => "bad-op"

end Model.Exec
