/-
Executable models of the square-root routines.  Core Lean only.

* `sqrtRatioArk`  ↔ src/ark_curve/invsqrt.rs   (Sarkar, table driven; a table miss is `none` = the panic)
* `sqrtRatioMin`  ↔ src/min_curve/invsqrt.rs   (Euler + constant-time Tonelli–Shanks)
* `sqrtTS`, `sqrt3Mod4`, `legendre` ↔ ark-ff `SqrtPrecomputation::sqrt` driven by the repository's constants,
  and src/fields/*/arkworks.rs `legendre`.
-/
import Decaf.Model.ConstFacts

namespace Model
open Gen

/-! ### constants of the arkworks routine -/
def ZETA : Nat := fqLit ark_curve_constants.top.ZETA
def sarkN : Nat := ark_curve_constants.top.N.natVal
def sarkW : Nat := ark_curve_constants.top.SQRT_W.natVal
def sarkM : Nat := C17.decNat ark_curve_constants.top.M
def sarkMm1d2 : Nat := C17.decNat ark_curve_constants.top.M_MINUS_ONE_DIV_TWO
def zetaToOneMinusMDiv2 : Nat := fqLit ark_curve_constants.top.ZETA_TO_ONE_MINUS_M_DIV_TWO
/-- `G = ZETA.pow(M)` (constants.rs:57) -/
def sarkG : Nat := powMod ZETA sarkM q

/-- `g{k}[i] = G^(i * 2^k)` (invsqrt.rs:41-51) -/
def gtab (k i : Nat) : Nat := powMod sarkG (i * 2 ^ k) q

/-- the key inserted for `nu`: the inverse of `G^(nu * 2^(N-W))` -/
def skey (nu : Nat) : Nat := finv q (powMod sarkG (nu * 2 ^ (sarkN - sarkW)) q)

/-- `s_lookup`: key `(G^(nu * 2^(N-W)))^{-1}` ↦ `nu`, nu = 0..255 (invsqrt.rs:29-38) -/
def sTableAux : Nat → List (Nat × Nat)
  | 0 => []
  | n + 1 => sTableAux n ++ [(skey n, n)]

def sTable : List (Nat × Nat) := sTableAux 256

/-- HashMap index; a later insert of the same key overwrites, so search from the back -/
def sLookup (x : Nat) : Option Nat := (sTable.reverse.find? (fun kv => kv.1 == x)).map (·.2)

/-! The second phase of `sqrt_ratio_zeta` (invsqrt.rs:86-163), one definition per block of the straight-line code:
five squaring chains, six table lookups (a `none` = the panic of a failed `HashMap` index; `Option.bind` propagates it), the final product. -/

/-- invsqrt.rs:140-163: halve `t`, pick the non-square correction, multiply the table entries -/
def sarkFin (uv q0' t : Nat) : Bool × Nat :=
  let t := (t + 1) / 2
  let ns := if q0' % 2 == 0 then 1 else zetaToOneMinusMDiv2
  let res := fmul q (fmul q (fmul q (fmul q (fmul q (fmul q (fmul q uv ns) (gtab 0 (t % 256)))
                (gtab 8 ((t / 2 ^ 8) % 256))) (gtab 16 ((t / 2 ^ 16) % 256))) (gtab 24 ((t / 2 ^ 24) % 256)))
                (gtab 32 ((t / 2 ^ 32) % 256))) (gtab 40 ((t / 2 ^ 40) % 256))
  (q0' % 2 == 0, res)

def sarkS5 (uv x5 q0' t : Nat) : Option (Bool × Nat) :=
  let alpha5 := fmul q (fmul q (fmul q (fmul q (fmul q x5 (gtab 0 (t % 256))) (gtab 8 ((t / 2 ^ 8) % 256)))
                  (gtab 16 ((t / 2 ^ 16) % 256))) (gtab 24 ((t / 2 ^ 24) % 256))) (gtab 32 ((t / 2 ^ 32) % 256))
  (sLookup alpha5).bind fun q5 => some (sarkFin uv q0' (t + q5 * 2 ^ 39))

def sarkS4 (uv x5 x4 q0' t : Nat) : Option (Bool × Nat) :=
  let alpha4 := fmul q (fmul q (fmul q (fmul q x4 (gtab 8 (t % 256))) (gtab 16 ((t / 2 ^ 8) % 256)))
                  (gtab 24 ((t / 2 ^ 16) % 256))) (gtab 32 ((t / 2 ^ 24) % 256))
  (sLookup alpha4).bind fun q4 => sarkS5 uv x5 q0' (t + q4 * 2 ^ 31)

def sarkS3 (uv x5 x4 x3 q0' t : Nat) : Option (Bool × Nat) :=
  let alpha3 := fmul q (fmul q (fmul q x3 (gtab 16 (t % 256))) (gtab 24 ((t / 2 ^ 8) % 256))) (gtab 32 ((t / 2 ^ 16) % 256))
  (sLookup alpha3).bind fun q3 => sarkS4 uv x5 x4 q0' (t + q3 * 2 ^ 23)

def sarkS2 (uv x5 x4 x3 x2 q0' t : Nat) : Option (Bool × Nat) :=
  let alpha2 := fmul q (fmul q x2 (gtab 24 (t % 256))) (gtab 32 ((t / 2 ^ 8) % 256))
  (sLookup alpha2).bind fun q2 => sarkS3 uv x5 x4 x3 q0' (t + q2 * 2 ^ 15)

def sarkS1 (uv x5 x4 x3 x2 x1 q0' : Nat) : Option (Bool × Nat) :=
  let t := q0'
  let alpha1 := fmul q x1 (gtab 32 (t % 256))
  (sLookup alpha1).bind fun q1' => sarkS2 uv x5 x4 x3 x2 q0' (t + q1' * 2 ^ 7)

def sarkTail (uv x5 : Nat) : Option (Bool × Nat) :=
  let x4 := powMod x5 (2 ^ 8) q
  let x3 := powMod x4 (2 ^ 8) q
  let x2 := powMod x3 (2 ^ 8) q
  let x1 := powMod x2 (2 ^ 8) q
  let x0 := powMod x1 (2 ^ 7) q
  (sLookup x0).bind fun q0' => sarkS1 uv x5 x4 x3 x2 x1 q0'

def sqrtRatioArk (num den : Nat) : Option (Bool × Nat) :=
  if num == 0 then some (true, num)
  else if den == 0 then some (false, den)
  else
    let s := powMod den (2 ^ sarkN - 1) q
    let t := fmul q (fsq q s) den
    let w := fmul q (powMod (fmul q num t) sarkMm1d2 q) s
    let v := fmul q w den
    let uv := fmul q w num
    let x5 := fmul q uv v
    sarkTail uv x5

/-! ### the minimal backend -/

/-- `pow_le_limbs` (min_curve/invsqrt.rs:52-63): LSB-first square and multiply over 64-bit limbs -/
def powLeLimbsAux (m : Nat) : List Bool → Nat → Nat → Nat
  | [], acc, _ => acc
  | b :: bs, acc, ins => powLeLimbsAux m bs (if b then fmul m acc ins else acc) (fmul m ins ins)

def powLeLimbs (m : Nat) (x : Nat) (limbs : List Nat) : Nat := powLeLimbsAux m (limbsBits limbs) (1 % m) x

def iterSq (m : Nat) : Nat → Nat → Nat
  | 0, b => b
  | n + 1, b => iterSq m n (fmul m b b)

/-- the loop `for i in (2..=TWO_ADICITY).rev()` of `our_sqrt`, from `i` downwards; state (z, t, b, c) -/
def ourSqrtLoop : Nat → Nat → Nat → Nat → Nat → Nat
  | 0, z, _, _, _ => z
  | 1, z, _, _, _ => z
  | i + 2, z, t, b, c =>
    let b := iterSq q i b          -- `for _j in 1..=i-2` with i ≥ 2: (i+2)-2 squarings
    let z := if b != 1 then fmul q z c else z
    let c := fmul q c c
    let t := if b != 1 then fmul q t c else t
    ourSqrtLoop (i + 1) z t t c

def QNR_TO_TRACE : Nat := fqLit fields_fq.Fq.QUADRATIC_NON_RESIDUE_TO_TRACE

def ourSqrt (x : Nat) : Nat :=
  let z := powLeLimbs q x fields_fq.Fq.TRACE_MINUS_ONE_DIV_TWO_LIMBS.nats
  let t := fmul q (fmul q z z) x
  let z := fmul q z x
  ourSqrtLoop fields_fq.Fq.TWO_ADICITY.natVal z t t QNR_TO_TRACE

def ZETA_min : Nat := fqLit min_curve_constants.top.ZETA

/-- `None` is the `unwrap` panic of `Div`; unreachable because `den ≠ 0` is tested first -/
def sqrtRatioMin (num den : Nat) : Option (Bool × Nat) :=
  if num == 0 then some (true, num)
  else if den == 0 then some (false, den)
  else
    let x := fmul q num (finv q den)
    let symbol := powLeLimbs q x fields_fq.Fq.MODULUS_MINUS_ONE_DIV_TWO_LIMBS.nats
    if symbol == 1 then some (true, ourSqrt x) else some (false, ourSqrt (fmul q ZETA_min x))

/-! ### arkworks' generic `Field::sqrt` instantiated with the repository's constants -/

/-- find least k ≥ 0 with b^(2^k) = 1, at most `fuel` squarings -/
def findK (m : Nat) : Nat → Nat → Nat → Option Nat
  | 0, _, _ => none
  | fuel + 1, b2k, k => if b2k == 1 % m then some k else findK m fuel (fmul m b2k b2k) (k + 1)

def tsLoop (m s : Nat) : Nat → Nat → Nat → Nat → Nat → Option (Option Nat)
  | 0, _, _, _, _ => none                        -- out of fuel: models non-termination
  | fuel + 1, z, x, b, v =>
    if b == 1 % m then some (some x)
    else match findK m (s + 2) b 0 with
      | none => none
      | some k =>
        if k == s then some none
        else
          let j := v - k
          let w := iterSq m (j - 1) z
          let z := fmul m w w
          tsLoop m s fuel z (fmul m x w) (fmul m b z) k

/-- `SqrtPrecomputation::TonelliShanks::sqrt`; outer `none` = does not terminate within the fuel -/
def sqrtTS (m s zq : Nat) (expLimbs : List Nat) (a : Nat) : Option (Option Nat) :=
  if a == 0 then some (some 0)
  else
    let w := powLeLimbs m a expLimbs
    let x := fmul m w a
    let b := fmul m x w
    match tsLoop m s (s + 2) zq x b s with
    | none => none
    | some none => some none
    | some (some x) => if fmul m x x == a then some (some x) else some none

def sqrt3Mod4 (m : Nat) (expLimbs : List Nat) (a : Nat) : Option Nat :=
  let res := powLeLimbs m a expLimbs
  if fmul m res res == a then some res else none

/-- `legendre` (fields/*/arkworks.rs): 0 zero, 1 residue, 2 non-residue -/
def legendre (m : Nat) (halfLimbs : List Nat) (a : Nat) : Nat :=
  if a == 0 then 0 else if powLeLimbs m a halfLimbs == 1 % m then 1 else 2

def tsParams : Lit → Nat × Lit × List Nat
  | .struct [s, z, e] => (s.natVal, z, e.nats)
  | _ => (0, .unknown, [])

def fqSqrt (a : Nat) : Option (Option Nat) :=
  let (s, z, e) := tsParams fields_fq_arkworks.Field_Fq.SQRT_PRECOMP
  sqrtTS q s (fqLit z) e a
def fpSqrt (a : Nat) : Option (Option Nat) :=
  let (s, z, e) := tsParams fields_fp_arkworks.Field_Fp.SQRT_PRECOMP
  sqrtTS p s (fpLit z) e a
def frSqrt (a : Nat) : Option Nat :=
  match fields_fr_arkworks.Field_Fr.SQRT_PRECOMP with
  | .struct [e] => sqrt3Mod4 r e.nats a
  | _ => none

end Model
