/-
C17: every published constant, as the translator found it, against its defining equation.
Each fact is a closed `Bool`; `Props/C17.lean` proves each `= true` by kernel evaluation, and the driver
prints the same list so that a failed obligation can be named together with expected/actual values.
Core Lean only.
-/
import Decaf.Model.Field

namespace Model
namespace C17
open Gen

/-- data of one prime field as published by the repository -/
structure FieldConsts where
  name : String
  m : Nat
  nl : Nat                 -- 64-bit limbs
  bits : Lit               -- `const B`
  modBitSize : Lit
  halfLimbs : Lit
  traceLimbs : Lit
  halfTraceLimbs : Lit
  twoAdicity : Lit
  gen : Lit
  rootOfUnity : Lit
  fieldSizePow2 : Lit
  oneU32 : Lit
  /-- prime factors of m-1 (certificate data, validated by `factorsOk`) with exponents -/
  factors : List (Nat × Nat)

def fqC : FieldConsts := {
  name := "Fq", m := q, nl := 4, bits := fields_fq.top.B,
  modBitSize := fields_fq.Fq.MODULUS_BIT_SIZE,
  halfLimbs := fields_fq.Fq.MODULUS_MINUS_ONE_DIV_TWO_LIMBS,
  traceLimbs := fields_fq.Fq.TRACE_LIMBS,
  halfTraceLimbs := fields_fq.Fq.TRACE_MINUS_ONE_DIV_TWO_LIMBS,
  twoAdicity := fields_fq.Fq.TWO_ADICITY,
  gen := fields_fq.Fq.MULTIPLICATIVE_GENERATOR,
  rootOfUnity := fields_fq.Fq.TWO_ADIC_ROOT_OF_UNITY,
  fieldSizePow2 := fields_fq.Fq.FIELD_SIZE_POWER_OF_TWO,
  oneU32 := fields_fq_u32_wrapper.Fq.ONE,
  factors := [(2,47),(3,1),(5,1),(7,1),(13,1),(499,1),(9586122913090633729,2),(958612291309063373,1)] }

def frC : FieldConsts := {
  name := "Fr", m := r, nl := 4, bits := fields_fr.top.B,
  modBitSize := fields_fr.Fr.MODULUS_BIT_SIZE,
  halfLimbs := fields_fr.Fr.MODULUS_MINUS_ONE_DIV_TWO_LIMBS,
  traceLimbs := fields_fr.Fr.TRACE_LIMBS,
  halfTraceLimbs := fields_fr.Fr.TRACE_MINUS_ONE_DIV_TWO_LIMBS,
  twoAdicity := fields_fr.Fr.TWO_ADICITY,
  gen := fields_fr.Fr.MULTIPLICATIVE_GENERATOR,
  rootOfUnity := fields_fr.Fr.TWO_ADIC_ROOT_OF_UNITY,
  fieldSizePow2 := fields_fr.Fr.FIELD_SIZE_POWER_OF_TWO,
  oneU32 := fields_fr_u32_wrapper.Fr.ONE,
  factors := [(2,1),(1553,1),(1282495723,1),(4153589585267,1),
              (127594226306900005382664386181896662579473947460767,1)] }

def fpC : FieldConsts := {
  name := "Fp", m := p, nl := 6, bits := fields_fp.top.B,
  modBitSize := fields_fp.Fp.MODULUS_BIT_SIZE,
  halfLimbs := fields_fp.Fp.MODULUS_MINUS_ONE_DIV_TWO_LIMBS,
  traceLimbs := fields_fp.Fp.TRACE_LIMBS,
  halfTraceLimbs := fields_fp.Fp.TRACE_MINUS_ONE_DIV_TWO_LIMBS,
  twoAdicity := fields_fp.Fp.TWO_ADICITY,
  gen := fields_fp.Fp.MULTIPLICATIVE_GENERATOR,
  rootOfUnity := fields_fp.Fp.TWO_ADIC_ROOT_OF_UNITY,
  fieldSizePow2 := fields_fp.Fp.FIELD_SIZE_POWER_OF_TWO,
  oneU32 := fields_fp_u32_wrapper.Fp.ONE,
  factors := [(2,46),(3,1),(7,1),(13,1),(53,1),(409,1),(499,1),(2557,1),(6633514200929891813,1),
              (73387170334035996766247648424745786170238574695861388454532790956181,1)] }

namespace FieldConsts
variable (c : FieldConsts)

def lit (l : Lit) : Nat := litVal c.m c.nl l
def s : Nat := c.twoAdicity.natVal
def t : Nat := c.traceLimbs.limbsVal
def g : Nat := c.lit c.gen

def factorsOk : Bool := (c.factors.foldl (fun acc fe => acc * fe.1 ^ fe.2) 1) == c.m - 1
def halfOk : Bool := c.halfLimbs.limbsVal == (c.m - 1) / 2 && c.m % 2 == 1
def bitSizeOk : Bool :=
  2 ^ (c.modBitSize.natVal - 1) ≤ c.m && c.m < 2 ^ c.modBitSize.natVal && c.bits.natVal == c.modBitSize.natVal
  && c.nl == (c.bits.natVal + 63) / 64
def traceOk : Bool := 2 ^ c.s * c.t == c.m - 1 && c.t % 2 == 1
def halfTraceOk : Bool := c.halfTraceLimbs.limbsVal == (c.t - 1) / 2
def genPrimitiveOk : Bool :=
  c.g != 0 && powMod c.g (c.m - 1) c.m == 1 && c.factors.all (fun fe => powMod c.g ((c.m - 1) / fe.1) c.m != 1)
def rootOfUnityOk : Bool := c.lit c.rootOfUnity == powMod c.g c.t c.m
def fieldSizePow2Ok : Bool := c.lit c.fieldSizePow2 == 2 ^ (8 * ((c.bits.natVal + 7) / 8)) % c.m
def oneU32Ok : Bool := c.lit c.oneU32 == 1
/-- the 32-bit backend uses `N_32 = (B+31)/32` limbs; its radix must equal the 64-bit backend's -/
def radixOk : Bool := 32 * ((c.bits.natVal + 31) / 32) == 64 * c.nl

/-- an element of order exactly `2^s` -/
def orderTwoPow (x : Nat) : Bool := powMod x (2 ^ c.s) c.m == 1 && powMod x (2 ^ (c.s - 1)) c.m != 1

def facts : List (String × Bool) := [
  (c.name ++ ": factorisation of p-1 used by the primitive-root check", c.factorsOk),
  (c.name ++ ".MODULUS_MINUS_ONE_DIV_TWO_LIMBS = (p-1)/2", c.halfOk),
  (c.name ++ ".MODULUS_BIT_SIZE = bit length of p = B; limb count", c.bitSizeOk),
  (c.name ++ ".TWO_ADICITY, TRACE_LIMBS: p-1 = 2^s * t, t odd", c.traceOk),
  (c.name ++ ".TRACE_MINUS_ONE_DIV_TWO_LIMBS = (t-1)/2", c.halfTraceOk),
  (c.name ++ ".MULTIPLICATIVE_GENERATOR is a primitive root", c.genPrimitiveOk),
  (c.name ++ ".TWO_ADIC_ROOT_OF_UNITY = g^t", c.rootOfUnityOk),
  (c.name ++ ".FIELD_SIZE_POWER_OF_TWO = 2^(8*N_8) mod p", c.fieldSizePow2Ok),
  (c.name ++ " u32 backend ONE = R mod p", c.oneU32Ok),
  (c.name ++ " u32/u64 Montgomery radix agree", c.radixOk)]

end FieldConsts

/-! trait-level aliases must denote the inherent constants -/
def aliasFacts : List (String × Bool) := [
  ("PrimeField for Fq: MODULUS", fields_fq_arkworks.PrimeField_Fq.MODULUS.limbsVal == q),
  ("PrimeField for Fq: MODULUS_MINUS_ONE_DIV_TWO", fields_fq_arkworks.PrimeField_Fq.MODULUS_MINUS_ONE_DIV_TWO.limbsVal == (q-1)/2),
  ("PrimeField for Fq: MODULUS_BIT_SIZE", fields_fq_arkworks.PrimeField_Fq.MODULUS_BIT_SIZE.natVal == fields_fq.Fq.MODULUS_BIT_SIZE.natVal),
  ("PrimeField for Fq: TRACE", fields_fq_arkworks.PrimeField_Fq.TRACE.limbsVal == fqC.t),
  ("PrimeField for Fq: TRACE_MINUS_ONE_DIV_TWO", fields_fq_arkworks.PrimeField_Fq.TRACE_MINUS_ONE_DIV_TWO.limbsVal == (fqC.t-1)/2),
  ("FftField for Fq: GENERATOR", fqLit fields_fq_arkworks.FftField_Fq.GENERATOR == fqC.g),
  ("FftField for Fq: TWO_ADICITY", fields_fq_arkworks.FftField_Fq.TWO_ADICITY.natVal == fqC.s),
  ("FftField for Fq: TWO_ADIC_ROOT_OF_UNITY", fqLit fields_fq_arkworks.FftField_Fq.TWO_ADIC_ROOT_OF_UNITY == powMod fqC.g fqC.t q),
  ("Field for Fq: ZERO, ONE", fqLit fields_fq_arkworks.Field_Fq.ZERO == 0 && fqLit fields_fq_arkworks.Field_Fq.ONE == 1),
  ("Fq u64 ZERO/ONE", fqLit fields_fq_u64_wrapper.Fq.ZERO == 0 && fqLit fields_fq_u64_wrapper.Fq.ONE == 1),
  ("PrimeField for Fr: MODULUS", fields_fr_arkworks.PrimeField_Fr.MODULUS.limbsVal == r),
  ("PrimeField for Fr: MODULUS_MINUS_ONE_DIV_TWO", fields_fr_arkworks.PrimeField_Fr.MODULUS_MINUS_ONE_DIV_TWO.limbsVal == (r-1)/2),
  ("PrimeField for Fr: MODULUS_BIT_SIZE", fields_fr_arkworks.PrimeField_Fr.MODULUS_BIT_SIZE.natVal == fields_fr.Fr.MODULUS_BIT_SIZE.natVal),
  ("PrimeField for Fr: TRACE", fields_fr_arkworks.PrimeField_Fr.TRACE.limbsVal * 2 ^ fields_fr_arkworks.FftField_Fr.TWO_ADICITY.natVal == r - 1),
  ("PrimeField for Fr: TRACE_MINUS_ONE_DIV_TWO", fields_fr_arkworks.PrimeField_Fr.TRACE_MINUS_ONE_DIV_TWO.limbsVal == ((r-1)/2-1)/2),
  ("FftField for Fr: GENERATOR primitive", (let g := frLit fields_fr_arkworks.FftField_Fr.GENERATOR;
      g != 0 && frC.factors.all (fun fe => powMod g ((r - 1) / fe.1) r != 1))),
  ("FftField for Fr: TWO_ADIC_ROOT_OF_UNITY = GENERATOR^TRACE", frLit fields_fr_arkworks.FftField_Fr.TWO_ADIC_ROOT_OF_UNITY
      == powMod (frLit fields_fr_arkworks.FftField_Fr.GENERATOR) ((r-1)/2) r),
  ("Field for Fr: ZERO, ONE", frLit fields_fr_arkworks.Field_Fr.ZERO == 0 && frLit fields_fr_arkworks.Field_Fr.ONE == 1),
  ("Fr u64 ZERO/ONE", frLit fields_fr_u64_wrapper.Fr.ZERO == 0 && frLit fields_fr_u64_wrapper.Fr.ONE == 1),
  ("PrimeField for Fp: MODULUS", fields_fp_arkworks.PrimeField_Fp.MODULUS.limbsVal == p),
  ("PrimeField for Fp: MODULUS_MINUS_ONE_DIV_TWO", fields_fp_arkworks.PrimeField_Fp.MODULUS_MINUS_ONE_DIV_TWO.limbsVal == (p-1)/2),
  ("PrimeField for Fp: MODULUS_BIT_SIZE", fields_fp_arkworks.PrimeField_Fp.MODULUS_BIT_SIZE.natVal == fields_fp.Fp.MODULUS_BIT_SIZE.natVal),
  ("PrimeField for Fp: TRACE", fields_fp_arkworks.PrimeField_Fp.TRACE.limbsVal == fpC.t),
  ("PrimeField for Fp: TRACE_MINUS_ONE_DIV_TWO", fields_fp_arkworks.PrimeField_Fp.TRACE_MINUS_ONE_DIV_TWO.limbsVal == (fpC.t-1)/2),
  ("FftField for Fp: GENERATOR", fpLit fields_fp_arkworks.FftField_Fp.GENERATOR == fpC.g),
  ("FftField for Fp: TWO_ADICITY", fields_fp_arkworks.FftField_Fp.TWO_ADICITY.natVal == fpC.s),
  ("FftField for Fp: TWO_ADIC_ROOT_OF_UNITY", fpLit fields_fp_arkworks.FftField_Fp.TWO_ADIC_ROOT_OF_UNITY == powMod fpC.g fpC.t p),
  ("Field for Fp: ZERO, ONE", fpLit fields_fp_arkworks.Field_Fp.ZERO == 0 && fpLit fields_fp_arkworks.Field_Fp.ONE == 1),
  ("Fp u64 ZERO/ONE", fpLit fields_fp_u64_wrapper.Fp.ZERO == 0 && fpLit fields_fp_u64_wrapper.Fp.ONE == 1)]

/-- `SqrtPrecomputation::TonelliShanks { two_adicity, quadratic_nonresidue_to_trace, trace_of_modulus_minus_one_div_two }` -/
def tsPrecompOk (c : FieldConsts) : Lit → Bool
  | .struct [s, z, e] => s.natVal == c.s && c.orderTwoPow (c.lit z) && e.limbsVal == (c.t - 1) / 2
  | _ => false

def sqrtFacts : List (String × Bool) := [
  ("Fq.QUADRATIC_NON_RESIDUE_TO_TRACE has order exactly 2^47", fqC.orderTwoPow (fqLit fields_fq.Fq.QUADRATIC_NON_RESIDUE_TO_TRACE)),
  ("Fp.QUADRATIC_NON_RESIDUE_TO_TRACE has order exactly 2^46", fpC.orderTwoPow (fpLit fields_fp.Fp.QUADRATIC_NON_RESIDUE_TO_TRACE)),
  ("Field for Fq: SQRT_PRECOMP (Tonelli-Shanks data)", tsPrecompOk fqC fields_fq_arkworks.Field_Fq.SQRT_PRECOMP),
  ("Field for Fp: SQRT_PRECOMP (Tonelli-Shanks data)", tsPrecompOk fpC fields_fp_arkworks.Field_Fp.SQRT_PRECOMP),
  ("Field for Fr: SQRT_PRECOMP Case3Mod4 exponent = (r+1)/4, r = 3 mod 4",
    (match fields_fr_arkworks.Field_Fr.SQRT_PRECOMP with
     | .struct [e] => e.limbsVal == (r + 1) / 4 && r % 4 == 3
     | _ => false)),
  ("Fp.MINUS_ONE = -1 (u64)", fpLit fields_fp_u64_wrapper.Fp.MINUS_ONE == p - 1),
  ("Fp.MINUS_ONE = -1 (u32)", fpLit fields_fp_u32_wrapper.Fp.MINUS_ONE == p - 1),
  ("Fp.QUADRATIC_NON_RESIDUE is a non-residue (u64)", powMod (fpLit fields_fp_u64_wrapper.Fp.QUADRATIC_NON_RESIDUE) ((p-1)/2) p == p - 1),
  ("Fp.QUADRATIC_NON_RESIDUE u32 = u64", fpLit fields_fp_u32_wrapper.Fp.QUADRATIC_NON_RESIDUE == fpLit fields_fp_u64_wrapper.Fp.QUADRATIC_NON_RESIDUE)]

/-! ### curve constants -/

def zeta : Nat := fqLit ark_curve_constants.top.ZETA
def coeffA : Nat := fqLit ark_curve_edwards.TECurveConfig_Decaf377EdwardsConfig.COEFF_A
def coeffD : Nat := fqLit ark_curve_edwards.TECurveConfig_Decaf377EdwardsConfig.COEFF_D
def bx : Nat := fqLit ark_curve_constants.top.B_X
def by' : Nat := fqLit ark_curve_constants.top.B_Y
def bt : Nat := fqLit ark_curve_constants.top.B_T
def sarkarM : Nat := (fqLit ark_curve_constants.top.M)   -- read through `MontFp!`; M < q so the value is M itself

/-- `Lit.dec n` as an integer (not reduced) -/
def decNat : Lit → Nat
  | .dec n => n
  | _ => 0

def onCurve (x y : Nat) : Bool :=
  fadd q (fmul q coeffA (fsq q x)) (fsq q y) == fadd q 1 (fmul q coeffD (fmul q (fsq q x) (fsq q y)))

def pointOf : Lit → Nat × Nat
  | .tup _ [x, y] => (fqLit x, fqLit y)
  | _ => (0, 0)

def curveFacts : List (String × Bool) := [
  ("TECurveConfig::COEFF_A = -1", coeffA == q - 1),
  ("TECurveConfig::COEFF_D = 3021", coeffD == 3021),
  ("min_curve COEFF_A = -1", fqLit min_curve_constants.top.COEFF_A == q - 1),
  ("min_curve COEFF_D = 3021", fqLit min_curve_constants.top.COEFF_D == 3021),
  ("min_curve COEFF_K = 2d", fqLit min_curve_constants.top.COEFF_K == 6042),
  ("ZETA is a quadratic non-residue", powMod zeta ((q - 1) / 2) q == q - 1),
  ("min_curve ZETA = ark_curve ZETA", fqLit min_curve_constants.top.ZETA == zeta),
  ("min_curve ZETA_TO_TRACE = ZETA^t", fqLit min_curve_constants.top.ZETA_TO_TRACE == powMod zeta fqC.t q),
  ("d, 1+d non-squares; -1 a square (completeness / even subgroup)", powMod 3021 ((q-1)/2) q == q - 1 && powMod 3022 ((q-1)/2) q == q - 1 && powMod (q-1) ((q-1)/2) q == 1),
  ("N = two-adicity of q", ark_curve_constants.top.N.natVal == fqC.s),
  ("SQRT_W = 8", ark_curve_constants.top.SQRT_W.natVal == 8),
  ("M * 2^N = q - 1, M odd", decNat ark_curve_constants.top.M * 2 ^ ark_curve_constants.top.N.natVal == q - 1 && decNat ark_curve_constants.top.M % 2 == 1),
  ("M_MINUS_ONE_DIV_TWO = (M-1)/2", decNat ark_curve_constants.top.M_MINUS_ONE_DIV_TWO == (decNat ark_curve_constants.top.M - 1) / 2),
  ("ZETA_TO_ONE_MINUS_M_DIV_TWO * ZETA^((M-1)/2) = 1",
    fmul q (fqLit ark_curve_constants.top.ZETA_TO_ONE_MINUS_M_DIV_TWO) (powMod zeta ((decNat ark_curve_constants.top.M - 1) / 2) q) == 1),
  ("constants ONE = 1", fqLit ark_curve_constants.top.ONE == 1),
  ("B on the curve", onCurve bx by'),
  ("B_T = B_X * B_Y, B_Z = 1", bt == fmul q bx by' && fqLit ark_curve_constants.top.B_Z == 1),
  ("GENERATOR_X/Y = B_X/B_Y", fqLit ark_curve_constants.top.GENERATOR_X == bx && fqLit ark_curve_constants.top.GENERATOR_Y == by'),
  ("TECurveConfig::GENERATOR = (B_X, B_Y)", pointOf ark_curve_edwards.TECurveConfig_Decaf377EdwardsConfig.GENERATOR == (bx, by')),
  ("Element::GENERATOR (arkworks) = (B_X, B_Y, B_T, 1)",
    (match ark_curve_element_projective.Element.GENERATOR with
     | .struct [.tup 101 [x, y, t, z]] => fqLit x == bx && fqLit y == by' && fqLit t == bt && fqLit z == 1
     | _ => false)),
  ("Element::IDENTITY (arkworks) = (0, 1, 0, 1)",
    (match ark_curve_element_projective.Element.IDENTITY with
     | .struct [.tup 101 [x, y, t, z]] => fqLit x == 0 && fqLit y == 1 && fqLit t == 0 && fqLit z == 1
     | _ => false)),
  ("Element::GENERATOR (minimal) = (B_X, B_Y, 1, B_T)",
    (match min_curve_element.Element.GENERATOR with
     | .struct [x, y, z, t] => fqLit x == bx && fqLit y == by' && fqLit z == 1 && fqLit t == bt
     | _ => false)),
  ("Element::IDENTITY (minimal) = (0, 1, 1, 0)",
    (match min_curve_element.Element.IDENTITY with
     | .struct [x, y, z, t] => fqLit x == 0 && fqLit y == 1 && fqLit z == 1 && fqLit t == 0
     | _ => false)),
  ("AffinePoint::IDENTITY (minimal) = (0, 1)",
    (match min_curve_element.AffinePoint.IDENTITY with
     | .struct [x, y] => fqLit x == 0 && fqLit y == 1
     | _ => false)),
  ("MontCurveConfig::COEFF_A = 2(a+d)/(a-d)",
    fmul q (fqLit ark_curve_edwards.MontCurveConfig_Decaf377EdwardsConfig.COEFF_A) (fsub q coeffA coeffD) == fmul q 2 (fadd q coeffA coeffD)),
  ("MontCurveConfig::COEFF_B = 4/(a-d)",
    fmul q (fqLit ark_curve_edwards.MontCurveConfig_Decaf377EdwardsConfig.COEFF_B) (fsub q coeffA coeffD) == 4),
  ("CurveConfig::COFACTOR = 1, COFACTOR_INV = 1",
    ark_curve_edwards.CurveConfig_Decaf377EdwardsConfig.COFACTOR.limbsVal == 1 && frLit ark_curve_edwards.CurveConfig_Decaf377EdwardsConfig.COFACTOR_INV == 1),
  ("constants::R = r", decNat ark_curve_constants.top.R == r),
  ("BLS12-377 G1 cofactor * COFACTOR_INV = 1 mod q",
    fmul q (ark_curve_bls12_377.CurveConfig_OurG1Config.COFACTOR.limbsVal % q) (fqLit ark_curve_bls12_377.CurveConfig_OurG1Config.COFACTOR_INV) == 1),
  ("BLS12-377 G2 cofactor * COFACTOR_INV = 1 mod q",
    fmul q (ark_curve_bls12_377.CurveConfig_OurG2Config.COFACTOR.limbsVal % q) (fqLit ark_curve_bls12_377.CurveConfig_OurG2Config.COFACTOR_INV) == 1)]

def facts : List (String × Bool) :=
  fqC.facts ++ frC.facts ++ fpC.facts ++ aliasFacts ++ sqrtFacts ++ curveFacts

end C17

/-! ## C16: parameters of the crate's BLS12-377 engine against the reference crate and their defining equations -/
namespace C16
open Gen

mutual
/-- structural equality of two literals read as (tuples / arrays of) elements of the field with modulus `m` -/
def eqLit (m nl : Nat) : Lit → Lit → Bool
  | .arr xs, .arr ys => eqLits m nl xs ys
  | .tup _ xs, .tup _ ys => eqLits m nl xs ys
  | .bool a, .bool b => a == b
  | .unknown, _ => false
  | .arr _, _ => false
  | .tup _ _, _ => false
  | .struct _, _ => false
  | .bool _, _ => false
  | a, b => !b.isUnknown && litVal m nl a == litVal m nl b
def eqLits (m nl : Nat) : List Lit → List Lit → Bool
  | [], [] => true
  | x :: xs, y :: ys => eqLit m nl x y && eqLits m nl xs ys
  | _, _ => false
end

/-! Fp2 = Fp[u]/(u² - β) with β = NONRESIDUE, as pairs -/
def beta : Nat := fpLit ark_curve_bls12_377.Fp2Config_F2Config.NONRESIDUE

def mul2 (a b : Nat × Nat) : Nat × Nat :=
  (fadd p (fmul p a.1 b.1) (fmul p beta (fmul p a.2 b.2)), fadd p (fmul p a.1 b.2) (fmul p a.2 b.1))

def pow2Aux : Nat → (Nat × Nat) → Nat → (Nat × Nat) → (Nat × Nat)
  | 0, _, _, acc => acc
  | fuel + 1, a, e, acc =>
    if e = 0 then acc else pow2Aux fuel (mul2 a a) (e / 2) (if e % 2 = 1 then mul2 acc a else acc)

def pow2 (a : Nat × Nat) (e : Nat) : Nat × Nat := pow2Aux e a e (1, 0)

def fp2Of : Lit → Nat × Nat
  | .tup _ [a, b] => (fpLit a, fpLit b)
  | .one => (1, 0)
  | .zero => (0, 0)
  | _ => (0, 0)

def arrOf : Lit → List Lit
  | .arr xs => xs
  | _ => []

/-- `coeffs[i] = base^((k·p^i - k)/den)` for all i -/
def frobOk (coeffs : List (Nat × Nat)) (base : Nat × Nat) (k den : Nat) : Bool :=
  (coeffs.zipIdx).all (fun ci => ci.1 == pow2 base ((k * p ^ ci.2 - k) / den))

def xi : Nat × Nat := fp2Of ark_curve_bls12_377.Fp6Config_F6Config.NONRESIDUE

/-! short Weierstrass y² = x³ + b over Fp, affine with `none` = infinity -/
def swAdd (P Q : Option (Nat × Nat)) : Option (Nat × Nat) :=
  match P, Q with
  | none, Q => Q
  | P, none => P
  | some (x1, y1), some (x2, y2) =>
    if x1 == x2 && fadd p y1 y2 == 0 then none
    else
      let lam := if x1 == x2 then fmul p (fmul p 3 (fsq p x1)) (finv p (fmul p 2 y1))
                 else fmul p (fsub p y2 y1) (finv p (fsub p x2 x1))
      let x3 := fsub p (fsub p (fsq p lam) x1) x2
      some (x3, fsub p (fmul p lam (fsub p x1 x3)) y1)

def swMulAux : Nat → Option (Nat × Nat) → Nat → Option (Nat × Nat) → Option (Nat × Nat)
  | 0, _, _, acc => acc
  | fuel + 1, P, e, acc =>
    if e = 0 then acc else swMulAux fuel (swAdd P P) (e / 2) (if e % 2 = 1 then swAdd acc P else acc)

def swMul (P : Nat × Nat) (e : Nat) : Option (Nat × Nat) := swMulAux e (some P) e none

def g1 : Nat × Nat := (fpLit ark_curve_bls12_377.top.G1_GENERATOR_X, fpLit ark_curve_bls12_377.top.G1_GENERATOR_Y)
def blsX : Nat := ark_curve_bls12_377.Bls12Config_Config.X.limbsVal

def facts : List (String × Bool) := [
  ("Fp2 NONRESIDUE = reference (-5)", eqLit p 6 ark_curve_bls12_377.Fp2Config_F2Config.NONRESIDUE ref_bls_fields_fq2.Fp2Config_Fq2Config.NONRESIDUE),
  ("Fp2 NONRESIDUE is a non-residue", powMod beta ((p - 1) / 2) p == p - 1),
  ("FROBENIUS_COEFF_FP2_C1 = reference", eqLit p 6 ark_curve_bls12_377.Fp2Config_F2Config.FROBENIUS_COEFF_FP2_C1 ref_bls_fields_fq2.Fp2Config_Fq2Config.FROBENIUS_COEFF_FP2_C1),
  ("FROBENIUS_COEFF_FP2_C1[i] = beta^((p^i-1)/2)",
    ((arrOf ark_curve_bls12_377.Fp2Config_F2Config.FROBENIUS_COEFF_FP2_C1).map fpLit) == [1, powMod beta ((p - 1) / 2) p]),
  ("Fp6 NONRESIDUE = reference (u)", eqLit p 6 ark_curve_bls12_377.Fp6Config_F6Config.NONRESIDUE ref_bls_fields_fq6.Fp6Config_Fq6Config.NONRESIDUE),
  ("FROBENIUS_COEFF_FP6_C1 = reference", eqLit p 6 ark_curve_bls12_377.Fp6Config_F6Config.FROBENIUS_COEFF_FP6_C1 ref_bls_fields_fq6.Fp6Config_Fq6Config.FROBENIUS_COEFF_FP6_C1),
  ("FROBENIUS_COEFF_FP6_C1[i] = xi^((p^i-1)/3), i = 0..5",
    (arrOf ark_curve_bls12_377.Fp6Config_F6Config.FROBENIUS_COEFF_FP6_C1).length == 6 &&
    frobOk ((arrOf ark_curve_bls12_377.Fp6Config_F6Config.FROBENIUS_COEFF_FP6_C1).map fp2Of) xi 1 3),
  ("FROBENIUS_COEFF_FP6_C2 = reference", eqLit p 6 ark_curve_bls12_377.Fp6Config_F6Config.FROBENIUS_COEFF_FP6_C2 ref_bls_fields_fq6.Fp6Config_Fq6Config.FROBENIUS_COEFF_FP6_C2),
  ("FROBENIUS_COEFF_FP6_C2[i] = xi^((2p^i-2)/3), i = 0..5",
    (arrOf ark_curve_bls12_377.Fp6Config_F6Config.FROBENIUS_COEFF_FP6_C2).length == 6 &&
    frobOk ((arrOf ark_curve_bls12_377.Fp6Config_F6Config.FROBENIUS_COEFF_FP6_C2).map fp2Of) xi 2 3),
  ("Fp12 NONRESIDUE = reference (v)", eqLit p 6 ark_curve_bls12_377.Fp12Config_F12Config.NONRESIDUE ref_bls_fields_fq12.Fp12Config_Fq12Config.NONRESIDUE),
  ("FROBENIUS_COEFF_FP12_C1 = reference", eqLit p 6 ark_curve_bls12_377.Fp12Config_F12Config.FROBENIUS_COEFF_FP12_C1 ref_bls_fields_fq12.Fp12Config_Fq12Config.FROBENIUS_COEFF_FP12_C1),
  ("FROBENIUS_COEFF_FP12_C1[i] = xi^((p^i-1)/6), i = 0..11",
    (arrOf ark_curve_bls12_377.Fp12Config_F12Config.FROBENIUS_COEFF_FP12_C1).length == 12 &&
    frobOk ((arrOf ark_curve_bls12_377.Fp12Config_F12Config.FROBENIUS_COEFF_FP12_C1).map fp2Of) xi 1 6),
  ("G1 COFACTOR = reference", ark_curve_bls12_377.CurveConfig_OurG1Config.COFACTOR.limbsVal == ref_bls_curves_g1.CurveConfig_Config.COFACTOR.limbsVal),
  ("G1 COFACTOR = (x-1)^2/3", ark_curve_bls12_377.CurveConfig_OurG1Config.COFACTOR.limbsVal * 3 == (blsX - 1) ^ 2),
  ("G1 COFACTOR_INV = reference", eqLit q 4 ark_curve_bls12_377.CurveConfig_OurG1Config.COFACTOR_INV ref_bls_curves_g1.CurveConfig_Config.COFACTOR_INV),
  ("G1 generator = reference", eqLit p 6 ark_curve_bls12_377.SWCurveConfig_OurG1Config.GENERATOR ref_bls_curves_g1.SWCurveConfig_Config.GENERATOR),
  ("G1 COEFF_A = 0, COEFF_B = 1 = reference",
    eqLit p 6 ark_curve_bls12_377.SWCurveConfig_OurG1Config.COEFF_A ref_bls_curves_g1.SWCurveConfig_Config.COEFF_A &&
    eqLit p 6 ark_curve_bls12_377.SWCurveConfig_OurG1Config.COEFF_B ref_bls_curves_g1.SWCurveConfig_Config.COEFF_B &&
    fpLit ark_curve_bls12_377.SWCurveConfig_OurG1Config.COEFF_A == 0 && fpLit ark_curve_bls12_377.SWCurveConfig_OurG1Config.COEFF_B == 1),
  ("G1 generator on y^2 = x^3 + 1", fsq p g1.2 == fadd p (fmul p g1.1 (fsq p g1.1)) 1),
  ("G1 generator has order q (q*G = O, G != O)", swMul g1 q == none),
  ("G2 COFACTOR = reference", ark_curve_bls12_377.CurveConfig_OurG2Config.COFACTOR.limbsVal == ref_bls_curves_g2.CurveConfig_Config.COFACTOR.limbsVal),
  ("G2 COFACTOR_INV = reference", eqLit q 4 ark_curve_bls12_377.CurveConfig_OurG2Config.COFACTOR_INV ref_bls_curves_g2.CurveConfig_Config.COFACTOR_INV),
  ("G2 generator = reference", eqLit p 6 ark_curve_bls12_377.SWCurveConfig_OurG2Config.GENERATOR ref_bls_curves_g2.SWCurveConfig_Config.GENERATOR),
  ("G2 COEFF_A, COEFF_B = reference",
    eqLit p 6 ark_curve_bls12_377.SWCurveConfig_OurG2Config.COEFF_A ref_bls_curves_g2.SWCurveConfig_Config.COEFF_A &&
    eqLit p 6 ark_curve_bls12_377.SWCurveConfig_OurG2Config.COEFF_B ref_bls_curves_g2.SWCurveConfig_Config.COEFF_B),
  ("G2 COEFF_B * xi = 1 (D-type twist of y^2 = x^3 + 1)", mul2 (fp2Of ark_curve_bls12_377.SWCurveConfig_OurG2Config.COEFF_B) xi == (1, 0)),
  ("G2 generator on y^2 = x^3 + B'",
    (match ark_curve_bls12_377.SWCurveConfig_OurG2Config.GENERATOR with
     | .tup _ [x, y] =>
       let X := fp2Of x; let Y := fp2Of y; let B := fp2Of ark_curve_bls12_377.SWCurveConfig_OurG2Config.COEFF_B
       let x3 := mul2 X (mul2 X X)
       mul2 Y Y == (fadd p x3.1 B.1, fadd p x3.2 B.2)
     | _ => false)),
  ("Bls12Config X, X_IS_NEGATIVE, TWIST_TYPE = reference",
    ark_curve_bls12_377.Bls12Config_Config.X.limbsVal == ref_bls_curves_mod.Bls12Config_Config.X.limbsVal &&
    eqLit p 6 ark_curve_bls12_377.Bls12Config_Config.X_IS_NEGATIVE ref_bls_curves_mod.Bls12Config_Config.X_IS_NEGATIVE &&
    ark_curve_bls12_377.Bls12Config_Config.TWIST_TYPE.natVal == ref_bls_curves_mod.Bls12Config_Config.TWIST_TYPE.natVal),
  ("BLS12 family: q = x^4 - x^2 + 1 and p = (x-1)^2 (x^4 - x^2 + 1)/3 + x",
    q == blsX ^ 4 - blsX ^ 2 + 1 && 3 * (p - blsX) == (blsX - 1) ^ 2 * (blsX ^ 4 - blsX ^ 2 + 1)),
  ("engine fields: Fp modulus = reference base field, Fq modulus = reference scalar field (C17 moduli)",
    p == 258664426012969094010652733694893533536393512754914660539884262666720468348340822774968888139573360124440321458177 &&
    q == 8444461749428370424248824938781546531375899335154063827935233455917409239041)]

end C16
end Model
