/-
The shape of a literal as the translator found it in the Rust source.  Core Lean only.
`mont` / `mont32` carry Montgomery-form limbs exactly as written (64- resp. 32-bit limbs, little endian);
`dec` is a canonical integer (`MontFp!("…")`); `tup` carries a constructor tag
(2 = Fp2::new, 6 = Fp6::new, 12 = Fp12::new, 100 = Affine::new_unchecked, 101 = Projective::new_unchecked,
700 = Fp::new (canonical integer, converted *into* Montgomery form), 999 = other call).
-/
inductive Lit where
  | nat (n : Nat)
  | bool (b : Bool)
  | arr (xs : List Lit)
  | mont (limbs : List Nat)
  | mont32 (limbs : List Nat)
  | dec (n : Nat)
  | negdec (n : Nat)
  | zero
  | one
  | tup (tag : Nat) (xs : List Lit)
  | struct (fields : List Lit)
  | unknown
  deriving Repr, Inhabited

namespace Lit

/-- little-endian limbs of width `w` bits to a natural number -/
def ofLimbs (w : Nat) : List Nat → Nat
  | [] => 0
  | l :: ls => l + 2 ^ w * ofLimbs w ls

/-- an array of integer literals as a list of naturals (anything else: `[]`) -/
def nats : Lit → List Nat
  | arr xs => xs.filterMap (fun | nat n => some n | _ => none)
  | _ => []

def natVal : Lit → Nat
  | nat n => n
  | _ => 0

/-- value of `[u64; N]` limb array -/
def limbsVal (l : Lit) : Nat := ofLimbs 64 l.nats

def isUnknown : Lit → Bool
  | unknown => true
  | _ => false

end Lit
