/-
Relational model of the R1CS gadgets (src/ark_curve/r1cs/{fqvar_ext,inner,element,lazy}.rs).  Core Lean only.

A gadget is modelled by the conjunction of the constraints it emits, as a function of its inputs and of
the prover-supplied hint (the `(was_square, y)` pair of `FqVarExtension::isqrt`; the coordinates offered
to witness allocation): it returns whether the constraint system is satisfied and the value carried by
the output variables.  `FpVar`/`Boolean`/`AffineVar` primitives enter by their contract:
`inverse` is satisfiable iff the operand is non-zero (its witness is 0 otherwise), `is_eq`, `select`,
`and/or/not` compute their boolean functions, `to_bits_le` is the canonical bit decomposition,
`AffineVar` addition is the complete affine law.
-/
import Decaf.Model.Curve

namespace Model.R1cs
open Model

abbrev Hint := Option (Bool × Nat)

/-- honest hint: what `Fq::sqrt_ratio_zeta(&ONE, &den)` returns out of circuit -/
def honest (den : Nat) : Bool × Nat := (sqrtRatioArk 1 den).getD (false, 0)

/-- fqvar_ext.rs:29-75.  Returns (satisfied, was_square, y). -/
def isqrt (x : Nat) (h : Hint) : Bool × Bool × Nat :=
  let (f, y) := h.getD (honest x)
  let y2 := fsq q y
  let z := x == 0
  let den := if z then 1 else x
  let inv := finv q den
  let c1 := !f || y2 == inv
  let c3 := !(!f && z) || y2 == 0
  let c4 := !(!f && !z) || y2 == fmul q ZETA inv
  let inCase := f || (!f && z) || (!f && !z)
  (c1 && c3 && c4 && inCase, f, y)

/-- `inverse()` of an `FpVar`: (satisfiable, witness value) -/
def invG (x : Nat) : Bool × Nat := (x != 0, finv q x)

/-- inner.rs:30-58 on affine coordinates (Z = 1, T = XY).  Returns (satisfied, s). -/
def compress (x y : Nat) (h : Hint) : Bool × Nat :=
  let t := fmul q x y
  let aMinusD := fsub q cA cD
  let u1 := fmul q (fadd q x t) (fsub q x t)
  let den := fmul q (fmul q u1 aMinusD) (fsq q x)
  let (sat, _, v) := isqrt den h
  let u2 := fabs (fmul q v u1)
  let u3 := fsub q (fmul q u2 1) t
  (sat, fabs (fmul q (fmul q (fmul q aMinusD v) u3) x))

/-- inner.rs:61-97.  Returns (satisfied, x, y). -/
def decompress (s : Nat) (h : Hint) : Bool × Nat × Nat :=
  let nonneg := !isNeg s
  let ss := fsq q s
  let u1 := fsub q 1 ss
  let u2 := fsub q (fsq q u1) (fmul q (fmul q 4 cD) ss)
  let den := fmul q u2 (fsq q u1)
  let (sat, f, v) := isqrt den h
  let twoSU1 := fmul q (fmul q 2 s) u1
  let check := fmul q twoSU1 v
  let v := if isNeg check then fneg q v else v
  let x := fmul q (fmul q twoSU1 (fsq q v)) u2
  let y := fmul q (fmul q (fadd q 1 ss) v) u1
  (nonneg && sat && f, x, y)

/-- inner.rs:99-155.  Returns (satisfied, x, y). -/
def elligator (r0 : Nat) (h : Hint) : Bool × Nat × Nat :=
  let r := fmul q ZETA (fsq q r0)
  let den := fmul q (fsub q (fmul q cD r) (fsub q cD cA)) (fsub q (fmul q (fsub q cD cA) r) cD)
  let num := fmul q (fadd q r 1) (fsub q cA (fmul q 2 cD))
  let x := fmul q num den
  let (sat, iss, isri) := isqrt x h
  let sgn := if iss then 1 else fneg q 1
  let twiddle := if iss then 1 else r0
  let isri := fmul q isri twiddle
  let s := fmul q isri num
  let t := fsub q (fmul q (fmul q (fmul q (fmul q (fneg q sgn) isri) s) (fsub q r 1)) (fsq q (fsub q cA (fmul q 2 cD)))) 1
  let condNegate := isNeg s == iss
  let s := if condNegate then fneg q s else s
  let xNum := fmul q 2 s
  let xDen := fadd q 1 (fmul q cA (fsq q s))
  let (ok1, xDenInv) := invG xDen
  let yNum := fsub q 1 (fmul q cA (fsq q s))
  let (ok2, tInv) := invG t
  (sat && ok1 && ok2, fmul q xNum xDenInv, fmul q yNum tInv)

/-- `AllocVar<Element>` in witness mode (inner.rs:226-262): offered coordinates (px, py); returns (satisfied, x, y) of the *decoded* variable -/
def allocWitness (px py : Nat) (h : Hint) : Bool × Nat × Nat :=
  let onCurve := C17.onCurve px py
  let fe := ((Ext.ofAffine (px, py)).encodeField sqrtRatioArk).getD 0
  let (sat, x, y) := decompress fe h
  let eq := fmul q x py == fmul q px y
  (onCurve && sat && eq, x, y)

/-- ElementVar equality: x1*y2 == x2*y1 -/
def isEq (a b : Nat × Nat) : Bool := fmul q a.1 b.2 == fmul q b.1 a.2

/-- `scalar_mul_le`: LSB-first double-and-add with select, on affine points -/
def scalarMulLe : List Bool → (Nat × Nat) → (Nat × Nat) → (Nat × Nat)
  | [], res, _ => res
  | b :: bs, res, mult =>
    let tmp := Ext.addAffine res mult
    scalarMulLe bs (if b then tmp else res) (Ext.addAffine mult mult)

/-! ### the lazily evaluated variable (lazy.rs) -/

inductive Lazy where
  | enc (s : Nat)
  | elem (x y : Nat)
  | both (s x y : Nat)
  deriving Repr, DecidableEq

inductive Force | enc | elem
  deriving Repr, DecidableEq

inductive Emitted | nothing | decompress | compress
  deriving Repr, DecidableEq

/-- one `encoding()` / `element()` call: new state, which gadget was synthesised, whether it is satisfied -/
def Lazy.step (st : Lazy) (f : Force) (h : Hint) : Lazy × Emitted × Bool :=
  match st, f with
  | .enc s, .enc => (.enc s, .nothing, true)
  | .enc s, .elem => let (sat, x, y) := decompress s h; (.both s x y, .decompress, sat)
  | .elem x y, .elem => (.elem x y, .nothing, true)
  | .elem x y, .enc => let (sat, s) := compress x y h; (.both s x y, .compress, sat)
  | .both s x y, _ => (.both s x y, .nothing, true)

def Lazy.encVal : Lazy → Option Nat
  | .enc s => some s | .both s _ _ => some s | .elem _ _ => none
def Lazy.elemVal : Lazy → Option (Nat × Nat)
  | .elem x y => some (x, y) | .both _ x y => some (x, y) | .enc _ => none

end Model.R1cs
