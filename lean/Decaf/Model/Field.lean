/-
Executable model of prime-field arithmetic: canonical naturals `< m`.  Core Lean only.
Everything is parameterised by the modulus; the three moduli are read from the generated constants.
-/
import Decaf.Model.Lit
import Decaf.Generated.Constants

namespace Model

/-- structural square-and-multiply; only ⌈log₂ e⌉+1 of the `fuel` steps do anything -/
def powModAux (m : Nat) : Nat → Nat → Nat → Nat → Nat
  | 0, _, _, acc => acc
  | fuel + 1, a, e, acc =>
    if e = 0 then acc
    else powModAux m fuel (a * a % m) (e / 2) (if e % 2 = 1 then acc * a % m else acc)

def powMod (a e m : Nat) : Nat := powModAux m e (a % m) e (1 % m)

/-- `List.range`-free little-endian bits of the 64-bit limbs of an exponent -/
def limbBits (limb : Nat) : Nat → List Bool
  | 0 => []
  | n + 1 => (limb % 2 == 1) :: limbBits (limb / 2) n

def limbsBits (limbs : List Nat) : List Bool := limbs.flatMap (fun l => limbBits l 64)

section ops
variable (m : Nat)

def fadd (a b : Nat) : Nat := (a + b) % m
def fsub (a b : Nat) : Nat := (a + (m - b % m)) % m
def fneg (a : Nat) : Nat := (m - a % m) % m
def fmul (a b : Nat) : Nat := (a * b) % m
def fsq (a : Nat) : Nat := (a * a) % m
def fpow (a e : Nat) : Nat := powMod a e m
/-- inverse by Fermat; `0 ↦ 0`.  Callers that must reject zero test for it first, as the Rust does. -/
def finv (a : Nat) : Nat := powMod a (m - 2) m
def fdiv (a b : Nat) : Nat := fmul m a (finv m b)

/-- Euler criterion: is `a` a non-zero square mod `m` -/
def isQR (a : Nat) : Bool := powMod a ((m - 1) / 2) m == 1

end ops

/-- little-endian bytes to a natural number -/
def leBytes : List Nat → Nat
  | [] => 0
  | b :: bs => b + 256 * leBytes bs

/-- `n` little-endian bytes of `x` (low `8n` bits) -/
def toLeBytes (x : Nat) : Nat → List Nat
  | 0 => []
  | n + 1 => (x % 256) :: toLeBytes (x / 256) n

/-- `n` little-endian limbs of `w` bits -/
def toLimbs (w : Nat) (x : Nat) : Nat → List Nat
  | 0 => []
  | n + 1 => (x % 2 ^ w) :: toLimbs w (x / 2 ^ w) n

/-! ### The three moduli, read from the generated constants -/

def q : Nat := Lit.limbsVal Gen.fields_fq.Fq.MODULUS_LIMBS
def r : Nat := Lit.limbsVal Gen.fields_fr.Fr.MODULUS_LIMBS
def p : Nat := Lit.limbsVal Gen.fields_fp.Fp.MODULUS_LIMBS

/-- number of 64-bit limbs of the wrapper for modulus of `bits` bits -/
def n64 (bits : Nat) : Nat := (bits + 63) / 64

/-- Montgomery radix of the 64-bit backend (equal to that of the 32-bit backend: 2·N_32 = … see C17) -/
def montR (nlimbs : Nat) : Nat := 2 ^ (64 * nlimbs)

/-- canonical value of a field literal, given modulus and number of 64-bit limbs -/
def litVal (m nl : Nat) : Lit → Nat
  | .mont ls => fmul m (Lit.ofLimbs 64 ls % m) (finv m (montR nl % m))
  | .mont32 ls => fmul m (Lit.ofLimbs 32 ls % m) (finv m (montR nl % m))
  | .dec n => n % m
  | .negdec n => fneg m n
  | .zero => 0
  | .one => 1 % m
  | .nat n => n % m
  | .tup 700 [.arr xs] => Lit.ofLimbs 64 ((Lit.arr xs).nats) % m
  | _ => 0

def fqLit (l : Lit) : Nat := litVal q 4 l
def frLit (l : Lit) : Nat := litVal r 4 l
def fpLit (l : Lit) : Nat := litVal p 6 l

end Model
