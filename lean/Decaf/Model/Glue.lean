/-
Executable model of the field wrappers' glue (fields/{fq,fr,fp}.rs, */arkworks.rs, */ops.rs, wrappers).
Core Lean only.  A field is given by its modulus `m`, its number of 64-bit limbs `nl` and bit size `bits`;
`N_8 = (bits+7)/8`.  The backend primitives (Montgomery add/mul/…, `from_le_bytes_mod_order` of arkworks on
exactly N_8 bytes, fiat `to_montgomery` of an unreduced value) are modelled by their contract: exact
arithmetic mod m on canonical values.
-/
import Decaf.Model.Field

namespace Model

/-- LSB-first square-and-multiply over a bit list (same loop as `pow_le_limbs`; repeated here because this file
does not import the square-root model) -/
def powLeLimbsAux' (m : Nat) : List Bool → Nat → Nat → Nat
  | [], acc, _ => acc
  | b :: bs, acc, ins => powLeLimbsAux' m bs (if b then fmul m acc ins else acc) (fmul m ins ins)

structure FP where
  m : Nat
  nl : Nat
  bits : Nat
  /-- `FIELD_SIZE_POWER_OF_TWO` as published -/
  fspt : Nat

namespace FP
variable (F : FP)

def n8 : Nat := (F.bits + 7) / 8

/-- `from_raw_bytes` on exactly N_8 bytes: reduce -/
def fromRawBytes (bs : List Nat) : Nat := leBytes bs % F.m

def padTo (n : Nat) (bs : List Nat) : List Nat := bs ++ List.replicate (n - bs.length) 0

/-- `bytes.chunks(N_8)` -/
def chunks (n : Nat) : Nat → List Nat → List (List Nat)
  | 0, _ => []
  | fuel + 1, bs => if bs.isEmpty then [] else bs.take n :: chunks n fuel (bs.drop n)

/-- `from_le_bytes_mod_order` (fields/fq.rs:81-94): chunks, pad, reduce each, fold from the top -/
def fromLeBytesModOrder (bs : List Nat) : Nat :=
  let cs := (chunks F.n8 bs.length bs).map (fun c => F.fromRawBytes (padTo F.n8 c))
  cs.reverse.foldl (fun acc x => fadd F.m (fmul F.m acc F.fspt) x) 0

def fromBeBytesModOrder (bs : List Nat) : Nat := F.fromLeBytesModOrder bs.reverse

def toBytesLe (x : Nat) : List Nat := toLeBytes x F.n8

/-- `from_bytes_checked`: reduce, re-serialise, compare -/
def fromBytesChecked (bs : List Nat) : Option Nat :=
  let red := F.fromRawBytes bs
  if F.toBytesLe red == bs then some red else none

def toLeLimbs (x : Nat) : List Nat := toLimbs 64 x F.nl

/-- `from_le_limbs` -/
def fromLeLimbs (ls : List Nat) : Nat := Lit.ofLimbs 64 ls % F.m

/-- lexicographic comparison of equal-length lists, as `[u64; N]::cmp` -/
def cmpLex : List Nat → List Nat → Ordering
  | [], [] => .eq
  | [], _ => .lt
  | _, [] => .gt
  | a :: as, b :: bs => if a < b then .lt else if a > b then .gt else cmpLex as bs

/-- `PrimeField::from_bigint` (*/arkworks.rs:36-43): `repr >= MODULUS` is arkworks' BigInt order -/
def fromBigint (ls : List Nat) (modulusLimbs : List Nat) : Option Nat :=
  if cmpLex ls.reverse modulusLimbs.reverse != .lt then none else some (F.fromLeLimbs ls)

/-- `Ord::cmp` (ops.rs): reversed limbs, lexicographic -/
def cmp (a b : Nat) : Ordering := cmpLex (F.toLeLimbs a).reverse (F.toLeLimbs b).reverse

/-- serialize_with_flags (*/arkworks.rs): flag bitmask `mask`, `flagBits` = F::BIT_SIZE -/
def serWithFlags (x : Nat) (flagBits mask : Nat) : Option (List Nat) :=
  if flagBits > 8 then none
  else
    let bytes := F.toBytesLe x
    let sz := (F.bits + flagBits + 7) / 8
    if bytes.length == sz then
      some (bytes.take (bytes.length - 1) ++ [Nat.lor (bytes.getD (bytes.length - 1) 0) mask])
    else some (bytes ++ [mask])

/-- flag kinds: 0 EmptyFlags, 1 TEFlags, 2 SWFlags, k = 3..8 a user-defined flags type holding k bits in the top k bits of the
flag byte (the generic `Flags` API accepts any `BIT_SIZE ≤ 8`); returns (flag value, cleared byte) -/
def flagsFromU8 (kind : Nat) (b : Nat) : Option (Nat × Nat) :=
  match kind with
  | 0 => some (0, b)                       -- EmptyFlags::from_u8 always Some, removes nothing
  | 1 => some (b / 128, b % 128)           -- TEFlags: bit 7 = x negative
  | 2 =>                                   -- SWFlags: bit 7 = y negative, bit 6 = infinity; both = invalid
    let neg := b / 128 % 2
    let inf := b / 64 % 2
    if neg == 1 && inf == 1 then none
    else some (if inf == 1 then 2 else if neg == 1 then 1 else 0, b % 64)
  | k => some (b / 2 ^ (8 - k), b % 2 ^ (8 - k))

def flagBitsOf (kind : Nat) : Nat := match kind with | 0 => 0 | 1 => 1 | 2 => 2 | k => k

inductive DeErr | io | unexpectedFlags | invalidData
  deriving Repr, BEq, DecidableEq

/-- deserialize_with_flags: reads `(bits + flagBits + 7)/8` bytes into a buffer of `(bits+7)/8` bytes -/
def deserWithFlagsWide (kind : Nat) (input : List Nat) (modulusLimbs : List Nat) : Except DeErr (Nat × Nat) :=
  -- the general shape (as repaired: the buffer has one spare byte, the flags sit in the last byte *read*):
  -- `bytes = [0; n8 + 1]; read_exact(&mut bytes[..expected]); flags from bytes[expected - 1]; limbs from bytes[..8 * nl]`
  let buflen := (F.bits + 7) / 8
  let expected := (F.bits + flagBitsOf kind + 7) / 8
  if input.length < expected then .error .io
  else
    let bytes := input.take expected
    match flagsFromU8 kind (bytes.getD (expected - 1) 0) with
    | none => .error .unexpectedFlags
    | some (flag, last) =>
      let bytes := bytes.take (expected - 1) ++ [last] ++ List.replicate (buflen + 1 - expected) 0
      let limbs := toLimbs 64 (leBytes (bytes.take (8 * F.nl))) F.nl
      match F.fromBigint limbs modulusLimbs with
      | none => .error .invalidData
      | some v => .ok (v, flag)

def deserWithFlags (kind : Nat) (input : List Nat) (modulusLimbs : List Nat) : Except DeErr (Nat × Nat) :=
  if kind > 2 then deserWithFlagsWide F kind input modulusLimbs else
  -- the three standard flag types fit into the spare bits of the top byte: `expected = n8` (same function as above; kept in
  -- the form `C11.flags_roundtrip` is proved about)
  let buflen := (F.bits + 7) / 8
  let expected := (F.bits + flagBitsOf kind + 7) / 8
  if expected > buflen then .error .io
  else if input.length < expected then .error .io
  else
    let bytes := input.take expected ++ List.replicate (buflen - expected) 0
    match flagsFromU8 kind (bytes.getD (buflen - 1) 0) with
    | none => .error .unexpectedFlags
    | some (flag, last) =>
      let bytes := bytes.take (buflen - 1) ++ [last]
      let limbs := toLimbs 64 (leBytes (bytes.take (8 * F.nl))) F.nl
      match F.fromBigint limbs modulusLimbs with
      | none => .error .invalidData
      | some v => .ok (v, flag)

/-- `power` as repaired / as the property demands: x^(Σ limbs) -/
def powLimbs (x : Nat) (limbs : List Nat) : Nat := powMod x (Lit.ofLimbs 64 limbs) F.m

/-- `FromStr`: decimal digits, reduced as it goes; `none` on a non-digit -/
def fromStr (s : List Char) : Option Nat :=
  s.foldl (fun acc c => match acc with
    | none => none
    | some a => if c.isDigit then some (fadd F.m (fmul F.m 10 a) (c.toNat - 48)) else none) (some 0)

/-- `Display`: decimal without leading zeros; zero prints as the empty string -/
def display (x : Nat) : String := if x == 0 then "" else toString x

/-- `inverse`: absent for zero -/
def inverse (x : Nat) : Option Nat := if x == 0 then none else some (finv F.m x)

/-- `Fq::power` (fields/fq.rs, after the repair): LSB-first square-and-multiply over every limb -/
def power (x : Nat) (limbs : List Nat) : Nat := powLeLimbsAux' F.m (limbsBits limbs) (1 % F.m) x

/-- Montgomery form (radix 2^(64·nl)) of a canonical value, and back -/
def toMont (x : Nat) : Nat := (x * 2 ^ (64 * F.nl)) % F.m
def fromMont (v : Nat) : Nat := fmul F.m (v % F.m) (finv F.m (2 ^ (64 * F.nl) % F.m))

/-- `ConditionallySelectable` (fq/u64/wrapper.rs, fq/u32/wrapper.rs): limb-wise select on the Montgomery limbs
(of width `w` = 64 resp. 32 bits), then reinterpretation of the limbs as a Montgomery-form element -/
def selectLimbs (w : Nat) (a b : Nat) (c : Bool) : Nat :=
  let n := 64 * F.nl / w
  let al := toLimbs w (F.toMont a) n
  let bl := toLimbs w (F.toMont b) n
  F.fromMont (Lit.ofLimbs w (List.zipWith (fun x y => if c then y else x) al bl))

/-- `ConstantTimeEq`: equality of the Montgomery limbs -/
def ctEq (w : Nat) (a b : Nat) : Bool :=
  let n := 64 * F.nl / w
  toLimbs w (F.toMont a) n == toLimbs w (F.toMont b) n

def sum (xs : List Nat) : Nat := xs.foldl (fadd F.m) 0
def product (xs : List Nat) : Nat := xs.foldl (fmul F.m) (1 % F.m)

end FP

end Model
