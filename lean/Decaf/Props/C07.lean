/-
C07 — Hash-to-group equals the specified Elligator 2 map.

For every routine `sr` meeting the contract (both builds) and every r₀ < q: the one-input map never panics and never
divides by zero (Z ≠ 0), its output represents exactly the point that ristretto.sage's `elligatorSpec` +
`fromJacobiQuartic` define (`ElligatorTo`, relational form, see `Spec/Elligator.lean`), that point is in the even
subgroup (so the output is a valid element, C01/C06), and the map is invariant under r₀ ↦ -r₀.  The two-input hash
is, by its definition, the group sum of the one-input map applied to each input.
-/
import Decaf.BuildsCmd
import Decaf.Lemmas.ModelElligator
import Decaf.Props.C01

namespace C07
open Model Edwards Decaf

variable {sr : SR}

/-- the one-input map equals the specification, for every field element -/
theorem elligator_eq_spec (h : SRContract sr) (r0 : ℕ) :
    ∃ c pt, elligator sr ZETA r0 = some c ∧ ERepr c pt ∧
      ElligatorTo params paritySign ((ZETA : ℕ) : Fq) (r0 : Fq) pt.x pt.y ∧ Point.IsEven pt := by
  obtain ⟨c, hc, hcast⟩ := elligator_cast h r0
  obtain ⟨x, y, hrep, hspec, hon, hev⟩ := elligatorF_spec (P := params) (S := paritySign) (R := h.toSqrtRatio) ellHyp (r0 : Fq)
  rw [← hcast] at hrep
  exact ⟨c, ⟨x, y, hon⟩, hc, hrep, hspec, hev⟩

/-- it never panics and never produces Z = 0 -/
theorem elligator_total (h : SRContract sr) (r0 : ℕ) : ∃ c, elligator sr ZETA r0 = some c ∧ (c.Z : Fq) ≠ 0 := by
  obtain ⟨c, pt, hc, hr, _, _⟩ := elligator_eq_spec h r0
  exact ⟨c, hc, hr.z⟩

/-- both builds (any two routines meeting the contract) return the same element -/
theorem elligator_builds_agree {sr' : SR} (h : SRContract sr) (h' : SRContract sr') (r0 : ℕ) {c c' : Ext}
    (hc : elligator sr ZETA r0 = some c) (hc' : elligator sr' ZETA r0 = some c') : Ext.eq c c' = true := by
  obtain ⟨c1, p1, h1, r1, s1, _⟩ := elligator_eq_spec h r0
  obtain ⟨c2, p2, h2, r2, s2, _⟩ := elligator_eq_spec h' r0
  rw [hc] at h1; rw [hc'] at h2
  injection h1 with h1; injection h2 with h2
  subst h1; subst h2
  obtain ⟨hx, hy⟩ := ElligatorTo.unique s1 s2
  have : p2 = p1 := by ext <;> assumption
  rw [this] at r2
  exact C04.eq_of_repr_same r1 r2

/-- invariance under r₀ ↦ -r₀ -/
theorem elligator_neg (h : SRContract sr) (r0 : ℕ) {c c' : Ext}
    (hc : elligator sr ZETA r0 = some c) (hc' : elligator sr ZETA (fneg q r0) = some c') : Ext.eq c c' = true := by
  obtain ⟨c1, p1, h1, r1, s1, _⟩ := elligator_eq_spec h r0
  obtain ⟨c2, p2, h2, r2, s2, _⟩ := elligator_eq_spec h (fneg q r0)
  rw [hc] at h1; rw [hc'] at h2
  injection h1 with h1; injection h2 with h2
  subst h1; subst h2
  rw [cast_fneg, ElligatorTo.neg_iff] at s2
  obtain ⟨hx, hy⟩ := ElligatorTo.unique s1 s2
  have : p2 = p1 := by ext <;> assumption
  rw [this] at r2
  exact C04.eq_of_repr_same r1 r2

/-- the output is a valid element: its encoding decodes to an element equal to it -/
theorem elligator_valid (h : SRContract sr) (r0 : ℕ) {c : Ext} (hc : elligator sr ZETA r0 = some c) :
    ∃ bytes c', Ext.encode sr c = some bytes ∧ decode32 sr bytes = .ok c' ∧ Ext.eq c c' = true := by
  obtain ⟨c1, p1, h1, r1, _, hev⟩ := elligator_eq_spec h r0
  rw [hc] at h1; injection h1 with h1; subst h1
  obtain ⟨bytes, c', _, he, hd, _, _, heq⟩ := C01.decode_encode h r1 hev
  exact ⟨bytes, c', he, hd, heq⟩

/-- the two-input hash is the group sum of the two one-input maps (either backend's addition) -/
theorem hash_to_curve_eq (h : SRContract sr) (r1 r2 : ℕ) :
    ∃ c1 c2 p1 p2, elligator sr ZETA r1 = some c1 ∧ elligator sr ZETA r2 = some c2 ∧ ERepr c1 p1 ∧ ERepr c2 p2 ∧
      ERepr (Ext.addMin c1 c2) (p1 + p2) ∧ ERepr (Ext.addRef c1 c2) (p1 + p2) ∧ Point.IsEven (p1 + p2) := by
  obtain ⟨c1, p1, h1, e1, _, v1⟩ := elligator_eq_spec h r1
  obtain ⟨c2, p2, h2, e2, _, v2⟩ := elligator_eq_spec h r2
  exact ⟨c1, c2, p1, p2, h1, h2, e1, e2, addMin_repr e1 e2, addRef_repr e1 e2, Point.isEven_add v1 v2⟩

/-- non-vacuity: r₀ = 0 maps to an identity representative, r₀ = 1 does not (kernel evaluation, both routines) -/
example : ((elligator sqrtRatioMin ZETA 0).map Ext.isIdentity = some true) ∧
    ((elligator sqrtRatioArk ZETA 1).map Ext.isIdentity = some false) := by decide +kernel

end C07

/-! ### the statements for the two shipped routines (`C09.ark_contract`, `C09.min_contract` discharge the premise) -/
instantiate_builds C07.elligator_eq_spec
instantiate_builds C07.elligator_total
instantiate_builds C07.elligator_builds_agree
instantiate_builds C07.elligator_neg
instantiate_builds C07.elligator_valid
instantiate_builds C07.hash_to_curve_eq
