/-
C09 — Square-root-of-ratio meets its four-case contract on every input.

`Model.SRContract sr` is the contract on canonical naturals: total (never a panic), (true,0) for num = 0,
(false,0) for den = 0 ≠ num, (true,y) with y²·den = num when num/den is a non-zero square, (false,y) with
y²·den = ζ·num otherwise.

Proved here in full for the minimal backend's routine (`non_arkworks_sqrt_ratio_zeta`: Euler criterion through
`pow_le_limbs` + the constant-time Tonelli–Shanks loop, by a loop invariant; the constants it uses are the
generated ones), and in full for the table-driven routine of the arkworks backend (`ark_contract`: with
g = ζ^M of exact order 2^47, x5 = (num/den)^M = g^e; every one of the six table lookups hits, because the key is
g^(m·2^39) for the invariant (e + t) ≡ 0 mod 2^b; the flag is the parity of e; the product squares to num/den or
ζ·num/den).  In particular neither routine can panic.  The generic field square roots (arkworks' Tonelli–Shanks
for Fq and Fp, the 3-mod-4 shortcut for Fr, driven by the translated `SQRT_PRECOMP` constants) and the Legendre symbol
are shown to agree with Euler's criterion (`fq_sqrt_spec`, `fp_sqrt_spec`, `fr_sqrt_spec`, `legendre_euler`).
-/
import Decaf.Lemmas.TonelliShanks
import Decaf.Lemmas.Sarkar
import Decaf.Lemmas.GenericSqrt

namespace C09
open Model

/-- the minimal backend's routine meets the contract, for every pair in Fq × Fq -/
theorem min_contract : SRContract sqrtRatioMin := sqrtRatioMin_contract

/-- the arkworks backend's table-driven routine meets the contract, for every pair in Fq × Fq; `total` says that
no `HashMap` index in it can miss -/
theorem ark_contract : SRContract sqrtRatioArk := sarkar_contract

/-- the two routines return the same flag and roots of the same square, on every input -/
theorem routines_agree {n d : ℕ} (hn : n < q) (hd : d < q) :
    ∃ f y y', sqrtRatioArk n d = some (f, y) ∧ sqrtRatioMin n d = some (f, y') ∧ (y : Fq) ^ 2 * (d : Fq) = (y' : Fq) ^ 2 * (d : Fq) := by
  obtain ⟨f, y, h1, _⟩ := ark_contract.total n d hn hd
  obtain ⟨f', y', h2, _⟩ := min_contract.total n d hn hd
  by_cases hn0 : n = 0
  · subst hn0
    obtain ⟨rfl, rfl⟩ := ark_contract.num_zero d f y hd h1
    obtain ⟨rfl, rfl⟩ := min_contract.num_zero d f' y' hd h2
    exact ⟨true, 0, 0, h1, h2, rfl⟩
  by_cases hd0 : d = 0
  · subst hd0
    obtain ⟨rfl, rfl⟩ := ark_contract.den_zero n f y hn hn0 h1
    obtain ⟨rfl, rfl⟩ := min_contract.den_zero n f' y' hn hn0 h2
    exact ⟨false, 0, 0, h1, h2, rfl⟩
  by_cases hsq : IsSquare ((n : Fq) / (d : Fq))
  · obtain ⟨rfl, e1⟩ := ark_contract.square n d f y hn hd hn0 hd0 h1 hsq
    obtain ⟨rfl, e2⟩ := min_contract.square n d f' y' hn hd hn0 hd0 h2 hsq
    exact ⟨true, y, y', h1, h2, by rw [e1, e2]⟩
  · obtain ⟨rfl, e1⟩ := ark_contract.nonsquare n d f y hn hd hn0 hd0 h1 hsq
    obtain ⟨rfl, e2⟩ := min_contract.nonsquare n d f' y' hn hd hn0 hd0 h2 hsq
    exact ⟨false, y, y', h1, h2, by rw [e1, e2]⟩

/-- `pow_le_limbs` is exponentiation by the integer the limbs denote, for every limb list -/
theorem pow_le_limbs_spec (m x : ℕ) (limbs : List ℕ) (h : ∀ l ∈ limbs, l < 2 ^ 64) :
    ((powLeLimbs m x limbs : ℕ) : ZMod m) = (x : ZMod m) ^ Lit.ofLimbs 64 limbs := cast_powLeLimbs m x limbs h

/-- `our_sqrt` returns a root of every non-zero square -/
theorem our_sqrt_spec {x : ℕ} (hx : x < q) (hx0 : (x : Fq) ≠ 0) (hsq : IsSquare (x : Fq)) :
    ((ourSqrt x : ℕ) : Fq) ^ 2 = (x : Fq) := (ourSqrt_spec hx hx0 hsq).1

/-- the Legendre symbol computed through `pow_le_limbs` agrees with Euler's criterion -/
theorem legendre_euler {a : ℕ} (ha : a < q) (ha0 : a ≠ 0) :
    legendre q Gen.fields_fq.Fq.MODULUS_MINUS_ONE_DIV_TWO_LIMBS.nats a = (if IsSquare (a : Fq) then 1 else 2) := by
  classical
  have haq : (a : Fq) ≠ 0 := by rwa [Ne, cast_eq_zero_iff ha]
  unfold legendre
  have h0 : (a == 0) = false := by simpa using ha0
  simp only [h0, Bool.false_eq_true, if_false]
  have hc : ((powLeLimbs q a Gen.fields_fq.Fq.MODULUS_MINUS_ONE_DIV_TWO_LIMBS.nats : ℕ) : Fq) = (a : Fq) ^ ((q - 1) / 2) := by
    rw [cast_powLeLimbs q a _ half_limbs_ok.1, half_limbs_ok.2]
  have h1 : 1 % q = 1 := Nat.mod_eq_of_lt one_lt_q
  rw [h1]
  by_cases hs : IsSquare (a : Fq)
  · have : powLeLimbs q a Gen.fields_fq.Fq.MODULUS_MINUS_ONE_DIV_TWO_LIMBS.nats = 1 := by
      apply eq_of_cast_eq (powLeLimbs_lt q a one_lt_q _) one_lt_q
      rw [hc, Nat.cast_one]; exact (pow_half_eq_one_iff haq).mpr hs
    simp [this, hs]
  · have : (powLeLimbs q a Gen.fields_fq.Fq.MODULUS_MINUS_ONE_DIV_TWO_LIMBS.nats == 1) = false := by
      rw [beq_eq_false_iff_ne]
      intro h
      apply hs
      apply (pow_half_eq_one_iff haq).mp
      rw [← hc, h, Nat.cast_one]
    simp [this, hs]

/-! ### the generic field square roots (arkworks' `Field::sqrt` driven by the repository's `SQRT_PRECOMP`) -/

theorem cast_pred_self (m : ℕ) (hm : 0 < m) : ((m - 1 : ℕ) : ZMod m) = -1 := by
  rw [Nat.cast_sub hm, Nat.cast_one, ZMod.natCast_self, zero_sub]

def fqTS := tsParams Gen.fields_fq_arkworks.Field_Fq.SQRT_PRECOMP
def fpTS := tsParams Gen.fields_fp_arkworks.Field_Fp.SQRT_PRECOMP

theorem fqSqrt_eq (a : ℕ) : fqSqrt a = sqrtTS q fqTS.1 (fqLit fqTS.2.1) fqTS.2.2 a := rfl
theorem fpSqrt_eq (a : ℕ) : fpSqrt a = sqrtTS p fpTS.1 (fpLit fpTS.2.1) fpTS.2.2 a := rfl

/-- what the translated constants have to satisfy (kernel evaluation): two-adicity, trace exponent, a 2^s-th root of -1 -/
theorem fq_ts_facts : 1 ≤ fqTS.1 ∧ q - 1 = 2 ^ fqTS.1 * (2 * Lit.ofLimbs 64 fqTS.2.2 + 1) ∧ (∀ l ∈ fqTS.2.2, l < 2 ^ 64) ∧
    fqLit fqTS.2.1 < q ∧ powMod (fqLit fqTS.2.1) (2 ^ (fqTS.1 - 1)) q = q - 1 ∧ 2 < q := by decide +kernel
theorem fp_ts_facts : 1 ≤ fpTS.1 ∧ p - 1 = 2 ^ fpTS.1 * (2 * Lit.ofLimbs 64 fpTS.2.2 + 1) ∧ (∀ l ∈ fpTS.2.2, l < 2 ^ 64) ∧
    fpLit fpTS.2.1 < p ∧ powMod (fpLit fpTS.2.1) (2 ^ (fpTS.1 - 1)) p = p - 1 ∧ 2 < p := by decide +kernel

/-- **Fq::sqrt agrees with Euler's criterion**: a root of every square, `None` for every non-square, and the modelled
loops finish within their fuel -/
theorem fq_sqrt_spec {a : ℕ} (ha : a < q) :
    (IsSquare (a : Fq) → ∃ x, fqSqrt a = some (some x) ∧ x < q ∧ (x : Fq) ^ 2 = (a : Fq)) ∧
    (¬ IsSquare (a : Fq) → fqSqrt a = some none) := by
  obtain ⟨h1, h2, h3, h4, h5, h6⟩ := fq_ts_facts
  rw [fqSqrt_eq]
  refine sqrtTS_spec h6 _ _ _ _ h1 h2 h3 rfl h4 ?_ ha
  have := congrArg (Nat.cast : ℕ → Fq) h5
  rwa [cast_powMod, cast_pred_self q (by omega)] at this

theorem fp_sqrt_spec {a : ℕ} (ha : a < p) :
    (IsSquare (a : ZMod p) → ∃ x, fpSqrt a = some (some x) ∧ x < p ∧ (x : ZMod p) ^ 2 = (a : ZMod p)) ∧
    (¬ IsSquare (a : ZMod p) → fpSqrt a = some none) := by
  obtain ⟨h1, h2, h3, h4, h5, h6⟩ := fp_ts_facts
  rw [fpSqrt_eq]
  refine sqrtTS_spec h6 _ _ _ _ h1 h2 h3 rfl h4 ?_ ha
  have := congrArg (Nat.cast : ℕ → ZMod p) h5
  rwa [cast_powMod, cast_pred_self p (by omega)] at this

def frExp : List ℕ := match Gen.fields_fr_arkworks.Field_Fr.SQRT_PRECOMP with | .struct [e] => e.nats | _ => []
theorem frSqrt_eq (a : ℕ) : frSqrt a = sqrt3Mod4 r frExp a := rfl
theorem fr_exp_facts : (∀ l ∈ frExp, l < 2 ^ 64) ∧ 4 * Lit.ofLimbs 64 frExp = r + 1 ∧ 2 < r := by decide +kernel

/-- **Fr::sqrt (the p ≡ 3 mod 4 shortcut) agrees with Euler's criterion** -/
theorem fr_sqrt_spec {a : ℕ} (ha : a < r) :
    (IsSquare (a : ZMod r) → ∃ x, frSqrt a = some x ∧ x < r ∧ (x : ZMod r) ^ 2 = (a : ZMod r)) ∧
    (¬ IsSquare (a : ZMod r) → frSqrt a = none) := by
  obtain ⟨h1, h2, h3⟩ := fr_exp_facts
  rw [frSqrt_eq]
  exact sqrt3Mod4_spec h3 frExp h1 h2 ha

/-- the Legendre symbol of all three fields agrees with Euler's criterion -/
theorem legendre_facts :
    (∀ l ∈ Gen.fields_fq.Fq.MODULUS_MINUS_ONE_DIV_TWO_LIMBS.nats, l < 2 ^ 64) ∧ Lit.ofLimbs 64 Gen.fields_fq.Fq.MODULUS_MINUS_ONE_DIV_TWO_LIMBS.nats = (q - 1) / 2 ∧
    (∀ l ∈ Gen.fields_fr.Fr.MODULUS_MINUS_ONE_DIV_TWO_LIMBS.nats, l < 2 ^ 64) ∧ Lit.ofLimbs 64 Gen.fields_fr.Fr.MODULUS_MINUS_ONE_DIV_TWO_LIMBS.nats = (r - 1) / 2 ∧
    (∀ l ∈ Gen.fields_fp.Fp.MODULUS_MINUS_ONE_DIV_TWO_LIMBS.nats, l < 2 ^ 64) ∧ Lit.ofLimbs 64 Gen.fields_fp.Fp.MODULUS_MINUS_ONE_DIV_TWO_LIMBS.nats = (p - 1) / 2 ∧
    2 < q ∧ 2 < r ∧ 2 < p := by decide +kernel

theorem legendre_all (a : ℕ) :
    (a < q → legendre q Gen.fields_fq.Fq.MODULUS_MINUS_ONE_DIV_TWO_LIMBS.nats a = if a = 0 then 0 else if IsSquare (a : ZMod q) then 1 else 2) ∧
    (a < r → legendre r Gen.fields_fr.Fr.MODULUS_MINUS_ONE_DIV_TWO_LIMBS.nats a = if a = 0 then 0 else if IsSquare (a : ZMod r) then 1 else 2) ∧
    (a < p → legendre p Gen.fields_fp.Fp.MODULUS_MINUS_ONE_DIV_TWO_LIMBS.nats a = if a = 0 then 0 else if IsSquare (a : ZMod p) then 1 else 2) := by
  obtain ⟨a1, a2, b1, b2, c1, c2, hq, hr, hp⟩ := legendre_facts
  exact ⟨fun h => legendre_spec hq _ a1 a2 h, fun h => legendre_spec hr _ b1 b2 h, fun h => legendre_spec hp _ c1 c2 h⟩

/-- non-vacuity: concrete inputs in each of the four cases, both routines (kernel evaluation) -/
example : sqrtRatioMin 0 5 = some (true, 0) ∧ sqrtRatioMin 5 0 = some (false, 0) ∧
    (sqrtRatioMin 1 4).map (·.1) = some true ∧ (sqrtRatioMin 1 5).map (·.1) = some true ∧
    (sqrtRatioMin 1 ZETA).map (·.1) = some false := by decide +kernel
example : sqrtRatioArk 0 5 = some (true, 0) ∧ sqrtRatioArk 5 0 = some (false, 0) ∧
    (sqrtRatioArk 1 4).map (·.1) = some true ∧ (sqrtRatioArk 1 ZETA).map (·.1) = some false := by decide +kernel

end C09
