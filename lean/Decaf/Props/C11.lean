/-
C11 — Field-element encodings and conversions are canonical and consistent.

The statements are about the model of the wrappers' glue (Model/Glue.lean) for the three concrete fields, with
`FIELD_SIZE_POWER_OF_TWO` etc. read from the generated constants.  Backend primitives (`from_raw_bytes` on exactly
N_8 bytes = reduction mod p; Montgomery arithmetic) enter by contract, see DESIGN.md §4.
-/
import Decaf.Lemmas.Glue
import Decaf.Model.Exec
import Decaf.Props.C17

namespace C11
open Model Model.Exec

/-- the three fields satisfy the side conditions of the glue lemmas (kernel-evaluated on the generated constants) -/
theorem fq_ok : 0 < fqP.n8 ∧ 0 < fqP.m ∧ fqP.fspt % fqP.m = 256 ^ fqP.n8 % fqP.m ∧ fqP.m ≤ 256 ^ fqP.n8 ∧ fqP.m < (2 ^ 64) ^ fqP.nl := by
  decide +kernel
theorem fr_ok : 0 < frP.n8 ∧ 0 < frP.m ∧ frP.fspt % frP.m = 256 ^ frP.n8 % frP.m ∧ frP.m ≤ 256 ^ frP.n8 ∧ frP.m < (2 ^ 64) ^ frP.nl := by
  decide +kernel
theorem fp_ok : 0 < fpP.n8 ∧ 0 < fpP.m ∧ fpP.fspt % fpP.m = 256 ^ fpP.n8 % fpP.m ∧ fpP.m ≤ 256 ^ fpP.n8 ∧ fpP.m < (2 ^ 64) ^ fpP.nl := by
  decide +kernel

/-- **reduction of byte strings of ANY length equals the integer modulo p** (little endian) -/
theorem from_le_bytes_mod_order_spec (bs : List ℕ) :
    fqP.fromLeBytesModOrder bs = leBytes bs % q ∧ frP.fromLeBytesModOrder bs = leBytes bs % r ∧
    fpP.fromLeBytesModOrder bs = leBytes bs % p :=
  ⟨FP.fromLeBytesModOrder_spec fqP fq_ok.1 fq_ok.2.1 fq_ok.2.2.1 bs,
   FP.fromLeBytesModOrder_spec frP fr_ok.1 fr_ok.2.1 fr_ok.2.2.1 bs,
   FP.fromLeBytesModOrder_spec fpP fp_ok.1 fp_ok.2.1 fp_ok.2.2.1 bs⟩

/-- big endian: the integer read from the reversed string -/
theorem from_be_bytes_mod_order_spec (bs : List ℕ) :
    fqP.fromBeBytesModOrder bs = leBytes bs.reverse % q ∧ frP.fromBeBytesModOrder bs = leBytes bs.reverse % r ∧
    fpP.fromBeBytesModOrder bs = leBytes bs.reverse % p :=
  ⟨FP.fromBeBytesModOrder_spec fqP fq_ok.1 fq_ok.2.1 fq_ok.2.2.1 bs,
   FP.fromBeBytesModOrder_spec frP fr_ok.1 fr_ok.2.1 fr_ok.2.2.1 bs,
   FP.fromBeBytesModOrder_spec fpP fp_ok.1 fp_ok.2.1 fp_ok.2.2.1 bs⟩

/-- **checked parsing accepts exactly the integers below p** (all three fields) -/
theorem from_bytes_checked_iff (bs : List ℕ) (hb : ∀ b ∈ bs, b < 256) (v : ℕ) :
    (bs.length = 32 → (fqP.fromBytesChecked bs = some v ↔ leBytes bs < q ∧ v = leBytes bs)) ∧
    (bs.length = 32 → (frP.fromBytesChecked bs = some v ↔ leBytes bs < r ∧ v = leBytes bs)) ∧
    (bs.length = 48 → (fpP.fromBytesChecked bs = some v ↔ leBytes bs < p ∧ v = leBytes bs)) :=
  ⟨fun hl => FP.fromBytesChecked_iff fqP fq_ok.2.2.2.1 fq_ok.2.1 bs hl hb v,
   fun hl => FP.fromBytesChecked_iff frP fr_ok.2.2.2.1 fr_ok.2.1 bs hl hb v,
   fun hl => FP.fromBytesChecked_iff fpP fp_ok.2.2.2.1 fp_ok.2.1 bs hl hb v⟩

/-- **serialisation emits the canonical little-endian form**, which parses back to the same element -/
theorem to_bytes_canonical (x : ℕ) :
    (x < q → (fqP.toBytesLe x).length = 32 ∧ leBytes (fqP.toBytesLe x) = x ∧ fqP.fromBytesChecked (fqP.toBytesLe x) = some x) ∧
    (x < r → (frP.toBytesLe x).length = 32 ∧ leBytes (frP.toBytesLe x) = x ∧ frP.fromBytesChecked (frP.toBytesLe x) = some x) ∧
    (x < p → (fpP.toBytesLe x).length = 48 ∧ leBytes (fpP.toBytesLe x) = x ∧ fpP.fromBytesChecked (fpP.toBytesLe x) = some x) := by
  refine ⟨fun hx => ?_, fun hx => ?_, fun hx => ?_⟩
  · have := FP.toBytesLe_spec fqP fq_ok.2.2.2.1 x hx
    exact ⟨this.1, this.2.1, FP.fromBytesChecked_toBytesLe fqP fq_ok.2.2.2.1 fq_ok.2.1 x hx⟩
  · have := FP.toBytesLe_spec frP fr_ok.2.2.2.1 x hx
    exact ⟨this.1, this.2.1, FP.fromBytesChecked_toBytesLe frP fr_ok.2.2.2.1 fr_ok.2.1 x hx⟩
  · have := FP.toBytesLe_spec fpP fp_ok.2.2.2.1 x hx
    exact ⟨this.1, this.2.1, FP.fromBytesChecked_toBytesLe fpP fp_ok.2.2.2.1 fp_ok.2.1 x hx⟩

/-- limbs of a canonical value -/
theorem toLimbs_spec (w x n : ℕ) (hx : x < (2 ^ w) ^ n) :
    (toLimbs w x n).length = n ∧ (∀ l ∈ toLimbs w x n, l < 2 ^ w) ∧ Lit.ofLimbs w (toLimbs w x n) = x := by
  induction n generalizing x with
  | zero =>
    have : x = 0 := by simpa using hx
    subst this; simp [toLimbs, Lit.ofLimbs]
  | succ n ih =>
    have hx' : x / 2 ^ w < (2 ^ w) ^ n := by
      rw [Nat.div_lt_iff_lt_mul (by positivity)]
      calc x < (2 ^ w) ^ (n + 1) := hx
        _ = (2 ^ w) ^ n * 2 ^ w := by rw [pow_succ]
    obtain ⟨h1, h2, h3⟩ := ih _ hx'
    refine ⟨by simp [toLimbs, h1], ?_, ?_⟩
    · intro l hl
      simp only [toLimbs, List.mem_cons] at hl
      rcases hl with rfl | hl
      · exact Nat.mod_lt _ (by positivity)
      · exact h2 l hl
    · simp only [toLimbs, Lit.ofLimbs, h3]
      exact Nat.mod_add_div x (2 ^ w)

/-- **ordering is integer ordering** -/
theorem ord_spec (F : FP) (hF : F.m < (2 ^ 64) ^ F.nl) (a b : ℕ) (ha : a < F.m) (hb : b < F.m) :
    F.cmp a b = compare a b := by
  unfold FP.cmp FP.toLeLimbs
  obtain ⟨la, ha2, ha3⟩ := toLimbs_spec 64 a F.nl (lt_trans ha hF)
  obtain ⟨lb, hb2, hb3⟩ := toLimbs_spec 64 b F.nl (lt_trans hb hF)
  rw [FP.cmpLex_reverse 64 _ _ (by rw [la, lb]) ha2 hb2, ha3, hb3]

theorem ord_spec_all (a b : ℕ) :
    (a < q → b < q → fqP.cmp a b = compare a b) ∧ (a < r → b < r → frP.cmp a b = compare a b) ∧
    (a < p → b < p → fpP.cmp a b = compare a b) :=
  ⟨ord_spec fqP fq_ok.2.2.2.2 a b, ord_spec frP fr_ok.2.2.2.2 a b, ord_spec fpP fp_ok.2.2.2.2 a b⟩

/-- **`from_bigint` accepts exactly the limb arrays denoting integers below p** -/
theorem from_bigint_iff (F : FP) (modLimbs ls : List ℕ) (hm : Lit.ofLimbs 64 modLimbs = F.m)
    (hml : ∀ l ∈ modLimbs, l < 2 ^ 64) (hl : ls.length = modLimbs.length) (hls : ∀ l ∈ ls, l < 2 ^ 64) (v : ℕ) :
    F.fromBigint ls modLimbs = some v ↔ Lit.ofLimbs 64 ls < F.m ∧ v = Lit.ofLimbs 64 ls := by
  unfold FP.fromBigint FP.fromLeLimbs
  rw [FP.cmpLex_reverse 64 ls modLimbs hl hls hml, hm]
  by_cases hlt : Lit.ofLimbs 64 ls < F.m
  · have : compare (Lit.ofLimbs 64 ls) F.m = .lt := Nat.compare_eq_lt.mpr hlt
    simp only [this, bne_self_eq_false, Bool.false_eq_true, if_false, Option.some.injEq, Nat.mod_eq_of_lt hlt]
    exact ⟨fun h => ⟨hlt, h.symm⟩, fun h => h.2.symm⟩
  · have : (compare (Lit.ofLimbs 64 ls) F.m != .lt) = true := by
      rcases Nat.lt_or_ge (Lit.ofLimbs 64 ls) F.m with h | h
      · exact absurd h hlt
      · rcases Nat.eq_or_lt_of_le h with h | h
        · rw [← h]; simp [Nat.compare_eq_eq.mpr rfl]
        · simp [Nat.compare_eq_gt.mpr h]
    simp only [this, if_true, reduceCtorEq, false_iff, not_and]
    intro h; exact absurd h hlt

/-- hashing is consistent with equality: the hash input is the canonical byte string -/
theorem hash_spec (x y : ℕ) (hx : x < q) (hy : y < q) : fqP.toBytesLe x = fqP.toBytesLe y ↔ x = y := by
  constructor
  · intro h
    have := congrArg leBytes h
    rwa [(FP.toBytesLe_spec fqP fq_ok.2.2.2.1 x hx).2.1, (FP.toBytesLe_spec fqP fq_ok.2.2.2.1 y hy).2.1] at this
  · rintro rfl; rfl

/-- non-vacuity: strings longer than two chunks, and the modulus itself -/
example : fqP.fromLeBytesModOrder (List.replicate 100 255) = (256 ^ 100 - 1) % q := by decide +kernel
example : fqP.fromBytesChecked (toLeBytes q 32) = none ∧ fqP.fromBytesChecked (toLeBytes (q - 1) 32) = some (q - 1) := by
  decide +kernel

theorem toLeBytes_succ_snoc (x n : ℕ) : toLeBytes x (n + 1) = toLeBytes x n ++ [x / 256 ^ n % 256] := by
  induction n generalizing x with
  | zero => simp [toLeBytes]
  | succ n ih =>
    rw [toLeBytes, ih (x / 256), toLeBytes]
    simp only [List.cons_append, List.cons.injEq, true_and, List.append_cancel_left_eq, List.cons.injEq, and_true]
    rw [Nat.div_div_eq_div_mul, pow_succ, Nat.mul_comm]

/-- the flag byte patterns the three arkworks flag types emit: kind 0 `EmptyFlags`, 1 `TEFlags`, 2 `SWFlags` -/
def flagMask (kind flag : ℕ) : ℕ :=
  match kind, flag with
  | 1, 1 => 128
  | 2, 1 => 128
  | 2, 2 => 64
  | _, _ => 0

def flagOk (kind flag : ℕ) : Prop := (kind = 0 ∧ flag = 0) ∨ (kind = 1 ∧ flag ≤ 1) ∨ (kind = 2 ∧ flag ≤ 2)

theorem flags_byte (kind flag b : ℕ) (hk : flagOk kind flag) (hb : b < 64) :
    FP.flagsFromU8 kind (Nat.lor b (flagMask kind flag)) = some (flag, b) := by
  rcases hk with ⟨rfl, rfl⟩ | ⟨rfl, hf⟩ | ⟨rfl, hf⟩
  · interval_cases b <;> rfl
  · interval_cases flag <;> interval_cases b <;> rfl
  · interval_cases flag <;> interval_cases b <;> rfl

/-- **serialisation with flags round-trips value and flags** (any field whose top byte has two spare bits, which is
the case for Fq, Fr and Fp; every flag value of the three standard flag types) -/
theorem flags_roundtrip (F : FP) (modLimbs : List ℕ) (hm : Lit.ofLimbs 64 modLimbs = F.m) (hml : ∀ l ∈ modLimbs, l < 2 ^ 64)
    (hnl : modLimbs.length = F.nl) (hn : 0 < F.n8) (hbits : F.bits + 2 ≤ 8 * F.n8) (h8 : F.n8 ≤ 8 * F.nl)
    (hmb : F.m ≤ 2 ^ F.bits) (hF : F.m < (2 ^ 64) ^ F.nl)
    (kind flag : ℕ) (hk : flagOk kind flag) (x : ℕ) (hx : x < F.m) :
    ∃ bytes, F.serWithFlags x (FP.flagBitsOf kind) (flagMask kind flag) = some bytes ∧ bytes.length = F.n8 ∧
      F.deserWithFlags kind bytes modLimbs = .ok (x, flag) := by
  obtain ⟨n, hn8⟩ : ∃ n, F.n8 = n + 1 := ⟨F.n8 - 1, by omega⟩
  have hfb : FP.flagBitsOf kind ≤ 2 := by
    rcases hk with ⟨rfl, _⟩ | ⟨rfl, _⟩ | ⟨rfl, _⟩ <;> simp [FP.flagBitsOf]
  have hfb8 : ¬ FP.flagBitsOf kind > 8 := by omega
  have hn8def : (F.bits + 7) / 8 = n + 1 := hn8
  have hsz : (F.bits + FP.flagBitsOf kind + 7) / 8 = n + 1 := by omega
  -- the top byte
  have hxb : x < 2 ^ F.bits := lt_of_lt_of_le hx hmb
  have hx256 : x < 256 ^ (n + 1) := by
    calc x < 2 ^ F.bits := hxb
      _ ≤ 2 ^ (8 * (n + 1)) := Nat.pow_le_pow_right (by norm_num) (by omega)
      _ = 256 ^ (n + 1) := by rw [pow_mul]; norm_num
  set b := x / 256 ^ n % 256 with hb
  have hb64 : b < 64 := by
    have h1 : x / 256 ^ n < 64 := by
      rw [Nat.div_lt_iff_lt_mul (by positivity)]
      calc x < 2 ^ F.bits := hxb
        _ ≤ 2 ^ (6 + 8 * n) := Nat.pow_le_pow_right (by norm_num) (by omega)
        _ = 64 * 256 ^ n := by rw [pow_add, pow_mul]; norm_num
    exact lt_of_le_of_lt (Nat.mod_le _ _) h1
  have hbytes : F.toBytesLe x = toLeBytes x n ++ [b] := by
    unfold FP.toBytesLe; rw [hn8, toLeBytes_succ_snoc]
  have hlen : (toLeBytes x n).length = n := toLeBytes_length x n
  refine ⟨toLeBytes x n ++ [Nat.lor b (flagMask kind flag)], ?_, by simp [hlen, hn8], ?_⟩
  · unfold FP.serWithFlags
    rw [if_neg hfb8]
    simp only [hbytes, hsz, List.length_append, hlen, List.length_singleton, beq_self_eq_true, if_true,
      Nat.add_sub_cancel]
    rw [List.take_left' hlen]
    congr 3
    rw [List.getD_eq_getElem?_getD, List.getElem?_append_right (by omega), hlen, Nat.sub_self]
    rfl
  · unfold FP.deserWithFlags
    have hk2 : ¬ kind > 2 := by
      rcases hk with ⟨rfl, _⟩ | ⟨rfl, _⟩ | ⟨rfl, _⟩ <;> omega
    rw [if_neg hk2]
    have hbuf : (F.bits + 7) / 8 = n + 1 := hn8def
    simp only [hbuf, hsz, gt_iff_lt, lt_irrefl, if_false, List.length_append, hlen, List.length_singleton,
      Nat.sub_self, List.replicate_zero, List.append_nil, Nat.add_sub_cancel]
    have htake : (toLeBytes x n ++ [Nat.lor b (flagMask kind flag)]).take (n + 1) = toLeBytes x n ++ [Nat.lor b (flagMask kind flag)] := by
      apply List.take_of_length_le; simp [hlen]
    rw [htake]
    have hget : (toLeBytes x n ++ [Nat.lor b (flagMask kind flag)]).getD n 0 = Nat.lor b (flagMask kind flag) := by
      rw [List.getD_eq_getElem?_getD, List.getElem?_append_right (by omega), hlen, Nat.sub_self]; rfl
    rw [hget, flags_byte kind flag b hk hb64]
    simp only []
    rw [List.take_left' hlen, ← hbytes]
    have htk : (F.toBytesLe x).take (8 * F.nl) = F.toBytesLe x := by
      apply List.take_of_length_le
      unfold FP.toBytesLe; rw [toLeBytes_length]; exact h8
    rw [htk]
    have hle : leBytes (F.toBytesLe x) = x := by
      unfold FP.toBytesLe; rw [hn8]; exact leBytes_toLeBytes x (n + 1) hx256
    rw [hle]
    have hxl : x < (2 ^ 64) ^ F.nl := lt_trans hx hF
    obtain ⟨l1, l2, l3⟩ := toLimbs_spec 64 x F.nl hxl
    have := (from_bigint_iff F modLimbs (toLimbs 64 x F.nl) hm hml (by rw [l1, hnl]) l2 x).mpr ⟨by rw [l3]; exact hx, l3.symm⟩
    rw [this]

/-- side conditions of `flags_roundtrip` for the three fields, from the translated constants (kernel evaluation) -/
theorem flags_side_fq : Lit.ofLimbs 64 Gen.fields_fq.Fq.MODULUS_LIMBS.nats = fqP.m ∧ (∀ l ∈ Gen.fields_fq.Fq.MODULUS_LIMBS.nats, l < 2 ^ 64) ∧
    Gen.fields_fq.Fq.MODULUS_LIMBS.nats.length = fqP.nl ∧ fqP.bits + 2 ≤ 8 * fqP.n8 ∧ fqP.n8 ≤ 8 * fqP.nl ∧ fqP.m ≤ 2 ^ fqP.bits := by decide +kernel
theorem flags_side_fr : Lit.ofLimbs 64 Gen.fields_fr.Fr.MODULUS_LIMBS.nats = frP.m ∧ (∀ l ∈ Gen.fields_fr.Fr.MODULUS_LIMBS.nats, l < 2 ^ 64) ∧
    Gen.fields_fr.Fr.MODULUS_LIMBS.nats.length = frP.nl ∧ frP.bits + 2 ≤ 8 * frP.n8 ∧ frP.n8 ≤ 8 * frP.nl ∧ frP.m ≤ 2 ^ frP.bits := by decide +kernel
theorem flags_side_fp : Lit.ofLimbs 64 Gen.fields_fp.Fp.MODULUS_LIMBS.nats = fpP.m ∧ (∀ l ∈ Gen.fields_fp.Fp.MODULUS_LIMBS.nats, l < 2 ^ 64) ∧
    Gen.fields_fp.Fp.MODULUS_LIMBS.nats.length = fpP.nl ∧ fpP.bits + 2 ≤ 8 * fpP.n8 ∧ fpP.n8 ≤ 8 * fpP.nl ∧ fpP.m ≤ 2 ^ fpP.bits := by decide +kernel

/-- the round trip for Fq, Fr and Fp with the published modulus limbs -/
theorem flags_roundtrip_all (kind flag : ℕ) (hk : flagOk kind flag) (x : ℕ) :
    (x < fqP.m → ∃ bytes, fqP.serWithFlags x (FP.flagBitsOf kind) (flagMask kind flag) = some bytes ∧ bytes.length = fqP.n8 ∧
      fqP.deserWithFlags kind bytes Gen.fields_fq.Fq.MODULUS_LIMBS.nats = .ok (x, flag)) ∧
    (x < frP.m → ∃ bytes, frP.serWithFlags x (FP.flagBitsOf kind) (flagMask kind flag) = some bytes ∧ bytes.length = frP.n8 ∧
      frP.deserWithFlags kind bytes Gen.fields_fr.Fr.MODULUS_LIMBS.nats = .ok (x, flag)) ∧
    (x < fpP.m → ∃ bytes, fpP.serWithFlags x (FP.flagBitsOf kind) (flagMask kind flag) = some bytes ∧ bytes.length = fpP.n8 ∧
      fpP.deserWithFlags kind bytes Gen.fields_fp.Fp.MODULUS_LIMBS.nats = .ok (x, flag)) := by
  obtain ⟨a1, a2, a3, a4, a5, a6⟩ := flags_side_fq
  obtain ⟨b1, b2, b3, b4, b5, b6⟩ := flags_side_fr
  obtain ⟨c1, c2, c3, c4, c5, c6⟩ := flags_side_fp
  exact ⟨fun hx => flags_roundtrip fqP _ a1 a2 a3 fq_ok.1 a4 a5 a6 fq_ok.2.2.2.2 kind flag hk x hx,
    fun hx => flags_roundtrip frP _ b1 b2 b3 fr_ok.1 b4 b5 b6 fr_ok.2.2.2.2 kind flag hk x hx,
    fun hx => flags_roundtrip fpP _ c1 c2 c3 fp_ok.1 c4 c5 c6 fp_ok.2.2.2.2 kind flag hk x hx⟩


def wideMask (k flag : ℕ) : ℕ := if k ≥ 8 then flag % 256 else (flag % 2 ^ k) * 2 ^ (8 - k)

theorem flagBitsOf_wide (k : ℕ) (h : 3 ≤ k) : FP.flagBitsOf k = k := by
  rcases k with _ | _ | _ | k
  · omega
  · omega
  · omega
  · rfl

theorem flags_byte_wide : ∀ k, 3 ≤ k → k ≤ 8 → ∀ flag < 2 ^ k, ∀ b < 2 ^ (8 - k),
    FP.flagsFromU8 k (Nat.lor b (wideMask k flag)) = some (flag, b) := by
  intro k h3 h8
  interval_cases k <;> decide +kernel

/-- **serialisation with a user-defined flags type of 3 … 8 bits round-trips value and flags** (any field; `8·nl = n8`
holds for Fq, Fr, Fp).  When the flags do not fit into the spare bits of the top byte the stream has one extra byte — the
case in which the pinned tree's `deserialize_with_flags` indexed past its buffer (repaired by dca9ca3). -/
theorem flags_roundtrip_wide (F : FP) (modLimbs : List ℕ) (hm : Lit.ofLimbs 64 modLimbs = F.m) (hml : ∀ l ∈ modLimbs, l < 2 ^ 64)
    (hnl : modLimbs.length = F.nl) (hn : 0 < F.n8) (h8 : 8 * F.nl = F.n8)
    (hmb : F.m ≤ 2 ^ F.bits) (hF : F.m < (2 ^ 64) ^ F.nl)
    (k flag : ℕ) (hk3 : 3 ≤ k) (hk8 : k ≤ 8) (hf : flag < 2 ^ k) (x : ℕ) (hx : x < F.m) :
    ∃ bytes, F.serWithFlags x k (wideMask k flag) = some bytes ∧ F.deserWithFlags k bytes modLimbs = .ok (x, flag) := by
  obtain ⟨n, hn8⟩ : ∃ n, F.n8 = n + 1 := ⟨F.n8 - 1, by omega⟩
  have hn8def : (F.bits + 7) / 8 = n + 1 := hn8
  have hk2 : k > 2 := by omega
  have hfb8 : ¬ k > 8 := by omega
  have hxb : x < 2 ^ F.bits := lt_of_lt_of_le hx hmb
  have hbl : F.bits ≤ 8 * (n + 1) := by omega
  have hx256 : x < 256 ^ (n + 1) := by
    calc x < 2 ^ F.bits := hxb
      _ ≤ 2 ^ (8 * (n + 1)) := Nat.pow_le_pow_right (by norm_num) hbl
      _ = 256 ^ (n + 1) := by rw [pow_mul]; norm_num
  set b := x / 256 ^ n % 256 with hb
  have hbytes : F.toBytesLe x = toLeBytes x n ++ [b] := by
    unfold FP.toBytesLe; rw [hn8, toLeBytes_succ_snoc]
  have hlen : (toLeBytes x n).length = n := toLeBytes_length x n
  have hblen : (F.toBytesLe x).length = n + 1 := by rw [hbytes]; simp [hlen]
  -- the value part of the decoder, common to both cases
  have hval : ∀ rest : List ℕ, (F.fromBigint (toLimbs 64 (leBytes ((F.toBytesLe x ++ rest).take (8 * F.nl))) F.nl) modLimbs) = some x := by
    intro rest
    have htk : (F.toBytesLe x ++ rest).take (8 * F.nl) = F.toBytesLe x := by
      rw [h8, hn8, List.take_left' hblen]
    rw [htk]
    have hle : leBytes (F.toBytesLe x) = x := by
      unfold FP.toBytesLe; rw [hn8]; exact leBytes_toLeBytes x (n + 1) hx256
    rw [hle]
    have hxl : x < (2 ^ 64) ^ F.nl := lt_trans hx hF
    obtain ⟨l1, l2, l3⟩ := toLimbs_spec 64 x F.nl hxl
    exact (from_bigint_iff F modLimbs (toLimbs 64 x F.nl) hm hml (by rw [l1, hnl]) l2 x).mpr ⟨by rw [l3]; exact hx, l3.symm⟩
  by_cases hfit : (F.bits + k + 7) / 8 = n + 1
  · -- the flags share the top byte
    have hb' : b < 2 ^ (8 - k) := by
      have h1 : x / 256 ^ n < 2 ^ (8 - k) := by
        rw [Nat.div_lt_iff_lt_mul (by positivity)]
        calc x < 2 ^ F.bits := hxb
          _ ≤ 2 ^ ((8 - k) + 8 * n) := Nat.pow_le_pow_right (by norm_num) (by omega)
          _ = 2 ^ (8 - k) * 256 ^ n := by rw [pow_add, pow_mul]; norm_num
      exact lt_of_le_of_lt (Nat.mod_le _ _) h1
    refine ⟨toLeBytes x n ++ [Nat.lor b (wideMask k flag)], ?_, ?_⟩
    · unfold FP.serWithFlags
      rw [if_neg hfb8]
      simp only [hbytes, hfit, List.length_append, hlen, List.length_singleton, beq_self_eq_true, if_true, Nat.add_sub_cancel]
      rw [List.take_left' hlen]
      congr 3
      rw [List.getD_eq_getElem?_getD, List.getElem?_append_right (by omega), hlen, Nat.sub_self]
      rfl
    · unfold FP.deserWithFlags
      rw [if_pos hk2]
      unfold FP.deserWithFlagsWide
      simp only [flagBitsOf_wide k hk3, hfit, hn8def, List.length_append, hlen, List.length_singleton, lt_irrefl, if_false, Nat.add_sub_cancel]
      have htake : (toLeBytes x n ++ [Nat.lor b (wideMask k flag)]).take (n + 1) = toLeBytes x n ++ [Nat.lor b (wideMask k flag)] := by
        apply List.take_of_length_le; simp [hlen]
      rw [htake]
      have hget : (toLeBytes x n ++ [Nat.lor b (wideMask k flag)]).getD n 0 = Nat.lor b (wideMask k flag) := by
        rw [List.getD_eq_getElem?_getD, List.getElem?_append_right (by omega), hlen, Nat.sub_self]; rfl
      rw [hget, flags_byte_wide k hk3 hk8 flag hf b hb']
      simp only []
      rw [List.take_left' hlen, ← hbytes]
      rw [hval]
  · -- one extra byte carries the flags
    have hfit2 : (F.bits + k + 7) / 8 = n + 2 := by omega
    refine ⟨F.toBytesLe x ++ [wideMask k flag], ?_, ?_⟩
    · unfold FP.serWithFlags
      rw [if_neg hfb8]
      have : ((F.toBytesLe x).length == (F.bits + k + 7) / 8) = false := by
        rw [hblen, hfit2]; simp
      simp only [this, Bool.false_eq_true, if_false]
    · unfold FP.deserWithFlags
      rw [if_pos hk2]
      unfold FP.deserWithFlagsWide
      simp only [flagBitsOf_wide k hk3, hfit2, hn8def, List.length_append, hblen, List.length_singleton, lt_irrefl, if_false]
      have htake : (F.toBytesLe x ++ [wideMask k flag]).take (n + 2) = F.toBytesLe x ++ [wideMask k flag] := by
        apply List.take_of_length_le; simp [hblen]
      rw [htake]
      have e21 : n + 2 - 1 = n + 1 := by omega
      rw [e21]
      have hget : (F.toBytesLe x ++ [wideMask k flag]).getD (n + 1) 0 = wideMask k flag := by
        rw [List.getD_eq_getElem?_getD, List.getElem?_append_right (by omega), hblen, Nat.sub_self]; rfl
      rw [hget]
      have h0 := flags_byte_wide k hk3 hk8 flag hf 0 (by positivity)
      rw [show Nat.lor 0 (wideMask k flag) = wideMask k flag from Nat.zero_or _] at h0
      rw [h0]
      simp only []
      rw [List.take_left' hblen, List.append_assoc, hval]
/-- the round trip with user-defined flag types of 3 … 8 bits for Fq, Fr and Fp with the published modulus limbs -/
theorem flags_roundtrip_wide_all (k flag : ℕ) (hk3 : 3 ≤ k) (hk8 : k ≤ 8) (hf : flag < 2 ^ k) (x : ℕ) :
    (x < fqP.m → ∃ bytes, fqP.serWithFlags x k (wideMask k flag) = some bytes ∧
      fqP.deserWithFlags k bytes Gen.fields_fq.Fq.MODULUS_LIMBS.nats = .ok (x, flag)) ∧
    (x < frP.m → ∃ bytes, frP.serWithFlags x k (wideMask k flag) = some bytes ∧
      frP.deserWithFlags k bytes Gen.fields_fr.Fr.MODULUS_LIMBS.nats = .ok (x, flag)) ∧
    (x < fpP.m → ∃ bytes, fpP.serWithFlags x k (wideMask k flag) = some bytes ∧
      fpP.deserWithFlags k bytes Gen.fields_fp.Fp.MODULUS_LIMBS.nats = .ok (x, flag)) := by
  obtain ⟨a1, a2, a3, _, _, a6⟩ := flags_side_fq
  obtain ⟨b1, b2, b3, _, _, b6⟩ := flags_side_fr
  obtain ⟨c1, c2, c3, _, _, c6⟩ := flags_side_fp
  have e1 : 8 * fqP.nl = fqP.n8 := by decide +kernel
  have e2 : 8 * frP.nl = frP.n8 := by decide +kernel
  have e3 : 8 * fpP.nl = fpP.n8 := by decide +kernel
  exact ⟨fun hx => flags_roundtrip_wide fqP _ a1 a2 a3 fq_ok.1 e1 a6 fq_ok.2.2.2.2 k flag hk3 hk8 hf x hx,
    fun hx => flags_roundtrip_wide frP _ b1 b2 b3 fr_ok.1 e2 b6 fr_ok.2.2.2.2 k flag hk3 hk8 hf x hx,
    fun hx => flags_roundtrip_wide fpP _ c1 c2 c3 fp_ok.1 e3 c6 fp_ok.2.2.2.2 k flag hk3 hk8 hf x hx⟩

/-- non-vacuity: a 4-bit flags type on Fq needs the extra byte (33 bytes), a 3-bit one does not -/
example : (fqP.bits + 4 + 7) / 8 = fqP.n8 + 1 ∧ (fqP.bits + 3 + 7) / 8 = fqP.n8 := by decide +kernel

/-- the integer a decimal digit string denotes -/
def decVal (s : List Char) : ℕ := s.foldl (fun a c => 10 * a + (c.toNat - 48)) 0

theorem fromStr_aux (F : FP) (s : List Char) : ∀ (a n : ℕ), a = n % F.m →
    s.foldl (fun acc c => match acc with
      | none => none
      | some a => if c.isDigit then some (fadd F.m (fmul F.m 10 a) (c.toNat - 48)) else none) (some a)
    = if s.all Char.isDigit then some (s.foldl (fun a c => 10 * a + (c.toNat - 48)) n % F.m) else none := by
  induction s with
  | nil => intro a n h; simp [h]
  | cons c cs ih =>
    intro a n h
    simp only [List.foldl_cons, List.all_cons]
    by_cases hc : c.isDigit = true
    · simp only [hc, if_true, Bool.true_and]
      apply ih
      unfold fadd fmul
      rw [h]
      simp [Nat.add_mod, Nat.mul_mod]
    · have hc' : c.isDigit = false := by simpa using hc
      simp only [hc', Bool.false_eq_true, if_false, Bool.false_and]
      clear ih
      induction cs with
      | nil => rfl
      | cons d ds ih2 => simpa using ih2

/-- **`FromStr`**: a string of decimal digits parses to the integer it denotes, reduced mod p (so leading zeros, values
≥ p and arbitrarily long strings are all covered); any other character makes parsing fail; the empty string is 0 -/
theorem from_str_spec (F : FP) (s : List Char) :
    F.fromStr s = if s.all Char.isDigit then some (decVal s % F.m) else none := by
  unfold FP.fromStr decVal
  exact fromStr_aux F s 0 0 (Nat.zero_mod _).symm

theorem decVal_eq_ofDigitChars (s : List Char) : decVal s = Nat.ofDigitChars 10 s 0 := rfl

/-- **Display then FromStr is the identity** on canonical values: zero prints as the empty string, which parses to 0;
any other value prints as its decimal digits -/
theorem display_from_str (F : FP) (x : ℕ) (hx : x < F.m) : F.fromStr (FP.display x).toList = some x := by
  rw [from_str_spec]
  unfold FP.display
  by_cases h0 : x = 0
  · subst h0
    simp [decVal, Nat.zero_mod]
  · have hb : (x == 0) = false := by simpa using h0
    simp only [hb, Bool.false_eq_true, if_false]
    have hl : (toString x).toList = Nat.toDigits 10 x := by
      rw [Nat.toString_eq_repr, Nat.toList_repr]
    rw [hl]
    have hall : (Nat.toDigits 10 x).all Char.isDigit = true := by
      rw [List.all_eq_true]
      intro c hc
      exact Nat.isDigit_of_mem_toDigits (by norm_num) (by norm_num) hc
    rw [hall, if_pos rfl, decVal_eq_ofDigitChars, Nat.ofDigitChars_toDigits (by norm_num) (by norm_num), Nat.mod_eq_of_lt hx]

end C11
