/-
C11 — Field-element encodings and conversions are canonical and consistent.

The statements are about the model of the wrappers' glue (Model/Glue.lean) for the three concrete fields, with
`FIELD_SIZE_POWER_OF_TWO` etc. read from the generated constants.  Backend primitives (`from_raw_bytes` on exactly
N_8 bytes = reduction mod p; Montgomery arithmetic) enter by contract, see DESIGN.md §4.
-/
import Decaf.Lemmas.Glue
import Decaf.Model.Exec
import Decaf.Props.C17

namespace C11
open Model Model.Exec

/-- the three fields satisfy the side conditions of the glue lemmas (kernel-evaluated on the generated constants) -/
theorem fq_ok : 0 < fqP.n8 ∧ 0 < fqP.m ∧ fqP.fspt % fqP.m = 256 ^ fqP.n8 % fqP.m ∧ fqP.m ≤ 256 ^ fqP.n8 ∧ fqP.m < (2 ^ 64) ^ fqP.nl := by
  decide +kernel
theorem fr_ok : 0 < frP.n8 ∧ 0 < frP.m ∧ frP.fspt % frP.m = 256 ^ frP.n8 % frP.m ∧ frP.m ≤ 256 ^ frP.n8 ∧ frP.m < (2 ^ 64) ^ frP.nl := by
  decide +kernel
theorem fp_ok : 0 < fpP.n8 ∧ 0 < fpP.m ∧ fpP.fspt % fpP.m = 256 ^ fpP.n8 % fpP.m ∧ fpP.m ≤ 256 ^ fpP.n8 ∧ fpP.m < (2 ^ 64) ^ fpP.nl := by
  decide +kernel

/-- **reduction of byte strings of ANY length equals the integer modulo p** (little endian) -/
theorem from_le_bytes_mod_order_spec (bs : List ℕ) :
    fqP.fromLeBytesModOrder bs = leBytes bs % q ∧ frP.fromLeBytesModOrder bs = leBytes bs % r ∧
    fpP.fromLeBytesModOrder bs = leBytes bs % p :=
  ⟨FP.fromLeBytesModOrder_spec fqP fq_ok.1 fq_ok.2.1 fq_ok.2.2.1 bs,
   FP.fromLeBytesModOrder_spec frP fr_ok.1 fr_ok.2.1 fr_ok.2.2.1 bs,
   FP.fromLeBytesModOrder_spec fpP fp_ok.1 fp_ok.2.1 fp_ok.2.2.1 bs⟩

/-- big endian: the integer read from the reversed string -/
theorem from_be_bytes_mod_order_spec (bs : List ℕ) :
    fqP.fromBeBytesModOrder bs = leBytes bs.reverse % q ∧ frP.fromBeBytesModOrder bs = leBytes bs.reverse % r ∧
    fpP.fromBeBytesModOrder bs = leBytes bs.reverse % p :=
  ⟨FP.fromBeBytesModOrder_spec fqP fq_ok.1 fq_ok.2.1 fq_ok.2.2.1 bs,
   FP.fromBeBytesModOrder_spec frP fr_ok.1 fr_ok.2.1 fr_ok.2.2.1 bs,
   FP.fromBeBytesModOrder_spec fpP fp_ok.1 fp_ok.2.1 fp_ok.2.2.1 bs⟩

/-- **checked parsing accepts exactly the integers below p** (all three fields) -/
theorem from_bytes_checked_iff (bs : List ℕ) (hb : ∀ b ∈ bs, b < 256) (v : ℕ) :
    (bs.length = 32 → (fqP.fromBytesChecked bs = some v ↔ leBytes bs < q ∧ v = leBytes bs)) ∧
    (bs.length = 32 → (frP.fromBytesChecked bs = some v ↔ leBytes bs < r ∧ v = leBytes bs)) ∧
    (bs.length = 48 → (fpP.fromBytesChecked bs = some v ↔ leBytes bs < p ∧ v = leBytes bs)) :=
  ⟨fun hl => FP.fromBytesChecked_iff fqP fq_ok.2.2.2.1 fq_ok.2.1 bs hl hb v,
   fun hl => FP.fromBytesChecked_iff frP fr_ok.2.2.2.1 fr_ok.2.1 bs hl hb v,
   fun hl => FP.fromBytesChecked_iff fpP fp_ok.2.2.2.1 fp_ok.2.1 bs hl hb v⟩

/-- **serialisation emits the canonical little-endian form**, which parses back to the same element -/
theorem to_bytes_canonical (x : ℕ) :
    (x < q → (fqP.toBytesLe x).length = 32 ∧ leBytes (fqP.toBytesLe x) = x ∧ fqP.fromBytesChecked (fqP.toBytesLe x) = some x) ∧
    (x < r → (frP.toBytesLe x).length = 32 ∧ leBytes (frP.toBytesLe x) = x ∧ frP.fromBytesChecked (frP.toBytesLe x) = some x) ∧
    (x < p → (fpP.toBytesLe x).length = 48 ∧ leBytes (fpP.toBytesLe x) = x ∧ fpP.fromBytesChecked (fpP.toBytesLe x) = some x) := by
  refine ⟨fun hx => ?_, fun hx => ?_, fun hx => ?_⟩
  · have := FP.toBytesLe_spec fqP fq_ok.2.2.2.1 x hx
    exact ⟨this.1, this.2.1, FP.fromBytesChecked_toBytesLe fqP fq_ok.2.2.2.1 fq_ok.2.1 x hx⟩
  · have := FP.toBytesLe_spec frP fr_ok.2.2.2.1 x hx
    exact ⟨this.1, this.2.1, FP.fromBytesChecked_toBytesLe frP fr_ok.2.2.2.1 fr_ok.2.1 x hx⟩
  · have := FP.toBytesLe_spec fpP fp_ok.2.2.2.1 x hx
    exact ⟨this.1, this.2.1, FP.fromBytesChecked_toBytesLe fpP fp_ok.2.2.2.1 fp_ok.2.1 x hx⟩

/-- limbs of a canonical value -/
theorem toLimbs_spec (w x n : ℕ) (hx : x < (2 ^ w) ^ n) :
    (toLimbs w x n).length = n ∧ (∀ l ∈ toLimbs w x n, l < 2 ^ w) ∧ Lit.ofLimbs w (toLimbs w x n) = x := by
  induction n generalizing x with
  | zero =>
    have : x = 0 := by simpa using hx
    subst this; simp [toLimbs, Lit.ofLimbs]
  | succ n ih =>
    have hx' : x / 2 ^ w < (2 ^ w) ^ n := by
      rw [Nat.div_lt_iff_lt_mul (by positivity)]
      calc x < (2 ^ w) ^ (n + 1) := hx
        _ = (2 ^ w) ^ n * 2 ^ w := by rw [pow_succ]
    obtain ⟨h1, h2, h3⟩ := ih _ hx'
    refine ⟨by simp [toLimbs, h1], ?_, ?_⟩
    · intro l hl
      simp only [toLimbs, List.mem_cons] at hl
      rcases hl with rfl | hl
      · exact Nat.mod_lt _ (by positivity)
      · exact h2 l hl
    · simp only [toLimbs, Lit.ofLimbs, h3]
      exact Nat.mod_add_div x (2 ^ w)

/-- **ordering is integer ordering** -/
theorem ord_spec (F : FP) (hF : F.m < (2 ^ 64) ^ F.nl) (a b : ℕ) (ha : a < F.m) (hb : b < F.m) :
    F.cmp a b = compare a b := by
  unfold FP.cmp FP.toLeLimbs
  obtain ⟨la, ha2, ha3⟩ := toLimbs_spec 64 a F.nl (lt_trans ha hF)
  obtain ⟨lb, hb2, hb3⟩ := toLimbs_spec 64 b F.nl (lt_trans hb hF)
  rw [FP.cmpLex_reverse 64 _ _ (by rw [la, lb]) ha2 hb2, ha3, hb3]

theorem ord_spec_all (a b : ℕ) :
    (a < q → b < q → fqP.cmp a b = compare a b) ∧ (a < r → b < r → frP.cmp a b = compare a b) ∧
    (a < p → b < p → fpP.cmp a b = compare a b) :=
  ⟨ord_spec fqP fq_ok.2.2.2.2 a b, ord_spec frP fr_ok.2.2.2.2 a b, ord_spec fpP fp_ok.2.2.2.2 a b⟩

/-- **`from_bigint` accepts exactly the limb arrays denoting integers below p** -/
theorem from_bigint_iff (F : FP) (modLimbs ls : List ℕ) (hm : Lit.ofLimbs 64 modLimbs = F.m)
    (hml : ∀ l ∈ modLimbs, l < 2 ^ 64) (hl : ls.length = modLimbs.length) (hls : ∀ l ∈ ls, l < 2 ^ 64) (v : ℕ) :
    F.fromBigint ls modLimbs = some v ↔ Lit.ofLimbs 64 ls < F.m ∧ v = Lit.ofLimbs 64 ls := by
  unfold FP.fromBigint FP.fromLeLimbs
  rw [FP.cmpLex_reverse 64 ls modLimbs hl hls hml, hm]
  by_cases hlt : Lit.ofLimbs 64 ls < F.m
  · have : compare (Lit.ofLimbs 64 ls) F.m = .lt := Nat.compare_eq_lt.mpr hlt
    simp only [this, bne_self_eq_false, Bool.false_eq_true, if_false, Option.some.injEq, Nat.mod_eq_of_lt hlt]
    exact ⟨fun h => ⟨hlt, h.symm⟩, fun h => h.2.symm⟩
  · have : (compare (Lit.ofLimbs 64 ls) F.m != .lt) = true := by
      rcases Nat.lt_or_ge (Lit.ofLimbs 64 ls) F.m with h | h
      · exact absurd h hlt
      · rcases Nat.eq_or_lt_of_le h with h | h
        · rw [← h]; simp [Nat.compare_eq_eq.mpr rfl]
        · simp [Nat.compare_eq_gt.mpr h]
    simp only [this, if_true, reduceCtorEq, false_iff, not_and]
    intro h; exact absurd h hlt

/-- hashing is consistent with equality: the hash input is the canonical byte string -/
theorem hash_spec (x y : ℕ) (hx : x < q) (hy : y < q) : fqP.toBytesLe x = fqP.toBytesLe y ↔ x = y := by
  constructor
  · intro h
    have := congrArg leBytes h
    rwa [(FP.toBytesLe_spec fqP fq_ok.2.2.2.1 x hx).2.1, (FP.toBytesLe_spec fqP fq_ok.2.2.2.1 y hy).2.1] at this
  · rintro rfl; rfl

/-- non-vacuity: strings longer than two chunks, and the modulus itself -/
example : fqP.fromLeBytesModOrder (List.replicate 100 255) = (256 ^ 100 - 1) % q := by decide +kernel
example : fqP.fromBytesChecked (toLeBytes q 32) = none ∧ fqP.fromBytesChecked (toLeBytes (q - 1) 32) = some (q - 1) := by
  decide +kernel

end C11
