/-
C02 — Decoding accepts exactly the canonical encodings of the specification.

`sr` is ANY square-root routine meeting the four-case contract (`Model.SRContract`; C09 proves it for the two
routines of the repository), so every statement holds for both builds.  `DecSpec s P` is the relational form of
ristretto.sage's `decodeSpec` (see `Spec/Encoding.lean`).  Byte strings are lists of naturals < 256.
The nine entry points of the Rust API all reduce to `decodeSlice` / `decode32` (that forwarding is one line each and
is validated by the correspondence run over every entry point × every near-miss class).
-/
import Decaf.BuildsCmd
import Decaf.Lemmas.RoundTrip

namespace C02
open Model Edwards Decaf

variable {sr : SR}

/-- the top-three-bits pre-check is implied by canonicity -/
theorem top_bits_of_lt (bytes : List ℕ) (hv : leBytes bytes < q) : bytes.getD 31 0 / 32 = 0 := by
  have := getD_mul_le_leBytes bytes 31
  have hq := q_lt_two_pow_253
  by_contra hc
  have h32 : 32 ≤ bytes.getD 31 0 := by
    by_contra hlt
    exact hc (Nat.div_eq_of_lt (not_le.mp hlt))
  have : 32 * 256 ^ 31 ≤ leBytes bytes := le_trans (Nat.mul_le_mul_right _ h32) this
  have e : (32 : ℕ) * 256 ^ 31 = 2 ^ 253 := by norm_num
  omega

/-- `decode32` is `decodeField` on the integer value when that value is canonical, and an encoding error otherwise -/
theorem decode32_eq (bytes : List ℕ) :
    decode32 sr bytes = if leBytes bytes < q then decodeField sr (leBytes bytes) else .error .encoding := by
  unfold decode32 fqFromBytesChecked
  by_cases hv : leBytes bytes < q
  · have ht := top_bits_of_lt bytes hv
    rw [if_pos hv, ht]
    simp [hv]
  · simp only [hv, if_false]
    by_cases ht : (bytes.getD 31 0 / 32 != 0) = true
    · rw [if_pos ht]
    · rw [if_neg ht]

/-- **acceptance**: a 32-byte string is accepted iff its value is below q and the specification decodes it
(non-negative s with square discriminant; in particular s = q-1 and every s ≥ q, every string with a high bit
set and every negative s are rejected) -/
theorem decode_accepts_iff (h : SRContract sr) (bytes : List ℕ) :
    (∃ c, decode32 sr bytes = .ok c) ↔ leBytes bytes < q ∧ ∃ pt : E, DecSpec (leBytes bytes) pt := by
  rw [decode32_eq]
  by_cases hv : leBytes bytes < q
  · simp only [hv, if_true, true_and]
    rcases decodeField_spec h _ hv with ⟨herr, hno⟩ | ⟨c, pt, hok, _, hspec, _⟩
    · constructor
      · rintro ⟨c, hc⟩; rw [herr] at hc; exact absurd hc (by simp)
      · intro hex; exact absurd hex hno
    · exact ⟨fun _ => ⟨pt, hspec⟩, fun _ => ⟨c, hok⟩⟩
  · simp [hv]

/-- **result**: what is returned represents the point the specification defines (which is on the curve and in the
even subgroup), with Z = 1 -/
theorem decode_eq_spec (h : SRContract sr) (bytes : List ℕ) {c : Ext} (hc : decode32 sr bytes = .ok c) :
    ∃ pt : E, ERepr c pt ∧ DecSpec (leBytes bytes) pt ∧ Point.IsEven pt ∧ c.Z = 1 ∧ c.X < q := by
  rw [decode32_eq] at hc
  by_cases hv : leBytes bytes < q
  · simp only [hv, if_true] at hc
    rcases decodeField_spec h _ hv with ⟨herr, _⟩ | ⟨c', pt, hok, hr, hspec, hev, hx, hz⟩
    · rw [herr] at hc; exact absurd hc (by simp)
    · rw [hok] at hc
      have : c' = c := by injection hc
      subst this
      exact ⟨pt, hr, hspec, hev, hz, hx⟩
  · simp [hv] at hc

/-- the specification determines the returned element: any two specified results are in the same coset -/
theorem spec_unique {s : ℕ} {p p' : E} (h : DecSpec s p) (h' : DecSpec s p') : Point.Coset p p' := by
  obtain ⟨hx, hy⟩ := DecodesTo.unique h h'
  rw [Point.coset_iff_coords]
  rcases hy with hy | ⟨hs0, hy⟩
  · exact Or.inl ⟨hx, hy⟩
  · right
    refine ⟨?_, hy⟩
    obtain ⟨_, t, _, _, hx1, _⟩ := h
    rw [hx, hx1, hs0, mul_zero, zero_div, neg_zero]

/-- **never a panic, never anything but an encoding error** -/
theorem decode_error_is_encoding (h : SRContract sr) (bytes : List ℕ) {e : DecErr} (he : decode32 sr bytes = .error e) :
    e = .encoding := by
  rw [decode32_eq] at he
  by_cases hv : leBytes bytes < q
  · simp only [hv, if_true] at he
    rcases decodeField_spec h _ hv with ⟨herr, _⟩ | ⟨c', pt, hok, _⟩
    · rw [herr] at he; injection he with he; exact he.symm
    · rw [hok] at he; exact absurd he (by simp)
  · simp only [hv, if_false] at he; injection he with he; exact he.symm

/-- slices of any other length are length errors; slices of length 32 are decoded as above -/
theorem decodeSlice_length (bytes : List ℕ) (hl : bytes.length ≠ 32) : decodeSlice sr bytes = .error .length := by
  unfold decodeSlice; simp [hl]

theorem decodeSlice_32 (bytes : List ℕ) (hl : bytes.length = 32) : decodeSlice sr bytes = decode32 sr bytes := by
  unfold decodeSlice; simp [hl]

/-! ### the named rejection classes -/

theorem rejects_noncanonical (bytes : List ℕ) (hv : q ≤ leBytes bytes) : decode32 sr bytes = .error .encoding := by
  rw [decode32_eq]; simp [not_lt.mpr hv]

theorem rejects_negative (h : SRContract sr) (bytes : List ℕ) (hneg : leBytes bytes % 2 = 1) : ¬ ∃ c, decode32 sr bytes = .ok c := by
  rw [decode_accepts_iff h]
  rintro ⟨hv, pt, hn, _⟩
  have : paritySign.neg ((leBytes bytes : ℕ) : Fq) = true := by
    rw [← isNeg_eq hv]; unfold isNeg; simp [hneg]
  rw [this] at hn; exact absurd hn (by simp)

/-- s = -1 (the bytes of q-1) is rejected: its discriminant is -4d, a non-square -/
theorem rejects_minus_one (h : SRContract sr) (bytes : List ℕ) (hv : leBytes bytes = q - 1) : ¬ ∃ c, decode32 sr bytes = .ok c := by
  rw [decode_accepts_iff h]
  rintro ⟨_, pt, _, t, ht, _⟩
  have hs : (((leBytes bytes : ℕ)) : Fq) = -1 := by rw [hv]; exact cast_q_sub_one
  apply one_sub_sq_ne_zero_of_root ht
  rw [hs]; ring

/-- non-vacuity: the encoding of the generator, 8, is accepted; q-1, q and 1 are not (kernel evaluation) -/
example : (decode32 sqrtRatioMin (toLeBytes 8 32)).toOption.isSome = true := by decide +kernel
example : (decode32 sqrtRatioMin (toLeBytes (q - 1) 32)).toOption.isSome = false := by decide +kernel
example : (decode32 sqrtRatioArk (toLeBytes q 32)).toOption.isSome = false := by decide +kernel
example : (decode32 sqrtRatioArk (toLeBytes 1 32)).toOption.isSome = false := by decide +kernel

end C02

/-! ### the statements for the two shipped routines (`C09.ark_contract`, `C09.min_contract` discharge the premise) -/
instantiate_builds C02.decode_accepts_iff
instantiate_builds C02.decode_eq_spec
instantiate_builds C02.decode_error_is_encoding
instantiate_builds C02.rejects_negative
instantiate_builds C02.rejects_minus_one
