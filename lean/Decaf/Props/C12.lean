/-
C12 — The arkworks and the minimal backend are observationally identical.

Everything above the square root is proved for every routine meeting the contract, and everything about the group
law is proved both for the minimal backend's extended-coordinate formulas and for the reference affine law by which
the arkworks backend is modelled.  The statements below put two different routines / two different sets of formulas
side by side: same decoding verdict, same encoding bytes, same element from every program and every ladder.
-/
import Decaf.BuildsCmd
import Decaf.Props.C01
import Decaf.Props.C05

namespace C12
open Model Edwards Decaf

variable {sr sr' : SR}

/-- decoding: same verdict in both builds, for every byte string -/
theorem decode_verdict_agrees (h : SRContract sr) (h' : SRContract sr') (bytes : List ℕ) :
    (∃ c, decode32 sr bytes = .ok c) ↔ (∃ c, decode32 sr' bytes = .ok c) := by
  rw [C02.decode_accepts_iff h, C02.decode_accepts_iff h']

/-- decoding: the same element, and then the same re-encoding -/
theorem decode_result_agrees (h : SRContract sr) (h' : SRContract sr') (bytes : List ℕ) {c c' : Ext}
    (hc : decode32 sr bytes = .ok c) (hc' : decode32 sr' bytes = .ok c') : Ext.eq c c' = true := by
  obtain ⟨p, r, s, _, _, _⟩ := C02.decode_eq_spec h bytes hc
  obtain ⟨p', r', s', _, _, _⟩ := C02.decode_eq_spec h' bytes hc'
  exact (eq_iff_coset r r').mpr (C02.spec_unique s s')

/-- errors are the same too (always the encoding error) -/
theorem decode_error_agrees (h : SRContract sr) (h' : SRContract sr') (bytes : List ℕ) {e e' : DecErr}
    (he : decode32 sr bytes = .error e) (he' : decode32 sr' bytes = .error e') : e = e' := by
  rw [C02.decode_error_is_encoding h bytes he, C02.decode_error_is_encoding h' bytes he']

/-- encoding: byte-identical, whatever representative each build holds -/
theorem encode_agrees (h : SRContract sr) (h' : SRContract sr') {c c' : Ext} {p p' : E}
    (hr : ERepr c p) (hr' : ERepr c' p') (he : Point.IsEven p) (hc : Point.Coset p p') :
    Ext.encode sr c = Ext.encode sr' c' := by
  unfold Ext.encode
  rw [C03.encode_respects_element h h' hr hr' he hc]

/-- group operations: every straight-line program gives the same element under both sets of formulas -/
theorem programs_agree (envC : ℕ → Ext) (envP : ℕ → E) (h : ∀ i, ERepr (envC i) (envP i)) (e : C04.Expr) :
    Ext.eq (C04.evalMin envC e) (C04.evalRef envC e) = true := C04.programs_agree envC envP h e

/-- scalar multiplication: LSB-first ladder over HWCD formulas = MSB-first ladder over the reference law -/
theorem scalar_mul_agrees {c : Ext} {p : E} (h : ERepr c p) (limbs : List ℕ) (hl : ∀ l ∈ limbs, l < 2 ^ 64) :
    Ext.eq (c.scalarMulMin limbs) (c.scalarMulRef limbs) = true := C05.ladders_agree h limbs hl

/-- and so does everything downstream: program, then encoding, in either build -/
theorem program_encoding_agrees (h : SRContract sr) (h' : SRContract sr') (envC : ℕ → Ext) (envP : ℕ → E)
    (henv : ∀ i, ERepr (envC i) (envP i)) (heven : ∀ i, Point.IsEven (envP i)) (e : C04.Expr) :
    Ext.encode sr (C04.evalMin envC e) = Ext.encode sr' (C04.evalRef envC e) :=
  encode_agrees h h' (C04.evalMin_repr envC envP henv e) (C04.evalRef_repr envC envP henv e)
    (C01.obtainable_even envP heven e) (Point.Coset.refl _)

/-- the curve constants of the two backends are the same numbers (generated literals, kernel-evaluated) -/
theorem constants_agree : ZETA_min = ZETA ∧ fqLit Gen.min_curve_constants.top.COEFF_A = cA ∧
    fqLit Gen.min_curve_constants.top.COEFF_D = cD ∧ cK = fmul q 2 cD := by decide +kernel

end C12

/-! ### the statements for the two shipped routines (`C09.ark_contract`, `C09.min_contract` discharge the premise) -/
instantiate_builds C12.decode_verdict_agrees
instantiate_builds C12.decode_result_agrees
instantiate_builds C12.decode_error_agrees
instantiate_builds C12.encode_agrees
instantiate_builds C12.program_encoding_agrees
