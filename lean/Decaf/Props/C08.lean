/-
C08 — Equality, hashing and identity tests are mutually coherent.

`eq_iff_coset`: the library's equality (x₁y₂ = y₁x₂ on any representatives, any projective scaling) holds exactly
when the two curve points are in the same coset of ⟨T2⟩, i.e. denote the same group element — for ALL pairs of
points of E.  Identity predicates: `is_identity` (X = 0), comparison with the identity constant and the zero test
(after the repair: the same X = 0 test) agree on every representation.  Equality ⇔ same encoding and
"equal ⇒ hash equal" (the hash input is the encoding since the repair) follow from C03 and are stated in Props/C03.
-/
import Decaf.Props.C04

namespace C08
open Model Edwards

/-- equality of elements is the coset relation, for every pair of representatives -/
theorem eq_iff_coset {c1 c2 : Ext} {p1 p2 : E} (h1 : ERepr c1 p1) (h2 : ERepr c2 p2) :
    Ext.eq c1 c2 = true ↔ Point.Coset p1 p2 := Model.eq_iff_coset h1 h2

/-- it does not depend on the projective scaling or on which member of the coset is stored -/
theorem eq_respects_representative {c1 c1' c2 c2' : Ext} {p1 p1' p2 p2' : E}
    (h1 : ERepr c1 p1) (h1' : ERepr c1' p1') (h2 : ERepr c2 p2) (h2' : ERepr c2' p2')
    (e1 : Point.Coset p1 p1') (e2 : Point.Coset p2 p2') : Ext.eq c1 c2 = Ext.eq c1' c2' := by
  have a := eq_iff_coset h1 h2
  have b := eq_iff_coset h1' h2'
  have : Point.Coset p1 p2 ↔ Point.Coset p1' p2' :=
    ⟨fun h => (e1.symm.trans h).trans e2, fun h => (e1.trans h).trans e2.symm⟩
  rcases hx : Ext.eq c1 c2 <;> rcases hy : Ext.eq c1' c2' <;> simp_all

/-- equality is an equivalence relation on representatives -/
theorem eq_refl {c : Ext} {p : E} (h : ERepr c p) : Ext.eq c c = true := C04.eq_of_repr_same h h
theorem eq_symm {c1 c2 : Ext} {p1 p2 : E} (h1 : ERepr c1 p1) (h2 : ERepr c2 p2) (e : Ext.eq c1 c2 = true) :
    Ext.eq c2 c1 = true := (eq_iff_coset h2 h1).mpr ((eq_iff_coset h1 h2).mp e).symm
theorem eq_trans {c1 c2 c3 : Ext} {p1 p2 p3 : E} (h1 : ERepr c1 p1) (h2 : ERepr c2 p2) (h3 : ERepr c3 p3)
    (e1 : Ext.eq c1 c2 = true) (e2 : Ext.eq c2 c3 = true) : Ext.eq c1 c3 = true :=
  (eq_iff_coset h1 h3).mpr (((eq_iff_coset h1 h2).mp e1).trans ((eq_iff_coset h2 h3).mp e2))

/-- every identity predicate gives the same answer on every representation:
`is_identity` / `is_zero` (X = 0)  ⇔  `== IDENTITY` / `== default()`  ⇔  the point is 0 or T2 -/
theorem identity_predicates_agree {c : Ext} {p : E} (h : ERepr c p) (hX : c.X < q) :
    (Ext.isIdentity c = true ↔ Ext.eq c Ext.identity = true) ∧ (Ext.isIdentity c = true ↔ Point.Coset 0 p) := by
  have a := isIdentity_iff h hX
  have b := eq_iff_coset h identity_repr
  exact ⟨⟨fun hi => b.mpr (a.mp hi).symm, fun he => a.mpr (b.mp he).symm⟩, a⟩

/-- both representatives of the identity are recognised (the T2 representative is the case the pinned tree missed) -/
example : Ext.isIdentity ⟨0, q - 1, 1, 0⟩ = true ∧ Ext.eq ⟨0, q - 1, 1, 0⟩ Ext.identity = true := by decide +kernel

end C08
