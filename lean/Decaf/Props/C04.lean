/-
C04 — Every form of addition, subtraction and negation computes the group law.

Model side: `Ext.addMin / doubleMin / neg / subMin` are the formulas of `min_curve/element.rs`; `Ext.addRef …` is the
reference affine law by which the arkworks backend is modelled.  `ERepr c P` says that the quadruple `c` of canonical
naturals represents the curve point `P : E` (E = the twisted Edwards curve over ZMod q with its group law proved in
`Spec/Edwards`).  All statements are for *every* operand: identity, T2, P with -P, P with itself, both coset members
(the formulas are complete).  The operator forms of the Rust API forward to these functions; that forwarding is
validated by the correspondence run (every form × every element class), see DESIGN.md §6 C04.
-/
import Decaf.Lemmas.ModelCurve

namespace C04
open Model Edwards

/-- minimal backend: HWCD addition computes the group law -/
theorem addMin_correct {c1 c2 : Ext} {p1 p2 : E} (h1 : ERepr c1 p1) (h2 : ERepr c2 p2) :
    ERepr (Ext.addMin c1 c2) (p1 + p2) := addMin_repr h1 h2

theorem doubleMin_correct {c : Ext} {p : E} (h : ERepr c p) : ERepr (Ext.doubleMin c) (2 • p) := by
  rw [two_nsmul]; exact doubleMin_repr h

theorem neg_correct {c : Ext} {p : E} (h : ERepr c p) : ERepr (Ext.neg c) (-p) := neg_repr h

theorem subMin_correct {c1 c2 : Ext} {p1 p2 : E} (h1 : ERepr c1 p1) (h2 : ERepr c2 p2) :
    ERepr (Ext.subMin c1 c2) (p1 - p2) := subMin_repr h1 h2

/-- arkworks backend (modelled by the reference affine law) -/
theorem addRef_correct {c1 c2 : Ext} {p1 p2 : E} (h1 : ERepr c1 p1) (h2 : ERepr c2 p2) :
    ERepr (Ext.addRef c1 c2) (p1 + p2) := addRef_repr h1 h2

theorem doubleRef_correct {c : Ext} {p : E} (h : ERepr c p) : ERepr (Ext.doubleRef c) (2 • p) := by
  rw [two_nsmul]; exact doubleRef_repr h

theorem subRef_correct {c1 c2 : Ext} {p1 p2 : E} (h1 : ERepr c1 p1) (h2 : ERepr c2 p2) :
    ERepr (Ext.subRef c1 c2) (p1 - p2) := subRef_repr h1 h2

/-- two representatives of the same point compare equal -/
theorem eq_of_repr_same {c c' : Ext} {p : E} (h : ERepr c p) (h' : ERepr c' p) : Ext.eq c c' = true :=
  (eq_iff_coset h h').mpr (Point.Coset.refl p)

/-- both backends compute the same element -/
theorem backends_agree_add {c1 c2 : Ext} {p1 p2 : E} (h1 : ERepr c1 p1) (h2 : ERepr c2 p2) :
    Ext.eq (Ext.addMin c1 c2) (Ext.addRef c1 c2) = true :=
  eq_of_repr_same (addMin_repr h1 h2) (addRef_repr h1 h2)

/-! ### group laws, observed through the library's equality -/

theorem add_comm_obs {c1 c2 : Ext} {p1 p2 : E} (h1 : ERepr c1 p1) (h2 : ERepr c2 p2) :
    Ext.eq (Ext.addMin c1 c2) (Ext.addMin c2 c1) = true := by
  have := addMin_repr h2 h1
  rw [add_comm] at this
  exact eq_of_repr_same (addMin_repr h1 h2) this

theorem add_assoc_obs {c1 c2 c3 : Ext} {p1 p2 p3 : E} (h1 : ERepr c1 p1) (h2 : ERepr c2 p2) (h3 : ERepr c3 p3) :
    Ext.eq (Ext.addMin (Ext.addMin c1 c2) c3) (Ext.addMin c1 (Ext.addMin c2 c3)) = true := by
  have := addMin_repr h1 (addMin_repr h2 h3)
  rw [← add_assoc] at this
  exact eq_of_repr_same (addMin_repr (addMin_repr h1 h2) h3) this

theorem identity_neutral {c : Ext} {p : E} (h : ERepr c p) : Ext.eq (Ext.addMin c Ext.identity) c = true := by
  have := addMin_repr h identity_repr
  rw [add_zero] at this
  exact eq_of_repr_same this h

theorem sub_self_is_identity {c : Ext} {p : E} (h : ERepr c p) :
    Ext.eq (Ext.subMin c c) Ext.identity = true := by
  have := subMin_repr h h
  rw [sub_self] at this
  exact eq_of_repr_same this identity_repr

theorem add_neg_is_identity {c : Ext} {p : E} (h : ERepr c p) :
    Ext.eq (Ext.addMin c (Ext.neg c)) Ext.identity = true := by
  have := addMin_repr h (neg_repr h)
  rw [add_neg_cancel] at this
  exact eq_of_repr_same this identity_repr

theorem double_eq_add_self {c : Ext} {p : E} (h : ERepr c p) :
    Ext.eq (Ext.doubleMin c) (Ext.addMin c c) = true :=
  eq_of_repr_same (doubleMin_repr h) (addMin_repr h h)

/-- an operand may be replaced by the other member of its coset (or any other representative) -/
theorem add_respects_coset {c1 c1' c2 c2' : Ext} {p1 p1' p2 p2' : E}
    (h1 : ERepr c1 p1) (h1' : ERepr c1' p1') (h2 : ERepr c2 p2) (h2' : ERepr c2' p2')
    (e1 : Ext.eq c1 c1' = true) (e2 : Ext.eq c2 c2' = true) :
    Ext.eq (Ext.addMin c1 c2) (Ext.addMin c1' c2') = true :=
  (eq_iff_coset (addMin_repr h1 h2) (addMin_repr h1' h2')).mpr
    (Point.Coset.add ((eq_iff_coset h1 h1').mp e1) ((eq_iff_coset h2 h2').mp e2))

/-! ### straight-line programs over both backends -/

inductive Expr where
  | leaf (i : ℕ)
  | add (a b : Expr)
  | sub (a b : Expr)
  | neg (a : Expr)
  | dbl (a : Expr)

def evalMin (env : ℕ → Ext) : Expr → Ext
  | .leaf i => env i
  | .add a b => Ext.addMin (evalMin env a) (evalMin env b)
  | .sub a b => Ext.subMin (evalMin env a) (evalMin env b)
  | .neg a => Ext.neg (evalMin env a)
  | .dbl a => Ext.doubleMin (evalMin env a)

def evalRef (env : ℕ → Ext) : Expr → Ext
  | .leaf i => env i
  | .add a b => Ext.addRef (evalRef env a) (evalRef env b)
  | .sub a b => Ext.subRef (evalRef env a) (evalRef env b)
  | .neg a => Ext.neg (evalRef env a)
  | .dbl a => Ext.doubleRef (evalRef env a)

def denote (env : ℕ → E) : Expr → E
  | .leaf i => env i
  | .add a b => denote env a + denote env b
  | .sub a b => denote env a - denote env b
  | .neg a => -denote env a
  | .dbl a => denote env a + denote env a

theorem evalMin_repr (envC : ℕ → Ext) (envP : ℕ → E) (h : ∀ i, ERepr (envC i) (envP i)) (e : Expr) :
    ERepr (evalMin envC e) (denote envP e) := by
  induction e with
  | leaf i => exact h i
  | add a b iha ihb => exact addMin_repr iha ihb
  | sub a b iha ihb => exact subMin_repr iha ihb
  | neg a ih => exact neg_repr ih
  | dbl a ih => exact doubleMin_repr ih

theorem evalRef_repr (envC : ℕ → Ext) (envP : ℕ → E) (h : ∀ i, ERepr (envC i) (envP i)) (e : Expr) :
    ERepr (evalRef envC e) (denote envP e) := by
  induction e with
  | leaf i => exact h i
  | add a b iha ihb => exact addRef_repr iha ihb
  | sub a b iha ihb => exact subRef_repr iha ihb
  | neg a ih => exact neg_repr ih
  | dbl a ih => exact doubleRef_repr ih

/-- every program gives the same element in both backends, and it is the group-theoretic value -/
theorem programs_agree (envC : ℕ → Ext) (envP : ℕ → E) (h : ∀ i, ERepr (envC i) (envP i)) (e : Expr) :
    Ext.eq (evalMin envC e) (evalRef envC e) = true :=
  eq_of_repr_same (evalMin_repr envC envP h e) (evalRef_repr envC envP h e)

/-- `Sum`: folding from the identity computes the sum of the denotations -/
theorem sum_correct (cs : List Ext) (ps : List E) (h : List.Forall₂ ERepr cs ps) :
    ERepr (cs.foldl Ext.addMin Ext.identity) ps.sum := by
  suffices ∀ (acc : Ext) (pa : E), ERepr acc pa → ERepr (cs.foldl Ext.addMin acc) (pa + ps.sum) by
    simpa using this _ _ identity_repr
  induction h with
  | nil => intro acc pa ha; simpa using ha
  | cons hab _ ih =>
    intro acc pa ha
    simp only [List.foldl_cons, List.sum_cons]
    rw [← add_assoc]
    exact ih _ _ (addMin_repr ha hab)

/-! ### non-vacuity: the generator is a representative of a point of E, with Z ≠ 1 after one doubling -/

def genPoint : E := ⟨(C17.bx : Fq), (C17.by' : Fq), by
  have h : C17.onCurve C17.bx C17.by' = true := by decide +kernel
  unfold C17.onCurve at h
  rw [beq_iff_eq] at h
  have := congrArg (Nat.cast : ℕ → Fq) h
  simp only [cast_fadd, cast_fmul, cast_fsq, Nat.cast_one] at this
  unfold OnCurve
  have ha : (C17.coeffA : Fq) = -1 := cast_cA
  have hd : params.d = (C17.coeffD : Fq) := rfl
  rw [ha] at this
  rw [hd]
  linear_combination this⟩

theorem gen_repr : ERepr ⟨C17.bx, C17.by', 1, C17.bt⟩ genPoint := by
  have h : C17.bt = fmul q C17.bx C17.by' := by decide +kernel
  refine ⟨?_, ?_, ?_, ?_⟩
  · show ((1 : ℕ) : Fq) ≠ 0
    rw [Nat.cast_one]; exact one_ne_zero
  · show (C17.bx : Fq) = (C17.bx : Fq) * ((1 : ℕ) : Fq)
    rw [Nat.cast_one, mul_one]
  · show (C17.by' : Fq) = (C17.by' : Fq) * ((1 : ℕ) : Fq)
    rw [Nat.cast_one, mul_one]
  · show (C17.bt : Fq) * ((1 : ℕ) : Fq) = (C17.bx : Fq) * (C17.by' : Fq)
    rw [Nat.cast_one, mul_one, h, cast_fmul]

example : (Ext.doubleMin ⟨C17.bx, C17.by', 1, C17.bt⟩).Z ≠ 1 := by decide +kernel

end C04
