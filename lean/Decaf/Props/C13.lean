/-
C13 — R1CS gadgets compute what the native code computes, and are complete.

With the honest hint (`none` = what `Fq::sqrt_ratio_zeta(&ONE, &den)` returns out of circuit):
* `isqrt_complete`: the isqrt constraints are satisfied for every input, and the gadget's (flag, y) IS the native result;
* `decompress_complete_iff`: the decode gadget is satisfied exactly when native decoding succeeds, and its output
  coordinates are the native ones;
* `compress_complete`: the encode gadget is satisfied for every input pair and outputs exactly what the native encoder
  outputs; `elligator_complete`: the Elligator gadget is satisfied for every input and outputs the affine coordinates
  of the native result;
* `add_gadget`, `sub_gadget`, `neg_gadget`, `double_gadget`, `select_gadget`, `scalarMul_gadget` (every bit list),
  `isEq_gadget`: the arithmetic / comparison gadgets compute the group law / decide the coset relation on the values
  their variables carry;
* `allocWitness_complete`: witness allocation of any representative of any group element is satisfied and hands back a
  representative of the same element;
* `lazy_*`: forcing the encoding / the element of a lazily evaluated variable, in any order and any number of times,
  emits at most one gadget and never changes a value once it is defined.
They use `sarkar_contract` (the table-driven routine meets its contract, C09.ark_contract); no premise is left.
-/
import Decaf.Props.C14
import Decaf.Lemmas.Sarkar

namespace C13
open Model Edwards Decaf

/-- honest synthesis of isqrt is always satisfied and returns the native pair -/
theorem isqrt_complete {x : ℕ} (hx : x < q) :
    ∃ f y, sqrtRatioArk 1 x = some (f, y) ∧ R1cs.isqrt x none = (true, f, y) := by
  have h := sarkar_contract
  obtain ⟨f, y, hs, hy⟩ := h.total 1 x one_lt_q hx
  refine ⟨f, y, hs, ?_⟩
  have hone : (1 : ℕ) ≠ 0 := one_ne_zero
  unfold R1cs.isqrt R1cs.honest
  simp only [Option.getD_none, hs, Option.getD_some]
  by_cases hx0 : x = 0
  · subst hx0
    obtain ⟨rfl, rfl⟩ := h.den_zero 1 f y one_lt_q hone hs
    decide +kernel
  · have hz : (x == 0) = false := by simpa using hx0
    have hxq : (x : Fq) ≠ 0 := by rwa [Ne, cast_eq_zero_iff hx]
    simp only [hz, Bool.false_eq_true, if_false]
    by_cases hsq : IsSquare (((1 : ℕ) : Fq) / (x : Fq))
    · obtain ⟨rfl, hv⟩ := h.square 1 x f y one_lt_q hx hone hx0 hs hsq
      have : fsq q y = finv q x := by
        apply eq_of_cast_eq (fsq_lt q_pos _) (finv_lt one_lt_q _)
        rw [cast_fsq, cast_finv q_gt_two, ← sq]
        rw [Nat.cast_one] at hv
        exact eq_inv_of_mul_eq_one_left hv
      simp [this]
    · obtain ⟨rfl, hv⟩ := h.nonsquare 1 x f y one_lt_q hx hone hx0 hs hsq
      have : fsq q y = fmul q ZETA (finv q x) := by
        apply eq_of_cast_eq (fsq_lt q_pos _) (fmul_lt q_pos _ _)
        rw [cast_fsq, cast_fmul, cast_finv q_gt_two, ← sq]
        rw [Nat.cast_one, mul_one] at hv
        rw [← hv, mul_assoc, mul_inv_cancel₀ hxq, mul_one]
      simp [this]

/-- honest synthesis of the encode gadget: always satisfied, and the output IS the native encoding (any input pair) -/
theorem compress_complete (x y : ℕ) :
    ∃ s, Ext.encodeField sqrtRatioArk (Ext.ofAffine (x, y)) = some s ∧ R1cs.compress x y none = (true, s) := by
  obtain ⟨f, v, hs, hi⟩ := isqrt_complete (x := encDen ⟨x, y, 1, fmul q x y⟩) (encDen_lt _)
  exact ⟨_, encodeField_of_sr (c := ⟨x, y, 1, fmul q x y⟩) hs, compress_of_isqrt hi⟩

/-- honest synthesis of the Elligator gadget: always satisfied, output = affine coordinates of the native result -/
theorem elligator_complete (r0 : ℕ) :
    ∃ c P, elligator sqrtRatioArk ZETA r0 = some c ∧ ERepr c P ∧ (R1cs.elligator r0 none).1 = true ∧
      P.x = (((R1cs.elligator r0 none).2.1 : ℕ) : Fq) ∧ P.y = (((R1cs.elligator r0 none).2.2 : ℕ) : Fq) := by
  obtain ⟨f, v, hs, hi⟩ := isqrt_complete (x := ellArg r0) (ellArg_lt r0)
  obtain ⟨c, P, hc, hr, _, _⟩ := C07.elligator_eq_spec sarkar_contract r0
  have hc' := hc
  rw [elligator_of_sr hs] at hc'
  injection hc' with hc'
  subst hc'
  obtain ⟨hF, hT, hxx, hyy⟩ := ell_affine hr
  rw [elligator_of_isqrt hi]
  have b1 : (ellF r0 f v != 0) = true := by simpa using hF
  have b2 : (ellT r0 f v != 0) = true := by simpa using hT
  exact ⟨_, P, hc, hr, by simp [b1, b2], hxx, hyy⟩

/-! ### arithmetic gadgets: the affine law on the coordinates is the group law (for every pair of representatives) -/

/-- `AffRep a P`: the pair of field values carried by an `ElementVar` is the point P -/
def AffRep (a : ℕ × ℕ) (P : E) : Prop := (a.1 : Fq) = P.x ∧ (a.2 : Fq) = P.y

/-- add / add-assign / add-constant gadgets (`Ext.addAffine` on the carried values) -/
theorem add_gadget {a b : ℕ × ℕ} {P Q : E} (ha : AffRep a P) (hb : AffRep b Q) : AffRep (Ext.addAffine a b) (P + Q) :=
  addAffine_cast ha hb

/-- negate gadget -/
theorem neg_gadget {a : ℕ × ℕ} {P : E} (ha : AffRep a P) : AffRep (fneg q a.1, a.2) (-P) := by
  constructor
  · rw [cast_fneg, ha.1]; rfl
  · rw [ha.2]; rfl

/-- sub / sub-assign / sub-constant gadgets -/
theorem sub_gadget {a b : ℕ × ℕ} {P Q : E} (ha : AffRep a P) (hb : AffRep b Q) :
    AffRep (Ext.addAffine a (fneg q b.1, b.2)) (P - Q) := by
  rw [sub_eq_add_neg]; exact add_gadget ha (neg_gadget hb)

/-- double gadget -/
theorem double_gadget {a : ℕ × ℕ} {P : E} (ha : AffRep a P) : AffRep (Ext.addAffine a a) (2 • P) := by
  rw [two_nsmul]; exact add_gadget ha ha

/-- conditional select -/
theorem select_gadget {a b : ℕ × ℕ} {P Q : E} (ha : AffRep a P) (hb : AffRep b Q) (c : Bool) :
    AffRep (if c then a else b) (if c then P else Q) := by
  cases c
  · exact hb
  · exact ha

/-- the carried values (0, 1) are the identity -/
theorem identity_affRep : AffRep (0, 1) (0 : E) := ⟨by simp, by simp⟩

/-- **scalar multiplication gadget** (`scalar_mul_le`): for every bit list, of any length, the LSB-first
double-and-add with select computes `acc + (Σ bᵢ 2ⁱ) • P` -/
theorem scalarMul_gadget_aux (bits : List Bool) : ∀ (res mult : ℕ × ℕ) (R M : E), AffRep res R → AffRep mult M →
    AffRep (R1cs.scalarMulLe bits res mult) (R + bitsVal bits • M) := by
  induction bits with
  | nil => intro res mult R M hr _; simpa [R1cs.scalarMulLe, bitsVal] using hr
  | cons b bs ih =>
    intro res mult R M hr hm
    unfold R1cs.scalarMulLe
    simp only []
    have hm2 := add_gadget hm hm
    cases b with
    | true =>
      have := ih (Ext.addAffine res mult) (Ext.addAffine mult mult) (R + M) (M + M) (add_gadget hr hm) hm2
      simp only [if_true, bitsVal]
      convert this using 1
      rw [add_smul, one_smul, mul_smul, two_smul, smul_add]; abel
    | false =>
      have := ih res (Ext.addAffine mult mult) R (M + M) hr hm2
      simp only [bitsVal, Bool.false_eq_true, if_false, zero_add]
      convert this using 1
      rw [mul_smul, two_smul, smul_add]

theorem scalarMul_gadget (bits : List Bool) {a : ℕ × ℕ} {P : E} (ha : AffRep a P) :
    AffRep (R1cs.scalarMulLe bits (0, 1) a) (bitsVal bits • P) := by
  have := scalarMul_gadget_aux bits (0, 1) a 0 P identity_affRep ha
  rwa [zero_add] at this

/-- **equality gadget**: `x₁y₂ = x₂y₁` on the carried values decides equality of group elements (the coset relation),
for every pair of curve points -/
theorem isEq_gadget {a b : ℕ × ℕ} {P Q : E} (ha : AffRep a P) (hb : AffRep b Q) :
    R1cs.isEq a b = true ↔ Point.Coset P Q := by
  rw [← Point.cross_eq_iff_coset]
  unfold R1cs.isEq
  rw [beq_iff_eq]
  constructor
  · intro h
    have := congrArg (Nat.cast : ℕ → Fq) h
    rw [cast_fmul, cast_fmul, ha.1, ha.2, hb.1, hb.2] at this
    linear_combination this
  · intro h
    apply eq_of_cast_eq (fmul_lt q_pos _ _) (fmul_lt q_pos _ _)
    rw [cast_fmul, cast_fmul, ha.1, ha.2, hb.1, hb.2]
    linear_combination h

/-- honest synthesis of the decode gadget: satisfied iff native decoding succeeds, same coordinates -/
theorem decompress_complete_iff {s : ℕ} (hs : s < q) :
    ((R1cs.decompress s none).1 = true ↔ ∃ c, decodeField sqrtRatioArk s = .ok c) ∧
    (∀ c, decodeField sqrtRatioArk s = .ok c → (R1cs.decompress s none).2 = (c.X, c.Y)) := by
  unfold R1cs.decompress decodeField
  simp only []
  set den := fmul q (fsub q (fsq q (fsub q 1 (fsq q s))) (fmul q (fmul q 4 cD) (fsq q s))) (fsq q (fsub q 1 (fsq q s))) with hden
  obtain ⟨f, v, hsr, hiq⟩ := isqrt_complete (x := den) (fmul_lt q_pos _ _)
  rw [hiq, hsr]
  by_cases hn : isNeg s = true
  · simp [hn]
  · have hn' : isNeg s = false := by simpa using hn
    cases f with
    | false => simp [hn']
    | true => simp [hn']

/-! ### witness allocation -/

theorem decodeField_shape {sr : SR} {s : ℕ} {c : Ext} (h : decodeField sr s = .ok c) : c.Z = 1 := by
  unfold decodeField at h
  split at h
  · exact absurd h (by simp)
  · simp only [] at h
    split at h
    · exact absurd h (by simp)
    · split at h
      · exact absurd h (by simp)
      · injection h with h; subst h; rfl

theorem onCurve_iff (x y : ℕ) : C17.onCurve x y = true ↔ OnCurve params.d (x : Fq) (y : Fq) := by
  have hd : params.d = (cD : Fq) := rfl
  unfold C17.onCurve OnCurve
  rw [beq_iff_eq, hd]
  constructor
  · intro h
    have := congrArg (Nat.cast : ℕ → Fq) h
    simp only [cast_fadd, cast_fmul, cast_fsq, Nat.cast_one] at this
    have hA : ((C17.coeffA : ℕ) : Fq) = -1 := cast_cA
    have hD : ((C17.coeffD : ℕ) : Fq) = (cD : Fq) := rfl
    rw [hA, hD] at this
    linear_combination this
  · intro h
    apply eq_of_cast_eq (fadd_lt q_pos _ _) (fadd_lt q_pos _ _)
    simp only [cast_fadd, cast_fmul, cast_fsq, Nat.cast_one]
    have hA : ((C17.coeffA : ℕ) : Fq) = -1 := cast_cA
    have hD : ((C17.coeffD : ℕ) : Fq) = (cD : Fq) := rfl
    rw [hA, hD]
    linear_combination h

/-- witness allocation in terms of the encoding it witnesses and of what the decode gadget returns for it (stated for
opaque values so that the kernel never has to look inside the gadgets) -/
theorem allocWitness_of {px py : ℕ} {h : R1cs.Hint} {s : ℕ} {sat : Bool} {x y : ℕ}
    (hfe : ((Ext.ofAffine (px, py)).encodeField sqrtRatioArk).getD 0 = s) (hd : R1cs.decompress s h = (sat, x, y)) :
    R1cs.allocWitness px py h = (C17.onCurve px py && sat && (fmul q x py == fmul q px y), x, y) := by
  unfold R1cs.allocWitness
  simp only []
  rw [hfe, hd]

/-- **witness allocation is complete**: for every affine representative of every group element, honest synthesis is
satisfied and the variable handed back carries a representative of the same element (the decoded one) -/
theorem allocWitness_complete {px py : ℕ} {P : E} (hr : ERepr (Ext.ofAffine (px, py)) P) (he : Point.IsEven P) :
    ∃ P', (R1cs.allocWitness px py none).1 = true ∧ AffRep (R1cs.allocWitness px py none).2 P' ∧ Point.Coset P P' := by
  obtain ⟨bytes, c', pt', henc, hdec, hr', hcos, heq⟩ := C01.decode_encode sarkar_contract hr he
  obtain ⟨s, hs, hlt, _⟩ := encodeField_spec sarkar_contract hr he
  have hbytes : bytes = toLeBytes s 32 := by
    unfold Ext.encode at henc
    rw [hs] at henc
    injection henc with henc
    exact henc.symm
  have h253 : s < 256 ^ 32 := lt_trans hlt (lt_trans q_lt_two_pow_253 (by norm_num))
  have hle : leBytes (toLeBytes s 32) = s := leBytes_toLeBytes s 32 h253
  have hdf : decodeField sqrtRatioArk s = .ok c' := by
    rw [hbytes, C02.decode32_eq, hle, if_pos hlt] at hdec
    exact hdec
  obtain ⟨hsat, hout⟩ := decompress_complete_iff hlt
  have hZ := decodeField_shape hdf
  have hon : C17.onCurve px py = true := by
    rw [onCurve_iff]
    have hx := hr.hx; have hy := hr.hy
    simp only [Ext.ofAffine, Nat.cast_one, mul_one] at hx hy
    rw [hx, hy]; exact P.on
  have hd : R1cs.decompress s none = (true, c'.X, c'.Y) := Prod.ext (hsat.mpr ⟨c', hdf⟩) (hout c' hdf)
  have hfe : ((Ext.ofAffine (px, py)).encodeField sqrtRatioArk).getD 0 = s := by rw [hs]; rfl
  rw [allocWitness_of hfe hd]
  refine ⟨pt', ?_, ?_, hcos⟩
  · simp only [hon, Bool.true_and]
    unfold Ext.eq at heq
    simp only [Ext.ofAffine] at heq
    rw [beq_iff_eq] at heq ⊢
    unfold fmul at heq ⊢
    rw [Nat.mul_comm c'.X py, ← heq, Nat.mul_comm]
  · have hx := hr'.hx; have hy := hr'.hy
    rw [hZ, Nat.cast_one, mul_one] at hx hy
    exact ⟨hx, hy⟩

/-! ### the lazily evaluated variable -/

/-- run a sequence of forcings (with one hint per emitted gadget) -/
def run : List R1cs.Force → R1cs.Lazy → List R1cs.Hint → R1cs.Lazy × List R1cs.Emitted
  | [], st, _ => (st, [])
  | f :: fs, st, hs =>
    let r := st.step f (hs.headD none)
    let hs' := if r.2.1 = .nothing then hs else hs.drop 1
    let rest := run fs r.1 hs'
    (rest.1, r.2.1 :: rest.2)

theorem step_both (s x y : ℕ) (f : R1cs.Force) (h : R1cs.Hint) :
    (R1cs.Lazy.both s x y).step f h = (.both s x y, .nothing, true) := by
  cases f <;> rfl

/-- a value, once defined, is never changed by a later forcing -/
theorem step_preserves_values (st : R1cs.Lazy) (f : R1cs.Force) (h : R1cs.Hint) :
    (∀ s, st.encVal = some s → (st.step f h).1.encVal = some s) ∧
    (∀ p, st.elemVal = some p → (st.step f h).1.elemVal = some p) := by
  cases st <;> cases f <;> simp [R1cs.Lazy.step, R1cs.Lazy.encVal, R1cs.Lazy.elemVal]

/-- a step emits a gadget only when it moves to the `both` state -/
theorem step_emits_then_both (st : R1cs.Lazy) (f : R1cs.Force) (h : R1cs.Hint) :
    (st.step f h).2.1 ≠ .nothing → ∃ s x y, (st.step f h).1 = .both s x y := by
  cases st <;> cases f <;> simp [R1cs.Lazy.step]

/-- from the `both` state nothing is ever emitted again -/
theorem run_both (fs : List R1cs.Force) (s x y : ℕ) (hs : List R1cs.Hint) :
    (run fs (.both s x y) hs).1 = .both s x y ∧ ∀ e ∈ (run fs (.both s x y) hs).2, e = .nothing := by
  induction fs generalizing hs with
  | nil => simp [run]
  | cons f fs ih =>
    simp only [run, step_both]
    have := ih hs
    simp only [if_true]
    exact ⟨this.1, by intro e he; rcases List.mem_cons.mp he with rfl | he; rfl; exact this.2 e he⟩

/-- **at most one gadget is ever synthesised**, for every order and number of forcings -/
theorem lazy_emits_at_most_once (fs : List R1cs.Force) (st : R1cs.Lazy) (hs : List R1cs.Hint) :
    ((run fs st hs).2.filter (· ≠ .nothing)).length ≤ 1 := by
  induction fs generalizing st hs with
  | nil => simp [run]
  | cons f fs ih =>
    simp only [run]
    by_cases he : (st.step f (hs.headD none)).2.1 = .nothing
    · simp only [he, if_true, List.filter_cons, ne_eq, not_true_eq_false, decide_false, Bool.false_eq_true, if_false]
      exact ih _ _
    · obtain ⟨s, x, y, hb⟩ := step_emits_then_both st f (hs.headD none) he
      simp only [he, if_false, List.filter_cons, ne_eq, not_false_eq_true, decide_true, if_true, List.length_cons]
      rw [hb]
      have := (run_both fs s x y (hs.drop 1)).2
      have hnil : ((run fs (.both s x y) (hs.drop 1)).2.filter (· ≠ .nothing)) = [] := by
        rw [List.filter_eq_nil_iff]
        intro e he; simp [this e he]
      rw [hnil]; simp

/-- non-vacuity: the sequence enc, elem, enc, elem, elem from an encoding emits exactly one decode -/
example : (run [.enc, .elem, .enc, .elem, .elem] (.enc 8) []).2 = [.nothing, .decompress, .nothing, .nothing, .nothing] := by
  decide +kernel

end C13
