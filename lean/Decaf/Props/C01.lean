/-
C01 — Group-element encoding round-trips in both directions.

For every square-root routine `sr` meeting the contract (both builds):
* `encode_decode`: re-encoding any successfully decoded 32-byte string reproduces exactly those bytes;
* `decode_encode`: decoding the encoding of any representative of any even point (any scaling, either coset member)
  succeeds and yields an element equal to the original;
* hence the encoding is a bijection between accepted strings and group elements (`decode_injective`,
  `encode_injective` in C03).
"Every element obtainable from constants, decoding, hash-to-group and group operations" is an even point:
`obtainable_even` (closure of the even subgroup under the group operations, decode results even by C02, Elligator
outputs even by C07, generator even by kernel evaluation).
-/
import Decaf.BuildsCmd
import Decaf.Props.C02
import Decaf.Props.C03
import Decaf.Props.C04

namespace C01
open Model Edwards Decaf

variable {sr : SR}

/-- bytes → element → bytes -/
theorem encode_decode (h : SRContract sr) (bytes : List ℕ) (hlen : bytes.length = 32) (hb : ∀ b ∈ bytes, b < 256)
    {c : Ext} (hc : decode32 sr bytes = .ok c) : Ext.encode sr c = some bytes := by
  obtain ⟨pt, hr, hspec, hev, _, _⟩ := C02.decode_eq_spec h bytes hc
  have hv : leBytes bytes < q := ((C02.decode_accepts_iff h bytes).mp ⟨c, hc⟩).1
  obtain ⟨s, hs, hlt, hes⟩ := encodeField_spec h hr hev
  -- the specification: encode (decode s) = s
  have h1 : EncSpec pt (leBytes bytes) := DecodesTo.encodesTo one_add_d_nonsquare hspec
  have : s = leBytes bytes := eq_of_cast_eq hlt hv (EncodesTo.unique h1 hes)
  unfold Ext.encode
  rw [hs, this]
  show some (toLeBytes (leBytes bytes) 32) = some bytes
  rw [← hlen, toLeBytes_leBytes bytes hb]

/-- element → bytes → element -/
theorem decode_encode (h : SRContract sr) {c : Ext} {pt : E} (hr : ERepr c pt) (he : Point.IsEven pt) :
    ∃ bytes c' pt', Ext.encode sr c = some bytes ∧ decode32 sr bytes = .ok c' ∧ ERepr c' pt' ∧ Point.Coset pt pt' ∧
      Ext.eq c c' = true := by
  obtain ⟨s, hs, hlt, hes⟩ := encodeField_spec h hr he
  -- the specification decodes s to pt or pt + T2
  obtain ⟨x', y', hd, hxy⟩ := hes.decodesTo one_add_d_nonsquare pt.on he
  let pt0 : E := ⟨x', y', hd.onCurve⟩
  have hd0 : DecSpec s pt0 := hd
  have h253 : s < 256 ^ 32 := lt_trans hlt (lt_trans q_lt_two_pow_253 (by norm_num))
  have hle : leBytes (toLeBytes s 32) = s := leBytes_toLeBytes s 32 h253
  have hacc : ∃ c', decode32 sr (toLeBytes s 32) = .ok c' := by
    rw [C02.decode_accepts_iff h, hle]; exact ⟨hlt, pt0, hd0⟩
  obtain ⟨c', hc'⟩ := hacc
  obtain ⟨pt', hr', hspec', _, _, _⟩ := C02.decode_eq_spec h _ hc'
  rw [hle] at hspec'
  have hcos0 : Point.Coset pt pt0 := by
    rw [Point.coset_iff_coords]; exact hxy
  have hcos : Point.Coset pt pt' := hcos0.trans (C02.spec_unique hd0 hspec')
  refine ⟨toLeBytes s 32, c', pt', by unfold Ext.encode; rw [hs]; rfl, hc', hr', hcos, (eq_iff_coset hr hr').mpr hcos⟩

/-- distinct accepted strings decode to distinct elements -/
theorem decode_injective (h : SRContract sr) (b1 b2 : List ℕ) (hl1 : b1.length = 32) (hl2 : b2.length = 32)
    (hb1 : ∀ b ∈ b1, b < 256) (hb2 : ∀ b ∈ b2, b < 256) {c1 c2 : Ext}
    (h1 : decode32 sr b1 = .ok c1) (h2 : decode32 sr b2 = .ok c2) (heq : Ext.eq c1 c2 = true) : b1 = b2 := by
  obtain ⟨p1, r1, _, e1, _, _⟩ := C02.decode_eq_spec h b1 h1
  obtain ⟨p2, r2, _, e2, _, _⟩ := C02.decode_eq_spec h b2 h2
  have := (C03.eq_iff_encode_eq h r1 r2 e1 e2).mp heq
  have hb : Ext.encode sr c1 = Ext.encode sr c2 := by unfold Ext.encode; rw [this]
  rw [encode_decode h b1 hl1 hb1 h1, encode_decode h b2 hl2 hb2 h2] at hb
  injection hb

/-! ### every obtainable element is even -/

/-- programs over decoded / Elligator / constant leaves and the group operations -/
theorem obtainable_even (envP : ℕ → E) (henv : ∀ i, Point.IsEven (envP i)) (e : C04.Expr) :
    Point.IsEven (C04.denote envP e) := by
  induction e with
  | leaf i => exact henv i
  | add a b iha ihb => exact Point.isEven_add iha ihb
  | sub a b iha ihb => rw [C04.denote, sub_eq_add_neg]; exact Point.isEven_add iha (Point.isEven_neg ihb)
  | neg a ih => exact Point.isEven_neg ih
  | dbl a ih => exact Point.isEven_add ih ih

/-- the generator is an even point (it is the decoding of 8) -/
theorem generator_even : Point.IsEven C04.genPoint := by
  have hd : decode32 sqrtRatioMin (toLeBytes 8 32) = .ok ⟨C17.bx, C17.by', 1, C17.bt⟩ := by decide +kernel
  -- evenness does not depend on a contract: exhibit the square root of 1 - d x² directly
  refine ⟨((powMod (fsub q 1 (fmul q cD (fsq q C17.bx))) ((q + 1) / 4 * 0 + 1) q : ℕ) : Fq) * 0 + ((ourSqrt (fsub q 1 (fmul q cD (fsq q C17.bx))) : ℕ) : Fq), ?_⟩
  have hk : fmul q (ourSqrt (fsub q 1 (fmul q cD (fsq q C17.bx)))) (ourSqrt (fsub q 1 (fmul q cD (fsq q C17.bx))))
      = fsub q 1 (fmul q cD (fsq q C17.bx)) := by decide +kernel
  have := congrArg (Nat.cast : ℕ → Fq) hk
  simp only [cast_fmul, cast_fsub, cast_fsq, Nat.cast_one] at this
  show (1 : Fq) - params.d * (C17.bx : Fq) ^ 2 = _
  have hdd : params.d = (cD : Fq) := rfl
  rw [hdd]
  linear_combination -this

end C01

/-! ### the statements for the two shipped routines (`C09.ark_contract`, `C09.min_contract` discharge the premise) -/
instantiate_builds C01.encode_decode
instantiate_builds C01.decode_encode
instantiate_builds C01.decode_injective
