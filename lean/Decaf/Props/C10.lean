/-
C10 — Field arithmetic is exact arithmetic mod p in all three fields, both backends.

What the repository wrote around the backend primitives is modelled and proved: every operator returns the
canonical representative of the ring operation in `ZMod m` (cast lemmas + `< m`), inversion (absent at zero, an
inverse otherwise), division, exponentiation over EVERY multi-limb exponent (`Fq::power` as repaired, the same loop as
`pow_le_limbs`), sums and products over lists (incl. empty), and constant-time selection / equality on the
Montgomery limbs of both wrappers.  The primitives themselves (arkworks Montgomery arithmetic, fiat-crypto) enter by
contract — exact arithmetic mod p on canonical values — and are validated differentially (DESIGN.md §4).
-/
import Decaf.Lemmas.TonelliShanks
import Decaf.Lemmas.Glue
import Decaf.Props.C11

namespace C10
open Model

variable {m : ℕ}

/-- every binary / unary operator: canonical result, exact value in `ZMod m` -/
theorem add_spec [NeZero m] (a b : ℕ) : fadd m a b < m ∧ ((fadd m a b : ℕ) : ZMod m) = a + b :=
  ⟨fadd_lt (Nat.pos_of_ne_zero (NeZero.ne m)) a b, cast_fadd a b⟩
theorem sub_spec [NeZero m] (a b : ℕ) : fsub m a b < m ∧ ((fsub m a b : ℕ) : ZMod m) = a - b :=
  ⟨fsub_lt (Nat.pos_of_ne_zero (NeZero.ne m)) a b, cast_fsub a b⟩
theorem mul_spec [NeZero m] (a b : ℕ) : fmul m a b < m ∧ ((fmul m a b : ℕ) : ZMod m) = a * b :=
  ⟨fmul_lt (Nat.pos_of_ne_zero (NeZero.ne m)) a b, cast_fmul a b⟩
theorem neg_spec [NeZero m] (a : ℕ) : fneg m a < m ∧ ((fneg m a : ℕ) : ZMod m) = -a :=
  ⟨fneg_lt (Nat.pos_of_ne_zero (NeZero.ne m)) a, cast_fneg a⟩
theorem square_spec [NeZero m] (a : ℕ) : fsq m a < m ∧ ((fsq m a : ℕ) : ZMod m) = a * a :=
  ⟨fsq_lt (Nat.pos_of_ne_zero (NeZero.ne m)) a, cast_fsq a⟩
theorem double_spec [NeZero m] (a : ℕ) : ((fadd m a a : ℕ) : ZMod m) = 2 * a := by rw [cast_fadd]; ring

/-- as integers: the result of every operator is the integer operation reduced mod m -/
theorem add_nat (a b : ℕ) : fadd m a b = (a + b) % m := rfl
theorem mul_nat (a b : ℕ) : fmul m a b = (a * b) % m := rfl
theorem sub_int [NeZero m] (a b : ℕ) : ((fsub m a b : ℕ) : ℤ) = ((a : ℤ) - b) % m := by
  have h := cast_fsub (m := m) a b
  have hlt := fsub_lt (Nat.pos_of_ne_zero (NeZero.ne m)) a b
  have hz : (((fsub m a b : ℕ) : ℤ) : ZMod m) = (((a : ℤ) - b : ℤ) : ZMod m) := by
    push_cast; exact h
  have := (ZMod.intCast_eq_intCast_iff' _ _ _).mp hz
  rw [← this, Int.emod_eq_of_lt (by positivity) (by exact_mod_cast hlt)]

/-- **inversion**: absent at zero, a genuine inverse otherwise -/
theorem inverse_spec (F : FP) [Fact F.m.Prime] (hm : 2 < F.m) :
    F.inverse 0 = none ∧ ∀ x, x < F.m → x ≠ 0 → ∃ y, F.inverse x = some y ∧ y < F.m ∧ fmul F.m x y = 1 := by
  refine ⟨rfl, fun x hx hx0 => ?_⟩
  have hxq : (x : ZMod F.m) ≠ 0 := by rwa [Ne, cast_eq_zero_iff hx]
  refine ⟨finv F.m x, by unfold FP.inverse; simp [hx0], finv_lt (by omega) _, ?_⟩
  apply eq_of_cast_eq (fmul_lt (by omega) _ _) (by omega)
  rw [cast_fmul, cast_finv hm, Nat.cast_one, mul_inv_cancel₀ hxq]

theorem div_spec [Fact m.Prime] (hm : 2 < m) (a b : ℕ) : ((fdiv m a b : ℕ) : ZMod m) = (a : ZMod m) / b := cast_fdiv hm a b

/-- **exponentiation honours the whole multi-limb exponent** (`Fq::power`, any number of limbs) -/
theorem cast_powLeLimbsAux' (bits : List Bool) (acc ins : ℕ) :
    ((powLeLimbsAux' m bits acc ins : ℕ) : ZMod m) = (acc : ZMod m) * (ins : ZMod m) ^ bitsVal bits := by
  induction bits generalizing acc ins with
  | nil => simp [powLeLimbsAux', bitsVal]
  | cons b bs ih =>
    unfold powLeLimbsAux'
    rw [ih]
    cases b with
    | true => simp only [if_true, bitsVal, cast_fmul]; rw [pow_add, pow_mul, pow_one]; ring
    | false => simp only [Bool.false_eq_true, if_false, bitsVal, cast_fmul, zero_add]; rw [pow_mul]; ring

theorem power_spec (F : FP) (x : ℕ) (limbs : List ℕ) (h : ∀ l ∈ limbs, l < 2 ^ 64) :
    ((F.power x limbs : ℕ) : ZMod F.m) = (x : ZMod F.m) ^ Lit.ofLimbs 64 limbs := by
  unfold FP.power
  rw [cast_powLeLimbsAux', bitsVal_limbsBits limbs h]; simp

/-- arkworks' `pow` is modelled by its contract, which is this value too -/
theorem pow_contract (F : FP) (x : ℕ) (limbs : List ℕ) :
    ((F.powLimbs x limbs : ℕ) : ZMod F.m) = (x : ZMod F.m) ^ Lit.ofLimbs 64 limbs := by
  unfold FP.powLimbs; exact cast_powMod _ _ _

/-- **sums and products over iterators** (the empty sum is 0, the empty product is 1) -/
theorem sum_spec (F : FP) (xs : List ℕ) : ((F.sum xs : ℕ) : ZMod F.m) = (xs.map (Nat.cast : ℕ → ZMod F.m)).sum := by
  unfold FP.sum
  suffices ∀ acc : ℕ, ((xs.foldl (fadd F.m) acc : ℕ) : ZMod F.m) = acc + (xs.map (Nat.cast : ℕ → ZMod F.m)).sum by
    simpa using this 0
  induction xs with
  | nil => intro acc; simp
  | cons x xs ih => intro acc; simp only [List.foldl_cons, List.map_cons, List.sum_cons, ih, cast_fadd, add_assoc]

theorem product_spec (F : FP) (xs : List ℕ) : ((F.product xs : ℕ) : ZMod F.m) = (xs.map (Nat.cast : ℕ → ZMod F.m)).prod := by
  unfold FP.product
  suffices ∀ acc : ℕ, ((xs.foldl (fmul F.m) acc : ℕ) : ZMod F.m) = acc * (xs.map (Nat.cast : ℕ → ZMod F.m)).prod by
    simpa using this (1 % F.m)
  induction xs with
  | nil => intro acc; simp
  | cons x xs ih => intro acc; simp only [List.foldl_cons, List.map_cons, List.prod_cons, ih, cast_fmul, mul_assoc]

/-! ### constant-time selection and equality on the Montgomery limbs -/

theorem zipWith_select (c : Bool) (a b : List ℕ) (h : a.length = b.length) :
    List.zipWith (fun x y => if c then y else x) a b = if c then b else a := by
  induction a generalizing b with
  | nil => cases b <;> cases c <;> simp at h ⊢
  | cons x xs ih =>
    cases b with
    | nil => simp at h
    | cons y ys =>
      have := ih ys (by simpa using h)
      cases c <;> simp_all

/-- Montgomery form round-trips when the radix is invertible -/
theorem fromMont_toMont (F : FP) [Fact F.m.Prime] (hm : 2 < F.m) (hR : 2 ^ (64 * F.nl) % F.m ≠ 0) (x : ℕ) (hx : x < F.m) :
    F.fromMont (F.toMont x) = x := by
  unfold FP.fromMont FP.toMont
  apply eq_of_cast_eq (fmul_lt (by omega) _ _) hx
  have hRq : ((2 ^ (64 * F.nl) % F.m : ℕ) : ZMod F.m) ≠ 0 := by
    rwa [Ne, cast_eq_zero_iff (Nat.mod_lt _ (by omega))]
  simp only [cast_fmul, cast_finv hm, ZMod.natCast_mod, Nat.cast_mul] at hRq ⊢
  rw [mul_assoc, mul_inv_cancel₀ hRq, mul_one]

/-- **selection returns exactly one of its two operands** (limb width 64: u64 wrapper; 32: u32 wrapper) -/
theorem select_spec (F : FP) [Fact F.m.Prime] (hm : 2 < F.m) (hR : 2 ^ (64 * F.nl) % F.m ≠ 0) (w : ℕ)
    (hw : (2 ^ w) ^ (64 * F.nl / w) = 2 ^ (64 * F.nl)) (hF : F.m < 2 ^ (64 * F.nl))
    (a b : ℕ) (ha : a < F.m) (hb : b < F.m) (c : Bool) :
    F.selectLimbs w a b c = if c then b else a := by
  unfold FP.selectLimbs
  simp only []
  have hlt : ∀ x, F.toMont x < (2 ^ w) ^ (64 * F.nl / w) := by
    intro x; rw [hw]; exact lt_trans (Nat.mod_lt _ (by omega)) hF
  obtain ⟨la, _, ea⟩ := C11.toLimbs_spec w (F.toMont a) _ (hlt a)
  obtain ⟨lb, _, eb⟩ := C11.toLimbs_spec w (F.toMont b) _ (hlt b)
  rw [zipWith_select c _ _ (by rw [la, lb])]
  cases c with
  | true => simp only [if_true]; rw [eb, fromMont_toMont F hm hR b hb]
  | false => simp only [Bool.false_eq_true, if_false]; rw [ea, fromMont_toMont F hm hR a ha]

/-- **constant-time equality is equality** -/
theorem ct_eq_spec (F : FP) [Fact F.m.Prime] (hm : 2 < F.m) (hR : 2 ^ (64 * F.nl) % F.m ≠ 0) (w : ℕ)
    (hw : (2 ^ w) ^ (64 * F.nl / w) = 2 ^ (64 * F.nl)) (hF : F.m < 2 ^ (64 * F.nl))
    (a b : ℕ) (ha : a < F.m) (hb : b < F.m) : F.ctEq w a b = true ↔ a = b := by
  unfold FP.ctEq
  simp only [beq_iff_eq]
  have hlt : ∀ x, F.toMont x < (2 ^ w) ^ (64 * F.nl / w) := by
    intro x; rw [hw]; exact lt_trans (Nat.mod_lt _ (by omega)) hF
  constructor
  · intro h
    have := congrArg (Lit.ofLimbs w) h
    rw [(C11.toLimbs_spec w _ _ (hlt a)).2.2, (C11.toLimbs_spec w _ _ (hlt b)).2.2] at this
    have := congrArg F.fromMont this
    rwa [fromMont_toMont F hm hR a ha, fromMont_toMont F hm hR b hb] at this
  · rintro rfl; rfl

/-- the side conditions hold for Fq, both limb widths (kernel evaluation) -/
theorem fq_select_side : 2 ^ (64 * Exec.fqP.nl) % Exec.fqP.m ≠ 0 ∧ (2 ^ 64) ^ (64 * Exec.fqP.nl / 64) = 2 ^ (64 * Exec.fqP.nl) ∧
    (2 ^ 32) ^ (64 * Exec.fqP.nl / 32) = 2 ^ (64 * Exec.fqP.nl) ∧ Exec.fqP.m < 2 ^ (64 * Exec.fqP.nl) := by decide +kernel

/-- non-vacuity: a two-limb exponent; the empty product; a selection -/
example : Exec.fqP.power 3 [0, 1] = powMod 3 (2 ^ 64) q ∧ Exec.frP.product [] = 1 ∧ Exec.fqP.selectLimbs 64 5 7 true = 7 ∧
    Exec.fqP.selectLimbs 32 5 7 false = 5 := by decide +kernel

end C10
