/-
C06 — Every public constructor yields a valid group element.

`Valid c`: the quadruple represents a point of the even subgroup 𝔾 (the image of the decaf377 group in E).
By C01 (`valid_roundtrip`) a valid element's encoding decodes to an element equal to it.  One lemma per
constructor: the constants, the decoders (every entry point reduces to `decode32`), the samplers (they return the
first candidate that decodes — for EVERY stream of candidates), the affine/projective conversions, and
`from_random_bytes` (after the repair: the double of a curve point).  The order clause ("r times it is the
identity") is `valid_order`, from C05's `order_dvd` (proved in full, DESIGN.md §5.7).
-/
import Decaf.BuildsCmd
import Decaf.Props.C07
import Decaf.Props.C05
import Decaf.Model.Exec

namespace C06
open Model Model.Exec Edwards Decaf

def Valid (c : Ext) : Prop := ∃ pt : E, ERepr c pt ∧ Point.IsEven pt

variable {sr : SR}

/-- what validity buys: the encoding decodes to an equal element -/
theorem valid_roundtrip (h : SRContract sr) {c : Ext} (hv : Valid c) :
    ∃ bytes c', Ext.encode sr c = some bytes ∧ decode32 sr bytes = .ok c' ∧ Ext.eq c c' = true ∧ Valid c' := by
  obtain ⟨pt, hr, he⟩ := hv
  obtain ⟨bytes, c', pt', henc, hdec, hr', hcos, heq⟩ := C01.decode_encode h hr he
  exact ⟨bytes, c', henc, hdec, heq, pt', hr', Point.isEven_of_coset hcos he⟩

/-- what validity buys, second half: r times the element is the identity, with either backend's ladder -/
theorem valid_order {c : Ext} (hv : Valid c) :
    Ext.eq Ext.identity (c.scalarMulMin C05.rLimbs) = true ∧ Ext.eq Ext.identity (c.scalarMulRef C05.rLimbs) = true := by
  obtain ⟨pt, hr, he⟩ := hv
  exact C05.order_dvd_eq hr he

/-! ### constants -/
theorem generator_valid : Valid ⟨C17.bx, C17.by', 1, C17.bt⟩ := ⟨C04.genPoint, C04.gen_repr, C01.generator_even⟩
theorem identity_valid : Valid Ext.identity := ⟨0, identity_repr, Point.isEven_zero⟩

/-! ### decoders and samplers -/
theorem decode_valid (h : SRContract sr) (bytes : List ℕ) {c : Ext} (hc : decode32 sr bytes = .ok c) : Valid c := by
  obtain ⟨pt, hr, _, he, _, _⟩ := C02.decode_eq_spec h bytes hc
  exact ⟨pt, hr, he⟩

theorem decodeSlice_valid (h : SRContract sr) (bytes : List ℕ) {c : Ext} (hc : decodeSlice sr bytes = .ok c) : Valid c := by
  unfold decodeSlice at hc
  by_cases hl : bytes.length = 32
  · simp only [hl, bne_self_eq_false, Bool.false_eq_true, if_false] at hc; exact decode_valid h bytes hc
  · have : (bytes.length != 32) = true := by simpa using hl
    simp [this] at hc

/-- the rejection sampler (rand.rs): the first candidate string that decodes; whatever the RNG produces -/
def sample (sr : SR) (candidates : List (List ℕ)) : Option Ext :=
  candidates.findSome? (fun b => match decode32 sr b with | .ok c => some c | .error _ => none)

theorem sampler_valid (h : SRContract sr) (candidates : List (List ℕ)) {c : Ext} (hc : sample sr candidates = some c) :
    Valid c := by
  unfold sample at hc
  obtain ⟨b, _, hb⟩ := List.exists_of_findSome?_eq_some hc
  cases hd : decode32 sr b with
  | ok c' => rw [hd] at hb; injection hb with hb; subst hb; exact decode_valid h b hd
  | error e => rw [hd] at hb; exact absurd hb (by simp)

/-! ### conversions -/
/-- `into_affine` / `From<Element> for AffinePoint` and back, `normalize_batch`, `batch_convert_to_mul_base`:
normalisation to Z = 1 represents the same point -/
theorem affine_roundtrip_valid {c : Ext} (hv : Valid c) : Valid (Ext.ofAffine c.affine) := by
  obtain ⟨pt, hr, he⟩ := hv
  have := affine_cast hr
  exact ⟨pt, ofAffine_repr this.1 this.2, he⟩

theorem elligator_valid (h : SRContract sr) (r0 : ℕ) {c : Ext} (hc : elligator sr ZETA r0 = some c) : Valid c := by
  obtain ⟨c1, p1, h1, r1, _, hev⟩ := C07.elligator_eq_spec h r0
  rw [hc] at h1; injection h1 with h1; subst h1
  exact ⟨p1, r1, hev⟩

/-- validity is closed under the group operations (both backends) -/
theorem add_valid {c1 c2 : Ext} (h1 : Valid c1) (h2 : Valid c2) : Valid (Ext.addMin c1 c2) ∧ Valid (Ext.addRef c1 c2) := by
  obtain ⟨p1, r1, e1⟩ := h1
  obtain ⟨p2, r2, e2⟩ := h2
  exact ⟨⟨p1 + p2, addMin_repr r1 r2, Point.isEven_add e1 e2⟩, ⟨p1 + p2, addRef_repr r1 r2, Point.isEven_add e1 e2⟩⟩

theorem neg_valid {c : Ext} (h : Valid c) : Valid (Ext.neg c) := by
  obtain ⟨p, r, e⟩ := h
  exact ⟨-p, neg_repr r, Point.isEven_neg e⟩

/-! ### from_random_bytes -/

/-- arkworks' generic Tonelli–Shanks: whatever it returns is a root (it checks `x² == a` before returning) -/
theorem sqrtTS_is_root (m s zq : ℕ) (e : List ℕ) {a x : ℕ} (h : sqrtTS m s zq e a = some (some x)) :
    fmul m x x = a ∨ (a = 0 ∧ x = 0) := by
  unfold sqrtTS at h
  by_cases ha : (a == 0) = true
  · rw [if_pos ha] at h
    have h1 := Option.some.inj (Option.some.inj h)
    right; exact ⟨by simpa using ha, h1.symm⟩
  · rw [if_neg ha] at h
    left
    simp only [] at h
    split at h
    · exact absurd h (by simp)
    · exact absurd h (by simp)
    · rename_i x' _
      by_cases hchk : (fmul m x' x' == a) = true
      · rw [if_pos hchk] at h
        have h1 := Option.some.inj (Option.some.inj h)
        subst h1
        simpa using hchk
      · rw [if_neg hchk] at h; exact absurd h (by simp)

theorem fqSqrt_is_root {a x : ℕ} (h : fqSqrt a = some (some x)) : fmul q x x = a ∨ (a = 0 ∧ x = 0) := by
  unfold fqSqrt at h
  exact sqrtTS_is_root _ _ _ _ h

/-- `AffineRepr::from_random_bytes` hands out only valid elements, for every byte string -/
theorem from_random_bytes_valid (bytes : List ℕ) {c : Ext} (hc : fromRandomBytes bytes = some c) : Valid c := by
  unfold fromRandomBytes at hc
  simp only [] at hc
  set y := fqP.fromLeBytesModOrder bytes with hy
  by_cases hden : (fsub q cA (fmul q (fsq q y) cD) == 0) = true
  · simp [hden] at hc
  · simp only [hden, Bool.false_eq_true, if_false] at hc
    have hden0 : fsub q cA (fmul q (fsq q y) cD) ≠ 0 := by simpa using hden
    have hdq : ((fsub q cA (fmul q (fsq q y) cD) : ℕ) : Fq) ≠ 0 := by
      rwa [Ne, cast_eq_zero_iff (fsub_lt q_pos _ _)]
    split at hc
    · rename_i x hsq
      injection hc with hc
      -- x² = (1 - y²)/(a - d y²), also for the "x = 0" exit of the square root
      have hx2 : ((x : ℕ) : Fq) * x * ((fsub q cA (fmul q (fsq q y) cD) : ℕ) : Fq) = ((fsub q 1 (fsq q y) : ℕ) : Fq) := by
        rcases fqSqrt_is_root hsq with hroot | ⟨h0, hx0⟩
        · have := congrArg (Nat.cast : ℕ → Fq) hroot
          rw [cast_fmul, cast_fmul, cast_finv q_gt_two] at this
          rw [this]; field_simp
        · have := congrArg (Nat.cast : ℕ → Fq) h0
          rw [cast_fmul, cast_finv q_gt_two, Nat.cast_zero] at this
          rcases mul_eq_zero.mp this with h1 | h1
          · exact absurd (inv_eq_zero.mp h1) hdq
          · rw [hx0, h1, Nat.cast_zero, zero_mul, zero_mul]
      -- the chosen sign of x does not matter
      set x' := if x ≤ fneg q x then x else fneg q x with hx'
      have hx'2 : ((x' : ℕ) : Fq) * x' = (x : Fq) * x := by
        rw [hx']; split
        · rfl
        · rw [cast_fneg]; ring
      have hd : params.d = (cD : Fq) := rfl
      have hon : OnCurve params.d ((x' : ℕ) : Fq) ((y : ℕ) : Fq) := by
        unfold OnCurve
        rw [hd]
        simp only [cast_fsub, cast_fmul, cast_fsq, cast_cA, Nat.cast_one] at hx2
        have e : ((x' : ℕ) : Fq) ^ 2 = (x : Fq) * x := by rw [sq]; exact hx'2
        rw [e]
        linear_combination hx2
      let pt : E := ⟨(x' : Fq), (y : Fq), hon⟩
      have hr : ERepr (Ext.ofAffine (x', y)) pt := ofAffine_repr rfl rfl
      rw [← hc]
      exact ⟨pt + pt, doubleRef_repr hr, Point.isEven_double pt⟩
    · exact absurd hc (by simp)

end C06

/-! ### the statements for the two shipped routines (`C09.ark_contract`, `C09.min_contract` discharge the premise) -/
instantiate_builds C06.valid_roundtrip
instantiate_builds C06.decode_valid
instantiate_builds C06.decodeSlice_valid
instantiate_builds C06.sampler_valid
instantiate_builds C06.elligator_valid
