/-
C15 — Circuit shape is input-independent and matches the pinned Groth16 keys  (PARTIAL: not a proof of the property).

What a theorem can say here: the value that an element contributes as public input — `to_field_elements` =
`[vartime_compress_to_field]`, which is also what `AllocVar::new_input` allocates — is the same field element for
every representative of the same group element, in both builds, so prover and verifier agree on it whatever
representative each of them holds.  The shape of the constraint system and its compatibility with the pinned keys
are facts about matrices that ark-r1cs-std produces at run time and about ark-groth16; they are observed by the
check (matrix digests over all input classes and both synthesis modes, prove/verify with the pinned keys), not proved.
-/
import Decaf.BuildsCmd
import Decaf.Props.C03

namespace C15
open Model Edwards Decaf

/-- the public-input representation of an element: one field element, its encoding -/
def publicInput (sr : SR) (c : Ext) : Option (List ℕ) := (Ext.encodeField sr c).map (fun s => [s])

/-- exactly one instance value, and it is the specified encoding of the element -/
theorem public_input_is_encoding {sr : SR} (h : SRContract sr) {c : Ext} {pt : E} (hr : ERepr c pt) (he : Point.IsEven pt) :
    ∃ s, publicInput sr c = some [s] ∧ s < q ∧ EncSpec pt s := by
  obtain ⟨s, hs, hlt, hspec⟩ := C03.encode_eq_spec h hr he
  exact ⟨s, by unfold publicInput; rw [hs]; rfl, hlt, hspec⟩

/-- prover and verifier may hold different representatives (and run different builds): same public input -/
theorem public_input_coherent {sr sr' : SR} (h : SRContract sr) (h' : SRContract sr') {c c' : Ext} {p p' : E}
    (hr : ERepr c p) (hr' : ERepr c' p') (he : Point.IsEven p) (hc : Point.Coset p p') :
    publicInput sr c = publicInput sr' c' := by
  unfold publicInput
  rw [C03.encode_respects_element h h' hr hr' he hc]

end C15

/-! ### the statements for the two shipped routines -/
instantiate_builds C15.public_input_is_encoding
instantiate_builds C15.public_input_coherent
