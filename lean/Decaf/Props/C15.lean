/- C15 property theorems (under construction) -/
import Decaf.Model.Exec
