/-
C16 — BLS12-377 engine over the crate's own fields equals the reference engine (partial: parameters).

What is proved: every parameter of the engine the crate instantiates (`Bls12<Config>` over its own Fp/Fq) is
equal to the corresponding literal of the reference crate `ark-bls12-377` (read from that crate's source in the
cargo registry by the same translator), and satisfies its defining equation: Frobenius coefficients are the
stated powers of the non-residues (exponentiation in Fp2 evaluated by the kernel), the generators lie on their
curves, G1's generator has order q, cofactor formulae, the BLS12 family polynomials for p and q.
Since both engines are the same generic arkworks code instantiated with equal parameters over fields that agree
(C10/C11), this is equality of the engines up to parametricity, which is stated, not formalised.  Bilinearity
and non-degeneracy are inherited from the reference implementation and checked only differentially.
-/
import Lean
import Decaf.Props.C17

set_option maxRecDepth 100000

theorem C16.facts_count : Model.C16.facts.length = 28 := by decide +kernel

gen_fact_theorems C16 Model.C16.facts 28

theorem C16.all_parameter_facts_hold : ∀ f ∈ Model.C16.facts, f.2 = true := by decide +kernel
