/-
C03 stated about the translated encoders and equality tests (`Code.arkEncodeField`, `Code.minEncodeField`,
`Code.arkEq`, `Code.minEq`: Rust bodies regenerated into Lean on every run).
-/
import Decaf.Props.C03
import Decaf.Lemmas.Formulas.ArkCompress
import Decaf.Lemmas.Formulas.MinCompress
import Decaf.Lemmas.Formulas.Eq
import Decaf.Lemmas.Formulas.ConvForms

namespace C03.Translated
open Model Edwards Decaf

variable {sr sr' : SR}

theorem encode_eq_spec_arkcode (h : SRContract sr) {c : Ext} {pt : E} (hr : ERepr c pt) (he : Point.IsEven pt) :
    ∃ s, Code.arkEncodeField sr c = some s ∧ s < q ∧ EncSpec pt s := by
  rw [Code.arkEncodeField_eq]; exact C03.encode_eq_spec h hr he

theorem encode_eq_spec_mincode (h : SRContract sr) {c : Ext} {pt : E} (hr : ERepr c pt) (he : Point.IsEven pt) :
    ∃ s, Code.minEncodeField sr c = some s ∧ s < q ∧ EncSpec pt s := by
  rw [Code.minEncodeField_eq]; exact C03.encode_eq_spec h hr he

theorem encode_total_arkcode (h : SRContract sr) (c : Ext) : ∃ s, Code.arkEncodeField sr c = some s ∧ s < q := by
  rw [Code.arkEncodeField_eq]; exact C03.encode_total h c

theorem encode_total_mincode (h : SRContract sr) (c : Ext) : ∃ s, Code.minEncodeField sr c = some s ∧ s < q := by
  rw [Code.minEncodeField_eq]; exact C03.encode_total h c

/-- equal (by the translated `==`) iff equal encodings (by the translated encoder) -/
theorem eq_iff_encode_eq_arkcode (h : SRContract sr) {c c' : Ext} {p p' : E} (hr : ERepr c p) (hr' : ERepr c' p')
    (he : Point.IsEven p) (he' : Point.IsEven p') :
    Code.arkEq c c' = true ↔ Code.arkEncodeField sr c = Code.arkEncodeField sr c' := by
  rw [Code.arkEq_eq, Code.arkEncodeField_eq]; exact C03.eq_iff_encode_eq h hr hr' he he'

theorem eq_iff_encode_eq_mincode (h : SRContract sr) {c c' : Ext} {p p' : E} (hr : ERepr c p) (hr' : ERepr c' p')
    (he : Point.IsEven p) (he' : Point.IsEven p') :
    Code.minEq c c' = true ↔ Code.minEncodeField sr c = Code.minEncodeField sr c' := by
  rw [Code.minEq_eq, Code.minEncodeField_eq]; exact C03.eq_iff_encode_eq h hr hr' he he'

/-- every encoding conversion (`From<Element>` / `From<&Element>` for `Encoding`, `From<Element>` for `[u8; 32]`, both
backends) is the encoder, and the byte-array conversions (`[u8; 32]` ↔ `Encoding`) are the identity -/
theorem encode_entry_points {α : Type} (enc : α → List ℕ) (e : α) (bytes : List ℕ) :
    (∀ f ∈ (Gen.ConvForms.encodeForms : List (String × ((α → List ℕ) → α → List ℕ))), f.2 enc e = enc e) ∧
    (∀ f ∈ (Gen.ConvForms.bytesForms : List (String × (List ℕ → List ℕ))), f.2 bytes = bytes) :=
  ⟨fun f hf => Formulas.ConvForms.encodeForms_correct f hf enc e, fun f hf => Formulas.ConvForms.bytesForms_correct f hf bytes⟩

/-- every stream serialiser (`CanonicalSerialize for Encoding | Element | AffinePoint`, regenerated on every run): the declared
size is 32 in compressed mode (a panic otherwise), an `Encoding` writes exactly its bytes, an `Element` / `AffinePoint` exactly
the encoder's output -/
theorem serialize_entry_points {α : Type} (enc : α → List ℕ) (e : α) (bytes : List ℕ) (mode : Bool) :
    (∀ f ∈ Gen.ConvForms.serSizeForms, f.2 true = .ok 32 ∧ f.2 false = .error .panic) ∧
    (∀ f ∈ Gen.ConvForms.serEncodingForms, f.2 mode bytes = .ok bytes) ∧
    (∀ f ∈ (Gen.ConvForms.serElementForms : List (String × ((α → List ℕ) → Bool → α → Except Gen.ConvForms.SerErr (List ℕ)))),
      f.2 enc mode e = .ok (enc e)) :=
  ⟨fun f hf => ⟨by rw [Formulas.ConvForms.serSizeForms_correct f hf]; rfl, by rw [Formulas.ConvForms.serSizeForms_correct f hf]; rfl⟩,
   fun f hf => Formulas.ConvForms.serEncodingForms_correct f hf mode bytes,
   fun f hf => Formulas.ConvForms.serElementForms_correct f hf enc mode e⟩

end C03.Translated

instantiate_builds C03.Translated.encode_eq_spec_arkcode ark
instantiate_builds C03.Translated.encode_eq_spec_mincode min
instantiate_builds C03.Translated.encode_total_arkcode ark
instantiate_builds C03.Translated.encode_total_mincode min
instantiate_builds C03.Translated.eq_iff_encode_eq_arkcode ark
instantiate_builds C03.Translated.eq_iff_encode_eq_mincode min
