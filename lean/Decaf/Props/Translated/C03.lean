/-
C03 stated about the translated encoders and equality tests (`Code.arkEncodeField`, `Code.minEncodeField`,
`Code.arkEq`, `Code.minEq`: Rust bodies regenerated into Lean on every run).
-/
import Decaf.Props.C03
import Decaf.Lemmas.Formulas.ArkCompress
import Decaf.Lemmas.Formulas.MinCompress
import Decaf.Lemmas.Formulas.Eq
import Decaf.Lemmas.Formulas.ConvForms

namespace C03.Translated
open Model Edwards Decaf

variable {sr sr' : SR}

theorem encode_eq_spec_arkcode (h : SRContract sr) {c : Ext} {pt : E} (hr : ERepr c pt) (he : Point.IsEven pt) :
    ∃ s, Code.arkEncodeField sr c = some s ∧ s < q ∧ EncSpec pt s := by
  rw [Code.arkEncodeField_eq]; exact C03.encode_eq_spec h hr he

theorem encode_eq_spec_mincode (h : SRContract sr) {c : Ext} {pt : E} (hr : ERepr c pt) (he : Point.IsEven pt) :
    ∃ s, Code.minEncodeField sr c = some s ∧ s < q ∧ EncSpec pt s := by
  rw [Code.minEncodeField_eq]; exact C03.encode_eq_spec h hr he

theorem encode_total_arkcode (h : SRContract sr) (c : Ext) : ∃ s, Code.arkEncodeField sr c = some s ∧ s < q := by
  rw [Code.arkEncodeField_eq]; exact C03.encode_total h c

theorem encode_total_mincode (h : SRContract sr) (c : Ext) : ∃ s, Code.minEncodeField sr c = some s ∧ s < q := by
  rw [Code.minEncodeField_eq]; exact C03.encode_total h c

/-- equal (by the translated `==`) iff equal encodings (by the translated encoder) -/
theorem eq_iff_encode_eq_arkcode (h : SRContract sr) {c c' : Ext} {p p' : E} (hr : ERepr c p) (hr' : ERepr c' p')
    (he : Point.IsEven p) (he' : Point.IsEven p') :
    Code.arkEq c c' = true ↔ Code.arkEncodeField sr c = Code.arkEncodeField sr c' := by
  rw [Code.arkEq_eq, Code.arkEncodeField_eq]; exact C03.eq_iff_encode_eq h hr hr' he he'

theorem eq_iff_encode_eq_mincode (h : SRContract sr) {c c' : Ext} {p p' : E} (hr : ERepr c p) (hr' : ERepr c' p')
    (he : Point.IsEven p) (he' : Point.IsEven p') :
    Code.minEq c c' = true ↔ Code.minEncodeField sr c = Code.minEncodeField sr c' := by
  rw [Code.minEq_eq, Code.minEncodeField_eq]; exact C03.eq_iff_encode_eq h hr hr' he he'

/-- every encoding conversion (`From<Element>` / `From<&Element>` for `Encoding`, `From<Element>` for `[u8; 32]`, both
backends) is the encoder, and the byte-array conversions (`[u8; 32]` ↔ `Encoding`) are the identity -/
theorem encode_entry_points {α : Type} (enc : α → List ℕ) (e : α) (bytes : List ℕ) :
    (∀ f ∈ (Gen.ConvForms.encodeForms : List (String × ((α → List ℕ) → α → List ℕ))), f.2 enc e = enc e) ∧
    (∀ f ∈ (Gen.ConvForms.bytesForms : List (String × (List ℕ → List ℕ))), f.2 bytes = bytes) :=
  ⟨fun f hf => Formulas.ConvForms.encodeForms_correct f hf enc e, fun f hf => Formulas.ConvForms.bytesForms_correct f hf bytes⟩

end C03.Translated

instantiate_builds C03.Translated.encode_eq_spec_arkcode ark
instantiate_builds C03.Translated.encode_eq_spec_mincode min
instantiate_builds C03.Translated.encode_total_arkcode ark
instantiate_builds C03.Translated.encode_total_mincode min
instantiate_builds C03.Translated.eq_iff_encode_eq_arkcode ark
instantiate_builds C03.Translated.eq_iff_encode_eq_mincode min
