/-
C07 stated about the translated Elligator maps (`Code.arkElligator`, `Code.minElligator`: the bodies of
`Element::elligator_map` in the two backends, regenerated on every run) and the translated addition.
-/
import Decaf.Props.C07
import Decaf.Lemmas.Formulas.ArkElligator
import Decaf.Lemmas.Formulas.MinElligator
import Decaf.Lemmas.Formulas.MinAdd
import Decaf.Lemmas.Formulas.HashToCurve

namespace C07.Translated
open Model Edwards Decaf

variable {sr sr' : SR}

theorem minElligator_eq' : @Code.minElligator = fun sr r0 => elligator sr ZETA r0 := by
  rw [Code.minElligator_eq, zeta_min_eq]

theorem eq_spec_arkcode (h : SRContract sr) (r0 : ℕ) :
    ∃ c pt, Code.arkElligator sr r0 = some c ∧ ERepr c pt ∧
      ElligatorTo params paritySign ((ZETA : ℕ) : Fq) (r0 : Fq) pt.x pt.y ∧ Point.IsEven pt := by
  rw [Code.arkElligator_eq]; exact C07.elligator_eq_spec h r0

theorem eq_spec_mincode (h : SRContract sr) (r0 : ℕ) :
    ∃ c pt, Code.minElligator sr r0 = some c ∧ ERepr c pt ∧
      ElligatorTo params paritySign ((ZETA : ℕ) : Fq) (r0 : Fq) pt.x pt.y ∧ Point.IsEven pt := by
  rw [minElligator_eq']; exact C07.elligator_eq_spec h r0

/-- the two builds' translated maps return the same element -/
theorem builds_agree (h : SRContract sr) (h' : SRContract sr') (r0 : ℕ) {c c' : Ext}
    (hc : Code.arkElligator sr r0 = some c) (hc' : Code.minElligator sr' r0 = some c') : Ext.eq c c' = true := by
  rw [Code.arkElligator_eq] at hc; rw [minElligator_eq'] at hc'
  exact C07.elligator_builds_agree h h' r0 hc hc'

/-- minimal build: the two-input hash (`&R_1 + &R_2` over the translated addition) is the group sum -/
theorem hash_to_curve_mincode (h : SRContract sr) (r1 r2 : ℕ) :
    ∃ c1 c2 p1 p2, Code.minElligator sr r1 = some c1 ∧ Code.minElligator sr r2 = some c2 ∧ ERepr c1 p1 ∧ ERepr c2 p2 ∧
      ERepr (Code.minAdd c1 c2) (p1 + p2) ∧ Point.IsEven (p1 + p2) := by
  rw [minElligator_eq', Code.minAdd_eq]
  obtain ⟨c1, c2, p1, p2, h1, h2, e1, e2, ha, _, hev⟩ := C07.hash_to_curve_eq h r1 r2
  exact ⟨c1, c2, p1, p2, h1, h2, e1, e2, ha, hev⟩

/-- the translated body of `hash_to_curve` itself (arkworks build): total, and the group sum of the two one-input images -/
theorem hash_to_curve_body_arkcode (h : SRContract sr) (r1 r2 : ℕ) :
    ∃ c1 c2 c p1 p2, Code.arkElligator sr r1 = some c1 ∧ Code.arkElligator sr r2 = some c2 ∧ ERepr c1 p1 ∧ ERepr c2 p2 ∧
      Code.arkHashToCurve sr r1 r2 = some c ∧ ERepr c (p1 + p2) ∧ Point.IsEven (p1 + p2) := by
  rw [Code.arkElligator_eq, Code.arkHashToCurve_eq]
  obtain ⟨c1, c2, p1, p2, h1, h2, e1, e2, _, hr, hev⟩ := C07.hash_to_curve_eq h r1 r2
  refine ⟨c1, c2, Ext.addRef c1 c2, p1, p2, h1, h2, e1, e2, ?_, hr, hev⟩
  show hashToCurve sr ZETA Ext.addRef r1 r2 = _
  unfold hashToCurve; rw [h1, h2]; rfl

/-- the translated body of `hash_to_curve` itself (minimal build) -/
theorem hash_to_curve_body_mincode (h : SRContract sr) (r1 r2 : ℕ) :
    ∃ c1 c2 c p1 p2, Code.minElligator sr r1 = some c1 ∧ Code.minElligator sr r2 = some c2 ∧ ERepr c1 p1 ∧ ERepr c2 p2 ∧
      Code.minHashToCurve sr r1 r2 = some c ∧ ERepr c (p1 + p2) ∧ Point.IsEven (p1 + p2) := by
  rw [minElligator_eq', Code.minHashToCurve_eq, zeta_min_eq]
  obtain ⟨c1, c2, p1, p2, h1, h2, e1, e2, hm, _, hev⟩ := C07.hash_to_curve_eq h r1 r2
  refine ⟨c1, c2, Ext.addMin c1 c2, p1, p2, h1, h2, e1, e2, ?_, hm, hev⟩
  show hashToCurve sr ZETA Ext.addMin r1 r2 = _
  unfold hashToCurve; rw [h1, h2]; rfl

end C07.Translated

instantiate_builds C07.Translated.eq_spec_arkcode ark
instantiate_builds C07.Translated.eq_spec_mincode min
instantiate_builds C07.Translated.builds_agree
instantiate_builds C07.Translated.hash_to_curve_mincode min
instantiate_builds C07.Translated.hash_to_curve_body_arkcode ark
instantiate_builds C07.Translated.hash_to_curve_body_mincode min
