/-
C08 stated about the translated equality and identity tests (`impl PartialEq` of `Element` in both backends and of
`AffinePoint`, `is_identity` in both backends; regenerated on every run).
-/
import Decaf.Props.C08
import Decaf.Lemmas.Formulas.Eq
import Decaf.Lemmas.Formulas.ConvForms
import Decaf.Props.C03

namespace C08.Translated
open Model Edwards Decaf
variable {sr : SR}

theorem arkEq_iff_coset {c1 c2 : Ext} {p1 p2 : E} (h1 : ERepr c1 p1) (h2 : ERepr c2 p2) :
    Code.arkEq c1 c2 = true ↔ Point.Coset p1 p2 := by
  rw [Code.arkEq_eq]; exact C08.eq_iff_coset h1 h2

theorem arkAffineEq_iff_coset {c1 c2 : Ext} {p1 p2 : E} (h1 : ERepr c1 p1) (h2 : ERepr c2 p2) :
    Code.arkAffineEq c1 c2 = true ↔ Point.Coset p1 p2 := by
  rw [Code.arkAffineEq_eq]; exact C08.eq_iff_coset h1 h2

theorem minEq_iff_coset {c1 c2 : Ext} {p1 p2 : E} (h1 : ERepr c1 p1) (h2 : ERepr c2 p2) :
    Code.minEq c1 c2 = true ↔ Point.Coset p1 p2 := by
  rw [Code.minEq_eq]; exact C08.eq_iff_coset h1 h2

theorem identity_predicates_agree_arkcode {c : Ext} {p : E} (h : ERepr c p) (hX : c.X < q) :
    (Code.arkIsIdentity c = true ↔ Code.arkEq c Ext.identity = true) ∧ (Code.arkIsIdentity c = true ↔ Point.Coset 0 p) := by
  rw [Code.arkIsIdentity_eq, Code.arkEq_eq]; exact C08.identity_predicates_agree h hX

theorem identity_predicates_agree_mincode {c : Ext} {p : E} (h : ERepr c p) (hX : c.X < q) :
    (Code.minIsIdentity c = true ↔ Code.minEq c Ext.identity = true) ∧ (Code.minIsIdentity c = true ↔ Point.Coset 0 p) := by
  rw [Code.minIsIdentity_eq, Code.minEq_eq]; exact C08.identity_predicates_agree h hX

/-- every translated `Hash` impl (`Element`, `AffinePoint`; regenerated on every run) feeds the hasher exactly the encoder's
output -/
theorem hash_input_forms {α β : Type} (enc raw : α → β) (e : α) :
    ∀ f ∈ (Gen.ConvForms.hashForms : List (String × ((α → β) → (α → β) → α → β))), f.2 enc raw e = enc e :=
  fun f hf => Formulas.ConvForms.hashForms_correct f hf enc raw e

/-- **equal elements hash equally, and only they do (up to collisions of the hasher)**: for any two representations of
even points, and any two of the translated `Hash` impls (so also an `Element` against an `AffinePoint`), the hasher inputs
coincide exactly when the library's equality holds -/
theorem hash_input_eq_iff (h : SRContract sr) {c c' : Ext} {p p' : E} (hr : ERepr c p) (hr' : ERepr c' p')
    (he : Point.IsEven p) (he' : Point.IsEven p') :
    ∀ (raw raw' : Ext → Option ℕ),
    ∀ f ∈ (Gen.ConvForms.hashForms : List (String × ((Ext → Option ℕ) → (Ext → Option ℕ) → Ext → Option ℕ))),
    ∀ g ∈ (Gen.ConvForms.hashForms : List (String × ((Ext → Option ℕ) → (Ext → Option ℕ) → Ext → Option ℕ))),
      (f.2 (Ext.encodeField sr) raw c = g.2 (Ext.encodeField sr) raw' c' ↔ Ext.eq c c' = true) := by
  intro raw raw' f hf g hg
  rw [hash_input_forms _ _ _ f hf, hash_input_forms _ _ _ g hg]
  exact (C03.eq_iff_encode_eq h hr hr' he he').symm

/-- the byte form of the same statement, in the direction `Hash` must satisfy: equal elements, equal bytes into the hasher -/
theorem hash_bytes_respect_eq (h : SRContract sr) {c c' : Ext} {p p' : E} (hr : ERepr c p) (hr' : ERepr c' p')
    (he : Point.IsEven p) (he' : Point.IsEven p') (heq : Ext.eq c c' = true) :
    ∀ (raw raw' : Ext → Option (List ℕ)),
    ∀ f ∈ (Gen.ConvForms.hashForms : List (String × ((Ext → Option (List ℕ)) → (Ext → Option (List ℕ)) → Ext → Option (List ℕ)))),
    ∀ g ∈ (Gen.ConvForms.hashForms : List (String × ((Ext → Option (List ℕ)) → (Ext → Option (List ℕ)) → Ext → Option (List ℕ)))),
      f.2 (Ext.encode sr) raw c = g.2 (Ext.encode sr) raw' c' := by
  intro raw raw' f hf g hg
  rw [hash_input_forms _ _ _ f hf, hash_input_forms _ _ _ g hg]
  unfold Ext.encode
  rw [(C03.eq_iff_encode_eq h hr hr' he he').mp heq]

end C08.Translated

instantiate_builds C08.Translated.hash_input_eq_iff ark
instantiate_builds C08.Translated.hash_bytes_respect_eq ark
