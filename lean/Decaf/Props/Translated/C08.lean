/-
C08 stated about the translated equality and identity tests (`impl PartialEq` of `Element` in both backends and of
`AffinePoint`, `is_identity` in both backends; regenerated on every run).
-/
import Decaf.Props.C08
import Decaf.Lemmas.Formulas.Eq

namespace C08.Translated
open Model Edwards

theorem arkEq_iff_coset {c1 c2 : Ext} {p1 p2 : E} (h1 : ERepr c1 p1) (h2 : ERepr c2 p2) :
    Code.arkEq c1 c2 = true ↔ Point.Coset p1 p2 := by
  rw [Code.arkEq_eq]; exact C08.eq_iff_coset h1 h2

theorem arkAffineEq_iff_coset {c1 c2 : Ext} {p1 p2 : E} (h1 : ERepr c1 p1) (h2 : ERepr c2 p2) :
    Code.arkAffineEq c1 c2 = true ↔ Point.Coset p1 p2 := by
  rw [Code.arkAffineEq_eq]; exact C08.eq_iff_coset h1 h2

theorem minEq_iff_coset {c1 c2 : Ext} {p1 p2 : E} (h1 : ERepr c1 p1) (h2 : ERepr c2 p2) :
    Code.minEq c1 c2 = true ↔ Point.Coset p1 p2 := by
  rw [Code.minEq_eq]; exact C08.eq_iff_coset h1 h2

theorem identity_predicates_agree_arkcode {c : Ext} {p : E} (h : ERepr c p) (hX : c.X < q) :
    (Code.arkIsIdentity c = true ↔ Code.arkEq c Ext.identity = true) ∧ (Code.arkIsIdentity c = true ↔ Point.Coset 0 p) := by
  rw [Code.arkIsIdentity_eq, Code.arkEq_eq]; exact C08.identity_predicates_agree h hX

theorem identity_predicates_agree_mincode {c : Ext} {p : E} (h : ERepr c p) (hX : c.X < q) :
    (Code.minIsIdentity c = true ↔ Code.minEq c Ext.identity = true) ∧ (Code.minIsIdentity c = true ↔ Point.Coset 0 p) := by
  rw [Code.minIsIdentity_eq, Code.minEq_eq]; exact C08.identity_predicates_agree h hX

end C08.Translated
