/-
C09 stated about the translated square-root routines: `Code.arkSqrtRatioZeta` (the whole straight-line main routine of
the table-driven `Fq::sqrt_ratio_zeta`, src/ark_curve/invsqrt.rs) and `Code.minSqrtRatioZeta` (the top level of
`Fq::non_arkworks_sqrt_ratio_zeta`, src/min_curve/invsqrt.rs), both regenerated into Lean on every run.
Tables (`gtab`, `sLookup`) and the two loops of the minimal routine (`powLeLimbs`, `ourSqrt`) are the hand-written model,
tied by the correspondence check.
-/
import Decaf.Props.C09
import Decaf.Lemmas.Formulas.ArkSqrt

namespace C09.Translated
open Model

/-- the translated table-driven routine meets the four-case contract on all of Fq × Fq (in particular: no lookup misses) -/
theorem ark_contract : SRContract Code.arkSqrtRatioZeta := by
  rw [Code.arkSqrtRatioZeta_eq]; exact C09.ark_contract

/-- the translated top level of the minimal routine meets the four-case contract -/
theorem min_contract : SRContract Code.minSqrtRatioZeta := by
  rw [Code.minSqrtRatioZeta_eq]; exact C09.min_contract

/-- the two translated routines agree: same flag, roots of the same square -/
theorem routines_agree {n d : ℕ} (hn : n < q) (hd : d < q) :
    ∃ f y y', Code.arkSqrtRatioZeta n d = some (f, y) ∧ Code.minSqrtRatioZeta n d = some (f, y') ∧
      (y : Fq) ^ 2 * (d : Fq) = (y' : Fq) ^ 2 * (d : Fq) := by
  rw [Code.arkSqrtRatioZeta_eq, Code.minSqrtRatioZeta_eq]; exact C09.routines_agree hn hd

end C09.Translated
