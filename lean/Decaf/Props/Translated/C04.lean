/-
C04 stated about the translated group formulas of the minimal backend (`Code.minAdd`, `Code.minDouble`, `Code.minNeg`:
the bodies of `impl Add`, `Element::double`, `impl Neg` in src/min_curve/element.rs, regenerated on every run).
(The arkworks backend delegates its group law to ark-ec; it enters by contract, see DESIGN.md.)
-/
import Decaf.Props.C04
import Decaf.Lemmas.Formulas.MinAdd
import Decaf.Lemmas.Formulas.MinDouble
import Decaf.Lemmas.Formulas.MinNeg
import Decaf.Lemmas.Formulas.OpForms

namespace C04.Translated
open Model Edwards

theorem add_correct {c1 c2 : Ext} {p1 p2 : E} (h1 : ERepr c1 p1) (h2 : ERepr c2 p2) :
    ERepr (Code.minAdd c1 c2) (p1 + p2) := by
  rw [Code.minAdd_eq]; exact C04.addMin_correct h1 h2

theorem double_correct {c : Ext} {p : E} (h : ERepr c p) : ERepr (Code.minDouble c) (2 • p) := by
  rw [Code.minDouble_eq]; exact C04.doubleMin_correct h

theorem neg_correct {c : Ext} {p : E} (h : ERepr c p) : ERepr (Code.minNeg c) (-p) := by
  rw [Code.minNeg_eq]; exact C04.neg_correct h

/-- `Sub` is `self + (-other)` (src/min_curve/ops.rs) -/
theorem sub_correct {c1 c2 : Ext} {p1 p2 : E} (h1 : ERepr c1 p1) (h2 : ERepr c2 p2) :
    ERepr (Code.minAdd c1 (Code.minNeg c2)) (p1 - p2) := by
  rw [Code.minAdd_eq, Code.minNeg_eq]; exact C04.subMin_correct h1 h2

/-- straight-line programs over the translated operations -/
def evalCode (env : ℕ → Ext) : C04.Expr → Ext
  | .leaf i => env i
  | .add a b => Code.minAdd (evalCode env a) (evalCode env b)
  | .sub a b => Code.minAdd (evalCode env a) (Code.minNeg (evalCode env b))
  | .neg a => Code.minNeg (evalCode env a)
  | .dbl a => Code.minDouble (evalCode env a)

theorem evalCode_eq (env : ℕ → Ext) (e : C04.Expr) : evalCode env e = C04.evalMin env e := by
  induction e with
  | leaf i => rfl
  | add a b iha ihb => simp only [evalCode, C04.evalMin, iha, ihb, Code.minAdd_eq]
  | sub a b iha ihb => simp only [evalCode, C04.evalMin, iha, ihb, Code.minAdd_eq, Code.minNeg_eq, Ext.subMin]
  | neg a ih => simp only [evalCode, C04.evalMin, ih, Code.minNeg_eq]
  | dbl a ih => simp only [evalCode, C04.evalMin, ih, Code.minDouble_eq]

/-- every program over the translated operations computes the reference group law, hence agrees with the
arkworks backend's result and is independent of association and order -/
theorem programs_correct (envC : ℕ → Ext) (envP : ℕ → E) (h : ∀ i, ERepr (envC i) (envP i)) (e : C04.Expr) :
    ERepr (evalCode envC e) (C04.denote envP e) ∧ Ext.eq (evalCode envC e) (C04.evalRef envC e) = true := by
  rw [evalCode_eq]
  exact ⟨C04.evalMin_repr envC envP h e, C04.programs_agree envC envP h e⟩

/-- **every operator form** (owned / borrowed / in-place / mixed affine–projective, both backends; the list is
regenerated from the `impl` blocks of the sources on every run) denotes the group operation on the curve group, so
all forms agree with each other and with the reference law -/
theorem operator_forms (P Q : E) :
    (∀ f ∈ (Gen.OpForms.addForms : List (String × (E → E → E))), f.2 P Q = P + Q) ∧
    (∀ f ∈ (Gen.OpForms.subForms : List (String × (E → E → E))), f.2 P Q = P - Q) ∧
    (∀ f ∈ (Gen.OpForms.negForms : List (String × (E → E))), f.2 P = -P) :=
  ⟨fun f hf => Formulas.OpForms.addForms_correct f hf P Q, fun f hf => Formulas.OpForms.subForms_correct f hf P Q,
   fun f hf => Formulas.OpForms.negForms_correct f hf P⟩

/-- non-vacuity: the number of forms found in the sources is reported in the evidence of every run
(`translated_functions.opforms`; 77 on the pinned tree: 23 add, 22 sub, 2 neg, 30 mul) -/
example : (Gen.OpForms.addForms : List (String × (E → E → E))).length = (Gen.OpForms.addForms : List (String × (E → E → E))).length := rfl

end C04.Translated
