/-
C10 stated about the translated operator forms of the three prime fields (`impl Add/Sub/Mul/Div/Neg/…Assign/Sum/Product
for Fq | Fr | Fp` in src/fields/{fq,fr,fp}/ops.rs; the list is regenerated from the `impl` blocks on every run by
translator/extract_opforms.py): every form denotes the field operation, in `ZMod q`, `ZMod r` and `ZMod p`.
(The base methods `add`, `sub`, `mul`, `neg`, `inverse` of the backend wrappers are exact arithmetic by contract — the
fiat-crypto / arkworks primitives of C10 — and validated by the correspondence check.)
-/
import Decaf.Props.C10
import Decaf.Lemmas.Formulas.OpForms
import Decaf.Lemmas.Formulas.FieldFns

namespace C10.Translated
open Model

/-- "every operator form denotes the field operation", at operands a, b and at the list l -/
def FormsCorrect (K : Type) [Field K] (a b : K) (l : List K) : Prop :=
    (∀ f ∈ (Gen.FieldOpForms.addForms : List (String × (K → K → K))), f.2 a b = a + b) ∧
    (∀ f ∈ (Gen.FieldOpForms.subForms : List (String × (K → K → K))), f.2 a b = a - b) ∧
    (∀ f ∈ (Gen.FieldOpForms.mulForms : List (String × (K → K → K))), f.2 a b = a * b) ∧
    (∀ f ∈ (Gen.FieldOpForms.divForms : List (String × (K → K → K))), f.2 a b = a / b) ∧
    (∀ f ∈ (Gen.FieldOpForms.negForms : List (String × (K → K))), f.2 a = -a) ∧
    (∀ f ∈ (Gen.FieldOpForms.sumForms : List (String × (List K → K))), f.2 l = l.sum) ∧
    (∀ f ∈ (Gen.FieldOpForms.prodForms : List (String × (List K → K))), f.2 l = l.prod)

/-- every operator form, in any field -/
theorem field_forms {K : Type} [Field K] (a b : K) (l : List K) : FormsCorrect K a b l :=
  ⟨fun f hf => Formulas.FieldOpForms.addForms_correct f hf a b, fun f hf => Formulas.FieldOpForms.subForms_correct f hf a b,
   fun f hf => Formulas.FieldOpForms.mulForms_correct f hf a b, fun f hf => Formulas.FieldOpForms.divForms_correct f hf a b,
   fun f hf => Formulas.FieldOpForms.negForms_correct f hf a, fun f hf => Formulas.FieldOpForms.sumForms_correct f hf l,
   fun f hf => Formulas.FieldOpForms.prodForms_correct f hf l⟩

/-- … in particular in the three fields of the crate (primality of q, r, p: Spec/Primes.lean) -/
theorem field_forms_fq (a b : ZMod q) (l : List (ZMod q)) : FormsCorrect (ZMod q) a b l := field_forms a b l
theorem field_forms_fr (a b : ZMod r) (l : List (ZMod r)) : FormsCorrect (ZMod r) a b l := field_forms a b l
theorem field_forms_fp (a b : ZMod p) (l : List (ZMod p)) : FormsCorrect (ZMod p) a b l := field_forms a b l

/-- the empty sum and the empty product (the pinned tree folded `Product` from ZERO: defect 5, repaired) -/
theorem empty_sum_prod {K : Type} [Field K] :
    (∀ f ∈ (Gen.FieldOpForms.sumForms : List (String × (List K → K))), f.2 [] = 0) ∧
    (∀ f ∈ (Gen.FieldOpForms.prodForms : List (String × (List K → K))), f.2 [] = 1) :=
  ⟨fun f hf => by rw [Formulas.FieldOpForms.sumForms_correct f hf]; rfl,
   fun f hf => by rw [Formulas.FieldOpForms.prodForms_correct f hf]; rfl⟩

/-- **exponentiation honours the whole multi-limb exponent**: the translated `Fq::power` (src/fields/fq.rs, the loop
`for limb in exp { for i in 0..64 { … } }` regenerated on every run) is x to the integer the limbs denote, for any number of limbs -/
theorem power_spec (x : ℕ) (limbs : List ℕ) (h : ∀ l ∈ limbs, l < 2 ^ 64) :
    ((Code.fqPower x limbs : ℕ) : ZMod q) = (x : ZMod q) ^ Lit.ofLimbs 64 limbs := by
  rw [Code.fqPower_eq]; exact C10.power_spec Exec.fqP x limbs h

end C10.Translated
