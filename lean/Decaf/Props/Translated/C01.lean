/-
C01 stated about the *translated code* (`Code.*`: the Rust bodies regenerated into Lean on every run), both backends.
Each theorem rewrites the translated function to the hand-written model (Lemmas/Formulas/*, proved for all inputs)
and applies the property theorem of Props/C01.lean.
-/
import Decaf.Props.C01
import Decaf.Lemmas.Formulas.ArkCompress
import Decaf.Lemmas.Formulas.ArkDecompress
import Decaf.Lemmas.Formulas.MinCompress
import Decaf.Lemmas.Formulas.MinDecompress

namespace C01.Translated
open Model Edwards Decaf

variable {sr : SR}

/-- arkworks build: bytes → element → bytes -/
theorem encode_decode_arkcode (h : SRContract sr) (bytes : List ℕ) (hlen : bytes.length = 32) (hb : ∀ b ∈ bytes, b < 256)
    {c : Ext} (hc : Code.arkDecode sr bytes = .ok c) :
    (Code.arkEncodeField sr c).map (fun s => toLeBytes s 32) = some bytes := by
  rw [Code.arkDecode_eq] at hc; rw [Code.arkEncodeField_eq]
  exact C01.encode_decode h bytes hlen hb hc

/-- minimal build: bytes → element → bytes -/
theorem encode_decode_mincode (h : SRContract sr) (bytes : List ℕ) (hlen : bytes.length = 32) (hb : ∀ b ∈ bytes, b < 256)
    {c : Ext} (hc : Code.minDecode sr bytes = .ok c) :
    (Code.minEncodeField sr c).map (fun s => toLeBytes s 32) = some bytes := by
  rw [Code.minDecode_eq] at hc; rw [Code.minEncodeField_eq]
  exact C01.encode_decode h bytes hlen hb hc

/-- arkworks build: element → bytes → element -/
theorem decode_encode_arkcode (h : SRContract sr) {c : Ext} {pt : E} (hr : ERepr c pt) (he : Point.IsEven pt) :
    ∃ bytes c' pt', (Code.arkEncodeField sr c).map (fun s => toLeBytes s 32) = some bytes ∧
      Code.arkDecode sr bytes = .ok c' ∧ ERepr c' pt' ∧ Point.Coset pt pt' ∧ Ext.eq c c' = true := by
  rw [Code.arkDecode_eq, Code.arkEncodeField_eq]
  exact C01.decode_encode h hr he

/-- minimal build: element → bytes → element -/
theorem decode_encode_mincode (h : SRContract sr) {c : Ext} {pt : E} (hr : ERepr c pt) (he : Point.IsEven pt) :
    ∃ bytes c' pt', (Code.minEncodeField sr c).map (fun s => toLeBytes s 32) = some bytes ∧
      Code.minDecode sr bytes = .ok c' ∧ ERepr c' pt' ∧ Point.Coset pt pt' ∧ Ext.eq c c' = true := by
  rw [Code.minDecode_eq, Code.minEncodeField_eq]
  exact C01.decode_encode h hr he

end C01.Translated

instantiate_builds C01.Translated.encode_decode_arkcode ark
instantiate_builds C01.Translated.encode_decode_mincode min
instantiate_builds C01.Translated.decode_encode_arkcode ark
instantiate_builds C01.Translated.decode_encode_mincode min
