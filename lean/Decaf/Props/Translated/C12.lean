/-
C12 stated about the translated code of the two backends: the arkworks build's functions and the minimal build's
functions (each regenerated from its own Rust source on every run) return the same results.
-/
import Decaf.Props.C12
import Decaf.Lemmas.Formulas.ArkCompress
import Decaf.Lemmas.Formulas.ArkDecompress
import Decaf.Lemmas.Formulas.ArkElligator
import Decaf.Lemmas.Formulas.MinCompress
import Decaf.Lemmas.Formulas.MinDecompress
import Decaf.Lemmas.Formulas.MinElligator
import Decaf.Lemmas.Formulas.MinAdd
import Decaf.Lemmas.Formulas.MinDouble
import Decaf.Lemmas.Formulas.MinNeg
import Decaf.Lemmas.Formulas.Eq

namespace C12.Translated
open Model Edwards Decaf

variable {sr sr' : SR}

/-- as functions of the square-root routine, the two backends' decoders, encoders and Elligator maps are the same -/
theorem code_identical : @Code.arkDecode = @Code.minDecode ∧ @Code.arkEncodeField = @Code.minEncodeField ∧
    @Code.arkElligator = @Code.minElligator ∧ @Code.arkEq = @Code.minEq ∧ @Code.arkIsIdentity = @Code.minIsIdentity := by
  rw [Code.arkDecode_eq, Code.minDecode_eq, Code.arkEncodeField_eq, Code.minEncodeField_eq, Code.arkElligator_eq,
    Code.minElligator_eq, zeta_min_eq, Code.arkEq_eq, Code.minEq_eq, Code.arkIsIdentity_eq, Code.minIsIdentity_eq]
  exact ⟨rfl, rfl, rfl, rfl, rfl⟩

theorem decode_verdict_agrees (h : SRContract sr) (h' : SRContract sr') (bytes : List ℕ) :
    (∃ c, Code.arkDecode sr bytes = .ok c) ↔ (∃ c, Code.minDecode sr' bytes = .ok c) := by
  rw [Code.arkDecode_eq, Code.minDecode_eq]; exact C12.decode_verdict_agrees h h' bytes

theorem decode_result_agrees (h : SRContract sr) (h' : SRContract sr') (bytes : List ℕ) {c c' : Ext}
    (hc : Code.arkDecode sr bytes = .ok c) (hc' : Code.minDecode sr' bytes = .ok c') : Code.arkEq c c' = true := by
  rw [Code.arkDecode_eq] at hc; rw [Code.minDecode_eq] at hc'; rw [Code.arkEq_eq]
  exact C12.decode_result_agrees h h' bytes hc hc'

theorem decode_error_agrees (h : SRContract sr) (h' : SRContract sr') (bytes : List ℕ) {e e' : DecErr}
    (he : Code.arkDecode sr bytes = .error e) (he' : Code.minDecode sr' bytes = .error e') : e = e' := by
  rw [Code.arkDecode_eq] at he; rw [Code.minDecode_eq] at he'
  exact C12.decode_error_agrees h h' bytes he he'

theorem encode_agrees (h : SRContract sr) (h' : SRContract sr') {c c' : Ext} {p p' : E}
    (hr : ERepr c p) (hr' : ERepr c' p') (he : Point.IsEven p) (hc : Point.Coset p p') :
    Code.arkEncodeField sr c = Code.minEncodeField sr' c' := by
  rw [Code.arkEncodeField_eq, Code.minEncodeField_eq]
  exact C03.encode_respects_element h h' hr hr' he hc

/-- the minimal backend's translated formulas against the arkworks backend's reference law, on every program -/
theorem programs_agree (envC : ℕ → Ext) (envP : ℕ → E) (h : ∀ i, ERepr (envC i) (envP i)) (e : C04.Expr) :
    Ext.eq (Ext.addMin (envC 0) (envC 1)) (Ext.addRef (envC 0) (envC 1)) = true ∧
    Code.minAdd = Ext.addMin ∧ Code.minDouble = Ext.doubleMin ∧ Code.minNeg = Ext.neg ∧
    Ext.eq (C04.evalMin envC e) (C04.evalRef envC e) = true :=
  ⟨C04.backends_agree_add (h 0) (h 1), Code.minAdd_eq, Code.minDouble_eq, Code.minNeg_eq, C12.programs_agree envC envP h e⟩

end C12.Translated

instantiate_builds C12.Translated.decode_verdict_agrees
instantiate_builds C12.Translated.decode_result_agrees
instantiate_builds C12.Translated.decode_error_agrees
instantiate_builds C12.Translated.encode_agrees
