/-
C06 stated about the translated decoders and Elligator maps: whatever they return is a valid group element.
-/
import Decaf.Props.C06
import Decaf.Lemmas.Formulas.ArkDecompress
import Decaf.Lemmas.Formulas.MinDecompress
import Decaf.Lemmas.Formulas.ArkElligator
import Decaf.Lemmas.Formulas.MinElligator

namespace C06.Translated
open Model Edwards Decaf

variable {sr : SR}

theorem decode_valid_arkcode (h : SRContract sr) (bytes : List ℕ) {c : Ext} (hc : Code.arkDecode sr bytes = .ok c) :
    C06.Valid c := by
  rw [Code.arkDecode_eq] at hc; exact C06.decode_valid h bytes hc

theorem decode_valid_mincode (h : SRContract sr) (bytes : List ℕ) {c : Ext} (hc : Code.minDecode sr bytes = .ok c) :
    C06.Valid c := by
  rw [Code.minDecode_eq] at hc; exact C06.decode_valid h bytes hc

theorem elligator_valid_arkcode (h : SRContract sr) (r0 : ℕ) {c : Ext} (hc : Code.arkElligator sr r0 = some c) :
    C06.Valid c := by
  rw [Code.arkElligator_eq] at hc; exact C06.elligator_valid h r0 hc

theorem elligator_valid_mincode (h : SRContract sr) (r0 : ℕ) {c : Ext} (hc : Code.minElligator sr r0 = some c) :
    C06.Valid c := by
  rw [Code.minElligator_eq] at hc
  simp only [zeta_min_eq] at hc
  exact C06.elligator_valid h r0 hc

end C06.Translated

instantiate_builds C06.Translated.decode_valid_arkcode ark
instantiate_builds C06.Translated.decode_valid_mincode min
instantiate_builds C06.Translated.elligator_valid_arkcode ark
instantiate_builds C06.Translated.elligator_valid_mincode min
