/-
C02 stated about the translated decoders (`Code.arkDecode`, `Code.minDecode`: the bodies of
`Encoding::vartime_decompress` in the two backends, regenerated into Lean on every run).
-/
import Decaf.Props.C02
import Decaf.Lemmas.Formulas.ArkDecompress
import Decaf.Lemmas.Formulas.MinDecompress
import Decaf.Lemmas.Formulas.ConvForms

namespace C02.Translated
open Model Edwards Decaf

variable {sr : SR}

theorem accepts_iff_arkcode (h : SRContract sr) (bytes : List ℕ) :
    (∃ c, Code.arkDecode sr bytes = .ok c) ↔ leBytes bytes < q ∧ ∃ pt : E, DecSpec (leBytes bytes) pt := by
  rw [Code.arkDecode_eq]; exact C02.decode_accepts_iff h bytes

theorem accepts_iff_mincode (h : SRContract sr) (bytes : List ℕ) :
    (∃ c, Code.minDecode sr bytes = .ok c) ↔ leBytes bytes < q ∧ ∃ pt : E, DecSpec (leBytes bytes) pt := by
  rw [Code.minDecode_eq]; exact C02.decode_accepts_iff h bytes

theorem eq_spec_arkcode (h : SRContract sr) (bytes : List ℕ) {c : Ext} (hc : Code.arkDecode sr bytes = .ok c) :
    ∃ pt : E, ERepr c pt ∧ DecSpec (leBytes bytes) pt ∧ Point.IsEven pt ∧ c.Z = 1 ∧ c.X < q := by
  rw [Code.arkDecode_eq] at hc; exact C02.decode_eq_spec h bytes hc

theorem eq_spec_mincode (h : SRContract sr) (bytes : List ℕ) {c : Ext} (hc : Code.minDecode sr bytes = .ok c) :
    ∃ pt : E, ERepr c pt ∧ DecSpec (leBytes bytes) pt ∧ Point.IsEven pt ∧ c.Z = 1 ∧ c.X < q := by
  rw [Code.minDecode_eq] at hc; exact C02.decode_eq_spec h bytes hc

/-- never a panic: every rejection is the encoding error -/
theorem error_is_encoding_arkcode (h : SRContract sr) (bytes : List ℕ) {e : DecErr} (he : Code.arkDecode sr bytes = .error e) :
    e = .encoding := by
  rw [Code.arkDecode_eq] at he; exact C02.decode_error_is_encoding h bytes he

theorem error_is_encoding_mincode (h : SRContract sr) (bytes : List ℕ) {e : DecErr} (he : Code.minDecode sr bytes = .error e) :
    e = .encoding := by
  rw [Code.minDecode_eq] at he; exact C02.decode_error_is_encoding h bytes he

theorem rejects_minus_one_arkcode (h : SRContract sr) (bytes : List ℕ) (hv : leBytes bytes = q - 1) :
    ¬ ∃ c, Code.arkDecode sr bytes = .ok c := by
  rw [Code.arkDecode_eq]; exact C02.rejects_minus_one h bytes hv

theorem rejects_minus_one_mincode (h : SRContract sr) (bytes : List ℕ) (hv : leBytes bytes = q - 1) :
    ¬ ∃ c, Code.minDecode sr bytes = .ok c := by
  rw [Code.minDecode_eq]; exact C02.rejects_minus_one h bytes hv

/-- **every decoding entry point** (`TryFrom<&[u8]>`, `TryFrom<[u8; 32]>`, `TryFrom<Encoding>`, `TryFrom<&Encoding>` for
`Element`, both backends; the lists are regenerated from the `impl` blocks on every run): over the translated decoder of
either backend, slices give exactly `decodeSlice` (same verdict, same element, any other length the length error) and
fixed-size inputs exactly `decode32` -/
theorem entry_points (bytes : List ℕ) :
    (∀ f ∈ (Gen.ConvForms.decodeSliceForms : List (String × ((List ℕ → Except DecErr Ext) → DecErr → DecErr → List ℕ → Except DecErr Ext))),
        f.2 (Code.arkDecode sr) .length .encoding bytes = decodeSlice sr bytes ∧
        f.2 (Code.minDecode sr) .length .encoding bytes = decodeSlice sr bytes) ∧
    (∀ f ∈ (Gen.ConvForms.decodeFixedForms : List (String × ((List ℕ → Except DecErr Ext) → List ℕ → Except DecErr Ext))),
        f.2 (Code.arkDecode sr) bytes = decode32 sr bytes ∧ f.2 (Code.minDecode sr) bytes = decode32 sr bytes) := by
  have hs : ∀ d : List ℕ → Except DecErr Ext, d = decode32 sr →
      (if bytes.length = 32 then d bytes else .error DecErr.length) = decodeSlice sr bytes := by
    intro d hd; subst hd; unfold decodeSlice
    by_cases h : bytes.length = 32 <;> simp [h]
  have ha : Code.arkDecode sr = decode32 sr := by rw [Code.arkDecode_eq]
  have hm : Code.minDecode sr = decode32 sr := by rw [Code.minDecode_eq]
  refine ⟨fun f hf => ⟨?_, ?_⟩, fun f hf => ⟨?_, ?_⟩⟩
  · rw [Formulas.ConvForms.decodeSliceForms_correct f hf]; exact hs _ ha
  · rw [Formulas.ConvForms.decodeSliceForms_correct f hf]; exact hs _ hm
  · rw [Formulas.ConvForms.decodeFixedForms_correct f hf, ha]
  · rw [Formulas.ConvForms.decodeFixedForms_correct f hf, hm]

/-- **stream deserialisation of elements and of affine points** (`CanonicalDeserialize for Element | AffinePoint`, the lists
regenerated from the `impl` blocks on every run) over the translated arkworks decoder: in (Compress::Yes, Validate::Yes)
mode it accepts exactly when `decode32` accepts the first 32 bytes delivered, with the same element; a short stream is
the io error, any rejection `InvalidData`; the other three modes are the `unimplemented!()` panic -/
theorem stream_entry_points (compress validate : Bool) (inp : List ℕ) :
    ∀ f ∈ (Gen.ConvForms.deserElementForms : List (String × ((List ℕ → Except DecErr Ext) → Bool → Bool → List ℕ → Except Gen.ConvForms.SerErr Ext))),
      f.2 (Code.arkDecode sr) compress validate inp =
        if compress && validate then
          (if inp.length < 32 then .error .io else
            match decode32 sr (inp.take 32) with | .ok el => .ok el | .error _ => .error .invalidData)
        else .error .panic := by
  intro f hf
  rw [Formulas.ConvForms.deserElementForms_correct f hf, Code.arkDecode_eq]
  split_ifs <;> first | rfl | (cases decode32 sr (List.take 32 inp) <;> rfl)

/-- `TryFrom<&[u8]> for Encoding`: the 32 bytes themselves, or the length error -/
theorem encoding_of_slice (bytes : List ℕ) :
    ∀ f ∈ (Gen.ConvForms.encodingOfSliceForms : List (String × (DecErr → DecErr → List ℕ → Except DecErr (List ℕ)))),
      f.2 .length .encoding bytes = if bytes.length = 32 then .ok bytes else .error .length :=
  fun f hf => Formulas.ConvForms.encodingOfSliceForms_correct f hf _ _ bytes

end C02.Translated

instantiate_builds C02.Translated.accepts_iff_arkcode ark
instantiate_builds C02.Translated.accepts_iff_mincode min
instantiate_builds C02.Translated.eq_spec_arkcode ark
instantiate_builds C02.Translated.eq_spec_mincode min
instantiate_builds C02.Translated.error_is_encoding_arkcode ark
instantiate_builds C02.Translated.error_is_encoding_mincode min
instantiate_builds C02.Translated.rejects_minus_one_arkcode ark
instantiate_builds C02.Translated.rejects_minus_one_mincode min
