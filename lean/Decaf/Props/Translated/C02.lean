/-
C02 stated about the translated decoders (`Code.arkDecode`, `Code.minDecode`: the bodies of
`Encoding::vartime_decompress` in the two backends, regenerated into Lean on every run).
-/
import Decaf.Props.C02
import Decaf.Lemmas.Formulas.ArkDecompress
import Decaf.Lemmas.Formulas.MinDecompress

namespace C02.Translated
open Model Edwards Decaf

variable {sr : SR}

theorem accepts_iff_arkcode (h : SRContract sr) (bytes : List ℕ) :
    (∃ c, Code.arkDecode sr bytes = .ok c) ↔ leBytes bytes < q ∧ ∃ pt : E, DecSpec (leBytes bytes) pt := by
  rw [Code.arkDecode_eq]; exact C02.decode_accepts_iff h bytes

theorem accepts_iff_mincode (h : SRContract sr) (bytes : List ℕ) :
    (∃ c, Code.minDecode sr bytes = .ok c) ↔ leBytes bytes < q ∧ ∃ pt : E, DecSpec (leBytes bytes) pt := by
  rw [Code.minDecode_eq]; exact C02.decode_accepts_iff h bytes

theorem eq_spec_arkcode (h : SRContract sr) (bytes : List ℕ) {c : Ext} (hc : Code.arkDecode sr bytes = .ok c) :
    ∃ pt : E, ERepr c pt ∧ DecSpec (leBytes bytes) pt ∧ Point.IsEven pt ∧ c.Z = 1 ∧ c.X < q := by
  rw [Code.arkDecode_eq] at hc; exact C02.decode_eq_spec h bytes hc

theorem eq_spec_mincode (h : SRContract sr) (bytes : List ℕ) {c : Ext} (hc : Code.minDecode sr bytes = .ok c) :
    ∃ pt : E, ERepr c pt ∧ DecSpec (leBytes bytes) pt ∧ Point.IsEven pt ∧ c.Z = 1 ∧ c.X < q := by
  rw [Code.minDecode_eq] at hc; exact C02.decode_eq_spec h bytes hc

/-- never a panic: every rejection is the encoding error -/
theorem error_is_encoding_arkcode (h : SRContract sr) (bytes : List ℕ) {e : DecErr} (he : Code.arkDecode sr bytes = .error e) :
    e = .encoding := by
  rw [Code.arkDecode_eq] at he; exact C02.decode_error_is_encoding h bytes he

theorem error_is_encoding_mincode (h : SRContract sr) (bytes : List ℕ) {e : DecErr} (he : Code.minDecode sr bytes = .error e) :
    e = .encoding := by
  rw [Code.minDecode_eq] at he; exact C02.decode_error_is_encoding h bytes he

theorem rejects_minus_one_arkcode (h : SRContract sr) (bytes : List ℕ) (hv : leBytes bytes = q - 1) :
    ¬ ∃ c, Code.arkDecode sr bytes = .ok c := by
  rw [Code.arkDecode_eq]; exact C02.rejects_minus_one h bytes hv

theorem rejects_minus_one_mincode (h : SRContract sr) (bytes : List ℕ) (hv : leBytes bytes = q - 1) :
    ¬ ∃ c, Code.minDecode sr bytes = .ok c := by
  rw [Code.minDecode_eq]; exact C02.rejects_minus_one h bytes hv

end C02.Translated

instantiate_builds C02.Translated.accepts_iff_arkcode ark
instantiate_builds C02.Translated.accepts_iff_mincode min
instantiate_builds C02.Translated.eq_spec_arkcode ark
instantiate_builds C02.Translated.eq_spec_mincode min
instantiate_builds C02.Translated.error_is_encoding_arkcode ark
instantiate_builds C02.Translated.error_is_encoding_mincode min
instantiate_builds C02.Translated.rejects_minus_one_arkcode ark
instantiate_builds C02.Translated.rejects_minus_one_mincode min
