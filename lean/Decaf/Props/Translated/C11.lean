/-
C11 stated about the translated integer conversions of the three fields (`impl From<u128 | u64 | u32 | u16 | u8 | bool> for
Fq | Fr | Fp` in src/fields/{fq,fr,fp}/ops.rs, 18 impl blocks, re-read on every run by translator/extract_opforms.py):
the integer is split into 64-bit limbs (`as u64`, `>> 64`) and handed to `from_le_limbs`; with `from_le_limbs` denoting the
integer of its limbs (its contract, the subject of `C11.from_le_limbs_spec` and of the correspondence check), every form
maps every value of its source type to that integer in the field.
-/
import Decaf.Props.C11
import Decaf.Lemmas.Formulas.OpForms
import Decaf.Lemmas.Formulas.FieldFns

namespace C11.Translated
open Model

theorem from_int_forms {K : Type} [Field K] (fromLimbs : List ℕ → K)
    (hL : ∀ l, fromLimbs l = ((Formulas.FieldOpForms.limbsVal l : ℕ) : K)) (n : ℕ) (hn : n < 2 ^ 128) :
    ∀ f ∈ (Gen.FieldOpForms.fromIntForms : List (String × ((List ℕ → K) → ℕ → K))), f.2 fromLimbs n = (n : K) :=
  fun f hf => Formulas.FieldOpForms.fromIntForms_correct fromLimbs hL f hf n hn

/-- in the three fields, with the canonical `from_le_limbs` (the cast of the limbs' integer) -/
theorem from_int_forms_fq (n : ℕ) (hn : n < 2 ^ 128) :
    ∀ f ∈ (Gen.FieldOpForms.fromIntForms : List (String × ((List ℕ → ZMod q) → ℕ → ZMod q))),
      f.2 (fun l => ((Formulas.FieldOpForms.limbsVal l : ℕ) : ZMod q)) n = (n : ZMod q) :=
  from_int_forms _ (fun _ => rfl) n hn

theorem from_int_forms_fr (n : ℕ) (hn : n < 2 ^ 128) :
    ∀ f ∈ (Gen.FieldOpForms.fromIntForms : List (String × ((List ℕ → ZMod r) → ℕ → ZMod r))),
      f.2 (fun l => ((Formulas.FieldOpForms.limbsVal l : ℕ) : ZMod r)) n = (n : ZMod r) :=
  from_int_forms _ (fun _ => rfl) n hn

theorem from_int_forms_fp (n : ℕ) (hn : n < 2 ^ 128) :
    ∀ f ∈ (Gen.FieldOpForms.fromIntForms : List (String × ((List ℕ → ZMod p) → ℕ → ZMod p))),
      f.2 (fun l => ((Formulas.FieldOpForms.limbsVal l : ℕ) : ZMod p)) n = (n : ZMod p) :=
  from_int_forms _ (fun _ => rfl) n hn

/-! ### the byte-level wrappers (`from_bytes_checked`, `from_le_bytes_mod_order`, `to_bytes` of `Fq`, `Fr`, `Fp`; bodies
regenerated on every run by translator/extract_fieldfns.py) -/

/-- **checked parsing accepts exactly the integers below the modulus**, on the translated code of all three fields -/
theorem from_bytes_checked_iff (bs : List ℕ) (hb : ∀ b ∈ bs, b < 256) (v : ℕ) :
    (bs.length = 32 → (Code.fqFromBytesChecked bs = some v ↔ leBytes bs < q ∧ v = leBytes bs)) ∧
    (bs.length = 32 → (Code.frFromBytesChecked bs = some v ↔ leBytes bs < r ∧ v = leBytes bs)) ∧
    (bs.length = 48 → (Code.fpFromBytesChecked bs = some v ↔ leBytes bs < p ∧ v = leBytes bs)) := by
  unfold Code.fqFromBytesChecked Code.frFromBytesChecked Code.fpFromBytesChecked
  rw [Formulas.FieldFns.fq_from_bytes_checked_eq, Formulas.FieldFns.fr_from_bytes_checked_eq, Formulas.FieldFns.fp_from_bytes_checked_eq]
  exact C11.from_bytes_checked_iff bs hb v

/-- **reduction of byte strings of any length is the integer modulo the modulus**, on the translated code -/
theorem from_le_bytes_mod_order_spec (bs : List ℕ) :
    Code.fqFromLeBytesModOrder bs = leBytes bs % q ∧ Code.frFromLeBytesModOrder bs = leBytes bs % r ∧
    Code.fpFromLeBytesModOrder bs = leBytes bs % p := by
  unfold Code.fqFromLeBytesModOrder Code.frFromLeBytesModOrder Code.fpFromLeBytesModOrder
  rw [Formulas.FieldFns.fq_from_le_bytes_mod_order_eq, Formulas.FieldFns.fr_from_le_bytes_mod_order_eq,
    Formulas.FieldFns.fp_from_le_bytes_mod_order_eq]
  exact C11.from_le_bytes_mod_order_spec bs

/-- **`to_bytes` emits the canonical little-endian form, which the translated checked parser reads back** -/
theorem to_bytes_canonical (x : ℕ) :
    (x < q → (Code.fqToBytes x).length = 32 ∧ leBytes (Code.fqToBytes x) = x ∧ Code.fqFromBytesChecked (Code.fqToBytes x) = some x) ∧
    (x < r → (Code.frToBytes x).length = 32 ∧ leBytes (Code.frToBytes x) = x ∧ Code.frFromBytesChecked (Code.frToBytes x) = some x) ∧
    (x < p → (Code.fpToBytes x).length = 48 ∧ leBytes (Code.fpToBytes x) = x ∧ Code.fpFromBytesChecked (Code.fpToBytes x) = some x) := by
  unfold Code.fqFromBytesChecked Code.frFromBytesChecked Code.fpFromBytesChecked Code.fqToBytes Code.frToBytes Code.fpToBytes
  simp only [Formulas.FieldFns.fq_from_bytes_checked_eq, Formulas.FieldFns.fr_from_bytes_checked_eq, Formulas.FieldFns.fp_from_bytes_checked_eq,
    Formulas.FieldFns.fq_to_bytes_eq, Formulas.FieldFns.fr_to_bytes_eq, Formulas.FieldFns.fp_to_bytes_eq]
  exact C11.to_bytes_canonical x

end C11.Translated
