/-
C11 stated about the translated integer conversions of the three fields (`impl From<u128 | u64 | u32 | u16 | u8 | bool> for
Fq | Fr | Fp` in src/fields/{fq,fr,fp}/ops.rs, 18 impl blocks, re-read on every run by translator/extract_opforms.py):
the integer is split into 64-bit limbs (`as u64`, `>> 64`) and handed to `from_le_limbs`; with `from_le_limbs` denoting the
integer of its limbs (its contract, the subject of `C11.from_le_limbs_spec` and of the correspondence check), every form
maps every value of its source type to that integer in the field.
-/
import Decaf.Props.C11
import Decaf.Lemmas.Formulas.OpForms

namespace C11.Translated
open Model

theorem from_int_forms {K : Type} [Field K] (fromLimbs : List ℕ → K)
    (hL : ∀ l, fromLimbs l = ((Formulas.FieldOpForms.limbsVal l : ℕ) : K)) (n : ℕ) (hn : n < 2 ^ 128) :
    ∀ f ∈ (Gen.FieldOpForms.fromIntForms : List (String × ((List ℕ → K) → ℕ → K))), f.2 fromLimbs n = (n : K) :=
  fun f hf => Formulas.FieldOpForms.fromIntForms_correct fromLimbs hL f hf n hn

/-- in the three fields, with the canonical `from_le_limbs` (the cast of the limbs' integer) -/
theorem from_int_forms_fq (n : ℕ) (hn : n < 2 ^ 128) :
    ∀ f ∈ (Gen.FieldOpForms.fromIntForms : List (String × ((List ℕ → ZMod q) → ℕ → ZMod q))),
      f.2 (fun l => ((Formulas.FieldOpForms.limbsVal l : ℕ) : ZMod q)) n = (n : ZMod q) :=
  from_int_forms _ (fun _ => rfl) n hn

theorem from_int_forms_fr (n : ℕ) (hn : n < 2 ^ 128) :
    ∀ f ∈ (Gen.FieldOpForms.fromIntForms : List (String × ((List ℕ → ZMod r) → ℕ → ZMod r))),
      f.2 (fun l => ((Formulas.FieldOpForms.limbsVal l : ℕ) : ZMod r)) n = (n : ZMod r) :=
  from_int_forms _ (fun _ => rfl) n hn

theorem from_int_forms_fp (n : ℕ) (hn : n < 2 ^ 128) :
    ∀ f ∈ (Gen.FieldOpForms.fromIntForms : List (String × ((List ℕ → ZMod p) → ℕ → ZMod p))),
      f.2 (fun l => ((Formulas.FieldOpForms.limbsVal l : ℕ) : ZMod p)) n = (n : ZMod p) :=
  from_int_forms _ (fun _ => rfl) n hn

end C11.Translated
