/-
C13 stated about the translated gadget bodies (`Code.r1cs*`: the bodies of `ElementVar::compress_to_field`,
`decompress_from_field`, `elligator_map`, `EqGadget::is_eq` and `FqVarExtension::isqrt`, regenerated into Lean on
every run), honest synthesis (`h = none`).
-/
import Decaf.Props.C13
import Decaf.Lemmas.Formulas.R1cs
import Decaf.Lemmas.Formulas.Lazy
import Decaf.Lemmas.Formulas.OpForms

namespace C13.Translated
open Model Edwards Decaf

theorem isqrt_complete {x : ℕ} (hx : x < q) :
    ∃ f y, sqrtRatioArk 1 x = some (f, y) ∧ Code.r1csIsqrt x none = (true, f, y) := by
  rw [Code.r1csIsqrt_eq]; exact C13.isqrt_complete hx

/-- on a constant input the gadget emits nothing and returns the native pair -/
theorem isqrt_const_complete {x : ℕ} (hx : x < q) :
    ∃ f y, sqrtRatioArk 1 x = some (f, y) ∧ Code.r1csIsqrtConst x = (true, f, y) := by
  obtain ⟨f, y, hs, _⟩ := sarkar_contract.total 1 x one_lt_q hx
  refine ⟨f, y, hs, ?_⟩
  rw [Code.r1csIsqrtConst_eq]
  unfold R1cs.honest
  rw [hs]; rfl

theorem compress_complete (x y : ℕ) :
    ∃ s, Ext.encodeField sqrtRatioArk (Ext.ofAffine (x, y)) = some s ∧ Code.r1csCompress x y none = (true, s) := by
  rw [Code.r1csCompress_eq]; exact C13.compress_complete x y

theorem elligator_complete (r0 : ℕ) :
    ∃ c P, elligator sqrtRatioArk ZETA r0 = some c ∧ ERepr c P ∧ (Code.r1csElligator r0 none).1 = true ∧
      P.x = (((Code.r1csElligator r0 none).2.1 : ℕ) : Fq) ∧ P.y = (((Code.r1csElligator r0 none).2.2 : ℕ) : Fq) := by
  rw [Code.r1csElligator_eq]; exact C13.elligator_complete r0

theorem decompress_complete_iff {s : ℕ} (hs : s < q) :
    ((Code.r1csDecompress s none).1 = true ↔ ∃ c, decodeField sqrtRatioArk s = .ok c) ∧
    (∀ c, decodeField sqrtRatioArk s = .ok c → (Code.r1csDecompress s none).2 = (c.X, c.Y)) := by
  rw [Code.r1csDecompress_eq]; exact C13.decompress_complete_iff hs

theorem isEq_gadget {a b : ℕ × ℕ} {P Q : E} (ha : C13.AffRep a P) (hb : C13.AffRep b Q) :
    Code.r1csIsEq a b = true ↔ Point.Coset P Q := by
  rw [Code.r1csIsEq_eq]; exact C13.isEq_gadget ha hb

/-- witness allocation (the translated `AllocationMode::Witness` arm of `AllocVar<Element>`): complete for every affine
representative of every group element, and the variable handed back carries a point of the same coset -/
theorem allocWitness_complete {px py : ℕ} {P : E} (hr : ERepr (Ext.ofAffine (px, py)) P) (he : Point.IsEven P) :
    ∃ P', (Code.r1csAllocWitness px py none).1 = true ∧ C13.AffRep (Code.r1csAllocWitness px py none).2 P' ∧ Point.Coset P P' := by
  rw [Code.r1csAllocWitness_eq]; exact C13.allocWitness_complete hr he

/-- the operator forms of the gadget variables (`impl Add/Sub/…Assign for ElementVar`, with `ElementVar` and with constant
`Element` operands, in src/ark_curve/r1cs/{ops,inner}.rs; entries of the regenerated lists labelled `r1cs/…`) carry the
group sum / difference of the carried values — the same denotation as the native forms in the same lists (C04) -/
theorem gadget_operator_forms (P Q : E) :
    (∀ f ∈ (Gen.OpForms.addForms : List (String × (E → E → E))), f.2 P Q = P + Q) ∧
    (∀ f ∈ (Gen.OpForms.subForms : List (String × (E → E → E))), f.2 P Q = P - Q) :=
  ⟨fun f hf => Formulas.OpForms.addForms_correct f hf P Q, fun f hf => Formulas.OpForms.subForms_correct f hf P Q⟩

/-! ### the lazily evaluated variable, on the translated `LazyElementVar::element` / `::encoding` -/

/-- a sequence of forcings through the translated bodies (one hint per emitted gadget) -/
def runCode : List R1cs.Force → R1cs.Lazy → List R1cs.Hint → R1cs.Lazy × List R1cs.Emitted
  | [], st, _ => (st, [])
  | f :: fs, st, hs =>
    let r := Code.lazyStep st f (hs.headD none)
    let hs' := if r.2.1 = .nothing then hs else hs.drop 1
    let rest := runCode fs r.1 hs'
    (rest.1, r.2.1 :: rest.2)

theorem runCode_eq (fs : List R1cs.Force) (st : R1cs.Lazy) (hs : List R1cs.Hint) : runCode fs st hs = C13.run fs st hs := by
  induction fs generalizing st hs with
  | nil => rfl
  | cons f fs ih => simp only [runCode, C13.run, Code.lazyStep_eq, ih]

/-- **at most one gadget is ever synthesised** by the translated code, for every order and number of forcings -/
theorem lazy_emits_at_most_once (fs : List R1cs.Force) (st : R1cs.Lazy) (hs : List R1cs.Hint) :
    ((runCode fs st hs).2.filter (· ≠ .nothing)).length ≤ 1 := by
  rw [runCode_eq]; exact C13.lazy_emits_at_most_once fs st hs

/-- a value, once defined, is never changed by a later forcing of the translated code -/
theorem lazy_preserves_values (st : R1cs.Lazy) (f : R1cs.Force) (h : R1cs.Hint) :
    (∀ s, st.encVal = some s → (Code.lazyStep st f h).1.encVal = some s) ∧
    (∀ p, st.elemVal = some p → (Code.lazyStep st f h).1.elemVal = some p) := by
  rw [Code.lazyStep_eq]; exact C13.step_preserves_values st f h

/-- what `element()` / `encoding()` hand back is the value now stored in the variable -/
theorem lazy_returns_stored (st : R1cs.Lazy) (h : R1cs.Hint) :
    (Code.lazyStep st .elem h).1.elemVal = some (Gen.Lazy.element st h).2.2.2 ∧
    (Code.lazyStep st .enc h).1.encVal = some (Gen.Lazy.encoding st h).2.2.2 := by
  rw [Code.lazyStep_eq]; exact ⟨Code.lazy_element_value st h, Code.lazy_encoding_value st h⟩

/-- forcing the element of a variable made from an encoding synthesises exactly the translated decoding gadget on it,
and forcing the encoding of a variable made from an element exactly the translated encoding gadget -/
theorem lazy_forces_gadget (s x y : ℕ) (h : R1cs.Hint) :
    Code.lazyStep (.enc s) .elem h = (.both s (Code.r1csDecompress s h).2.1 (Code.r1csDecompress s h).2.2, .decompress, (Code.r1csDecompress s h).1) ∧
    Code.lazyStep (.elem x y) .enc h = (.both (Code.r1csCompress x y h).2 x y, .compress, (Code.r1csCompress x y h).1) := by
  rw [Code.lazyStep_eq, Code.r1csDecompress_eq, Code.r1csCompress_eq]
  constructor
  · simp only [R1cs.Lazy.step]
  · simp only [R1cs.Lazy.step]

end C13.Translated
