/-
C13 stated about the translated gadget bodies (`Code.r1cs*`: the bodies of `ElementVar::compress_to_field`,
`decompress_from_field`, `elligator_map`, `EqGadget::is_eq` and `FqVarExtension::isqrt`, regenerated into Lean on
every run), honest synthesis (`h = none`).
-/
import Decaf.Props.C13
import Decaf.Lemmas.Formulas.R1cs
import Decaf.Lemmas.Formulas.OpForms

namespace C13.Translated
open Model Edwards Decaf

theorem isqrt_complete {x : ℕ} (hx : x < q) :
    ∃ f y, sqrtRatioArk 1 x = some (f, y) ∧ Code.r1csIsqrt x none = (true, f, y) := by
  rw [Code.r1csIsqrt_eq]; exact C13.isqrt_complete hx

/-- on a constant input the gadget emits nothing and returns the native pair -/
theorem isqrt_const_complete {x : ℕ} (hx : x < q) :
    ∃ f y, sqrtRatioArk 1 x = some (f, y) ∧ Code.r1csIsqrtConst x = (true, f, y) := by
  obtain ⟨f, y, hs, _⟩ := sarkar_contract.total 1 x one_lt_q hx
  refine ⟨f, y, hs, ?_⟩
  rw [Code.r1csIsqrtConst_eq]
  unfold R1cs.honest
  rw [hs]; rfl

theorem compress_complete (x y : ℕ) :
    ∃ s, Ext.encodeField sqrtRatioArk (Ext.ofAffine (x, y)) = some s ∧ Code.r1csCompress x y none = (true, s) := by
  rw [Code.r1csCompress_eq]; exact C13.compress_complete x y

theorem elligator_complete (r0 : ℕ) :
    ∃ c P, elligator sqrtRatioArk ZETA r0 = some c ∧ ERepr c P ∧ (Code.r1csElligator r0 none).1 = true ∧
      P.x = (((Code.r1csElligator r0 none).2.1 : ℕ) : Fq) ∧ P.y = (((Code.r1csElligator r0 none).2.2 : ℕ) : Fq) := by
  rw [Code.r1csElligator_eq]; exact C13.elligator_complete r0

theorem decompress_complete_iff {s : ℕ} (hs : s < q) :
    ((Code.r1csDecompress s none).1 = true ↔ ∃ c, decodeField sqrtRatioArk s = .ok c) ∧
    (∀ c, decodeField sqrtRatioArk s = .ok c → (Code.r1csDecompress s none).2 = (c.X, c.Y)) := by
  rw [Code.r1csDecompress_eq]; exact C13.decompress_complete_iff hs

theorem isEq_gadget {a b : ℕ × ℕ} {P Q : E} (ha : C13.AffRep a P) (hb : C13.AffRep b Q) :
    Code.r1csIsEq a b = true ↔ Point.Coset P Q := by
  rw [Code.r1csIsEq_eq]; exact C13.isEq_gadget ha hb

/-- witness allocation (the translated `AllocationMode::Witness` arm of `AllocVar<Element>`): complete for every affine
representative of every group element, and the variable handed back carries a point of the same coset -/
theorem allocWitness_complete {px py : ℕ} {P : E} (hr : ERepr (Ext.ofAffine (px, py)) P) (he : Point.IsEven P) :
    ∃ P', (Code.r1csAllocWitness px py none).1 = true ∧ C13.AffRep (Code.r1csAllocWitness px py none).2 P' ∧ Point.Coset P P' := by
  rw [Code.r1csAllocWitness_eq]; exact C13.allocWitness_complete hr he

/-- the operator forms of the gadget variables (`impl Add/Sub/…Assign for ElementVar`, with `ElementVar` and with constant
`Element` operands, in src/ark_curve/r1cs/{ops,inner}.rs; entries of the regenerated lists labelled `r1cs/…`) carry the
group sum / difference of the carried values — the same denotation as the native forms in the same lists (C04) -/
theorem gadget_operator_forms (P Q : E) :
    (∀ f ∈ (Gen.OpForms.addForms : List (String × (E → E → E))), f.2 P Q = P + Q) ∧
    (∀ f ∈ (Gen.OpForms.subForms : List (String × (E → E → E))), f.2 P Q = P - Q) :=
  ⟨fun f hf => Formulas.OpForms.addForms_correct f hf P Q, fun f hf => Formulas.OpForms.subForms_correct f hf P Q⟩

end C13.Translated
