/-
C05 stated about the ladder of the minimal backend run over the translated formulas (`Code.minAdd`, `Code.minDouble`).
The ladder itself (`scalar_mul_both`, a loop over the bits of the limbs) is the hand-written `ladderLsbAux`, tied to
the code by the correspondence check.
-/
import Decaf.Props.C05
import Decaf.Lemmas.Formulas.MinAdd
import Decaf.Lemmas.Formulas.MinDouble
import Decaf.Lemmas.Formulas.OpForms
import Decaf.Lemmas.Formulas.Ladder

namespace C05.Translated
open Model Edwards

/-- `scalar_mul_both` over the translated `add` and `double` -/
def scalarMulCode (p : Ext) (limbs : List ℕ) : Ext :=
  Ext.ladderLsbAux Code.minAdd Code.minDouble (limbsBits limbs) Ext.identity p

theorem scalarMulCode_eq (p : Ext) (limbs : List ℕ) : scalarMulCode p limbs = p.scalarMulMin limbs := by
  unfold scalarMulCode Ext.scalarMulMin
  rw [Code.minAdd_eq, Code.minDouble_eq]

theorem scalarMul_correct {c : Ext} {p : E} (h : ERepr c p) (limbs : List ℕ) (hl : ∀ l ∈ limbs, l < 2 ^ 64) :
    ERepr (scalarMulCode c limbs) (Lit.ofLimbs 64 limbs • p) := by
  rw [scalarMulCode_eq]; exact C05.scalarMulMin_correct h limbs hl

/-- r times any group element is the identity, as the implementation's own equality test sees it -/
theorem order_dvd {c : Ext} {P : E} (h : ERepr c P) (he : Point.IsEven P) :
    Ext.eq Ext.identity (scalarMulCode c C05.rLimbs) = true := by
  rw [scalarMulCode_eq]; exact (C05.order_dvd_eq h he).1

/-- agreement with the arkworks ladder -/
theorem ladders_agree {c : Ext} {p : E} (h : ERepr c p) (limbs : List ℕ) (hl : ∀ l ∈ limbs, l < 2 ^ 64) :
    Ext.eq (scalarMulCode c limbs) (c.scalarMulRef limbs) = true := by
  rw [scalarMulCode_eq]; exact C05.ladders_agree h limbs hl

/-! the translated ladder itself (`scalar_mul_both` as loop skeleton + translated body; `scalar_mul` = constant-time,
`scalar_mul_vartime` = variable-time instance) -/

theorem scalar_mul_correct {c : Ext} {p : E} (h : ERepr c p) (limbs : List ℕ) (hl : ∀ l ∈ limbs, l < 2 ^ 64) :
    ERepr (Code.minScalarMul c limbs) (Lit.ofLimbs 64 limbs • p) ∧ ERepr (Code.minScalarMulVartime c limbs) (Lit.ofLimbs 64 limbs • p) := by
  rw [Code.minScalarMul_eq, Code.minScalarMulVartime_eq]
  exact ⟨C05.scalarMulMin_correct h limbs hl, C05.scalarMulMin_correct h limbs hl⟩

/-- the constant-time and the variable-time instance return the same quadruple, for every limb list of any length -/
theorem ct_vartime_agree (c : Ext) (limbs : List ℕ) : Code.minScalarMul c limbs = Code.minScalarMulVartime c limbs := by
  rw [Code.minScalarMul_eq, Code.minScalarMulVartime_eq]

theorem scalar_mul_order {c : Ext} {P : E} (h : ERepr c P) (he : Point.IsEven P) :
    Ext.eq Ext.identity (Code.minScalarMulVartime c C05.rLimbs) = true := by
  rw [Code.minScalarMulVartime_eq]; exact (C05.order_dvd_eq h he).1

/-- every `Mul` / `MulAssign` form (element × scalar and scalar × element, owned / borrowed, affine and projective, both
backends; list regenerated from the sources on every run) denotes the module action -/
theorem mul_forms (k : ℕ) (P : E) :
    ∀ f ∈ (Gen.OpForms.mulForms : List (String × (ℕ → E → E))), f.2 k P = k • P :=
  fun f hf => Formulas.OpForms.mulForms_correct f hf k P

/-- **multi-scalar multiplication is the sum of the products**: `Element::vartime_multiscalar_mul` (body regenerated on every
run) returns Σ kᵢ • Pᵢ over the pairs its `zip` forms, and every `impl Sum<…> for Element` the group sum of what its iterator
yields (the empty sum is the identity) -/
theorem msm_forms (ks : List ℕ) (Ps : List E) :
    (∀ f ∈ (Gen.OpForms.msmForms : List (String × (List ℕ → List E → E))),
      f.2 ks Ps = (List.zipWith (fun k P => k • P) ks Ps).sum) ∧
    (∀ f ∈ (Gen.OpForms.gsumForms : List (String × (List E → E))), f.2 Ps = Ps.sum) := by
  refine ⟨fun f hf => ?_, fun f hf => Formulas.OpForms.gsumForms_correct f hf Ps⟩
  rw [Formulas.OpForms.msmForms_correct f hf, List.map_zip_eq_zipWith]
  rfl

end C05.Translated
