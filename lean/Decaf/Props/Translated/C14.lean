/-
C14 stated about the translated gadget bodies (`Code.r1cs*`, regenerated from src/ark_curve/r1cs/{inner,fqvar_ext}.rs
on every run): whatever witness values `(f, y)` the prover supplies for the inverse square root.
-/
import Decaf.Props.C14
import Decaf.Lemmas.Formulas.R1cs

namespace C14.Translated
open Model Edwards Decaf

theorem isqrt_sound {x : ℕ} (hx : x < q) (hx0 : x ≠ 0) (f : Bool) (y : ℕ) (hy : y < q)
    (hsat : (Code.r1csIsqrt x (some (f, y))).1 = true) :
    (f = true ↔ IsSquare (x : Fq)) ∧ (y : Fq) ^ 2 * (x : Fq) = if f then 1 else (ZETA : Fq) := by
  rw [Code.r1csIsqrt_eq] at hsat; exact C14.isqrt_sound hx hx0 f y hy hsat

/-- the exact set of accepted hints at den = 0 (the known finding: (true, ±1) is accepted) -/
theorem isqrt_rel_zero (f : Bool) (y : ℕ) (hy : y < q) :
    (Code.r1csIsqrt 0 (some (f, y))).1 = true ↔ (f = false ∧ y = 0) ∨ (f = true ∧ (y : Fq) ^ 2 = 1) := by
  rw [Code.r1csIsqrt_eq]; exact C14.isqrt_rel_zero f y hy

theorem compress_sound {x y : ℕ} (hx : x < q) {P : E} (hr : ERepr (Ext.ofAffine (x, y)) P) (he : Point.IsEven P)
    (f : Bool) (v : ℕ) (hv : v < q) (hsat : (Code.r1csCompress x y (some (f, v))).1 = true) :
    Ext.encodeField sqrtRatioArk (Ext.ofAffine (x, y)) = some (Code.r1csCompress x y (some (f, v))).2 := by
  rw [Code.r1csCompress_eq] at hsat ⊢; exact C14.compress_sound hx hr he f v hv hsat

theorem elligator_sound (r0 : ℕ) (f : Bool) (v : ℕ) (hv : v < q) (hsat : (Code.r1csElligator r0 (some (f, v))).1 = true) :
    ∃ c P, elligator sqrtRatioArk ZETA r0 = some c ∧ ERepr c P ∧
      P.x = (((Code.r1csElligator r0 (some (f, v))).2.1 : ℕ) : Fq) ∧ P.y = (((Code.r1csElligator r0 (some (f, v))).2.2 : ℕ) : Fq) := by
  rw [Code.r1csElligator_eq] at hsat ⊢; exact C14.elligator_sound r0 f v hv hsat

theorem decompress_sound_except_minus_one {s : ℕ} (hs : s < q) (hne : s ≠ q - 1) (f : Bool) (y : ℕ) (hy : y < q)
    {X Y : ℕ} (hsat : Code.r1csDecompress s (some (f, y)) = (true, X, Y)) :
    DecodesTo params paritySign ((s : ℕ) : Fq) ((X : ℕ) : Fq) ((Y : ℕ) : Fq) := by
  rw [Code.r1csDecompress_eq] at hsat; exact C14.decompress_sound_except_minus_one hs hne f y hy hsat

/-- the known finding, on the translated code: s = q - 1 with the forged hint (true, 1) is accepted -/
theorem decode_unsound_at_minus_one : Code.r1csDecompress (q - 1) (some (true, 1)) = (true, 0, 0) := by
  rw [Code.r1csDecompress_eq]; exact C14.decode_unsound_at_minus_one

end C14.Translated
