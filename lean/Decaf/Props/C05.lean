/-
C05 — Scalar multiplication is the Z/r-module action; all elements have order | r.

Proved for every limb list (any length, limbs < 2^64 as the type `u64` guarantees): both ladders compute
`(Σ limbsᵢ·2^{64i}) • P`; for scalars given as field elements, `k • P`; multi-scalar products are the sum of the
products.  The generator's order is exactly r in the quotient by ⟨T2⟩ (kernel evaluation of the ladder + primality
of r).  `order_dvd` ("r • P is the identity for every group element") is proved in full, without point counting:
|E| ∈ {4r, 8r} from elementary bounds, no point of order 8, hence 4r kills E and r kills 𝔾 modulo T2 (DESIGN.md §5.7).
-/
import Decaf.Lemmas.Order
import Decaf.Props.C04

namespace C05
open Model Edwards

theorem ofLimbs_toLimbs (x n : ℕ) (h : x < 2 ^ (64 * n)) : Lit.ofLimbs 64 (toLimbs 64 x n) = x := by
  induction n generalizing x with
  | zero =>
    have : x = 0 := by simpa using h
    subst this; rfl
  | succ n ih =>
    simp only [toLimbs, Lit.ofLimbs]
    have hx : x / 2 ^ 64 < 2 ^ (64 * n) := by
      rw [Nat.div_lt_iff_lt_mul (by positivity)]
      calc x < 2 ^ (64 * (n + 1)) := h
        _ = 2 ^ (64 * n) * 2 ^ 64 := by rw [← pow_add, Nat.mul_succ]
    rw [ih _ hx]
    exact Nat.mod_add_div x (2 ^ 64)

theorem toLimbs_lt (x n : ℕ) : ∀ l ∈ toLimbs 64 x n, l < 2 ^ 64 := by
  induction n generalizing x with
  | zero => intro l hl; simp [toLimbs] at hl
  | succ n ih =>
    intro l hl
    simp only [toLimbs, List.mem_cons] at hl
    rcases hl with rfl | hl
    · exact Nat.mod_lt _ (by positivity)
    · exact ih _ l hl

/-- minimal backend (`scalar_mul_both`, both the constant-time and the variable-time instance): LSB-first ladder -/
theorem scalarMulMin_correct {c : Ext} {p : E} (h : ERepr c p) (limbs : List ℕ) (hl : ∀ l ∈ limbs, l < 2 ^ 64) :
    ERepr (c.scalarMulMin limbs) (Lit.ofLimbs 64 limbs • p) := by
  have := ladderLsb_repr Ext.addMin Ext.doubleMin (fun _ _ _ _ => addMin_repr) (fun _ _ => doubleMin_repr)
    (limbsBits limbs) Ext.identity c 0 p identity_repr h
  rw [zero_add, bitsVal_limbsBits limbs hl] at this
  exact this

/-- arkworks backend (`mul_bigint` over the limbs, MSB first, leading zeros skipped) -/
theorem scalarMulRef_correct {c : Ext} {p : E} (h : ERepr c p) (limbs : List ℕ) (hl : ∀ l ∈ limbs, l < 2 ^ 64) :
    ERepr (c.scalarMulRef limbs) (Lit.ofLimbs 64 limbs • p) := by
  have h0 : ERepr Ext.identity ((0 : ℕ) • p) := by rw [zero_smul]; exact identity_repr
  have := ladderMsb_repr Ext.addRef Ext.doubleRef (fun _ _ _ _ => addRef_repr) (fun _ _ => doubleRef_repr) c p h
    ((limbsBits limbs).reverse.dropWhile (· == false)) Ext.identity 0 h0
  rw [bitsValMsb_dropWhile, bitsValMsb_reverse, bitsVal_limbsBits limbs hl] at this
  exact this

/-- both ladders agree on every integer of every length -/
theorem ladders_agree {c : Ext} {p : E} (h : ERepr c p) (limbs : List ℕ) (hl : ∀ l ∈ limbs, l < 2 ^ 64) :
    Ext.eq (c.scalarMulMin limbs) (c.scalarMulRef limbs) = true :=
  C04.eq_of_repr_same (scalarMulMin_correct h limbs hl) (scalarMulRef_correct h limbs hl)

/-- multiplication by a scalar-field element `k < r` (as `Mul<Fr>`: through its four little-endian limbs) -/
theorem mul_fr_correct {c : Ext} {p : E} (h : ERepr c p) (k : ℕ) (hk : k < r) :
    ERepr (c.scalarMulMin (toLimbs 64 k 4)) (k • p) ∧ ERepr (c.scalarMulRef (toLimbs 64 k 4)) (k • p) := by
  have hr : r < 2 ^ (64 * 4) := by rw [_root_.C17.r_val]; norm_num
  have e := ofLimbs_toLimbs k 4 (lt_trans hk hr)
  constructor
  · have := scalarMulMin_correct h (toLimbs 64 k 4) (toLimbs_lt k 4); rwa [e] at this
  · have := scalarMulRef_correct h (toLimbs 64 k 4) (toLimbs_lt k 4); rwa [e] at this

/-- multi-scalar multiplication (`vartime_multiscalar_mul`: fold of `acc + kᵢ * Pᵢ`) is the sum of the products -/
theorem msm_correct (cs : List Ext) (ps : List E) (ks : List ℕ) (h : List.Forall₂ ERepr cs ps)
    (hk : ∀ k ∈ ks, k < r) (hlen : ks.length = cs.length) :
    ERepr ((List.zip ks cs).foldl (fun acc kc => Ext.addMin acc (kc.2.scalarMulMin (toLimbs 64 kc.1 4))) Ext.identity)
      ((List.zipWith (fun k p => k • p) ks ps).sum) := by
  suffices ∀ (acc : Ext) (pa : E), ERepr acc pa →
      ERepr ((List.zip ks cs).foldl (fun acc kc => Ext.addMin acc (kc.2.scalarMulMin (toLimbs 64 kc.1 4))) acc)
        (pa + (List.zipWith (fun k p => k • p) ks ps).sum) by
    simpa using this _ _ identity_repr
  induction h generalizing ks with
  | nil => intro acc pa ha; cases ks <;> simpa using ha
  | cons hab _ ih =>
    intro acc pa ha
    cases ks with
    | nil => simp at hlen
    | cons k ks =>
      simp only [List.zip_cons_cons, List.foldl_cons, List.zipWith_cons_cons, List.sum_cons]
      rw [← add_assoc]
      apply ih ks (fun x hx => hk x (List.mem_cons_of_mem _ hx)) (by simpa using hlen)
      exact addMin_repr ha (mul_fr_correct hab k (hk k List.mem_cons_self)).1

/-! ### the order of the generator -/

def rLimbs : List ℕ := toLimbs 64 r 4
def genExt : Ext := ⟨C17.bx, C17.by', 1, C17.bt⟩

/-- kernel evaluation of the ladder: r · B has X = 0, and B itself does not -/
theorem r_mul_gen_isIdentity : Ext.isIdentity (genExt.scalarMulMin rLimbs) = true := by decide +kernel
theorem gen_not_identity : Ext.isIdentity genExt = false := by decide +kernel

theorem r_smul_gen : Point.Coset 0 (r • C04.genPoint) := by
  have hr : r < 2 ^ (64 * 4) := by rw [_root_.C17.r_val]; norm_num
  have h := scalarMulMin_correct C04.gen_repr rLimbs (toLimbs_lt r 4)
  rw [show rLimbs = toLimbs 64 r 4 from rfl, ofLimbs_toLimbs r 4 hr] at h
  have hX : (Ext.scalarMulMin ⟨C17.bx, C17.by', 1, C17.bt⟩ (toLimbs 64 r 4)).X < q := by decide +kernel
  exact (isIdentity_iff h hX).mp r_mul_gen_isIdentity

theorem gen_ne_identity : ¬ Point.Coset 0 C04.genPoint := by
  intro h
  have hX : C17.bx < q := by decide +kernel
  have := (isIdentity_iff C04.gen_repr hX).mpr h
  rw [show (⟨C17.bx, C17.by', 1, C17.bt⟩ : Ext) = genExt from rfl, gen_not_identity] at this
  exact absurd this (by simp)

/-- in the decaf377 group E/⟨T2⟩ ⊇ 𝔾/⟨T2⟩ the generator has order exactly r:
`k • B` is in the identity coset iff `r ∣ k` -/
theorem generator_order (k : ℕ) : Point.Coset 0 (k • C04.genPoint) ↔ r ∣ k := by
  -- work in the quotient by the subgroup {0, T2}
  let H : AddSubgroup E := AddSubgroup.zmultiples (Point.T2 : E)
  have memH : ∀ x : E, x ∈ H ↔ Point.Coset 0 x := by
    intro x
    constructor
    · intro hx
      obtain ⟨n, rfl⟩ := AddSubgroup.mem_zmultiples_iff.mp hx
      have h2 : (2 : ℤ) • (Point.T2 : E) = 0 := by rw [two_zsmul]; exact Point.T2_add_T2
      rcases Int.emod_two_eq_zero_or_one n with h | h
      · left
        have : n = 2 * (n / 2) := by omega
        rw [this, mul_comm, mul_smul, h2, smul_zero]
      · right
        have : n = 2 * (n / 2) + 1 := by omega
        rw [this, add_smul, mul_comm, mul_smul, h2, smul_zero, one_smul, zero_add]
    · rintro (rfl | rfl)
      · exact H.zero_mem
      · rw [zero_add]; exact AddSubgroup.mem_zmultiples _
  have hq : ∀ n : ℕ, Point.Coset 0 (n • C04.genPoint) ↔ n • (QuotientAddGroup.mk C04.genPoint : E ⧸ H) = 0 := by
    intro n
    rw [← memH, ← QuotientAddGroup.eq_zero_iff]; rfl
  rw [hq]
  have hord : addOrderOf (QuotientAddGroup.mk C04.genPoint : E ⧸ H) = r := by
    have hdvd : addOrderOf (QuotientAddGroup.mk C04.genPoint : E ⧸ H) ∣ r :=
      addOrderOf_dvd_of_nsmul_eq_zero ((hq r).mp r_smul_gen)
    rcases (Nat.dvd_prime prime_r).mp hdvd with h1 | h1
    · exfalso
      apply gen_ne_identity
      have := AddMonoid.addOrderOf_eq_one_iff.mp h1
      have := (hq 1).mpr (by rw [one_smul]; exact this)
      rwa [one_smul] at this
    · exact h1
  rw [← hord]
  exact addOrderOf_dvd_iff_nsmul_eq_zero.symm

/-! ### every element has order dividing r (DESIGN.md §5.7, no point counting)

E(Fq) has at most 2q points, a point of order 4 and (by the two kernel facts above) a point of order r, hence
|E| ∈ {4r, 8r}; it has no point of order 8 because 1 + d is not a square; so 4r kills E, and r maps the even
subgroup 𝔾 — the points group elements are made of (C06) — into the identity coset {O, T2}. -/

theorem card_E : Fintype.card E = 4 * r ∨ Fintype.card E = 8 * r := card_E_cases r_smul_gen gen_ne_identity

theorem exponent_E (P : E) : (4 * r) • P = 0 := four_r_nsmul r_smul_gen gen_ne_identity P

/-- **r times any group element is the identity element** -/
theorem order_dvd {P : E} (he : Point.IsEven P) : Point.Coset 0 (r • P) := r_nsmul_even r_smul_gen gen_ne_identity he

/-- the same through the implementation's ladders: multiplying any representative of an even point by the limbs of r
gives a representative of a point of the identity coset (both backends) -/
theorem order_dvd_ladders {c : Ext} {P : E} (h : ERepr c P) (he : Point.IsEven P) :
    (∃ pt, ERepr (c.scalarMulMin rLimbs) pt ∧ Point.Coset 0 pt) ∧ (∃ pt, ERepr (c.scalarMulRef rLimbs) pt ∧ Point.Coset 0 pt) := by
  have hr : r < 2 ^ (64 * 4) := by rw [_root_.C17.r_val]; norm_num
  have h1 := scalarMulMin_correct h rLimbs (toLimbs_lt r 4)
  have h2 := scalarMulRef_correct h rLimbs (toLimbs_lt r 4)
  rw [show rLimbs = toLimbs 64 r 4 from rfl, ofLimbs_toLimbs r 4 hr] at h1 h2
  exact ⟨⟨_, h1, order_dvd he⟩, ⟨_, h2, order_dvd he⟩⟩

/-- … and the implementation's equality test says so: `r * c == identity` for every representative of every group
element, with either ladder -/
theorem order_dvd_eq {c : Ext} {P : E} (h : ERepr c P) (he : Point.IsEven P) :
    Ext.eq Ext.identity (c.scalarMulMin rLimbs) = true ∧ Ext.eq Ext.identity (c.scalarMulRef rLimbs) = true := by
  obtain ⟨⟨p1, h1, c1⟩, ⟨p2, h2, c2⟩⟩ := order_dvd_ladders h he
  exact ⟨(eq_iff_coset identity_repr h1).mpr c1, (eq_iff_coset identity_repr h2).mpr c2⟩

/-- k • P depends only on k mod r, up to the identity coset, for every group element P -/
theorem smul_mod_r {P : E} (he : Point.IsEven P) (k : ℕ) : Point.Coset ((k % r) • P) (k • P) := by
  have hk : k • P = (k % r) • P + (k / r) • (r • P) := by
    rw [← mul_nsmul', ← add_nsmul, Nat.mul_comm, Nat.mod_add_div]
  rw [hk]
  rcases order_dvd he with h0 | h0
  · left; rw [h0, nsmul_zero, add_zero]
  · rw [zero_add] at h0
    rw [h0]
    rcases Nat.even_or_odd' (k / r) with ⟨m, hm | hm⟩
    · left
      rw [hm, mul_nsmul, two_nsmul, Point.T2_add_T2, nsmul_zero, add_zero]
    · right
      rw [hm, add_nsmul, mul_nsmul, two_nsmul, Point.T2_add_T2, nsmul_zero, zero_add, one_nsmul]

end C05
