/- C14 property theorems (under construction) -/
import Decaf.Model.Exec
