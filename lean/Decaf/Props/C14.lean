/-
C14 — R1CS gadgets are sound against adversarial prover hints.

`R1cs.isqrt x h`, `R1cs.decompress s h` … are the constraint relations of the gadgets (Model/R1cs.lean, read off
fqvar_ext.rs / inner.rs line by line; arkworks' FpVar/Boolean primitives by contract), as a function of the
inputs and of the prover-supplied hint `h = some (flag, y)`; the first component says whether all constraints hold.

* `isqrt_sound`: for den ≠ 0 a satisfied system forces the flag (= squareness of den) and y²·den ∈ {1, ζ}:
  exactly the native contract, for EVERY hint.
* `isqrt_rel_zero`: at den = 0 the system is satisfied exactly by (false, 0) and by (true, ±1): the second family is
  the known finding.
* `decompress_sound_except_minus_one`: for EVERY s other than q - 1 and every hint; `decompress_sound_partial`: for s ≠ ±1 … i.e. whenever the discriminant argument is non-zero, a satisfied decode
  gadget means the native specification decodes s, to the point the gadget outputs.  FULL STATEMENT (no side
  condition) is false: `decode_unsound_at_minus_one` exhibits the satisfying forged hint at s = q - 1.
* `compress_sound`: the encode gadget is sound for EVERY hint and every representative of every group element (the
  isqrt weakness at 0 is harmless here: the discriminant vanishes only at x = 0, where the output is 0 whatever v is).
* `elligator_sound`: the Elligator gadget is sound for every input and every hint (its isqrt argument never vanishes).
  Both by patching the square-root routine with the hint (Lemmas/Gadgets.lean) and re-using "= specification".
-/
import Decaf.BuildsCmd
import Decaf.Lemmas.RoundTrip
import Decaf.Model.R1cs
import Decaf.Lemmas.Gadgets
import Decaf.Props.C07

namespace C14
open Model Edwards Decaf

theorem zeta_ne_zero : ((ZETA : ℕ) : Fq) ≠ 0 := by
  intro h0; exact zeta_nonsquare (by rw [h0]; exact ⟨0, by ring⟩)

/-- **isqrt is sound for den ≠ 0**, whatever the hint -/
theorem isqrt_sound {x : ℕ} (hx : x < q) (hx0 : x ≠ 0) (f : Bool) (y : ℕ) (_hy : y < q)
    (hsat : (R1cs.isqrt x (some (f, y))).1 = true) :
    (f = true ↔ IsSquare (x : Fq)) ∧ (y : Fq) ^ 2 * (x : Fq) = if f then 1 else (ZETA : Fq) := by
  have hxq : (x : Fq) ≠ 0 := by rwa [Ne, cast_eq_zero_iff hx]
  unfold R1cs.isqrt at hsat
  have hz : (x == 0) = false := by simpa using hx0
  simp only [Option.getD_some, hz, Bool.false_eq_true, if_false, Bool.and_false, Bool.not_false, Bool.true_or,
    Bool.and_true, Bool.not_true, Bool.false_or, Bool.or_false, Bool.true_and] at hsat
  cases f with
  | true =>
    simp only [Bool.not_true, Bool.false_or, Bool.not_false, Bool.true_or, Bool.and_true, Bool.or_true,
      Bool.true_and, Bool.and_self] at hsat
    have h1 : fsq q y = finv q x := by simpa using hsat
    have := congrArg (Nat.cast : ℕ → Fq) h1
    rw [cast_fsq, cast_finv q_gt_two] at this
    have hyx : (y : Fq) ^ 2 * (x : Fq) = 1 := by rw [sq, this, inv_mul_cancel₀ hxq]
    refine ⟨⟨fun _ => ?_, fun _ => rfl⟩, by rw [if_pos rfl]; exact hyx⟩
    have hy0 : (y : Fq) ≠ 0 := by rintro h0; rw [h0] at hyx; simp at hyx
    exact ⟨1 / (y : Fq), by field_simp; linear_combination hyx⟩
  | false =>
    simp only [Bool.not_false, Bool.true_or, Bool.true_and, Bool.not_true, Bool.false_or, Bool.or_false,
      Bool.and_true] at hsat
    have h1 : fsq q y = fmul q ZETA (finv q x) := by simpa using hsat
    have := congrArg (Nat.cast : ℕ → Fq) h1
    rw [cast_fsq, cast_fmul, cast_finv q_gt_two] at this
    have hyx : (y : Fq) ^ 2 * (x : Fq) = (ZETA : Fq) := by rw [sq, this, mul_assoc, inv_mul_cancel₀ hxq, mul_one]
    refine ⟨⟨fun h => absurd h (by simp), fun hs => ?_⟩, by rw [if_neg (by simp)]; exact hyx⟩
    exfalso
    obtain ⟨w, hw⟩ := hs
    apply zeta_nonsquare
    exact ⟨(y : Fq) * w, by rw [← hyx, hw]; ring⟩

/-- **the exact characterisation at den = 0** -/
theorem isqrt_rel_zero (f : Bool) (y : ℕ) (hy : y < q) :
    (R1cs.isqrt 0 (some (f, y))).1 = true ↔ (f = false ∧ y = 0) ∨ (f = true ∧ (y : Fq) ^ 2 = 1) := by
  have hinv : finv q 1 = 1 := by decide +kernel
  unfold R1cs.isqrt
  simp only [Option.getD_some, beq_self_eq_true, if_true, hinv]
  cases f with
  | true =>
    simp only [Bool.not_true, Bool.false_or, Bool.false_and, Bool.not_false, Bool.true_or, Bool.and_true,
      Bool.or_false, Bool.true_and, Bool.or_true, reduceCtorEq, false_and, true_and, false_or]
    constructor
    · intro h
      have h1 : fsq q y = 1 := by simpa using h
      have := congrArg (Nat.cast : ℕ → Fq) h1
      rw [cast_fsq, Nat.cast_one] at this
      rw [sq]; exact this
    · intro h
      have : fsq q y = 1 := by
        apply eq_of_cast_eq (fsq_lt q_pos _) one_lt_q
        rw [cast_fsq, Nat.cast_one, ← sq]; exact h
      simp [this]
  | false =>
    simp only [Bool.not_false, Bool.true_or, Bool.true_and, Bool.and_self, Bool.not_true, Bool.false_or,
      Bool.and_false, Bool.or_false, Bool.and_true, true_and, reduceCtorEq, false_and, or_false]
    constructor
    · intro h
      have h1 : fsq q y = 0 := by simpa using h
      have := congrArg (Nat.cast : ℕ → Fq) h1
      rw [cast_fsq, Nat.cast_zero] at this
      have : (y : Fq) = 0 := mul_self_eq_zero.mp this
      exact (cast_eq_zero_iff hy).mp this
    · rintro rfl
      decide +kernel

set_option maxRecDepth 8000 in
/-- **the decode gadget is sound wherever the discriminant argument is non-zero** (i.e. for every s except ±1):
if all its constraints hold under ANY hint, the specification decodes s to exactly the point the gadget outputs;
in particular an invalid encoding other than q-1 can never be decoded in-circuit -/
theorem decompress_sound_partial {s : ℕ} (hs : s < q) (f : Bool) (y : ℕ) (hy : y < q)
    (hden : fmul q (fsub q (fsq q (fsub q 1 (fsq q s))) (fmul q (fmul q 4 cD) (fsq q s))) (fsq q (fsub q 1 (fsq q s))) ≠ 0)
    {X Y : ℕ} (hsat : R1cs.decompress s (some (f, y)) = (true, X, Y)) :
    DecodesTo params paritySign ((s : ℕ) : Fq) ((X : ℕ) : Fq) ((Y : ℕ) : Fq) := by
  unfold R1cs.decompress at hsat
  simp only [] at hsat
  set den := fmul q (fsub q (fsq q (fsub q 1 (fsq q s))) (fmul q (fmul q 4 cD) (fsq q s))) (fsq q (fsub q 1 (fsq q s))) with hdendef
  have hdlt : den < q := fmul_lt q_pos _ _
  -- split the result triple
  have hiq : R1cs.isqrt den (some (f, y)) = ((R1cs.isqrt den (some (f, y))).1, f, y) := by
    unfold R1cs.isqrt; simp
  rw [hiq] at hsat
  simp only [Prod.mk.injEq, Bool.and_eq_true, Bool.not_eq_true'] at hsat
  obtain ⟨⟨⟨hnn, hq1⟩, hf⟩, hX, hY⟩ := hsat
  subst hf
  have hsound := isqrt_sound hdlt hden true y hy hq1
  have hv : (y : Fq) ^ 2 * (den : Fq) = 1 := by have := hsound.2; rwa [if_pos rfl] at this
  have hd : params.d = (cD : Fq) := rfl
  have hden' : (den : Fq) = ((1 - (s : Fq) ^ 2) ^ 2 - 4 * params.d * (s : Fq) ^ 2) * (1 - (s : Fq) ^ 2) ^ 2 := by
    rw [hdendef, hd]
    simp only [cast_fmul, cast_fsub, cast_fsq, Nat.cast_one, Nat.cast_ofNat]
    ring
  rw [hden'] at hv
  have hn : paritySign.neg (s : Fq) = false := by rw [← isNeg_eq hs]; exact hnn
  have key := decodes_of_root (P := params) (S := paritySign) hn hv
  simp only [] at key
  -- the gadget's sign selection is the same test
  have hchk : isNeg (fmul q (fmul q (fmul q 2 s) (fsub q 1 (fsq q s))) y)
      = paritySign.neg (2 * (s : Fq) * (1 - (s : Fq) ^ 2) * (y : Fq)) := by
    rw [isNeg_eq (fmul_lt q_pos _ _)]
    simp only [cast_fmul, cast_fsub, cast_fsq, Nat.cast_one, Nat.cast_ofNat]
    congr 1; ring
  rw [hchk] at hX hY
  have hvv : (((if paritySign.neg (2 * (s : Fq) * (1 - (s : Fq) ^ 2) * (y : Fq)) = true then fneg q y else y : ℕ)) : Fq)
      = if paritySign.neg (2 * (s : Fq) * (1 - (s : Fq) ^ 2) * (y : Fq)) = true then -(y : Fq) else (y : Fq) := by
    split <;> simp
  have hXc : (X : Fq) = 2 * (s : Fq) * (1 - (s : Fq) ^ 2) *
      (if paritySign.neg (2 * (s : Fq) * (1 - (s : Fq) ^ 2) * (y : Fq)) = true then -(y : Fq) else (y : Fq)) ^ 2 *
      ((1 - (s : Fq) ^ 2) ^ 2 - 4 * params.d * (s : Fq) ^ 2) := by
    rw [← hX, hd]
    simp only [cast_fmul, cast_fsub, cast_fadd, cast_fsq, Nat.cast_one, Nat.cast_ofNat, hvv]
    ring
  have hYc : (Y : Fq) = (1 + (s : Fq) ^ 2) *
      (if paritySign.neg (2 * (s : Fq) * (1 - (s : Fq) ^ 2) * (y : Fq)) = true then -(y : Fq) else (y : Fq)) *
      (1 - (s : Fq) ^ 2) := by
    rw [← hY]
    simp only [cast_fmul, cast_fsub, cast_fadd, cast_fsq, Nat.cast_one, Nat.cast_ofNat, hvv]
    ring
  rw [hXc, hYc]
  exact key

/-- hence the native decoder accepts s (for any routine meeting the contract) -/
theorem decompress_sound_native {sr : SR} (h : SRContract sr) {s : ℕ} (hs : s < q) (f : Bool) (y : ℕ) (hy : y < q)
    (hden : fmul q (fsub q (fsq q (fsub q 1 (fsq q s))) (fmul q (fmul q 4 cD) (fsq q s))) (fsq q (fsub q 1 (fsq q s))) ≠ 0)
    {X Y : ℕ} (hsat : R1cs.decompress s (some (f, y)) = (true, X, Y)) : ∃ c, decodeField sr s = .ok c := by
  have hdec := decompress_sound_partial hs f y hy hden hsat
  rcases decodeField_spec h s hs with ⟨_, hno⟩ | ⟨c, _, hok, _⟩
  · exact absurd ⟨⟨(X : Fq), (Y : Fq), hdec.onCurve⟩, hdec⟩ hno
  · exact ⟨c, hok⟩

/-- **the decode gadget is sound for every s except q - 1**: the discriminant argument vanishes only at s = ±1, and
s = 1 is negative, so the sign constraint rejects it whatever the hint -/
theorem decompress_sound_except_minus_one {s : ℕ} (hs : s < q) (hne : s ≠ q - 1) (f : Bool) (y : ℕ) (hy : y < q)
    {X Y : ℕ} (hsat : R1cs.decompress s (some (f, y)) = (true, X, Y)) :
    DecodesTo params paritySign ((s : ℕ) : Fq) ((X : ℕ) : Fq) ((Y : ℕ) : Fq) := by
  by_cases hden : fmul q (fsub q (fsq q (fsub q 1 (fsq q s))) (fmul q (fmul q 4 cD) (fsq q s))) (fsq q (fsub q 1 (fsq q s))) = 0
  · exfalso
    have hd : params.d = (cD : Fq) := rfl
    have h0 := congrArg (Nat.cast : ℕ → Fq) hden
    simp only [cast_fmul, cast_fsub, cast_fsq, Nat.cast_one, Nat.cast_ofNat, Nat.cast_zero] at h0
    have hu2 := u2_ne_zero (P := params) ((s : ℕ) : Fq)
    unfold u2 at hu2
    rw [hd] at hu2
    have h1 : (1 - (s : Fq) ^ 2) ^ 2 = 0 := by
      rcases mul_eq_zero.mp h0 with h | h
      · exact absurd (by linear_combination h) hu2
      · linear_combination h
    have h2 : ((s : Fq) - 1) * ((s : Fq) + 1) = 0 := by
      have := pow_eq_zero_iff (n := 2) (by norm_num) |>.mp h1
      linear_combination -this
    rcases mul_eq_zero.mp h2 with h | h
    · -- s = 1: negative, rejected by the sign constraint
      have hs1 : s = 1 := by
        apply eq_of_cast_eq hs one_lt_q
        rw [Nat.cast_one]; linear_combination h
      subst hs1
      unfold R1cs.decompress at hsat
      simp only [] at hsat
      have hneg : isNeg 1 = true := by decide
      rw [hneg] at hsat
      simp at hsat
    · -- s = -1 = q - 1: excluded
      apply hne
      apply eq_of_cast_eq hs (by have := q_pos; omega)
      rw [cast_q_sub_one]; linear_combination h
  · exact decompress_sound_partial hs f y hy hden hsat

/-- **the known finding**: at s = q - 1 the forged hint (true, 1) satisfies every constraint of the decode gadget
and the output is the non-point (0,0), although the specification (and both native decoders) reject q - 1 -/
theorem decode_unsound_at_minus_one : R1cs.decompress (q - 1) (some (true, 1)) = (true, 0, 0) := by decide +kernel

theorem minus_one_is_rejected_natively {sr : SR} (h : SRContract sr) (bytes : List ℕ) (hv : leBytes bytes = q - 1) :
    ¬ ∃ c, decode32 sr bytes = .ok c := by
  -- C02.rejects_minus_one, restated here to keep this file self-contained
  intro hex
  obtain ⟨c, hc⟩ := hex
  have hlt : leBytes bytes < q := by rw [hv]; have := q_pos; omega
  unfold decode32 fqFromBytesChecked at hc
  by_cases ht : (bytes.getD 31 0 / 32 != 0) = true
  · rw [if_pos ht] at hc; exact absurd hc (by simp)
  · rw [if_neg ht] at hc
    simp only [hlt, if_true] at hc
    rcases decodeField_spec h _ hlt with ⟨herr, _⟩ | ⟨c', pt, _, _, hspec, _⟩
    · rw [herr] at hc; exact absurd hc (by simp)
    · obtain ⟨_, t, ht2, _⟩ := hspec
      have hs : (((leBytes bytes : ℕ)) : Fq) = -1 := by rw [hv]; exact cast_q_sub_one
      apply one_sub_sq_ne_zero_of_root ht2
      rw [hs]; ring

/-- **the encode gadget is sound**: whatever hint the prover supplies, a satisfied system outputs the native encoding —
for every affine representative (x, y) of every group element -/
theorem compress_sound {x y : ℕ} (hx : x < q) {P : E} (hr : ERepr (Ext.ofAffine (x, y)) P) (he : Point.IsEven P)
    (f : Bool) (v : ℕ) (hv : v < q) (hsat : (R1cs.compress x y (some (f, v))).1 = true) :
    Ext.encodeField sqrtRatioArk (Ext.ofAffine (x, y)) = some (R1cs.compress x y (some (f, v))).2 := by
  have hc : Ext.ofAffine (x, y) = ⟨x, y, 1, fmul q x y⟩ := rfl
  rw [hc] at hr ⊢
  rw [compress_gadget] at hsat ⊢
  simp only [] at hsat ⊢
  by_cases hD : encDen ⟨x, y, 1, fmul q x y⟩ = 0
  · have hx0 : x = 0 := x_eq_zero_of_encDen_eq_zero hx hr hD
    obtain ⟨f', v', hs, _⟩ := sarkar_contract.total 1 (encDen ⟨x, y, 1, fmul q x y⟩) one_lt_q (encDen_lt _)
    rw [encodeField_of_sr hs, encOut_of_X_zero (c := ⟨x, y, 1, fmul q x y⟩) hx0, encOut_of_X_zero (c := ⟨x, y, 1, fmul q x y⟩) hx0]
  · obtain ⟨hf, hval⟩ := isqrt_sound (encDen_lt _) hD f v hv hsat
    have hp := srPatch_contract hD hv hf hval
    rw [C03.encode_respects_element sarkar_contract hp hr hr he (Point.Coset.refl P)]
    exact encodeField_of_sr (srPatch_hit _ _ _)

/-- **the Elligator gadget is sound**: whatever hint the prover supplies, a satisfied system outputs the affine
coordinates of the point the native map returns, for every input -/
theorem elligator_sound (r0 : ℕ) (f : Bool) (v : ℕ) (hv : v < q) (hsat : (R1cs.elligator r0 (some (f, v))).1 = true) :
    ∃ c P, elligator sqrtRatioArk ZETA r0 = some c ∧ ERepr c P ∧
      P.x = (((R1cs.elligator r0 (some (f, v))).2.1 : ℕ) : Fq) ∧ P.y = (((R1cs.elligator r0 (some (f, v))).2.2 : ℕ) : Fq) := by
  rw [elligator_gadget] at hsat ⊢
  simp only [Bool.and_eq_true] at hsat
  obtain ⟨⟨hi, _⟩, _⟩ := hsat
  obtain ⟨hf, hval⟩ := isqrt_sound (ellArg_lt r0) (ellArg_ne_zero r0) f v hv hi
  have hp := srPatch_contract (ellArg_ne_zero r0) hv hf hval
  obtain ⟨c1, p1, h1, r1, s1, _⟩ := C07.elligator_eq_spec hp r0
  obtain ⟨c2, p2, h2, r2, s2, _⟩ := C07.elligator_eq_spec sarkar_contract r0
  obtain ⟨ex, ey⟩ := ElligatorTo.unique s1 s2
  have hpp : p2 = p1 := by ext <;> assumption
  rw [elligator_of_sr (srPatch_hit _ _ _)] at h1
  injection h1 with h1
  subst h1
  obtain ⟨_, _, hxx, hyy⟩ := ell_affine r1
  exact ⟨c2, p2, h2, r2, by rw [hpp]; exact hxx, by rw [hpp]; exact hyy⟩

end C14

/-! ### the statements for the two shipped routines -/
instantiate_builds C14.decompress_sound_native
instantiate_builds C14.minus_one_is_rejected_natively
