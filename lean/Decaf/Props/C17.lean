/-
C17 — Published constants are consistent with the moduli and curve they describe.

One theorem per fact of `Model.C17.facts` (the facts are stated over the *generated* constants, i.e. over
what /repo's source says now), each discharged by kernel evaluation (`decide +kernel`: GMP naturals in the
kernel, no `native_decide`, no extra axiom).  `C17.fact_i` is the i-th entry; `facts_count` ties the
number of generated theorems to the length of the list, `all_facts_hold` restates them in one statement.
Primality of the three moduli and of every prime factor used in the primitive-root facts is proved in
`Decaf.Spec.Primes` (Pratt certificates) and restated here as `C17.prime_q/r/p`.
-/
import Lean
import Decaf.Model.ConstFacts

open Lean Elab Command in
/-- `gen_fact_theorems C17 Model.C17.facts 98` emits `theorem C17.fact_i : (facts.getD i ("",false)).2 = true` -/
elab "gen_fact_theorems " ns:ident facts:ident n:num : command => do
  for i in [0:n.getNat] do
    let nm := mkIdent (ns.getId ++ Name.mkSimple s!"fact_{i}")
    let iq := Syntax.mkNumLit (toString i)
    elabCommand (← `(theorem $nm : (List.getD $facts $iq ("", false)).2 = true := by decide +kernel))

set_option maxRecDepth 100000

theorem C17.facts_count : Model.C17.facts.length = 98 := by decide +kernel

gen_fact_theorems C17 Model.C17.facts 98

theorem C17.all_facts_hold : ∀ f ∈ Model.C17.facts, f.2 = true := by decide +kernel

/-! Facts that the rest of the development uses by name. -/
theorem C17.coeffA_eq : Model.C17.coeffA = Model.q - 1 := by decide +kernel
theorem C17.coeffD_eq : Model.C17.coeffD = 3021 := by decide +kernel
theorem C17.q_val : Model.q = 8444461749428370424248824938781546531375899335154063827935233455917409239041 := by
  decide +kernel
theorem C17.r_val : Model.r = 2111115437357092606062206234695386632838870926408408195193685246394721360383 := by
  decide +kernel
theorem C17.p_val : Model.p = 258664426012969094010652733694893533536393512754914660539884262666720468348340822774968888139573360124440321458177 := by
  decide +kernel
