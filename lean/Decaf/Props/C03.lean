/-
C03 — Encoding depends only on the group element and equals the specified encoding.

For every square-root routine `sr` meeting the contract, every quadruple `c` representing (in any projective
scaling) a point `P` of the even subgroup: the encoder returns the canonical integer `s < q < 2^253` that
ristretto.sage's `encodeSpec` specifies for `P` (`EncSpec`, relational form).  Hence the bytes are the same for
every representative of the same group element (rescalings, the other member of the coset, affine or projective
form), differ for different elements, are the 32-byte little-endian form of s, and have their top three bits clear.
-/
import Decaf.BuildsCmd
import Decaf.Lemmas.RoundTrip

namespace C03
open Model Edwards Decaf

variable {sr : SR}

/-- the optimised encoder returns the specified encoding -/
theorem encode_eq_spec (h : SRContract sr) {c : Ext} {pt : E} (hr : ERepr c pt) (he : Point.IsEven pt) :
    ∃ s, Ext.encodeField sr c = some s ∧ s < q ∧ EncSpec pt s := encodeField_spec h hr he

/-- the encoder never panics (for any quadruple at all) -/
theorem encode_total (h : SRContract sr) (c : Ext) : ∃ s, Ext.encodeField sr c = some s ∧ s < q := by
  obtain ⟨s, hs, hlt, _⟩ := encodeField_cast h c
  exact ⟨s, hs, hlt⟩

/-- **one element, one encoding**: any two representatives (any scaling, either member of the coset) of the same
group element encode identically — even under two different square-root routines (two builds) -/
theorem encode_respects_element {sr' : SR} (h : SRContract sr) (h' : SRContract sr') {c c' : Ext} {p p' : E}
    (hr : ERepr c p) (hr' : ERepr c' p') (he : Point.IsEven p) (hc : Point.Coset p p') :
    Ext.encodeField sr c = Ext.encodeField sr' c' := by
  obtain ⟨s, hs, hlt, hspec⟩ := encodeField_spec h hr he
  obtain ⟨s', hs', hlt', hspec'⟩ := encodeField_spec h' hr' (Point.isEven_of_coset hc he)
  rw [hs, hs', encSpec_coset hc hlt hlt' hspec hspec']

theorem encode_scale_invariant (h : SRContract sr) {c c' : Ext} {p : E} (hr : ERepr c p) (hr' : ERepr c' p)
    (he : Point.IsEven p) : Ext.encodeField sr c = Ext.encodeField sr c' :=
  encode_respects_element h h hr hr' he (Point.Coset.refl p)

/-- **different elements, different encodings** -/
theorem encode_injective (h : SRContract sr) {c c' : Ext} {p p' : E} (hr : ERepr c p) (hr' : ERepr c' p')
    (he : Point.IsEven p) (he' : Point.IsEven p') (heq : Ext.encodeField sr c = Ext.encodeField sr c') :
    Point.Coset p p' := by
  obtain ⟨s, hs, _, hspec⟩ := encodeField_spec h hr he
  obtain ⟨s', hs', _, hspec'⟩ := encodeField_spec h hr' he'
  rw [hs, hs'] at heq
  have : s = s' := by injection heq
  subst this
  exact coset_of_encSpec_eq he he' hspec hspec'

/-- equality of elements ⇔ equality of encodings (C08's first clause; also what makes hashing the encoding
consistent with `Eq`) -/
theorem eq_iff_encode_eq (h : SRContract sr) {c c' : Ext} {p p' : E} (hr : ERepr c p) (hr' : ERepr c' p')
    (he : Point.IsEven p) (he' : Point.IsEven p') :
    Ext.eq c c' = true ↔ Ext.encodeField sr c = Ext.encodeField sr c' := by
  rw [eq_iff_coset hr hr']
  exact ⟨fun hc => encode_respects_element h h hr hr' he hc, fun heq => encode_injective h hr hr' he he' heq⟩

/-- the byte form: 32 bytes, little-endian canonical form of s, top three bits clear -/
theorem encode_bytes (h : SRContract sr) (c : Ext) :
    ∃ s bs, Ext.encodeField sr c = some s ∧ Ext.encode sr c = some bs ∧ bs = toLeBytes s 32 ∧ bs.length = 32 ∧
      leBytes bs = s ∧ s < q ∧ bs.getD 31 0 < 32 ∧ ∀ b ∈ bs, b < 256 := by
  obtain ⟨s, hs, hlt⟩ := encode_total h c
  have h253 : s < 2 ^ 253 := lt_trans hlt q_lt_two_pow_253
  refine ⟨s, toLeBytes s 32, hs, by unfold Ext.encode; rw [hs]; rfl, rfl, toLeBytes_length _ _, ?_, hlt,
    top_bits_clear s h253, toLeBytes_lt _ _⟩
  exact leBytes_toLeBytes s 32 (lt_trans h253 (by norm_num))

/-- the identity (either representative) encodes to zero -/
example : Ext.encodeField sqrtRatioMin ⟨0, q - 1, 1, 0⟩ = some 0 ∧ Ext.encodeField sqrtRatioArk Ext.identity = some 0 := by
  decide +kernel

end C03

/-! ### the statements for the two shipped routines (`C09.ark_contract`, `C09.min_contract` discharge the premise) -/
instantiate_builds C03.encode_eq_spec
instantiate_builds C03.encode_total
instantiate_builds C03.encode_respects_element
instantiate_builds C03.encode_scale_invariant
instantiate_builds C03.encode_injective
instantiate_builds C03.eq_iff_encode_eq
instantiate_builds C03.encode_bytes
