/-
`instantiate_builds T` — for a theorem `T : ∀ {sr : SR} … (h : SRContract sr) …, P`, add the theorems
`T_ark : P[sqrtRatioArk]` and `T_min : P[sqrtRatioMin]` obtained by applying `T` to the two contract proofs
(`Model.sarkar_contract`, `Model.sqrtRatioMin_contract`).  For a theorem over two routines `sr sr'` it adds
`T_ark_min` (the cross-build statement).  `instantiate_builds T ark` / `instantiate_builds T min` adds only that build's instance
(used for theorems about the translated code of one backend).  Nothing is assumed: the new constants are ordinary kernel-checked theorems.
-/
import Decaf.Lemmas.Sarkar
import Decaf.Lemmas.TonelliShanks

open Lean Elab Command Meta

private def countSR : Expr → Nat
  | .forallE _ t b _ => if t.isConstOf ``Model.SR then 1 + countSR b else 0
  | _ => 0

elab "instantiate_builds " id:ident only:(ident)? : command => do
  let n ← liftCoreM <| realizeGlobalConstNoOverloadWithInfo id
  let ci ← getConstInfo n
  let k := countSR ci.type
  let ark := (mkConst ``Model.sqrtRatioArk, mkConst ``Model.sarkar_contract)
  let mn := (mkConst ``Model.sqrtRatioMin, mkConst ``Model.sqrtRatioMin_contract)
  let variants : List (String × List (Expr × Expr)) ←
    if k == 1 then
      match only.map (·.getId.toString) with
      | some "ark" => pure [("_ark", [ark])]
      | some "min" => pure [("_min", [mn])]
      | some o => throwError "instantiate_builds: unknown build {o}"
      | none => pure [("_ark", [ark]), ("_min", [mn])]
    else if k == 2 then pure [("_ark_min", [ark, mn])]
    else throwError "instantiate_builds: {n} has {k} leading SR binders"
  for (suffix, ps) in variants do
    let val := mkAppN (mkConst n (ci.levelParams.map mkLevelParam)) ((ps.map (·.1)) ++ (ps.map (·.2))).toArray
    let type ← liftTermElabM <| do
      let t ← inferType val
      let t ← instantiateMVars t
      Meta.check val
      pure t.headBeta
    let newName := n.appendAfter suffix
    liftCoreM <| addDecl <| Declaration.thmDecl
      { name := newName, levelParams := ci.levelParams, type := type, value := val }
