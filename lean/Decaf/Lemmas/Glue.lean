/-
Lemmas about the field wrappers' glue (Model/Glue.lean): chunked reduction of byte strings of any length,
checked parsing, canonical serialisation, limb ordering, sums/products/powers, Montgomery-limb selection.
-/
import Decaf.Lemmas.Bridge
import Decaf.Lemmas.Bytes
import Decaf.Model.Glue

namespace Model

theorem leBytes_append (a b : List ℕ) : leBytes (a ++ b) = leBytes a + 256 ^ a.length * leBytes b := by
  induction a with
  | nil => simp [leBytes]
  | cons x xs ih => simp only [List.cons_append, leBytes, ih, List.length_cons, pow_succ]; ring

theorem leBytes_replicate_zero (n : ℕ) : leBytes (List.replicate n 0) = 0 := by
  induction n with
  | zero => rfl
  | succ n ih => simp [List.replicate_succ, leBytes, ih]

namespace FP
variable (F : FP)

theorem leBytes_padTo (n : ℕ) (bs : List ℕ) : leBytes (padTo n bs) = leBytes bs := by
  unfold padTo; rw [leBytes_append, leBytes_replicate_zero]; simp

/-- Horner value of a list of chunk values in radix W -/
def horner (W : ℕ) : List ℕ → ℕ
  | [] => 0
  | c :: cs => c + W * horner W cs

theorem leBytes_eq_horner (n : ℕ) (hn : 0 < n) : ∀ (fuel : ℕ) (bs : List ℕ), bs.length ≤ fuel →
    leBytes bs = horner (256 ^ n) ((chunks n fuel bs).map leBytes) := by
  intro fuel
  induction fuel with
  | zero =>
    intro bs h
    have : bs = [] := List.length_eq_zero_iff.mp (Nat.le_zero.mp h)
    subst this; simp [chunks, horner, leBytes]
  | succ fuel ih =>
    intro bs h
    unfold chunks
    by_cases he : bs.isEmpty = true
    · have : bs = [] := List.isEmpty_iff.mp he
      subst this; simp [horner, leBytes]
    · simp only [he, Bool.false_eq_true, if_false, List.map_cons, horner]
      have hne : bs ≠ [] := by intro h0; apply he; simp [h0]
      have hlen : (bs.drop n).length ≤ fuel := by
        rw [List.length_drop]
        have : 0 < bs.length := List.length_pos_of_ne_nil hne
        omega
      rw [← ih _ hlen]
      conv_lhs => rw [← List.take_append_drop n bs]
      rw [leBytes_append, List.length_take]
      by_cases hl : n ≤ bs.length
      · rw [Nat.min_eq_left hl]
      · have hd : bs.drop n = [] := List.drop_eq_nil_of_le (by omega)
        rw [hd]; simp [leBytes]

/-- Horner evaluation modulo m, as the fold in `from_le_bytes_mod_order` does it -/
theorem fold_eq_horner (W' W : ℕ) (hW : W' % F.m = W % F.m) (cs : List ℕ) :
    (cs.reverse.foldl (fun acc x => fadd F.m (fmul F.m acc W') x) 0) % F.m = horner W cs % F.m := by
  rw [List.foldl_reverse]
  induction cs with
  | nil => simp [horner]
  | cons c cs ih =>
    simp only [List.foldr_cons, horner]
    set A := List.foldr (fun x y => fadd F.m (fmul F.m y W') x) 0 cs with hA
    have h1 : fadd F.m (fmul F.m A W') c % F.m = (A * W' + c) % F.m := by
      simp [fadd, fmul, Nat.add_mod]
    rw [h1, Nat.add_mod, Nat.mul_mod, ih, hW, ← Nat.mul_mod, ← Nat.add_mod]
    congr 1; ring

/-- **reduction of byte strings of any length** -/
theorem fromLeBytesModOrder_spec (hn : 0 < F.n8) (hm : 0 < F.m) (hf : F.fspt % F.m = 256 ^ F.n8 % F.m) (bs : List ℕ) :
    F.fromLeBytesModOrder bs = leBytes bs % F.m := by
  unfold fromLeBytesModOrder
  simp only []
  have hres : ∀ cs : List ℕ, (cs.reverse.foldl (fun acc x => fadd F.m (fmul F.m acc F.fspt) x) 0) < F.m ∨ cs = [] := by
    intro cs
    rcases List.eq_nil_or_concat cs with h | ⟨l, a, h⟩
    · right; exact h
    · left
      rw [List.foldl_reverse]
      cases cs with
      | nil => simp at h
      | cons c cs' => simp only [List.foldr_cons]; exact fadd_lt hm _ _
  set cs := (chunks F.n8 bs.length bs).map (fun c => F.fromRawBytes (padTo F.n8 c)) with hcs
  have hmap : cs = ((chunks F.n8 bs.length bs).map leBytes).map (· % F.m) := by
    rw [hcs, List.map_map]
    apply List.map_congr_left
    intro c _
    simp [fromRawBytes, leBytes_padTo]
  -- mapping `% m` over the chunk values does not change the Horner value mod m
  have hh : ∀ l : List ℕ, horner (256 ^ F.n8) (l.map (· % F.m)) % F.m = horner (256 ^ F.n8) l % F.m := by
    intro l
    induction l with
    | nil => rfl
    | cons c l ih => simp only [List.map_cons, horner]; rw [Nat.add_mod, Nat.mod_mod, Nat.mul_mod, ih, ← Nat.mul_mod, ← Nat.add_mod]
  have key := fold_eq_horner F F.fspt (256 ^ F.n8) hf cs
  have hhorn : horner (256 ^ F.n8) cs % F.m = leBytes bs % F.m := by
    rw [hmap, hh, ← leBytes_eq_horner F.n8 hn bs.length bs (le_refl _)]
  rw [hhorn] at key
  rcases hres cs with hlt | hnil
  · rw [← key, Nat.mod_eq_of_lt hlt]
  · rw [hnil] at key ⊢
    simp only [List.reverse_nil, List.foldl_nil] at key ⊢
    rw [← key]; simp

theorem fromBeBytesModOrder_spec (hn : 0 < F.n8) (hm : 0 < F.m) (hf : F.fspt % F.m = 256 ^ F.n8 % F.m) (bs : List ℕ) :
    F.fromBeBytesModOrder bs = leBytes bs.reverse % F.m := by
  unfold fromBeBytesModOrder; exact fromLeBytesModOrder_spec F hn hm hf _

/-- **checked parsing accepts exactly the integers below m** -/
theorem fromBytesChecked_iff (hm : F.m ≤ 256 ^ F.n8) (hm0 : 0 < F.m) (bs : List ℕ) (hl : bs.length = F.n8)
    (hb : ∀ b ∈ bs, b < 256) (v : ℕ) :
    F.fromBytesChecked bs = some v ↔ leBytes bs < F.m ∧ v = leBytes bs := by
  unfold fromBytesChecked fromRawBytes toBytesLe
  simp only []
  constructor
  · intro h
    by_cases heq : (toLeBytes (leBytes bs % F.m) F.n8 == bs) = true
    · rw [if_pos heq] at h
      have hv : v = leBytes bs % F.m := by injection h with h; exact h.symm
      have hbs : toLeBytes (leBytes bs % F.m) F.n8 = bs := by simpa using heq
      have hlt : leBytes bs % F.m < 256 ^ F.n8 := lt_of_lt_of_le (Nat.mod_lt _ hm0) hm
      have := congrArg leBytes hbs
      rw [leBytes_toLeBytes _ _ hlt] at this
      refine ⟨?_, by rw [hv, this]⟩
      rw [← this]; exact Nat.mod_lt _ hm0
    · rw [if_neg heq] at h; exact absurd h (by simp)
  · rintro ⟨hlt, rfl⟩
    rw [Nat.mod_eq_of_lt hlt, ← hl, toLeBytes_leBytes bs hb]
    simp

/-- **serialisation is canonical** -/
theorem toBytesLe_spec (hm : F.m ≤ 256 ^ F.n8) (x : ℕ) (hx : x < F.m) :
    (F.toBytesLe x).length = F.n8 ∧ leBytes (F.toBytesLe x) = x ∧ ∀ b ∈ F.toBytesLe x, b < 256 :=
  ⟨toLeBytes_length _ _, leBytes_toLeBytes _ _ (lt_of_lt_of_le hx hm), toLeBytes_lt _ _⟩

theorem fromBytesChecked_toBytesLe (hm : F.m ≤ 256 ^ F.n8) (hm0 : 0 < F.m) (x : ℕ) (hx : x < F.m) :
    F.fromBytesChecked (F.toBytesLe x) = some x := by
  obtain ⟨hl, hv, hb⟩ := toBytesLe_spec F hm x hx
  rw [fromBytesChecked_iff F hm hm0 _ hl hb]
  exact ⟨by rw [hv]; exact hx, hv.symm⟩

/-! ### ordering -/

theorem ofLimbs_lt (w : ℕ) (ls : List ℕ) (h : ∀ l ∈ ls, l < 2 ^ w) : Lit.ofLimbs w ls < (2 ^ w) ^ ls.length := by
  induction ls with
  | nil => simp [Lit.ofLimbs]
  | cons l ls ih =>
    have hl := h l List.mem_cons_self
    have := ih (fun x hx => h x (List.mem_cons_of_mem _ hx))
    simp only [Lit.ofLimbs, List.length_cons, pow_succ]
    nlinarith

/-- lexicographic comparison from the most significant limb is integer comparison -/
theorem cmpLex_reverse (w : ℕ) : ∀ (a b : List ℕ), a.length = b.length → (∀ l ∈ a, l < 2 ^ w) → (∀ l ∈ b, l < 2 ^ w) →
    cmpLex a.reverse b.reverse = compare (Lit.ofLimbs w a) (Lit.ofLimbs w b) := by
  intro a
  induction a with
  | nil =>
    intro b hl _ _
    have : b = [] := List.length_eq_zero_iff.mp hl.symm
    subst this; simp [cmpLex, Lit.ofLimbs]
  | cons x xs ih =>
    intro b hl ha hb
    cases b with
    | nil => simp at hl
    | cons y ys =>
      have hl' : xs.length = ys.length := by simpa using hl
      have hx := ha x List.mem_cons_self
      have hy := hb y List.mem_cons_self
      have hxs := ofLimbs_lt w xs (fun l hl => ha l (List.mem_cons_of_mem _ hl))
      have hys := ofLimbs_lt w ys (fun l hl => hb l (List.mem_cons_of_mem _ hl))
      have ihh := ih ys hl' (fun l hl => ha l (List.mem_cons_of_mem _ hl)) (fun l hl => hb l (List.mem_cons_of_mem _ hl))
      simp only [List.reverse_cons, Lit.ofLimbs]
      -- compare the high parts first
      have key : ∀ (p q : List ℕ), p.length = q.length → cmpLex (p ++ [x]) (q ++ [y]) =
          (match cmpLex p q with | .eq => (if x < y then .lt else if x > y then .gt else .eq) | o => o) := by
        intro p
        induction p with
        | nil =>
          intro q hq
          have : q = [] := List.length_eq_zero_iff.mp hq.symm
          subst this; simp [cmpLex]
        | cons u us ihp =>
          intro q hq
          cases q with
          | nil => simp at hq
          | cons v vs =>
            simp only [List.cons_append, cmpLex]
            by_cases h1 : u < v
            · simp [h1]
            · by_cases h2 : u > v
              · simp [h1, h2]
              · simp only [h1, h2, if_false]
                exact ihp vs (by simpa using hq)
      rw [key _ _ (by simp [hl']), ihh]
      rw [hl'] at hxs
      rcases Nat.lt_trichotomy (Lit.ofLimbs w xs) (Lit.ofLimbs w ys) with h | h | h
      · have : x + 2 ^ w * Lit.ofLimbs w xs < y + 2 ^ w * Lit.ofLimbs w ys := by nlinarith
        simp [Nat.compare_eq_lt.mpr h, Nat.compare_eq_lt.mpr this]
      · rw [h]
        simp only [Nat.compare_eq_eq.mpr rfl]
        rcases Nat.lt_trichotomy x y with hxy | hxy | hxy
        · simp [hxy, Nat.compare_eq_lt.mpr (by omega : x + 2 ^ w * Lit.ofLimbs w ys < y + 2 ^ w * Lit.ofLimbs w ys)]
        · subst hxy; simp
        · have : ¬ x < y := by omega
          simp [this, hxy, Nat.compare_eq_gt.mpr (by omega : y + 2 ^ w * Lit.ofLimbs w ys < x + 2 ^ w * Lit.ofLimbs w ys)]
      · have : y + 2 ^ w * Lit.ofLimbs w ys < x + 2 ^ w * Lit.ofLimbs w xs := by nlinarith
        simp [Nat.compare_eq_gt.mpr h, Nat.compare_eq_gt.mpr this]

end FP
end Model
