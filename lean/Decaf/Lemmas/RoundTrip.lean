/-
Consequences of `Spec/Encoding` for the executable model: what `decode32` accepts and returns, what `Ext.encode`
returns, and the two round trips — for every square-root routine `sr` meeting the contract.
-/
import Decaf.Lemmas.ModelEncoding
import Decaf.Lemmas.Bytes

namespace Model
open Edwards Decaf

theorem q_lt_two_pow_253 : q < 2 ^ 253 := by rw [_root_.C17.q_val]; norm_num

variable {sr : SR}

/-- the specification relation, on the model's field -/
abbrev DecSpec (s : ℕ) (pt : E) : Prop := DecodesTo params paritySign ((s : ℕ) : Fq) pt.x pt.y
abbrev EncSpec (pt : E) (s : ℕ) : Prop := EncodesTo paritySign pt.x pt.y ((s : ℕ) : Fq)

/-- decoding of a canonical field element: success exactly when the specification decodes, never a panic,
and the result represents the specified (even) point -/
theorem decodeField_spec (h : SRContract sr) (s : ℕ) (hs : s < q) :
    (decodeField sr s = .error .encoding ∧ ¬ ∃ pt : E, DecSpec s pt) ∨
    (∃ c pt, decodeField sr s = .ok c ∧ ERepr c pt ∧ DecSpec s pt ∧ Point.IsEven pt ∧ c.X < q ∧ c.Z = 1) := by
  rcases decodeField_cast h s hs with ⟨hnone, herr⟩ | ⟨c, hok, hz, hxl, hyl, ht, hsome⟩
  · left
    refine ⟨herr, ?_⟩
    rintro ⟨pt, hpt⟩
    have := (decodeF_isSome_iff (P := params) (S := paritySign) (R := h.toSqrtRatio) (s : Fq)).mpr ⟨pt.x, pt.y, hpt⟩
    rw [hnone] at this
    exact absurd this (by simp)
  · right
    have hdec := decodeF_some hsome
    let pt : E := ⟨(c.X : Fq), (c.Y : Fq), hdec.onCurve⟩
    refine ⟨c, pt, hok, ?_, hdec, hdec.isEven, hxl, hz⟩
    refine ⟨?_, ?_, ?_, ?_⟩
    · rw [hz, Nat.cast_one]; exact one_ne_zero
    · show (c.X : Fq) = (c.X : Fq) * (c.Z : Fq); rw [hz, Nat.cast_one, mul_one]
    · show (c.Y : Fq) = (c.Y : Fq) * (c.Z : Fq); rw [hz, Nat.cast_one, mul_one]
    · rw [hz, Nat.cast_one, mul_one, ht, cast_fmul]

/-- the encoder on a representative of an even point returns the specified encoding -/
theorem encodeField_spec (h : SRContract sr) {c : Ext} {pt : E} (hr : ERepr c pt) (he : Point.IsEven pt) :
    ∃ s, Ext.encodeField sr c = some s ∧ s < q ∧ EncSpec pt s := by
  obtain ⟨s, hs, hlt, hcast⟩ := encodeField_cast h c
  refine ⟨s, hs, hlt, ?_⟩
  unfold EncSpec
  rw [hcast]
  exact encodeF_spec one_add_d_nonsquare hr pt.on he

/-- the specified encoding is a function of the coset -/
theorem encSpec_coset {p p' : E} (hc : Point.Coset p p') {s s' : ℕ} (hs : s < q) (hs' : s' < q)
    (h : EncSpec p s) (h' : EncSpec p' s') : s = s' := by
  apply eq_of_cast_eq hs hs'
  rcases hc with rfl | rfl
  · exact (EncodesTo.unique h' h)
  · have h2 : EncodesTo paritySign (p + Point.T2).x (p + Point.T2).y ((s : ℕ) : Fq) := by
      rw [Point.add_T2_x, Point.add_T2_y]; exact h.neg
    exact (EncodesTo.unique h' h2)

/-- and determines it (on the even subgroup) -/
theorem coset_of_encSpec_eq {p p' : E} (he : Point.IsEven p) (he' : Point.IsEven p') {s : ℕ}
    (h : EncSpec p s) (h' : EncSpec p' s) : Point.Coset p p' := by
  obtain ⟨x1, y1, hd1, hxy1⟩ := h.decodesTo one_add_d_nonsquare p.on he
  obtain ⟨x2, y2, hd2, hxy2⟩ := h'.decodesTo one_add_d_nonsquare p'.on he'
  obtain ⟨hx, hy⟩ := hd1.unique hd2
  rw [Point.coset_iff_coords]
  -- (x2,y2) = (x1, ±y1) with the minus sign only at s = 0 where x1 = 0
  have key : (x2 = x1 ∧ y2 = y1) ∨ (x2 = -x1 ∧ y2 = -y1) := by
    rcases hy with hy | ⟨hs0, hy⟩
    · exact Or.inl ⟨hx, hy⟩
    · right
      refine ⟨?_, hy⟩
      obtain ⟨_, t, _, _, hx1, _⟩ := hd1
      rw [hx, hx1, hs0, mul_zero, zero_div, neg_zero]
  obtain ⟨α, hα1, hα2⟩ : ∃ α : Fq, x1 = α * p.x ∧ y1 = α * p.y := by
    rcases hxy1 with ⟨a1, b1⟩ | ⟨a1, b1⟩
    · exact ⟨1, by rw [a1, one_mul], by rw [b1, one_mul]⟩
    · exact ⟨-1, by rw [a1]; ring, by rw [b1]; ring⟩
  obtain ⟨β, hβ1, hβ2⟩ : ∃ β : Fq, p'.x = β * x2 ∧ p'.y = β * y2 := by
    rcases hxy2 with ⟨a2, b2⟩ | ⟨a2, b2⟩
    · exact ⟨1, by rw [a2, one_mul], by rw [b2, one_mul]⟩
    · exact ⟨-1, by rw [a2]; ring, by rw [b2]; ring⟩
  obtain ⟨κ, hκ1, hκ2⟩ : ∃ κ : Fq, x2 = κ * x1 ∧ y2 = κ * y1 := by
    rcases key with ⟨k1, k2⟩ | ⟨k1, k2⟩
    · exact ⟨1, by rw [k1, one_mul], by rw [k2, one_mul]⟩
    · exact ⟨-1, by rw [k1]; ring, by rw [k2]; ring⟩
  rw [← Point.coset_iff_coords, ← Point.cross_eq_iff_coset, hβ1, hβ2, hκ1, hκ2, hα1, hα2]
  ring

end Model
