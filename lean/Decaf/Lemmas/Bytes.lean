/- little-endian byte strings and naturals -/
import Mathlib.Tactic.Ring
import Mathlib.Tactic.Linarith
import Mathlib.Tactic.NormNum
import Decaf.Model.Field

namespace Model

theorem toLeBytes_length (x n : ℕ) : (toLeBytes x n).length = n := by
  induction n generalizing x with
  | zero => rfl
  | succ n ih => simp [toLeBytes, ih]

theorem toLeBytes_lt (x n : ℕ) : ∀ b ∈ toLeBytes x n, b < 256 := by
  induction n generalizing x with
  | zero => intro b hb; simp [toLeBytes] at hb
  | succ n ih =>
    intro b hb
    simp only [toLeBytes, List.mem_cons] at hb
    rcases hb with rfl | hb
    · exact Nat.mod_lt _ (by norm_num)
    · exact ih _ b hb

theorem leBytes_toLeBytes (x n : ℕ) (h : x < 256 ^ n) : leBytes (toLeBytes x n) = x := by
  induction n generalizing x with
  | zero => simp at h; subst h; rfl
  | succ n ih =>
    simp only [toLeBytes, leBytes]
    have hx : x / 256 < 256 ^ n := by
      rw [Nat.div_lt_iff_lt_mul (by norm_num)]
      calc x < 256 ^ (n + 1) := h
        _ = 256 ^ n * 256 := by rw [pow_succ]
    rw [ih _ hx]
    exact Nat.mod_add_div x 256

theorem leBytes_lt (bs : List ℕ) (h : ∀ b ∈ bs, b < 256) : leBytes bs < 256 ^ bs.length := by
  induction bs with
  | nil => simp [leBytes]
  | cons b bs ih =>
    have hb := h b List.mem_cons_self
    have := ih (fun x hx => h x (List.mem_cons_of_mem _ hx))
    simp only [leBytes, List.length_cons, pow_succ]
    nlinarith

theorem toLeBytes_leBytes (bs : List ℕ) (h : ∀ b ∈ bs, b < 256) : toLeBytes (leBytes bs) bs.length = bs := by
  induction bs with
  | nil => rfl
  | cons b bs ih =>
    have hb := h b List.mem_cons_self
    have := ih (fun x hx => h x (List.mem_cons_of_mem _ hx))
    simp only [leBytes, List.length_cons, toLeBytes]
    have h1 : (b + 256 * leBytes bs) % 256 = b := by omega
    have h2 : (b + 256 * leBytes bs) / 256 = leBytes bs := by omega
    rw [h1, h2, this]

/-- a byte string is determined by its value (for a fixed length) -/
theorem leBytes_injective {a b : List ℕ} (hlen : a.length = b.length) (ha : ∀ x ∈ a, x < 256) (hb : ∀ x ∈ b, x < 256)
    (h : leBytes a = leBytes b) : a = b := by
  rw [← toLeBytes_leBytes a ha, ← toLeBytes_leBytes b hb, h, hlen]

theorem getD_mul_le_leBytes (bs : List ℕ) (i : ℕ) : bs.getD i 0 * 256 ^ i ≤ leBytes bs := by
  induction bs generalizing i with
  | nil => simp [leBytes]
  | cons b bs ih =>
    cases i with
    | zero => simp [leBytes]
    | succ i =>
      have := ih i
      simp only [List.getD_cons_succ, leBytes, pow_succ]
      nlinarith

/-- the last byte of the 32-byte little-endian form of `x < 2^253` has its top three bits clear -/
theorem top_bits_clear (x : ℕ) (h : x < 2 ^ 253) : (toLeBytes x 32).getD 31 0 < 32 := by
  have hx : x < 256 ^ 32 := lt_trans h (by norm_num)
  have := getD_mul_le_leBytes (toLeBytes x 32) 31
  rw [leBytes_toLeBytes x 32 hx] at this
  by_contra hc
  have : 32 * 256 ^ 31 ≤ x := le_trans (Nat.mul_le_mul_right _ (not_lt.mp hc)) this
  have : (2 : ℕ) ^ 253 ≤ x := by
    calc (2 : ℕ) ^ 253 = 32 * 256 ^ 31 := by norm_num
      _ ≤ x := this
  omega

end Model
