/-
The executable encoder / decoder (`Model/Curve.lean`: `Ext.encodeField`, `decode32`) refine the field-generic
`encodeF` / `decodeF` of `Spec/Encoding.lean` over `ZMod q`, with the parity sign and with ANY square-root routine
`sr` that meets the four-case contract at the level of canonical naturals.
-/
import Decaf.Lemmas.ModelCurve
import Decaf.Spec.Encoding

namespace Model
open Edwards Decaf

/-- `1 + d` is not a square in Fq (kernel-evaluated Euler criterion, C17 fact) -/
theorem one_add_d_nonsquare : ¬ IsSquare (1 + params.d) := by
  have h : ¬ IsSquare ((3022 : ℕ) : Fq) := by
    apply not_isSquare_of_powMod; decide +kernel
  have : (1 : Fq) + params.d = ((3022 : ℕ) : Fq) := by
    show (1 : Fq) + ((cD : ℕ) : Fq) = _
    rw [cD_eq]; norm_num
  rwa [this]

/-- `ZETA` is not a square in Fq -/
theorem zeta_nonsquare : ¬ IsSquare ((ZETA : ℕ) : Fq) := by
  apply not_isSquare_of_powMod; decide +kernel

/-! ### the parity sign -/

theorem q_odd : q % 2 = 1 := by decide +kernel

/-- src/sign.rs on `ZMod q`: negative = odd canonical representative -/
def paritySign : Sign Fq where
  neg z := z.val % 2 == 1
  neg_zero := by simp
  neg_neg z hz := by
    have hv : z.val ≠ 0 := by rwa [Ne, ZMod.val_eq_zero]
    have hlt : z.val < q := ZMod.val_lt z
    rw [ZMod.neg_val]
    simp only [hz, if_false]
    have := q_odd
    rcases Nat.mod_two_eq_zero_or_one z.val with h | h
    · have : (q - z.val) % 2 = 1 := by omega
      simp [h, this]
    · have : (q - z.val) % 2 = 0 := by omega
      simp [h, this]

theorem isNeg_eq {a : ℕ} (ha : a < q) : isNeg a = paritySign.neg (a : Fq) := by
  unfold isNeg paritySign
  simp only [val_cast_of_lt ha]

theorem fabs_lt (a : ℕ) (ha : a < q) : fabs a < q := by
  unfold fabs; split
  · exact fneg_lt q_pos a
  · exact ha

theorem cast_fabs {a : ℕ} (ha : a < q) : ((fabs a : ℕ) : Fq) = paritySign.abs (a : Fq) := by
  unfold fabs Sign.abs
  rw [isNeg_eq ha]
  split <;> simp

/-! ### the contract of the square-root routine, on canonical naturals -/

structure SRContract (sr : SR) : Prop where
  total : ∀ n d, n < q → d < q → ∃ f y, sr n d = some (f, y) ∧ y < q
  num_zero : ∀ d f y, d < q → sr 0 d = some (f, y) → f = true ∧ y = 0
  den_zero : ∀ n f y, n < q → n ≠ 0 → sr n 0 = some (f, y) → f = false ∧ y = 0
  square : ∀ n d f y, n < q → d < q → n ≠ 0 → d ≠ 0 → sr n d = some (f, y) → IsSquare ((n : Fq) / (d : Fq)) →
    f = true ∧ (y : Fq) ^ 2 * (d : Fq) = (n : Fq)
  nonsquare : ∀ n d f y, n < q → d < q → n ≠ 0 → d ≠ 0 → sr n d = some (f, y) → ¬ IsSquare ((n : Fq) / (d : Fq)) →
    f = false ∧ (y : Fq) ^ 2 * (d : Fq) = (ZETA : Fq) * (n : Fq)

/-- the routine as a function on Fq -/
def srFq (sr : SR) (a b : Fq) : Bool × Fq :=
  match sr a.val b.val with
  | some (f, y) => (f, (y : Fq))
  | none => (false, 0)

theorem srFq_cast (sr : SR) {n d : ℕ} (hn : n < q) (hd : d < q) {f : Bool} {y : ℕ} (h : sr n d = some (f, y)) :
    srFq sr (n : Fq) (d : Fq) = (f, (y : Fq)) := by
  unfold srFq
  rw [val_cast_of_lt hn, val_cast_of_lt hd, h]

/-- a routine meeting the contract on naturals is a `SqrtRatio` on Fq -/
def SRContract.toSqrtRatio {sr : SR} (h : SRContract sr) : SqrtRatio Fq (ZETA : Fq) where
  sr := srFq sr
  num_zero den := by
    obtain ⟨f, y, hs, _⟩ := h.total 0 den.val q_pos (ZMod.val_lt den)
    obtain ⟨rfl, rfl⟩ := h.num_zero den.val f y (ZMod.val_lt den) hs
    unfold srFq; rw [ZMod.val_zero, hs]; simp
  den_zero num hnum := by
    have hv : num.val ≠ 0 := by rwa [Ne, ZMod.val_eq_zero]
    obtain ⟨f, y, hs, _⟩ := h.total num.val 0 (ZMod.val_lt num) q_pos
    obtain ⟨rfl, rfl⟩ := h.den_zero num.val f y (ZMod.val_lt num) hv hs
    unfold srFq; rw [ZMod.val_zero, hs]; simp
  square num den hnum hden hsq := by
    have hv : num.val ≠ 0 := by rwa [Ne, ZMod.val_eq_zero]
    have hw : den.val ≠ 0 := by rwa [Ne, ZMod.val_eq_zero]
    obtain ⟨f, y, hs, _⟩ := h.total num.val den.val (ZMod.val_lt num) (ZMod.val_lt den)
    have := h.square num.val den.val f y (ZMod.val_lt num) (ZMod.val_lt den) hv hw hs
      (by rwa [ZMod.natCast_zmod_val, ZMod.natCast_zmod_val])
    rw [ZMod.natCast_zmod_val, ZMod.natCast_zmod_val] at this
    unfold srFq; rw [hs]; exact this
  nonsquare num den hnum hden hsq := by
    have hv : num.val ≠ 0 := by rwa [Ne, ZMod.val_eq_zero]
    have hw : den.val ≠ 0 := by rwa [Ne, ZMod.val_eq_zero]
    obtain ⟨f, y, hs, _⟩ := h.total num.val den.val (ZMod.val_lt num) (ZMod.val_lt den)
    have := h.nonsquare num.val den.val f y (ZMod.val_lt num) (ZMod.val_lt den) hv hw hs
      (by rwa [ZMod.natCast_zmod_val, ZMod.natCast_zmod_val])
    rw [ZMod.natCast_zmod_val, ZMod.natCast_zmod_val] at this
    unfold srFq; rw [hs]; exact this

/-! ### encoding -/

theorem one_lt_q : 1 < q := lt_trans (by norm_num) q_gt_two

/-- the model encoder computes `encodeF` (for any quadruple of naturals, valid or not) -/
theorem encodeField_cast {sr : SR} (h : SRContract sr) (c : Ext) :
    ∃ s, Ext.encodeField sr c = some s ∧ s < q ∧
      (s : Fq) = encodeF params paritySign h.toSqrtRatio (c.X : Fq) (c.Y : Fq) (c.Z : Fq) (c.T : Fq) := by
  unfold Ext.encodeField
  simp only []
  set den := fmul q (fmul q (fmul q (fadd q c.X c.T) (fsub q c.X c.T)) (fsub q cA cD)) (fsq q c.X) with hden
  have hdlt : den < q := fmul_lt q_pos _ _
  obtain ⟨f, v, hs, hv⟩ := h.total 1 den one_lt_q hdlt
  simp only [hs]
  refine ⟨_, rfl, fabs_lt _ (fmul_lt q_pos _ _), ?_⟩
  have hsr : h.toSqrtRatio.sr 1 (den : Fq) = (f, (v : Fq)) := by
    have := srFq_cast sr one_lt_q hdlt hs
    rw [Nat.cast_one] at this
    exact this
  rw [cast_fabs (fmul_lt q_pos _ _)]
  unfold encodeF
  simp only [cast_fmul, cast_fsub, cast_fadd, cast_fsq, cast_cA]
  rw [cast_fabs (fmul_lt q_pos _ _)]
  have hden' : (den : Fq) = ((c.X : Fq) + c.T) * ((c.X : Fq) - c.T) * (-1 - params.d) * (c.X : Fq) ^ 2 := by
    rw [hden]; simp only [cast_fmul, cast_fsub, cast_fadd, cast_fsq, cast_cA]
    show _ = _ * _ * (-1 - (cD : Fq)) * _
    ring
  rw [← hden', hsr]
  have hd : params.d = (cD : Fq) := rfl
  simp only [cast_fmul, cast_fsub, cast_fadd, hd]

/-! ### decoding -/

set_option maxRecDepth 8000 in
/-- the model decoder computes `decodeF` on the cast of its (canonical) input; it never panics -/
theorem decodeField_cast {sr : SR} (h : SRContract sr) (s : ℕ) (hs : s < q) :
    (decodeF params paritySign h.toSqrtRatio (s : Fq) = none ∧ decodeField sr s = .error .encoding) ∨
    (∃ c : Ext, decodeField sr s = .ok c ∧ c.Z = 1 ∧ c.X < q ∧ c.Y < q ∧ c.T = fmul q c.X c.Y ∧
      decodeF params paritySign h.toSqrtRatio (s : Fq) = some ((c.X : Fq), (c.Y : Fq))) := by
  unfold decodeField decodeF
  rw [isNeg_eq hs]
  by_cases hn : paritySign.neg (s : Fq) = true
  · left; simp [hn]
  · have hn' : paritySign.neg (s : Fq) = false := by simpa using hn
    simp only [hn', Bool.false_eq_true, if_false]
    set den := fmul q (fsub q (fsq q (fsub q 1 (fsq q s))) (fmul q (fmul q 4 cD) (fsq q s))) (fsq q (fsub q 1 (fsq q s))) with hden
    have hdlt : den < q := fmul_lt q_pos _ _
    obtain ⟨f, v, hsr, hv⟩ := h.total 1 den one_lt_q hdlt
    have hd : params.d = (cD : Fq) := rfl
    have hden' : (den : Fq) = ((1 - (s : Fq) ^ 2) ^ 2 - 4 * params.d * (s : Fq) ^ 2) * (1 - (s : Fq) ^ 2) ^ 2 := by
      rw [hden, hd]
      simp only [cast_fmul, cast_fsub, cast_fsq, Nat.cast_one, Nat.cast_ofNat]
      ring
    have hsrq : h.toSqrtRatio.sr 1 (den : Fq) = (f, (v : Fq)) := by
      have := srFq_cast sr one_lt_q hdlt hsr
      rw [Nat.cast_one] at this
      exact this
    simp only [hsr]
    rw [← hden', hsrq]
    cases f with
    | false => left; simp
    | true =>
      right
      simp only [Bool.not_true, Bool.false_eq_true, if_false]
      refine ⟨_, rfl, rfl, fmul_lt q_pos _ _, fmul_lt q_pos _ _, rfl, ?_⟩
      -- the sign test on `check`
      have hchk : isNeg (fmul q (fmul q (fmul q 2 s) (fsub q 1 (fsq q s))) v)
          = paritySign.neg (2 * (s : Fq) * (1 - (s : Fq) ^ 2) * (v : Fq)) := by
        rw [isNeg_eq (fmul_lt q_pos _ _)]
        simp only [cast_fmul, cast_fsub, cast_fsq, Nat.cast_one, Nat.cast_ofNat]
        congr 1; ring
      rw [hchk]
      have hvv : (((if paritySign.neg (2 * (s : Fq) * (1 - (s : Fq) ^ 2) * (v : Fq)) = true then fneg q v else v : ℕ)) : Fq)
          = if paritySign.neg (2 * (s : Fq) * (1 - (s : Fq) ^ 2) * (v : Fq)) = true then -(v : Fq) else (v : Fq) := by
        split <;> simp
      simp only [cast_fmul, cast_fsub, cast_fadd, cast_fsq, Nat.cast_one, Nat.cast_ofNat, hvv, hd]
      congr 1
      · congr 1 <;> ring
      -- (both components are equal up to ring normalisation)

end Model
