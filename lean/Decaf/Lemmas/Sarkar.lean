/-
The table-driven square-root-of-ratio routine of the arkworks backend (`ark_curve/invsqrt.rs`, Sarkar's algorithm
with windows 7+8·5 bits) meets the four-case contract for every input; in particular every table lookup hits
(the model's `sLookup` returns `none` exactly where the Rust `HashMap` index would panic).
-/
import Mathlib.RingTheory.RootsOfUnity.PrimitiveRoots
import Mathlib.GroupTheory.OrderOfElement
import Decaf.Lemmas.TonelliShanks

namespace Model
open Edwards Decaf

/-- kernel-evaluated facts about the constants of the routine (all read from the generated constants) -/
theorem sark_consts : sarkN = 47 ∧ sarkW = 8 ∧ sarkM * 2 ^ 47 = q - 1 ∧ 2 * sarkMm1d2 + 1 = sarkM ∧ sarkG < q ∧
    powMod sarkG (2 ^ 46) q = q - 1 ∧ fmul q zetaToOneMinusMDiv2 (powMod ZETA sarkMm1d2 q) = 1 ∧
    zetaToOneMinusMDiv2 < q := by decide +kernel

/-- the generator of the 2-Sylow subgroup used by the routine -/
def G : Fq := ((sarkG : ℕ) : Fq)

theorem G_eq_zeta_pow : G = ((ZETA : ℕ) : Fq) ^ sarkM := by
  unfold G sarkG; exact cast_powMod _ _ _

theorem G_pow_46 : G ^ (2 ^ 46) = -1 := by
  have := cast_powMod sarkG (2 ^ 46) q
  rw [sark_consts.2.2.2.2.2.1, cast_q_sub_one] at this
  exact this.symm

theorem neg_one_ne_one : (-1 : Fq) ≠ 1 := by
  intro h
  have : (2 : Fq) = 0 := by linear_combination -h
  exact params.h2 this

theorem G_order : orderOf G = 2 ^ 47 := by
  have h2 : Nat.Prime 2 := Nat.prime_two
  apply orderOf_eq_prime_pow (p := 2) (n := 46)
  · rw [G_pow_46]; exact neg_one_ne_one
  · rw [pow_succ, pow_mul, G_pow_46]; norm_num

theorem G_ne_zero : G ≠ 0 := by
  intro h
  have := G_pow_46
  rw [h, zero_pow (by norm_num)] at this
  exact absurd this.symm (by norm_num : (-1 : Fq) ≠ 0)

theorem G_pow_eq_iff (a b : ℕ) : G ^ a = G ^ b ↔ a ≡ b [MOD 2 ^ 47] := by
  have hfin : IsOfFinOrder G := by
    rw [← orderOf_pos_iff, G_order]; norm_num
  have := hfin.pow_eq_pow_iff_modEq (n := a) (m := b)
  rwa [G_order] at this

theorem G_pow_eq_one_iff (a : ℕ) : G ^ a = 1 ↔ 2 ^ 47 ∣ a := by
  have := orderOf_dvd_iff_pow_eq_one (x := G) (n := a)
  rw [G_order] at this
  exact this.symm

/-- everything killed by 2^47 is a power of G -/
theorem exists_pow_of_pow_eq_one {x : Fq} (h : x ^ (2 ^ 47) = 1) : ∃ e, e < 2 ^ 47 ∧ x = G ^ e := by
  have hp : IsPrimitiveRoot G (2 ^ 47) := by
    have := IsPrimitiveRoot.orderOf G
    rwa [G_order] at this
  have : NeZero ((2 : ℕ) ^ 47) := ⟨by norm_num⟩
  obtain ⟨i, hi, hx⟩ := hp.eq_pow_of_pow_eq_one h
  exact ⟨i, hi, hx.symm⟩

/-! ### the tables -/

theorem cast_gtab (k i : ℕ) : ((gtab k i : ℕ) : Fq) = G ^ (i * 2 ^ k) := by
  unfold gtab G; exact cast_powMod _ _ _

theorem gtab_lt (k i : ℕ) : gtab k i < q := powMod_lt _ _ _ one_lt_q

theorem skey_lt (ν : ℕ) : skey ν < q := finv_lt one_lt_q _

theorem cast_skey (ν : ℕ) : ((skey ν : ℕ) : Fq) = (G ^ (ν * 2 ^ 39))⁻¹ := by
  have h39 : sarkN - sarkW = 39 := by rw [sark_consts.1, sark_consts.2.1]
  unfold skey
  rw [cast_finv q_gt_two, cast_powMod, h39]
  rfl

/-- `a` (canonical) is the key of `ν` iff `a · G^(ν·2^39) = 1` -/
theorem eq_skey_iff {a : ℕ} (ha : a < q) (ν : ℕ) : skey ν = a ↔ (a : Fq) * G ^ (ν * 2 ^ 39) = 1 := by
  have hne : G ^ (ν * 2 ^ 39) ≠ 0 := pow_ne_zero _ G_ne_zero
  constructor
  · intro h
    rw [← h, cast_skey, inv_mul_cancel₀ hne]
  · intro h
    apply eq_of_cast_eq (skey_lt ν) ha
    rw [cast_skey]
    exact (eq_inv_of_mul_eq_one_left h).symm

/-- generic: searching the reversed association list built by appending `(key n, n)` -/
theorem table_find_generic (key : ℕ → ℕ) (a : ℕ) (tbl : ℕ → List (ℕ × ℕ)) (h0 : tbl 0 = [])
    (hs : ∀ n, tbl (n + 1) = tbl n ++ [(key n, n)]) : ∀ n : ℕ,
    ((tbl n).reverse.find? (fun kv => kv.1 == a)).map (·.2) = ((List.range n).reverse.find? (fun ν => key ν == a)) := by
  intro n
  induction n with
  | zero => rw [h0]; rfl
  | succ n ih =>
    rw [hs, List.reverse_append, List.range_succ, List.reverse_append]
    simp only [List.reverse_cons, List.reverse_nil, List.nil_append, List.singleton_append, List.find?_cons]
    cases hk : (key n == a) with
    | true => rfl
    | false => exact ih

/-- generic: a predicate with a unique witness below N -/
theorem range_find_unique (P : ℕ → Bool) (ν0 N : ℕ) (hP : ∀ ν, ν < N → (P ν = true ↔ ν = ν0)) :
    ∀ n, n ≤ N → (List.range n).reverse.find? P = if ν0 < n then some ν0 else none := by
  intro n hn
  induction n with
  | zero => simp
  | succ n ih =>
    rw [List.range_succ, List.reverse_append]
    simp only [List.reverse_cons, List.reverse_nil, List.nil_append, List.singleton_append, List.find?_cons]
    cases hh : P n with
    | true =>
      have := (hP n (by omega)).mp hh
      subst this
      simp
    | false =>
      have hne : n ≠ ν0 := fun h0 => by
        have := (hP n (by omega)).mpr h0
        rw [hh] at this; exact absurd this (by simp)
      simp only []
      rw [ih (by omega)]
      by_cases h1 : ν0 < n
      · simp [h1, Nat.lt_succ_of_lt h1]
      · have : ¬ ν0 < n + 1 := by omega
        simp [h1, this]

/-- **every key of the form G^(m·2^39) is in the table**, with value (-m) mod 256 -/
theorem sLookup_spec {a : ℕ} (ha : a < q) (m : ℕ) (hm : (a : Fq) = G ^ (m * 2 ^ 39)) :
    sLookup a = some ((256 - m % 256) % 256) := by
  unfold sLookup sTable
  rw [table_find_generic skey a sTableAux rfl (fun _ => rfl)]
  set ν0 := (256 - m % 256) % 256 with hν0
  have hν0lt : ν0 < 256 := Nat.mod_lt _ (by norm_num)
  have hmatch : ∀ ν, ν < 256 → ((skey ν == a) = true ↔ ν = ν0) := by
    intro ν hν
    rw [beq_iff_eq, eq_skey_iff ha, hm, ← pow_add, G_pow_eq_one_iff]
    have e : m * 2 ^ 39 + ν * 2 ^ 39 = (m + ν) * 2 ^ 39 := by ring
    rw [e]
    constructor
    · intro hd
      have : 2 ^ 8 ∣ m + ν := by
        have h2 : (2 : ℕ) ^ 47 = 2 ^ 8 * 2 ^ 39 := by norm_num
        rw [h2] at hd
        exact (Nat.mul_dvd_mul_iff_right (by norm_num : 0 < 2 ^ 39)).mp hd
      omega
    · intro hν'
      have : 2 ^ 8 ∣ m + ν := by rw [hν', hν0]; omega
      obtain ⟨k, hk⟩ := this
      exact ⟨k, by rw [hk]; ring⟩
  rw [range_find_unique (fun ν => skey ν == a) ν0 256 hmatch 256 (le_refl _)]
  simp [hν0lt]

/-! ### the first phase: x5 = (num/den)^M and uv² = x5·num/den -/

theorem pow_q_sub_one {x : Fq} (hx : x ≠ 0) : x ^ (q - 1) = 1 := ZMod.pow_card_sub_one_eq_one hx

theorem sark_phase1 (num den : Fq) (hd : den ≠ 0) (k a M : ℕ) (hM : M = 2 * k + 1) (ha : 2 * a + 2 = 2 ^ 48)
    (hq : M * 2 ^ 47 = q - 1) :
    let s := den ^ a
    let t := s * s * den
    let w := (num * t) ^ k * s
    let v := w * den
    let uv := w * num
    let x5 := uv * v
    x5 * den ^ M = num ^ M ∧ uv ^ 2 * den = x5 * num := by
  intro s t w v uv x5
  constructor
  · have h1 : x5 * den ^ M = num ^ M * den ^ ((2 * a + 2) * M) := by
      simp only [x5, uv, v, w, t, s, hM]
      ring
    rw [h1, ha]
    have : (2 : ℕ) ^ 48 * M = 2 * (q - 1) := by rw [← hq]; ring
    rw [this, pow_mul, pow_q_sub_one (pow_ne_zero 2 hd), mul_one]
  · simp only [x5, uv, v]; ring

/-! ### the lookups and the final assembly -/

theorem G_pow_congr {a b : ℕ} (h : a = b) : G ^ a = G ^ b := by rw [h]


/-- Euler: an odd power of G is not a square; an even one is -/
theorem G_pow_isSquare_iff (e : ℕ) : IsSquare (G ^ e) ↔ e % 2 = 0 := by
  have hG0 : G ^ e ≠ 0 := pow_ne_zero _ G_ne_zero
  rw [← pow_half_eq_one_iff hG0, ← pow_mul, G_pow_eq_one_iff]
  have hq : (q - 1) / 2 = sarkM * 2 ^ 46 := by
    have h1 : q - 1 = (sarkM * 2 ^ 46) * 2 := by rw [← sark_consts.2.2.1]; ring
    rw [h1, Nat.mul_div_cancel _ (by norm_num)]
  rw [hq]
  have hM : sarkM % 2 = 1 := by
    rw [← sark_consts.2.2.2.1]; generalize sarkMm1d2 = k; omega
  constructor
  · intro hd
    have h2 : (2 : ℕ) ^ 47 = 2 * 2 ^ 46 := by norm_num
    rw [h2, ← mul_assoc, Nat.mul_dvd_mul_iff_right (by norm_num : 0 < 2 ^ 46)] at hd
    have := (Nat.Prime.dvd_mul Nat.prime_two).mp hd
    omega
  · intro he
    obtain ⟨k, hk⟩ : 2 ∣ e := Nat.dvd_of_mod_eq_zero he
    exact ⟨k * sarkM, by rw [hk]; ring⟩

/-- what every stage has to deliver -/
def SarkPost (uv e : ℕ) (r : Option (Bool × ℕ)) : Prop :=
  ∃ res : ℕ, r = some (e % 2 == 0, res) ∧ res < q ∧
    (res : Fq) ^ 2 * G ^ e = (uv : Fq) ^ 2 * (if e % 2 = 0 then 1 else (zetaToOneMinusMDiv2 : Fq) ^ 2 * G)

attribute [local irreducible] powMod gtab sLookup

theorem sarkFin_spec (uv q0 T5 e : ℕ) (hT : (e + T5) % 2 ^ 47 = 0) (hlt : T5 < 2 ^ 47) (hp : T5 % 2 = q0 % 2) :
    SarkPost uv e (some (sarkFin uv q0 T5)) := by
  have hpar : q0 % 2 = e % 2 := by omega
  have hbe : (q0 % 2 == 0) = (e % 2 == 0) := by rw [hpar]
  obtain ⟨t', ht'⟩ : ∃ z, z = (T5 + 1) / 2 := ⟨_, rfl⟩
  obtain ⟨ns, hns⟩ : ∃ z, z = (if (q0 % 2 == 0) = true then 1 else zetaToOneMinusMDiv2) := ⟨_, rfl⟩
  obtain ⟨res, hres⟩ : ∃ z, z = fmul q (fmul q (fmul q (fmul q (fmul q (fmul q (fmul q uv ns) (gtab 0 (t' % 256)))
    (gtab 8 (t' / 2 ^ 8 % 256))) (gtab 16 (t' / 2 ^ 16 % 256))) (gtab 24 (t' / 2 ^ 24 % 256))) (gtab 32 (t' / 2 ^ 32 % 256)))
    (gtab 40 (t' / 2 ^ 40 % 256)) := ⟨_, rfl⟩
  have hfin : sarkFin uv q0 T5 = (e % 2 == 0, res) := by
    unfold sarkFin
    simp only []
    rw [← ht', ← hns, ← hres, hbe]
  have hresc : (res : Fq) = (uv : Fq) * (ns : Fq) * G ^ t' := by
    rw [hres, cast_fmul, cast_fmul, cast_fmul, cast_fmul, cast_fmul, cast_fmul, cast_fmul, cast_gtab, cast_gtab, cast_gtab,
      cast_gtab, cast_gtab, cast_gtab]
    rw [mul_assoc ((uv : Fq) * (ns : Fq)), mul_assoc ((uv : Fq) * (ns : Fq)), mul_assoc ((uv : Fq) * (ns : Fq)),
      mul_assoc ((uv : Fq) * (ns : Fq)), mul_assoc ((uv : Fq) * (ns : Fq))]
    rewrite [← pow_add, ← pow_add, ← pow_add, ← pow_add, ← pow_add]
    exact congrArg (fun z => (uv : Fq) * (ns : Fq) * z) (G_pow_congr (by omega))
  refine ⟨res, by rw [hfin], by rw [hres]; exact fmul_lt q_pos _ _, ?_⟩
  have hGT : G ^ T5 * G ^ e = 1 := by
    rw [← pow_add, G_pow_eq_one_iff, Nat.add_comm]; exact Nat.dvd_of_mod_eq_zero hT
  rw [hresc]
  by_cases hev : e % 2 = 0
  · have hb : (q0 % 2 == 0) = true := by rw [hbe]; simpa using hev
    have h2t : 2 * t' = T5 := by omega
    have hnsc : (ns : Fq) = 1 := by rw [hns]; simp [hb]
    rw [if_pos hev, hnsc]
    have : ((uv : Fq) * 1 * G ^ t') ^ 2 * G ^ e = (uv : Fq) ^ 2 * (G ^ (2 * t') * G ^ e) := by ring
    rw [this, h2t, hGT]
  · have hb : (q0 % 2 == 0) = false := by rw [hbe]; simpa using hev
    have h2t : 2 * t' = T5 + 1 := by omega
    have hnsc : (ns : Fq) = (zetaToOneMinusMDiv2 : Fq) := by rw [hns]; simp [hb]
    rw [if_neg hev, hnsc]
    have : ((uv : Fq) * (zetaToOneMinusMDiv2 : Fq) * G ^ t') ^ 2 * G ^ e =
        (uv : Fq) ^ 2 * ((zetaToOneMinusMDiv2 : Fq) ^ 2 * (G ^ (2 * t') * G ^ e)) := by ring
    rw [this, h2t, pow_succ G T5]
    linear_combination (uv : Fq) ^ 2 * (zetaToOneMinusMDiv2 : Fq) ^ 2 * G * hGT

theorem sarkS5_spec (uv x5 q0 t e : ℕ) (hx5 : (x5 : Fq) = G ^ e)
    (hT : (e + t) % 2 ^ 39 = 0 ∧ t < 2 ^ 39) (hp : t % 2 = q0 % 2) : SarkPost uv e (sarkS5 uv x5 q0 t) := by
  obtain ⟨a5, ha5⟩ : ∃ z, z = fmul q (fmul q (fmul q (fmul q (fmul q x5 (gtab 0 (t % 256))) (gtab 8 (t / 2 ^ 8 % 256)))
    (gtab 16 (t / 2 ^ 16 % 256))) (gtab 24 (t / 2 ^ 24 % 256))) (gtab 32 (t / 2 ^ 32 % 256)) := ⟨_, rfl⟩
  obtain ⟨m, hm⟩ : ∃ z, z = (e + t) / 2 ^ 39 := ⟨_, rfl⟩
  have hac : (a5 : Fq) = G ^ (m * 2 ^ 39) := by
    rewrite [ha5, cast_fmul, cast_fmul, cast_fmul, cast_fmul, cast_fmul, hx5, cast_gtab, cast_gtab, cast_gtab, cast_gtab, cast_gtab,
      ← pow_add, ← pow_add, ← pow_add, ← pow_add, ← pow_add]
    exact G_pow_congr (by omega)
  have L := sLookup_spec (by rw [ha5]; exact fmul_lt q_pos _ _) m hac
  unfold sarkS5
  simp only []
  rw [← ha5, L, Option.bind_some]
  exact sarkFin_spec uv q0 _ e (by omega) (by omega) (by omega)

theorem sarkS4_spec (uv x5 x4 q0 t e : ℕ) (hx5 : (x5 : Fq) = G ^ e) (hx4 : (x4 : Fq) = G ^ (e * 2 ^ 8))
    (hT : (e + t) % 2 ^ 31 = 0 ∧ t < 2 ^ 31) (hp : t % 2 = q0 % 2) : SarkPost uv e (sarkS4 uv x5 x4 q0 t) := by
  obtain ⟨a4, ha4⟩ : ∃ z, z = fmul q (fmul q (fmul q (fmul q x4 (gtab 8 (t % 256))) (gtab 16 (t / 2 ^ 8 % 256)))
    (gtab 24 (t / 2 ^ 16 % 256))) (gtab 32 (t / 2 ^ 24 % 256)) := ⟨_, rfl⟩
  obtain ⟨m, hm⟩ : ∃ z, z = (e + t) / 2 ^ 31 := ⟨_, rfl⟩
  have hac : (a4 : Fq) = G ^ (m * 2 ^ 39) := by
    rewrite [ha4, cast_fmul, cast_fmul, cast_fmul, cast_fmul, hx4, cast_gtab, cast_gtab, cast_gtab, cast_gtab,
      ← pow_add, ← pow_add, ← pow_add, ← pow_add]
    exact G_pow_congr (by omega)
  have L := sLookup_spec (by rw [ha4]; exact fmul_lt q_pos _ _) m hac
  unfold sarkS4
  simp only []
  rw [← ha4, L, Option.bind_some]
  exact sarkS5_spec uv x5 q0 _ e hx5 (by omega) (by omega)

theorem sarkS3_spec (uv x5 x4 x3 q0 t e : ℕ) (hx5 : (x5 : Fq) = G ^ e) (hx4 : (x4 : Fq) = G ^ (e * 2 ^ 8))
    (hx3 : (x3 : Fq) = G ^ (e * 2 ^ 16))
    (hT : (e + t) % 2 ^ 23 = 0 ∧ t < 2 ^ 23) (hp : t % 2 = q0 % 2) : SarkPost uv e (sarkS3 uv x5 x4 x3 q0 t) := by
  obtain ⟨a3, ha3⟩ : ∃ z, z = fmul q (fmul q (fmul q x3 (gtab 16 (t % 256))) (gtab 24 (t / 2 ^ 8 % 256)))
    (gtab 32 (t / 2 ^ 16 % 256)) := ⟨_, rfl⟩
  obtain ⟨m, hm⟩ : ∃ z, z = (e + t) / 2 ^ 23 := ⟨_, rfl⟩
  have hac : (a3 : Fq) = G ^ (m * 2 ^ 39) := by
    rewrite [ha3, cast_fmul, cast_fmul, cast_fmul, hx3, cast_gtab, cast_gtab, cast_gtab, ← pow_add, ← pow_add, ← pow_add]
    exact G_pow_congr (by omega)
  have L := sLookup_spec (by rw [ha3]; exact fmul_lt q_pos _ _) m hac
  unfold sarkS3
  simp only []
  rw [← ha3, L, Option.bind_some]
  exact sarkS4_spec uv x5 x4 q0 _ e hx5 hx4 (by omega) (by omega)

theorem sarkS2_spec (uv x5 x4 x3 x2 q0 t e : ℕ) (hx5 : (x5 : Fq) = G ^ e) (hx4 : (x4 : Fq) = G ^ (e * 2 ^ 8))
    (hx3 : (x3 : Fq) = G ^ (e * 2 ^ 16)) (hx2 : (x2 : Fq) = G ^ (e * 2 ^ 24))
    (hT : (e + t) % 2 ^ 15 = 0 ∧ t < 2 ^ 15) (hp : t % 2 = q0 % 2) : SarkPost uv e (sarkS2 uv x5 x4 x3 x2 q0 t) := by
  obtain ⟨a2, ha2⟩ : ∃ z, z = fmul q (fmul q x2 (gtab 24 (t % 256))) (gtab 32 (t / 2 ^ 8 % 256)) := ⟨_, rfl⟩
  obtain ⟨m, hm⟩ : ∃ z, z = (e + t) / 2 ^ 15 := ⟨_, rfl⟩
  have hac : (a2 : Fq) = G ^ (m * 2 ^ 39) := by
    rewrite [ha2, cast_fmul, cast_fmul, hx2, cast_gtab, cast_gtab, ← pow_add, ← pow_add]
    exact G_pow_congr (by omega)
  have L := sLookup_spec (by rw [ha2]; exact fmul_lt q_pos _ _) m hac
  unfold sarkS2
  simp only []
  rw [← ha2, L, Option.bind_some]
  exact sarkS3_spec uv x5 x4 x3 q0 _ e hx5 hx4 hx3 (by omega) (by omega)

theorem sarkS1_spec (uv x5 x4 x3 x2 x1 e : ℕ) (hx5 : (x5 : Fq) = G ^ e) (hx4 : (x4 : Fq) = G ^ (e * 2 ^ 8))
    (hx3 : (x3 : Fq) = G ^ (e * 2 ^ 16)) (hx2 : (x2 : Fq) = G ^ (e * 2 ^ 24)) (hx1 : (x1 : Fq) = G ^ (e * 2 ^ 32)) :
    SarkPost uv e (sarkS1 uv x5 x4 x3 x2 x1 ((256 - e % 256) % 256)) := by
  obtain ⟨q0, hq0⟩ : ∃ z, z = (256 - e % 256) % 256 := ⟨_, rfl⟩
  rw [← hq0]
  obtain ⟨a1, ha1⟩ : ∃ z, z = fmul q x1 (gtab 32 (q0 % 256)) := ⟨_, rfl⟩
  obtain ⟨m, hm⟩ : ∃ z, z = 2 * ((e + q0) / 256) := ⟨_, rfl⟩
  have hac : (a1 : Fq) = G ^ (m * 2 ^ 39) := by
    rewrite [ha1, cast_fmul, hx1, cast_gtab, ← pow_add]
    exact G_pow_congr (by omega)
  have L := sLookup_spec (by rw [ha1]; exact fmul_lt q_pos _ _) m hac
  unfold sarkS1
  simp only []
  rw [← ha1, L, Option.bind_some]
  exact sarkS2_spec uv x5 x4 x3 x2 q0 _ e hx5 hx4 hx3 hx2 (by omega) (by omega)

/-- the second phase: for `x5 = G^e` all six lookups hit, the flag is the parity of `e` and the result squares to
`uv²·G^{-e}` (times `ζ^{1-M}·G` in the odd case) -/
theorem sarkTail_spec (uv x5 e : ℕ) (hx5e : (x5 : Fq) = G ^ e) : SarkPost uv e (sarkTail uv x5) := by
  obtain ⟨x4, hx4⟩ : ∃ z, z = powMod x5 (2 ^ 8) q := ⟨_, rfl⟩
  obtain ⟨x3, hx3⟩ : ∃ z, z = powMod x4 (2 ^ 8) q := ⟨_, rfl⟩
  obtain ⟨x2, hx2⟩ : ∃ z, z = powMod x3 (2 ^ 8) q := ⟨_, rfl⟩
  obtain ⟨x1, hx1⟩ : ∃ z, z = powMod x2 (2 ^ 8) q := ⟨_, rfl⟩
  obtain ⟨x0, hx0⟩ : ∃ z, z = powMod x1 (2 ^ 7) q := ⟨_, rfl⟩
  have hx4c : (x4 : Fq) = G ^ (e * 2 ^ 8) := by rw [hx4, cast_powMod, hx5e, ← pow_mul]
  have hx3c : (x3 : Fq) = G ^ (e * 2 ^ 16) := by rewrite [hx3, cast_powMod, hx4c, ← pow_mul]; exact G_pow_congr (by ring)
  have hx2c : (x2 : Fq) = G ^ (e * 2 ^ 24) := by rewrite [hx2, cast_powMod, hx3c, ← pow_mul]; exact G_pow_congr (by ring)
  have hx1c : (x1 : Fq) = G ^ (e * 2 ^ 32) := by rewrite [hx1, cast_powMod, hx2c, ← pow_mul]; exact G_pow_congr (by ring)
  have hx0c : (x0 : Fq) = G ^ (e * 2 ^ 39) := by rewrite [hx0, cast_powMod, hx1c, ← pow_mul]; exact G_pow_congr (by ring)
  have L := sLookup_spec (by rw [hx0]; exact powMod_lt _ _ _ one_lt_q) e hx0c
  unfold sarkTail
  simp only []
  rw [← hx4, ← hx3, ← hx2, ← hx1, ← hx0, L, Option.bind_some]
  exact sarkS1_spec uv x5 x4 x3 x2 x1 e hx5e hx4c hx3c hx2c hx1c

attribute [local irreducible] sarkTail in
/-- the routine on non-zero operands -/
theorem sarkar_main (num den : ℕ) (hn : num < q) (hd : den < q) (hn0 : num ≠ 0) (hd0 : den ≠ 0) :
    ∃ (f : Bool) (y : ℕ), sqrtRatioArk num den = some (f, y) ∧ y < q ∧
      (f = true ↔ IsSquare ((num : Fq) / (den : Fq))) ∧
      (y : Fq) ^ 2 * (den : Fq) = if f then (num : Fq) else (ZETA : Fq) * (num : Fq) := by
  have hnq : (num : Fq) ≠ 0 := by rwa [Ne, cast_eq_zero_iff hn]
  have hdq : (den : Fq) ≠ 0 := by rwa [Ne, cast_eq_zero_iff hd]
  obtain ⟨hN, hW, hMq, hMk, hGlt, _, hZ1, hZ1lt⟩ := sark_consts
  have hMk' : sarkM = 2 * sarkMm1d2 + 1 := hMk.symm
  have h47 : 2 ^ sarkN - 1 = 2 ^ 47 - 1 := by rw [hN]
  have ph := sark_phase1 (num : Fq) (den : Fq) hdq sarkMm1d2 (2 ^ 47 - 1) sarkM hMk' (by norm_num) hMq
  simp only [] at ph
  -- name the phase-1 values
  obtain ⟨uv, huv⟩ : ∃ uv, uv = fmul q (fmul q (powMod (fmul q num (fmul q (fsq q (powMod den (2 ^ sarkN - 1) q)) den)) sarkMm1d2 q)
      (powMod den (2 ^ sarkN - 1) q)) num := ⟨_, rfl⟩
  obtain ⟨v, hv⟩ : ∃ v, v = fmul q (fmul q (powMod (fmul q num (fmul q (fsq q (powMod den (2 ^ sarkN - 1) q)) den)) sarkMm1d2 q)
      (powMod den (2 ^ sarkN - 1) q)) den := ⟨_, rfl⟩
  have hrun : sqrtRatioArk num den = sarkTail uv (fmul q uv v) := by
    unfold sqrtRatioArk
    have e1 : (num == 0) = false := by simpa using hn0
    have e2 : (den == 0) = false := by simpa using hd0
    simp only [e1, e2, Bool.false_eq_true, if_false]
    rw [huv, hv]
  have huvc : (uv : Fq) = ((num : Fq) * ((den : Fq) ^ (2 ^ 47 - 1) * (den : Fq) ^ (2 ^ 47 - 1) * (den : Fq))) ^ sarkMm1d2 *
      (den : Fq) ^ (2 ^ 47 - 1) * (num : Fq) := by
    rw [huv, h47, cast_fmul, cast_fmul, cast_powMod, cast_fmul, cast_fmul, cast_fsq, cast_powMod]
  have hvc : (v : Fq) = ((num : Fq) * ((den : Fq) ^ (2 ^ 47 - 1) * (den : Fq) ^ (2 ^ 47 - 1) * (den : Fq))) ^ sarkMm1d2 *
      (den : Fq) ^ (2 ^ 47 - 1) * (den : Fq) := by
    rw [hv, h47, cast_fmul, cast_fmul, cast_powMod, cast_fmul, cast_fmul, cast_fsq, cast_powMod]
  clear huv hv
  have hx5c : ((fmul q uv v : ℕ) : Fq) = (uv : Fq) * (v : Fq) := cast_fmul _ _
  have hph1 : ((fmul q uv v : ℕ) : Fq) * (den : Fq) ^ sarkM = (num : Fq) ^ sarkM := by rw [hx5c, huvc, hvc]; exact ph.1
  have hph2 : (uv : Fq) ^ 2 * (den : Fq) = ((fmul q uv v : ℕ) : Fq) * (num : Fq) := by rw [hx5c, huvc, hvc]; exact ph.2
  clear huvc hvc ph
  generalize fmul q uv v = x5 at *
  have hx5pow : (x5 : Fq) ^ (2 ^ 47) = 1 := by
    have h1 := congrArg (fun z => z ^ (2 ^ 47)) hph1
    simp only [mul_pow, ← pow_mul, hMq] at h1
    rwa [pow_q_sub_one hdq, pow_q_sub_one hnq, mul_one] at h1
  obtain ⟨e, he, hx5e⟩ := exists_pow_of_pow_eq_one hx5pow
  obtain ⟨res, hres, hlt, hsq⟩ := sarkTail_spec uv x5 e hx5e
  refine ⟨(e % 2 == 0), res, by rw [hrun, hres], hlt, ?_, ?_⟩
  · -- the flag is the squareness of the ratio
    have hρM : ((num : Fq) / (den : Fq)) ^ sarkM = G ^ e := by
      rw [div_pow, div_eq_iff (pow_ne_zero _ hdq), ← hx5e]; exact hph1.symm
    have hρ0 : (num : Fq) / (den : Fq) ≠ 0 := div_ne_zero hnq hdq
    rw [beq_iff_eq, ← G_pow_isSquare_iff, ← hρM]
    constructor
    · rintro ⟨u, hu⟩
      refine ⟨u / ((num : Fq) / (den : Fq)) ^ sarkMm1d2, ?_⟩
      have hk : ((num : Fq) / (den : Fq)) ^ sarkM = ((num : Fq) / (den : Fq)) * (((num : Fq) / (den : Fq)) ^ sarkMm1d2) ^ 2 := by
        rw [hMk', pow_succ, pow_mul, mul_comm]; ring
      have hne : ((num : Fq) / (den : Fq)) ^ sarkMm1d2 ≠ 0 := pow_ne_zero _ hρ0
      rw [div_mul_div_comm, eq_div_iff (mul_ne_zero hne hne), ← hu, hk]; ring
    · rintro ⟨u, hu⟩
      exact ⟨u ^ sarkM, by rw [hu, mul_pow]⟩
  · -- the value: res²·den·G^e = uv²·den·c = x5·num·c = G^e·num·c
    have hGe : G ^ e ≠ 0 := pow_ne_zero _ G_ne_zero
    apply mul_right_cancel₀ hGe
    have h1 : (res : Fq) ^ 2 * (den : Fq) * G ^ e = ((uv : Fq) ^ 2 * (den : Fq)) *
        (if e % 2 = 0 then 1 else (zetaToOneMinusMDiv2 : Fq) ^ 2 * G) := by
      linear_combination (den : Fq) * hsq
    rw [h1, hph2, hx5e]
    by_cases hev : e % 2 = 0
    · have hb : (e % 2 == 0) = true := by simpa using hev
      rw [if_pos hev, hb, if_pos rfl]; ring
    · have hb : (e % 2 == 0) = false := by simpa using hev
      have hZ : (zetaToOneMinusMDiv2 : Fq) * (ZETA : Fq) ^ sarkMm1d2 = 1 := by
        have := congrArg (Nat.cast : ℕ → Fq) hZ1
        rwa [cast_fmul, cast_powMod, Nat.cast_one] at this
      have hGz : G = (ZETA : Fq) * ((ZETA : Fq) ^ sarkMm1d2) ^ 2 := by
        rw [G_eq_zeta_pow, hMk', pow_succ, pow_mul, mul_comm]; ring
      rw [if_neg hev, hb, if_neg (by simp)]
      calc G ^ e * (num : Fq) * ((zetaToOneMinusMDiv2 : Fq) ^ 2 * G)
          = G ^ e * (num : Fq) * ((zetaToOneMinusMDiv2 : Fq) ^ 2 * ((ZETA : Fq) * ((ZETA : Fq) ^ sarkMm1d2) ^ 2)) := by rw [← hGz]
        _ = (ZETA : Fq) * (num : Fq) * G ^ e * ((zetaToOneMinusMDiv2 : Fq) * (ZETA : Fq) ^ sarkMm1d2) ^ 2 := by ring
        _ = (ZETA : Fq) * (num : Fq) * G ^ e := by rw [hZ]; ring

/-- **the arkworks routine meets the square-root contract** — in particular none of its six `HashMap` indexings can
miss (`total`: the result is never `none`, the model's rendering of the panic) -/
theorem sarkar_contract : SRContract sqrtRatioArk := by
  constructor
  · intro n d hn hd
    by_cases hn0 : n = 0
    · subst hn0; exact ⟨true, 0, by unfold sqrtRatioArk; simp, q_pos⟩
    · by_cases hd0 : d = 0
      · subst hd0
        refine ⟨false, 0, ?_, q_pos⟩
        unfold sqrtRatioArk
        have h1 : (n == 0) = false := by simpa using hn0
        simp [h1]
      · obtain ⟨f, y, h, hy, _⟩ := sarkar_main n d hn hd hn0 hd0
        exact ⟨f, y, h, hy⟩
  · intro d f y _ h
    unfold sqrtRatioArk at h
    simp at h
    exact ⟨by simp [h.1], by simp [h.2]⟩
  · intro n f y _ hn0 h
    unfold sqrtRatioArk at h
    have h1 : (n == 0) = false := by simpa using hn0
    simp [h1] at h
    exact ⟨by simp [h.1], by simp [h.2]⟩
  · intro n d f y hn hd hn0 hd0 h hsq
    obtain ⟨f', y', hy', _, hf, hspec⟩ := sarkar_main n d hn hd hn0 hd0
    rw [hy'] at h
    injection h with h; injection h with h1 h2
    subst h1; subst h2
    have hf' : f' = true := hf.mpr hsq
    subst hf'
    exact ⟨rfl, by simpa using hspec⟩
  · intro n d f y hn hd hn0 hd0 h hns
    obtain ⟨f', y', hy', _, hf, hspec⟩ := sarkar_main n d hn hd hn0 hd0
    rw [hy'] at h
    injection h with h; injection h with h1 h2
    subst h1; subst h2
    have hf' : f' = false := by
      cases f' with
      | false => rfl
      | true => exact absurd (hf.mp rfl) hns
    subst hf'
    exact ⟨rfl, by simpa using hspec⟩

end Model
