/-
`Gen.Formulas.min_add` is regenerated from src/min_curve/element.rs `impl Add for Element` on every run (translator/extract_formulas.py).
Here: it equals the hand-written model for all inputs; `Code.minAdd` is the translated code under the model's calling
convention, which the theorems of Props/Translated/ are stated about.
-/
import Decaf.Lemmas.Formulas.Tactic

namespace Formulas
open Model

set_option linter.unusedVariables false in
set_option maxHeartbeats 1600000 in
theorem min_add_eq (sr : SR) (p1 p2 : Ext) : Gen.Formulas.min_add p1.X p1.Y p1.Z p1.T p2.X p2.Y p2.Z p2.T = p1.addMin p2 := by
  unfold Gen.Formulas.min_add Ext.addMin
  formula_eq sr

end Formulas

namespace Code
open Model

/-- the translated Rust code, as a function of the model's types -/
def minAdd (p1 p2 : Ext) : Ext := Gen.Formulas.min_add p1.X p1.Y p1.Z p1.T p2.X p2.Y p2.Z p2.T

theorem minAdd_eq : @minAdd = Ext.addMin := by
  funext p1 p2; exact Formulas.min_add_eq (fun _ _ => none) p1 p2

end Code
