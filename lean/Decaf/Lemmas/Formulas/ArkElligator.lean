/-
`Gen.Formulas.ark_elligator` is regenerated from src/ark_curve/elligator.rs `Element::elligator_map` on every run (translator/extract_formulas.py).
Here: it equals the hand-written model for all inputs; `Code.arkElligator` is the translated code under the model's calling
convention, which the theorems of Props/Translated/ are stated about.
-/
import Decaf.Lemmas.Formulas.Tactic

namespace Formulas
open Model

set_option linter.unusedVariables false in
set_option maxHeartbeats 1600000 in
theorem ark_elligator_eq (sr : SR) (r0 : ℕ) : Gen.Formulas.ark_elligator sr r0 = elligator sr ZETA r0 := by
  unfold Gen.Formulas.ark_elligator elligator
  formula_eq sr

end Formulas

namespace Code
open Model

/-- the translated Rust code, as a function of the model's types -/
def arkElligator (sr : SR) (r0 : ℕ) : Option Ext := Gen.Formulas.ark_elligator sr r0

theorem arkElligator_eq : @arkElligator = fun sr r0 => elligator sr ZETA r0 := by
  funext sr r0; exact Formulas.ark_elligator_eq sr r0

end Code
