/-
`Gen.Formulas.ark_decompress` is regenerated from src/ark_curve/encoding.rs `Encoding::vartime_decompress` on every run (translator/extract_formulas.py).
Here: it equals the hand-written model for all inputs; `Code.arkDecode` is the translated code under the model's calling
convention, which the theorems of Props/Translated/ are stated about.
-/
import Decaf.Lemmas.Formulas.Tactic

namespace Formulas
open Model

set_option linter.unusedVariables false in
set_option maxHeartbeats 1600000 in
theorem ark_decompress_eq (sr : SR) (bytes : List ℕ) : Gen.Formulas.ark_decompress sr bytes = decode32 sr bytes := by
  unfold Gen.Formulas.ark_decompress decode32 decodeField
  formula_eq sr

end Formulas

namespace Code
open Model

/-- the translated Rust code, as a function of the model's types -/
def arkDecode (sr : SR) (bytes : List ℕ) : Except DecErr Ext := Gen.Formulas.ark_decompress sr bytes

theorem arkDecode_eq : @arkDecode = decode32 := by
  funext sr b; exact Formulas.ark_decompress_eq sr b

end Code
