/-
Every operator form of the crate (`impl Add/Sub/Neg/Mul/…Assign` for `Element`, `AffinePoint`, `Fr`, in both backends;
77 impl blocks on the pinned tree), regenerated on every run by translator/extract_opforms.py as a function on the
denoted group element, computes the group operation — in every additive commutative group, hence on the curve group.
(Assume-guarantee over the forwarding graph: inside a body, `+ - neg •` are the operations of the forms they forward to
or of the backend's base arithmetic, which C04/C05 prove correct; see the translator's header.)
-/
import Decaf.Generated.OpForms
import Mathlib.Tactic.Abel
import Mathlib.Tactic.Ring
import Mathlib.Tactic.Positivity
import Mathlib.Algebra.Group.Basic
import Mathlib.Algebra.BigOperators.Group.List.Basic

namespace Formulas.OpForms
open Gen.OpForms

variable {G : Type} [AddCommGroup G]

theorem addForms_correct : ∀ f ∈ (addForms : List (String × (G → G → G))), ∀ a b, f.2 a b = a + b := by
  simp only [addForms, List.forall_mem_cons]
  repeat' (first | constructor | (intro a b; first | trivial | abel) | (intro f hf; simp at hf))

theorem subForms_correct : ∀ f ∈ (subForms : List (String × (G → G → G))), ∀ a b, f.2 a b = a - b := by
  simp only [subForms, List.forall_mem_cons]
  repeat' (first | constructor | (intro a b; first | trivial | abel) | (intro f hf; simp at hf))

theorem negForms_correct : ∀ f ∈ (negForms : List (String × (G → G))), ∀ a, f.2 a = -a := by
  simp only [negForms, List.forall_mem_cons]
  repeat' (first | constructor | (intro a; first | trivial | abel) | (intro f hf; simp at hf))

theorem mulForms_correct : ∀ f ∈ (mulForms : List (String × (ℕ → G → G))), ∀ k a, f.2 k a = k • a := by
  simp only [mulForms, List.forall_mem_cons]
  repeat' (first | constructor | (intro k a; first | trivial | abel) | (intro f hf; simp at hf))

/-! ### `impl Sum<…> for Element` and `Element::vartime_multiscalar_mul` -/

theorem foldl_add_eq_sum (l : List G) : ∀ acc : G, l.foldl (fun x y => x + y) acc = acc + l.sum := by
  induction l with
  | nil => intro acc; simp
  | cons x xs ih => intro acc; rw [List.foldl_cons, ih, List.sum_cons]; abel

theorem foldl_add_map {α : Type} (g : α → G) (l : List α) : ∀ acc : G, l.foldl (fun acc x => acc + g x) acc = acc + (l.map g).sum := by
  induction l with
  | nil => intro acc; simp
  | cons x xs ih => intro acc; rw [List.foldl_cons, ih, List.map_cons, List.sum_cons]; abel

/-- every `Sum` form returns the group sum of what the iterator yields (the empty sum is 0) -/
theorem gsumForms_correct : ∀ f ∈ (gsumForms : List (String × (List G → G))), ∀ l, f.2 l = l.sum := by
  simp only [gsumForms, List.forall_mem_cons]
  repeat' (first | constructor | (intro l; first | trivial | rfl | (simp only [foldl_add_eq_sum, zero_add]) | (simp only [foldl_add_map, foldl_add_eq_sum, zero_add, List.map_id', List.map_id])) | (intro f hf; simp at hf))

/-- the multiscalar multiplication is the sum of the products, over the pairs `zip` forms (the shorter list decides) -/
theorem msmForms_correct : ∀ f ∈ (msmForms : List (String × (List ℕ → List G → G))), ∀ ss ps,
    f.2 ss ps = ((ss.zip ps).map (fun sp => sp.1 • sp.2)).sum := by
  simp only [msmForms, List.forall_mem_cons]
  repeat' (first | constructor | (intro ss ps; first | trivial | rfl | (simp only [foldl_add_map, foldl_add_eq_sum, zero_add]) | (simp only [foldl_add_map, foldl_add_eq_sum, zero_add, add_comm])) | (intro f hf; simp at hf))

end Formulas.OpForms

/-! ### the operator forms of the three prime fields (src/fields/{fq,fr,fp}/ops.rs; 87 impl blocks on the pinned tree),
on the denoted field element: every form computes the field operation, in every field. -/
namespace Formulas.FieldOpForms
open Gen.FieldOpForms

variable {K : Type} [Field K]

theorem foldl_add_eq_sum (l : List K) : ∀ acc : K, l.foldl (fun x y => x + y) acc = acc + l.sum := by
  induction l with
  | nil => intro acc; simp
  | cons x xs ih => intro acc; rw [List.foldl_cons, ih, List.sum_cons]; ring

theorem foldl_mul_eq_prod (l : List K) : ∀ acc : K, l.foldl (fun x y => x * y) acc = acc * l.prod := by
  induction l with
  | nil => intro acc; simp
  | cons x xs ih => intro acc; rw [List.foldl_cons, ih, List.prod_cons]; ring

theorem addForms_correct : ∀ f ∈ (addForms : List (String × (K → K → K))), ∀ a b, f.2 a b = a + b := by
  simp only [addForms, List.forall_mem_cons]
  repeat' (first | constructor | (intro a b; first | trivial | ring) | (intro f hf; simp at hf))

theorem subForms_correct : ∀ f ∈ (subForms : List (String × (K → K → K))), ∀ a b, f.2 a b = a - b := by
  simp only [subForms, List.forall_mem_cons]
  repeat' (first | constructor | (intro a b; first | trivial | ring) | (intro f hf; simp at hf))

theorem mulForms_correct : ∀ f ∈ (mulForms : List (String × (K → K → K))), ∀ a b, f.2 a b = a * b := by
  simp only [mulForms, List.forall_mem_cons]
  repeat' (first | constructor | (intro a b; first | trivial | ring) | (intro f hf; simp at hf))

/-- division forms: `a / b` (the implementation panics on `b = 0`; the denotation `a * b⁻¹` is the same function) -/
theorem divForms_correct : ∀ f ∈ (divForms : List (String × (K → K → K))), ∀ a b, f.2 a b = a / b := by
  simp only [divForms, List.forall_mem_cons]
  repeat' (first | constructor | (intro a b; first | trivial | ring) | (intro f hf; simp at hf))

theorem negForms_correct : ∀ f ∈ (negForms : List (String × (K → K))), ∀ a, f.2 a = -a := by
  simp only [negForms, List.forall_mem_cons]
  repeat' (first | constructor | (intro a; first | trivial | ring) | (intro f hf; simp at hf))

theorem sumForms_correct : ∀ f ∈ (sumForms : List (String × (List K → K))), ∀ l, f.2 l = l.sum := by
  simp only [sumForms, List.forall_mem_cons]
  repeat' (first | constructor | (intro l; first | trivial | (simp only [foldl_add_eq_sum, zero_add])) | (intro f hf; simp at hf))

theorem prodForms_correct : ∀ f ∈ (prodForms : List (String × (List K → K))), ∀ l, f.2 l = l.prod := by
  simp only [prodForms, List.forall_mem_cons]
  repeat' (first | constructor | (intro l; first | trivial | (simp only [foldl_mul_eq_prod, one_mul])) | (intro f hf; simp at hf))

end Formulas.FieldOpForms

/-! ### `impl From<u128 | u64 | u32 | u16 | u8 | bool>` of the three fields: the integer itself -/
namespace Formulas.FieldOpForms
open Gen.FieldOpForms

variable {K : Type} [Field K]

/-- the integer denoted by little-endian 64-bit limbs -/
def limbsVal : List ℕ → ℕ
  | [] => 0
  | l :: ls => l + 2 ^ 64 * limbsVal ls

/-- with `from_le_limbs` meeting its contract (the element denoted by the limbs: C11), every `From<integer>` form maps
n < 2^128 (every value of the source types) to n itself -/
theorem fromIntForms_correct (fromLimbs : List ℕ → K) (hL : ∀ l, fromLimbs l = ((limbsVal l : ℕ) : K)) :
    ∀ f ∈ (fromIntForms : List (String × ((List ℕ → K) → ℕ → K))), ∀ n : ℕ, n < 2 ^ 128 → f.2 fromLimbs n = (n : K) := by
  have hdiv : ∀ n : ℕ, n < 2 ^ 128 → n / 2 ^ 64 % 2 ^ 64 = n / 2 ^ 64 := by
    intro n hn
    apply Nat.mod_eq_of_lt
    rw [Nat.div_lt_iff_lt_mul (by positivity), ← pow_add]
    exact hn
  have key4 : ∀ n : ℕ, n < 2 ^ 128 → limbsVal [n % 2 ^ 64, n / 2 ^ 64 % 2 ^ 64, 0, 0] = n := by
    intro n hn
    simp only [limbsVal, hdiv n hn, Nat.mul_zero, Nat.add_zero]
    exact Nat.mod_add_div n (2 ^ 64)
  have key6 : ∀ n : ℕ, n < 2 ^ 128 → limbsVal [n % 2 ^ 64, n / 2 ^ 64 % 2 ^ 64, 0, 0, 0, 0] = n := by
    intro n hn
    simp only [limbsVal, hdiv n hn, Nat.mul_zero, Nat.add_zero]
    exact Nat.mod_add_div n (2 ^ 64)
  simp only [fromIntForms, List.forall_mem_cons]
  repeat' (first
    | constructor
    | (intro n hn; first | (rw [hL, key4 n hn]) | (rw [hL, key6 n hn]))
    | (intro f hf; simp at hf))

end Formulas.FieldOpForms
