/-
Every operator form of the crate (`impl Add/Sub/Neg/Mul/…Assign` for `Element`, `AffinePoint`, `Fr`, in both backends;
77 impl blocks on the pinned tree), regenerated on every run by translator/extract_opforms.py as a function on the
denoted group element, computes the group operation — in every additive commutative group, hence on the curve group.
(Assume-guarantee over the forwarding graph: inside a body, `+ - neg •` are the operations of the forms they forward to
or of the backend's base arithmetic, which C04/C05 prove correct; see the translator's header.)
-/
import Decaf.Generated.OpForms
import Mathlib.Tactic.Abel
import Mathlib.Algebra.Group.Basic

namespace Formulas.OpForms
open Gen.OpForms

variable {G : Type} [AddCommGroup G]

theorem addForms_correct : ∀ f ∈ (addForms : List (String × (G → G → G))), ∀ a b, f.2 a b = a + b := by
  simp only [addForms, List.forall_mem_cons]
  repeat' (first | constructor | (intro a b; first | trivial | abel) | (intro f hf; simp at hf))

theorem subForms_correct : ∀ f ∈ (subForms : List (String × (G → G → G))), ∀ a b, f.2 a b = a - b := by
  simp only [subForms, List.forall_mem_cons]
  repeat' (first | constructor | (intro a b; first | trivial | abel) | (intro f hf; simp at hf))

theorem negForms_correct : ∀ f ∈ (negForms : List (String × (G → G))), ∀ a, f.2 a = -a := by
  simp only [negForms, List.forall_mem_cons]
  repeat' (first | constructor | (intro a; first | trivial | abel) | (intro f hf; simp at hf))

theorem mulForms_correct : ∀ f ∈ (mulForms : List (String × (ℕ → G → G))), ∀ k a, f.2 k a = k • a := by
  simp only [mulForms, List.forall_mem_cons]
  repeat' (first | constructor | (intro k a; first | trivial | abel) | (intro f hf; simp at hf))

end Formulas.OpForms
