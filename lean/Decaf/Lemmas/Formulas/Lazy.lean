/-
The lazily evaluated variable: `LazyElementVar::element` / `::encoding` of src/ark_curve/r1cs/lazy.rs, regenerated on
every run by translator/extract_lazy.py (symbolic execution of both bodies in each of the three states of the `RefCell`),
are the hand model's `Lazy.step` — same new state, same gadget emitted, same satisfaction — and the value they return is
the corresponding component of the new state.
-/
import Decaf.Generated.Lazy
import Mathlib.Tactic.Basic

namespace Formulas
open Model

theorem lazy_element_eq (st : R1cs.Lazy) (h : R1cs.Hint) :
    Gen.Lazy.element st h =
      ((st.step .elem h).1, (st.step .elem h).2.1, (st.step .elem h).2.2, ((st.step .elem h).1.elemVal).getD (0, 0)) := by
  cases st <;> first
    | with_reducible rfl
    | (simp only [Gen.Lazy.element, R1cs.Lazy.step, R1cs.Lazy.elemVal, R1cs.Lazy.encVal, Option.getD_some]; done)
    | (simp only [Gen.Lazy.element, R1cs.Lazy.step, R1cs.Lazy.elemVal, R1cs.Lazy.encVal, Option.getD_some]
       generalize R1cs.decompress _ _ = o
       rcases o with ⟨sat, x, y⟩
       rfl)

theorem lazy_encoding_eq (st : R1cs.Lazy) (h : R1cs.Hint) :
    Gen.Lazy.encoding st h =
      ((st.step .enc h).1, (st.step .enc h).2.1, (st.step .enc h).2.2, ((st.step .enc h).1.encVal).getD 0) := by
  cases st <;> first
    | with_reducible rfl
    | (simp only [Gen.Lazy.encoding, R1cs.Lazy.step, R1cs.Lazy.elemVal, R1cs.Lazy.encVal, Option.getD_some]; done)
    | (simp only [Gen.Lazy.encoding, R1cs.Lazy.step, R1cs.Lazy.elemVal, R1cs.Lazy.encVal, Option.getD_some]
       generalize R1cs.compress _ _ _ = o
       rcases o with ⟨sat, s⟩
       rfl)

end Formulas

namespace Code
open Model

/-- one forcing of the translated lazy variable: new state, gadget emitted, satisfied -/
def lazyStep (st : R1cs.Lazy) (f : R1cs.Force) (h : R1cs.Hint) : R1cs.Lazy × R1cs.Emitted × Bool :=
  match f with
  | .elem => let r := Gen.Lazy.element st h; (r.1, r.2.1, r.2.2.1)
  | .enc => let r := Gen.Lazy.encoding st h; (r.1, r.2.1, r.2.2.1)

theorem lazyStep_eq : @lazyStep = @R1cs.Lazy.step := by
  funext st f h
  cases f
  · simp only [lazyStep, Formulas.lazy_encoding_eq]
  · simp only [lazyStep, Formulas.lazy_element_eq]

/-- the value a forcing returns is the component of the new state -/
theorem lazy_element_value (st : R1cs.Lazy) (h : R1cs.Hint) :
    (st.step .elem h).1.elemVal = some (Gen.Lazy.element st h).2.2.2 := by
  rw [Formulas.lazy_element_eq]
  cases st <;> simp [R1cs.Lazy.step, R1cs.Lazy.elemVal]

theorem lazy_encoding_value (st : R1cs.Lazy) (h : R1cs.Hint) :
    (st.step .enc h).1.encVal = some (Gen.Lazy.encoding st h).2.2.2 := by
  rw [Formulas.lazy_encoding_eq]
  cases st <;> simp [R1cs.Lazy.step, R1cs.Lazy.encVal]

end Code
