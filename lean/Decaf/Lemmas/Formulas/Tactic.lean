/-
Tie between the Rust formulas and the hand-written model, by translation + proof.

`Decaf/Generated/Formulas.lean` is regenerated from the Rust sources on every run (translator/extract_formulas.py):
one Lean definition per straight-line group formula of the repository (`double`, `add`, encode, decode, Elligator,
in both backends), written over the model's field primitives.  The modules next to this one prove, for all inputs,
that each generated definition equals the hand-written model function the property theorems are about.

The proof is one tactic, `formula_eq sr`, robust against re-association, commutation, renaming, common
sub-expression changes and different but equal constants (so a harmless rewrite of the Rust code keeps it green),
and failing when the computed polynomial, a sign test or the control flow differs:
* constants are rewritten to the model's names (`fqLit Gen.….COEFF_A = cA` …, kernel-evaluated);
* every field primitive is rewritten to `ZMod.val` of the corresponding `ZMod q` expression, so that each maximal
  arithmetic sub-term is a commutative-ring expression under one `val`;
* then repeatedly: `ring_nf` normalises all ring sub-terms (recursively inside the arguments of `fabs`, `isNeg`,
  the square-root routine `sr`, conditions), and the outermost `sr _ _` call / parse / `if` is case-split for both
  sides at once, until both sides are syntactically equal.
-/
import Decaf.Lemmas.ModelCurve
import Decaf.Generated.Formulas
import Mathlib.Tactic.Ring.RingNF
import Mathlib.Tactic.SplitIfs

namespace Formulas
open Model

section

theorem fmul_val (a b : ℕ) : fmul q a b = ZMod.val ((a : ZMod q) * (b : ZMod q)) := by
  rw [← cast_fmul, val_cast_of_lt (fmul_lt q_pos _ _)]
theorem fadd_val (a b : ℕ) : fadd q a b = ZMod.val ((a : ZMod q) + (b : ZMod q)) := by
  rw [← cast_fadd, val_cast_of_lt (fadd_lt q_pos _ _)]
theorem fsub_val (a b : ℕ) : fsub q a b = ZMod.val ((a : ZMod q) - (b : ZMod q)) := by
  rw [← cast_fsub, val_cast_of_lt (fsub_lt q_pos _ _)]
theorem fneg_val (a : ℕ) : fneg q a = ZMod.val (-(a : ZMod q)) := by
  rw [← cast_fneg, val_cast_of_lt (fneg_lt q_pos _)]
theorem fsq_val (a : ℕ) : fsq q a = ZMod.val ((a : ZMod q) * (a : ZMod q)) := by
  rw [← cast_fsq, val_cast_of_lt (fsq_lt q_pos _)]
end

/-! the constants the generated formulas mention, as the model's names (closed terms: kernel evaluation) -/
theorem min_A : fqLit Gen.min_curve_constants.top.COEFF_A = cA := by decide +kernel
theorem min_D : fqLit Gen.min_curve_constants.top.COEFF_D = cD := by decide +kernel
theorem min_K : fqLit Gen.min_curve_constants.top.COEFF_K = cK := rfl
theorem min_Z : fqLit Gen.min_curve_constants.top.ZETA = ZETA_min := rfl
theorem ark_A : fqLit Gen.ark_curve_edwards.TECurveConfig_Decaf377EdwardsConfig.COEFF_A = cA := rfl
theorem ark_D : fqLit Gen.ark_curve_edwards.TECurveConfig_Decaf377EdwardsConfig.COEFF_D = cD := rfl
theorem ark_Z : fqLit Gen.ark_curve_constants.top.ZETA = ZETA := rfl
theorem ark_one : fqLit Gen.ark_curve_constants.top.ONE = 1 := by decide +kernel

/-- the numeric values of the curve coefficients, so that a formula specialised to a = -1, d = 3021 is recognised too -/
theorem cast_cA' : ((cA : ℕ) : ZMod q) = -1 := cast_cA
theorem cast_cD' : ((cD : ℕ) : ZMod q) = 3021 := by rw [cD_eq]; norm_num
theorem cast_cK' : ((cK : ℕ) : ZMod q) = 6042 := by rw [cK_eq]; norm_num

/-- comparisons of canonical values are equalities in `ZMod q` -/
theorem val_beq_val (a b : ZMod q) : (a.val == b.val) = decide (a = b) := by
  rw [Bool.eq_iff_iff]; simp [ZMod.val_injective q |>.eq_iff]

theorem val_beq_zero (a : ZMod q) : (a.val == 0) = decide (a = 0) := by
  rw [Bool.eq_iff_iff]; simp [ZMod.val_eq_zero]

/-- a Boolean result that is an equality test in the field: both sides become `decide (P = 0)`-style propositions, and
the propositions are shown equivalent by a linear combination (so `x1*y2 == y1*x2` and `y2*x1 - y1*x2 == 0` agree) -/
macro "formula_booleq" : tactic => `(tactic| (
  simp only [fmul_val, fadd_val, fsub_val, fneg_val, fsq_val, ZMod.natCast_zmod_val, Nat.cast_ofNat, Nat.cast_one,
    cast_cA', cast_cD', cast_cK', val_beq_val, val_beq_zero]
  rw [decide_eq_decide]
  constructor <;> intro h <;> first | linear_combination h | linear_combination -h | linear_combination (exp := 1) h))

/-- one step: close by syntactic equality, or split the outermost square-root call / parse / conditional -/
macro "formula_step" sr:ident : tactic => `(tactic| first
  | with_reducible rfl
  | (generalize $sr _ _ = o; rcases o with _ | ⟨_ | _, v⟩ <;>
      simp only [Bool.false_eq_true, Bool.true_eq_false, ↓reduceIte, Bool.not_true, Bool.not_false, beq_true, beq_false,
        Bool.not_eq_true', Bool.not_eq_false', beq_iff_eq, bne_iff_ne, ne_eq, Bool.not_eq_true, Bool.not_eq_false, Bool.not_not,
        Bool.true_and, Bool.and_true, Bool.false_and, Bool.and_false, Bool.true_or, Bool.or_true, Bool.false_or, Bool.or_false])
  | (generalize fqFromBytesChecked _ = o; rcases o with _ | s <;> simp only [])
  | split_ifs)

macro "formula_eq" sr:ident : tactic => `(tactic| (
  try simp only [min_A, min_D, min_Z, ark_A, ark_D, ark_Z, ark_one, min_K]
  try simp only [fmul_val, fadd_val, fsub_val, fneg_val, fsq_val, ZMod.natCast_zmod_val, Nat.cast_ofNat, Nat.cast_one,
    cast_cA', cast_cD', cast_cK', Nat.reducePow, beq_true, beq_false, Bool.not_eq_true', Bool.not_eq_false', beq_iff_eq, bne_iff_ne, ne_eq,
    Bool.not_eq_true, Bool.not_eq_false, Bool.not_not]
  repeat' (first
    | with_reducible rfl
    | (ring_nf; done)
    | (simp only [ZMod.natCast_zmod_val]; ring_nf; done)
    | ((try simp only [ZMod.natCast_zmod_val]); (try ring_nf); formula_step $sr))))

end Formulas
