/-
`Gen.Formulas.{min,ark}_hash_to_curve`, `{min,ark}_encode_to_curve` (bodies of `Element::hash_to_curve` /
`encode_to_curve` in the two backends, regenerated on every run; their calls of `elligator_map` and their `+` refer to
the translated Elligator map and to the translated minimal addition / arkworks' addition by contract) equal the model.
-/
import Decaf.Lemmas.Formulas.MinElligator
import Decaf.Lemmas.Formulas.ArkElligator
import Decaf.Lemmas.Formulas.MinAdd

namespace Formulas
open Model

theorem min_hash_to_curve_eq (sr : SR) (r1 r2 : ℕ) :
    Gen.Formulas.min_hash_to_curve sr r1 r2 = hashToCurve sr ZETA_min Ext.addMin r1 r2 := by
  first
  | (unfold Gen.Formulas.min_hash_to_curve; with_reducible rfl)        -- untranslated: the fallback
  | (unfold Gen.Formulas.min_hash_to_curve hashToCurve
     simp only [min_elligator_eq, min_add_eq sr]
     cases elligator sr ZETA_min r1 <;> cases elligator sr ZETA_min r2 <;> rfl)

theorem ark_hash_to_curve_eq (sr : SR) (r1 r2 : ℕ) :
    Gen.Formulas.ark_hash_to_curve sr r1 r2 = hashToCurve sr ZETA Ext.addRef r1 r2 := by
  first
  | (unfold Gen.Formulas.ark_hash_to_curve; with_reducible rfl)        -- untranslated: the fallback
  | (unfold Gen.Formulas.ark_hash_to_curve hashToCurve
     simp only [ark_elligator_eq]
     cases elligator sr ZETA r1 <;> cases elligator sr ZETA r2 <;> rfl)

theorem min_encode_to_curve_eq (sr : SR) (r0 : ℕ) : Gen.Formulas.min_encode_to_curve sr r0 = elligator sr ZETA_min r0 := by
  unfold Gen.Formulas.min_encode_to_curve
  first | exact min_elligator_eq sr r0 | rfl

theorem ark_encode_to_curve_eq (sr : SR) (r0 : ℕ) : Gen.Formulas.ark_encode_to_curve sr r0 = elligator sr ZETA r0 := by
  unfold Gen.Formulas.ark_encode_to_curve
  first | exact ark_elligator_eq sr r0 | rfl

end Formulas

namespace Code
open Model

def minHashToCurve (sr : SR) (r1 r2 : ℕ) : Option Ext := Gen.Formulas.min_hash_to_curve sr r1 r2
def arkHashToCurve (sr : SR) (r1 r2 : ℕ) : Option Ext := Gen.Formulas.ark_hash_to_curve sr r1 r2

theorem minHashToCurve_eq : @minHashToCurve = fun sr r1 r2 => hashToCurve sr ZETA_min Ext.addMin r1 r2 := by
  funext sr r1 r2; exact Formulas.min_hash_to_curve_eq sr r1 r2
theorem arkHashToCurve_eq : @arkHashToCurve = fun sr r1 r2 => hashToCurve sr ZETA Ext.addRef r1 r2 := by
  funext sr r1 r2; exact Formulas.ark_hash_to_curve_eq sr r1 r2

end Code
