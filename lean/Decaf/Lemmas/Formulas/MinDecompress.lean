/-
`Gen.Formulas.min_decompress` is regenerated from src/min_curve/element.rs `Encoding::vartime_decompress` on every run (translator/extract_formulas.py).
Here: it equals the hand-written model for all inputs; `Code.minDecode` is the translated code under the model's calling
convention, which the theorems of Props/Translated/ are stated about.
-/
import Decaf.Lemmas.Formulas.Tactic

namespace Formulas
open Model

set_option linter.unusedVariables false in
set_option maxHeartbeats 1600000 in
theorem min_decompress_eq (sr : SR) (bytes : List ℕ) : Gen.Formulas.min_decompress sr bytes = decode32 sr bytes := by
  unfold Gen.Formulas.min_decompress decode32 decodeField
  formula_eq sr

end Formulas

namespace Code
open Model

/-- the translated Rust code, as a function of the model's types -/
def minDecode (sr : SR) (bytes : List ℕ) : Except DecErr Ext := Gen.Formulas.min_decompress sr bytes

theorem minDecode_eq : @minDecode = decode32 := by
  funext sr b; exact Formulas.min_decompress_eq sr b

end Code
