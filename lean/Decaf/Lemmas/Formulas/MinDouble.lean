/-
`Gen.Formulas.min_double` is regenerated from src/min_curve/element.rs `Element::double` on every run (translator/extract_formulas.py).
Here: it equals the hand-written model for all inputs; `Code.minDouble` is the translated code under the model's calling
convention, which the theorems of Props/Translated/ are stated about.
-/
import Decaf.Lemmas.Formulas.Tactic

namespace Formulas
open Model

set_option linter.unusedVariables false in
set_option maxHeartbeats 1600000 in
theorem min_double_eq (sr : SR) (p : Ext) : Gen.Formulas.min_double p.X p.Y p.Z p.T = p.doubleMin := by
  unfold Gen.Formulas.min_double Ext.doubleMin
  formula_eq sr

end Formulas

namespace Code
open Model

/-- the translated Rust code, as a function of the model's types -/
def minDouble (p : Ext) : Ext := Gen.Formulas.min_double p.X p.Y p.Z p.T

theorem minDouble_eq : @minDouble = Ext.doubleMin := by
  funext p; exact Formulas.min_double_eq (fun _ _ => none) p

end Code
