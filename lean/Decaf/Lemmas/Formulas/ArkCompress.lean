/-
`Gen.Formulas.ark_compress` is regenerated from src/ark_curve/encoding.rs `Element::vartime_compress_to_field` on every run (translator/extract_formulas.py).
Here: it equals the hand-written model for all inputs; `Code.arkEncodeField` is the translated code under the model's calling
convention, which the theorems of Props/Translated/ are stated about.
-/
import Decaf.Lemmas.Formulas.Tactic

namespace Formulas
open Model

set_option linter.unusedVariables false in
set_option maxHeartbeats 1600000 in
theorem ark_compress_eq (sr : SR) (p : Ext) : Gen.Formulas.ark_compress sr p.X p.Y p.Z p.T = p.encodeField sr := by
  unfold Gen.Formulas.ark_compress Ext.encodeField
  formula_eq sr

end Formulas

namespace Code
open Model

/-- the translated Rust code, as a function of the model's types -/
def arkEncodeField (sr : SR) (p : Ext) : Option ℕ := Gen.Formulas.ark_compress sr p.X p.Y p.Z p.T

theorem arkEncodeField_eq : @arkEncodeField = Ext.encodeField := by
  funext sr p; exact Formulas.ark_compress_eq sr p

end Code
