/-
`Gen.Formulas.min_compress` is regenerated from src/min_curve/element.rs `Element::vartime_compress_to_field` on every run (translator/extract_formulas.py).
Here: it equals the hand-written model for all inputs; `Code.minEncodeField` is the translated code under the model's calling
convention, which the theorems of Props/Translated/ are stated about.
-/
import Decaf.Lemmas.Formulas.Tactic

namespace Formulas
open Model

set_option linter.unusedVariables false in
set_option maxHeartbeats 1600000 in
theorem min_compress_eq (sr : SR) (p : Ext) : Gen.Formulas.min_compress sr p.X p.Y p.Z p.T = p.encodeField sr := by
  unfold Gen.Formulas.min_compress Ext.encodeField
  formula_eq sr

end Formulas

namespace Code
open Model

/-- the translated Rust code, as a function of the model's types -/
def minEncodeField (sr : SR) (p : Ext) : Option ℕ := Gen.Formulas.min_compress sr p.X p.Y p.Z p.T

theorem minEncodeField_eq : @minEncodeField = Ext.encodeField := by
  funext sr p; exact Formulas.min_compress_eq sr p

end Code
