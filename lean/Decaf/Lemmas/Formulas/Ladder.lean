/-
The double-and-add ladder of the minimal backend (`Element::scalar_mul_both`, src/min_curve/element.rs), translated on
every run as a loop *skeleton* (`for limb in le_bits { for i in 0..64 { step } }` from `(IDENTITY, self)`, recognised
literally) around a translated *step* (the loop body, symbolically executed; `+` and `.double()` are the translated
addition and doubling).  Here: the step is the model's step for both values of the const parameter `CT`, and the two folds
are the model's bit ladder `Ext.scalarMulMin` — so C05's theorems hold of the translated `scalar_mul` / `scalar_mul_vartime`.
-/
import Decaf.Lemmas.Formulas.MinAdd
import Decaf.Lemmas.Formulas.MinDouble

namespace Formulas
open Model

theorem addG_eq (a b : Ext) : Gen.Formulas.addG a b = a.addMin b := by
  unfold Gen.Formulas.addG; exact min_add_eq (fun _ _ => none) a b

theorem dblG_eq (a : Ext) : Gen.Formulas.dblG a = a.doubleMin := by
  unfold Gen.Formulas.dblG; exact min_double_eq (fun _ _ => none) a

theorem identity_lit : Gen.Formulas.extLit Gen.min_curve_element.Element.IDENTITY = Ext.identity := by decide +kernel

/-- the model's step on the pair (accumulator, running multiple) -/
def stepM (bit : Bool) (st : Ext × Ext) : Ext × Ext := (if bit then st.1.addMin st.2 else st.1, st.2.doubleMin)

/-- the translated loop body is the model's step, constant-time or not -/
theorem step_eq (CT : Bool) (limb i : ℕ) (acc ins : Ext) :
    Gen.Formulas.min_scalar_mul_step CT limb i acc ins = stepM ((limb / 2 ^ i) % 2 == 1) (acc, ins) := by
  first
  | (unfold Gen.Formulas.min_scalar_mul_step stepM; with_reducible rfl)       -- untranslated: the fallback
  | (unfold Gen.Formulas.min_scalar_mul_step stepM
     simp only [addG_eq, dblG_eq]
     cases CT <;> cases h : ((limb / 2 ^ i) % 2 == 1) <;> simp_all)

/-! ### bit-serial loops, generically: `for limb in limbs { for i in 0..64 { s = step ((limb >> i) & 1 == 1) s } }` -/
section generic
variable {σ : Type} (step : Bool → σ → σ)

def foldBits : List Bool → σ → σ
  | [], st => st
  | b :: bs, st => foldBits bs (step b st)

theorem foldBits_append (l1 l2 : List Bool) (st : σ) : foldBits step (l1 ++ l2) st = foldBits step l2 (foldBits step l1 st) := by
  induction l1 generalizing st with
  | nil => rfl
  | cons b bs ih => exact ih _

/-- `for i in 0..n` over the bits `(limb >> i) & 1` is the fold over `limbBits limb n` -/
theorem range_fold (n : ℕ) : ∀ (limb : ℕ) (st : σ),
    (List.range n).foldl (fun st i => step ((limb / 2 ^ i) % 2 == 1) st) st = foldBits step (limbBits limb n) st := by
  induction n with
  | zero => intro limb st; rfl
  | succ n ih =>
    intro limb st
    rw [List.range_succ_eq_map, List.foldl_cons, List.foldl_map]
    show _ = foldBits step (limbBits (limb / 2) n) (step (limb % 2 == 1) st)
    rw [← ih (limb / 2)]
    have h0 : limb / 2 ^ 0 = limb := by simp
    rw [h0]
    congr 1
    funext st' i
    have : limb / 2 ^ (i + 1) = limb / 2 / 2 ^ i := by rw [pow_succ', Nat.div_div_eq_div_mul]
    rw [this]

theorem limbs_fold (limbs : List ℕ) : ∀ st : σ,
    limbs.foldl (fun st limb => (List.range 64).foldl (fun st i => step ((limb / 2 ^ i) % 2 == 1) st) st) st
      = foldBits step (limbsBits limbs) st := by
  induction limbs with
  | nil => intro st; rfl
  | cons l ls ih =>
    intro st
    rw [List.foldl_cons, ih, range_fold]
    show _ = foldBits step (limbBits l 64 ++ limbsBits ls) st
    rw [foldBits_append]

end generic

theorem ladderLsb_eq_pair (bits : List Bool) (acc ins : Ext) :
    Ext.ladderLsbAux Ext.addMin Ext.doubleMin bits acc ins = (foldBits stepM bits (acc, ins)).1 := by
  induction bits generalizing acc ins with
  | nil => rfl
  | cons b bs ih =>
    show Ext.ladderLsbAux Ext.addMin Ext.doubleMin bs _ _ = (foldBits stepM bs (stepM b (acc, ins))).1
    rw [ih]; rfl

/-- the translated ladder is the model's, for both values of `CT` -/
theorem min_scalar_mul_both_eq (CT : Bool) (p : Ext) (limbs : List ℕ) :
    Gen.Formulas.min_scalar_mul_both CT p limbs = p.scalarMulMin limbs := by
  unfold Gen.Formulas.min_scalar_mul_both Ext.scalarMulMin
  rw [ladderLsb_eq_pair, identity_lit]
  have : (fun (st : Ext × Ext) limb => (List.range 64).foldl (fun st i => Gen.Formulas.min_scalar_mul_step CT limb i st.1 st.2) st)
       = (fun st limb => (List.range 64).foldl (fun st i => stepM ((limb / 2 ^ i) % 2 == 1) st) st) := by
    funext st limb
    simp only [step_eq, Prod.mk.eta]
  rw [this, limbs_fold stepM]

theorem min_scalar_mul_vartime_eq (p : Ext) (limbs : List ℕ) : Gen.Formulas.min_scalar_mul_vartime p limbs = p.scalarMulMin limbs := by
  unfold Gen.Formulas.min_scalar_mul_vartime; exact min_scalar_mul_both_eq _ p limbs

theorem min_scalar_mul_eq (p : Ext) (limbs : List ℕ) : Gen.Formulas.min_scalar_mul p limbs = p.scalarMulMin limbs := by
  unfold Gen.Formulas.min_scalar_mul; exact min_scalar_mul_both_eq _ p limbs

/-! ### `pow_le_limbs` of the minimal square-root routine (src/min_curve/invsqrt.rs), the same skeleton over field elements -/

def stepP (bit : Bool) (st : ℕ × ℕ) : ℕ × ℕ := (if bit then fmul q st.1 st.2 else st.1, fmul q st.2 st.2)

theorem pow_step_eq (limb i acc ins : ℕ) :
    Gen.Formulas.min_pow_le_limbs_step limb i acc ins = stepP ((limb / 2 ^ i) % 2 == 1) (acc, ins) := by
  first
  | (unfold Gen.Formulas.min_pow_le_limbs_step stepP; with_reducible rfl)
  | (unfold Gen.Formulas.min_pow_le_limbs_step stepP
     cases h : ((limb / 2 ^ i) % 2 == 1) <;> simp_all)

theorem powLeLimbsAux_eq_pair (bits : List Bool) (acc ins : ℕ) :
    powLeLimbsAux q bits acc ins = (foldBits stepP bits (acc, ins)).1 := by
  induction bits generalizing acc ins with
  | nil => rfl
  | cons b bs ih =>
    show powLeLimbsAux q bs _ _ = (foldBits stepP bs (stepP b (acc, ins))).1
    rw [ih]; rfl

theorem min_pow_le_limbs_eq (x : ℕ) (limbs : List ℕ) : Gen.Formulas.min_pow_le_limbs x limbs = powLeLimbs q x limbs := by
  unfold Gen.Formulas.min_pow_le_limbs powLeLimbs
  rw [powLeLimbsAux_eq_pair]
  have h1 : 1 % q = 1 := Nat.mod_eq_of_lt (by have := q_gt_two; omega)
  rw [h1]
  have : (fun (st : ℕ × ℕ) limb => (List.range 64).foldl (fun st i => Gen.Formulas.min_pow_le_limbs_step limb i st.1 st.2) st)
       = (fun st limb => (List.range 64).foldl (fun st i => stepP ((limb / 2 ^ i) % 2 == 1) st) st) := by
    funext st limb
    simp only [pow_step_eq, Prod.mk.eta]
  rw [this, limbs_fold stepP]

/-! ### `our_sqrt` (constant-time Tonelli–Shanks of the minimal backend): straight-line prefix, then
`for i in (2..=TWO_ADICITY).rev() { for _j in 1..=i-2 { b = b*b } … }` on the state (z, t, b, c) -/

theorem iter_fold (n b : ℕ) : (List.range n).foldl (fun b _ => Gen.Formulas.min_our_sqrt_inner b) b = iterSq q n b := by
  induction n generalizing b with
  | zero => rfl
  | succ n ih =>
    rw [List.range_succ_eq_map, List.foldl_cons, List.foldl_map]
    show _ = iterSq q n (fmul q b b)
    rw [← ih]
    first | rfl | (unfold Gen.Formulas.min_our_sqrt_inner; rfl)

/-- the model's outer-loop step -/
def stepS (i : ℕ) (st : ℕ × ℕ × ℕ × ℕ) : ℕ × ℕ × ℕ × ℕ :=
  let bb := iterSq q (i - 2) st.2.2.1
  let c' := fmul q st.2.2.2 st.2.2.2
  let t' := if bb != 1 then fmul q st.2.1 c' else st.2.1
  (if bb != 1 then fmul q st.1 st.2.2.2 else st.1, t', t', c')

theorem os_step_eq (i z t b c : ℕ) : Gen.Formulas.min_our_sqrt_step i z t b c = stepS i (z, t, b, c) := by
  first
  | (unfold Gen.Formulas.min_our_sqrt_step stepS; simp only [iter_fold, bne]; done)
  | (unfold Gen.Formulas.min_our_sqrt_step stepS; simp only [iter_fold, bne]; with_reducible rfl)
  | (unfold Gen.Formulas.min_our_sqrt_step stepS
     simp only [iter_fold, bne]
     cases h : (iterSq q (i - 2) b == 1) <;> simp_all)

theorem os_loop_eq (n : ℕ) : ∀ z t b c : ℕ,
    ((List.range' 2 n).reverse.foldl (fun st i => stepS i st) (z, t, b, c)).1 = ourSqrtLoop (n + 1) z t b c := by
  induction n with
  | zero => intro z t b c; rfl
  | succ n ih =>
    intro z t b c
    rw [List.range'_concat, List.reverse_append, List.reverse_singleton, List.singleton_append, List.foldl_cons]
    have h2 : 2 + 1 * n = n + 2 := by omega
    rw [h2]
    show (List.foldl (fun st i => stepS i st) (stepS (n + 2) (z, t, b, c)) (List.range' 2 n).reverse).1 = ourSqrtLoop (n + 2) z t b c
    have hs : stepS (n + 2) (z, t, b, c) =
        (if iterSq q n b != 1 then fmul q z c else z,
         if iterSq q n b != 1 then fmul q t (fmul q c c) else t,
         if iterSq q n b != 1 then fmul q t (fmul q c c) else t, fmul q c c) := by
      unfold stepS
      simp only [Nat.add_sub_cancel]
    rw [hs, ih]
    rfl

theorem min_our_sqrt_eq (x : ℕ) : Gen.Formulas.min_our_sqrt x = ourSqrt x := by
  first
  | (unfold Gen.Formulas.min_our_sqrt; with_reducible rfl)          -- untranslated: the fallback
  | (unfold Gen.Formulas.min_our_sqrt ourSqrt QNR_TO_TRACE
     have hN : Gen.fields_fq.Fq.TWO_ADICITY.natVal = (Gen.Formulas.litNat Gen.fields_fq.Fq.TWO_ADICITY - 1) + 1 := by decide
     simp only [os_step_eq, Prod.mk.eta, min_pow_le_limbs_eq]
     rw [hN, ← os_loop_eq])

end Formulas

namespace Code
open Model
/-- the translated `Element::scalar_mul_vartime` / `Element::scalar_mul` of the minimal backend -/
def minScalarMulVartime (p : Ext) (limbs : List ℕ) : Ext := Gen.Formulas.min_scalar_mul_vartime p limbs
def minScalarMul (p : Ext) (limbs : List ℕ) : Ext := Gen.Formulas.min_scalar_mul p limbs
theorem minScalarMulVartime_eq : @minScalarMulVartime = Ext.scalarMulMin := by funext p l; exact Formulas.min_scalar_mul_vartime_eq p l
theorem minScalarMul_eq : @minScalarMul = Ext.scalarMulMin := by funext p l; exact Formulas.min_scalar_mul_eq p l
end Code
