/-
The double-and-add ladder of the minimal backend (`Element::scalar_mul_both`, src/min_curve/element.rs), translated on
every run as a loop *skeleton* (`for limb in le_bits { for i in 0..64 { step } }` from `(IDENTITY, self)`, recognised
literally) around a translated *step* (the loop body, symbolically executed; `+` and `.double()` are the translated
addition and doubling).  Here: the step is the model's step for both values of the const parameter `CT`, and the two folds
are the model's bit ladder `Ext.scalarMulMin` — so C05's theorems hold of the translated `scalar_mul` / `scalar_mul_vartime`.
-/
import Decaf.Lemmas.Formulas.MinAdd
import Decaf.Lemmas.Formulas.MinDouble

namespace Formulas
open Model

theorem addG_eq (a b : Ext) : Gen.Formulas.addG a b = a.addMin b := by
  unfold Gen.Formulas.addG; exact min_add_eq (fun _ _ => none) a b

theorem dblG_eq (a : Ext) : Gen.Formulas.dblG a = a.doubleMin := by
  unfold Gen.Formulas.dblG; exact min_double_eq (fun _ _ => none) a

theorem identity_lit : Gen.Formulas.extLit Gen.min_curve_element.Element.IDENTITY = Ext.identity := by decide +kernel

/-- the model's step on the pair (accumulator, running multiple) -/
def stepM (bit : Bool) (st : Ext × Ext) : Ext × Ext := (if bit then st.1.addMin st.2 else st.1, st.2.doubleMin)

/-- the translated loop body is the model's step, constant-time or not -/
theorem step_eq (CT : Bool) (limb i : ℕ) (acc ins : Ext) :
    Gen.Formulas.min_scalar_mul_step CT limb i acc ins = stepM ((limb / 2 ^ i) % 2 == 1) (acc, ins) := by
  first
  | (unfold Gen.Formulas.min_scalar_mul_step stepM; with_reducible rfl)       -- untranslated: the fallback
  | (unfold Gen.Formulas.min_scalar_mul_step stepM
     simp only [addG_eq, dblG_eq]
     cases CT <;> cases h : ((limb / 2 ^ i) % 2 == 1) <;> simp_all)

def ladderPair : List Bool → Ext × Ext → Ext × Ext
  | [], st => st
  | b :: bs, st => ladderPair bs (stepM b st)

theorem ladderPair_append (l1 l2 : List Bool) (st : Ext × Ext) : ladderPair (l1 ++ l2) st = ladderPair l2 (ladderPair l1 st) := by
  induction l1 generalizing st with
  | nil => rfl
  | cons b bs ih => exact ih _

theorem ladderLsb_eq_pair (bits : List Bool) (acc ins : Ext) :
    Ext.ladderLsbAux Ext.addMin Ext.doubleMin bits acc ins = (ladderPair bits (acc, ins)).1 := by
  induction bits generalizing acc ins with
  | nil => rfl
  | cons b bs ih =>
    show Ext.ladderLsbAux Ext.addMin Ext.doubleMin bs _ _ = (ladderPair bs (stepM b (acc, ins))).1
    rw [ih]; rfl

/-- `for i in 0..n` over the bits `(limb >> i) & 1` is the ladder over `limbBits limb n` -/
theorem range_fold (n : ℕ) : ∀ (limb : ℕ) (st : Ext × Ext),
    (List.range n).foldl (fun st i => stepM ((limb / 2 ^ i) % 2 == 1) st) st = ladderPair (limbBits limb n) st := by
  induction n with
  | zero => intro limb st; rfl
  | succ n ih =>
    intro limb st
    rw [List.range_succ_eq_map, List.foldl_cons, List.foldl_map]
    show _ = ladderPair (limbBits (limb / 2) n) (stepM (limb % 2 == 1) st)
    rw [← ih (limb / 2)]
    have h0 : limb / 2 ^ 0 = limb := by simp
    rw [h0]
    congr 1
    funext st' i
    have : limb / 2 ^ (i + 1) = limb / 2 / 2 ^ i := by rw [pow_succ', Nat.div_div_eq_div_mul]
    rw [this]

theorem limbs_fold (limbs : List ℕ) : ∀ st : Ext × Ext,
    limbs.foldl (fun st limb => (List.range 64).foldl (fun st i => stepM ((limb / 2 ^ i) % 2 == 1) st) st) st
      = ladderPair (limbsBits limbs) st := by
  induction limbs with
  | nil => intro st; rfl
  | cons l ls ih =>
    intro st
    rw [List.foldl_cons, ih, range_fold]
    show _ = ladderPair (limbBits l 64 ++ limbsBits ls) st
    rw [ladderPair_append]

/-- the translated ladder is the model's, for both values of `CT` -/
theorem min_scalar_mul_both_eq (CT : Bool) (p : Ext) (limbs : List ℕ) :
    Gen.Formulas.min_scalar_mul_both CT p limbs = p.scalarMulMin limbs := by
  unfold Gen.Formulas.min_scalar_mul_both Ext.scalarMulMin
  rw [ladderLsb_eq_pair, identity_lit]
  have : (fun (st : Ext × Ext) limb => (List.range 64).foldl (fun st i => Gen.Formulas.min_scalar_mul_step CT limb i st.1 st.2) st)
       = (fun st limb => (List.range 64).foldl (fun st i => stepM ((limb / 2 ^ i) % 2 == 1) st) st) := by
    funext st limb
    simp only [step_eq, Prod.mk.eta]
  rw [this, limbs_fold]

theorem min_scalar_mul_vartime_eq (p : Ext) (limbs : List ℕ) : Gen.Formulas.min_scalar_mul_vartime p limbs = p.scalarMulMin limbs := by
  unfold Gen.Formulas.min_scalar_mul_vartime; exact min_scalar_mul_both_eq _ p limbs

theorem min_scalar_mul_eq (p : Ext) (limbs : List ℕ) : Gen.Formulas.min_scalar_mul p limbs = p.scalarMulMin limbs := by
  unfold Gen.Formulas.min_scalar_mul; exact min_scalar_mul_both_eq _ p limbs

end Formulas

namespace Code
open Model
/-- the translated `Element::scalar_mul_vartime` / `Element::scalar_mul` of the minimal backend -/
def minScalarMulVartime (p : Ext) (limbs : List ℕ) : Ext := Gen.Formulas.min_scalar_mul_vartime p limbs
def minScalarMul (p : Ext) (limbs : List ℕ) : Ext := Gen.Formulas.min_scalar_mul p limbs
theorem minScalarMulVartime_eq : @minScalarMulVartime = Ext.scalarMulMin := by funext p l; exact Formulas.min_scalar_mul_vartime_eq p l
theorem minScalarMul_eq : @minScalarMul = Ext.scalarMulMin := by funext p l; exact Formulas.min_scalar_mul_eq p l
end Code
