/-
`Gen.Formulas.min_elligator` is regenerated from src/min_curve/element.rs `Element::elligator_map` on every run (translator/extract_formulas.py).
Here: it equals the hand-written model for all inputs; `Code.minElligator` is the translated code under the model's calling
convention, which the theorems of Props/Translated/ are stated about.
-/
import Decaf.Lemmas.Formulas.Tactic

namespace Formulas
open Model

set_option linter.unusedVariables false in
set_option maxHeartbeats 1600000 in
theorem min_elligator_eq (sr : SR) (r0 : ℕ) : Gen.Formulas.min_elligator sr r0 = elligator sr ZETA_min r0 := by
  unfold Gen.Formulas.min_elligator elligator
  formula_eq sr

end Formulas

namespace Code
open Model

/-- the translated Rust code, as a function of the model's types -/
def minElligator (sr : SR) (r0 : ℕ) : Option Ext := Gen.Formulas.min_elligator sr r0

theorem minElligator_eq : @minElligator = fun sr r0 => elligator sr ZETA_min r0 := by
  funext sr r0; exact Formulas.min_elligator_eq sr r0

end Code
