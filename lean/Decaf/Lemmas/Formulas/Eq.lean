/-
`Gen.Formulas.{min_eq, ark_eq, ark_affine_eq, min_is_identity, ark_is_identity}` are regenerated on every run from
src/min_curve/element.rs (`impl PartialEq for Element`, `is_identity`), src/ark_curve/element/projective.rs and
src/ark_curve/element/affine.rs.  Here: they equal the hand-written model (`Ext.eq`, `Ext.isIdentity`) for all inputs.
-/
import Decaf.Lemmas.Formulas.Tactic

namespace Formulas
open Model

set_option linter.unusedVariables false
set_option maxHeartbeats 1600000

theorem min_eq_eq (sr : SR) (p1 p2 : Ext) :
    Gen.Formulas.min_eq p1.X p1.Y p1.Z p1.T p2.X p2.Y p2.Z p2.T = p1.eq p2 := by
  first
  | (unfold Gen.Formulas.min_eq Ext.eq; formula_eq sr; done)
  | (unfold Gen.Formulas.min_eq Ext.eq; formula_booleq)

theorem ark_eq_eq (sr : SR) (p1 p2 : Ext) :
    Gen.Formulas.ark_eq p1.X p1.Y p1.Z p1.T p2.X p2.Y p2.Z p2.T = p1.eq p2 := by
  first
  | (unfold Gen.Formulas.ark_eq Ext.eq; formula_eq sr; done)
  | (unfold Gen.Formulas.ark_eq Ext.eq; formula_booleq)

theorem ark_affine_eq_eq (sr : SR) (p1 p2 : Ext) :
    Gen.Formulas.ark_affine_eq p1.X p1.Y p1.Z p1.T p2.X p2.Y p2.Z p2.T = p1.eq p2 := by
  first
  | (unfold Gen.Formulas.ark_affine_eq Ext.eq; formula_eq sr; done)
  | (unfold Gen.Formulas.ark_affine_eq Ext.eq; formula_booleq)

theorem min_is_identity_eq (sr : SR) (p : Ext) : Gen.Formulas.min_is_identity p.X p.Y p.Z p.T = p.isIdentity := by
  unfold Gen.Formulas.min_is_identity Ext.isIdentity
  formula_eq sr

theorem ark_is_identity_eq (sr : SR) (p : Ext) : Gen.Formulas.ark_is_identity p.X p.Y p.Z p.T = p.isIdentity := by
  unfold Gen.Formulas.ark_is_identity Ext.isIdentity
  formula_eq sr

end Formulas

namespace Code
open Model

/-- the translated Rust code, as functions of the model's types -/
def minEq (p1 p2 : Ext) : Bool := Gen.Formulas.min_eq p1.X p1.Y p1.Z p1.T p2.X p2.Y p2.Z p2.T
def arkEq (p1 p2 : Ext) : Bool := Gen.Formulas.ark_eq p1.X p1.Y p1.Z p1.T p2.X p2.Y p2.Z p2.T
def arkAffineEq (p1 p2 : Ext) : Bool := Gen.Formulas.ark_affine_eq p1.X p1.Y p1.Z p1.T p2.X p2.Y p2.Z p2.T
def minIsIdentity (p : Ext) : Bool := Gen.Formulas.min_is_identity p.X p.Y p.Z p.T
def arkIsIdentity (p : Ext) : Bool := Gen.Formulas.ark_is_identity p.X p.Y p.Z p.T

theorem minEq_eq : @minEq = Ext.eq := by funext a b; exact Formulas.min_eq_eq (fun _ _ => none) a b
theorem arkEq_eq : @arkEq = Ext.eq := by funext a b; exact Formulas.ark_eq_eq (fun _ _ => none) a b
theorem arkAffineEq_eq : @arkAffineEq = Ext.eq := by funext a b; exact Formulas.ark_affine_eq_eq (fun _ _ => none) a b
theorem minIsIdentity_eq : @minIsIdentity = Ext.isIdentity := by funext a; exact Formulas.min_is_identity_eq (fun _ _ => none) a
theorem arkIsIdentity_eq : @arkIsIdentity = Ext.isIdentity := by funext a; exact Formulas.ark_is_identity_eq (fun _ _ => none) a

end Code
