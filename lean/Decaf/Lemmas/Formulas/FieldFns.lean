/-
Wrapper functions of the prime fields (src/fields/{fq,fr,fp}.rs), regenerated on every run by translator/extract_formulas.py
(`Fq::power`) and translator/extract_fieldfns.py (`from_bytes_checked`, `from_le_bytes_mod_order`, `to_bytes` of the three
fields), equal the field model `FP` of Model/Glue.lean on which the C10 / C11 theorems stand.
-/
import Decaf.Lemmas.Formulas.Ladder
import Decaf.Model.Exec
import Decaf.Generated.FieldFns

namespace Formulas
open Model

/-! ### `Fq::power` (src/fields/fq.rs, shared by both backends): the same loop shape, tied to `FP.power` of the field model -/

theorem fq_power_step_eq (limb i acc ins : ℕ) :
    Gen.Formulas.fq_power_step limb i acc ins = stepP ((limb / 2 ^ i) % 2 == 1) (acc, ins) := by
  first
  | (unfold Gen.Formulas.fq_power_step stepP; with_reducible rfl)
  | (unfold Gen.Formulas.fq_power_step stepP
     cases h : ((limb / 2 ^ i) % 2 == 1) <;> simp_all)

theorem powLeLimbsAux'_eq_pair (bits : List Bool) (acc ins : ℕ) :
    powLeLimbsAux' q bits acc ins = (foldBits stepP bits (acc, ins)).1 := by
  induction bits generalizing acc ins with
  | nil => rfl
  | cons b bs ih =>
    show powLeLimbsAux' q bs _ _ = (foldBits stepP bs (stepP b (acc, ins))).1
    rw [ih]; rfl

theorem fq_power_eq (x : ℕ) (limbs : List ℕ) : Gen.Formulas.fq_power x limbs = Exec.fqP.power x limbs := by
  unfold Gen.Formulas.fq_power FP.power
  show _ = powLeLimbsAux' q (limbsBits limbs) (1 % q) x
  rw [powLeLimbsAux'_eq_pair]
  have h1 : 1 % q = 1 := Nat.mod_eq_of_lt (by have := q_gt_two; omega)
  rw [h1]
  have : (fun (st : ℕ × ℕ) limb => (List.range 64).foldl (fun st i => Gen.Formulas.fq_power_step limb i st.1 st.2) st)
       = (fun st limb => (List.range 64).foldl (fun st i => stepP ((limb / 2 ^ i) % 2 == 1) st) st) := by
    funext st limb
    simp only [fq_power_step_eq, Prod.mk.eta]
  rw [this, limbs_fold stepP]

end Formulas

namespace Code
open Model
/-- the translated `Fq::power` -/
def fqPower (x : ℕ) (limbs : List ℕ) : ℕ := Gen.Formulas.fq_power x limbs
theorem fqPower_eq : @fqPower = Exec.fqP.power := by funext x l; exact Formulas.fq_power_eq x l
end Code

/-! ### byte-level wrappers of the three fields -/
namespace Formulas.FieldFns
open Model Model.FP Gen.FieldFns

/-- closes `translated body = hand model` for the byte-level wrappers, in any field model -/
macro "fieldfn_eq" : tactic => `(tactic| first
  | with_reducible rfl
  | rfl
  | (simp only [FP.fromBytesChecked, FP.fromLeBytesModOrder, FP.toBytesLe, bne, Bool.not_eq_true', beq_iff_eq]; done)
  | (simp only [FP.fromBytesChecked, FP.fromLeBytesModOrder, FP.toBytesLe, bne]; split_ifs <;> simp_all))

theorem fq_from_bytes_checked_eq (F : FP) (bs : List ℕ) : fq_from_bytes_checked F bs = F.fromBytesChecked bs := by
  unfold fq_from_bytes_checked; fieldfn_eq
theorem fr_from_bytes_checked_eq (F : FP) (bs : List ℕ) : fr_from_bytes_checked F bs = F.fromBytesChecked bs := by
  unfold fr_from_bytes_checked; fieldfn_eq
theorem fp_from_bytes_checked_eq (F : FP) (bs : List ℕ) : fp_from_bytes_checked F bs = F.fromBytesChecked bs := by
  unfold fp_from_bytes_checked; fieldfn_eq

theorem fq_from_le_bytes_mod_order_eq (F : FP) (bs : List ℕ) : fq_from_le_bytes_mod_order F bs = F.fromLeBytesModOrder bs := by
  unfold fq_from_le_bytes_mod_order; fieldfn_eq
theorem fr_from_le_bytes_mod_order_eq (F : FP) (bs : List ℕ) : fr_from_le_bytes_mod_order F bs = F.fromLeBytesModOrder bs := by
  unfold fr_from_le_bytes_mod_order; fieldfn_eq
theorem fp_from_le_bytes_mod_order_eq (F : FP) (bs : List ℕ) : fp_from_le_bytes_mod_order F bs = F.fromLeBytesModOrder bs := by
  unfold fp_from_le_bytes_mod_order; fieldfn_eq

theorem fq_to_bytes_eq (F : FP) (x : ℕ) : fq_to_bytes F x = F.toBytesLe x := by unfold fq_to_bytes; fieldfn_eq
theorem fr_to_bytes_eq (F : FP) (x : ℕ) : fr_to_bytes F x = F.toBytesLe x := by unfold fr_to_bytes; fieldfn_eq
theorem fp_to_bytes_eq (F : FP) (x : ℕ) : fp_to_bytes F x = F.toBytesLe x := by unfold fp_to_bytes; fieldfn_eq

end Formulas.FieldFns

namespace Code
open Model
/-- the translated wrappers, at the three field models -/
def fqFromBytesChecked (bs : List ℕ) : Option ℕ := Gen.FieldFns.fq_from_bytes_checked Exec.fqP bs
def frFromBytesChecked (bs : List ℕ) : Option ℕ := Gen.FieldFns.fr_from_bytes_checked Exec.frP bs
def fpFromBytesChecked (bs : List ℕ) : Option ℕ := Gen.FieldFns.fp_from_bytes_checked Exec.fpP bs
def fqFromLeBytesModOrder (bs : List ℕ) : ℕ := Gen.FieldFns.fq_from_le_bytes_mod_order Exec.fqP bs
def frFromLeBytesModOrder (bs : List ℕ) : ℕ := Gen.FieldFns.fr_from_le_bytes_mod_order Exec.frP bs
def fpFromLeBytesModOrder (bs : List ℕ) : ℕ := Gen.FieldFns.fp_from_le_bytes_mod_order Exec.fpP bs
def fqToBytes (x : ℕ) : List ℕ := Gen.FieldFns.fq_to_bytes Exec.fqP x
def frToBytes (x : ℕ) : List ℕ := Gen.FieldFns.fr_to_bytes Exec.frP x
def fpToBytes (x : ℕ) : List ℕ := Gen.FieldFns.fp_to_bytes Exec.fpP x
end Code
