/-
The R1CS gadget bodies of src/ark_curve/r1cs/{inner,fqvar_ext}.rs, regenerated into Lean on every run
(translator/extract_formulas.py, class GSym: an `FqVar`/`Boolean` is its value, the emitted constraints accumulate in
program order, the prover's choice of witnesses is the hint parameter), equal the hand-written relational model
Model/R1cs.lean for all inputs and all hints.
-/
import Decaf.Lemmas.Formulas.Tactic

namespace Formulas
open Model

/-- one step for gadget bodies: the in-circuit `isqrt` result is split for both sides at once -/
macro "gadget_step" : tactic => `(tactic| first
  | with_reducible rfl
  | (generalize R1cs.isqrt _ _ = o; rcases o with ⟨_ | _, _ | _, v⟩ <;>
      simp only [Bool.false_eq_true, Bool.true_eq_false, ↓reduceIte, Bool.not_true, Bool.not_false, beq_true, beq_false,
        Bool.not_eq_true', Bool.not_eq_false', beq_iff_eq, bne_iff_ne, ne_eq, Bool.not_eq_true, Bool.not_eq_false, Bool.not_not,
        Bool.true_and, Bool.and_true, Bool.false_and, Bool.and_false, Bool.true_or, Bool.or_true, Bool.false_or, Bool.or_false,
        Bool.bne_false, Bool.bne_true, Bool.false_bne, Bool.true_bne, Bool.not_bne])
  | split_ifs)

macro "gadget_eq" : tactic => `(tactic| (
  try simp only [min_A, min_D, min_Z, ark_A, ark_D, ark_Z, ark_one, min_K, R1cs.invG]
  try simp only [fmul_val, fadd_val, fsub_val, fneg_val, fsq_val, ZMod.natCast_zmod_val, Nat.cast_ofNat, Nat.cast_one,
    cast_cA', cast_cD', cast_cK', Nat.reducePow, beq_true, beq_false, Bool.not_eq_true', Bool.not_eq_false', beq_iff_eq, bne_iff_ne, ne_eq,
    Bool.not_eq_true, Bool.not_eq_false, Bool.not_not]
  repeat' (first
    | with_reducible rfl
    | (ring_nf; done)
    | (simp only [ZMod.natCast_zmod_val]; ring_nf; done)
    | ((try simp only [ZMod.natCast_zmod_val]); (try ring_nf); gadget_step))))

set_option maxHeartbeats 1600000

theorem r1cs_compress_eq (x y : ℕ) (h : R1cs.Hint) : Gen.Formulas.r1cs_compress x y h = R1cs.compress x y h := by
  unfold Gen.Formulas.r1cs_compress R1cs.compress
  gadget_eq

theorem r1cs_decompress_eq (s : ℕ) (h : R1cs.Hint) : Gen.Formulas.r1cs_decompress s h = R1cs.decompress s h := by
  unfold Gen.Formulas.r1cs_decompress R1cs.decompress
  gadget_eq

theorem r1cs_elligator_eq (r0 : ℕ) (h : R1cs.Hint) : Gen.Formulas.r1cs_elligator r0 h = R1cs.elligator r0 h := by
  unfold Gen.Formulas.r1cs_elligator R1cs.elligator
  gadget_eq

theorem r1cs_is_eq_eq (x1 y1 x2 y2 : ℕ) : Gen.Formulas.r1cs_is_eq x1 y1 x2 y2 = R1cs.isEq (x1, y1) (x2, y2) := by
  unfold Gen.Formulas.r1cs_is_eq R1cs.isEq
  gadget_eq

end Formulas

namespace Formulas
open Model

/-- the in-circuit inverse square root on a variable: the translated constraints are the model's -/
theorem r1cs_isqrt_eq (x : ℕ) (h : R1cs.Hint) : Gen.Formulas.r1cs_isqrt false x h = R1cs.isqrt x h := by
  first
  | (unfold Gen.Formulas.r1cs_isqrt; simp only [Bool.false_eq_true, ↓reduceIte]; done)   -- untranslated: the fallback
  | (unfold Gen.Formulas.r1cs_isqrt R1cs.isqrt
     simp only [Bool.false_eq_true, ↓reduceIte, ark_Z]
     generalize h.getD (R1cs.honest x) = o
     rcases o with ⟨f, y⟩
     simp only []
     by_cases hz : x = 0
     · subst hz
       cases f <;> simp
     · have hz' : (x == 0) = false := by simpa using hz
       cases f <;> simp [hz', hz])

/-- the sign gadgets: parity of the canonical bit decomposition -/
theorem r1cs_is_nonnegative_eq (x : ℕ) : Gen.Formulas.r1cs_is_nonnegative x = !isNeg x := by
  unfold Gen.Formulas.r1cs_is_nonnegative isNeg
  cases h : (x % 2 == 1) <;> simp

theorem r1cs_is_negative_eq (x : ℕ) : Gen.Formulas.r1cs_is_negative x = isNeg x := by
  unfold Gen.Formulas.r1cs_is_negative isNeg
  cases h : (x % 2 == 1) <;> simp_all

theorem r1cs_abs_eq (x : ℕ) : Gen.Formulas.r1cs_abs x = fabs x := by
  unfold Gen.Formulas.r1cs_abs fabs isNeg
  cases h : (x % 2 == 1) <;> simp_all

/-- witness allocation (`AllocVar<Element>`, the `AllocationMode::Witness` arm): curve equation of the offered coordinates,
in-circuit decoding of the natively computed encoding, equality of the decoded variable with the offered point.  The
natively computed encoding is generalised first, so that the kernel never meets the square-root routine. -/
theorem r1cs_alloc_witness_eq (px py : ℕ) (h : R1cs.Hint) :
    Gen.Formulas.r1cs_alloc_witness px py h = R1cs.allocWitness px py h := by
  first
  | (unfold Gen.Formulas.r1cs_alloc_witness; with_reducible rfl)            -- untranslated: the fallback
  | (unfold Gen.Formulas.r1cs_alloc_witness R1cs.allocWitness
     generalize ((Ext.ofAffine (px, py)).encodeField sqrtRatioArk).getD 0 = fe
     simp only [r1cs_decompress_eq, r1cs_is_eq_eq, R1cs.isEq]
     try (generalize R1cs.decompress fe h = o; rcases o with ⟨sat, x, y⟩; with_reducible rfl))

/-- on a constant: no constraint, the pair of constants computed out of circuit (defect repaired by 05db65d) -/
theorem r1cs_isqrt_const (x : ℕ) (h : R1cs.Hint) :
    Gen.Formulas.r1cs_isqrt true x h = (true, h.getD (R1cs.honest x)) := by
  unfold Gen.Formulas.r1cs_isqrt
  simp only [↓reduceIte]

end Formulas

namespace Code
open Model

/-- the translated gadget bodies -/
def r1csCompress (x y : ℕ) (h : R1cs.Hint) : Bool × ℕ := Gen.Formulas.r1cs_compress x y h
def r1csDecompress (s : ℕ) (h : R1cs.Hint) : Bool × ℕ × ℕ := Gen.Formulas.r1cs_decompress s h
def r1csElligator (r0 : ℕ) (h : R1cs.Hint) : Bool × ℕ × ℕ := Gen.Formulas.r1cs_elligator r0 h
def r1csIsEq (a b : ℕ × ℕ) : Bool := Gen.Formulas.r1cs_is_eq a.1 a.2 b.1 b.2
def r1csIsqrt (x : ℕ) (h : R1cs.Hint) : Bool × Bool × ℕ := Gen.Formulas.r1cs_isqrt false x h
def r1csIsqrtConst (x : ℕ) : Bool × Bool × ℕ := Gen.Formulas.r1cs_isqrt true x none

theorem r1csCompress_eq : @r1csCompress = R1cs.compress := by funext x y h; exact Formulas.r1cs_compress_eq x y h
theorem r1csDecompress_eq : @r1csDecompress = R1cs.decompress := by funext s h; exact Formulas.r1cs_decompress_eq s h
theorem r1csElligator_eq : @r1csElligator = R1cs.elligator := by funext r h; exact Formulas.r1cs_elligator_eq r h
theorem r1csIsEq_eq : @r1csIsEq = R1cs.isEq := by funext a b; exact Formulas.r1cs_is_eq_eq a.1 a.2 b.1 b.2
theorem r1csIsqrt_eq : @r1csIsqrt = R1cs.isqrt := by funext x h; exact Formulas.r1cs_isqrt_eq x h
def r1csAllocWitness (px py : ℕ) (h : R1cs.Hint) : Bool × ℕ × ℕ := Gen.Formulas.r1cs_alloc_witness px py h
theorem r1csAllocWitness_eq : @r1csAllocWitness = R1cs.allocWitness := by
  funext px py h; exact Formulas.r1cs_alloc_witness_eq px py h
theorem r1csIsqrtConst_eq (x : ℕ) : r1csIsqrtConst x = (true, R1cs.honest x) := by
  unfold r1csIsqrtConst; rw [Formulas.r1cs_isqrt_const]; rfl

end Code
