/-
The conversion entry points between byte strings, `Encoding` and `Element` (`impl From / TryFrom` in
src/min_curve/element.rs and src/ark_curve/encoding.rs; 20 impl blocks on the pinned tree), regenerated on every run by
translator/extract_convforms.py on denotations (a slice / array / `Encoding` is its list of bytes; `dec`, `enc` are the two
backend primitives, translated and proved separately).  Every entry meets its specification, for every decoder and encoder.
-/
import Decaf.Generated.ConvForms
import Mathlib.Data.List.Basic

namespace Formulas.ConvForms
open Gen.ConvForms

variable {α ε : Type}

/-- slices: length 32 decodes exactly as the decoder does, every other length is the length error -/
theorem decodeSliceForms_correct : ∀ f ∈ (decodeSliceForms : List (String × ((List ℕ → Except ε α) → ε → ε → List ℕ → Except ε α))),
    ∀ (dec : List ℕ → Except ε α) (lenErr encErr : ε) (b : List ℕ),
      f.2 dec lenErr encErr b = if b.length = 32 then dec b else .error lenErr := by
  simp only [decodeSliceForms, List.forall_mem_cons]
  repeat' (first | constructor | (intro dec lenErr encErr b; first | trivial | (by_cases h : b.length = 32 <;> simp [h, List.take_of_length_le])) | (intro f hf; simp at hf))

/-- fixed-size inputs (`[u8; 32]`, `Encoding`, `&Encoding`): exactly the decoder -/
theorem decodeFixedForms_correct : ∀ f ∈ (decodeFixedForms : List (String × ((List ℕ → Except ε α) → List ℕ → Except ε α))),
    ∀ (dec : List ℕ → Except ε α) (b : List ℕ), f.2 dec b = dec b := by
  simp only [decodeFixedForms, List.forall_mem_cons]
  repeat' (first | constructor | (intro dec b; first | trivial | rfl) | (intro f hf; simp at hf))

/-- `TryFrom<&[u8]> for Encoding`: the same 32 bytes, or the length error -/
theorem encodingOfSliceForms_correct : ∀ f ∈ (encodingOfSliceForms : List (String × (ε → ε → List ℕ → Except ε (List ℕ)))),
    ∀ (lenErr encErr : ε) (b : List ℕ), f.2 lenErr encErr b = if b.length = 32 then .ok b else .error lenErr := by
  simp only [encodingOfSliceForms, List.forall_mem_cons]
  repeat' (first | constructor | (intro lenErr encErr b; first | trivial | (by_cases h : b.length = 32 <;> simp [h, List.take_of_length_le])) | (intro f hf; simp at hf))

/-- encoding forms: exactly the encoder -/
theorem encodeForms_correct : ∀ f ∈ (encodeForms : List (String × ((α → List ℕ) → α → List ℕ))),
    ∀ (enc : α → List ℕ) (e : α), f.2 enc e = enc e := by
  simp only [encodeForms, List.forall_mem_cons]
  repeat' (first | constructor | (intro enc e; first | trivial | rfl) | (intro f hf; simp at hf))

/-- `[u8; 32]` ↔ `Encoding`: the identity on the bytes -/
theorem bytesForms_correct : ∀ f ∈ (bytesForms : List (String × (List ℕ → List ℕ))), ∀ b : List ℕ, f.2 b = b := by
  simp only [bytesForms, List.forall_mem_cons]
  repeat' (first | constructor | (intro b; first | trivial | rfl) | (intro f hf; simp at hf))

/-! ### the stream deserialisers (`CanonicalDeserialize for Encoding | Element | AffinePoint`) -/

/-- `Encoding`: in (Yes, Yes) mode the first 32 bytes the reader delivers, the io error when fewer are left; every other mode is
the `unimplemented!()` panic -/
theorem deserEncodingForms_correct : ∀ f ∈ (deserEncodingForms : List (String × (Bool → Bool → List ℕ → Except SerErr (List ℕ)))),
    ∀ (compress validate : Bool) (inp : List ℕ),
      f.2 compress validate inp =
        if compress && validate then (if inp.length < 32 then .error .io else .ok (inp.take 32)) else .error .panic := by
  simp only [deserEncodingForms, List.forall_mem_cons]
  repeat' (first | constructor | (intro c v inp; cases c <;> cases v <;> simp) | (intro f hf; simp at hf))

/-- `Element`, `AffinePoint`: in (Yes, Yes) mode the decoder on the first 32 bytes, every decoding error becoming
`InvalidData`, the io error on short input; every other mode is the panic -/
theorem deserElementForms_correct : ∀ f ∈ (deserElementForms : List (String × ((List ℕ → Except ε α) → Bool → Bool → List ℕ → Except SerErr α))),
    ∀ (dec : List ℕ → Except ε α) (compress validate : Bool) (inp : List ℕ),
      f.2 dec compress validate inp =
        if compress && validate then
          (if inp.length < 32 then .error .io else
            match dec (inp.take 32) with | .ok el => .ok el | .error _ => .error .invalidData)
        else .error .panic := by
  simp only [deserElementForms, List.forall_mem_cons]
  repeat' (first | constructor | (intro dec c v inp; cases c <;> cases v <;> simp) | (intro f hf; simp at hf))

/-! ### the stream serialisers (`CanonicalSerialize for Encoding | Element | AffinePoint`) -/

/-- `serialized_size`: 32 in compressed mode, the `unimplemented!()` panic otherwise -/
theorem serSizeForms_correct : ∀ f ∈ (serSizeForms : List (String × (Bool → Except SerErr ℕ))),
    ∀ compress : Bool, f.2 compress = if compress then .ok 32 else .error .panic := by
  simp only [serSizeForms, List.forall_mem_cons]
  repeat' (first | constructor | (intro c; first | trivial | rfl | (cases c <;> simp)) | (intro f hf; simp at hf))

/-- `Encoding`: exactly the 32 bytes are written, in either mode -/
theorem serEncodingForms_correct : ∀ f ∈ (serEncodingForms : List (String × (Bool → List ℕ → Except SerErr (List ℕ)))),
    ∀ (mode : Bool) (b : List ℕ), f.2 mode b = .ok b := by
  simp only [serEncodingForms, List.forall_mem_cons]
  repeat' (first | constructor | (intro m b; first | trivial | rfl | (cases m <;> simp)) | (intro f hf; simp at hf))

/-- `Element`, `AffinePoint`: exactly the canonical encoding is written -/
theorem serElementForms_correct : ∀ f ∈ (serElementForms : List (String × ((α → List ℕ) → Bool → α → Except SerErr (List ℕ)))),
    ∀ (enc : α → List ℕ) (mode : Bool) (e : α), f.2 enc mode e = .ok (enc e) := by
  simp only [serElementForms, List.forall_mem_cons]
  repeat' (first | constructor | (intro enc m e; first | trivial | rfl | (cases m <;> simp)) | (intro f hf; simp at hf))

/-! ### `Hash for Element | AffinePoint` -/

/-- what reaches the hasher is exactly the encoder's output on the element — for EVERY reading `raw` of the stored curve
point, i.e. never anything read off `self.inner` (the defect of the pinned tree makes this unprovable: `raw e = enc e`) -/
theorem hashForms_correct {β : Type} : ∀ f ∈ (hashForms : List (String × ((α → β) → (α → β) → α → β))),
    ∀ (enc raw : α → β) (e : α), f.2 enc raw e = enc e := by
  simp only [hashForms, List.forall_mem_cons]
  repeat' (first | constructor | (intro enc raw e; first | trivial | rfl) | (intro f hf; simp at hf))

end Formulas.ConvForms
