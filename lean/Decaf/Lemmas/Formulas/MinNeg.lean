/-
`Gen.Formulas.min_neg` is regenerated from src/min_curve/element.rs `impl Neg for Element` on every run
(translator/extract_formulas.py).  Here: it equals the hand-written model for all inputs.
-/
import Decaf.Lemmas.Formulas.Tactic

namespace Formulas
open Model

set_option linter.unusedVariables false in
set_option maxHeartbeats 1600000 in
theorem min_neg_eq (sr : SR) (p : Ext) : Gen.Formulas.min_neg p.X p.Y p.Z p.T = p.neg := by
  unfold Gen.Formulas.min_neg Ext.neg
  formula_eq sr

end Formulas

namespace Code
open Model

/-- the translated Rust code, as a function of the model's types -/
def minNeg (p : Ext) : Ext := Gen.Formulas.min_neg p.X p.Y p.Z p.T

theorem minNeg_eq : @minNeg = Ext.neg := by
  funext p; exact Formulas.min_neg_eq (fun _ _ => none) p

end Code
