/-
`Gen.Formulas.ark_sqrt_ratio_zeta` — the straight-line main routine of the table-driven `Fq::sqrt_ratio_zeta`
(src/ark_curve/invsqrt.rs), regenerated on every run — equals the hand-written `Model.sqrtRatioArk`, the function whose
four-case contract `C09.ark_contract` proves.  The tables enter by their contract with Model/Sqrt.lean (`gtab`,
`sLookup`; their construction loops in `SquareRootTables::new` are tied by the correspondence check, which hits every
row).  Only reducible-transparency tactics are used: a mismatch fails fast instead of sending the kernel into the tables.
-/
import Decaf.Generated.Formulas
import Decaf.Lemmas.Formulas.Tactic
import Decaf.Lemmas.Formulas.Ladder

namespace Formulas
open Model

theorem lit_N : Gen.Formulas.litNat Gen.ark_curve_constants.top.N = sarkN := rfl
theorem lit_M : Gen.Formulas.litNat Gen.ark_curve_constants.top.M_MINUS_ONE_DIV_TWO = sarkMm1d2 := rfl
theorem lit_Z1 : fqLit Gen.ark_curve_constants.top.ZETA_TO_ONE_MINUS_M_DIV_TWO = zetaToOneMinusMDiv2 := rfl

theorem ark_sqrt_ratio_zeta_eq (num den : ℕ) : Gen.Formulas.ark_sqrt_ratio_zeta num den = sqrtRatioArk num den := by
  first
  | (unfold Gen.Formulas.ark_sqrt_ratio_zeta; with_reducible rfl)      -- untranslated: the fallback
  | (unfold Gen.Formulas.ark_sqrt_ratio_zeta sqrtRatioArk sarkTail sarkS1 sarkS2 sarkS3 sarkS4 sarkS5 sarkFin
     simp only [lit_N, lit_M, lit_Z1, ark_one, pow_one]
     done)                                                              -- syntactically the model after rewriting the constants
  | (unfold Gen.Formulas.ark_sqrt_ratio_zeta sqrtRatioArk sarkTail sarkS1 sarkS2 sarkS3 sarkS4 sarkS5 sarkFin
     simp only [lit_N, lit_M, lit_Z1, ark_one, pow_one]
     with_reducible rfl)

/-- the top level of the minimal backend's routine (src/min_curve/invsqrt.rs `non_arkworks_sqrt_ratio_zeta`); its two
loops: both loops are translated too (Ladder.lean: `min_pow_le_limbs_eq`, `min_our_sqrt_eq`) -/
theorem min_sqrt_ratio_zeta_eq (num den : ℕ) : Gen.Formulas.min_sqrt_ratio_zeta num den = sqrtRatioMin num den := by
  first
  | (unfold Gen.Formulas.min_sqrt_ratio_zeta; with_reducible rfl)
  | (unfold Gen.Formulas.min_sqrt_ratio_zeta sqrtRatioMin
     simp only [min_Z, min_pow_le_limbs_eq, min_our_sqrt_eq]
     try with_reducible rfl)

end Formulas

namespace Code
open Model
/-- the translated routine -/
def arkSqrtRatioZeta (num den : ℕ) : Option (Bool × ℕ) := Gen.Formulas.ark_sqrt_ratio_zeta num den
theorem arkSqrtRatioZeta_eq : @arkSqrtRatioZeta = sqrtRatioArk := by
  funext n d; exact Formulas.ark_sqrt_ratio_zeta_eq n d
def minSqrtRatioZeta (num den : ℕ) : Option (Bool × ℕ) := Gen.Formulas.min_sqrt_ratio_zeta num den
theorem minSqrtRatioZeta_eq : @minSqrtRatioZeta = sqrtRatioMin := by
  funext n d; exact Formulas.min_sqrt_ratio_zeta_eq n d
end Code
