/-
arkworks' generic `Field::sqrt` as driven by the repository's constants (`SQRT_PRECOMP`): the Tonelli–Shanks variant
(`sqrtTS`, used for Fq and Fp) and the p ≡ 3 (mod 4) shortcut (`sqrt3Mod4`, used for Fr) agree with Euler's criterion:
a root of every square, `None` for every non-square, within the modelled fuel (so the loops terminate).
Generic over the prime modulus; instantiated with the translated constants in Props/C09.
-/
import Decaf.Lemmas.TonelliShanks

namespace Model

variable {m : ℕ} [Fact m.Prime]

omit [Fact m.Prime] in
theorem one_mod_of_lt (hm : 1 < m) : 1 % m = 1 := Nat.mod_eq_of_lt hm

theorem beq_one_iff {b : ℕ} (hm : 1 < m) (hb : b < m) : (b == 1 % m) = true ↔ (b : ZMod m) = 1 := by
  rw [one_mod_of_lt hm, beq_iff_eq]
  constructor
  · intro h; rw [h, Nat.cast_one]
  · intro h
    apply eq_of_cast_eq hb hm
    rw [h, Nat.cast_one]

/-- the inner loop: the least j with b^(2^j) = 1, found within the fuel -/
theorem findK_spec (hm : 1 < m) : ∀ (j fuel b k : ℕ), b < m → j < fuel → (b : ZMod m) ^ (2 ^ j) = 1 →
    (∀ i < j, (b : ZMod m) ^ (2 ^ i) ≠ 1) → findK m fuel b k = some (k + j) := by
  intro j
  induction j with
  | zero =>
    intro fuel b k hb hf h1 _
    obtain ⟨f, rfl⟩ : ∃ f, fuel = f + 1 := ⟨fuel - 1, by omega⟩
    unfold findK
    have : (b == 1 % m) = true := (beq_one_iff hm hb).mpr (by simpa using h1)
    rw [if_pos this, Nat.add_zero]
  | succ j ih =>
    intro fuel b k hb hf h1 hmin
    obtain ⟨f, rfl⟩ : ∃ f, fuel = f + 1 := ⟨fuel - 1, by omega⟩
    unfold findK
    have hne : ¬ (b == 1 % m) = true := by
      rw [beq_one_iff hm hb]
      have := hmin 0 (Nat.succ_pos j)
      simpa using this
    rw [if_neg hne]
    have := ih f (fmul m b b) (k + 1) (fmul_lt (lt_trans Nat.zero_lt_one hm) _ _) (by omega)
      (by rw [cast_fmul, ← sq, ← pow_mul, ← pow_succ']; exact h1)
      (by
        intro i hi
        rw [cast_fmul, ← sq, ← pow_mul, ← pow_succ']
        exact hmin (i + 1) (by omega))
    rw [this]; congr 1; omega

theorem sq_eq_one_cases {x : ZMod m} (h : x ^ 2 = 1) : x = 1 ∨ x = -1 := by
  have : (x - 1) * (x + 1) = 0 := by ring_nf; rw [h]; ring
  rcases mul_eq_zero.mp this with h1 | h1
  · left; linear_combination h1
  · right; linear_combination h1

/-- in a field, an element killed by 2^n has a least exponent j ≤ n, and for j ≥ 1 its 2^(j-1)-th power is -1 -/
theorem exists_least_two_pow {b : ZMod m} {n : ℕ} (h : b ^ (2 ^ n) = 1) :
    ∃ j ≤ n, b ^ (2 ^ j) = 1 ∧ (∀ i < j, b ^ (2 ^ i) ≠ 1) ∧ (1 ≤ j → b ^ (2 ^ (j - 1)) = -1) := by
  classical
  have hex : ∃ j, b ^ (2 ^ j) = 1 := ⟨n, h⟩
  refine ⟨Nat.find hex, Nat.find_min' hex h, Nat.find_spec hex, fun i hi => Nat.find_min hex hi, ?_⟩
  intro h1
  have hsq : (b ^ (2 ^ (Nat.find hex - 1))) ^ 2 = 1 := by
    rw [← pow_mul, ← pow_succ]
    have : Nat.find hex - 1 + 1 = Nat.find hex := by omega
    rw [this]; exact Nat.find_spec hex
  have hne : b ^ (2 ^ (Nat.find hex - 1)) ≠ 1 := Nat.find_min hex (by omega)
  rcases sq_eq_one_cases hsq with h2 | h2
  · exact absurd h2 hne
  · exact h2

theorem half_eq (hm : 2 < m) : m / 2 = (m - 1) / 2 := by
  have hodd : m % 2 = 1 := by
    rcases (Fact.out : m.Prime).eq_two_or_odd with h | h
    · omega
    · exact h
  omega

theorem euler' (hm : 2 < m) {a : ZMod m} (ha : a ≠ 0) : IsSquare a ↔ a ^ ((m - 1) / 2) = 1 := by
  rw [← half_eq hm]; exact ZMod.euler_criterion m ha

theorem euler_or' (hm : 2 < m) {a : ZMod m} (ha : a ≠ 0) : a ^ ((m - 1) / 2) = 1 ∨ a ^ ((m - 1) / 2) = -1 := by
  rw [← half_eq hm]; exact ZMod.pow_div_two_eq_neg_one_or_one m ha

/-- the main loop on a square: with  x² = a·b,  z^(2^(v-1)) = -1,  b^(2^(v-1)) = 1  it returns a root of a -/
theorem tsLoop_square (hm : 2 < m) (s : ℕ) (a : ZMod m) :
    ∀ (v fuel z x b : ℕ), 1 ≤ v → v ≤ s → v < fuel → z < m → x < m → b < m →
      (x : ZMod m) ^ 2 = a * (b : ZMod m) → (z : ZMod m) ^ (2 ^ (v - 1)) = -1 → (b : ZMod m) ^ (2 ^ (v - 1)) = 1 →
      ∃ x', tsLoop m s fuel z x b v = some (some x') ∧ x' < m ∧ (x' : ZMod m) ^ 2 = a := by
  have hm1 : 1 < m := lt_trans (by norm_num) hm
  have hm0 : 0 < m := lt_trans Nat.zero_lt_one hm1
  intro v
  induction v using Nat.strong_induction_on with
  | _ v ih =>
    intro fuel z x b hv1 hvs hvf hz hx hb hI1 hI2 hI3
    obtain ⟨f, rfl⟩ : ∃ f, fuel = f + 1 := ⟨fuel - 1, by omega⟩
    unfold tsLoop
    by_cases hb1 : (b == 1 % m) = true
    · rw [if_pos hb1]
      refine ⟨x, rfl, hx, ?_⟩
      rw [hI1, (beq_one_iff hm1 hb).mp hb1, mul_one]
    · rw [if_neg hb1]
      have hbne : (b : ZMod m) ≠ 1 := fun h => hb1 ((beq_one_iff hm1 hb).mpr h)
      obtain ⟨k, hkle, hk1, hkmin, hkneg⟩ := exists_least_two_pow hI3
      have hk0 : 1 ≤ k := by
        rcases Nat.eq_zero_or_pos k with h | h
        · subst h; simp at hk1; exact absurd hk1 hbne
        · exact h
      have hfind : findK m (s + 2) b 0 = some k := by
        have := findK_spec hm1 k (s + 2) b 0 hb (by omega) hk1 hkmin
        rwa [Nat.zero_add] at this
      rw [hfind]
      simp only []
      have hks : (k == s) = false := by
        rw [beq_eq_false_iff_ne]; omega
      rw [hks]
      simp only [Bool.false_eq_true, if_false]
      -- j = v - k ≥ 1
      have hj : 1 ≤ v - k := by omega
      set w := iterSq m (v - k - 1) z with hw
      have hwlt : w < m := iterSq_lt m hm0 _ _ hz
      have hwc : (w : ZMod m) = (z : ZMod m) ^ (2 ^ (v - k - 1)) := cast_iterSq m _ _
      have hz'c : ((fmul m w w : ℕ) : ZMod m) = (z : ZMod m) ^ (2 ^ (v - k)) := by
        rw [cast_fmul, hwc, ← sq, ← pow_mul, ← pow_succ]
        congr 2; omega
      have hz'neg : ((fmul m w w : ℕ) : ZMod m) ^ (2 ^ (k - 1)) = -1 := by
        rw [hz'c, ← pow_mul, ← pow_add]
        have : v - k + (k - 1) = v - 1 := by omega
        rw [this]; exact hI2
      apply ih k (by omega) f (fmul m w w) (fmul m x w) (fmul m b (fmul m w w)) hk0 (by omega) (by omega)
        (fmul_lt hm0 _ _) (fmul_lt hm0 _ _) (fmul_lt hm0 _ _)
      · rw [cast_fmul, cast_fmul, mul_pow, hI1, cast_fmul, sq (w : ZMod m)]; ring
      · exact hz'neg
      · rw [cast_fmul, mul_pow, hkneg hk0, hz'neg]; ring

/-- the main loop on a non-square: b = a^t has b^(2^(s-1)) = -1, so the first inner search returns s -/
theorem tsLoop_nonsquare (hm : 2 < m) (s : ℕ) (hs : 1 ≤ s) (fuel z x b : ℕ) (hf : 0 < fuel) (hb : b < m)
    (hneg : (b : ZMod m) ^ (2 ^ (s - 1)) = -1) : tsLoop m s fuel z x b s = some none := by
  have hm1 : 1 < m := lt_trans (by norm_num) hm
  have hneq : (-1 : ZMod m) ≠ 1 := by
    intro h
    have h2 : ((2 : ℕ) : ZMod m) = 0 := by
      have : (2 : ZMod m) = 0 := by linear_combination -h
      simpa using this
    rw [ZMod.natCast_eq_zero_iff] at h2
    exact absurd (Nat.le_of_dvd (by norm_num) h2) (by omega)
  obtain ⟨f, rfl⟩ : ∃ f, fuel = f + 1 := ⟨fuel - 1, by omega⟩
  unfold tsLoop
  have hb1 : ¬ (b == 1 % m) = true := by
    rw [beq_one_iff hm1 hb]
    intro h; rw [h, one_pow] at hneg; exact hneq hneg.symm
  rw [if_neg hb1]
  have hs1 : (b : ZMod m) ^ (2 ^ s) = 1 := by
    have : s = (s - 1) + 1 := by omega
    rw [this, pow_succ, pow_mul, hneg]; ring
  have hmin : ∀ i < s, (b : ZMod m) ^ (2 ^ i) ≠ 1 := by
    intro i hi h
    have : (b : ZMod m) ^ (2 ^ (s - 1)) = 1 := by
      have e : s - 1 = i + (s - 1 - i) := by omega
      rw [e, pow_add, pow_mul, h, one_pow]
    rw [this] at hneg; exact hneq hneg.symm
  have hfind : findK m (s + 2) b 0 = some s := by
    have := findK_spec hm1 s (s + 2) b 0 hb (by omega) hs1 hmin
    rwa [Nat.zero_add] at this
  rw [hfind]
  simp

/-- **arkworks' Tonelli–Shanks agrees with Euler's criterion** for any prime modulus m = 2^s·t + 1 (t odd), any
`zq` with zq^(2^(s-1)) = -1 and exponent limbs denoting (t-1)/2 -/
theorem sqrtTS_spec (hm : 2 < m) (s t zq : ℕ) (e : List ℕ) (hs : 1 ≤ s) (hmt : m - 1 = 2 ^ s * t)
    (he : ∀ l ∈ e, l < 2 ^ 64) (het : 2 * Lit.ofLimbs 64 e + 1 = t) (hzq : zq < m) (hz : (zq : ZMod m) ^ (2 ^ (s - 1)) = -1)
    {a : ℕ} (ha : a < m) :
    (IsSquare (a : ZMod m) → ∃ x, sqrtTS m s zq e a = some (some x) ∧ x < m ∧ (x : ZMod m) ^ 2 = (a : ZMod m)) ∧
    (¬ IsSquare (a : ZMod m) → sqrtTS m s zq e a = some none) := by
  have hm1 : 1 < m := lt_trans (by norm_num) hm
  have hm0 : 0 < m := lt_trans Nat.zero_lt_one hm1
  unfold sqrtTS
  by_cases ha0 : a = 0
  · subst ha0
    simp only [beq_self_eq_true, if_true]
    exact ⟨fun _ => ⟨0, rfl, hm0, by simp⟩, fun h => absurd ⟨0, by simp⟩ h⟩
  · have hz0 : (a == 0) = false := by simpa using ha0
    rw [hz0]
    simp only [Bool.false_eq_true, if_false]
    have haq : (a : ZMod m) ≠ 0 := by rwa [Ne, cast_eq_zero_iff ha]
    set w := powLeLimbs m a e with hw
    have hwc : (w : ZMod m) = (a : ZMod m) ^ Lit.ofLimbs 64 e := cast_powLeLimbs m a e he
    have hwlt : w < m := powLeLimbs_lt m a hm1 e
    have hxc : ((fmul m w a : ℕ) : ZMod m) = (a : ZMod m) ^ (Lit.ofLimbs 64 e + 1) := by
      rw [cast_fmul, hwc, pow_succ]
    have hbc : ((fmul m (fmul m w a) w : ℕ) : ZMod m) = (a : ZMod m) ^ t := by
      rw [cast_fmul, hxc, hwc, ← pow_add, ← het]; congr 1; ring
    have hI1 : ((fmul m w a : ℕ) : ZMod m) ^ 2 = (a : ZMod m) * ((fmul m (fmul m w a) w : ℕ) : ZMod m) := by
      rw [hbc, hxc, ← pow_mul, ← het]
      rw [show (Lit.ofLimbs 64 e + 1) * 2 = (2 * Lit.ofLimbs 64 e + 1) + 1 by ring, pow_succ]; ring
    have hhalf : (m - 1) / 2 = 2 ^ (s - 1) * t := by
      rw [hmt]
      have : 2 ^ s = 2 ^ (s - 1) * 2 := by rw [← pow_succ]; congr 1; omega
      rw [this, Nat.mul_right_comm, Nat.mul_div_cancel _ (by norm_num)]
    have hbpow : ((fmul m (fmul m w a) w : ℕ) : ZMod m) ^ (2 ^ (s - 1)) = (a : ZMod m) ^ ((m - 1) / 2) := by
      rw [hbc, ← pow_mul, hhalf, Nat.mul_comm]
    have heuler := euler' hm haq
    have hcard := euler_or' hm haq
    constructor
    · intro hsq
      have h1 : (a : ZMod m) ^ ((m - 1) / 2) = 1 := heuler.mp hsq
      obtain ⟨x', hx', hlt, hsq'⟩ := tsLoop_square hm s (a : ZMod m) s (s + 2) zq (fmul m w a) (fmul m (fmul m w a) w)
        hs (le_refl _) (by omega) hzq (fmul_lt hm0 _ _) (fmul_lt hm0 _ _) hI1 hz (by rw [hbpow, h1])
      rw [hx']
      simp only []
      have hchk : (fmul m x' x' == a) = true := by
        rw [beq_iff_eq]
        apply eq_of_cast_eq (fmul_lt hm0 _ _) ha
        rw [cast_fmul, ← sq, hsq']
      rw [hchk]
      exact ⟨x', rfl, hlt, hsq'⟩
    · intro hns
      have h1 : (a : ZMod m) ^ ((m - 1) / 2) = -1 := by
        rcases hcard with h | h
        · exact absurd (heuler.mpr h) hns
        · exact h
      rw [tsLoop_nonsquare hm s hs (s + 2) zq (fmul m w a) (fmul m (fmul m w a) w) (by omega) (fmul_lt hm0 _ _)
        (by rw [hbpow, h1])]

/-- the p ≡ 3 (mod 4) shortcut: a^((p+1)/4), checked -/
theorem sqrt3Mod4_spec (hm : 2 < m) (e : List ℕ) (he : ∀ l ∈ e, l < 2 ^ 64) (hexp : 4 * Lit.ofLimbs 64 e = m + 1) {a : ℕ} (ha : a < m) :
    (IsSquare (a : ZMod m) → ∃ x, sqrt3Mod4 m e a = some x ∧ x < m ∧ (x : ZMod m) ^ 2 = (a : ZMod m)) ∧
    (¬ IsSquare (a : ZMod m) → sqrt3Mod4 m e a = none) := by
  have hm1 : 1 < m := lt_trans (by norm_num) hm
  have hm0 : 0 < m := lt_trans Nat.zero_lt_one hm1
  unfold sqrt3Mod4
  simp only []
  set res := powLeLimbs m a e with hres
  have hrc : (res : ZMod m) = (a : ZMod m) ^ Lit.ofLimbs 64 e := cast_powLeLimbs m a e he
  have hrlt : res < m := powLeLimbs_lt m a hm1 e
  have hsqc : ((fmul m res res : ℕ) : ZMod m) = (a : ZMod m) * (a : ZMod m) ^ ((m - 1) / 2) := by
    rw [cast_fmul, hrc, ← pow_add, ← pow_succ']
    congr 1
    omega
  by_cases ha0 : a = 0
  · subst ha0
    have hpos : 0 < Lit.ofLimbs 64 e := by omega
    have : fmul m res res = 0 := by
      apply eq_of_cast_eq (fmul_lt hm0 _ _) hm0
      rw [cast_fmul, hrc, Nat.cast_zero, zero_pow (by omega), zero_mul]
    rw [this]
    simp only [beq_self_eq_true, if_true]
    constructor
    · intro _
      refine ⟨res, rfl, hrlt, ?_⟩
      rw [hrc, Nat.cast_zero, zero_pow (by omega), zero_pow (by norm_num)]
    · intro h; exact absurd ⟨0, by simp⟩ h
  · have haq : (a : ZMod m) ≠ 0 := by rwa [Ne, cast_eq_zero_iff ha]
    have heuler := euler' hm haq
    constructor
    · intro hsq
      have h1 := heuler.mp hsq
      have hchk : (fmul m res res == a) = true := by
        rw [beq_iff_eq]
        apply eq_of_cast_eq (fmul_lt hm0 _ _) ha
        rw [hsqc, h1, mul_one]
      rw [hchk]
      refine ⟨res, rfl, hrlt, ?_⟩
      rw [sq, ← cast_fmul, hsqc, h1, mul_one]
    · intro hns
      have h1 : (a : ZMod m) ^ ((m - 1) / 2) = -1 := by
        rcases euler_or' hm haq with h | h
        · exact absurd (heuler.mpr h) hns
        · exact h
      have hchk : (fmul m res res == a) = false := by
        rw [beq_eq_false_iff_ne]
        intro h
        have hc := congrArg (Nat.cast : ℕ → ZMod m) h
        rw [hsqc, h1] at hc
        have h2a : (2 : ZMod m) * (a : ZMod m) = 0 := by linear_combination -hc
        rcases mul_eq_zero.mp h2a with h2 | h2
        · have h2' : ((2 : ℕ) : ZMod m) = 0 := by simpa using h2
          rw [ZMod.natCast_eq_zero_iff] at h2'
          exact absurd (Nat.le_of_dvd (by norm_num) h2') (by omega)
        · exact haq h2
      rw [hchk]
      simp

/-- `legendre` through `pow_le_limbs` agrees with Euler's criterion, for any prime modulus -/
theorem legendre_spec (hm : 2 < m) (half : List ℕ) (hl : ∀ l ∈ half, l < 2 ^ 64) (hh : Lit.ofLimbs 64 half = (m - 1) / 2)
    {a : ℕ} (ha : a < m) :
    legendre m half a = if a = 0 then 0 else if IsSquare (a : ZMod m) then 1 else 2 := by
  classical
  have hm1 : 1 < m := lt_trans (by norm_num) hm
  unfold legendre
  by_cases ha0 : a = 0
  · subst ha0; simp
  · have h0 : (a == 0) = false := by simpa using ha0
    have haq : (a : ZMod m) ≠ 0 := by rwa [Ne, cast_eq_zero_iff ha]
    simp only [h0, Bool.false_eq_true, if_false, ha0]
    have hc : ((powLeLimbs m a half : ℕ) : ZMod m) = (a : ZMod m) ^ ((m - 1) / 2) := by
      rw [cast_powLeLimbs m a _ hl, hh]
    have hlt := powLeLimbs_lt m a hm1 half
    by_cases hs : IsSquare (a : ZMod m)
    · have : (powLeLimbs m a half == 1 % m) = true := (beq_one_iff hm1 hlt).mpr (by rw [hc]; exact (euler' hm haq).mp hs)
      simp [this, hs]
    · have : (powLeLimbs m a half == 1 % m) = false := by
        cases hb : (powLeLimbs m a half == 1 % m) with
        | false => rfl
        | true =>
          exfalso; apply hs
          apply (euler' hm haq).mpr
          rw [← hc]; exact (beq_one_iff hm1 hlt).mp hb
      simp [this, hs]

end Model
