/-
Gadgets under adversarial hints, by patching the square-root routine: `srPatch den f v` is the native routine with
its answer at the single input (1, den) replaced by the prover's hint (f, v).  If the isqrt constraints hold for the
hint (and den ≠ 0) the patched routine still meets the square-root contract, so every theorem proved "for any
routine meeting the contract" (encoding = specification, Elligator = specification, uniqueness of both) applies to
what the gadget computes from the hint.
-/
import Decaf.Lemmas.Sarkar
import Decaf.Lemmas.ModelElligator
import Decaf.Model.R1cs

namespace Model
open Edwards Decaf

def srPatch (den : ℕ) (f : Bool) (v : ℕ) : SR :=
  fun n d => if n = 1 ∧ d = den then some (f, v) else sqrtRatioArk n d

theorem srPatch_hit (den : ℕ) (f : Bool) (v : ℕ) : srPatch den f v 1 den = some (f, v) := by
  unfold srPatch; rw [if_pos ⟨rfl, rfl⟩]

theorem isSquare_one_div_iff {a : Fq} : IsSquare (1 / a) ↔ IsSquare a := by
  rw [one_div]
  constructor
  · rintro ⟨u, hu⟩; exact ⟨u⁻¹, by rw [← mul_inv, ← hu, inv_inv]⟩
  · rintro ⟨u, hu⟩; exact ⟨u⁻¹, by rw [← mul_inv, ← hu]⟩

theorem srPatch_contract {den : ℕ} (hd0 : den ≠ 0) {f : Bool} {v : ℕ} (hv : v < q)
    (hf : f = true ↔ IsSquare (den : Fq)) (hval : (v : Fq) ^ 2 * (den : Fq) = if f then 1 else (ZETA : Fq)) :
    SRContract (srPatch den f v) := by
  have hA := sarkar_contract
  constructor
  · intro n d hn hd
    unfold srPatch
    by_cases hp : n = 1 ∧ d = den
    · rw [if_pos hp]; exact ⟨f, v, rfl, hv⟩
    · rw [if_neg hp]; exact hA.total n d hn hd
  · intro d f' y hd h
    unfold srPatch at h
    rw [if_neg (by rintro ⟨h1, _⟩; exact absurd h1 (by decide))] at h
    exact hA.num_zero d f' y hd h
  · intro n f' y hn hn0 h
    unfold srPatch at h
    rw [if_neg (by rintro ⟨_, h2⟩; exact hd0 h2.symm)] at h
    exact hA.den_zero n f' y hn hn0 h
  · intro n d f' y hn hd hn0 hdd h hsq
    unfold srPatch at h
    by_cases hp : n = 1 ∧ d = den
    · rw [if_pos hp] at h
      obtain ⟨rfl, rfl⟩ := hp
      injection h with h; injection h with h1 h2
      subst h1; subst h2
      rw [Nat.cast_one] at hsq ⊢
      have hft : f = true := hf.mpr (isSquare_one_div_iff.mp hsq)
      subst hft
      rw [if_pos rfl] at hval
      exact ⟨rfl, hval⟩
    · rw [if_neg hp] at h; exact hA.square n d f' y hn hd hn0 hdd h hsq
  · intro n d f' y hn hd hn0 hdd h hns
    unfold srPatch at h
    by_cases hp : n = 1 ∧ d = den
    · rw [if_pos hp] at h
      obtain ⟨rfl, rfl⟩ := hp
      injection h with h; injection h with h1 h2
      subst h1; subst h2
      rw [Nat.cast_one] at hns ⊢
      have hff : f = false := by
        cases f with
        | false => rfl
        | true => exact absurd (isSquare_one_div_iff.mpr (hf.mp rfl)) hns
      subst hff
      rw [if_neg (by decide)] at hval
      rw [mul_one]
      exact ⟨rfl, hval⟩
    · rw [if_neg hp] at h; exact hA.nonsquare n d f' y hn hd hn0 hdd h hns

/-! ### the compress gadget is the native encoder run with the hint in place of the square root

The kernel must never be asked to compare two `match`/`if` terms whose discriminants are symbolic field expressions
(it would unfold `%` on open terms); the lemmas below therefore first rewrite the discriminant through a hypothesis
about an opaque routine `sr`, and only then instantiate. -/

/-- the argument of isqrt in the compress gadget / of sqrt_ratio in the encoder -/
def encDen (c : Ext) : ℕ :=
  fmul q (fmul q (fmul q (fadd q c.X c.T) (fsub q c.X c.T)) (fsub q cA cD)) (fsq q c.X)

/-- what the encoder computes from a square-root answer `v` -/
def encOut (c : Ext) (v : ℕ) : ℕ :=
  fabs (fmul q (fmul q (fmul q (fsub q cA cD) v)
    (fsub q (fmul q (fabs (fmul q v (fmul q (fadd q c.X c.T) (fsub q c.X c.T)))) c.Z) c.T)) c.X)

theorem encodeField_of_sr {sr : SR} {c : Ext} {f : Bool} {v : ℕ} (h : sr 1 (encDen c) = some (f, v)) :
    Ext.encodeField sr c = some (encOut c v) := by
  unfold Ext.encodeField
  simp only []
  rw [show fmul q (fmul q (fmul q (fadd q c.X c.T) (fsub q c.X c.T)) (fsub q cA cD)) (fsq q c.X) = encDen c from rfl, h]
  rfl

theorem compress_gadget (x y : ℕ) (f : Bool) (v : ℕ) :
    R1cs.compress x y (some (f, v)) =
      ((R1cs.isqrt (encDen ⟨x, y, 1, fmul q x y⟩) (some (f, v))).1, encOut ⟨x, y, 1, fmul q x y⟩ v) := rfl

/-- for ANY hint (also the honest one): the gadget's output is the encoder's formula on the value isqrt hands on -/
theorem compress_of_isqrt {x y : ℕ} {h : R1cs.Hint} {sat f : Bool} {v : ℕ}
    (hi : R1cs.isqrt (encDen ⟨x, y, 1, fmul q x y⟩) h = (sat, f, v)) :
    R1cs.compress x y h = (sat, encOut ⟨x, y, 1, fmul q x y⟩ v) := by
  unfold R1cs.compress
  simp only []
  rw [show fmul q (fmul q (fmul q (fadd q x (fmul q x y)) (fsub q x (fmul q x y))) (fsub q cA cD)) (fsq q x)
    = encDen ⟨x, y, 1, fmul q x y⟩ from rfl, hi]
  rfl

/-! ### the Elligator gadget -/

def ellArg (r0 : ℕ) : ℕ :=
  fmul q (fmul q (fadd q (fmul q ZETA (fsq q r0)) 1) (fsub q cA (fmul q 2 cD)))
    (fmul q (fsub q (fmul q cD (fmul q ZETA (fsq q r0))) (fsub q cD cA))
      (fsub q (fmul q (fsub q cD cA) (fmul q ZETA (fsq q r0))) cD))

/-- the values `s` and `t` both the native map and the gadget derive from a square-root answer (f, v) -/
def ellS (r0 : ℕ) (f : Bool) (v : ℕ) : ℕ :=
  let r := fmul q ZETA (fsq q r0)
  let num := fmul q (fadd q r 1) (fsub q cA (fmul q 2 cD))
  let s := fmul q (fmul q v (if f then 1 else r0)) num
  if isNeg s == f then fneg q s else s

def ellT (r0 : ℕ) (f : Bool) (v : ℕ) : ℕ :=
  let r := fmul q ZETA (fsq q r0)
  let num := fmul q (fadd q r 1) (fsub q cA (fmul q 2 cD))
  let isri := fmul q v (if f then 1 else r0)
  let s := fmul q isri num
  fsub q (fmul q (fmul q (fmul q (fmul q (fneg q (if f then 1 else fneg q 1)) isri) s) (fsub q r 1)) (fsq q (fsub q cA (fmul q 2 cD)))) 1

def ellE (r0 : ℕ) (f : Bool) (v : ℕ) : ℕ := fmul q 2 (ellS r0 f v)
def ellF (r0 : ℕ) (f : Bool) (v : ℕ) : ℕ := fadd q 1 (fmul q cA (fsq q (ellS r0 f v)))
def ellG (r0 : ℕ) (f : Bool) (v : ℕ) : ℕ := fsub q 1 (fmul q cA (fsq q (ellS r0 f v)))

theorem elligator_of_sr {sr : SR} {r0 : ℕ} {f : Bool} {v : ℕ} (h : sr 1 (ellArg r0) = some (f, v)) :
    elligator sr ZETA r0 =
      some ⟨fmul q (ellE r0 f v) (ellT r0 f v), fmul q (ellF r0 f v) (ellG r0 f v),
            fmul q (ellF r0 f v) (ellT r0 f v), fmul q (ellE r0 f v) (ellG r0 f v)⟩ := by
  unfold elligator
  simp only []
  rw [show fmul q (fmul q (fadd q (fmul q ZETA (fsq q r0)) 1) (fsub q cA (fmul q 2 cD)))
      (fmul q (fsub q (fmul q cD (fmul q ZETA (fsq q r0))) (fsub q cD cA))
        (fsub q (fmul q (fsub q cD cA) (fmul q ZETA (fsq q r0))) cD)) = ellArg r0 from rfl, h]
  rfl

theorem elligator_gadget (r0 : ℕ) (f : Bool) (v : ℕ) :
    R1cs.elligator r0 (some (f, v)) =
      ((R1cs.isqrt (ellArg r0) (some (f, v))).1 && (ellF r0 f v != 0) && (ellT r0 f v != 0),
        fmul q (ellE r0 f v) (finv q (ellF r0 f v)), fmul q (ellG r0 f v) (finv q (ellT r0 f v))) := rfl

theorem elligator_of_isqrt {r0 : ℕ} {h : R1cs.Hint} {sat f : Bool} {v : ℕ}
    (hi : R1cs.isqrt (ellArg r0) h = (sat, f, v)) :
    R1cs.elligator r0 h =
      (sat && (ellF r0 f v != 0) && (ellT r0 f v != 0),
        fmul q (ellE r0 f v) (finv q (ellF r0 f v)), fmul q (ellG r0 f v) (finv q (ellT r0 f v))) := by
  unfold R1cs.elligator
  simp only []
  rw [show fmul q (fmul q (fadd q (fmul q ZETA (fsq q r0)) 1) (fsub q cA (fmul q 2 cD)))
      (fmul q (fsub q (fmul q cD (fmul q ZETA (fsq q r0))) (fsub q cD cA))
        (fsub q (fmul q (fsub q cD cA) (fmul q ZETA (fsq q r0))) cD)) = ellArg r0 from rfl, hi]
  simp only [R1cs.invG, ellE, ellF, ellG, ellS, ellT]

/-! ### algebraic side conditions -/

theorem ellArg_lt (r0 : ℕ) : ellArg r0 < q := fmul_lt q_pos _ _

theorem ellArg_cast (r0 : ℕ) :
    ((ellArg r0 : ℕ) : Fq) = ellNum params ((ZETA : Fq) * (r0 : Fq) ^ 2) * ellDen params ((ZETA : Fq) * (r0 : Fq) ^ 2) := by
  have hd : params.d = (cD : Fq) := rfl
  unfold ellArg ellNum ellDen
  simp only [cast_fmul, cast_fsub, cast_fadd, cast_fsq, cast_cA, hd, Nat.cast_one, Nat.cast_ofNat]
  ring

theorem ellArg_ne_zero (r0 : ℕ) : ellArg r0 ≠ 0 := by
  intro h
  have h0 : ((ellArg r0 : ℕ) : Fq) = 0 := by rw [h, Nat.cast_zero]
  rw [ellArg_cast] at h0
  rcases mul_eq_zero.mp h0 with h1 | h1
  · exact ellNum_ne_zero ellHyp _ h1
  · exact ellDen_ne_zero ellHyp _ h1

/-- from the extended coordinates (E·H : F·G : F·H : E·G) to the affine pair the gadget computes -/
theorem ell_affine {E' F' G' H' : ℕ} {pt : E}
    (hr : ERepr ⟨fmul q E' H', fmul q F' G', fmul q F' H', fmul q E' G'⟩ pt) :
    F' ≠ 0 ∧ H' ≠ 0 ∧ pt.x = ((fmul q E' (finv q F') : ℕ) : Fq) ∧ pt.y = ((fmul q G' (finv q H') : ℕ) : Fq) := by
  have hz := hr.z
  have hx := hr.hx
  have hy := hr.hy
  simp only [cast_fmul] at hz hx hy
  have hFq : (F' : Fq) ≠ 0 := left_ne_zero_of_mul hz
  have hHq : (H' : Fq) ≠ 0 := right_ne_zero_of_mul hz
  refine ⟨fun h => hFq (by rw [h, Nat.cast_zero]), fun h => hHq (by rw [h, Nat.cast_zero]), ?_, ?_⟩
  · rw [cast_fmul, cast_finv q_gt_two, eq_mul_inv_iff_mul_eq₀ hFq]
    apply mul_right_cancel₀ hHq
    linear_combination -hx
  · rw [cast_fmul, cast_finv q_gt_two, eq_mul_inv_iff_mul_eq₀ hHq]
    apply mul_left_cancel₀ hFq
    linear_combination -hy

theorem ellF_lt (r0 : ℕ) (f : Bool) (v : ℕ) : ellF r0 f v < q := fadd_lt q_pos _ _
theorem ellT_lt (r0 : ℕ) (f : Bool) (v : ℕ) : ellT r0 f v < q := fsub_lt q_pos _ _

theorem encDen_lt (c : Ext) : encDen c < q := fmul_lt q_pos _ _

theorem encOut_of_X_zero {c : Ext} (hX : c.X = 0) (v : ℕ) : encOut c v = 0 := by
  unfold encOut
  rw [hX]
  have : ∀ a, fmul q a 0 = 0 := fun a => by unfold fmul; rw [Nat.mul_zero, Nat.zero_mod]
  rw [this]
  decide

/-- on an affine representative of a curve point the encoder's discriminant vanishes only at x = 0 -/
theorem x_eq_zero_of_encDen_eq_zero {x y : ℕ} (hx : x < q) {pt : E} (hr : ERepr ⟨x, y, 1, fmul q x y⟩ pt)
    (hD : encDen ⟨x, y, 1, fmul q x y⟩ = 0) : x = 0 := by
  have hd : params.d = (cD : Fq) := rfl
  have h0 : ((encDen ⟨x, y, 1, fmul q x y⟩ : ℕ) : Fq) = 0 := by rw [hD, Nat.cast_zero]
  unfold encDen at h0
  simp only [cast_fmul, cast_fadd, cast_fsub, cast_fsq, cast_cA] at h0
  have hxx := hr.hx
  have hyy := hr.hy
  simp only [Nat.cast_one, mul_one] at hxx hyy
  have hon := pt.on
  unfold OnCurve at hon
  rw [← hxx, ← hyy, hd] at hon
  have h1d : (1 : Fq) + (cD : Fq) ≠ 0 := by
    intro h
    apply one_add_d_nonsquare
    rw [hd, h]; exact ⟨0, by ring⟩
  rw [← cast_eq_zero_iff hx]
  by_contra hxne
  -- x ≠ 0: then (1 + y)(1 - y)(−1 − d)x⁴ = 0 forces y² = 1, and the curve equation gives x²(1 + d) = 0
  have hfac : ((x : Fq)) ^ 4 * ((1 + (y : Fq)) * (1 - (y : Fq)) * (-1 - (cD : Fq))) = 0 := by linear_combination h0
  rcases mul_eq_zero.mp hfac with h | h
  · exact hxne (pow_eq_zero_iff (by norm_num) |>.mp h)
  · rcases mul_eq_zero.mp h with h | h
    · have hy2 : (y : Fq) ^ 2 = 1 := by
        rcases mul_eq_zero.mp h with h | h
        · have : (y : Fq) = -1 := by linear_combination h
          rw [this]; ring
        · have : (y : Fq) = 1 := by linear_combination -h
          rw [this]; ring
      rw [hy2] at hon
      have : (x : Fq) ^ 2 * (1 + (cD : Fq)) = 0 := by linear_combination -hon
      rcases mul_eq_zero.mp this with h | h
      · exact hxne (pow_eq_zero_iff (by norm_num) |>.mp h)
      · exact h1d h
    · apply h1d; linear_combination -h

end Model
