/-
The minimal backend's square root (`min_curve/invsqrt.rs`): `pow_le_limbs`, the constant-time Tonelli–Shanks loop
`our_sqrt`, and `non_arkworks_sqrt_ratio_zeta`, which is shown to meet the four-case contract `SRContract`.
-/
import Decaf.Lemmas.ModelEncoding

namespace Model
open Edwards Decaf

/-! ### pow_le_limbs -/

theorem cast_powLeLimbsAux (m : ℕ) (bits : List Bool) (acc ins : ℕ) :
    ((powLeLimbsAux m bits acc ins : ℕ) : ZMod m) = (acc : ZMod m) * (ins : ZMod m) ^ bitsVal bits := by
  induction bits generalizing acc ins with
  | nil => simp [powLeLimbsAux, bitsVal]
  | cons b bs ih =>
    unfold powLeLimbsAux
    rw [ih]
    cases b with
    | true => simp only [if_true, bitsVal, cast_fmul]; rw [pow_add, pow_mul, pow_one]; ring
    | false => simp only [Bool.false_eq_true, if_false, bitsVal, cast_fmul, zero_add]; rw [pow_mul]; ring

theorem cast_powLeLimbs (m x : ℕ) (limbs : List ℕ) (h : ∀ l ∈ limbs, l < 2 ^ 64) :
    ((powLeLimbs m x limbs : ℕ) : ZMod m) = (x : ZMod m) ^ Lit.ofLimbs 64 limbs := by
  unfold powLeLimbs
  rw [cast_powLeLimbsAux, bitsVal_limbsBits limbs h]
  simp

theorem powLeLimbsAux_lt (m : ℕ) (hm : 0 < m) (bits : List Bool) (acc ins : ℕ) (ha : acc < m) :
    powLeLimbsAux m bits acc ins < m := by
  induction bits generalizing acc ins with
  | nil => simpa [powLeLimbsAux] using ha
  | cons b bs ih =>
    unfold powLeLimbsAux
    apply ih
    split
    · exact fmul_lt hm _ _
    · exact ha

theorem powLeLimbs_lt (m x : ℕ) (hm : 1 < m) (limbs : List ℕ) : powLeLimbs m x limbs < m := by
  unfold powLeLimbs
  exact powLeLimbsAux_lt m (by omega) _ _ _ (Nat.mod_lt _ (by omega))

theorem cast_iterSq (m n b : ℕ) : ((iterSq m n b : ℕ) : ZMod m) = (b : ZMod m) ^ (2 ^ n) := by
  induction n generalizing b with
  | zero => simp [iterSq]
  | succ n ih => unfold iterSq; rw [ih, cast_fmul, pow_succ, pow_mul', sq]

theorem iterSq_lt (m : ℕ) (hm : 0 < m) (n b : ℕ) (hb : b < m) : iterSq m n b < m := by
  induction n generalizing b with
  | zero => simpa [iterSq] using hb
  | succ n ih => unfold iterSq; exact ih _ (fmul_lt hm _ _)

/-! ### the Tonelli–Shanks loop -/

/-- loop invariant at the top of iteration `i` (counting down): `z² = x·t`, `t^(2^(i-1)) = 1`, `c^(2^(i-1)) = -1` -/
theorem ourSqrtLoop_spec (x : Fq) : ∀ (i z t c : ℕ), 1 ≤ i → z < q → t < q → c < q →
    (z : Fq) ^ 2 = x * (t : Fq) → (t : Fq) ^ (2 ^ (i - 1)) = 1 → (c : Fq) ^ (2 ^ (i - 1)) = -1 →
    ((ourSqrtLoop i z t t c : ℕ) : Fq) ^ 2 = x ∧ ourSqrtLoop i z t t c < q := by
  intro i
  induction i using Nat.strong_induction_on with
  | _ i ih =>
    intro z t c hi hz ht hc hzt htp hcp
    match i, hi with
    | 1, _ =>
      simp only [ourSqrtLoop]
      simp only [Nat.sub_self, pow_zero, pow_one] at htp
      rw [hzt, htp, mul_one]
      exact ⟨rfl, hz⟩
    | k + 2, _ =>
      unfold ourSqrtLoop
      simp only []
      have hk : k + 2 - 1 = k + 1 := by omega
      rw [hk] at htp hcp
      set b := iterSq q k t with hb
      have hblt : b < q := iterSq_lt q q_pos k t ht
      have hbc : (b : Fq) = (t : Fq) ^ (2 ^ k) := cast_iterSq q k t
      have hb2 : (b : Fq) ^ 2 = 1 := by rw [hbc, ← pow_mul, ← pow_succ]; exact htp
      have hc2 : ((fmul q c c : ℕ) : Fq) = (c : Fq) ^ 2 := by rw [cast_fmul, sq]
      have hcnew : ((fmul q c c : ℕ) : Fq) ^ (2 ^ (k + 1 - 1)) = -1 := by
        rw [hc2, ← pow_mul, Nat.add_sub_cancel, ← pow_succ']; exact hcp
      by_cases hb1 : b = 1
      · -- b = 1: nothing changes but c
        have : (b != 1) = false := by simp [hb1]
        simp only [this, Bool.false_eq_true, if_false]
        apply ih (k + 1) (by omega) z t (fmul q c c) (by omega) hz ht (fmul_lt q_pos _ _) hzt _ hcnew
        rw [Nat.add_sub_cancel, ← hbc, hb1, Nat.cast_one]
      · have : (b != 1) = true := by simp [hb1]
        simp only [this, if_true]
        have hbm1 : (b : Fq) = -1 := by
          have h1 : (b : Fq) ≠ 1 := by
            intro h
            apply hb1
            apply eq_of_cast_eq hblt one_lt_q
            rw [h, Nat.cast_one]
          have : ((b : Fq) - 1) * ((b : Fq) + 1) = 0 := by linear_combination hb2
          rcases mul_eq_zero.mp this with h | h
          · exact absurd (by linear_combination h) h1
          · linear_combination h
        apply ih (k + 1) (by omega) (fmul q z c) (fmul q t (fmul q c c)) (fmul q c c) (by omega)
          (fmul_lt q_pos _ _) (fmul_lt q_pos _ _) (fmul_lt q_pos _ _) _ _ hcnew
        · rw [cast_fmul, cast_fmul, hc2]; linear_combination ((c : Fq) ^ 2) * hzt
        · rw [Nat.add_sub_cancel, cast_fmul, hc2, mul_pow, ← hbc, hbm1, ← pow_mul, ← pow_succ', hcp]; ring

/-! ### `our_sqrt` and the ratio routine -/

theorem half_limbs_ok : (∀ l ∈ Gen.fields_fq.Fq.MODULUS_MINUS_ONE_DIV_TWO_LIMBS.nats, l < 2 ^ 64) ∧
    Lit.ofLimbs 64 Gen.fields_fq.Fq.MODULUS_MINUS_ONE_DIV_TWO_LIMBS.nats = (q - 1) / 2 := by decide +kernel

theorem trace_limbs_ok : (∀ l ∈ Gen.fields_fq.Fq.TRACE_MINUS_ONE_DIV_TWO_LIMBS.nats, l < 2 ^ 64) ∧
    2 ^ 46 * (2 * Lit.ofLimbs 64 Gen.fields_fq.Fq.TRACE_MINUS_ONE_DIV_TWO_LIMBS.nats + 1) = (q - 1) / 2 ∧
    Gen.fields_fq.Fq.TWO_ADICITY.natVal = 47 := by decide +kernel

theorem qnr_pow : powMod QNR_TO_TRACE (2 ^ 46) q = q - 1 ∧ QNR_TO_TRACE < q := by decide +kernel

theorem zeta_min_eq : ZETA_min = ZETA := by decide +kernel
theorem zeta_lt : ZETA < q := by decide +kernel
theorem zeta_half_pow : powMod ZETA ((q - 1) / 2) q = q - 1 := by decide +kernel

/-- Euler's criterion in the form used here -/
theorem pow_half_eq_one_iff {x : Fq} (hx : x ≠ 0) : x ^ ((q - 1) / 2) = 1 ↔ IsSquare x := by
  have hq : q / 2 = (q - 1) / 2 := by have := q_odd; omega
  rw [← hq]
  exact (ZMod.euler_criterion (p := q) hx).symm

theorem pow_half_eq_neg_one {x : Fq} (hx : x ≠ 0) (hns : ¬ IsSquare x) : x ^ ((q - 1) / 2) = -1 := by
  have hq : q / 2 = (q - 1) / 2 := by have := q_odd; omega
  have := ZMod.pow_div_two_eq_neg_one_or_one (p := q) hx
  rw [hq] at this
  rcases this with h | h
  · exact absurd ((pow_half_eq_one_iff hx).mp h) hns
  · exact h

/-- `our_sqrt` returns a square root of every non-zero square -/
theorem ourSqrt_spec {x : ℕ} (hx : x < q) (hx0 : (x : Fq) ≠ 0) (hsq : IsSquare (x : Fq)) :
    ((ourSqrt x : ℕ) : Fq) ^ 2 = (x : Fq) ∧ ourSqrt x < q := by
  unfold ourSqrt
  simp only []
  obtain ⟨hl, he, h47⟩ := trace_limbs_ok
  set e := Lit.ofLimbs 64 Gen.fields_fq.Fq.TRACE_MINUS_ONE_DIV_TWO_LIMBS.nats with hedef
  set z0 := powLeLimbs q x Gen.fields_fq.Fq.TRACE_MINUS_ONE_DIV_TWO_LIMBS.nats with hz0
  have hz0c : (z0 : Fq) = (x : Fq) ^ e := cast_powLeLimbs q x _ hl
  rw [h47]
  have hqnr := qnr_pow
  apply ourSqrtLoop_spec (x : Fq) 47 _ _ _ (by norm_num) (fmul_lt q_pos _ _) (fmul_lt q_pos _ _) hqnr.2
  · rw [cast_fmul, cast_fmul, cast_fmul]; ring
  · rw [cast_fmul, cast_fmul, hz0c]
    have h46 : (47 : ℕ) - 1 = 46 := rfl
    rw [h46]
    have hexp : (e + e + 1) * 2 ^ 46 = (q - 1) / 2 := by rw [← he]; ring
    have : ((x : Fq) ^ e * (x : Fq) ^ e * (x : Fq)) ^ (2 ^ 46) = (x : Fq) ^ ((q - 1) / 2) := by
      rw [← pow_add, ← pow_succ, ← pow_mul, hexp]
    rw [this]
    exact (pow_half_eq_one_iff hx0).mpr hsq
  · have := cast_powMod QNR_TO_TRACE (2 ^ 46) q
    rw [hqnr.1, cast_q_sub_one] at this
    have h46 : (47 : ℕ) - 1 = 46 := rfl
    rw [h46]
    exact this.symm

/-- `non_arkworks_sqrt_ratio_zeta` meets the four-case contract -/
theorem sqrtRatioMin_contract : SRContract sqrtRatioMin := by
  have hz : ((ZETA_min : ℕ) : Fq) = (ZETA : Fq) := by rw [zeta_min_eq]
  have hhalf := half_limbs_ok
  -- the common analysis of the non-trivial branch
  have core : ∀ n d : ℕ, n < q → d < q → n ≠ 0 → d ≠ 0 →
      (IsSquare ((n : Fq) / (d : Fq)) → ∃ y, sqrtRatioMin n d = some (true, y) ∧ y < q ∧ (y : Fq) ^ 2 * (d : Fq) = (n : Fq)) ∧
      (¬ IsSquare ((n : Fq) / (d : Fq)) → ∃ y, sqrtRatioMin n d = some (false, y) ∧ y < q ∧
        (y : Fq) ^ 2 * (d : Fq) = (ZETA : Fq) * (n : Fq)) := by
    intro n d hn hd hn0 hd0
    have hnq : (n : Fq) ≠ 0 := by rwa [Ne, cast_eq_zero_iff hn]
    have hdq : (d : Fq) ≠ 0 := by rwa [Ne, cast_eq_zero_iff hd]
    set x := fmul q n (finv q d) with hxdef
    have hxlt : x < q := fmul_lt q_pos _ _
    have hxc : (x : Fq) = (n : Fq) / (d : Fq) := by rw [hxdef, cast_fmul, cast_finv q_gt_two, div_eq_mul_inv]
    have hx0 : (x : Fq) ≠ 0 := by rw [hxc]; exact div_ne_zero hnq hdq
    set sym := powLeLimbs q x Gen.fields_fq.Fq.MODULUS_MINUS_ONE_DIV_TWO_LIMBS.nats with hsym
    have hsymc : (sym : Fq) = (x : Fq) ^ ((q - 1) / 2) := by rw [hsym, cast_powLeLimbs q x _ hhalf.1, hhalf.2]
    have hsymlt : sym < q := powLeLimbs_lt q x one_lt_q _
    have hunf : sqrtRatioMin n d = if sym == 1 then some (true, ourSqrt x) else some (false, ourSqrt (fmul q ZETA_min x)) := by
      unfold sqrtRatioMin
      have h1 : (n == 0) = false := by simpa using hn0
      have h2 : (d == 0) = false := by simpa using hd0
      simp only [h1, h2, Bool.false_eq_true, if_false]
      rfl
    constructor
    · intro hsq
      rw [← hxc] at hsq
      have h1 : sym = 1 := by
        apply eq_of_cast_eq hsymlt one_lt_q
        rw [hsymc, Nat.cast_one]; exact (pow_half_eq_one_iff hx0).mpr hsq
      obtain ⟨hy2, hylt⟩ := ourSqrt_spec hxlt hx0 hsq
      refine ⟨ourSqrt x, by rw [hunf]; simp [h1], hylt, ?_⟩
      rw [hy2, hxc]; field_simp
    · intro hns
      rw [← hxc] at hns
      have h1 : (sym == 1) = false := by
        rw [beq_eq_false_iff_ne]
        intro h
        apply hns
        apply (pow_half_eq_one_iff hx0).mp
        rw [← hsymc, h, Nat.cast_one]
      set zx := fmul q ZETA_min x with hzx
      have hzxc : (zx : Fq) = (ZETA : Fq) * (x : Fq) := by rw [hzx, cast_fmul, hz]
      have hzeta0 : (ZETA : Fq) ≠ 0 := by
        intro h0; exact zeta_nonsquare (by rw [h0]; exact ⟨0, by ring⟩)
      have hzx0 : (zx : Fq) ≠ 0 := by rw [hzxc]; exact mul_ne_zero hzeta0 hx0
      have hzxsq : IsSquare (zx : Fq) := by
        apply (pow_half_eq_one_iff hzx0).mp
        rw [hzxc, mul_pow, pow_half_eq_neg_one hzeta0 zeta_nonsquare, pow_half_eq_neg_one hx0 hns]; ring
      obtain ⟨hy2, hylt⟩ := ourSqrt_spec (fmul_lt q_pos _ _) hzx0 hzxsq
      refine ⟨ourSqrt zx, by rw [hunf]; simp [h1], hylt, ?_⟩
      rw [hy2, hzxc, hxc]; field_simp
  constructor
  · -- total
    intro n d hn hd
    by_cases hn0 : n = 0
    · subst hn0; exact ⟨true, 0, by unfold sqrtRatioMin; simp, q_pos⟩
    · by_cases hd0 : d = 0
      · subst hd0
        refine ⟨false, 0, ?_, q_pos⟩
        unfold sqrtRatioMin
        have h1 : (n == 0) = false := by simpa using hn0
        simp [h1]
      · by_cases hsq : IsSquare ((n : Fq) / (d : Fq))
        · obtain ⟨y, hy, hyl, _⟩ := (core n d hn hd hn0 hd0).1 hsq; exact ⟨true, y, hy, hyl⟩
        · obtain ⟨y, hy, hyl, _⟩ := (core n d hn hd hn0 hd0).2 hsq; exact ⟨false, y, hy, hyl⟩
  · intro d f y _ h
    unfold sqrtRatioMin at h
    simp at h
    exact ⟨by simp [h.1], by simp [h.2]⟩
  · intro n f y _ hn0 h
    unfold sqrtRatioMin at h
    have h1 : (n == 0) = false := by simpa using hn0
    simp [h1] at h
    exact ⟨by simp [h.1], by simp [h.2]⟩
  · intro n d f y hn hd hn0 hd0 h hsq
    obtain ⟨y', hy', _, hspec⟩ := (core n d hn hd hn0 hd0).1 hsq
    rw [hy'] at h
    injection h with h; injection h with h1 h2
    subst h1; subst h2
    exact ⟨rfl, hspec⟩
  · intro n d f y hn hd hn0 hd0 h hns
    obtain ⟨y', hy', _, hspec⟩ := (core n d hn hd hn0 hd0).2 hns
    rw [hy'] at h
    injection h with h; injection h with h1 h2
    subst h1; subst h2
    exact ⟨rfl, hspec⟩

end Model
