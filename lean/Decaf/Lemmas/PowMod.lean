/-
`Model.powMod` computes modular exponentiation; the Lucas/Pratt certificate checker on top of it.
-/
import Mathlib.NumberTheory.LucasPrimality
import Mathlib.Algebra.BigOperators.Group.List.Basic
import Mathlib.Tactic.NormNum.Prime
import Mathlib.Tactic.Ring
import Mathlib.Data.ZMod.Basic
import Decaf.Model.Field

namespace Model

theorem powModAux_modEq (m : ℕ) : ∀ (fuel a e acc : ℕ), e < 2 ^ fuel →
    powModAux m fuel a e acc ≡ acc * a ^ e [MOD m] := by
  intro fuel
  induction fuel with
  | zero =>
    intro a e acc h
    have : e = 0 := by simpa using h
    subst this; simp [powModAux]; rfl
  | succ n ih =>
    intro a e acc h
    unfold powModAux
    split_ifs with h0 h1
    · subst h0; simp; rfl
    · refine (ih _ _ _ (by omega)).trans ?_
      have he : e = 2 * (e / 2) + 1 := by omega
      conv_rhs => rw [he, pow_succ, pow_mul, ← mul_assoc, mul_right_comm]
      have h2 : a * a % m ≡ a ^ 2 [MOD m] := by rw [sq]; exact Nat.mod_modEq _ _
      exact Nat.ModEq.mul (Nat.mod_modEq _ _) (h2.pow _)
    · refine (ih _ _ _ (by omega)).trans ?_
      have he : e = 2 * (e / 2) := by omega
      conv_rhs => rw [he, pow_mul]
      have h2 : a * a % m ≡ a ^ 2 [MOD m] := by rw [sq]; exact Nat.mod_modEq _ _
      exact Nat.ModEq.mul rfl (h2.pow _)

theorem powMod_modEq (a e m : ℕ) : powMod a e m ≡ a ^ e [MOD m] := by
  have := powModAux_modEq m e (a % m) e (1 % m) Nat.lt_two_pow_self
  unfold powMod
  refine this.trans ?_
  have h1 : (1 % m) ≡ 1 [MOD m] := Nat.mod_modEq _ _
  have h2 : (a % m) ^ e ≡ a ^ e [MOD m] := (Nat.mod_modEq _ _).pow _
  simpa using h1.mul h2

theorem powMod_eq (a e m : ℕ) : powMod a e m % m = a ^ e % m := powMod_modEq a e m

theorem powModAux_lt (m : ℕ) (hm : 0 < m) : ∀ (fuel a e acc : ℕ), acc < m → powModAux m fuel a e acc < m := by
  intro fuel
  induction fuel with
  | zero => intro a e acc h; simpa [powModAux] using h
  | succ n ih =>
    intro a e acc h
    unfold powModAux
    split_ifs with h0 h1
    · exact h
    · exact ih _ _ _ (Nat.mod_lt _ hm)
    · exact ih _ _ _ h

theorem powMod_lt (a e m : ℕ) (hm : 1 < m) : powMod a e m < m := by
  unfold powMod
  exact powModAux_lt m (by omega) _ _ _ _ (Nat.mod_lt _ (by omega))

/-- the cast of `powMod` into `ZMod m` is the power of the cast -/
theorem cast_powMod (a e m : ℕ) : ((powMod a e m : ℕ) : ZMod m) = (a : ZMod m) ^ e := by
  have h := powMod_modEq a e m
  have := (ZMod.natCast_eq_natCast_iff _ _ _).mpr h
  simpa using this

theorem zmod_pow_eq_one_of_powMod {p a e : ℕ} (hp : 1 < p) (h : powMod a e p = 1) :
    (a : ZMod p) ^ e = 1 := by
  rw [← cast_powMod, h]; simp

theorem zmod_pow_ne_one_of_powMod {p a e : ℕ} (hp : 1 < p) (h : powMod a e p ≠ 1) :
    (a : ZMod p) ^ e ≠ 1 := by
  intro hc
  apply h
  rw [← cast_powMod] at hc
  have h1 : ((powMod a e p : ℕ) : ZMod p) = ((1 : ℕ) : ZMod p) := by simpa using hc
  rw [ZMod.natCast_eq_natCast_iff] at h1
  have := powMod_lt a e p hp
  have h2 : powMod a e p % p = 1 % p := h1
  rwa [Nat.mod_eq_of_lt this, Nat.mod_eq_of_lt hp] at h2

/-- Pratt/Lucas certificate checker lemma. -/
theorem prime_of_lucas_cert (p a : ℕ) (fs : List ℕ) (es : List ℕ) (hp : 1 < p)
    (hfac : (List.zipWith (· ^ ·) fs es).prod = p - 1)
    (hlen : fs.length = es.length)
    (hprime : ∀ l ∈ fs, Nat.Prime l)
    (h1 : powMod a (p - 1) p = 1)
    (h2 : ∀ l ∈ fs, powMod a ((p - 1) / l) p ≠ 1) : Nat.Prime p := by
  apply lucas_primality p (a : ZMod p) (zmod_pow_eq_one_of_powMod hp h1)
  intro l hl hdvd
  have : l ∈ fs := by
    rw [← hfac] at hdvd
    rw [Prime.dvd_prod_iff hl.prime] at hdvd
    obtain ⟨x, hx, hlx⟩ := hdvd
    rw [List.mem_iff_getElem] at hx
    obtain ⟨i, hi, rfl⟩ := hx
    simp only [List.getElem_zipWith] at hlx
    have hi' : i < fs.length := by simp [List.length_zipWith] at hi; omega
    have := hl.prime.dvd_of_dvd_pow hlx
    have hf := hprime _ (List.getElem_mem hi')
    rw [(Nat.prime_dvd_prime_iff_eq hl hf).mp this]
    exact List.getElem_mem hi'
  exact zmod_pow_ne_one_of_powMod hp (h2 l this)

end Model
