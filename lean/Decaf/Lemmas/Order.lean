/-
The group order, elementary (DESIGN.md §5.7): E(Fq) is finite with at most 2q points (x and the sign of y determine a
point); it has a point of order 4 and — given any point G₀ with r•G₀ ∈ {O,T2}, G₀ ∉ {O,T2} — a point of order r, so
4r ∣ |E| ≤ 2q < 12r and |E| ∈ {4r, 8r}.  Since E has no point of order 8 (Spec/Torsion), 4r kills E in either case, and
r maps every even point into {O, T2}: r times any decaf377 group element is the identity element.
No point counting (Schoof, Hasse) is used.
-/
import Decaf.Spec.Torsion
import Decaf.Lemmas.ModelEncoding
import Mathlib.GroupTheory.OrderOfElement

namespace Model
open Edwards Decaf

theorem one_sub_d_x2_ne_zero (x : Fq) : 1 - params.d * x ^ 2 ≠ 0 := by
  intro h
  apply params.hd
  have hx : x ≠ 0 := by
    rintro rfl
    simp at h
  refine ⟨x⁻¹, ?_⟩
  field_simp
  linear_combination -h

/-- a point of E is determined by x and the sign of y -/
theorem point_key_injective : Function.Injective (fun p : E => (p.x, paritySign.neg p.y)) := by
  intro p p' h
  simp only [Prod.mk.injEq] at h
  obtain ⟨hx, hs⟩ := h
  have h1 := p.on
  have h2 := p'.on
  unfold OnCurve at h1 h2
  rw [← hx] at h2
  have hsq : (p.y ^ 2 - p'.y ^ 2) * (1 - params.d * p.x ^ 2) = 0 := by linear_combination h1 - h2
  have hy2 : p.y ^ 2 = p'.y ^ 2 := by
    rcases mul_eq_zero.mp hsq with h | h
    · linear_combination h
    · exact absurd h (one_sub_d_x2_ne_zero _)
  have hy : p.y = p'.y := by
    rcases sq_eq_sq_iff_eq_or_eq_neg.mp hy2 with h | h
    · exact h
    · by_cases h0 : p'.y = 0
      · rw [h, h0, neg_zero]
      · exfalso
        rw [h, paritySign.neg_neg _ h0] at hs
        cases hb : paritySign.neg p'.y <;> rw [hb] at hs <;> simp at hs
  exact Point.ext hx hy

instance instNeZeroQ : NeZero q := ⟨Nat.pos_iff_ne_zero.mp q_pos⟩

noncomputable instance instFintypeE : Fintype E := Fintype.ofInjective (fun p : E => (p.x, paritySign.neg p.y)) point_key_injective

theorem card_E_le : Fintype.card E ≤ 2 * q := by
  have h := Fintype.card_le_of_injective _ point_key_injective
  have hc : Fintype.card (Fq × Bool) = q * 2 :=
    (Fintype.card_prod Fq Bool).trans (congrArg₂ (· * ·) (ZMod.card q) Fintype.card_bool)
  calc Fintype.card E ≤ Fintype.card (Fq × Bool) := h
    _ = q * 2 := hc
    _ = 2 * q := Nat.mul_comm _ _

theorem four_dvd_card_E : 4 ∣ Fintype.card E := by
  have hne : ¬ 2 ^ 1 • (Point.C4 : E) = 0 := by
    rw [pow_one, two_nsmul, Point.C4_add_C4]; exact Point.T2_ne_zero
  have h4 : 2 ^ (1 + 1) • (Point.C4 : E) = 0 := by
    rw [show (2 : ℕ) ^ (1 + 1) = 2 + 2 from rfl, add_nsmul, two_nsmul, Point.C4_add_C4, Point.T2_add_T2]
  have := addOrderOf_eq_prime_pow hne h4
  rw [show (2 : ℕ) ^ (1 + 1) = 4 from rfl] at this
  rw [← this]
  exact addOrderOf_dvd_card

theorem r_dvd_card_E {G0 : E} (hr : Point.Coset 0 (r • G0)) (hne : ¬ Point.Coset 0 G0) : r ∣ Fintype.card E := by
  have h2 : r • (G0 + G0) = 0 := by
    rw [nsmul_add]
    rcases hr with h | h
    · rw [h, add_zero]
    · rw [h, zero_add, Point.T2_add_T2]
  have hne2 : G0 + G0 ≠ 0 := by
    intro h
    apply hne
    rcases (Point.add_self_eq_zero_iff G0).mp h with h | h
    · left; exact h
    · right; rw [h, zero_add]
  have hd : addOrderOf (G0 + G0) ∣ r := addOrderOf_dvd_of_nsmul_eq_zero h2
  rcases (Nat.dvd_prime prime_r).mp hd with h1 | h1
  · exact absurd (AddMonoid.addOrderOf_eq_one_iff.mp h1) hne2
  · rw [← h1]; exact addOrderOf_dvd_card

/-- |E| is 4r or 8r -/
theorem card_E_cases {G0 : E} (hr : Point.Coset 0 (r • G0)) (hne : ¬ Point.Coset 0 G0) :
    Fintype.card E = 4 * r ∨ Fintype.card E = 8 * r := by
  have hrv : r = 2111115437357092606062206234695386632838870926408408195193685246394721360383 := by decide +kernel
  have hqv : q = 8444461749428370424248824938781546531375899335154063827935233455917409239041 := by decide +kernel
  have hcop : Nat.Coprime 4 r := by
    apply Nat.Coprime.symm
    apply (Nat.Prime.coprime_iff_not_dvd prime_r).mpr
    intro h
    have := Nat.le_of_dvd (by norm_num) h
    omega
  obtain ⟨k, hk⟩ := hcop.mul_dvd_of_dvd_of_dvd four_dvd_card_E (r_dvd_card_E hr hne)
  have hle := card_E_le
  have hpos : 0 < Fintype.card E := Fintype.card_pos_iff.mpr ⟨0⟩
  rw [hk] at hle hpos
  have hk1 : 1 ≤ k := by
    rcases Nat.eq_zero_or_pos k with h | h
    · rw [h, mul_zero] at hpos; exact absurd hpos (lt_irrefl _)
    · exact h
  have hk3 : k < 3 := by
    by_contra hge
    have hge' : 3 ≤ k := by omega
    have : 4 * r * 3 ≤ 4 * r * k := Nat.mul_le_mul_left _ hge'
    omega
  rw [hk]
  interval_cases k
  · left; ring
  · right; ring

/-- 4r kills every point of E -/
theorem four_r_nsmul {G0 : E} (hr : Point.Coset 0 (r • G0)) (hne : ¬ Point.Coset 0 G0) (P : E) : (4 * r) • P = 0 := by
  rcases card_E_cases hr hne with h | h
  · rw [← h]; exact card_nsmul_eq_zero
  · have h8 : (8 * r) • P = 0 := by rw [← h]; exact card_nsmul_eq_zero
    rw [mul_nsmul'] at h8 ⊢
    exact Point.four_nsmul_eq_zero_of_eight one_add_d_nonsquare h8

/-- r maps every even point into the identity coset {O, T2} -/
theorem r_nsmul_even {G0 : E} (hr : Point.Coset 0 (r • G0)) (hne : ¬ Point.Coset 0 G0) {P : E} (he : Point.IsEven P) :
    Point.Coset 0 (r • P) := by
  have h4 : 4 • (r • P) = 0 := by rw [← mul_nsmul']; exact four_r_nsmul hr hne P
  have hev : Point.IsEven (r • P) := (Point.even params).nsmul_mem he r
  rcases Point.even_four_torsion one_add_d_nonsquare hev h4 with h | h
  · left; exact h
  · right; rw [h, zero_add]

end Model
