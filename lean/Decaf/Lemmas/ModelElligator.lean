/-
The executable Elligator map (`Model.elligator`) refines `Decaf.elligatorF` over `ZMod q` with the parity sign,
for every square-root routine meeting the contract; the hypotheses `EllHyp` on the constants are kernel facts.
-/
import Decaf.Lemmas.RoundTrip
import Decaf.Spec.Elligator

namespace Model
open Edwards Decaf

theorem ell_h1_nat : powMod (fmul q 3022 (finv q (fmul q 3021 ZETA))) ((q - 1) / 2) q = q - 1 := by decide +kernel
theorem ell_h2_nat : powMod (fmul q 3021 (finv q (fmul q 3022 ZETA))) ((q - 1) / 2) q = q - 1 := by decide +kernel

theorem ellHyp : EllHyp params ((ZETA : ℕ) : Fq) where
  zeta := zeta_nonsquare
  h1 := by
    have := not_isSquare_of_powMod ell_h1_nat
    have hd : params.d = ((3021 : ℕ) : Fq) := by show ((cD : ℕ) : Fq) = _; rw [cD_eq]
    rw [hd]
    rw [cast_fmul, cast_finv q_gt_two, cast_fmul] at this
    have e : ((3021 : ℕ) : Fq) + 1 = ((3022 : ℕ) : Fq) := by norm_num
    rw [e, div_eq_mul_inv]; exact this
  h2 := by
    have := not_isSquare_of_powMod ell_h2_nat
    have hd : params.d = ((3021 : ℕ) : Fq) := by show ((cD : ℕ) : Fq) = _; rw [cD_eq]
    rw [hd]
    rw [cast_fmul, cast_finv q_gt_two, cast_fmul] at this
    have e : ((3021 : ℕ) : Fq) + 1 = ((3022 : ℕ) : Fq) := by norm_num
    rw [e, div_eq_mul_inv]; exact this
  h3 := by
    have hd : params.d = ((3021 : ℕ) : Fq) := by show ((cD : ℕ) : Fq) = _; rw [cD_eq]
    rw [hd]
    have : (1 : Fq) + 2 * ((3021 : ℕ) : Fq) = ((6043 : ℕ) : Fq) := by norm_num
    rw [this, Ne, cast_eq_zero_iff (by rw [_root_.C17.q_val]; norm_num)]
    norm_num

set_option maxRecDepth 8000 in
/-- the model map computes `elligatorF`; it never panics -/
theorem elligator_cast {sr : SR} (h : SRContract sr) (r0 : ℕ) :
    ∃ c : Ext, elligator sr ZETA r0 = some c ∧
      ((c.X : Fq), (c.Y : Fq), (c.Z : Fq), (c.T : Fq)) = elligatorF params paritySign h.toSqrtRatio (r0 : Fq) := by
  unfold elligator
  simp only []
  set r := fmul q ZETA (fsq q r0) with hr
  set den := fmul q (fsub q (fmul q cD r) (fsub q cD cA)) (fsub q (fmul q (fsub q cD cA) r) cD) with hden
  set num := fmul q (fadd q r 1) (fsub q cA (fmul q 2 cD)) with hnum
  have hxlt : fmul q num den < q := fmul_lt q_pos _ _
  obtain ⟨f, v, hsr, hv⟩ := h.total 1 (fmul q num den) one_lt_q hxlt
  have hd : params.d = (cD : Fq) := rfl
  have hrc : (r : Fq) = (ZETA : Fq) * (r0 : Fq) ^ 2 := by rw [hr, cast_fmul, cast_fsq]; ring
  have hdenc : (den : Fq) = ellDen params ((ZETA : Fq) * (r0 : Fq) ^ 2) := by
    rw [hden, ← hrc]; unfold ellDen
    simp only [cast_fmul, cast_fsub, cast_cA, hd]; ring
  have hnumc : (num : Fq) = ellNum params ((ZETA : Fq) * (r0 : Fq) ^ 2) := by
    rw [hnum, ← hrc]; unfold ellNum
    simp only [cast_fmul, cast_fsub, cast_fadd, cast_cA, hd, Nat.cast_one, Nat.cast_ofNat]
  have hsrq : h.toSqrtRatio.sr 1 ((num : Fq) * (den : Fq)) = (f, (v : Fq)) := by
    have := srFq_cast sr one_lt_q hxlt hsr
    rw [Nat.cast_one, cast_fmul] at this
    exact this
  simp only [hsr]
  refine ⟨_, rfl, ?_⟩
  unfold elligatorF
  simp only [← hdenc, ← hnumc, hsrq]
  -- the sign test
  set tw := (if f = true then 1 else r0) with htw
  have htwc : ((tw : ℕ) : Fq) = if f = true then (1 : Fq) else (r0 : Fq) := by rw [htw]; split <;> simp
  set sgn := (if f = true then 1 else fneg q 1) with hsgn
  have hsgnc : ((sgn : ℕ) : Fq) = if f = true then (1 : Fq) else -1 := by rw [hsgn]; split <;> simp
  set s0 := fmul q (fmul q v tw) num with hs0
  have hs0c : (s0 : Fq) = (v : Fq) * (if f = true then (1 : Fq) else (r0 : Fq)) * (num : Fq) := by
    rw [hs0, cast_fmul, cast_fmul, htwc]
  have hneg : (isNeg s0 == f) = decide (paritySign.neg ((v : Fq) * (if f = true then (1 : Fq) else (r0 : Fq)) * (num : Fq)) = f) := by
    rw [isNeg_eq (fmul_lt q_pos _ _), hs0c]
    cases f <;> cases paritySign.neg _ <;> rfl
  have hsfc : (((if (isNeg s0 == f) = true then fneg q s0 else s0 : ℕ)) : Fq) =
      if paritySign.neg ((v : Fq) * (if f = true then (1 : Fq) else (r0 : Fq)) * (num : Fq)) = f
      then -((v : Fq) * (if f = true then (1 : Fq) else (r0 : Fq)) * (num : Fq))
      else (v : Fq) * (if f = true then (1 : Fq) else (r0 : Fq)) * (num : Fq) := by
    rw [hneg]
    by_cases hc : paritySign.neg ((v : Fq) * (if f = true then (1 : Fq) else (r0 : Fq)) * (num : Fq)) = f
    · simp only [hc, decide_true, if_true, cast_fneg, hs0c]
    · simp only [hc, decide_false, Bool.false_eq_true, if_false, hs0c]
  simp only [cast_fmul, cast_fsub, cast_fadd, cast_fsq, cast_fneg, cast_cA, hsfc, hsgnc, htwc, hs0c, hrc, hd,
    Nat.cast_one, Nat.cast_ofNat]
  refine Prod.ext ?_ (Prod.ext ?_ (Prod.ext ?_ ?_)) <;> simp only [] <;> ring

end Model
