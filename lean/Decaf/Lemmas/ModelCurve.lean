/-
The executable group model (`Model/Curve.lean`) refines the mathematical group (`Spec/*`):
extended-coordinate addition/doubling/negation of the minimal backend, the reference affine law of the arkworks
backend, the equality and identity tests, and both scalar-multiplication ladders.
-/
import Mathlib.NumberTheory.LegendreSymbol.Basic
import Decaf.Lemmas.Bridge
import Decaf.Spec.Extended
import Decaf.Model.Curve

namespace Model
open Edwards

abbrev Fq := ZMod q

instance : NeZero q := ⟨Nat.Prime.ne_zero prime_q⟩

/-- a square root of -1 in Fq: zeta^((q-1)/4) -/
def sqrtM1 : ℕ := powMod ZETA ((q - 1) / 4) q

theorem sqrtM1_sq : fmul q sqrtM1 sqrtM1 = q - 1 := by decide +kernel

theorem cD_eq : cD = 3021 := C17.coeffD_eq
theorem cA_eq : cA = q - 1 := C17.coeffA_eq
theorem cK_eq : cK = 6042 := by decide +kernel

theorem cast_q_sub_one : ((q - 1 : ℕ) : Fq) = -1 := by
  have h : 1 ≤ q := q_pos
  rw [Nat.cast_sub h]; simp

@[simp] theorem cast_cA : (cA : Fq) = -1 := by rw [cA_eq, cast_q_sub_one]
@[simp] theorem cast_cK : (cK : Fq) = 2 * (cD : Fq) := by rw [cK_eq, cD_eq]; norm_num

/-- Euler's criterion from a kernel-evaluated power: `a^((q-1)/2) = -1` implies `a` is not a square -/
theorem not_isSquare_of_powMod {a : ℕ} (h : powMod a ((q - 1) / 2) q = q - 1) : ¬ IsSquare (a : Fq) := by
  intro hs
  have ha : (a : Fq) ≠ 0 := by
    intro h0
    have := cast_powMod a ((q - 1) / 2) q
    rw [h, h0, cast_q_sub_one, zero_pow] at this
    · exact absurd this (by simp)
    · have := q_gt_two; omega
  have := (ZMod.euler_criterion (p := q) ha).mp hs
  have h2 := cast_powMod a ((q - 1) / 2) q
  rw [h, cast_q_sub_one] at h2
  have hq : q / 2 = (q - 1) / 2 := by
    have := Nat.Prime.eq_one_or_self_of_dvd prime_q 2
    have hodd : q % 2 = 1 := by decide +kernel
    omega
  rw [hq] at this
  rw [this] at h2
  have : (2 : Fq) = 0 := by linear_combination -h2
  have h2' : ((2 : ℕ) : Fq) = 0 := by exact_mod_cast this
  rw [ZMod.natCast_eq_zero_iff] at h2'
  have := Nat.le_of_dvd (by norm_num) h2'
  have := q_gt_two; omega

theorem d_nonsquare : ¬ IsSquare ((cD : ℕ) : Fq) := by
  apply not_isSquare_of_powMod
  rw [cD_eq]; decide +kernel

/-- the curve parameters of decaf377 as a `Params (ZMod q)` -/
def params : Params Fq where
  d := (cD : Fq)
  c := (sqrtM1 : Fq)
  hc := by
    have := congrArg (Nat.cast : ℕ → Fq) sqrtM1_sq
    rw [cast_fmul, cast_q_sub_one] at this
    rw [sq]; exact this
  hd := d_nonsquare
  h2 := by
    intro h
    have h2' : ((2 : ℕ) : Fq) = 0 := by exact_mod_cast h
    rw [ZMod.natCast_eq_zero_iff] at h2'
    have := Nat.le_of_dvd (by norm_num) h2'
    have := q_gt_two; omega

abbrev E := Point params

/-- the model quadruple `c` represents the curve point `pt` -/
def ERepr (c : Ext) (pt : E) : Prop := Repr (c.X : Fq) (c.Y : Fq) (c.Z : Fq) (c.T : Fq) pt.x pt.y

theorem identity_repr : ERepr Ext.identity 0 := by
  unfold ERepr Ext.identity
  exact ⟨by simp, by simp, by simp, by simp⟩

theorem addMin_repr {c1 c2 : Ext} {p1 p2 : E} (h1 : ERepr c1 p1) (h2 : ERepr c2 p2) :
    ERepr (Ext.addMin c1 c2) (p1 + p2) := by
  have := hwcd_add params h1 h2 p1.on p2.on (cK : Fq) (by rw [cast_cK]; rfl)
  unfold ERepr Ext.addMin
  simp only [cast_fmul, cast_fsub, cast_fadd, Point.add_x, Point.add_y]
  convert this using 1 <;> ring

theorem doubleMin_repr {c : Ext} {pt : E} (h : ERepr c pt) : ERepr (Ext.doubleMin c) (pt + pt) := by
  have := hwcd_double params h pt.on
  unfold ERepr Ext.doubleMin
  simp only [cast_fmul, cast_fsub, cast_fadd, cast_fsq, cast_fneg, Point.add_x, Point.add_y]
  convert this using 1 <;> ring

theorem neg_repr {c : Ext} {pt : E} (h : ERepr c pt) : ERepr (Ext.neg c) (-pt) := by
  have := repr_neg h
  unfold ERepr Ext.neg
  simpa using this

theorem subMin_repr {c1 c2 : Ext} {p1 p2 : E} (h1 : ERepr c1 p1) (h2 : ERepr c2 p2) :
    ERepr (Ext.subMin c1 c2) (p1 - p2) := by
  rw [sub_eq_add_neg]; exact addMin_repr h1 (neg_repr h2)

/-- the affine normalisation of a representative is the point itself -/
theorem affine_cast {c : Ext} {pt : E} (h : ERepr c pt) :
    ((c.affine.1 : ℕ) : Fq) = pt.x ∧ ((c.affine.2 : ℕ) : Fq) = pt.y := by
  have := repr_div h
  unfold Ext.affine
  simp only [cast_fmul, cast_finv q_gt_two]
  exact this

theorem ofAffine_repr {x y : ℕ} {pt : E} (hx : (x : Fq) = pt.x) (hy : (y : Fq) = pt.y) :
    ERepr (Ext.ofAffine (x, y)) pt := by
  unfold ERepr Ext.ofAffine
  simp only [cast_fmul, Nat.cast_one, hx, hy]
  exact repr_affine

theorem addAffine_cast {a b : ℕ × ℕ} {p1 p2 : E} (ha : (a.1 : Fq) = p1.x ∧ (a.2 : Fq) = p1.y)
    (hb : (b.1 : Fq) = p2.x ∧ (b.2 : Fq) = p2.y) :
    (((Ext.addAffine a b).1 : ℕ) : Fq) = (p1 + p2).x ∧ (((Ext.addAffine a b).2 : ℕ) : Fq) = (p1 + p2).y := by
  obtain ⟨a1, a2⟩ := a
  obtain ⟨b1, b2⟩ := b
  simp only at ha hb
  unfold Ext.addAffine
  simp only [cast_fmul, cast_fadd, cast_fsub, cast_finv q_gt_two, Nat.cast_one, cast_cA, ha.1, ha.2, hb.1, hb.2,
    Point.add_x, Point.add_y, addX, addY]
  have hd : params.d = (cD : Fq) := rfl
  rw [hd]
  constructor
  · rw [div_eq_mul_inv]; ring
  · rw [div_eq_mul_inv]; ring

/-- the reference law, as the arkworks backend is modelled -/
theorem addRef_repr {c1 c2 : Ext} {p1 p2 : E} (h1 : ERepr c1 p1) (h2 : ERepr c2 p2) :
    ERepr (Ext.addRef c1 c2) (p1 + p2) := by
  have := addAffine_cast (affine_cast h1) (affine_cast h2)
  unfold Ext.addRef
  exact ofAffine_repr this.1 this.2

theorem doubleRef_repr {c : Ext} {pt : E} (h : ERepr c pt) : ERepr (Ext.doubleRef c) (pt + pt) :=
  addRef_repr h h

theorem subRef_repr {c1 c2 : Ext} {p1 p2 : E} (h1 : ERepr c1 p1) (h2 : ERepr c2 p2) :
    ERepr (Ext.subRef c1 c2) (p1 - p2) := by
  rw [sub_eq_add_neg]; exact addRef_repr h1 (neg_repr h2)

end Model

namespace Model
open Edwards

/-! ### equality and identity tests -/

theorem eq_iff_coset {c1 c2 : Ext} {p1 p2 : E} (h1 : ERepr c1 p1) (h2 : ERepr c2 p2) :
    Ext.eq c1 c2 = true ↔ Point.Coset p1 p2 := by
  rw [← Point.cross_eq_iff_coset]
  unfold Ext.eq
  rw [beq_iff_eq]
  constructor
  · intro h
    have := congrArg (Nat.cast : ℕ → Fq) h
    rw [cast_fmul, cast_fmul, h1.hx, h1.hy, h2.hx, h2.hy] at this
    have z1 := h1.z; have z2 := h2.z
    have : (p1.x * p2.y - p1.y * p2.x) * ((c1.Z : Fq) * (c2.Z : Fq)) = 0 := by linear_combination this
    have := (mul_eq_zero.mp this).resolve_right (mul_ne_zero z1 z2)
    linear_combination this
  · intro h
    apply eq_of_cast_eq (fmul_lt q_pos _ _) (fmul_lt q_pos _ _)
    rw [cast_fmul, cast_fmul, h1.hx, h1.hy, h2.hx, h2.hy]
    linear_combination ((c1.Z : Fq) * (c2.Z : Fq)) * h

/-- a point with x = 0 is the identity or T2 -/
theorem x_eq_zero_iff (pt : E) : pt.x = 0 ↔ Point.Coset 0 pt := by
  rw [← Point.cross_eq_iff_coset]
  simp only [Point.zero_x, Point.zero_y, zero_mul, one_mul]
  exact ⟨fun h => h.symm, fun h => h.symm⟩

theorem isIdentity_iff {c : Ext} {pt : E} (h : ERepr c pt) (hX : c.X < q) :
    Ext.isIdentity c = true ↔ Point.Coset 0 pt := by
  rw [← x_eq_zero_iff]
  unfold Ext.isIdentity
  rw [beq_iff_eq, ← cast_eq_zero_iff hX, h.hx]
  constructor
  · intro h0; exact (mul_eq_zero.mp h0).resolve_right h.z
  · intro h0; rw [h0, zero_mul]

/-! ### ladders -/

/-- value of a little-endian bit list -/
def bitsVal : List Bool → ℕ
  | [] => 0
  | b :: bs => (if b then 1 else 0) + 2 * bitsVal bs

theorem bitsVal_limbBits (l n : ℕ) : bitsVal (limbBits l n) = l % 2 ^ n := by
  induction n generalizing l with
  | zero => simp [limbBits, bitsVal, Nat.mod_one]
  | succ n ih =>
    simp only [limbBits, bitsVal, ih]
    have : l % 2 ^ (n + 1) = l % 2 + 2 * (l / 2 % 2 ^ n) := by
      rw [pow_succ, Nat.mul_comm (2 ^ n) 2, Nat.mod_mul]
    rw [this]
    rcases Nat.mod_two_eq_zero_or_one l with h | h <;> simp [h]

theorem limbBits_length (l n : ℕ) : (limbBits l n).length = n := by
  induction n generalizing l with
  | zero => rfl
  | succ n ih => simp [limbBits, ih]

theorem bitsVal_append (a b : List Bool) : bitsVal (a ++ b) = bitsVal a + 2 ^ a.length * bitsVal b := by
  induction a with
  | nil => simp [bitsVal]
  | cons x xs ih => simp only [List.cons_append, bitsVal, ih, List.length_cons, pow_succ]; ring

theorem bitsVal_limbsBits (limbs : List ℕ) (h : ∀ l ∈ limbs, l < 2 ^ 64) :
    bitsVal (limbsBits limbs) = Lit.ofLimbs 64 limbs := by
  induction limbs with
  | nil => rfl
  | cons l ls ih =>
    have hl := h l (List.mem_cons_self)
    have ih' := ih (fun x hx => h x (List.mem_cons_of_mem _ hx))
    unfold limbsBits at *
    simp only [List.flatMap_cons, bitsVal_append, limbBits_length, bitsVal_limbBits, Lit.ofLimbs, ih',
      Nat.mod_eq_of_lt hl]

/-- LSB-first double-and-add computes `acc + k • ins` -/
theorem ladderLsb_repr (add : Ext → Ext → Ext) (dbl : Ext → Ext)
    (hadd : ∀ c1 c2 (p1 p2 : E), ERepr c1 p1 → ERepr c2 p2 → ERepr (add c1 c2) (p1 + p2))
    (hdbl : ∀ c (pt : E), ERepr c pt → ERepr (dbl c) (pt + pt))
    (bits : List Bool) : ∀ (acc ins : Ext) (pa pi : E), ERepr acc pa → ERepr ins pi →
      ERepr (Ext.ladderLsbAux add dbl bits acc ins) (pa + bitsVal bits • pi) := by
  induction bits with
  | nil => intro acc ins pa pi ha _; simpa [Ext.ladderLsbAux, bitsVal] using ha
  | cons b bs ih =>
    intro acc ins pa pi ha hi
    unfold Ext.ladderLsbAux
    have hi2 := hdbl ins pi hi
    cases b with
    | true =>
      have := ih (add acc ins) (dbl ins) (pa + pi) (pi + pi) (hadd _ _ _ _ ha hi) hi2
      simp only [if_true, bitsVal]
      convert this using 1
      rw [add_smul, one_smul, mul_smul, two_smul, smul_add]; abel
    | false =>
      have := ih acc (dbl ins) pa (pi + pi) ha hi2
      simp only [bitsVal, Bool.false_eq_true, if_false, zero_add]
      convert this using 1
      rw [mul_smul, two_smul, smul_add]

/-- value of a big-endian bit list -/
def bitsValMsb : List Bool → ℕ → ℕ
  | [], acc => acc
  | b :: bs, acc => bitsValMsb bs (2 * acc + (if b then 1 else 0))

/-- MSB-first double-and-add (arkworks `mul_bigint`) computes `(2^len·a + k) • p` from an accumulator `a • p` -/
theorem ladderMsb_repr (add : Ext → Ext → Ext) (dbl : Ext → Ext)
    (hadd : ∀ c1 c2 (p1 p2 : E), ERepr c1 p1 → ERepr c2 p2 → ERepr (add c1 c2) (p1 + p2))
    (hdbl : ∀ c (pt : E), ERepr c pt → ERepr (dbl c) (pt + pt))
    (p : Ext) (pp : E) (hp : ERepr p pp) (bits : List Bool) :
    ∀ (acc : Ext) (a : ℕ), ERepr acc (a • pp) → ERepr (Ext.ladderMsbAux add dbl p bits acc) (bitsValMsb bits a • pp) := by
  induction bits with
  | nil => intro acc a ha; simpa [Ext.ladderMsbAux, bitsValMsb] using ha
  | cons b bs ih =>
    intro acc a ha
    unfold Ext.ladderMsbAux
    have h2 := hdbl acc _ ha
    cases b with
    | true =>
      have h3 := hadd _ _ _ _ h2 hp
      have := ih (add (dbl acc) p) (2 * a + 1) (by convert h3 using 1; rw [add_smul, mul_smul, two_smul, one_smul])
      simpa [bitsValMsb] using this
    | false =>
      have := ih (dbl acc) (2 * a) (by convert h2 using 1; rw [mul_smul, two_smul])
      simpa [bitsValMsb] using this

theorem bitsValMsb_append (a b : List Bool) (acc : ℕ) : bitsValMsb (a ++ b) acc = bitsValMsb b (bitsValMsb a acc) := by
  induction a generalizing acc with
  | nil => rfl
  | cons x xs ih => simp [bitsValMsb, ih]

theorem bitsValMsb_reverse (bits : List Bool) : bitsValMsb bits.reverse 0 = bitsVal bits := by
  induction bits with
  | nil => rfl
  | cons b bs ih =>
    rw [List.reverse_cons, bitsValMsb_append, ih]
    simp [bitsValMsb, bitsVal]; ring

theorem bitsValMsb_dropWhile (bits : List Bool) : bitsValMsb (bits.dropWhile (· == false)) 0 = bitsValMsb bits 0 := by
  induction bits with
  | nil => rfl
  | cons b bs ih =>
    cases b with
    | true => simp [List.dropWhile]
    | false =>
      simp only [List.dropWhile, beq_self_eq_true, bitsValMsb, Bool.false_eq_true, if_false, Nat.mul_zero, Nat.add_zero]
      exact ih

end Model
