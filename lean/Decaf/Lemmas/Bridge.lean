/-
Bridge between the executable model (canonical naturals, explicit `% m`) and `ZMod m`.
Every model primitive casts to the corresponding field operation; canonical values are determined by their cast.
-/
import Mathlib.Data.ZMod.Basic
import Mathlib.FieldTheory.Finite.Basic
import Mathlib.Tactic.Ring
import Mathlib.Tactic.FieldSimp
import Mathlib.Tactic.LinearCombination
import Decaf.Lemmas.PowMod
import Decaf.Spec.Primes

namespace Model

variable {m : ℕ}

@[simp] theorem cast_fadd (a b : ℕ) : ((fadd m a b : ℕ) : ZMod m) = a + b := by
  simp [fadd]

@[simp] theorem cast_fmul (a b : ℕ) : ((fmul m a b : ℕ) : ZMod m) = a * b := by
  simp [fmul]

@[simp] theorem cast_fsq (a : ℕ) : ((fsq m a : ℕ) : ZMod m) = a * a := by
  simp [fsq]

@[simp] theorem cast_fneg [NeZero m] (a : ℕ) : ((fneg m a : ℕ) : ZMod m) = -a := by
  have hm : 0 < m := Nat.pos_of_ne_zero (NeZero.ne m)
  have hle : a % m ≤ m := (Nat.mod_lt a hm).le
  simp only [fneg, ZMod.natCast_mod]
  rw [Nat.cast_sub hle]
  simp

@[simp] theorem cast_fsub [NeZero m] (a b : ℕ) : ((fsub m a b : ℕ) : ZMod m) = a - b := by
  have hm : 0 < m := Nat.pos_of_ne_zero (NeZero.ne m)
  have hle : b % m ≤ m := (Nat.mod_lt b hm).le
  simp only [fsub, ZMod.natCast_mod, Nat.cast_add]
  rw [Nat.cast_sub hle]
  simp [sub_eq_add_neg]

@[simp] theorem cast_fpow (a e : ℕ) : ((fpow m a e : ℕ) : ZMod m) = (a : ZMod m) ^ e := by
  simp [fpow, cast_powMod]

theorem cast_finv [Fact m.Prime] (hm : 2 < m) (a : ℕ) : ((finv m a : ℕ) : ZMod m) = (a : ZMod m)⁻¹ := by
  simp only [finv, cast_powMod]
  by_cases h : (a : ZMod m) = 0
  · rw [h, inv_zero, zero_pow]
    omega
  · have h1 : (a : ZMod m) ^ (m - 1) = 1 := ZMod.pow_card_sub_one_eq_one h
    have h2 : m - 1 = (m - 2) + 1 := by omega
    rw [h2, pow_succ] at h1
    exact eq_inv_of_mul_eq_one_left h1

theorem cast_fdiv [Fact m.Prime] (hm : 2 < m) (a b : ℕ) : ((fdiv m a b : ℕ) : ZMod m) = (a : ZMod m) / b := by
  simp [fdiv, cast_finv hm, div_eq_mul_inv]

theorem fadd_lt (hm : 0 < m) (a b : ℕ) : fadd m a b < m := Nat.mod_lt _ hm
theorem fsub_lt (hm : 0 < m) (a b : ℕ) : fsub m a b < m := Nat.mod_lt _ hm
theorem fneg_lt (hm : 0 < m) (a : ℕ) : fneg m a < m := Nat.mod_lt _ hm
theorem fmul_lt (hm : 0 < m) (a b : ℕ) : fmul m a b < m := Nat.mod_lt _ hm
theorem fsq_lt (hm : 0 < m) (a : ℕ) : fsq m a < m := Nat.mod_lt _ hm
theorem finv_lt (hm : 1 < m) (a : ℕ) : finv m a < m := powMod_lt _ _ _ hm

/-- a canonical value is determined by its cast -/
theorem eq_of_cast_eq {a b : ℕ} (ha : a < m) (hb : b < m) (h : (a : ZMod m) = (b : ZMod m)) : a = b := by
  have := (ZMod.natCast_eq_natCast_iff' a b m).mp h
  rwa [Nat.mod_eq_of_lt ha, Nat.mod_eq_of_lt hb] at this

theorem cast_eq_zero_iff {a : ℕ} (ha : a < m) : (a : ZMod m) = 0 ↔ a = 0 := by
  constructor
  · intro h
    have : (a : ZMod m) = ((0 : ℕ) : ZMod m) := by simpa using h
    by_cases hm : m = 0
    · subst hm; omega
    · exact eq_of_cast_eq ha (Nat.pos_of_ne_zero hm) this
  · rintro rfl; simp

theorem val_cast_of_lt {a : ℕ} (ha : a < m) : (a : ZMod m).val = a := ZMod.val_natCast_of_lt ha

/-! the exact model values of the curve constants, as elements of `ZMod q` -/
theorem q_pos : 0 < q := Nat.Prime.pos prime_q
theorem q_gt_two : 2 < q := by rw [_root_.C17.q_val]; norm_num

end Model
