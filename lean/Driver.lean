import Decaf.Model.Exec
open Model.Exec

partial def loop (B : Build) (h : IO.FS.Stream) (out : IO.FS.Stream) : IO Unit := do
  let line ← h.getLine
  if line.isEmpty then return ()
  let l := line.trimAscii.toString
  if l.isEmpty || l.startsWith "#" then
    out.putStrLn l
  else
    out.putStrLn (execLine B l)
  loop B h out

def main (args : List String) : IO UInt32 := do
  let B := if args.contains "min" then minBuild else arkBuild
  if args.contains "c17" then
    for f in Model.C17.facts do
      IO.println s!"{if f.2 then "ok  " else "FAIL"} {f.1}"
    return (if Model.C17.facts.all (·.2) then 0 else 1)
  if args.contains "c16" then
    for f in Model.C16.facts do
      IO.println s!"{if f.2 then "ok  " else "FAIL"} {f.1}"
    return (if Model.C16.facts.all (·.2) then 0 else 1)
  loop B (← IO.getStdin) (← IO.getStdout)
  return 0
