#!/usr/bin/env python3
"""./check <property id> [--tier quick|thorough] [--replay FILE]

See /verif/DESIGN.md §3.  Steps: translate constants -> lake build of the property's theorem module and of the
driver -> axiom audit -> cargo build of the harness(es) from /repo's working tree -> correspondence
(implementation vs Lean model, same op lines) -> property oracle on the implementation -> decide -> evidence.
"""
import sys, os, json, time, subprocess, hashlib, random, re, shutil, concurrent.futures

VERIF = os.path.dirname(os.path.dirname(os.path.abspath(__file__)))
LEAN = os.path.join(VERIF, 'lean')
BUILD = os.path.join(VERIF, 'build')
REPO = os.environ.get('VERIF_REPO', '/repo')
NPROC = int(os.environ.get('VERIF_NPROC', '16'))
sys.path.insert(0, os.path.dirname(os.path.abspath(__file__)))

ALLOWED_AXIOMS = {'propext', 'Classical.choice', 'Quot.sound'}

ENV = dict(os.environ)
ENV['CARGO_NET_OFFLINE'] = 'true'


def sh(cmd, cwd=None, timeout=None, env=None, input=None):
    p = subprocess.run(cmd, cwd=cwd, stdout=subprocess.PIPE, stderr=subprocess.STDOUT, text=True,
                       timeout=timeout, env=env or ENV, input=input)
    return p.returncode, p.stdout


# ------------------------------------------------------------------------------------------------
# Lean side

def translate():
    out = os.path.join(LEAN, 'Decaf', 'Generated', 'Constants.lean')
    rc, log = sh([sys.executable, os.path.join(VERIF, 'translator', 'extract_constants.py'), REPO, out])
    if rc != 0:
        return False, log.strip()
    # the straight-line group formulas (needs the constants index written just above)
    fout = os.path.join(LEAN, 'Decaf', 'Generated', 'Formulas.lean')
    rc2, log2 = sh([sys.executable, os.path.join(VERIF, 'translator', 'extract_formulas.py'), REPO, fout])
    if rc2 != 0:
        return False, (log.strip() + '; ' + log2.strip())
    # the operator forms (impl Add/Sub/Neg/Mul/...Assign blocks of both backends)
    oout = os.path.join(LEAN, 'Decaf', 'Generated', 'OpForms.lean')
    rc3, log3 = sh([sys.executable, os.path.join(VERIF, 'translator', 'extract_opforms.py'), REPO, oout])
    if rc3 != 0:
        return False, (log.strip() + '; ' + log2.strip() + '; ' + log3.strip())
    # the conversion entry points (impl From / TryFrom between byte strings, Encoding and Element)
    cout = os.path.join(LEAN, 'Decaf', 'Generated', 'ConvForms.lean')
    rc4, log4 = sh([sys.executable, os.path.join(VERIF, 'translator', 'extract_convforms.py'), REPO, cout])
    if rc4 != 0:
        return False, (log.strip() + '; ' + log2.strip() + '; ' + log3.strip() + '; ' + log4.strip())
    # the lazily evaluated gadget variable (lazy.rs), executed symbolically in each of its three states
    lout = os.path.join(LEAN, 'Decaf', 'Generated', 'Lazy.lean')
    rc5, log5 = sh([sys.executable, os.path.join(VERIF, 'translator', 'extract_lazy.py'), REPO, lout])
    if rc5 != 0:
        return False, (log.strip() + '; ' + log2.strip() + '; ' + log3.strip() + '; ' + log4.strip() + '; ' + log5.strip())
    # the byte-level wrapper functions of the three fields (from_bytes_checked, from_le_bytes_mod_order, to_bytes)
    wout = os.path.join(LEAN, 'Decaf', 'Generated', 'FieldFns.lean')
    rc6, log6 = sh([sys.executable, os.path.join(VERIF, 'translator', 'extract_fieldfns.py'), REPO, wout])
    return rc6 == 0, (log.strip() + '; ' + log2.strip() + '; ' + log3.strip() + '; ' + log4.strip() + '; ' + log5.strip() + '; ' + log6.strip())


def formula_status():
    try:
        d = json.load(open(os.path.join(LEAN, 'Decaf', 'Generated', 'Formulas.index.json')))
    except (OSError, ValueError):
        d = {}
    try:
        d.update(json.load(open(os.path.join(LEAN, 'Decaf', 'Generated', 'Lazy.index.json')))['functions'])
    except (OSError, ValueError, KeyError):
        pass
    try:
        d.update(json.load(open(os.path.join(LEAN, 'Decaf', 'Generated', 'FieldFns.index.json')))['functions'])
    except (OSError, ValueError, KeyError):
        pass
    try:
        o = json.load(open(os.path.join(LEAN, 'Decaf', 'Generated', 'OpForms.index.json')))
        d['opforms'] = dict(status='translated %s group operator forms %s and %s field operator forms %s'
                                   % (sum(o['counts'].values()), o['counts'], sum(o.get('field_counts', {}).values()), o.get('field_counts', {})),
                            reason='; '.join(o['untranslated']) or None)
        if o['untranslated']:
            d['opforms']['status'] += '; %d outside the grammar (correspondence only): %s' % (len(o['untranslated']), '; '.join(o['untranslated'])[:300])
    except (OSError, ValueError, KeyError):
        pass
    try:
        c = json.load(open(os.path.join(LEAN, 'Decaf', 'Generated', 'ConvForms.index.json')))
        d['convforms'] = dict(status='translated %s conversion entry points %s' % (sum(c['counts'].values()), c['counts'])
                              + ('; %d outside the grammar (correspondence only): %s' % (len(c['untranslated']), '; '.join(c['untranslated'])[:300]) if c['untranslated'] else ''))
    except (OSError, ValueError, KeyError):
        pass
    return d


def lake_build(targets):
    t0 = time.time()
    rc, log = sh(['lake', 'build'] + targets, cwd=LEAN, timeout=3 * 3600)
    return rc == 0, log, time.time() - t0


def lean_errors(log):
    """(file, line, message) for each `error:` in a lake log"""
    errs = []
    for m in re.finditer(r'error: (Decaf/[^:]+):(\d+):(\d+): (.*)', log):
        errs.append(dict(file=m.group(1), line=int(m.group(2)), msg=m.group(4)[:300]))
    return errs


def theorem_at(file, line):
    """name of the theorem enclosing a line of a Lean file (best effort)"""
    try:
        src = open(os.path.join(LEAN, file)).read().split('\n')
    except OSError:
        return None
    for i in range(min(line, len(src)) - 1, -1, -1):
        m = re.match(r'\s*(?:private\s+)?(?:theorem|lemma|def|instance|gen_fact_theorems)\s+([^\s:(\[{]+)', src[i])
        if m:
            return m.group(1)
    return None


def audit(modules, namespaces):
    """#print axioms of every theorem in the given namespaces; returns {theorem: [axioms]}"""
    os.makedirs(os.path.join(BUILD, 'audit'), exist_ok=True)
    path = os.path.join(BUILD, 'audit', 'audit_%s.lean' % '_'.join(namespaces))
    with open(path, 'w') as f:
        f.write('import Decaf.AuditCmd\n')
        for m in modules:
            f.write('import %s\n' % m)
        for ns in namespaces:
            f.write('#audit_ns %s\n' % ns)
    rc, log = sh(['lake', 'env', 'lean', path], cwd=LEAN, timeout=3600)
    res = {}
    for m in re.finditer(r'AUDIT (\S+) axioms=\[(.*?)\]', log):
        res[m.group(1)] = [a.strip() for a in m.group(2).split(',') if a.strip()]
    return rc == 0, res, log


FORBIDDEN = re.compile(r'\b(sorry|admit|native_decide|bv_decide|implemented_by)\b|^\s*axiom\s|unsafe\s|maxHeartbeats\s+0\b')


def grep_forbidden():
    """forbidden tokens outside comments in the Lean sources"""
    hits = []
    for dp, dn, fn in os.walk(os.path.join(LEAN, 'Decaf')):
        for f in fn:
            if not f.endswith('.lean'):
                continue
            src = open(os.path.join(dp, f)).read()
            # strip block and line comments
            src2 = re.sub(r'/-.*?-/', lambda m: '\n' * m.group().count('\n'), src, flags=re.S)
            for i, line in enumerate(src2.split('\n')):
                line = re.sub(r'--.*$', '', line)
                line = re.sub(r'"(?:[^"\\]|\\.)*"', '""', line)
                if FORBIDDEN.search(line):
                    hits.append('%s:%d: %s' % (os.path.relpath(os.path.join(dp, f), LEAN), i + 1, line.strip()[:120]))
    return hits


# ------------------------------------------------------------------------------------------------
# Rust side

def cargo_build(kind):
    """kind in ark | min | r1cs; returns (ok, log, binary path)"""
    tdir = os.path.join(BUILD, kind)
    cmd = ['cargo', 'build', '--offline', '--features', kind, '--target-dir', tdir]
    env = dict(ENV)
    if kind == 'min':
        # the fiat-crypto sources take 8 minutes at opt-level >= 1; the unoptimised build takes 6 s
        cmd += ['--config', 'profile.dev.opt-level=0', '--config', 'profile.dev.debug=0']
    if kind == 'r1cs':
        env['RUSTFLAGS'] = (env.get('RUSTFLAGS', '') + ' --cfg decaf377_verif').strip()
    lock = os.path.join(VERIF, 'harness', 'Cargo.lock')
    if not os.path.exists(lock):
        shutil.copy(os.path.join(REPO, 'Cargo.lock'), lock)
    rc, log = sh(cmd, cwd=os.path.join(VERIF, 'harness'), env=env, timeout=3600)
    return rc == 0, log, os.path.join(tdir, 'debug', 'harness')


def run_lines(cmd, lines, nproc=NPROC, timeout=3600):
    """run a line-protocol executable over `lines`, split into chunks run in parallel; returns outputs"""
    if not lines:
        return []
    n = max(1, min(nproc, (len(lines) + 49) // 50))
    size = (len(lines) + n - 1) // n
    chunks = [lines[i:i + size] for i in range(0, len(lines), size)]

    def one(ch):
        p = subprocess.run(cmd, input='\n'.join(ch) + '\n', stdout=subprocess.PIPE, stderr=subprocess.DEVNULL,
                           text=True, timeout=timeout)
        out = p.stdout.split('\n')
        if out and out[-1] == '':
            out.pop()
        if len(out) != len(ch):
            # the process died (abort / stack overflow): bisect to find the line
            res = []
            for l in ch:
                q = subprocess.run(cmd, input=l + '\n', stdout=subprocess.PIPE, stderr=subprocess.DEVNULL, text=True,
                                   timeout=timeout)
                o = q.stdout.strip().split('\n')
                res.append(o[0] if q.returncode == 0 and o and o[0] else 'crash')
            return res
        return out

    with concurrent.futures.ThreadPoolExecutor(max_workers=n) as ex:
        outs = list(ex.map(one, chunks))
    return [o for ch in outs for o in ch]


DRIVER = os.path.join(LEAN, '.lake', 'build', 'bin', 'driver')

# ------------------------------------------------------------------------------------------------
# known findings

def load_known():
    known = []
    path = os.path.join(VERIF, 'known_findings.txt')
    if os.path.exists(path):
        for line in open(path):
            line = line.strip()
            m = re.match(r'finding: property=(\S+) sig=(\S+) (.*)', line)
            if m:
                known.append(dict(property=m.group(1), sig=m.group(2), text=m.group(3)))
    return known


# ------------------------------------------------------------------------------------------------

class Case:
    """one protocol line, the builds it applies to, its input class (for the histogram) and an optional
    property oracle evaluated on the *implementation's* output"""
    __slots__ = ('line', 'builds', 'cls', 'oracle', 'sig', 'spec', 'nomodel', 'canon', 'spec_when', 'mw')

    def __init__(self, line, builds=('ark', 'min'), cls='', oracle=None, sig=None, spec=None, nomodel=False, canon=None, spec_when=None, mw=None):
        self.line = line
        self.builds = builds
        self.cls = cls
        self.oracle = oracle      # f(impl_out: str, build) -> None | failure text
        self.sig = sig            # signature used to match known findings
        self.spec = spec          # a `spec.*` line whose driver output the implementation must reproduce
        self.nomodel = nomodel    # oracle only (e.g. RNG-driven samplers): no model comparison
        self.spec_when = spec_when  # predicate on the implementation output: compare with the spec line only when it holds
        self.canon = canon        # canonicalisation of the implementation's output before it is compared with the model
        self.mw = mw              # model disagreement on this line is a failing input of the property (None: the property's default)


def main():
    import gens
    args = sys.argv[1:]
    if not args:
        print(__doc__)
        return 2
    pid = args[0]
    tier = os.environ.get('VERIF_TIER', 'quick')
    replay = None
    i = 1
    while i < len(args):
        if args[i] == '--tier':
            tier = args[i + 1]
            i += 2
        elif args[i] == '--replay':
            replay = args[i + 1]
            i += 2
        else:
            i += 1
    seed = int(os.environ.get('VERIF_SEED', '20260930'))
    if pid not in gens.PROPS:
        print('unknown property', pid)
        return 2
    P = gens.PROPS[pid]
    t0 = time.time()
    os.makedirs(BUILD, exist_ok=True)
    os.makedirs(os.path.join(VERIF, 'replays'), exist_ok=True)
    os.makedirs(os.path.join(VERIF, 'evidence'), exist_ok=True)
    violations = []   # dict(kind, detail, sig, replay)
    notes = []

    # 1. translate
    ok, tlog = translate()
    notes.append(tlog)
    if not ok:
        violations.append(dict(kind='theorem', sig='translator', detail='translator failed: ' + tlog[-400:], lines=[]))

    # 2. prove
    modules = P['modules']
    ok, blog, bsecs = lake_build(modules + ['Decaf.AuditCmd', 'driver'])
    failed_thms = []
    if not ok:
        errs = lean_errors(blog)
        for e in errs:
            e['theorem'] = theorem_at(e['file'], e['line'])
        failed_thms = errs
        if not errs:
            failed_thms = [dict(file='?', line=0, msg=blog[-600:], theorem=None)]
    # audit
    axioms = {}
    bad_axioms = {}
    if ok:
        aok, axioms, alog = audit(modules, P['namespaces'])
        if not aok and not axioms:
            failed_thms.append(dict(file='audit', line=0, msg=alog[-400:], theorem=None))
        for thm, axs in axioms.items():
            extra = [a for a in axs if a not in ALLOWED_AXIOMS]
            if extra:
                bad_axioms[thm] = extra
    forb = grep_forbidden()
    obligations = len(axioms) if axioms else P.get('expected_obligations', 1)
    discharged = len([t for t in axioms if t not in bad_axioms]) if ok else 0
    leanchecker_ok = None
    if ok and tier == 'thorough' and P.get('leanchecker', True):
        lc = []
        with concurrent.futures.ThreadPoolExecutor(max_workers=8) as ex:
            futs = {m: ex.submit(sh, ['lake', 'env', 'leanchecker', m], LEAN, 3600) for m in modules}
            for m, f in futs.items():
                rc, log = f.result()
                lc.append((m, rc, log[-300:]))
        leanchecker_ok = all(rc == 0 for _, rc, _ in lc)
        if not leanchecker_ok:
            failed_thms.append(dict(file='leanchecker', line=0, msg=str(lc)[:600], theorem=None))

    # 3-5. correspondence + oracle
    rng = random.Random(seed)
    cases = []
    if replay:
        rp = json.load(open(replay))
        wanted = {l['line']: l for l in rp.get('lines', [])}
        # regenerate the run the replay came from (same seed, same tier) and pick the recorded lines out of it, so that
        # each keeps its oracle, specification line and canonicalisation; lines no longer generated are re-run bare
        regen = []
        if P.get('gen') and wanted:
            try:
                regen = [c for c in P['gen'](random.Random(rp.get('seed', seed)), rp.get('tier', tier)) if c.line in wanted]
            except Exception:
                regen = []
        seen_lines = set()
        for c in regen:
            want_b = tuple(b for b in c.builds if b in tuple(wanted[c.line].get('builds', c.builds)))
            if want_b and (c.line, want_b) not in seen_lines:
                seen_lines.add((c.line, want_b))
                seen_lines.add(c.line)
                c.builds = want_b
                cases.append(c)
        for line, l in wanted.items():
            if line not in seen_lines:
                cases.append(Case(l['line'], tuple(l.get('builds', ('ark', 'min'))), cls='replay', spec=l.get('spec')))
    else:
        cases = P['gen'](rng, tier) if P.get('gen') else []
    builds_needed = sorted({b for c in cases for b in c.builds})
    bins = {}
    for bld in builds_needed:
        kind = bld
        bok, clog, binp = cargo_build(kind)
        if not bok:
            violations.append(dict(kind='build', sig='cargo-' + kind, detail='cargo build (%s) failed: %s' % (kind, clog[-1500:]), lines=[]))
        else:
            bins[bld] = binp
    stats = dict(evaluations=0, classes={}, forms={}, disagreements_checked=0)
    samples = []
    distinct = set()
    driver_ok = os.path.exists(DRIVER) and ok
    if cases and not driver_ok and os.path.exists(DRIVER):
        driver_ok = True   # a stale driver is still a model; the failed build is reported separately
    impl_out = {}
    model_out = {}
    spec_out = {}
    for bld in builds_needed:
        idx = [k for k, c in enumerate(cases) if bld in c.builds]
        lines = [cases[k].line for k in idx]
        if bld in bins:
            outs = run_lines([bins[bld]], lines)
            for k, o in zip(idx, outs):
                impl_out[(k, bld)] = o
        if driver_ok:
            midx = [k for k in idx if not cases[k].nomodel]
            dmode = 'min' if bld == 'min' else 'ark'   # the r1cs build is the arkworks build plus gadgets
            outs = run_lines([DRIVER, dmode], [cases[k].line for k in midx])
            for k, o in zip(midx, outs):
                model_out[(k, bld)] = o
    if driver_ok:
        sidx = [k for k, c in enumerate(cases) if c.spec]
        outs = run_lines([DRIVER, 'ark'], [cases[k].spec for k in sidx])
        for k, o in zip(sidx, outs):
            spec_out[k] = o

    known = load_known()
    for k, c in enumerate(cases):
        for bld in c.builds:
            io = impl_out.get((k, bld))
            if io is None:
                continue
            if io in ('unsupported', 'skip'):
                continue
            stats['evaluations'] += 1
            stats['classes'][c.cls] = stats['classes'].get(c.cls, 0) + 1
            key = (bld, c.cls, re.sub(r'[0-9a-f]{16,}', 'H', c.line)[:200])
            distinct.add(key)
            if len(samples) < 6 and (k % max(1, len(cases) // 6) == 0):
                samples.append(dict(build=bld, line=c.line[:300], impl=io[:200], model=model_out.get((k, bld), '')[:200]))
            sig = c.sig or ('%s:%s' % (c.cls, bld))
            # property oracle on the implementation
            if c.oracle is not None:
                try:
                    fail = c.oracle(io, bld)
                except Exception as ex:  # an oracle bug must not pass silently
                    fail = 'oracle raised %r' % (ex,)
                if fail:
                    violations.append(dict(kind='oracle', sig=sig, detail='%s [%s] %s -> %s' % (fail, bld, c.line[:400], io[:200]),
                                           lines=[dict(line=c.line, builds=[bld], spec=c.spec)], expected=fail, actual=io))
                    continue
            if c.spec and k in spec_out and (c.spec_when is None or c.spec_when(io)):
                so = spec_out[k]
                if so != (c.canon(io) if c.canon else io):
                    violations.append(dict(kind='oracle', sig=sig, detail='implementation differs from the specification: [%s] %s -> %s, spec %s -> %s'
                                           % (bld, c.line[:400], io[:200], c.spec[:200], so[:200]),
                                           lines=[dict(line=c.line, builds=[bld], spec=c.spec)], expected=so, actual=io))
                    continue
            mo = model_out.get((k, bld))
            if mo is not None and not c.nomodel:
                stats['disagreements_checked'] += 1
                io_c = c.canon(io) if c.canon else io
                if mo != io_c:
                    # where the compared observable is canonical (an encoding, a verdict, a canonical field value) and the
                    # model's value is the specified one by a theorem of this property, the line IS a failing input
                    witness = c.mw if c.mw is not None else bool(P.get('model_is_spec'))
                    violations.append(dict(kind='model', sig=sig, witness=witness,
                                           detail=('%s: [%s] %s -> impl %s, model %s'
                                                   % ('implementation differs from the model, whose value is the specified one (theorems of this property)'
                                                      if witness else 'model and implementation disagree', bld, c.line[:400], io[:200], mo[:200])),
                                           lines=[dict(line=c.line, builds=[bld], spec=c.spec)], expected=mo, actual=io))

    # C12: three-way diff between the two builds
    if P.get('cross_build'):
        for k, c in enumerate(cases):
            a, m = impl_out.get((k, 'ark')), impl_out.get((k, 'min'))
            if a is None or m is None or 'unsupported' in (a, m) or 'skip' in (a, m):
                continue
            if a != m:
                violations.append(dict(kind='oracle', sig='cross:%s' % c.cls, detail='builds differ: %s -> ark %s, min %s' % (c.line[:400], a[:200], m[:200]),
                                       lines=[dict(line=c.line, builds=['ark', 'min'])], expected=a, actual=m))

    # theorem failures: search for a failing input = any oracle violation found above; else no-failing-input-found
    for e in failed_thms:
        violations.append(dict(kind='theorem', sig='theorem:%s' % (e.get('theorem') or e['file']),
                               detail='proof obligation no longer checks: %s:%s %s: %s' % (e['file'], e['line'], e.get('theorem'), e['msg']),
                               lines=[], theorem=e.get('theorem')))
    for thm, extra in bad_axioms.items():
        violations.append(dict(kind='theorem', sig='axioms:%s' % thm, detail='theorem %s depends on non-standard axioms %s' % (thm, extra), lines=[]))
    for h in forb:
        violations.append(dict(kind='theorem', sig='forbidden', detail='forbidden token in Lean sources: ' + h, lines=[]))
    # constants: a failed C17 fact is its own witness (name, expected equation, actual value)
    extra_lines = []
    if P.get('const_facts') and os.path.exists(DRIVER):
        rc, log = sh([DRIVER, P['const_facts']])
        for line in log.split('\n'):
            if line.startswith('FAIL'):
                violations.append(dict(kind='oracle', sig='const:' + re.sub(r'\W+', '_', line[5:])[:80],
                                       detail='constant does not satisfy its defining equation: ' + line[5:], lines=[], fact=line[5:]))
            if line.strip():
                extra_lines.append(line)

    # 6. decide
    has_witness = any(v['kind'] == 'oracle' or (v['kind'] == 'model' and v.get('witness')) for v in violations)
    reported = 0
    printed_known = set()
    new_violations = []
    for v in violations:
        kf = [kn for kn in known if kn['property'] == pid and re.fullmatch(kn['sig'], v['sig'])]
        if kf and v['kind'] in ('oracle', 'model'):
            if kf[0]['sig'] not in printed_known:
                print('KNOWN-FINDING: property=%s %s' % (pid, kf[0]['text']))
                printed_known.add(kf[0]['sig'])
            continue
        new_violations.append(v)
    # group by signature so that one defect is one VIOLATION line
    bysig = {}
    for v in new_violations:
        bysig.setdefault((v['kind'], v['sig']), []).append(v)
    for (kind, sig), vs in sorted(bysig.items()):
        v = vs[0]
        h = hashlib.sha256((pid + sig + v['detail']).encode()).hexdigest()[:12]
        rpath = os.path.join(VERIF, 'replays', '%s-%s.json' % (pid, h))
        with open(rpath, 'w') as f:
            json.dump(dict(property=pid, kind=kind, sig=sig, count=len(vs), detail=v['detail'], lines=v.get('lines', []),
                           expected=v.get('expected'), actual=v.get('actual'), theorem=v.get('theorem'), fact=v.get('fact'),
                           seed=seed, tier=tier,
                           how='./check %s --replay %s' % (pid, rpath)), f, indent=1)
        suffix = ''
        if kind in ('theorem', 'model', 'build') and not has_witness and not v.get('witness'):
            suffix = ' no-failing-input-found'
        print('VIOLATION property=%s replay=%s%s' % (pid, rpath, suffix))
        print('  [%s] %s' % (kind, v['detail'][:600]))
        reported += 1

    # 7. evidence
    wall = time.time() - t0
    thm_names = sorted(axioms.keys())
    ev = dict(
        property_id=pid, tier=tier, seed=seed, level=P['level'],
        coverage=dict(
            obligations=obligations, discharged=discharged,
            checker_cmd='cd /verif/lean && lake build %s && lake env lean <audit file with #audit_ns %s>%s'
                        % (' '.join(modules), ' '.join(P['namespaces']), ' && lake env leanchecker <module>' if tier == 'thorough' else ''),
            trusted_base=P.get('trusted_base', []) + [
                'Lean 4.33 kernel; Mathlib as checked by it; axioms allowed: propext, Classical.choice, Quot.sound',
                'translator/extract_constants.py (literal extraction)',
                'translator/extract_formulas.py (Rust statement/expression subset -> Lean; the field-API primitives it maps '
                '(+ - * square abs is_negative, from_bytes_checked/deserialize_compressed, sqrt_ratio_zeta as the parameter sr; ark-r1cs-std gadget primitives; '
                'the two square-root tables by name; u64 counters as naturals) are taken by contract)',
                'translator/extract_opforms.py, extract_convforms.py, extract_lazy.py and extract_fieldfns.py (impl blocks of the operator and conversion forms, read on denotations; lazy.rs by symbolic execution in each state; '
                'assume-guarantee over the forwarding graph)',
                'correspondence harness + driver (differential testing of the model against the crate)'],
            theorems=thm_names[:400],
            axioms_used=sorted({a for axs in axioms.values() for a in axs}),
            leanchecker=leanchecker_ok,
            lean_build_s=round(bsecs, 1),
            evaluations=stats['evaluations'],
            distinct_nontrivial=len(distinct),
            rule=P.get('rule', 'cases are generated per input class from one PRNG seed; a case is distinct/non-trivial when its '
                               '(build, input class, op line with long hex blobs abstracted) triple is new'),
            classes=stats['classes'],
            disagreements_checked=stats['disagreements_checked'],
            programs=len(cases),
            samples=samples if samples else [dict(obligation=t) for t in thm_names[:5]] or extra_lines[:5],
            explanation=P.get('explanation', ''),
            translated_functions={k: (v.get('status') + (' lines %d-%d of %s' % (v['lines'][0], v['lines'][1], v['file']) if v.get('lines')
                                                          else '' if k in ('opforms', 'convforms') else ' (%s): tie for this function is the correspondence check only' % v.get('reason', '?')))
                                  for k, v in formula_status().items() if k in P.get('formulas', [])} or None,
            constants_checked=len([l for l in extra_lines if l.startswith('ok')]) if extra_lines else None,
        ),
        assumptions=P.get('assumptions', []),
        wall_s=round(wall, 1),
        violations=reported,
    )
    if not axioms and P['level'] != 'proof':
        for k in ('obligations', 'discharged', 'theorems', 'axioms_used', 'leanchecker'):
            ev['coverage'].pop(k, None)
    ev['coverage'] = {k: v for k, v in ev['coverage'].items() if v is not None}
    # a replay re-runs one recorded case: it must not replace the evidence of the last full run
    with open(os.path.join(VERIF, 'evidence', pid + ('.replay.json' if replay else '.json')), 'w') as f:
        json.dump(ev, f, indent=1)
    print('%s: tier=%s obligations=%d discharged=%d evaluations=%d distinct=%d violations=%d wall=%.0fs'
          % (pid, tier, obligations, discharged, stats['evaluations'], len(distinct), reported, wall))
    return 1 if reported else 0


if __name__ == '__main__':
    sys.exit(main())
