"""Plain-Python decaf377 arithmetic used ONLY to generate structured inputs (valid encodings, near-misses,
special field values).  Never used as an oracle: expected values come from the Lean driver."""
import random
q=8444461749428370424248824938781546531375899335154063827935233455917409239041
r=2111115437357092606062206234695386632838870926408408195193685246394721360383
d=3021; a=q-1
def inv(x): return pow(x,-1,q)
def add(P,Q):
    x1,y1=P;x2,y2=Q;m=d*x1*x2*y1*y2%q
    return ((x1*y2+y1*x2)*inv(1+m)%q,(y1*y2-a*x1*x2)*inv(1-m)%q)
def mul(k,P):
    R=(0,1)
    while k:
        if k&1:R=add(R,P)
        P=add(P,P);k>>=1
    return R
def leg(x): 
    x%=q
    return 0 if x==0 else (1 if pow(x,(q-1)//2,q)==1 else -1)
def sqrt(x):
    # tonelli
    x%=q
    if x==0: return 0
    assert leg(x)==1
    s=47;t=(q-1)>>s; z=pow(22,t,q); c=z; R=pow(x,(t+1)//2,q); tt=pow(x,t,q); m=s
    while tt!=1:
        i=0;t2=tt
        while t2!=1: t2=t2*t2%q;i+=1
        b=pow(c,1<<(m-i-1),q); R=R*b%q; c=b*b%q; tt=tt*c%q; m=i
    return R
def randpoint():
    while True:
        x=random.randrange(q)
        n=(1+x*x)%q; dd=(1-d*x*x)%q
        v=n*inv(dd)%q
        if leg(v)==1:
            y=sqrt(v); 
            if random.random()<.5:y=q-y
            return (x,y)
zeta=2841681278031794617739547238867782961338435681360110683443920362658525667816
def neg(x): return (x%q)&1
def absq(x): x%=q; return (q-x)%q if neg(x) else x
def srz(num,den):
    num%=q;den%=q
    if num==0: return True,0
    if den==0: return False,0
    x=num*inv(den)%q
    if leg(x)==1: return True,sqrt(x)
    return False,sqrt(zeta*x%q)
A=q-1;D=d
def decode(s, flip=False):
    if neg(s): return None
    ss=s*s%q;u1=(1-ss)%q;u2=(u1*u1-4*D*ss)%q
    ws,v=srz(1,u2*u1*u1%q)
    if flip: v=(q-v)%q
    if not ws: return None
    t2=2*s*u1%q
    if neg(t2*v%q): v=(q-v)%q
    x=t2*v*v*u2%q;y=(1+ss)*v*u1%q
    return (x,y)
def encode(X,Y,Z,T,flip=False):
    amd=(A-D)%q
    u1=(X+T)*(X-T)%q
    _,v=srz(1,u1*amd*X*X%q)
    if flip: v=(q-v)%q
    u2=absq(v*u1);u3=(u2*Z-T)%q
    return absq(amd*v*u3*X)
def xsqrt(x):
    if leg(x)==-1: raise ValueError
    s=sqrt(x); return absq(s)
def encodeSpec(x,y):
    if x==0 or y==0: return 0
    sr=xsqrt(1-A*x*x); altx=x*y*inv(sr)%q
    s=(1+sr)*inv(x)%q if neg(altx) else (1-sr)*inv(x)%q
    return absq(s)
def decodeSpec(s):
    if neg(s): return None
    if s==0: return (0,1)
    try: t=xsqrt(A*A*pow(s,4,q)+2*(A-2*D)*s*s+1)
    except ValueError: return None
    altx=2*s*inv(t)%q
    if neg(altx): t=(q-t)%q
    if (1+A*s*s)%q==0: return None
    return (2*s*inv(1+A*s*s)%q,(1-A*s*s)*inv(t)%q)
def fromJQ(s,t):
    if s==0: return (0,1)
    return (2*s*inv(1+A*s*s)%q,(1-A*s*s)*inv(t)%q)
def elligatorSpec(r0):
    r=zeta*r0*r0%q
    den=(D*r-(D-A))*((D-A)*r-D)%q
    if den==0: return (0,1)
    n1=(r+1)*(A-2*D)*inv(den)%q; n2=r*n1%q
    if leg(n1)>=0 and (leg(n1)==1 or n1==0):
        s=xsqrt(n1); t=(-(r-1)*(A-2*D)**2*inv(den)-1)%q
    else:
        s=(q-xsqrt(n2))%q; t=(r*(r-1)*(A-2*D)**2*inv(den)-1)%q
    return fromJQ(s,t)
def elligator(r0,flip=False):
    r=zeta*r0*r0%q
    den=(D*r-(D-A))*((D-A)*r-D)%q; num=(r+1)*(A-2*D)%q
    iss,isri=srz(1,num*den%q)
    if flip: isri=(q-isri)%q
    sgn,tw=(1,1) if iss else (q-1,r0)
    isri=isri*tw%q
    s=isri*num%q
    t=(-sgn*isri*s*(r-1)*(A-2*D)**2-1)%q
    if bool(neg(s))==iss: s=(q-s)%q
    E=2*s%q;F=(1+A*s*s)%q;G=(1-A*s*s)%q;H=t
    return (E*H%q,F*G%q,F*H%q,E*G%q) # X Y Z T
def aff(P):
    X,Y,Z,T=P; zi=inv(Z); return (X*zi%q,Y*zi%q)
def same(P,Q): return P==Q or P==((q-Q[0])%q,(q-Q[1])%q)
p=258664426012969094010652733694893533536393512754914660539884262666720468348340822774968888139573360124440321458177
MODS={'fq':(q,32,4),'fr':(r,32,4),'fp':(p,48,6)}
def fe_hex(x,n=32): return (x%(1<<(8*n))).to_bytes(n,'little').hex()
def valid_s(rng):
    while True:
        s=rng.randrange(q)
        if not neg(s) and decode(s) is not None: return s
