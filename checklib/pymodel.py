"""Plain-Python decaf377 arithmetic used ONLY to generate structured inputs (valid encodings, near-misses,
special field values).  Never used as an oracle: expected values come from the Lean driver."""
import random
q=8444461749428370424248824938781546531375899335154063827935233455917409239041
r=2111115437357092606062206234695386632838870926408408195193685246394721360383
d=3021; a=q-1
def inv(x): return pow(x,-1,q)
def add(P,Q):
    x1,y1=P;x2,y2=Q;m=d*x1*x2*y1*y2%q
    return ((x1*y2+y1*x2)*inv(1+m)%q,(y1*y2-a*x1*x2)*inv(1-m)%q)
def mul(k,P):
    R=(0,1)
    while k:
        if k&1:R=add(R,P)
        P=add(P,P);k>>=1
    return R
def leg(x): 
    x%=q
    return 0 if x==0 else (1 if pow(x,(q-1)//2,q)==1 else -1)
def sqrt(x):
    # tonelli
    x%=q
    if x==0: return 0
    assert leg(x)==1
    s=47;t=(q-1)>>s; z=pow(22,t,q); c=z; R=pow(x,(t+1)//2,q); tt=pow(x,t,q); m=s
    while tt!=1:
        i=0;t2=tt
        while t2!=1: t2=t2*t2%q;i+=1
        b=pow(c,1<<(m-i-1),q); R=R*b%q; c=b*b%q; tt=tt*c%q; m=i
    return R
def randpoint():
    while True:
        x=random.randrange(q)
        n=(1+x*x)%q; dd=(1-d*x*x)%q
        v=n*inv(dd)%q
        if leg(v)==1:
            y=sqrt(v); 
            if random.random()<.5:y=q-y
            return (x,y)
zeta=2841681278031794617739547238867782961338435681360110683443920362658525667816
def neg(x): return (x%q)&1
def absq(x): x%=q; return (q-x)%q if neg(x) else x
def srz(num,den):
    num%=q;den%=q
    if num==0: return True,0
    if den==0: return False,0
    x=num*inv(den)%q
    if leg(x)==1: return True,sqrt(x)
    return False,sqrt(zeta*x%q)
A=q-1;D=d
def decode(s, flip=False):
    if neg(s): return None
    ss=s*s%q;u1=(1-ss)%q;u2=(u1*u1-4*D*ss)%q
    ws,v=srz(1,u2*u1*u1%q)
    if flip: v=(q-v)%q
    if not ws: return None
    t2=2*s*u1%q
    if neg(t2*v%q): v=(q-v)%q
    x=t2*v*v*u2%q;y=(1+ss)*v*u1%q
    return (x,y)
def encode(X,Y,Z,T,flip=False):
    amd=(A-D)%q
    u1=(X+T)*(X-T)%q
    _,v=srz(1,u1*amd*X*X%q)
    if flip: v=(q-v)%q
    u2=absq(v*u1);u3=(u2*Z-T)%q
    return absq(amd*v*u3*X)
def xsqrt(x):
    if leg(x)==-1: raise ValueError
    s=sqrt(x); return absq(s)
def encodeSpec(x,y):
    if x==0 or y==0: return 0
    sr=xsqrt(1-A*x*x); altx=x*y*inv(sr)%q
    s=(1+sr)*inv(x)%q if neg(altx) else (1-sr)*inv(x)%q
    return absq(s)
def decodeSpec(s):
    if neg(s): return None
    if s==0: return (0,1)
    try: t=xsqrt(A*A*pow(s,4,q)+2*(A-2*D)*s*s+1)
    except ValueError: return None
    altx=2*s*inv(t)%q
    if neg(altx): t=(q-t)%q
    if (1+A*s*s)%q==0: return None
    return (2*s*inv(1+A*s*s)%q,(1-A*s*s)*inv(t)%q)
def fromJQ(s,t):
    if s==0: return (0,1)
    return (2*s*inv(1+A*s*s)%q,(1-A*s*s)*inv(t)%q)
def elligatorSpec(r0):
    r=zeta*r0*r0%q
    den=(D*r-(D-A))*((D-A)*r-D)%q
    if den==0: return (0,1)
    n1=(r+1)*(A-2*D)*inv(den)%q; n2=r*n1%q
    if leg(n1)>=0 and (leg(n1)==1 or n1==0):
        s=xsqrt(n1); t=(-(r-1)*(A-2*D)**2*inv(den)-1)%q
    else:
        s=(q-xsqrt(n2))%q; t=(r*(r-1)*(A-2*D)**2*inv(den)-1)%q
    return fromJQ(s,t)
def elligator(r0,flip=False):
    r=zeta*r0*r0%q
    den=(D*r-(D-A))*((D-A)*r-D)%q; num=(r+1)*(A-2*D)%q
    iss,isri=srz(1,num*den%q)
    if flip: isri=(q-isri)%q
    sgn,tw=(1,1) if iss else (q-1,r0)
    isri=isri*tw%q
    s=isri*num%q
    t=(-sgn*isri*s*(r-1)*(A-2*D)**2-1)%q
    if bool(neg(s))==iss: s=(q-s)%q
    E=2*s%q;F=(1+A*s*s)%q;G=(1-A*s*s)%q;H=t
    return (E*H%q,F*G%q,F*H%q,E*G%q) # X Y Z T
def aff(P):
    X,Y,Z,T=P; zi=inv(Z); return (X*zi%q,Y*zi%q)
def same(P,Q): return P==Q or P==((q-Q[0])%q,(q-Q[1])%q)
p=258664426012969094010652733694893533536393512754914660539884262666720468348340822774968888139573360124440321458177
MODS={'fq':(q,32,4),'fr':(r,32,4),'fp':(p,48,6)}
def fe_hex(x,n=32): return (x%(1<<(8*n))).to_bytes(n,'little').hex()
def valid_s(rng):
    while True:
        s=rng.randrange(q)
        if not neg(s) and decode(s) is not None: return s

# ------------------------------------------------------------------------------------------------
# crafting inputs whose *inner* square-root argument has a prescribed 2-primary component
# (polynomial root finding mod q: x^q mod f, gcd, equal-degree splitting)
NADIC = 47
MODD = (q - 1) >> NADIC
GSYL = pow(zeta, MODD, q)          # generator of the 2-Sylow subgroup, as the Sarkar routine uses it

def _trim(p):
    while p and p[-1] == 0: p.pop()
    return p
def _pmul(a, b):
    if not a or not b: return []
    res = [0] * (len(a) + len(b) - 1)
    for i, x in enumerate(a):
        if x:
            for j, y in enumerate(b):
                res[i + j] = (res[i + j] + x * y) % q
    return res
def _pdivmod(a, f):
    a = _trim(a[:]); df = len(f) - 1; il = inv(f[-1]); quo = [0] * max(0, len(a) - df)
    while a and len(a) - 1 >= df:
        c = a[-1] * il % q; sh = len(a) - 1 - df; quo[sh] = c
        for i in range(len(f)): a[sh + i] = (a[sh + i] - c * f[i]) % q
        _trim(a)
    return _trim(quo), a
def _pmod(a, f): return _pdivmod(a, f)[1]
def _ppow(b, e, f):
    res = [1]; b = _pmod(b, f)
    while e:
        if e & 1: res = _pmod(_pmul(res, b), f)
        b = _pmod(_pmul(b, b), f); e >>= 1
    return res
def _psub(a, b):
    n = max(len(a), len(b)); res = [0] * n
    for i, x in enumerate(a): res[i] = x
    for i, y in enumerate(b): res[i] = (res[i] - y) % q
    return _trim(res)
def _pgcd(a, b):
    a = _trim(a[:]); b = _trim(b[:])
    while b: a, b = b, _pmod(a, b)
    if not a: return a
    il = inv(a[-1]); return [c * il % q for c in a]
def poly_roots(f, rng):
    """all roots in Fq of the polynomial f (coefficients low -> high)"""
    f = _trim([c % q for c in f])
    if len(f) <= 1: return []
    h = _ppow([0, 1], q, f)
    g = _pgcd(f, _psub(h, [0, 1]))
    out = []
    def split(p):
        if len(p) <= 1: return
        if len(p) == 2:
            out.append((-p[0]) * inv(p[1]) % q); return
        for _ in range(200):
            a = rng.randrange(q)
            hh = _psub(_ppow([a, 1], (q - 1) // 2, p), [1])
            dd = _pgcd(p, hh) if hh else p
            if dd and 1 < len(dd) < len(p):
                split(dd); split(_pdivmod(p, dd)[0]); return
    split(g)
    return out

def two_primary_exp_target(e, rng):
    """a field element X with X^MODD = GSYL^e, i.e. with 2-primary discrete log e (mod 2^47)"""
    # X = GSYL^(e * MODD^{-1} mod 2^47) * y^(2^47)
    ee = e * pow(MODD, -1, 1 << NADIC) % (1 << NADIC)
    return pow(GSYL, ee, q) * pow(rng.randrange(1, q), 1 << NADIC, q) % q

def craft_elligator_r0(X, rng):
    """r0 with num(r)*den(r) = X for r = zeta*r0^2, or None"""
    K = (A - 2 * D) % q
    base = _pmul(_pmul([K, K], [(-(D - A)) % q, D % q]), [(-D) % q, (D - A) % q])
    f = base[:]; f[0] = (f[0] - X) % q
    for rr in poly_roots(f, rng):
        rz = rr * inv(zeta) % q
        if rz == 0 or leg(rz) == 1:
            return sqrt(rz)
    return None

def craft_decode_s(X, rng):
    """nonnegative s with u_2 * u_1^2 = X (the argument of the square root in decoding), or None"""
    # u1 = 1 - s^2, u2 = u1^2 - 4 d s^2 ; in S = s^2:  ((1-S)^2 - 4 d S) (1-S)^2 - X = 0  (quartic in S)
    oneS = [1, q - 1]
    u1sq = _pmul(oneS, oneS)
    u2 = _psub(u1sq, [0, 4 * D % q])
    f = _pmul(u2, u1sq); f[0] = (f[0] - X) % q
    for S in poly_roots(f, rng):
        if S == 0 or leg(S) == 1:
            s = sqrt(S)
            return absq(s)
    return None

def craft(kind, e, rng, tries=12):
    """input of `kind` ('ell' -> r0, 'dec' -> s) whose inner sqrt ratio has 2-primary discrete log e"""
    for _ in range(tries):
        X = two_primary_exp_target(e, rng)
        v = craft_elligator_r0(inv(X), rng) if kind == 'ell' else craft_decode_s(inv(X), rng)
        if v is not None:
            return v
    return None


def needles_decode(rng):
    """32-byte strings that pass every decoding check but ONE, chosen so that a decoder which replaced that check by a
    weaker-looking one would accept them.  Class 'nonsquare-on-curve': canonical, nonnegative s whose discriminant
    u2*u1^2 is a NON-square, yet the decoding formulas evaluated with the root the square-root routine hands back
    (v^2 u2 u1^2 = zeta) still give a point ON the curve — so "is the result on the curve" does not subsume was_square."""
    out = []
    z = zeta
    oneS = [1, q - 1]                      # 1 - S
    onePS = [1, 1]                         # 1 + S
    u1sq = _pmul(oneS, oneS)
    u2 = _psub(u1sq, [0, 4 * D % q])
    ps2 = _pmul(onePS, onePS)
    # -4 S z^2 u2 + (1+S)^2 z u1^2 - u1^2 u2 - 4 d S z^3 (1+S)^2 = 0   (S = s^2)
    t1 = _pmul([0, (-4 * z * z) % q], u2)
    t2 = [c * z % q for c in _pmul(ps2, u1sq)]
    t3 = _pmul(u1sq, u2)
    t4 = _pmul([0, 4 * D * pow(z, 3, q) % q], ps2)
    n = max(len(t1), len(t2), len(t3), len(t4))
    f = [0] * n
    for t, sg in ((t1, 1), (t2, 1), (t3, -1), (t4, -1)):
        for i, c in enumerate(t):
            f[i] = (f[i] + sg * c) % q
    for S in poly_roots(f, rng):
        if S != 0 and leg(S) != 1:
            continue
        s = absq(sqrt(S))
        ss = s * s % q; u1 = (1 - ss) % q; uu2 = (u1 * u1 - 4 * D * ss) % q
        if leg(uu2 * u1 * u1 % q) == -1 or (uu2 * u1 * u1 % q != 0 and leg(uu2 * u1 * u1 % q) != 1):
            out.append(('nonsquare-on-curve', s))
    return out
