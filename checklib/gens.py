"""Generators and property oracles, one per property.  Everything random derives from the one `rng`."""
import re
import pymodel as M
from main import Case

q, r, p = M.q, M.r, M.p
ZERO32 = '00' * 32


def h32(x):
    return (x % (1 << 256)).to_bytes(32, 'little').hex()


def hN(x, n):
    return (x % (1 << (8 * n))).to_bytes(n, 'little').hex()


def hexb(bs):
    return bytes(bs).hex() if bs else '-'


# ------------------------------------------------------------------------------------------------
# shared pools

def special_fq(rng, n_random=8):
    zeta = M.zeta
    t = (q - 1) >> 47
    g = pow(zeta, t, q)
    vals = [0, 1, 2, 3, 4, 8, q - 1, q - 2, (q - 1) // 2, (q + 1) // 2, zeta, q - zeta, pow(zeta, 2, q), M.sqrt(q - 1),
            (1 << 32) - 1, (1 << 64) - 1, 1 << 64, 1 << 128, (1 << 128) - 1, 1 << 252, (1 << 252) - 1]
    for k in (0, 1, 2, 7, 8, 9, 15, 16, 23, 24, 31, 32, 39, 40, 45, 46, 47):
        vals.append(pow(g, 1 << (47 - k) if k <= 47 else 1, q))  # root of unity of order 2^k
    vals += [rng.randrange(q) for _ in range(n_random)]
    return [v % q for v in vals]


def special_mod(m, rng, n_random=6):
    vals = [0, 1, 2, m - 1, m - 2, (m - 1) // 2, (m + 1) // 2, (1 << 32) - 1, (1 << 64) - 1, 1 << 64, (1 << 64) + 1,
            1 << 127, (1 << 128) - 1, 1 << 192, (1 << 192) - 1, 3, 5, 7]
    vals += [rng.randrange(m) for _ in range(n_random)]
    vals += mont_special(m, rng)
    return [v % m for v in vals]


def mont_special(m, rng, n=10):
    """values whose INTERNAL representation (Montgomery form, radix 2^(64·limbs), the same integer in the 64- and the
    32-bit backend) has structured 32-bit words: all ones, zero, one, a single high bit — the operands on which a carry or
    borrow chain, a limb loop bound or a word-wise comparison goes wrong, and which are 2^-32-rare per word otherwise"""
    nl = (m.bit_length() + 63) // 64
    R = 1 << (64 * nl)
    rinv = pow(R, -1, m)
    words = 2 * nl
    topw = m >> (32 * (words - 1))
    out = []
    pats = [[0xffffffff] * words, [0] + [0xffffffff] * (words - 1), [2] + [0xffffffff] * (words - 1), [0xffffffff] + [0] * (words - 1),
            [1] + [0] * (words - 1), [0] * (words - 1) + [1], [0x80000000] * words]
    while len(pats) < n + 4:
        pats.append([rng.choice([0, 1, 0xffffffff, 0xfffffffe, 0x80000000, rng.getrandbits(32)]) for _ in range(words)])
    for p in pats:
        p = list(p)
        p[-1] = p[-1] % max(1, topw)          # keep the integer below the modulus without disturbing the lower words
        M_ = sum(w << (32 * i) for i, w in enumerate(p))
        if M_ < m:
            out.append(M_ * rinv % m)
    return out[:n]


def special_scalars(rng, n_random=6):
    vals = [0, 1, 2, r - 1, r - 2, (r - 1) // 2, (r + 1) // 2, 1 << 64, (1 << 64) - 1, 1 << 128, 1 << 250, (1 << 250) - 1,
            (1 << 192) - 1, 3]
    vals += [rng.randrange(r) for _ in range(n_random)]
    return [v % r for v in vals]


def structured_valid_s(rng, want):
    """valid encodings whose integer has structured 64-bit / 32-bit words (all ones, zero, a lone high bit): the values on
    which a hand-written carry / borrow chain or a byte mask in the conversion to bytes goes wrong"""
    out = []
    pats = []
    for w in range(4):
        for val in ((1 << 64) - 1, 0, 1 << 63, (1 << 32) - 1, 0xffffffff00000000):
            pats.append((w, val))
    rng.shuffle(pats)
    ones = (1 << 64) - 1
    pats = [(1, ones), (2, ones), (0, ones), (1, 0), (2, 0)] + [p_ for p_ in pats if p_ not in ((1, ones), (2, ones), (0, ones), (1, 0), (2, 0))]
    tries = 0
    k = 0
    while len(out) < want and tries < 4000:
        tries += 1
        w, val = pats[k % len(pats)]
        x = rng.randrange(q)
        x = (x & ~(((1 << 64) - 1) << (64 * w))) | (val << (64 * w))
        if w == 3:
            x &= (1 << 253) - 1
        if x & 1:
            x ^= 1
        if x < q and M.decode(x) is not None:
            out.append(x)
            k += 1                      # next pattern only once this one produced a valid encoding
    return out


def valid_encodings(rng, n):
    out = [0, 8]
    out += structured_valid_s(rng, max(2, n // 3))
    while len(out) < n:
        out.append(M.valid_s(rng))
    return out[:max(n, 4)]


def near_misses(rng, valid):
    """structured invalid / borderline 32-byte strings, as (class, bytes-hex)"""
    out = []
    for s in valid:
        out.append(('valid', h32(s)))
        if s + q < (1 << 256):
            out.append(('s+q', h32(s + q)))
        if s + 2 * q < (1 << 256):
            out.append(('s+2q', h32(s + 2 * q)))
        out.append(('q-s', h32((q - s) % q)))
        for bit in (0, 1, 7, 8, 63, 64, 128, 251, 252, 253, 254, 255):
            out.append(('bitflip%d' % bit, h32(s ^ (1 << bit))))
    for name, v in (('q-1', q - 1), ('q', q), ('q+1', q + 1), ('q-2', q - 2), ('2^253', 1 << 253), ('2^253-1', (1 << 253) - 1),
                    ('2^252', 1 << 252), ('2^254', 1 << 254), ('2^255', 1 << 255), ('all-ones', (1 << 256) - 1), ('1', 1), ('2', 2),
                    ('2q', 2 * q), ('2q+8', 2 * q + 8), ('q+8', q + 8), ('(q-1)/2', (q - 1) // 2), ('(q+1)/2', (q + 1) // 2)):
        out.append((name, h32(v)))
    # limb boundaries of the canonicity comparison: values that share q's top k limbs (64- and 32-bit) and differ just below, on
    # both sides of q; and the largest valid encodings (the ones a limb-wise comparison written top-down gets wrong first)
    for w in (32, 64):
        for k in range(1, 256 // w):
            hi = (q >> (w * k)) << (w * k)
            lo_q = q & ((1 << (w * k)) - 1)
            for lo in (0, 1, 2, lo_q - 2, lo_q - 1, lo_q, lo_q + 1, (1 << (w * k)) - 2, (1 << (w * k)) - 1, rng.getrandbits(w * k) & ~1):
                if 0 <= lo < (1 << (w * k)):
                    out.append(('limb-boundary%d' % w, h32(hi + lo)))
    found, v = 0, q - 1
    while found < 6 and v > q - 400:
        if M.decode(v) is not None:
            out.append(('largest-valid', h32(v)))
            found += 1
        v -= 1
    for _ in range(20):
        out.append(('random', h32(rng.getrandbits(256))))
    for _ in range(20):
        out.append(('random<q', h32(rng.randrange(q))))
    for _ in range(10):
        out.append(('random253', h32(rng.getrandbits(253))))
    # needles: strings failing exactly one decoding check, placed where a weaker-looking replacement of that check
    # ("the result is on the curve anyway") would let them through; computed by solving for them (pymodel.needles_decode)
    for c, sv in M.needles_decode(rng):
        out.append(('needle:' + c, h32(sv)))
    return out


def directed_exps(rng, tier):
    """2-primary discrete logs that exercise every window boundary of the table-driven square root"""
    top = (1 << 47) - 1
    es = [top, top - 1, top - 2, 1, 2, 3, 4, 1 << 46, (1 << 46) - 1, (1 << 46) + 1, 1 << 39, (1 << 39) - 1]
    for w in (0, 7, 8, 15, 16, 23, 24, 31, 32, 39, 40):
        for v in ((0xff, 0x80, 0x01, 0x7f) if tier == 'quick' else range(0, 256, 5)):
            es.append((v << w) % (1 << 47))
            es.append(((v << w) | 1) % (1 << 47))
    es += [rng.getrandbits(47) for _ in range(6 if tier == 'quick' else 100)]
    return sorted(set(es))


def crafted(kind, rng, tier):
    """(class, value) inputs of `kind` whose inner square-root ratio has a directed 2-primary component"""
    out = []
    es = directed_exps(rng, tier)
    if tier == 'quick':
        es = es[:6] + rng.sample(es[6:], 18) + [(1 << 47) - 1, (1 << 47) - 2]
    for e in es:
        v = M.craft(kind, e, rng)
        if v is not None:
            out.append(('crafted-2adic:%s' % ('top' if e >= (1 << 47) - 2 else ('odd' if e & 1 else 'even')), v))
    return out


def sqrt_premise_cases(rng, tier):
    """the four-case contract of the square root is a premise of every theorem about encode/decode/Elligator:
    its directed cases run with those properties too"""
    cs = [c for c in gen_C09(rng, 'quick') if c.line.startswith('f.fq.srz')]
    for c in cs:
        c.cls = 'premise:' + c.cls
    return cs


ADD_FORMS_ARK = ['pp_rr', 'pp_or', 'pp_ro', 'pp_oo', 'pp_asg_r', 'pp_asg_o', 'aa_rr', 'aa_or', 'aa_ro', 'aa_oo', 'aa_asg_r',
                 'aa_asg_o', 'pa_or', 'pa_oo', 'ap_oo', 'ap_or', 'pa_asg_r', 'pa_asg_o']
SUB_FORMS_ARK = ['pp_rr', 'pp_or', 'pp_ro', 'pp_oo', 'pp_asg_r', 'pp_asg_o', 'aa_rr', 'aa_or', 'aa_ro', 'aa_oo', 'aa_asg_r',
                 'aa_asg_o', 'pa_or', 'pa_oo', 'pa_asg_r', 'pa_asg_o']
NEG_FORMS_ARK = ['p', 'a', 'negate']
DBL_FORMS_ARK = ['double', 'in_place']
MUL_FORMS_ARK = ['pe_rr', 'ep_rr', 'pe_or', 'pe_ro', 'pe_oo', 'ep_or', 'ep_ro', 'ep_oo', 'p_asg_r', 'p_asg_o', 'ae_rr', 'ea_rr',
                 'ae_or', 'ae_ro', 'ae_oo', 'ea_or', 'ea_ro', 'ea_oo', 'a_asg_r', 'a_asg_o', 'bigint_p', 'bigint_a']
AFF_FORMS_ARK = ['into', 'into_ref', 'into_affine', 'into_group', 'normalize_batch', 'batch_convert', 'clear_cofactor', 'mul_by_cofactor']
SUM_FORMS_ARK = ['p_own', 'p_ref', 'a_own', 'a_ref']
MSM_FORMS_ARK = ['vartime', 'vartime_own', 'msm', 'msm_unchecked']
ENC_FORMS_ARK = ['compress', 'to_field', 'into_arr', 'into_enc', 'into_enc_ref', 'enc_into_arr', 'ser', 'ser_aff', 'ser_enc', 'ser_drip', 'ser_aff_drip', 'ser_enc_drip', 'ser_size', 'debug',
                 'display', 'debug_aff', 'display_aff', 'debug_enc']
DEC_FORMS_ARK = ['try_slice', 'enc_try_slice', 'decompress', 'decompress_deprecated', 'try_arr', 'try_enc', 'try_enc_ref', 'enc_from_arr',
                 'deser_elem', 'deser_aff', 'deser_enc', 'deser_elem_drip', 'deser_aff_drip', 'deser_enc_drip']
ISID_FORMS_ARK = ['is_identity', 'is_zero', 'eq_identity', 'eq_default', 'aff_is_zero', 'aff_eq_zero']
ID_FORMS_ARK = ['const', 'default', 'zero', 'aff_zero', 'aff_default']
GEN_FORMS_ARK = ['const', 'group', 'affine']

ADD_FORMS_MIN = ['pp_rr', 'pp_or', 'pp_ro', 'pp_oo', 'pp_asg_r', 'pp_asg_o']
SUB_FORMS_MIN = ADD_FORMS_MIN
MUL_FORMS_MIN = ['pe_rr', 'ep_rr', 'pe_or', 'pe_ro', 'pe_oo', 'ep_or', 'ep_ro', 'ep_oo', 'p_asg_r', 'p_asg_o', 'scalar_mul', 'scalar_mul_vartime']
ENC_FORMS_MIN = ['compress', 'to_field', 'into_arr', 'into_enc', 'into_enc_ref', 'enc_into_arr']
DEC_FORMS_MIN = ['try_slice', 'enc_try_slice', 'decompress', 'try_arr', 'try_enc', 'try_enc_ref', 'enc_from_arr']
ISID_FORMS_MIN = ['is_identity', 'eq_identity']


def forms(kind, build):
    return globals()['%s_FORMS_%s' % (kind, build.upper())]


class ProgGen:
    """builds straight-line programs; keeps the element 'closure' recipes of DESIGN §2.4"""

    def __init__(self, rng, encs):
        self.rng = rng
        self.encs = encs

    def base_elems(self):
        """list of (class, statements, register) producing one element in register `E`
        (registers are upper-case so that renaming can never touch hex strings or op names)"""
        rng = self.rng
        out = []
        out.append(('identity', ['E=id'], 'E'))
        out.append(('generator', ['E=gen'], 'E'))
        for s in self.encs[2:6]:
            out.append(('decoded', ['E=dec:%s' % h32(s)], 'E'))
        for _ in range(2):
            out.append(('elligator', ['E=ell:%s' % h32(rng.randrange(q))], 'E'))
        out.append(('elligator0', ['E=ell:%s' % h32(0)], 'E'))
        s = self.encs[2 + rng.randrange(len(self.encs) - 2)]
        s2 = self.encs[2 + rng.randrange(len(self.encs) - 2)]
        k = rng.randrange(r)
        # Z != 1
        out.append(('sum', ['A=dec:%s' % h32(s), 'B=dec:%s' % h32(s2), 'E=add:A,B'], 'E'))
        out.append(('double', ['A=dec:%s' % h32(s), 'E=dbl:A'], 'E'))
        out.append(('scalar-multiple', ['A=dec:%s' % h32(s), 'E=mul:A,%s' % h32(k)], 'E'))
        # the other member of the coset, when r*Q = T2:  (-1)*Q  vs  -Q
        out.append(('(r-1)*Q', ['A=dec:%s' % h32(s), 'E=mul:A,%s' % h32(r - 1)], 'E'))
        out.append(('-((r-1)*Q)', ['A=dec:%s' % h32(s), 'B=mul:A,%s' % h32(r - 1), 'E=neg:B'], 'E'))
        out.append(('P+Q-Q', ['A=dec:%s' % h32(s), 'B=dec:%s' % h32(s2), 'C=add:A,B', 'E=sub:C,B'], 'E'))
        # Z = 1 and yet the non-canonical member of the coset: the negation of a freshly decoded point is (-x, y, 1, -t),
        # while decoding its encoding gives (x, -y, 1, -t)
        out.append(('neg-decoded', ['A=dec:%s' % h32(s), 'E=neg:A'], 'E'))
        out.append(('neg-generator', ['A=gen', 'E=neg:A'], 'E'))
        # identity representatives
        out.append(('Q+(r-1)*Q', ['A=dec:%s' % h32(s), 'B=mul:A,%s' % h32(r - 1), 'E=add:A,B'], 'E'))
        out.append(('Q-Q', ['A=dec:%s' % h32(s), 'E=sub:A,A'], 'E'))
        out.append(('B+(r-1)*B', ['A=gen', 'B=mul:A,%s' % h32(r - 1), 'E=add:A,B'], 'E'))
        out.append(('affine-roundtrip', ['A=dec:%s' % h32(s), 'B=dbl:A', 'E=add:B,A'], 'E'))
        out.append(('2*(half)', ['A=dec:%s' % h32(s), 'B=mul:A,%s' % h32((r + 1) // 2), 'E=dbl:B'], 'E'))
        return out

    def two(self, A, B):
        """statements computing element A into X and B into Y"""
        return rename(A[1], 'X') + rename(B[1], 'Y')


def rename(stmts, pre):
    """prefix every (upper-case) register; the result register E becomes `pre` itself"""
    out = []
    for st in stmts:
        st = re.sub(r'[A-Z]', lambda m: pre if m.group() == 'E' else pre + m.group(), st)
        out.append(st)
    return out


def prog(stmts):
    return 'prog ' + ';'.join(stmts)


def expect(val):
    def f(out, bld):
        return None if out == val else 'expected %s' % val
    return f


def expect_fields(pred, what):
    def f(out, bld):
        try:
            return None if pred(out.split(' ')) else what
        except Exception as ex:
            return '%s (%r)' % (what, ex)
    return f


# ------------------------------------------------------------------------------------------------
# C01 round trips

# properties whose compared observables are canonical and whose model values are the specified ones by theorem: a
# disagreement between implementation and model on a line is then a concrete failing input of the property.  Not so
# for C09 (which root), C14 (values under forged hints are unspecified), C15 (observation only).
MODEL_IS_SPEC = {'C01', 'C02', 'C03', 'C04', 'C05', 'C06', 'C07', 'C08', 'C10', 'C11', 'C12', 'C13', 'C16'}


def gen_C01(rng, tier):
    n = 12 if tier == 'quick' else 120
    encs = valid_encodings(rng, n)
    cases = []
    # every 32-byte string: enc(dec(b)) == b whenever dec succeeds
    for cls, b in near_misses(rng, encs if tier == 'thorough' else encs[:8]):
        def orc(out, bld, b=b):
            if out.startswith('err-enc'):
                return None
            return None if out == b else 'enc(dec(b)) != b'
        cases.append(Case(prog(['r1=dec.decompress:%s' % b, 'enc.compress:r1']), cls='bytes:' + cls, oracle=orc,
                          spec='spec.dec %s' % b))
    for cls, sv in crafted('dec', rng, tier):
        b = h32(sv)
        def orc(out, bld, b=b):
            if out.startswith('err-enc'):
                return None
            return None if out == b else 'enc(dec(b)) != b'
        cases.append(Case(prog(['r1=dec.decompress:%s' % b, 'enc.compress:r1']), cls='bytes:' + cls, oracle=orc, spec='spec.dec %s' % b))
    cases += sqrt_premise_cases(rng, tier)
    # every obtainable element: dec(enc(P)) == P, and the re-encoding is stable
    pg = ProgGen(rng, encs)
    reps = 1 if tier == 'quick' else 6
    for _ in range(reps):
        for cls, stmts, reg in pg.base_elems():
            cases.append(Case(prog(stmts + ['d=redec:E', 'eq:d,E', 'enc:E', 'enc:d']), cls='elem:' + cls,
                              oracle=expect_fields(lambda f: f[0] == '1' and f[1] == f[2], 'dec(enc(P)) != P')))
    # random programs
    for _ in range(20 if tier == 'quick' else 300):
        st = random_program(rng, encs, 'min', rng.randrange(3, 12))
        cases.append(Case(prog(st + ['d=redec:E', 'eq:d,E', 'enc:E', 'enc:d']), cls='elem:random-program',
                          oracle=expect_fields(lambda f: f[0] == '1' and f[1] == f[2], 'dec(enc(P)) != P')))
    return cases


def random_program(rng, encs, build, length, mixforms=False):
    """straight-line program over registers v0..; result in `e`"""
    stmts = []
    nreg = 0

    def new():
        nonlocal nreg
        nreg += 1
        return 'v%d' % (nreg - 1)
    # seeds
    for _ in range(2):
        k = rng.randrange(5)
        rg = new()
        if k == 0:
            stmts.append('%s=gen' % rg)
        elif k == 1:
            stmts.append('%s=id' % rg)
        elif k == 2:
            stmts.append('%s=ell:%s' % (rg, h32(rng.randrange(q))))
        else:
            stmts.append('%s=dec:%s' % (rg, h32(encs[rng.randrange(len(encs))])))
    for _ in range(length):
        a = 'v%d' % rng.randrange(nreg)
        b = 'v%d' % rng.randrange(nreg)
        rg = new()
        k = rng.randrange(8)
        f = (lambda kind: '.' + rng.choice(forms(kind, build))) if mixforms else (lambda kind: '')
        if k <= 1:
            stmts.append('%s=add%s:%s,%s' % (rg, f('ADD'), a, b))
        elif k == 2:
            stmts.append('%s=sub%s:%s,%s' % (rg, f('SUB'), a, b))
        elif k == 3:
            stmts.append('%s=neg%s:%s' % (rg, ('.' + rng.choice(NEG_FORMS_ARK)) if (mixforms and build == 'ark') else '', a))
        elif k == 4:
            stmts.append('%s=dbl%s:%s' % (rg, ('.' + rng.choice(DBL_FORMS_ARK)) if (mixforms and build == 'ark') else '', a))
        elif k == 5:
            sc = rng.choice([0, 1, 2, r - 1, rng.randrange(r), rng.randrange(1 << 16), 1 << 64, 1 << 128, (1 << 192) + 5, rng.getrandbits(60) << 128])
            stmts.append('%s=mul%s:%s,%s' % (rg, f('MUL'), a, h32(sc)))
        elif k == 6 and build == 'ark':
            stmts.append('%s=aff%s:%s' % (rg, ('.' + rng.choice(AFF_FORMS_ARK)) if mixforms else '', a))
        else:
            stmts.append('%s=add%s:%s,%s' % (rg, f('ADD'), a, b))
    stmts.append('E=add:v%d,v%d' % (nreg - 1, rng.randrange(nreg)))
    return stmts


# ------------------------------------------------------------------------------------------------
# C02 decoding accepts exactly the canonical encodings

def gen_C02(rng, tier):
    n = 10 if tier == 'quick' else 100
    encs = valid_encodings(rng, n)
    cases = []
    nm = near_misses(rng, encs if tier == 'thorough' else encs[:6])
    for cls, b in nm:
        for bld, fl in (('ark', DEC_FORMS_ARK), ('min', DEC_FORMS_MIN)):
            for form in fl:
                cases.append(Case(prog(['r1=dec.%s:%s' % (form, b), 'enc:r1']), builds=(bld,), cls='%s:%s' % (form, cls),
                                  spec='spec.dec %s' % b,
                                  oracle=lambda out, bld: 'decoding panicked' if out in ('panic', 'crash') else None))
    for cls, sv in crafted('dec', rng, tier):
        for bld, form in (('ark', 'decompress'), ('ark', 'deser_elem'), ('min', 'decompress')):
            cases.append(Case(prog(['r1=dec.%s:%s' % (form, h32(sv)), 'enc:r1']), builds=(bld,), cls='%s:%s' % (form, cls), spec='spec.dec %s' % h32(sv),
                              oracle=lambda out, bld: 'decoding panicked' if out in ('panic', 'crash') else None))
    cases += sqrt_premise_cases(rng, tier)
    # slice lengths 0..80
    base = bytes.fromhex(h32(encs[3]))
    for ln in list(range(0, 81)):
        bs = (base + bytes(rng.getrandbits(8) for _ in range(48)))[:ln]
        for bld, fl in (('ark', ['try_slice', 'enc_try_slice', 'deser_elem', 'deser_aff', 'deser_enc']), ('min', ['try_slice', 'enc_try_slice'])):
            for form in fl:
                if form.startswith('deser'):
                    # stream deserialisers read exactly 32 bytes: shorter is a length (io) error, longer is fine
                    exp = 'err-len' if ln < 32 else None
                else:
                    exp = 'err-len' if ln != 32 else None
                orc = (lambda out, bld, exp=exp: (None if out == exp else 'expected %s' % exp)) if exp else None
                cases.append(Case(prog(['r1=dec.%s:%s' % (form, hexb(bs)), 'enc:r1']), builds=(bld,), cls='%s:len%s' % (form, 'lt32' if ln < 32 else ('eq32' if ln == 32 else 'gt32')),
                                  oracle=orc, nomodel=form.startswith('deser') and ln != 32))
    return cases


# ------------------------------------------------------------------------------------------------
# C03 encoding depends only on the element, equals the specification

def gen_C03(rng, tier):
    encs = valid_encodings(rng, 10 if tier == 'quick' else 60)
    pg = ProgGen(rng, encs)
    cases = []
    reps = 1 if tier == 'quick' else 5
    for _ in range(reps):
        for cls, stmts, reg in pg.base_elems():
            for bld, fl in (('ark', ENC_FORMS_ARK), ('min', ENC_FORMS_MIN)):
                outs = ['enc.%s:E' % f for f in fl]
                def orc(out, bld):
                    f = out.split(' ')
                    if len(set(f)) != 1:
                        return 'encoding forms disagree'
                    if len(f[0]) != 64 or int(f[0][62:64], 16) >> 5 != 0:
                        return 'top three bits not clear'
                    return None
                cases.append(Case(prog(stmts + outs), builds=(bld,), cls='forms:' + cls, oracle=orc,
                                  spec=prog(stmts + ['specenc:E'] * len(fl))))
            # re-representations of the same element encode identically
            rere = [('P+Q-Q', ['g=gen', 't=add:E,g', 'f=sub:t,g']), ('-(-P)', ['t=neg:E', 'f=neg:t']),
                    ('2*(P/2)', ['t=mul:E,%s' % h32((r + 1) // 2), 'f=dbl:t']),
                    ('(r-1)*(-P)', ['t=neg:E', 'f=mul:t,%s' % h32(r - 1)]), ('redec', ['f=redec:E'])]
            for rc, st in rere:
                cases.append(Case(prog(stmts + st + ['enc:E', 'enc:f', 'eq:E,f']), cls='rerep:%s:%s' % (rc, cls),
                                  oracle=expect_fields(lambda f: f[0] == f[1] and f[2] == '1', 'same element, different encoding')))
            cases.append(Case(prog(stmts + ['f=aff:E', 'enc:E', 'enc:f', 'eq:E,f']), builds=('ark',), cls='rerep:affine:%s' % cls,
                              oracle=expect_fields(lambda f: f[0] == f[1] and f[2] == '1', 'same element, different encoding')))
    cases += sqrt_premise_cases(rng, tier)
    # unequal elements encode differently
    be = pg.base_elems()
    for _ in range(15 if tier == 'quick' else 150):
        A, B = rng.choice(be), rng.choice(be)
        cases.append(Case(prog(pg.two(A, B) + ['eq:X,Y', 'enc:X', 'enc:Y']), cls='injective',
                          oracle=expect_fields(lambda f: (f[0] == '1') == (f[1] == f[2]), 'eq and encoding-equality differ')))
    return cases


# ------------------------------------------------------------------------------------------------
# C04 group law in every operator form

def gen_C04(rng, tier):
    encs = valid_encodings(rng, 10 if tier == 'quick' else 40)
    pg = ProgGen(rng, encs)
    be = pg.base_elems()
    cases = []
    pairs = []
    ids = [e for e in be if e[0] in ('identity', 'Q+(r-1)*Q', 'Q-Q', 'B+(r-1)*B')]
    for _ in range(6 if tier == 'quick' else 40):
        pairs.append((rng.choice(be), rng.choice(be)))
    for a in ids:
        for b2 in ids[:2]:
            pairs.append((a, b2))
    P = rng.choice([e for e in be if e[0] == 'decoded'])
    pairs += [(P, P), (P, (P[0] + '-neg', P[1] + ['E=neg:E'], 'E')), (P, ('other-coset', P[1] + ['a=mul:E,%s' % h32(r - 1), 'E=neg:a'], 'E'))]
    # the same group element on both sides, held in different representations (re-decoded = the canonical coset member with
    # Z = 1; (-1)*(-Q) = a recomputed one): where dedicated / mixed addition formulas degenerate (seed C04_r8)
    for E in (be if tier != 'quick' else rng.sample(be, min(len(be), 6))):
        pairs.append((E, (E[0] + '-redec', E[1] + ['E=redec:E'], 'E')))
        pairs.append(((E[0] + '-redec', E[1] + ['E=redec:E'], 'E'), (E[0] + '-recomputed', E[1] + ['a=mul:E,%s' % h32(r - 1), 'E=neg:a'], 'E')))
    for A, B in pairs:
        st = pg.two(A, B)
        for bld in ('ark', 'min'):
            for kind, op in (('ADD', 'add'), ('SUB', 'sub')):
                fl = forms(kind, bld)
                regs = ['z%d=%s.%s:X,Y' % (i, op, f) for i, f in enumerate(fl)]
                outs = ['enc:z%d' % i for i in range(len(fl))]
                cases.append(Case(prog(st + regs + outs), builds=(bld,), cls='%s-forms:%s|%s' % (op, A[0], B[0]),
                                  oracle=lambda out, bld: None if len(set(out.split(' '))) == 1 and len(out) >= 64 else 'operator forms disagree',
                                  sig='forms:%s:%s' % (op, bld)))
        # laws
        cases.append(Case(prog(st + ['i=id', 's=add:X,Y', 't=add:Y,X', 'eq:s,t', 'u=add:X,i', 'eq:u,X', 'v=sub:X,X', 'isid:v', 'w=sub:s,Y', 'eq:w,X',
                                     'n=neg:Y', 'm=add:X,n', 'k=sub:X,Y', 'eq:m,k', 'd=dbl:X', 'dd=add:X,X', 'eq:d,dd']), cls='laws:%s|%s' % (A[0], B[0]),
                          oracle=expect('1 1 1 1 1 1')))
    # unary forms (ark)
    for A in be:
        regs = ['n%d=neg.%s:E' % (i, f) for i, f in enumerate(NEG_FORMS_ARK)] + ['d%d=dbl.%s:E' % (i, f) for i, f in enumerate(DBL_FORMS_ARK)]
        outs = ['eq:n0,n1', 'eq:n0,n2', 'eq:d0,d1', 'dd=add:E,E', 'eq:d0,dd', 'z=add:E,n0', 'isid:z']
        cases.append(Case(prog(A[1] + regs + outs), builds=('ark',), cls='unary-forms:' + A[0], oracle=expect('1 1 1 1 1')))
    # sums over iterators
    for _ in range(4 if tier == 'quick' else 30):
        k = rng.randrange(0, 5)
        regs = []
        names = []
        for i in range(k):
            E = rng.choice(be)
            regs += rename(E[1], 'Q%d' % i)
            names.append('Q%d' % i)
        sums = ['s%d=sum.%s:%s' % (i, f, ','.join(names)) for i, f in enumerate(SUM_FORMS_ARK)]
        cases.append(Case(prog(regs + sums + ['enc:s%d' % i for i in range(len(SUM_FORMS_ARK))]), builds=('ark',), cls='sum:%d' % k,
                          oracle=lambda out, bld: None if len(set(out.split(' '))) == 1 else 'Sum forms disagree'))
        cases.append(Case(prog(regs + ['s=sum:%s' % ','.join(names), 'enc:s']), builds=('min',), cls='sum:%d' % k))
    # associativity on triples
    for _ in range(5 if tier == 'quick' else 50):
        A, B, C = rng.choice(be), rng.choice(be), rng.choice(be)
        st = pg.two(A, B) + rename(C[1], 'Z')
        cases.append(Case(prog(st + ['l=add:X,Y', 'l2=add:l,Z', 'm=add:Y,Z', 'm2=add:X,m', 'eq:l2,m2', 'enc:l2', 'enc:m2']), cls='assoc',
                          oracle=expect_fields(lambda f: f[0] == '1' and f[1] == f[2], 'not associative')))
    # random programs mixing all forms
    for bld in ('ark', 'min'):
        for _ in range(15 if tier == 'quick' else 300):
            st = random_program(rng, encs, bld, rng.randrange(5, 30 if tier == 'quick' else 60), mixforms=True)
            cases.append(Case(prog(st + ['enc:E']), builds=(bld,), cls='random-program'))
    return cases


# ------------------------------------------------------------------------------------------------
# C05 scalar multiplication

def limbs_of(k, n=None):
    out = []
    while k or (n is not None and len(out) < n):
        out.append(k & ((1 << 64) - 1))
        k >>= 64
        if n is not None and len(out) >= n and k == 0:
            break
    return out or [0]


def gen_C05(rng, tier):
    encs = valid_encodings(rng, 8 if tier == 'quick' else 30)
    pg = ProgGen(rng, encs)
    be = pg.base_elems()
    scal = special_scalars(rng, 4 if tier == 'quick' else 20)
    cases = []
    elems = be if tier == 'thorough' else [e for e in be if e[0] in ('generator', 'identity', 'decoded', '(r-1)*Q', 'sum', 'Q+(r-1)*Q')]
    for E in elems:
        for k in (scal if tier == 'thorough' else rng.sample(scal, 6) + [0, 1, r - 1]):
            for bld in ('ark', 'min'):
                fl = forms('MUL', bld)
                regs = ['z%d=mul.%s:E,%s' % (i, f, h32(k)) for i, f in enumerate(fl)]
                cases.append(Case(prog(E[1] + regs + ['enc:z%d' % i for i in range(len(fl))]), builds=(bld,), cls='mul-forms:%s' % E[0],
                                  oracle=lambda out, bld: None if len(set(out.split(' '))) == 1 and len(out) >= 64 else 'scalar-multiplication forms disagree'))
        # integers of arbitrary length
        for ls in ([0], [1], [5], [0, 1], [(1 << 64) - 1] * 4, limbs_of(r), limbs_of(r + 1), limbs_of(2 * r), limbs_of(r, 5), [1, 0, 0, 0, 0, 0],
                   limbs_of(rng.getrandbits(320)), limbs_of(rng.getrandbits(500)), limbs_of(rng.getrandbits(576), 9), [0, 0, 0, 0, 1]):
            lim = '+'.join(map(str, ls))
            cases.append(Case(prog(E[1] + ['z=mulbig.p:E,%s' % lim, 'w=mulbig.a:E,%s' % lim, 'enc:z', 'enc:w']), builds=('ark',), cls='mulbig:%dlimbs' % len(ls),
                              oracle=expect_fields(lambda f: f[0] == f[1], 'mul_bigint forms disagree')))
            cases.append(Case(prog(E[1] + ['z=mulbig.scalar_mul:E,%s' % lim, 'w=mulbig.scalar_mul_vartime:E,%s' % lim, 'enc:z', 'enc:w']), builds=('min',),
                              cls='mulbig:%dlimbs' % len(ls), oracle=expect_fields(lambda f: f[0] == f[1], 'constant-time and variable-time ladder disagree')))
        # r * P = identity
        lim = '+'.join(map(str, limbs_of(r)))
        cases.append(Case(prog(E[1] + ['z=mulbig:E,%s' % lim, 'isid:z', 'i=id', 'eq:z,i']), cls='order:%s' % E[0], oracle=expect('1 1')))
        # module laws
        a, b2 = rng.randrange(r), rng.randrange(r)
        cases.append(Case(prog(E[1] + ['u=mul:E,%s' % h32(a), 'v=mul:E,%s' % h32(b2), 'w=add:u,v', 's=mul:E,%s' % h32((a + b2) % r), 'eq:w,s',
                                       't=mul:u,%s' % h32(b2), 'p=mul:E,%s' % h32(a * b2 % r), 'eq:t,p', 'o=mul:E,%s' % h32(1), 'eq:o,E', 'n=mul:E,%s' % h32(0), 'isid:n',
                                       'm=mul:E,%s' % h32(r - 1), 'ne=neg:E', 'eq:m,ne']), cls='module-laws:%s' % E[0], oracle=expect('1 1 1 1 1')))
    # generator has order exactly r: B != identity (r prime)
    cases.append(Case(prog(['E=gen', 'isid:E', 'z=mulbig:E,%s' % '+'.join(map(str, limbs_of(r))), 'isid:z']), cls='generator-order', oracle=expect('0 1')))
    # multiscalar
    for _ in range(6 if tier == 'quick' else 60):
        n = rng.randrange(0, 6)
        regs, kv, terms = [], [], []
        for i in range(n):
            s = encs[rng.randrange(len(encs))]
            k = rng.choice(scal)
            regs.append('q%d=dec:%s' % (i, h32(s)))
            kv += ['q%d' % i, h32(k)]
            regs.append('t%d=mul:q%d,%s' % (i, i, h32(k)))
            terms.append('t%d' % i)
        ms = ['m%d=msm.%s:%s' % (i, f, ','.join(kv)) for i, f in enumerate(MSM_FORMS_ARK)]
        cases.append(Case(prog(regs + ms + ['s=sum:%s' % ','.join(terms)] + ['eq:s,m%d' % i for i in range(len(MSM_FORMS_ARK))] + ['enc:s']),
                          builds=('ark',), cls='msm:%d' % n, oracle=expect_fields(lambda f: f[:4] == ['1'] * 4, 'multiscalar != sum of products')))
        cases.append(Case(prog(regs + ['m=msm:%s' % ','.join(kv), 's=sum:%s' % ','.join(terms), 'eq:s,m', 'enc:s']), builds=('min',), cls='msm:%d' % n))
    return cases


# ------------------------------------------------------------------------------------------------
# C06 constructors

def gen_C06(rng, tier):
    cases = []
    v = lambda stmts: prog(stmts + ['valid:E'])
    for f in GEN_FORMS_ARK:
        cases.append(Case(v(['E=gen.%s' % f]), builds=('ark',), cls='const:gen.' + f, oracle=expect('valid'), nomodel=True))
    for f in ID_FORMS_ARK:
        cases.append(Case(v(['E=id.%s' % f]), builds=('ark',), cls='const:id.' + f, oracle=expect('valid'), nomodel=True))
    n = 60 if tier == 'quick' else 1200
    for i in range(n):
        kind = rng.choice(['chacha', 'chacha', 'const', 'stuck', 'stuck'])
        form = rng.choice(['elem', 'aff', 'uniform', 'uniform_aff'])
        def orc(out, bld):
            if out == 'panic':
                return None      # draw budget exhausted on a degenerate stream: no output, not a failure
            return None if out == 'valid' else 'sampler returned an invalid element'
        sd = rng.getrandbits(32)
        if kind == 'stuck':
            # a generator stuck on a small word for 50..6000 calls, then recovering
            sd = rng.randrange(64) | (rng.choice([50, 300, 1000, 1300, 2000, 3000, 6000]) << 8)
        cases.append(Case(v(['E=rand.%s:%s,%d' % (form, kind, sd)]), builds=('ark',), cls='rand:%s:%s' % (form, kind), oracle=orc, nomodel=True))
    # from_random_bytes over structured and random strings of length 0..64
    strs = []
    for ln in range(0, 65):
        strs.append(bytes(rng.getrandbits(8) for _ in range(ln)))
    for y in [0, 1, 2, q - 1, 8, M.sqrt(q - 1)] + [rng.randrange(q) for _ in range(40 if tier == 'quick' else 600)]:
        strs.append(y.to_bytes(32, 'little'))
    for pt in [M.randpoint() for _ in range(10 if tier == 'quick' else 100)]:
        strs.append(pt[1].to_bytes(32, 'little'))
    for bs in strs:
        def orc(out, bld):
            if out == 'none':
                return None
            return None if out.startswith('valid ') else 'from_random_bytes handed out a point outside the group'
        cases.append(Case(prog(['E=frb:%s' % hexb(bs), 'valid:E', 'enc:E']), builds=('ark',), cls='from_random_bytes:len%d' % len(bs), oracle=orc, sig='from_random_bytes'))
    # hash-to-group as a constructor, both builds, incl. dependent inputs (equal / negated / zero: where a dedicated addition
    # degenerates to (0:0:0:0), which compares equal to everything — so validity also demands that equality with the
    # generator agrees with equality of encodings; seed C07_r8)
    hv = special_fq(rng, 4 if tier == 'quick' else 40)
    hp = []
    for a in hv:
        hp += [(a, rng.choice(hv)), (a, a), (a, (q - a) % q), (a, 0)]
    for a, b2 in hp:
        def orc(out, bld):
            f = out.split(' ')
            ok = len(f) == 5 and f[0] == '1' and f[1] == '1' and ((f[2] == '1') == (f[3] == f[4]))
            return None if ok else 'hash-to-group handed out an invalid element'
        cases.append(Case(prog(['E=h2c:%s,%s' % (h32(a), h32(b2)), 'f=redec:E', 'eq:E,f', 'n=mul:E,%s' % h32(r - 1), 'm=add:n,E', 'isid:m', 'g=gen', 'eq:E,g', 'enc:E', 'enc:g']),
                          cls='hash-to-group:' + ('equal' if a == b2 else 'negated' if (a + b2) % q == 0 else 'zero' if b2 == 0 else 'independent'), oracle=orc))
    # decoding entry points as constructors, both builds (the arkworks forms are also covered by `valid:` below): whatever is
    # handed out must re-decode to itself, have order dividing r, and compare with the generator exactly as its encoding does
    # (a degenerate (0:0:1:0) compares equal to everything; seed C06_r9: the minimal decoder accepting s = q-1)
    for cls, b in near_misses(rng, valid_encodings(rng, 6)[:4] if tier == 'quick' else valid_encodings(rng, 20)):
        for bld, forms_ in (('ark', DEC_FORMS_ARK[:3] if tier == 'quick' else DEC_FORMS_ARK), ('min', DEC_FORMS_MIN[:3] if tier == 'quick' else DEC_FORMS_MIN)):
            for form in forms_:
                def orc(out, bld_):
                    f = out.split(' ')
                    if out.startswith('err-') or out in ('panic',):
                        return None if out.startswith('err-') else 'decoder panicked'
                    ok = len(f) == 5 and f[0] == '1' and f[1] == '1' and ((f[2] == '1') == (f[3] == f[4]))
                    return None if ok else 'decoder handed out an invalid element'
                cases.append(Case(prog(['E=dec.%s:%s' % (form, b), 'f=redec:E', 'eq:E,f', 'n=mul:E,%s' % h32(r - 1), 'm=add:n,E', 'isid:m', 'g=gen', 'eq:E,g', 'enc:E', 'enc:g']),
                                  builds=(bld,), cls='decode-constructor:%s:%s' % (bld, cls), oracle=orc))
    # conversions preserve validity
    encs = valid_encodings(rng, 8)
    pg = ProgGen(rng, encs)
    for E in pg.base_elems():
        for f in AFF_FORMS_ARK:
            cases.append(Case(prog(E[1] + ['f=aff.%s:E' % f, 'valid:f', 'eq:E,f']), builds=('ark',), cls='conv:' + f, oracle=expect('valid 1'), nomodel=True))
    # whole batches through normalize_batch / batch_convert_to_mul_base: every position, batches containing identities
    # with Z != 1 (P - P, 0 * P), the 2-torsion representative, repeated entries, length 1
    s1, s2 = h32(encs[2]), h32(encs[3])
    pool = [('P', ['P=dec:%s' % s1]), ('Q', ['Q=dec:%s' % s2]), ('S', ['P=dec:%s' % s1, 'Q=dec:%s' % s2, 'S=add:P,Q']),
            ('Z', ['P=dec:%s' % s1, 'Z=sub:P,P']), ('K', ['P=dec:%s' % s1, 'K=mul:P,%s' % h32(0)]),
            ('T', ['G=gen', 'H=mul:G,%s' % h32(r - 1), 'T=add:G,H']), ('I', ['I=id']), ('D', ['Q=dec:%s' % s2, 'D=dbl:Q'])]
    batches = [['P'], ['Z'], ['P', 'Z'], ['Z', 'P'], ['S', 'Z', 'D'], ['S', 'D', 'Z'], ['S', 'K', 'D', 'T'], ['D', 'T', 'S'], ['I', 'S', 'Z'], ['S', 'S', 'Z', 'S'],
               ['P', 'Q', 'S', 'D']]
    for _ in range(4 if tier == 'quick' else 40):
        batches.append([rng.choice('PQSZKTID') for _ in range(rng.randrange(2, 7))])
    pd = dict(pool)
    for bt in batches:
        stm = []
        for name in bt:
            for st_ in pd[name]:
                if st_ not in stm:
                    stm.append(st_)
        for fop in ('nbat', 'bconv'):
            outs = []
            for i, name in enumerate(bt):
                outs += ['R%d=%s.%d:%s' % (i, fop, i, ','.join(bt)), 'valid:R%d' % i, 'eq:R%d,%s' % (i, name)]
            cases.append(Case(prog(stm + outs), builds=('ark',), cls='batch:%s:%d' % (fop, len(bt)),
                              oracle=lambda out, bld: None if all(t in ('valid', '1') for t in out.split(' ')) else 'batch conversion handed out an invalid or different element'))
    # deserialisers
    for cls, b in near_misses(rng, encs[:4]):
        for f in ('deser_elem', 'deser_aff', 'try_slice'):
            def orc(out, bld):
                return None if out in ('valid', 'err-enc', 'err-len') else 'deserialiser handed out an invalid element'
            cases.append(Case(v(['E=dec.%s:%s' % (f, b)]), builds=('ark',), cls='deser:%s' % f, oracle=orc, nomodel=True))
    # the remaining (Compress, Validate) modes of the stream deserialisers are public constructors too.  On the pinned
    # tree they are `unimplemented!()` (the model says `panic`); should they ever hand out something, it must be a
    # valid element.  Inputs: 32-byte encodings and 64-byte x||y of curve points inside and outside the group.
    def xy64(P):
        return hexb(P[0].to_bytes(32, 'little') + P[1].to_bytes(32, 'little'))
    i4 = M.sqrt(q - 1)
    pts = [('identity', (0, 1)), ('t2', (0, q - 1)), ('order4', (i4, 0)), ('order4neg', (q - i4, 0))]
    for _ in range(3 if tier == 'quick' else 20):
        P = M.randpoint()
        ev = M.leg(1 - M.d * P[0] * P[0]) == 1
        pts.append(('even' if ev else 'odd', P))
        Q = M.add(P, (i4, 0))
        pts.append(('odd' if ev else 'even', Q))
        pts.append(('off-curve', (P[0], (P[1] + 1) % q)))
        pts.append(('swapped', (P[1], P[0])))
    blobs = [('xy:' + c, xy64(P)) for c, P in pts] + [('yx:' + c, xy64((P[1], P[0]))) for c, P in pts[:6]]
    blobs += [('enc32', h32(s)) for s in encs[:3]] + [('enc32+pad', h32(s) + '00' * 32) for s in encs[:2]] + [('random64', hexb(bytes(rng.getrandbits(8) for _ in range(64))))]
    for cls, b in blobs:
        for f in ('deser_elem_unc', 'deser_elem_unchecked', 'deser_elem_unc_unchecked', 'deser_aff_unc', 'deser_aff_unchecked', 'deser_aff_unc_unchecked'):
            def orc(out, bld):
                return None if out in ('valid', 'err-enc', 'err-len', 'panic') else 'deserialiser mode handed out an invalid element'
            cases.append(Case(v(['E=dec.%s:%s' % (f, b)]), builds=('ark',), cls='deser-mode:%s:%s' % (f, cls.split(':')[0]), oracle=orc, mw=False))
    return cases


# ------------------------------------------------------------------------------------------------
# C07 Elligator

def gen_C07(rng, tier):
    cases = []
    vals = special_fq(rng, 20 if tier == 'quick' else 400)
    # the eight sage vectors (inputs)
    tagged = [('special' if i < len(vals) - (20 if tier == 'quick' else 400) else 'uniform', v) for i, v in enumerate(vals)] + crafted('ell', rng, tier)
    for cls, r0 in tagged:
        cases.append(Case(prog(['E=ell:%s' % h32(r0), 'enc:E', 'n=ell:%s' % h32((q - r0) % q), 'eq:E,n', 'd=redec:E', 'eq:d,E']), cls='elligator:' + cls,
                          spec='spec.ell3 %s' % h32(r0)))
        vals.append(r0)
    cases += sqrt_premise_cases(rng, tier)
    h2c_pairs = [('independent', rng.choice(vals), rng.choice(vals)) for _ in range(10 if tier == 'quick' else 200)]
    # dependent inputs: the two one-input images are the same element (r2 = ±r1) or inverse to each other is impossible, but
    # equal images are where a dedicated (non-unified) addition degenerates (seed C07_r8); also one image the identity (r = 0)
    for a in rng.sample(vals, min(len(vals), 6 if tier == 'quick' else 60)) + [0, 1]:
        h2c_pairs += [('equal', a, a), ('negated', a, (q - a) % q), ('with-zero', a, 0), ('zero-with', 0, a)]
    # algebraically related inputs (r2 a simple function of r1, in either position): where a shortcut keyed on a relation between
    # the two inputs would fire (seed C07_r12: `r1^2 == r2` for `r1^2 == r2^2`)
    inv = lambda x: pow(x, q - 2, q)
    for a in rng.sample(vals, min(len(vals), 4 if tier == 'quick' else 40)) + [2, 3, q - 5]:
        for name, b in (('square', a * a % q), ('neg-square', (q - a * a) % q), ('inverse', inv(a)), ('double', 2 * a % q), ('succ', (a + 1) % q),
                        ('zeta-multiple', M.zeta * a % q), ('cube', pow(a, 3, q)), ('fourth', pow(a, 4, q))):
            h2c_pairs += [('related:' + name, a, b), ('related:' + name + ':swapped', b, a)]
    for cls, a, b in h2c_pairs:
        cases.append(Case(prog(['h=h2c:%s,%s' % (h32(a), h32(b)), 'X=ell:%s' % h32(a), 'Y=ell:%s' % h32(b), 's=add:X,Y', 'eq:h,s', 'enc:h', 'enc:s', 'd=dbl:X', 'enc:d']),
                          cls='hash_to_curve:' + cls,
                          oracle=expect_fields(lambda f, cls=cls: f[0] == '1' and f[1] == f[2] and (cls not in ('equal', 'negated') or f[1] == f[3]),
                                               'hash_to_curve != elligator + elligator')))
    return cases


# ------------------------------------------------------------------------------------------------
# C08 equality / hashing / identity predicates

def gen_C08(rng, tier):
    encs = valid_encodings(rng, 10 if tier == 'quick' else 40)
    pg = ProgGen(rng, encs)
    be = pg.base_elems()
    cases = []
    # equal elements with different internals
    for _ in range(1 if tier == 'quick' else 6):
        for E in be:
            alts = [('(-1)*(-Q)', ['t=neg:E', 'f=mul:t,%s' % h32(r - 1)]), ('P+Q-Q', ['g=gen', 't=add:E,g', 'f=sub:t,g']),
                    ('2*(Q/2)', ['t=mul:E,%s' % h32((r + 1) // 2), 'f=dbl:t']), ('redec', ['f=redec:E']), ('same', ['f=add:E,E', 'f=sub:f,E'])]
            for name, st in alts:
                cases.append(Case(prog(E[1] + st + ['eq.p:E,f', 'eq.a:E,f', 'eq.ne:E,f', 'heq.p:E,f', 'heq.a:E,f', 'enc:E', 'enc:f']), builds=('ark',), cls='equal:%s:%s' % (name, E[0]),
                                  oracle=expect_fields(lambda f: f[:5] == ['1'] * 5 and f[5] == f[6], 'equal elements: eq/hash/encoding incoherent'),
                                  sig='hash-eq'))
                cases.append(Case(prog(E[1] + st + ['eq.p:E,f', 'eq.ne:E,f', 'enc:E', 'enc:f']), builds=('min',), cls='equal:%s:%s' % (name, E[0]),
                                  oracle=expect_fields(lambda f: f[:2] == ['1'] * 2 and f[2] == f[3], 'equal elements compare unequal')))
    # arbitrary pairs: eq iff same encoding; eq -> same hash
    for _ in range(30 if tier == 'quick' else 400):
        A, B = rng.choice(be), rng.choice(be)
        def orc(out, bld):
            f = out.split(' ')
            same = f[-2] == f[-1]
            if (f[0] == '1') != same:
                return 'eq differs from encoding equality'
            if bld == 'ark' and f[0] == '1' and f[1] != '1':
                return 'equal elements hash differently'
            return None
        cases.append(Case(prog(pg.two(A, B) + ['eq:X,Y', 'heq:X,Y', 'enc:X', 'enc:Y']), builds=('ark',), cls='pairs', oracle=orc, sig='hash-eq'))
        cases.append(Case(prog(pg.two(A, B) + ['eq:X,Y', 'enc:X', 'enc:Y']), builds=('min',), cls='pairs', oracle=orc))
    # identity predicates on every representation of the identity and on non-identities
    for E in be:
        outs = ['isid.%s:E' % f for f in ISID_FORMS_ARK]
        cases.append(Case(prog(E[1] + outs + ['enc:E']), builds=('ark',), cls='identity-predicates:' + E[0],
                          oracle=lambda out, bld: None if len(set(out.split(' ')[:-1])) == 1 and (out.split(' ')[0] == '1') == (out.split(' ')[-1] == ZERO32) else 'identity predicates disagree',
                          sig='identity-predicates'))
        outs = ['isid.%s:E' % f for f in ISID_FORMS_MIN]
        cases.append(Case(prog(E[1] + outs + ['enc:E']), builds=('min',), cls='identity-predicates:' + E[0],
                          oracle=lambda out, bld: None if len(set(out.split(' ')[:-1])) == 1 and (out.split(' ')[0] == '1') == (out.split(' ')[-1] == ZERO32) else 'identity predicates disagree'))
    return cases


# ------------------------------------------------------------------------------------------------
# C09 square roots

def srz_oracle(num, den):
    def f(out, bld):
        if out in ('panic', 'crash'):
            return 'sqrt_ratio_zeta panicked'
        if out == 'bad-op':
            # both arguments are canonical field elements: the harness parses them with from_bytes_checked
            return 'a canonical field element was rejected by from_bytes_checked (the harness could not parse an argument)'
        fl, y = out.split(' ')
        y = int.from_bytes(bytes.fromhex(y), 'little')
        if num == 0:
            return None if (fl, y) == ('1', 0) else 'num = 0 must give (true, 0)'
        if den == 0:
            return None if (fl, y) == ('0', 0) else 'den = 0 must give (false, 0)'
        sq = M.leg(num * M.inv(den)) == 1
        if sq:
            return None if fl == '1' and y * y * den % q == num else 'square ratio: need (true, y) with y^2 den = num'
        return None if fl == '0' and y * y * den % q == M.zeta * num % q else 'non-square ratio: need (false, y) with y^2 den = zeta num'
    return f


def gen_C09(rng, tier):
    cases = []
    zeta = M.zeta
    t = (q - 1) >> 47
    g = pow(zeta, t, q)
    pairs = []
    vals = special_fq(rng, 6)
    for a in vals[:12]:
        for b in vals[:12]:
            pairs.append(('special', a, b))
    # 2-primary discrete log with each 8-bit window in {0,1,0x80,0xff,random}: every table row (thorough: all 256 values)
    windows = [0, 8, 16, 24, 32, 40]
    wvals = list(range(256)) if tier == 'thorough' else [0, 1, 0x7f, 0x80, 0xff] + [rng.randrange(256) for _ in range(3)]
    for w in windows:
        for v in wvals:
            e = (v << w) % (1 << 47)
            other = rng.getrandbits(47) if rng.random() < 0.5 else 0
            e2 = (e | (other & ~(0xff << w))) % (1 << 47)
            for ee in (e, e2):
                ratio = pow(g, ee, q) * pow(rng.randrange(1, q), 1 << 47, q) % q
                den = rng.randrange(1, q)
                pairs.append(('window%d' % w, ratio * den % q, den))
    for k in range(0, 48):
        root = pow(g, 1 << (47 - k), q)
        den = rng.randrange(1, q)
        pairs.append(('root-of-unity', root * den % q, den))
        pairs.append(('root-of-unity-den1', root, 1))
    for k in range(0, 8):
        den = rng.randrange(1, q)
        pairs.append(('zeta^k', pow(zeta, k, q) * den % q, den))
    for _ in range(50 if tier == 'quick' else 2000):
        pairs.append(('uniform', rng.randrange(q), rng.randrange(q)))
    for cls, a, b in pairs:
        cases.append(Case('f.fq.srz %s %s' % (h32(a), h32(b)), cls='srz:' + cls, oracle=srz_oracle(a, b)))
    # generic sqrt and legendre, all three fields (arkworks traits)
    for fld, (m, n8, nl) in M.MODS.items():
        vs = special_mod(m, rng, 10 if tier == 'quick' else 200)
        if fld == 'fq':
            vs += [pow(g, 1 << (47 - k), q) for k in range(48)]
        for a in vs:
            def so(out, bld, a=a, m=m):
                if out == 'none':
                    return None if (a != 0 and pow(a, (m - 1) // 2, m) != 1) else 'sqrt of a square is absent'
                if out.startswith('some '):
                    y = int.from_bytes(bytes.fromhex(out[5:]), 'little')
                    return None if y * y % m == a else 'sqrt returned a non-root'
                return 'sqrt: ' + out
            cases.append(Case('f.%s.sqrt %s' % (fld, hN(a, n8)), builds=('ark',), cls='sqrt:' + fld, oracle=so))
            sq = a * a % m
            cases.append(Case('f.%s.sqrt %s' % (fld, hN(sq, n8)), builds=('ark',), cls='sqrt-of-square:' + fld,
                              oracle=lambda out, bld: None if out.startswith('some ') else 'sqrt of a square is absent'))
            def lo(out, bld, a=a, m=m):
                exp = 0 if a == 0 else (1 if pow(a, (m - 1) // 2, m) == 1 else 2)
                return None if out == str(exp) else 'legendre disagrees with Euler criterion'
            cases.append(Case('f.%s.legendre %s' % (fld, hN(a, n8)), builds=('ark',), cls='legendre:' + fld, oracle=lo))
    return cases


# ------------------------------------------------------------------------------------------------
# C10 field arithmetic

FFORMS = ['oo', 'or', 'om', 'asg_o', 'asg_r', 'asg_m', 'inh']


def gen_C10(rng, tier):
    cases = []
    for fld, (m, n8, nl) in M.MODS.items():
        vs = special_mod(m, rng, 4 if tier == 'quick' else 30)
        pairs = [(a, b) for a in vs[:14] for b in vs[:14]] if tier == 'thorough' else [(rng.choice(vs), rng.choice(vs)) for _ in range(40)]
        pairs += [(rng.randrange(m), rng.randrange(m)) for _ in range(20 if tier == 'quick' else 300)]
        H = lambda x, n8=n8: hN(x, n8)
        for a, b in pairs:
            for op, fn in (('add', lambda a, b: (a + b) % m), ('sub', lambda a, b: (a - b) % m), ('mul', lambda a, b: a * b % m)):
                for form in (FFORMS if tier == 'thorough' else [rng.choice(FFORMS), 'oo']):
                    cases.append(Case('f.%s.%s.%s %s %s' % (fld, op, form, H(a), H(b)), cls='%s:%s.%s' % (fld, op, form), oracle=expect(H(fn(a, b)))))
            for form in (FFORMS[:-1] if tier == 'thorough' else [rng.choice(FFORMS[:-1])]):
                exp = 'panic' if b == 0 else H(a * pow(b, -1, m) % m)
                cases.append(Case('f.%s.div.%s %s %s' % (fld, form, H(a), H(b)), cls='%s:div.%s' % (fld, form), oracle=expect(exp)))
        for a in vs + [rng.randrange(m) for _ in range(10)]:
            for form in ('op', 'inh', 'in_place'):
                cases.append(Case('f.%s.neg.%s %s' % (fld, form, H(a)), cls='%s:neg' % fld, oracle=expect(H(-a % m))))
            for form in ('inh', 'trait', 'in_place'):
                cases.append(Case('f.%s.square.%s %s' % (fld, form, H(a)), cls='%s:square' % fld, oracle=expect(H(a * a % m))))
                cases.append(Case('f.%s.inv.%s %s' % (fld, form, H(a)), cls='%s:inv' % fld, oracle=expect('none' if a == 0 else H(pow(a, -1, m)))))
            for form in ('trait', 'in_place'):
                cases.append(Case('f.%s.double.%s %s' % (fld, form, H(a)), cls='%s:double' % fld, oracle=expect(H(2 * a % m))))
            # exponentiation honours the whole multi-limb exponent
            for ls in ([0], [1], [2], [5], [0, 1], [3, 1], [(1 << 64) - 1, (1 << 64) - 1], limbs_of(m - 1), limbs_of(m - 2), [7, 0, 0, 2], [1, 2, 3, 4, 5, 6], []):
                e = sum(l << (64 * i) for i, l in enumerate(ls))
                lim = ','.join(map(str, ls)) if ls else '-'
                cases.append(Case('f.%s.pow %s %s' % (fld, H(a), lim), builds=('ark',), cls='%s:pow:%dlimbs' % (fld, len(ls)), oracle=expect(H(pow(a, e, m)))))
                if fld == 'fq' and (e < 3000 or ls[0] < 3000) and ls:
                    cases.append(Case('f.fq.power %s %s' % (H(a), lim), cls='fq:power:%dlimbs' % len(ls), oracle=expect(H(pow(a, e, m))), sig='fq-power'))
        # sums and products over iterators, incl. empty and singleton
        for k in [0, 1, 2, 3, 7] + ([rng.randrange(0, 20) for _ in range(10)] if tier == 'thorough' else []):
            xs = [rng.choice(vs + [rng.randrange(m)]) for _ in range(k)]
            arg = ','.join(H(x) for x in xs) if xs else '-'
            pr = 1
            for x in xs:
                pr = pr * x % m
            for form in ('own', 'ref'):
                cases.append(Case('f.%s.sum.%s %s' % (fld, form, arg), cls='%s:sum:%d' % (fld, k), oracle=expect(H(sum(xs) % m))))
                cases.append(Case('f.%s.product.%s %s' % (fld, form, arg), cls='%s:product:%d' % (fld, k), oracle=expect(H(pr % m)), sig='%s-product' % fld))
        if fld == 'fq':
            for a, b in pairs[:60]:
                for c in (0, 1):
                    cases.append(Case('f.fq.select %s %s %d' % (H(a), H(b), c), cls='fq:select', oracle=expect(H(b if c else a)), sig='fq-select'))
                cases.append(Case('f.fq.cteq %s %s' % (H(a), H(b)), cls='fq:cteq', oracle=expect('1' if a == b else '0')))
                cases.append(Case('f.fq.cteq %s %s' % (H(a), H(a)), cls='fq:cteq', oracle=expect('1')))
            # pairs whose INTERNAL (Montgomery, R = 2^256 in both limb widths) representations agree on the low k 32-bit
            # words and differ above, or differ in exactly one word: a comparison / selection that stops early, or
            # looks at the wrong number of limbs, is invisible on random operands
            rinv = pow(1 << 256, -1, m)
            mont_pairs = []
            for j in range(0, 8):
                w = 32 * j
                for _ in range(2 if tier == 'quick' else 8):
                    m1 = rng.randrange(m)
                    m2 = ((rng.randrange(m) >> w) << w | (m1 & ((1 << w) - 1))) % (1 << 256)
                    m3 = m1 ^ (rng.randrange(1, 1 << 32) << w)
                    for mm in (m2, m3):
                        if mm < m and mm != m1:
                            mont_pairs.append((m1 * rinv % m, mm * rinv % m, j))
            for a, b, j in mont_pairs:
                cases.append(Case('f.fq.cteq %s %s' % (H(a), H(b)), cls='fq:cteq:mont-word%d' % j, oracle=expect('0')))
                for c in (0, 1):
                    cases.append(Case('f.fq.select %s %s %d' % (H(a), H(b), c), cls='fq:select:mont-word%d' % j, oracle=expect(H(b if c else a)), sig='fq-select'))
    return cases


# ------------------------------------------------------------------------------------------------
# C11 field encodings and conversions

def gen_C11(rng, tier):
    cases = []
    for fld, (m, n8, nl) in M.MODS.items():
        H = lambda x, n8=n8: hN(x, n8)
        vs = special_mod(m, rng, 6 if tier == 'quick' else 60)
        # reduction of byte strings of any length, both endiannesses
        lens = list(range(0, 201)) if tier == 'thorough' else list(range(0, 70)) + [95, 96, 97, 127, 128, 129, 143, 144, 145, 199, 200]
        for ln in lens:
            for kind in ('random', 'ones'):
                bs = bytes([0xff] * ln) if kind == 'ones' else bytes(rng.getrandbits(8) for _ in range(ln))
                v = int.from_bytes(bs, 'little')
                for form in ('inh', 'trait'):
                    cases.append(Case('f.%s.from_le_mod.%s %s' % (fld, form, hexb(bs)), cls='%s:from_le_mod:%s' % (fld, 'le%d' % (ln // n8)), oracle=expect(H(v % m))))
                cases.append(Case('f.%s.from_be_mod %s' % (fld, hexb(bs)), builds=('ark',), cls='%s:from_be_mod' % fld, oracle=expect(H(int.from_bytes(bs, 'big') % m))))
                cases.append(Case('f.%s.biguint_rt %s' % (fld, hexb(bs)), builds=('ark',), cls='%s:biguint' % fld, oracle=expect(H(v % m))))
        # byte strings assembled from whole chunks with structure (zero, all ones, the modulus and its multiples, p - 1)
        # in every position, with and without a partial top chunk: a reduction loop that special-cases a chunk value
        ch = {'z': bytes(n8), 'o': b'\xff' * n8, 'm': (m % (1 << (8 * n8))).to_bytes(n8, 'little'), 'k': ((3 * m) % (1 << (8 * n8))).to_bytes(n8, 'little'),
              'p': (m - 1).to_bytes(n8, 'little'), 'r': None, '1': (1).to_bytes(n8, 'little')}
        shapes = ['z1', 'zz1', '1z', 'mz1', 'zm', 'm1', 'km', 'pz1', 'z', 'zz', 'oz1', 'zo', '1zz1', 'rzr', 'zrz', 'mm1']
        for shp in shapes:
            for tail in (b'', b'\x01', b'\x00\x01', bytes([rng.getrandbits(8) | 1])):
                bs = b''.join(ch[c] if ch[c] is not None else bytes(rng.getrandbits(8) for _ in range(n8)) for c in shp) + tail
                v = int.from_bytes(bs, 'little')
                for form in ('inh', 'trait'):
                    cases.append(Case('f.%s.from_le_mod.%s %s' % (fld, form, hexb(bs)), cls='%s:from_le_mod:chunks' % fld, oracle=expect(H(v % m))))
                cases.append(Case('f.%s.from_be_mod %s' % (fld, hexb(bs[::-1])), builds=('ark',), cls='%s:from_be_mod:chunks' % fld, oracle=expect(H(v % m))))
        # canonical and non-canonical N8-byte strings
        nc = [m - 1, m, m + 1, 0, 1, (1 << (8 * n8)) - 1, 1 << (8 * n8 - 1), 2 * m, 2 * m + 1] + [1 << k for k in range(0, 8 * n8, 37)] + vs + [rng.getrandbits(8 * n8) for _ in range(20)]
        nc = [x for x in nc if x < (1 << (8 * n8))]
        for v in nc:
            cases.append(Case('f.%s.from_bytes_checked %s' % (fld, H(v)), cls='%s:from_bytes_checked:%s' % (fld, 'lt' if v < m else 'ge'),
                              oracle=expect(('ok ' + H(v)) if v < m else 'err')))
            ls = limbs_of(v, nl)
            if len(ls) == nl:
                cases.append(Case('f.%s.from_bigint %s' % (fld, ','.join(map(str, ls))), builds=('ark',), cls='%s:from_bigint:%s' % (fld, 'lt' if v < m else 'ge'),
                                  oracle=expect(('some ' + H(v)) if v < m else 'none')))
            for kind in (0, 1, 2):
                fb = {0: 0, 1: 1, 2: 2}[kind]
                total = (8 * n8 - 0)
                cases.append(Case('f.%s.deser_flags %d %s' % (fld, kind, H(v)), builds=('ark',), cls='%s:deser_flags%d' % (fld, kind)))
            for form in ('compressed', 'uncompressed', 'unchecked'):
                cases.append(Case('f.%s.deser_flags.%s 0 %s' % (fld, form, H(v)), builds=('ark',), cls='%s:deser:%s' % (fld, form),
                                  oracle=expect(('ok %s 0' % H(v)) if v < m else 'err-data')))
        # the constructor from Montgomery limbs: in-range limb arrays denote M * R^-1 mod p in both backends
        R_ = 1 << (64 * nl)
        rinv_ = pow(R_, -1, m)
        for a in (vs + [rng.randrange(m) for _ in range(6)]) if fld == 'fq' else []:
            Mv = a * R_ % m
            cases.append(Case('f.%s.from_mont %s' % (fld, ','.join(map(str, limbs_of(Mv, nl)))), cls='%s:from_mont' % fld, oracle=expect(H(a))))
        for Mv in [0, 1, m - 1, (1 << 64) - 1, 1 << 64, (1 << 32), (1 << 32) - 1] if fld == 'fq' else []:
            cases.append(Case('f.%s.from_mont %s' % (fld, ','.join(map(str, limbs_of(Mv, nl)))), cls='%s:from_mont:structured' % fld, oracle=expect(H(Mv * rinv_ % m))))
        for a in vs:
            for form in ('le', 'to_bytes', 'ser', 'ser_drip', 'ser_unc', 'bigint_bytes'):
                cases.append(Case('f.%s.to_bytes.%s %s' % (fld, form, H(a)), cls='%s:to_bytes' % fld, oracle=expect(H(a))))
            for form in ('into_bigint', 'from'):
                cases.append(Case('f.%s.into_bigint.%s %s' % (fld, form, H(a)), builds=('ark',), cls='%s:into_bigint' % fld,
                                  oracle=expect(','.join(map(str, limbs_of(a, nl))))))
            # flags round trip: serialise with flags then deserialise
            for kind, flags in ((0, [0]), (1, [0, 1]), (2, [0, 1, 2])):
                for fl in flags:
                    cases.append(Case('f.%s.ser_flags %d %d %s' % (fld, kind, fl, H(a)), builds=('ark',), cls='%s:ser_flags%d' % (fld, kind)))
            # user-defined flag types of 3..8 bits (the generic `Flags` API): the stream is the value bytes with the flags in the top
            # bits of the last byte when they fit, else one extra byte; it must deserialise to the same value and flags
            bits_ = m.bit_length()
            for kind in (3, 4, 5, 6, 7, 8):
                for fl in sorted({0, 1, (1 << kind) - 1, rng.randrange(1 << kind)}):
                    mask = fl if kind == 8 else (fl << (8 - kind))
                    vb = bytearray(a.to_bytes(n8, 'little'))
                    if (bits_ + kind + 7) // 8 == n8:
                        vb[-1] |= mask
                    else:
                        vb.append(mask)
                    stream = bytes(vb).hex()
                    cases.append(Case('f.%s.ser_flags %d %d %s' % (fld, kind, fl, H(a)), builds=('ark',), cls='%s:ser_flags-wide%d' % (fld, kind), oracle=expect(stream)))
                    cases.append(Case('f.%s.deser_flags %d %s' % (fld, kind, stream), builds=('ark',), cls='%s:deser_flags-wide%d' % (fld, kind),
                                      oracle=expect('ok %s %d' % (H(a), fl)), sig='flags-wide'))
            cases.append(Case('f.%s.display %s' % (fld, H(a)), builds=('ark',), cls='%s:display' % fld, oracle=expect(str(a) if a else '-')))
            cases.append(Case('f.%s.from_str %s' % (fld, str(a)), builds=('ark',), cls='%s:from_str' % fld, oracle=expect('ok ' + H(a))))
            cases.append(Case('f.%s.from_str %s' % (fld, '000' + str(a + m)), builds=('ark',), cls='%s:from_str' % fld, oracle=expect('ok ' + H(a))))
        for s in ('-', '12a', '-5', '1_0', '99999999999999999999999999999999999999999999999999999999999999999999999999999999999999999999999999999999999999999999999999'):
            exp = ('ok ' + H((int(s) if s != '-' else 0) % m)) if (s == '-' or s.isdigit()) else 'err'
            cases.append(Case('f.%s.from_str %s' % (fld, s), builds=('ark',), cls='%s:from_str' % fld, oracle=expect(exp)))
        for n in (0, 1, 255, 256, 65535, 65536, (1 << 32) - 1, 1 << 32, (1 << 64) - 1, 1 << 64, (1 << 128) - 1, rng.getrandbits(128)):
            for form in ('u128', 'u64', 'u32', 'u16', 'u8', 'bool'):
                cases.append(Case('f.%s.from_u128.%s %d' % (fld, form, n), cls='%s:from_uint' % fld,
                                  oracle=lambda out, bld, n=n, m=m, H=H: None if out in ('unsupported', H(n % m)) else 'From<uN> wrong'))
        # ordering is integer ordering; hashing consistent with equality
        adj = []
        for a in vs:
            for d in (-1, 0, 1, 1 << 64, (1 << 64) - 1, 1 << 128):
                b = (a + d) % m
                adj.append((a, b))
        adj += [(rng.randrange(m), rng.randrange(m)) for _ in range(30)]
        for a, b in adj:
            exp = 'lt' if a < b else ('eq' if a == b else 'gt')
            for form in ('cmp', 'partial', 'lt'):
                cases.append(Case('f.%s.cmp.%s %s %s' % (fld, form, H(a), H(b)), cls='%s:cmp' % fld, oracle=expect(exp)))
            cases.append(Case('f.%s.hash_eq %s %s' % (fld, H(a), H(b)), cls='%s:hash' % fld, oracle=expect('1' if a == b else '0')))
            cases.append(Case('f.%s.eq %s %s' % (fld, H(a), H(b)), cls='%s:eq' % fld, oracle=expect('1' if a == b else '0')))
    return cases


# ------------------------------------------------------------------------------------------------
# C12 backends observationally identical

def gen_C12(rng, tier):
    cases = []
    encs = valid_encodings(rng, 8 if tier == 'quick' else 40)
    for cls, b in near_misses(rng, encs[:5] if tier == 'quick' else encs):
        for form in DEC_FORMS_MIN[:3] if tier == 'quick' else DEC_FORMS_MIN:
            cases.append(Case(prog(['r1=dec.%s:%s' % (form, b), 'enc:r1', 'isid:r1']), cls='decode'))
    # slices of every length 0..80 through the slice entry points both builds offer: same verdict (length error unless exactly 32)
    base = bytes.fromhex(h32(encs[2]))
    for ln in range(0, 81):
        bs = (base + bytes(rng.getrandbits(8) for _ in range(48)))[:ln]
        for form in ('try_slice', 'enc_try_slice'):
            cases.append(Case(prog(['r1=dec.%s:%s' % (form, hexb(bs)), 'enc:r1']), cls='decode-slice:len%s' % ('lt32' if ln < 32 else ('eq32' if ln == 32 else 'gt32')),
                              oracle=(lambda out, bld, ln=ln: None if (ln == 32) or out == 'err-len' else 'a slice of %d bytes was not rejected as a length error' % ln)))
    for r0 in special_fq(rng, 10 if tier == 'quick' else 200):
        cases.append(Case(prog(['E=ell:%s' % h32(r0), 'enc:E', 'isid:E', 'h=h2c:%s,%s' % (h32(r0), h32(rng.randrange(q))), 'enc:h']), cls='elligator'))
        # dependent inputs of the two-input hash (equal / negated / zero): where the two backends' additions could differ
        cases.append(Case(prog(['h=h2c:%s,%s' % (h32(r0), h32(r0)), 'enc:h', 'isid:h', 'g=h2c:%s,%s' % (h32(r0), h32((q - r0) % q)), 'enc:g',
                                'k=h2c:%s,%s' % (h32(r0), h32(0)), 'enc:k']), cls='hash-dependent-inputs'))
    # every observable both builds offer, on every kind of representative (incl. both forms of the identity, Z = 1
    # non-canonical coset members, results of arithmetic)
    pgb = ProgGen(rng, encs)
    for E in pgb.base_elems():
        cases.append(Case(prog(E[1] + ['enc:E', 'isid.is_identity:E', 'isid.eq_identity:E', 'f=redec:E', 'eq:E,f', 'n=neg:E', 's=add:E,n', 'isid:s', 'enc:s']),
                          cls='representatives:' + E[0]))
    for _ in range(40 if tier == 'quick' else 600):
        st = random_program(rng, encs, 'min', rng.randrange(3, 25), mixforms=True)
        cases.append(Case(prog(st + ['enc:E', 'isid:E', 'eq:E,v0']), cls='random-program'))
    for fld, (m, n8, nl) in M.MODS.items():
        H = lambda x, n8=n8: hN(x, n8)
        vs = special_mod(m, rng, 4)
        # every unary operation on every special value (incl. the ones structured in the internal representation)
        for a in vs:
            cases.append(Case('f.%s.neg.%s %s' % (fld, rng.choice(['op', 'inh', 'in_place']), H(a)), cls='field:neg'))
            cases.append(Case('f.%s.square.%s %s' % (fld, rng.choice(['inh', 'trait', 'in_place']), H(a)), cls='field:square'))
            cases.append(Case('f.%s.double.%s %s' % (fld, rng.choice(['trait', 'in_place']), H(a)), cls='field:double'))
        for _ in range(30 if tier == 'quick' else 300):
            a, b = rng.choice(vs + [rng.randrange(m)]), rng.choice(vs + [rng.randrange(m)])
            op = rng.choice(['add', 'sub', 'mul', 'div'])
            cases.append(Case('f.%s.%s.%s %s %s' % (fld, op, rng.choice(FFORMS[:-1]), H(a), H(b)), cls='field:' + op))
            cases.append(Case('f.%s.inv %s' % (fld, H(a)), cls='field:inv'))
            cases.append(Case('f.%s.cmp %s %s' % (fld, H(a), H(b)), cls='field:cmp'))
            bs = bytes(rng.getrandbits(8) for _ in range(rng.randrange(0, 130)))
            cases.append(Case('f.%s.from_le_mod %s' % (fld, hexb(bs)), cls='field:from_le_mod'))
            cases.append(Case('f.%s.from_bytes_checked %s' % (fld, hN(rng.getrandbits(8 * n8) if rng.random() < .5 else a, n8)), cls='field:from_bytes_checked'))
            cases.append(Case('f.%s.to_bytes %s' % (fld, H(a)), cls='field:to_bytes'))
            cases.append(Case('f.%s.from_u128 %d' % (fld, rng.getrandbits(128)), cls='field:from_u128'))
            xs = [rng.choice(vs + [rng.randrange(m)]) for _ in range(rng.choice([0, 0, 1, 2, 5]))]
            arg = ','.join(H(x) for x in xs) if xs else '-'
            cases.append(Case('f.%s.sum.%s %s' % (fld, rng.choice(['own', 'ref']), arg), cls='field:sum'))
            cases.append(Case('f.%s.product.%s %s' % (fld, rng.choice(['own', 'ref']), arg), cls='field:product'))
            if fld == 'fq':
                cases.append(Case('f.fq.srz %s %s' % (H(a), H(b)), cls='field:srz'))
                cases.append(Case('f.fq.select %s %s %d' % (H(a), H(b), rng.randrange(2)), cls='field:select'))
    return cases


# ------------------------------------------------------------------------------------------------
# C13 / C14 / C15 gadgets (r1cs build)

def gcanon(out):
    """strip what the relational model does not speak about: constraint/variable counts"""
    out = re.sub(r' nc=\d+ nw=\d+ ni=\d+$', '', out)
    out = re.sub(r'\+0(?=\||$| )', '+0', out)
    out = re.sub(r'\+[1-9]\d*', '+N', out)
    out = re.sub(r';inst=[^ ]*', '', out)
    out = re.sub(r';sat0=\w+;dnc=\d+', '', out)
    return out


def decompress_eager(out):
    """the decode gadget must emit (and satisfy) its constraints when it is called, not when the result is first used"""
    m = re.search(r'sat=(\w+) out=[^; ]*;sat0=(\w+);dnc=(\d+)', out)
    if not m:
        return None
    if m.group(3) != '0':
        return 'decompress_from_field emitted no constraints until its result was used'
    if m.group(1) != m.group(2):
        return 'decompress_from_field: satisfied right after the call but not once the result is used'
    return None


def gfields(out):
    d = {}
    for tok in out.split(' '):
        if '=' in tok:
            k, v = tok.split('=', 1)
            d[k] = v
    return d


def prog_arg(stmts):
    """a program as a single `key=value`-safe token"""
    return ';'.join(stmts).replace(';', '/').replace('=', '~')


def elem_args(rng, encs, pg, n):
    """(class, 'e=…' style argument suffix generator) for n elements"""
    out = []
    be = pg.base_elems()
    for E in be:
        out.append((E[0], lambda key, E=E: '%sp=%s' % (key, prog_arg(E[1]))))
    for s in encs[:n]:
        out.append(('decoded', lambda key, s=s: '%s=%s' % (key, h32(s))))
    return out


def sqrt_candidates(x):
    """every y able to satisfy some case equation of the isqrt gadget for input x, plus both flags"""
    ys = {0, 1, q - 1}
    if x % q != 0:
        inv = M.inv(x)
        for v in (inv, M.zeta * inv % q):
            if M.leg(v) == 1:
                sr = M.sqrt(v)
                ys.add(sr)
                ys.add((q - sr) % q)
    return sorted(ys)


def native_decode_enc(s):
    """the canonical encoding that native decoding of the field element s yields, or None"""
    if s >= q or M.neg(s):
        return None
    P = M.decode(s)
    if P is None:
        return None
    return s


def gen_C13(rng, tier):
    cases = []
    R = ('r1cs',)
    encs = valid_encodings(rng, 8 if tier == 'quick' else 40)
    pg = ProgGen(rng, encs)
    fvals = special_fq(rng, 6 if tier == 'quick' else 60)
    sat1 = lambda out, bld: None if gfields(out).get('sat') == '1' else 'honest synthesis is not satisfied'
    for x in fvals:
        def orc(out, bld, x=x):
            f = gfields(out)
            if f.get('sat') != '1':
                return 'honest isqrt not satisfied'
            fl, y = f['out'].split(',')
            y = int.from_bytes(bytes.fromhex(y), 'little')
            if x == 0:
                return None if (fl, y) == ('0', 0) else 'isqrt(0) must be (false, 0)'
            sq = M.leg(x) == 1
            ok = (fl == '1' and y * y * x % q == 1) if sq else (fl == '0' and y * y * x % q == M.zeta)
            return None if ok else 'isqrt value differs from the native contract'
        cases.append(Case('g.isqrt x=%s' % h32(x), builds=R, cls='isqrt', oracle=orc, canon=gcanon))
        for op, fn in (('isneg', lambda v: str(v & 1)), ('isnonneg', lambda v: str(1 - (v & 1))), ('abs', lambda v: h32((q - v) % q if v & 1 else v))):
            cases.append(Case('g.%s x=%s' % (op, h32(x)), builds=R, cls=op, canon=gcanon,
                              oracle=lambda out, bld, e=fn(x): None if gfields(out).get('sat') == '1' and gfields(out).get('out') == e else 'sign gadget differs from native'))
        # elligator
        cases.append(Case('g.elligator r0=%s' % h32(x), builds=R, cls='elligator', canon=gcanon, spec='spec.gell %s' % h32(x)))
        # the same gadgets on CONSTANT inputs (no constraint system to allocate hints in): same values, still satisfied
        cases.append(Case('g.isqrt x=%s fmode=const' % h32(x), builds=R, cls='isqrt:const', oracle=orc, canon=gcanon))
        cases.append(Case('g.abs x=%s fmode=const' % h32(x), builds=R, cls='abs:const', canon=gcanon,
                          oracle=lambda out, bld, e=h32((q - x) % q if x & 1 else x): None if gfields(out).get('sat') == '1' and gfields(out).get('out') == e else 'sign gadget differs from native'))
        cases.append(Case('g.elligator r0=%s fmode=const' % h32(x), builds=R, cls='elligator:const', canon=gcanon, spec='spec.gell %s' % h32(x)))
    # decompress: satisfied exactly when native decoding succeeds
    for cls, b in near_misses(rng, encs[:4] if tier == 'quick' else encs[:20]):
        v = int.from_bytes(bytes.fromhex(b), 'little')
        if v >= q:
            continue
        ne = native_decode_enc(v)
        def orc(out, bld, ne=ne, v=v):
            lazy = decompress_eager(out)
            if lazy:
                return lazy
            out = gcanon(out)
            f = gfields(out)
            if ne is None:
                return None if f.get('sat') == '0' else 'invalid encoding decoded in-circuit by the honest prover'
            return None if f.get('sat') == '1' and f.get('out') == h32(ne) else 'decompress gadget differs from native decoding'
        cases.append(Case('g.decompress s=%s' % h32(v), builds=R, cls='decompress:' + cls, oracle=orc, canon=gcanon))
        if ne is None:
            # an invalid CONSTANT encoding has no constraint system to be unsatisfied in: synthesis itself must fail (or leave an
            # unsatisfied system) — handing back a variable is decoding an invalid encoding
            cases.append(Case('g.decompress s=%s fmode=const' % h32(v), builds=R, cls='decompress:const-invalid:' + cls, nomodel=True,
                              oracle=lambda out, bld: None if out.startswith('synth-err') or gfields(out).get('sat') == '0' else 'invalid constant encoding decoded in-circuit'))
        if ne is not None:
            # a constant valid encoding decodes to the same element (an invalid constant has no system to be unsatisfied in)
            cases.append(Case('g.decompress s=%s fmode=const' % h32(v), builds=R, cls='decompress:const:' + cls, canon=gcanon,
                              oracle=lambda out, bld, ne=ne: None if gfields(gcanon(out)).get('out') == h32(ne) else 'decompress gadget on a constant differs from native decoding'))
    els = elem_args(rng, encs, pg, 4)
    for cls, mk in els:
        cases.append(Case('g.compress %s' % mk('e'), builds=R, cls='compress:' + cls, oracle=sat1, canon=gcanon))
        for pre in ('const', 'input'):
            cases.append(Case('g.compress %s pre=%s' % (mk('e'), pre), builds=R, cls='compress:%s:%s' % (pre, cls), oracle=sat1, canon=gcanon))
        for op in ('neg', 'dbl'):
            cases.append(Case('g.%s %s' % (op, mk('a')), builds=R, cls=op + ':' + cls, oracle=sat1, canon=gcanon))
        for mode in ('alloc_witness', 'alloc_witness_aff', 'alloc_constant'):
            cases.append(Case('g.%s %s' % (mode, mk('e')), builds=R, cls=mode + ':' + cls, oracle=sat1, canon=gcanon))
        def oinp(out, bld):
            f = gfields(out)
            o = f.get('out', '')
            m = re.match(r'([0-9a-f]{64});inst=0100000000000000000000000000000000000000000000000000000000000000,([0-9a-f]{64});tfe=([0-9a-f]{64})$', o)
            if f.get('sat') != '1' or not m:
                return 'public input allocation: ' + out[:200]
            return None if m.group(1) == m.group(2) == m.group(3) and f.get('ni') == '2' else 'public input is not exactly [1, encoding]'
        cases.append(Case('g.alloc_input %s' % mk('e'), builds=R, cls='alloc_input:' + cls, oracle=oinp, nomodel=True))
        for bits in ('', '0', '1', '101', '0001', ''.join(rng.choice('01') for _ in range(24))) + ((''.join(rng.choice('01') for _ in range(253)),) if tier == 'thorough' else ()):
            cases.append(Case('g.scalarmul %s bits=%s' % (mk('a'), bits), builds=R, cls='scalarmul:%dbits' % len(bits), oracle=sat1, canon=gcanon))
            if bits:
                for bm in ('const', 'mixed', 'input'):
                    cases.append(Case('g.scalarmul %s bits=%s bmode=%s' % (mk('a'), bits, bm), builds=R, cls='scalarmul:%dbits:%s' % (len(bits), bm), oracle=sat1, canon=gcanon))
        # lazy forcing: every order and repetition
        seqs = [[]]
        for L in range(1, 4 if tier == 'quick' else 5):
            seqs += [[a] + s for a in ('enc', 'elem', 'clone_enc', 'clone_elem')[:2 if tier == 'quick' else 4] for s in seqs if len(s) == L - 1]
        def mk_olazy(initial):
            # the memo of a lazy variable: a component is computed (constraints emitted) exactly when it is first forced
            # on the variable itself; `clone_*` forces a fresh copy of the variable's current state, so it emits iff the
            # component is not yet memoised in the original, and leaves the original as it was (lazy.rs: Clone is deep)
            def olazy(out, bld):
                f = gfields(out)
                if f.get('sat') != '1':
                    return 'lazy variable: honest forcing not satisfied'
                steps = [st for st in f.get('out', '').split('|') if st]
                vals = {}
                have = {initial}
                for st in steps:
                    name, rest = st.split(':', 1)
                    val, delta = rest.rsplit('+', 1)
                    kind = 'enc' if name.endswith('enc') else 'elem'
                    if kind in vals and vals[kind] != val:
                        return 'value changed on repeated forcing'
                    vals[kind] = val
                    if kind in have and delta != '0':
                        return 'constraints emitted again for a component that was already forced'
                    if kind not in have and delta == '0':
                        return 'a component was produced without constraints'
                    if not name.startswith('clone_'):
                        have.add(kind)
                if 'enc' in vals and 'elem' in vals and vals['enc'] != vals['elem']:
                    return 'encoding and element of a lazy variable disagree'
                return None
            return olazy
        for sq in seqs:
            cases.append(Case('g.lazy from=elem %s ops=%s' % (mk('e'), ','.join(sq)), builds=R, cls='lazy-from-elem:%d' % len(sq), oracle=mk_olazy('elem'), canon=gcanon))
    for s in encs[:4]:
        for sq in seqs:
            cases.append(Case('g.lazy from=enc s=%s ops=%s' % (h32(s), ','.join(sq)), builds=R, cls='lazy-from-enc:%d' % len(sq), oracle=mk_olazy('enc'), canon=gcanon))
    # two variables made from encodings (valid or not), neither decoded yet, into a binary gadget; with either, both or none of
    # them forced beforehand: the verdict is "both decode natively (and the enforced relation holds)" whatever was forced when
    def lazy2canon(out):
        out = gcanon(out)
        return re.sub(r'sat=0 out=\S*', 'sat=0', out)
    inval = []
    for cls, b in near_misses(rng, encs[:2]):
        v = int.from_bytes(bytes.fromhex(b), 'little')
        if v < q and native_decode_enc(v) is None and cls.split(':')[0] not in [c for c, _ in inval]:
            inval.append((cls.split(':')[0], v))
    inval = inval[:4 if tier == 'quick' else 12]
    vals = [('valid', e) for e in encs[:2]]
    pairs = [(vals[0], vals[0]), (vals[0], vals[1])] + [(vals[0], i) for i in inval] + [(i, vals[1]) for i in inval] \
        + [(i, i) for i in inval] + [(inval[0], i) for i in inval[1:]]
    for (c1, s1), (c2, s2) in pairs:
        ok = native_decode_enc(s1) is not None and native_decode_enc(s2) is not None
        for bop in ('iseq', 'enforce_eq', 'enforce_neq', 'cenforce_eq0', 'add', 'select'):
            want = ok and (bop not in ('enforce_eq', 'enforce_neq') or (bop == 'enforce_eq') == (s1 == s2))
            for pre in ('', '1', '2', '12'):
                def o2(out, bld, want=want):
                    got = gfields(gcanon(out)).get('sat')
                    return None if got == ('1' if want else '0') else 'binary gadget on lazily decoded operands: expected sat=%d' % want
                cases.append(Case('g.lazy2 s1=%s s2=%s bop=%s pre=%s' % (h32(s1), h32(s2), bop, pre), builds=R,
                                  cls='lazy2:%s:%s' % (bop, 'valid' if ok else 'invalid'), oracle=o2, canon=lazy2canon))
    # operand whose encoding is already known / cached (public input, or forced before the operation), then the
    # operation, then the encoding of the RESULT as the circuit computes it: must be the native encoding of the result
    def oenc(out, bld):
        f = gfields(out)
        o = f.get('out', '')
        m = re.match(r'([0-9a-f]{64});enc=([0-9a-f]{64})$', o)
        if f.get('sat') != '1' or not m:
            return 'operation on a variable with a known encoding: ' + out[:200]
        return None if m.group(1) == m.group(2) else 'in-circuit encoding of the result differs from the native encoding of the result'
    vel = [h32(s) for s in encs[:6]]
    for i, ea in enumerate(vel):
        eb = vel[(i * 2 + 1) % len(vel)]
        for pre in ('enc', 'input', 'const'):
            for op in ('add', 'sub', 'add_ref', 'sub_ref', 'add_asg', 'sub_asg', 'add_const', 'sub_const', 'add_const_asg', 'sub_const_asg', 'select'):
                cases.append(Case('g.%s a=%s b=%s c=%d pre=%s post=enc' % (op, ea, eb, i % 2, pre), builds=R, cls='%s:pre-%s' % (op, pre), oracle=oenc, canon=gcanon))
            for op in ('neg', 'dbl'):
                cases.append(Case('g.%s a=%s pre=%s post=enc' % (op, ea, pre), builds=R, cls='%s:pre-%s' % (op, pre), oracle=oenc, canon=gcanon))
            cases.append(Case('g.scalarmul a=%s bits=1011 pre=%s post=enc' % (ea, pre), builds=R, cls='scalarmul:pre-%s' % pre, oracle=oenc, canon=gcanon))
    # the SAME element held in its two coset representatives (x, y) and (-x, -y), and as a projectively different
    # native result: equality / inequality gadgets must see one element
    def osat(want_sat, want_out=None):
        def orc(out, bld):
            f = gfields(out)
            if f.get('sat') != want_sat:
                return 'equality gadgets on two representatives of one element: expected sat=%s' % want_sat
            if want_out is not None and f.get('out') != want_out:
                return 'equality gadgets on two representatives of one element: expected out=%s' % want_out
            return None
        return orc
    for s_ in [x for x in encs if x != 0][:4 if tier == 'quick' else 20] + [0]:
        P = M.decode(s_)
        other = 'bxy=%s,%s' % (h32((q - P[0]) % q), h32((q - P[1]) % q))
        same = 'bxy=%s,%s' % (h32(P[0]), h32(P[1]))
        for cls, b in (('other-rep', other), ('same-rep', same)):
            cases.append(Case('g.iseq a=%s %s' % (h32(s_), b), builds=R, cls='iseq:' + cls, oracle=osat('1', '1'), canon=gcanon))
            cases.append(Case('g.enforce_eq a=%s %s' % (h32(s_), b), builds=R, cls='enforce_eq:' + cls, oracle=osat('1'), canon=gcanon))
            cases.append(Case('g.enforce_neq a=%s %s' % (h32(s_), b), builds=R, cls='enforce_neq:' + cls, oracle=osat('0'), canon=gcanon))
            # conditional enforcement on two representatives of ONE element: enforced only when the flag holds (seed C13_r10)
            for cmode in ('witness', 'const', 'input'):
                for c in (0, 1):
                    cases.append(Case('g.cenforce_eq a=%s %s c=%d cmode=%s' % (h32(s_), b, c, cmode), builds=R, cls='cenforce_eq:%s:c%d:%s' % (cls, c, cmode), oracle=osat('1'), canon=gcanon))
                    cases.append(Case('g.cenforce_neq a=%s %s c=%d cmode=%s' % (h32(s_), b, c, cmode), builds=R, cls='cenforce_neq:%s:c%d:%s' % (cls, c, cmode),
                                      oracle=osat('0' if c else '1'), canon=gcanon))
    for _ in range(8 if tier == 'quick' else 80):
        (ca, ma), (cb, mb) = rng.choice(els), rng.choice(els)
        for op in ('add', 'sub', 'add_ref', 'sub_ref', 'add_asg', 'sub_asg', 'add_const', 'sub_const', 'add_const_asg', 'sub_const_asg', 'iseq', 'select'):
            cases.append(Case('g.%s %s %s c=%d' % (op, ma('a'), mb('b'), rng.randrange(2)), builds=R, cls=op, oracle=sat1, canon=gcanon))
        cases.append(Case('g.enforce_eq %s %s' % (ma('a'), mb('b')), builds=R, cls='enforce_eq', canon=gcanon))
        cases.append(Case('g.enforce_neq %s %s' % (ma('a'), mb('b')), builds=R, cls='enforce_neq', canon=gcanon))
        cases.append(Case('g.enforce_eq %s %s' % (ma('a'), ma('b')), builds=R, cls='enforce_eq:same', oracle=sat1, canon=gcanon))
        for op in ('cenforce_eq', 'cenforce_neq'):
            c = rng.randrange(2)
            cases.append(Case('g.%s %s %s c=%d cmode=%s' % (op, ma('a'), mb('b'), c, rng.choice(['witness', 'const', 'input'])), builds=R, cls=op, canon=gcanon))
            cases.append(Case('g.%s %s %s c=0 cmode=witness' % (op, ma('a'), mb('b')), builds=R, cls=op + ':unenforced', oracle=sat1, canon=gcanon))
    return cases


def gen_C14(rng, tier):
    cases = []
    R = ('r1cs',)
    encs = valid_encodings(rng, 6 if tier == 'quick' else 30)
    pg = ProgGen(rng, encs)
    fvals = special_fq(rng, 4 if tier == 'quick' else 40)
    def hints_for(den):
        hs = []
        for y in sqrt_candidates(den) + [rng.randrange(q)]:
            for fl in (0, 1):
                hs.append((fl, y))
        return hs
    # isqrt itself
    for x in fvals:
        for fl, y in hints_for(x):
            def orc(out, bld, x=x):
                f = gfields(out)
                if f.get('sat') != '1':
                    return None
                fl2, y2 = f['out'].split(',')
                y2 = int.from_bytes(bytes.fromhex(y2), 'little')
                if x == 0:
                    return None if (fl2, y2) == ('0', 0) else 'isqrt accepts a forged hint at den = 0'
                sq = M.leg(x) == 1
                ok = (fl2 == '1' and y2 * y2 * x % q == 1) if sq else (fl2 == '0' and y2 * y2 * x % q == M.zeta)
                return None if ok else 'isqrt accepts a hint that violates the native contract'
            cases.append(Case('g.isqrt x=%s hint=%d,%s' % (h32(x), fl, h32(y)), builds=R, cls='isqrt:den%s' % ('=0' if x == 0 else '!=0'), oracle=orc, canon=gcanon,
                              sig='isqrt:den%s:hint=%d:y2=%s' % ('0' if x == 0 else 'N', fl, '1' if y * y % q == 1 else ('0' if y == 0 else 'x'))))
    # decompress under every hint
    svals = [v for v in ([0, 8, 1, 2, q - 1, q - 2, (q - 1) // 2] + encs + [rng.randrange(q) for _ in range(6 if tier == 'quick' else 60)]) if v < q]
    for s in svals:
        if native_decode_enc(s) is None:
            # as a constant: nothing the prover chooses, no system to be unsatisfied in — synthesis must fail
            cases.append(Case('g.decompress s=%s fmode=const' % h32(s), builds=R, cls='decompress:const-invalid', nomodel=True,
                              oracle=lambda out, bld: None if out.startswith('synth-err') or gfields(out).get('sat') == '0' else 'invalid constant encoding decoded in-circuit'))
    for s in svals:
        ss = s * s % q
        u1 = (1 - ss) % q
        u2 = (u1 * u1 - 4 * M.d * ss) % q
        den = u2 * u1 * u1 % q
        ne = native_decode_enc(s)
        for fl, y in hints_for(den):
            def orc(out, bld, ne=ne):
                lazy = decompress_eager(out)
                if lazy:
                    return lazy
                out = gcanon(out)
                f = gfields(out)
                if f.get('sat') != '1':
                    return None
                if ne is None:
                    return 'an invalid encoding is decoded in-circuit under a forged hint'
                return None if f.get('out') == h32(ne) else 'decompress output differs from native under a forged hint'
            cases.append(Case('g.decompress s=%s hint=%d,%s' % (h32(s), fl, h32(y)), builds=R, cls='decompress:%s' % ('valid' if ne is not None else 'invalid'), oracle=orc, canon=gcanon,
                              sig='decompress:den%s:hint=%d:y2=%s' % ('0' if den == 0 else 'N', fl, '1' if y * y % q == 1 else ('0' if y == 0 else 'x'))))
    # compress / elligator under every hint
    els = elem_args(rng, encs, pg, 3)
    for cls, mk in els:
        # den of compress depends on the element; offer the universal candidates plus random
        for fl in (0, 1):
            for y in (0, 1, q - 1, rng.randrange(q)):
                cases.append(Case('g.compress %s hint=%d,%s' % (mk('e'), fl, h32(y)), builds=R, cls='compress-forged:' + cls, canon=gcanon,
                                  spec='g.compress %s' % mk('e'), spec_when=lambda io: gfields(io).get('sat') == '1'))
    for r0 in fvals:
        rr = M.zeta * r0 * r0 % q
        den = (M.D * rr - (M.D - M.A)) * ((M.D - M.A) * rr - M.D) % q
        num = (rr + 1) * (M.A - 2 * M.D) % q
        for fl, y in hints_for(num * den % q):
            cases.append(Case('g.elligator r0=%s hint=%d,%s' % (h32(r0), fl, h32(y)), builds=R, cls='elligator-forged', canon=gcanon, spec='spec.gell %s' % h32(r0),
                              spec_when=lambda io: gfields(io).get('sat') == '1'))
    # witnessed coordinates: off-curve, odd coset, (0,0), another element
    coords = [('zero-zero', 0, 0), ('identity', 0, 1), ('T2', 0, q - 1)]
    i4 = M.sqrt(q - 1)
    coords += [('order4', i4, 0), ('order4-', q - i4, 0)]
    for _ in range(6 if tier == 'quick' else 60):
        P = M.randpoint()
        even = M.leg(1 - M.d * P[0] * P[0]) == 1
        coords.append(('on-curve-even' if even else 'on-curve-odd', P[0], P[1]))
        coords.append(('off-curve', P[0], (P[1] + 1) % q))
        coords.append(('swapped', P[1], P[0]))
    for cls, x, y in coords:
        on = (M.A * x * x + y * y - 1 - M.d * x * x * y * y) % q == 0
        even = on and M.leg(1 - M.d * x * x) == 1
        def orc(out, bld, even=even):
            f = gfields(out)
            if f.get('sat') != '1':
                return None
            return None if even else 'witness allocation accepts coordinates that are not a group element'
        cases.append(Case('g.alloc_witness exy=%s,%s' % (h32(x), h32(y)), builds=R, cls='alloc-coords:' + cls, oracle=orc, canon=gcanon))
        for fl, yy in ((1, 1), (1, q - 1), (0, 0)):
            cases.append(Case('g.alloc_witness exy=%s,%s hint=%d,%s' % (h32(x), h32(y), fl, h32(yy)), builds=R, cls='alloc-coords-forged:' + cls, oracle=orc, canon=gcanon))
    # forged bit decompositions (harness `forge`): the sign is the lsb of the UNIQUE canonical decomposition, so the
    # decomposition x + q of the same residue must be rejected wherever bits are taken
    def oforge(minimum):
        def orc(out, bld):
            m = re.match(r'honest=(\d) groups=(\d+) tried=(\d+) accepted=(\d+) rejected=(\d+) stuck=(\d+)', out)
            if not m:
                return 'forging harness: ' + out[:120]
            honest, groups, tried, acc, rej, stuck = map(int, m.groups())
            if acc:
                return 'a non-canonical bit decomposition (x + q) satisfies the constraints: sign / absolute value can be forged'
            if stuck:
                return 'forging harness could not decide'
            if groups < minimum:
                return 'forging harness found no bit decomposition to attack (gadget layout changed?)'
            return None
        return orc
    # single-variable mutation attack (harness `mutate`): no witness allocated inside a gadget may be replaceable by
    # another value with all constraints still satisfiable and a different output
    def omut(out, bld):
        m = re.match(r'honest=1 vars=(\d+) tried=(\d+) free_same_output=(\d+) accepted_other_output=(\d+) stuck=(\d+)', out)
        if not m:
            return 'mutation harness: ' + out[:120]
        if int(m.group(4)):
            return 'a witness inside the gadget can be replaced by another value, all constraints stay satisfiable and the OUTPUT changes: ' + out[out.find(';') + 1:][:200]
        if int(m.group(2)) == 0:
            return 'mutation harness tried nothing'
        return None
    mel = [h32(sv) for sv in encs[:4 if tier == 'quick' else 12]]
    for i, e_ in enumerate(mel):
        cases.append(Case('g.mutate gadget=compress e=%s' % e_, builds=R, cls='mutate:compress', oracle=omut, nomodel=True))
        cases.append(Case('g.mutate gadget=decompress s=%s' % e_, builds=R, cls='mutate:decompress', oracle=omut, nomodel=True))
        cases.append(Case('g.mutate gadget=add a=%s b=%s' % (e_, mel[(i + 1) % len(mel)]), builds=R, cls='mutate:add', oracle=omut, nomodel=True))
        cases.append(Case('g.mutate gadget=sub a=%s b=%s' % (e_, e_), builds=R, cls='mutate:sub', oracle=omut, nomodel=True))
        cases.append(Case('g.mutate gadget=scalarmul a=%s bits=%s' % (e_, ''.join(rng.choice('01') for _ in range(6))), builds=R, cls='mutate:scalarmul', oracle=omut, nomodel=True))
    for x in fvals[:6 if tier == 'quick' else 30]:
        cases.append(Case('g.mutate gadget=elligator r0=%s' % h32(x), builds=R, cls='mutate:elligator', oracle=omut, nomodel=True))
        cases.append(Case('g.mutate gadget=abs x=%s' % h32(x), builds=R, cls='mutate:abs', oracle=omut, nomodel=True))
    small = [v for v in fvals + [0, 1, 2, 3, 12345, (1 << 253) - q - 1, (1 << 253) - q - 2] if v + q < (1 << 253)]
    for x in small[:12 if tier == 'quick' else 60]:
        for gname in ('isnonneg', 'isneg', 'abs'):
            cases.append(Case('g.forge gadget=%s x=%s' % (gname, h32(x)), builds=R, cls='forge-bits:' + gname, oracle=oforge(1), nomodel=True))
        cases.append(Case('g.forge gadget=elligator r0=%s' % h32(x), builds=R, cls='forge-bits:elligator', oracle=oforge(1), nomodel=True))
    for s in encs[:6 if tier == 'quick' else 30]:
        cases.append(Case('g.forge gadget=decompress s=%s' % h32(s), builds=R, cls='forge-bits:decompress', oracle=oforge(2), nomodel=True))
        cases.append(Case('g.forge gadget=compress e=%s' % h32(s), builds=R, cls='forge-bits:compress', oracle=oforge(2), nomodel=True))
    return cases


def gen_C15(rng, tier):
    cases = []
    R = ('r1cs',)
    encs = valid_encodings(rng, 6 if tier == 'quick' else 30)
    pg = ProgGen(rng, encs)
    els = elem_args(rng, encs, pg, 3)
    groups = {}
    def shape(gadget, arg, cls):
        groups.setdefault(gadget, [])
        c = Case('g.shape gadget=%s %s' % (gadget, arg), builds=R, cls='shape:%s:%s' % (gadget, cls), nomodel=True)
        groups[gadget].append(c)
        cases.append(c)
    for x in special_fq(rng, 3)[:12]:
        shape('isqrt', 'x=%s' % h32(x), 'special')
        shape('elligator', 'r0=%s' % h32(x), 'special')
        shape('abs', 'x=%s' % h32(x), 'special')
    for s in [0, 8] + encs[2:6]:
        shape('decompress', 's=%s' % h32(s), 'valid')
    for s in [1, q - 1, 2, 5]:
        shape('decompress', 's=%s' % h32(s), 'invalid')
    for cls, mk in els:
        shape('compress', mk('e'), cls)
        shape('alloc_witness', mk('e'), cls)
        shape('alloc_input', mk('e'), cls)
        shape('neg', mk('a'), cls)
        shape('dbl', mk('a'), cls)
        (cb, mb) = rng.choice(els)
        shape('add', mk('a') + ' ' + mb('b'), cls)
        shape('iseq', mk('a') + ' ' + mb('b'), cls)
        shape('select', mk('a') + ' ' + mb('b') + ' c=%d' % rng.randrange(2), cls)
        shape('scalarmul', mk('a') + ' bits=%s' % ''.join(rng.choice('01') for _ in range(16)), cls)
    # the oracle is relational over the group: same digest for every input and in both modes
    def mk_orc(gadget):
        seen = {}
        def orc(out, bld):
            m = re.match(r'prove=(\S+) setup=(\S+)$', out)
            if not m:
                return 'no shape: ' + out[:100]
            if m.group(1) != m.group(2):
                return 'constraint system differs between setup and proving mode'
            if gadget in seen and seen[gadget] != m.group(1):
                return 'constraint matrices depend on the input value'
            seen[gadget] = m.group(1)
            return None
        return orc
    for gadget, cs in groups.items():
        o = mk_orc(gadget)
        for c in cs:
            c.oracle = o
    # public input = [1, encode P] = to_field_elements, for every representative
    for cls, mk in els:
        def oinp(out, bld):
            f = gfields(out)
            o = f.get('out', '')
            m = re.match(r'([0-9a-f]{64});inst=0100000000000000000000000000000000000000000000000000000000000000,([0-9a-f]{64});tfe=([0-9a-f]{64})$', o)
            if f.get('sat') != '1' or not m:
                return 'public input allocation: ' + out[:200]
            return None if m.group(1) == m.group(2) == m.group(3) and f.get('ni') == '2' else 'public input is not exactly [1, encoding]'
        cases.append(Case('g.alloc_input %s' % mk('e'), builds=R, cls='public-input:' + cls, oracle=oinp, nomodel=True))
    # the seven pinned circuits as synthesised now have the dimensions baked into the pinned keys (cheap: no proving)
    def okeys(out, bld):
        m = re.match(r'circuit:(\S+) keys:(\S+) sat=(\d)$', out)
        if not m:
            return 'pinned circuit could not be synthesised: ' + out[:160]
        if m.group(3) != '1':
            return 'pinned circuit is not satisfied by an honest witness'
        return None if m.group(1) == m.group(2) else 'circuit dimensions differ from the pinned proving/verifying key'
    e0, e1 = h32(encs[0]), h32(encs[1 % len(encs)])
    for circ, arg in (('compression', 'e=' + e1), ('decompression', 'e=' + e1), ('public_element_input', 'e=' + e1), ('negation', 'e=' + e1),
                      ('elligator', 'r0=' + h32(5)), ('discrete_log', 'scalar=' + h32(12345)), ('add_assign_add', 'a=%s b=%s' % (e0, e1)),
                      ('compression', 'e=' + e0), ('negation', 'e=' + e0), ('elligator', 'r0=' + h32(0))):
        cases.append(Case('g.keyshape circuit=%s %s' % (circ, arg), builds=R, cls='keyshape:' + circ, oracle=okeys, nomodel=True))
    if tier == 'thorough':
        ok = expect('verify=1 wrong_input=0')
        for s in encs[:4]:
            for circ in ('compression', 'decompression', 'public_element_input', 'negation'):
                cases.append(Case('g.groth16 circuit=%s e=%s seed=%d' % (circ, h32(s), rng.getrandbits(30)), builds=R, cls='groth16:' + circ, oracle=ok, nomodel=True))
        for x in special_fq(rng, 2)[:6]:
            cases.append(Case('g.groth16 circuit=elligator r0=%s seed=%d' % (h32(x), rng.getrandbits(30)), builds=R, cls='groth16:elligator', oracle=ok, nomodel=True))
        # witnesses given by other representatives of the element (projective scale, the other coset member)
        for cls, mk in els[:6]:
            for circ in ('compression', 'negation', 'public_element_input'):
                cases.append(Case('g.groth16 circuit=%s %s seed=%d' % (circ, mk('e'), rng.getrandbits(30)), builds=R, cls='groth16:%s:%s' % (circ, cls), oracle=ok, nomodel=True))
        for i in range(4):
            cases.append(Case('g.groth16 circuit=add_assign_add a=%s b=%s seed=%d' % (h32(encs[i % len(encs)]), h32(encs[(i * 3 + 1) % len(encs)]), rng.getrandbits(30)),
                              builds=R, cls='groth16:add_assign_add', oracle=ok, nomodel=True))
        for _ in range(3):
            cases.append(Case('g.groth16 circuit=discrete_log scalar=%s seed=%d' % (h32(rng.getrandbits(256)), rng.getrandbits(30)), builds=R, cls='groth16:discrete_log', oracle=ok, nomodel=True))
    return cases


# ------------------------------------------------------------------------------------------------
# C16 BLS12-377 engine vs the reference engine (both linked into the arkworks harness)

def gen_C16(rng, tier):
    cases = []
    def pairs_equal(n):
        def f(out, bld):
            t = out.split(' ')
            for i in range(0, 2 * n, 2):
                if t[i] != t[i + 1]:
                    return 'engines differ (field %d): ours %s.. reference %s..' % (i // 2, t[i][:24], t[i + 1][:24])
            rest = t[2 * n:]
            for tok in rest:
                if tok.endswith('=0'):
                    return 'pairing law violated: ' + tok
            return None
        return f
    cases.append(Case('bls.gen', builds=('ark',), cls='generators', oracle=pairs_equal(4), nomodel=True))
    sc = [0, 1, 2, q - 1, q, q + 1, (q - 1) // 2, 1 << 64, (1 << 253) - 1, (1 << 256) - 1] + [rng.getrandbits(256) for _ in range(6 if tier == 'quick' else 40)]
    for i in range(len(sc) if tier == 'thorough' else 10):
        a, b = rng.choice(sc), rng.choice(sc)
        cases.append(Case('bls.mul %s %s' % (h32(a), h32(b)), builds=('ark',), cls='mul-pairing', oracle=pairs_equal(3), nomodel=True))
        cases.append(Case('bls.xchg %s %s' % (h32(a), h32(b)), builds=('ark',), cls='serialisation-exchange', oracle=expect('xchg=1'), nomodel=True))
    # malformed / non-canonical serialisations offered to both engines: same verdict and value
    same = lambda out, bld: None if len(out.split(' ')) == 2 and out.split(' ')[0] == out.split(' ')[1] else 'the two engines deserialise differently'
    coords = [0, 1, 2, p - 1, p, p + 1, (1 << 377) - 1, 1 << 376, rng.randrange(p), rng.getrandbits(384)]
    flagbytes = [0x00, 0x40, 0x80, 0xc0]
    for x in coords:
        xb = (x % (1 << 384)).to_bytes(48, 'little')
        for fb in flagbytes:
            b = bytearray(xb)
            b[47] |= fb
            cases.append(Case('bls.deser g1c %s' % bytes(b).hex(), builds=('ark',), cls='deser:g1-compressed', oracle=same, nomodel=True))
            cases.append(Case('bls.deser g1cu %s' % bytes(b).hex(), builds=('ark',), cls='deser:g1-compressed-unchecked', oracle=same, nomodel=True))
            for y in (0, 1, p, p - 1):
                yb = bytearray((y % (1 << 384)).to_bytes(48, 'little'))
                yb[47] |= fb
                cases.append(Case('bls.deser g1uu %s' % (xb + bytes(yb)).hex(), builds=('ark',), cls='deser:g1-uncompressed-unchecked', oracle=same, nomodel=True))
                cases.append(Case('bls.deser g1u %s' % (xb + bytes(yb)).hex(), builds=('ark',), cls='deser:g1-uncompressed', oracle=same, nomodel=True))
            for x1 in (0, p, 1):
                b2 = bytearray((x1 % (1 << 384)).to_bytes(48, 'little'))
                b2[47] |= fb
                cases.append(Case('bls.deser g2c %s' % (xb + bytes(b2)).hex(), builds=('ark',), cls='deser:g2-compressed', oracle=same, nomodel=True))
                cases.append(Case('bls.deser g2cu %s' % (xb + bytes(b2)).hex(), builds=('ark',), cls='deser:g2-compressed-unchecked', oracle=same, nomodel=True))
        cases.append(Case('bls.deser fp %s' % xb.hex(), builds=('ark',), cls='deser:fp', oracle=same, nomodel=True))
        cases.append(Case('bls.deser gt %s' % (xb + bytes(48 * 11)).hex(), builds=('ark',), cls='deser:gt', oracle=same, nomodel=True))
    for y in [0, q - 1, q, q + 1, (1 << 256) - 1, rng.getrandbits(256)]:
        cases.append(Case('bls.deser fr %s' % h32(y), builds=('ark',), cls='deser:fr', oracle=same, nomodel=True))
    return cases


# ------------------------------------------------------------------------------------------------
# C17: the constants as each build actually exposes them, against the model's reading of the source literals

def gen_C17(rng, tier):
    cases = []
    names = ['ZERO', 'ONE', 'MULTIPLICATIVE_GENERATOR', 'TWO_ADIC_ROOT_OF_UNITY', 'FIELD_SIZE_POWER_OF_TWO', 'MODULUS_LIMBS',
             'MODULUS_MINUS_ONE_DIV_TWO_LIMBS', 'TRACE_LIMBS', 'TRACE_MINUS_ONE_DIV_TWO_LIMBS', 'MODULUS_BIT_SIZE', 'TWO_ADICITY',
             'QUADRATIC_NON_RESIDUE_TO_TRACE', 'ZETA', 'MINUS_ONE', 'QUADRATIC_NON_RESIDUE']
    for fld in ('fq', 'fr', 'fp'):
        for nm in names:
            cases.append(Case('f.%s.const %s' % (fld, nm), cls='const:%s' % fld))
    # curve constants through the API
    cases.append(Case(prog(['E=gen', 'enc:E', 'i=id', 'enc:i', 'isid:i', 'd=dec:%s' % h32(8), 'eq:d,E']), cls='const:curve',
                      oracle=expect('%s %s 1 1' % (h32(8), ZERO32))))
    return cases


# ------------------------------------------------------------------------------------------------

# properties whose Props/Cxx.lean carries kernel-checked property theorems are claimed at level `proof`;
# the others run the correspondence + oracle only until their theorems land
LEVELS = {'C16': 'proof', 'C15': 'other', 'C04': 'proof', 'C05': 'proof', 'C08': 'proof', 'C01': 'proof', 'C02': 'proof', 'C03': 'proof', 'C09': 'proof', 'C12': 'proof', 'C13': 'proof', 'C14': 'proof', 'C10': 'proof', 'C11': 'proof', 'C06': 'proof', 'C07': 'proof'}

TB_FIELD = ['arkworks Montgomery arithmetic and fiat-crypto primitives: modelled by contract (exact arithmetic mod p)']

PROPS = {
    'C17': dict(level='proof', modules=['Decaf.Props.C17', 'Decaf.Spec.Primes'], namespaces=['C17', 'Model.prime_q', 'Model.prime_r', 'Model.prime_p'], gen=gen_C17,
                const_facts='c17',
                trusted_base=['statement of each defining equation in lean/Decaf/Model/ConstFacts.lean'],
                assumptions=['constants are read from the Rust source text by the translator; a constant that is renamed or removed makes its theorem fail']),
}

for pid, gen, extra in (
        ('C01', gen_C01, {}), ('C02', gen_C02, {}), ('C03', gen_C03, {}), ('C04', gen_C04, {}), ('C05', gen_C05, {}), ('C06', gen_C06, {}),
        ('C07', gen_C07, {}), ('C08', gen_C08, {}), ('C09', gen_C09, {}), ('C10', gen_C10, {}), ('C11', gen_C11, {}),
        ('C12', gen_C12, dict(cross_build=True)), ('C13', gen_C13, {}), ('C14', gen_C14, {}), ('C15', gen_C15, {}), ('C16', gen_C16, dict(const_facts='c16'))):
    PROPS[pid] = dict(level=LEVELS.get(pid, 'translation_validation'), modules=['Decaf.Props.%s' % pid], namespaces=[pid], gen=gen, trusted_base=list(TB_FIELD),
                      model_is_spec=pid in MODEL_IS_SPEC, **extra)
# translated code: Props/Translated/Cxx.lean restates the property theorems over the Rust bodies regenerated into Lean on every
# run (translator/extract_formulas.py -> Generated/Formulas.lean, proved equal to the hand model in Lemmas/Formulas/*)
FORMULAS = {
    'C01': ['ark_compress', 'ark_decompress', 'min_compress', 'min_decompress'],
    'C02': ['ark_decompress', 'min_decompress', 'convforms'],
    'C03': ['ark_compress', 'min_compress', 'ark_eq', 'min_eq', 'ark_affine_eq', 'convforms'],
    'C04': ['min_add', 'min_double', 'min_neg', 'opforms'],
    'C05': ['min_add', 'min_double', 'opforms', 'min_scalar_mul_step', 'min_scalar_mul', 'min_scalar_mul_vartime'],
    'C06': ['ark_decompress', 'min_decompress', 'ark_elligator', 'min_elligator'],
    'C07': ['ark_elligator', 'min_elligator', 'min_add', 'min_hash_to_curve', 'ark_hash_to_curve', 'min_encode_to_curve', 'ark_encode_to_curve'],
    'C08': ['ark_eq', 'min_eq', 'ark_affine_eq', 'ark_is_identity', 'min_is_identity', 'convforms'],
    'C10': ['fq_power_step', 'opforms'],
    'C11': ['fq_from_bytes_checked', 'fr_from_bytes_checked', 'fp_from_bytes_checked', 'fq_from_le_bytes_mod_order', 'fr_from_le_bytes_mod_order',
            'fp_from_le_bytes_mod_order', 'fq_to_bytes', 'fr_to_bytes', 'fp_to_bytes', 'opforms'],
    'C09': ['ark_sqrt_ratio_zeta', 'min_sqrt_ratio_zeta', 'min_pow_le_limbs_step', 'min_our_sqrt'],
    'C13': ['r1cs_compress', 'r1cs_decompress', 'r1cs_elligator', 'r1cs_is_eq', 'r1cs_isqrt', 'r1cs_is_nonnegative', 'r1cs_is_negative', 'r1cs_abs', 'r1cs_alloc_witness', 'lazy_element', 'lazy_encoding', 'opforms'],
    'C14': ['r1cs_compress', 'r1cs_decompress', 'r1cs_elligator', 'r1cs_isqrt', 'r1cs_is_nonnegative', 'r1cs_is_negative', 'r1cs_abs', 'r1cs_alloc_witness'],
    'C12': ['ark_compress', 'ark_decompress', 'ark_elligator', 'min_compress', 'min_decompress', 'min_elligator', 'min_add', 'min_double',
            'min_neg', 'ark_eq', 'min_eq', 'ark_is_identity', 'min_is_identity'],
}
for _pid, _fs in FORMULAS.items():
    PROPS[_pid]['modules'] = PROPS[_pid]['modules'] + ['Decaf.Props.Translated.%s' % _pid]
    PROPS[_pid]['formulas'] = _fs
    PROPS[_pid]['namespaces'] = PROPS[_pid]['namespaces'] + ['Formulas', 'Code']

PROPS['C15']['explanation'] = ('Observation, not proof: the constraint matrices are produced at run time by ark-r1cs-std and key compatibility is a fact about '
                               'ark-groth16; the check digests to_matrices() of every gadget over all input classes and in Setup vs Prove mode, checks that a public '
                               'element contributes exactly the instance [1, encode P] = to_field_elements, and (thorough) proves/verifies with the pinned keys and '
                               'rejects a perturbed public input. What Lean proves about C15 is only public-input coherence (Props/C15.lean).')
