//! placeholder, filled in for C13-C15
pub fn exec_gadget(_o: &str, _args: &[&str]) -> String { "unsupported".into() }
