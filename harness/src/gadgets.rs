//! R1CS gadget operations of the line protocol (`g.<op> key=value …`), r1cs build with `--cfg decaf377_verif`.
use super::*;
use ark_ff::{Field, PrimeField, ToConstraintField, Zero};
use ark_groth16::{r1cs_to_qap::LibsnarkReduction, Groth16, ProvingKey, VerifyingKey};
use ark_r1cs_std::fields::fp::FpVar;
use ark_r1cs_std::prelude::*;
use ark_r1cs_std::R1CSVar;
use ark_relations::r1cs::{ConstraintSynthesizer, ConstraintSystem, ConstraintSystemRef, OptimizationGoal, SynthesisError, SynthesisMode};
use ark_serialize::CanonicalDeserialize;
use ark_snark::SNARK;
use decaf377::r1cs::fqvar_ext::FqVarExtension;
use decaf377::r1cs::{verif, ElementVar, FqVar};
use decaf377::{Bls12_377, Element, Fq, Fr};
use std::collections::HashMap as Map;

type R<T> = Result<T, String>;

fn se(e: SynthesisError) -> String {
    format!("synth-err:{:?}", e).replace(' ', "_")
}

struct Args<'a> {
    kv: Vec<(&'a str, &'a str)>,
}
impl<'a> Args<'a> {
    fn parse(args: &[&'a str]) -> Self {
        let mut kv = Vec::new();
        for a in args {
            match a.find('=') {
                Some(i) => kv.push((&a[..i], &a[i + 1..])),
                None => kv.push((*a, "")),
            }
        }
        Args { kv }
    }
    fn get(&self, k: &str) -> Option<&'a str> {
        self.kv.iter().find(|(a, _)| *a == k).map(|(_, v)| *v)
    }
    fn all(&self, k: &str) -> Vec<&'a str> {
        self.kv.iter().filter(|(a, _)| *a == k).map(|(_, v)| *v).collect()
    }
    fn fq(&self, k: &str) -> R<Fq> {
        fq_of(self.get(k).ok_or("bad-op")?).ok_or_else(|| "bad-op".to_string())
    }
    /// element from `k=<encoding hex>` (decoded natively), `kxy=<x>,<y>` (unchecked) or `kp=<program>` (register E)
    fn elem(&self, k: &str) -> R<Element> {
        if let Some(h) = self.get(k) {
            let b = unhex(h).ok_or("bad-op")?;
            return Element::try_from(&b[..]).map_err(|_| "bad-elem".to_string());
        }
        if let Some(xy) = self.get(&format!("{}xy", k)) {
            let mut it = xy.split(',');
            let x = fq_of(it.next().ok_or("bad-op")?).ok_or("bad-op")?;
            let y = fq_of(it.next().ok_or("bad-op")?).ok_or("bad-op")?;
            return Ok(Element::from_affine_unchecked(x, y));
        }
        if let Some(p) = self.get(&format!("{}p", k)) {
            return crate::group_ark::eval_elem(p);
        }
        Err("bad-op".into())
    }
    fn hints(&self) -> R<Vec<Option<(bool, Fq)>>> {
        let mut out = Vec::new();
        for h in self.all("hint") {
            if h == "honest" {
                out.push(None);
            } else {
                let mut it = h.split(',');
                let f = it.next().ok_or("bad-op")? == "1";
                let y = fq_of(it.next().ok_or("bad-op")?).ok_or("bad-op")?;
                out.push(Some((f, y)));
            }
        }
        Ok(out)
    }
}

fn fqh(x: &Fq) -> String {
    tohex(&x.to_bytes_le())
}
fn absq(x: Fq) -> Fq {
    if x.to_bytes_le()[0] & 1 == 1 { -x } else { x }
}
fn ench(e: &Element) -> String {
    tohex(&e.vartime_compress().0)
}

fn elem_value(v: &ElementVar) -> String {
    match catch_unwind(AssertUnwindSafe(|| v.value())) {
        Ok(Ok(e)) => ench(&e),
        Ok(Err(_)) => "novalue".into(),
        Err(_) => "offcurve".into(),
    }
}

fn new_cs(setup: bool) -> ConstraintSystemRef<Fq> {
    let cs = ConstraintSystem::<Fq>::new_ref();
    cs.set_optimization_goal(OptimizationGoal::Constraints);
    if setup {
        cs.set_mode(SynthesisMode::Setup);
    }
    cs
}

fn finish(cs: &ConstraintSystemRef<Fq>, out: String) -> String {
    let sat = match cs.is_satisfied() {
        Ok(true) => "1",
        Ok(false) => "0",
        Err(_) => "err",
    };
    format!("sat={} out={} nc={} nw={} ni={}", sat, out, cs.num_constraints(), cs.num_witness_variables(), cs.num_instance_variables())
}

fn matrices_digest(cs: &ConstraintSystemRef<Fq>) -> String {
    cs.finalize();
    let m = match cs.to_matrices() {
        Some(m) => m,
        None => return "nomatrices".into(),
    };
    let mut h = DefaultHasher::new();
    for mat in [&m.a, &m.b, &m.c] {
        mat.len().hash(&mut h);
        for row in mat.iter() {
            row.len().hash(&mut h);
            for (coeff, idx) in row.iter() {
                coeff.to_bytes_le().hash(&mut h);
                idx.hash(&mut h);
            }
        }
    }
    format!("{:016x}:nc={}:nw={}:ni={}", h.finish(), m.num_constraints, m.num_witness_variables, m.num_instance_variables)
}

/// allocate an element as a plain witness (curve equation only, no decoding), to exercise one gadget in isolation
fn alloc_plain(cs: &ConstraintSystemRef<Fq>, e: Element) -> R<ElementVar> {
    <ElementVar as CurveVar<Element, Fq>>::new_variable_omit_prime_order_check(cs.clone(), || Ok(e), AllocationMode::Witness).map_err(se)
}

/// synthesise gadget `op`; returns the textual output value
fn synth(op: &str, a: &Args, cs: &ConstraintSystemRef<Fq>) -> R<String> {
    match op {
        "isqrt" => {
            let x = a.fq("x")?;
            let xv = FqVar::new_witness(cs.clone(), || Ok(x)).map_err(se)?;
            let (f, y) = xv.isqrt().map_err(se)?;
            let fv = f.value().map(|b| if b { "1" } else { "0" }).unwrap_or("?");
            let yv = y.value().map(|v| fqh(&absq(v))).unwrap_or_else(|_| "?".into());
            Ok(format!("{},{}", fv, yv))
        }
        "isneg" | "isnonneg" | "abs" => {
            let x = a.fq("x")?;
            let xv = FqVar::new_witness(cs.clone(), || Ok(x)).map_err(se)?;
            match op {
                "isneg" => Ok(xv.is_negative().map_err(se)?.value().map(|b| if b { "1" } else { "0" }).unwrap_or("?").to_string()),
                "isnonneg" => Ok(xv.is_nonnegative().map_err(se)?.value().map(|b| if b { "1" } else { "0" }).unwrap_or("?").to_string()),
                _ => Ok(xv.abs().map_err(se)?.value().map(|v| fqh(&v)).unwrap_or_else(|_| "?".into())),
            }
        }
        "compress" => {
            let e = a.elem("e")?;
            let ev = alloc_plain(cs, e)?;
            let s = ev.compress_to_field().map_err(se)?;
            Ok(s.value().map(|v| fqh(&v)).unwrap_or_else(|_| "?".into()))
        }
        "decompress" => {
            let s = a.fq("s")?;
            let sv = FqVar::new_witness(cs.clone(), || Ok(s)).map_err(se)?;
            let ev = ElementVar::decompress_from_field(sv).map_err(se)?;
            // satisfaction and size right after the gadget call, before anything forces the variable
            let sat0 = match cs.is_satisfied() { Ok(true) => "1", Ok(false) => "0", Err(_) => "err" };
            let nc0 = cs.num_constraints();
            let v = elem_value(&ev);
            Ok(format!("{};sat0={};dnc={}", v, sat0, cs.num_constraints() - nc0))
        }
        "elligator" => {
            let r0 = a.fq("r0")?;
            let rv = FqVar::new_witness(cs.clone(), || Ok(r0)).map_err(se)?;
            let ev = ElementVar::encode_to_curve(&rv).map_err(se)?;
            Ok(elem_value(&ev))
        }
        "add" | "sub" | "iseq" | "enforce_eq" | "enforce_neq" | "select" | "add_asg" | "sub_asg" | "add_ref" | "sub_ref" | "add_const" | "sub_const"
        | "add_const_asg" | "sub_const_asg" => {
            let x = a.elem("a")?;
            let y = a.elem("b")?;
            let xv = alloc_plain(cs, x)?;
            let yv = alloc_plain(cs, y)?;
            match op {
                "add" => Ok(elem_value(&(xv + yv))),
                "sub" => Ok(elem_value(&(xv - yv))),
                "add_ref" => Ok(elem_value(&(xv + &yv))),
                "sub_ref" => Ok(elem_value(&(xv - &yv))),
                "add_asg" => { let mut z = xv; z += yv; Ok(elem_value(&z)) }
                "sub_asg" => { let mut z = xv; z -= yv; Ok(elem_value(&z)) }
                "add_const" => Ok(elem_value(&(xv + y))),
                "sub_const" => Ok(elem_value(&(xv - y))),
                "add_const_asg" => { let mut z = xv; z += y; Ok(elem_value(&z)) }
                "sub_const_asg" => { let mut z = xv; z -= y; Ok(elem_value(&z)) }
                "iseq" => Ok(xv.is_eq(&yv).map_err(se)?.value().map(|b| if b { "1" } else { "0" }).unwrap_or("?").to_string()),
                "enforce_eq" => { xv.enforce_equal(&yv).map_err(se)?; Ok("-".into()) }
                "enforce_neq" => { xv.enforce_not_equal(&yv).map_err(se)?; Ok("-".into()) }
                _ => {
                    let c = a.get("c").unwrap_or("0") == "1";
                    let cv = Boolean::new_witness(cs.clone(), || Ok(c)).map_err(se)?;
                    Ok(elem_value(&ElementVar::conditionally_select(&cv, &xv, &yv).map_err(se)?))
                }
            }
        }
        "neg" | "dbl" => {
            let x = a.elem("a")?;
            let xv = alloc_plain(cs, x)?;
            if op == "neg" {
                Ok(elem_value(&xv.negate().map_err(se)?))
            } else {
                let mut z = xv;
                z.double_in_place().map_err(se)?;
                Ok(elem_value(&z))
            }
        }
        "scalarmul" => {
            let x = a.elem("a")?;
            let bits = a.get("bits").ok_or("bad-op")?;
            let xv = alloc_plain(cs, x)?;
            let mut bv = Vec::new();
            for ch in bits.chars() {
                bv.push(Boolean::new_witness(cs.clone(), || Ok(ch == '1')).map_err(se)?);
            }
            Ok(elem_value(&xv.scalar_mul_le(bv.iter()).map_err(se)?))
        }
        "alloc_witness" => {
            let e = a.elem("e")?;
            let ev = ElementVar::new_witness(cs.clone(), || Ok(e)).map_err(se)?;
            Ok(elem_value(&ev))
        }
        "alloc_witness_aff" => {
            let e = a.elem("e")?;
            let aff: <Element as ark_ec::CurveGroup>::Affine = e.into();
            let ev = <ElementVar as AllocVar<_, Fq>>::new_witness(cs.clone(), || Ok(aff)).map_err(se)?;
            Ok(elem_value(&ev))
        }
        "alloc_constant" => {
            let e = a.elem("e")?;
            let ev = ElementVar::new_constant(cs.clone(), e).map_err(se)?;
            Ok(elem_value(&ev))
        }
        "alloc_input" => {
            let e = a.elem("e")?;
            let ev = ElementVar::new_input(cs.clone(), || Ok(e)).map_err(se)?;
            let v = elem_value(&ev);
            let inst: Vec<String> = cs.borrow().unwrap().instance_assignment.iter().map(fqh).collect();
            let tfe: Vec<String> = e.to_field_elements().unwrap().iter().map(fqh).collect();
            Ok(format!("{};inst={};tfe={}", v, inst.join(","), tfe.join(",")))
        }
        "alloc_input_fq" => {
            let s = a.fq("s")?;
            let ev = <ElementVar as AllocVar<Fq, Fq>>::new_input(cs.clone(), || Ok(s)).map_err(se)?;
            let inst: Vec<String> = cs.borrow().unwrap().instance_assignment.iter().map(fqh).collect();
            let c = ev.compress_to_field().map_err(se)?.value().map(|v| fqh(&v)).unwrap_or_else(|_| "?".into());
            Ok(format!("{};inst={}", c, inst.join(",")))
        }
        "lazy" => {
            // from=enc s=<fq> | from=elem e=<enc>; ops=enc,elem,…  -> per step value and constraint delta
            let ops = a.get("ops").unwrap_or("");
            let var = if a.get("from") == Some("enc") {
                let s = a.fq("s")?;
                <ElementVar as AllocVar<Fq, Fq>>::new_witness(cs.clone(), || Ok(s)).map_err(se)?
            } else {
                alloc_plain(cs, a.elem("e")?)?
            };
            let mut outs = Vec::new();
            for o in ops.split(',').filter(|s| !s.is_empty()) {
                let before = cs.num_constraints();
                let v = match o {
                    "enc" => var.compress_to_field().map_err(se)?.value().map(|v| fqh(&v)).unwrap_or_else(|_| "?".into()),
                    "elem" => elem_value(&var),
                    "clone_enc" => var.clone().compress_to_field().map_err(se)?.value().map(|v| fqh(&v)).unwrap_or_else(|_| "?".into()),
                    "clone_elem" => elem_value(&var.clone()),
                    _ => return Err("bad-op".into()),
                };
                outs.push(format!("{}:{}+{}", o, v, cs.num_constraints() - before));
            }
            Ok(outs.join("|"))
        }
        _ => Err("unsupported".into()),
    }
}

struct Circuit<F: FnOnce(ConstraintSystemRef<Fq>) -> Result<(), SynthesisError>>(F);
impl<F: FnOnce(ConstraintSystemRef<Fq>) -> Result<(), SynthesisError>> ConstraintSynthesizer<Fq> for Circuit<F> {
    fn generate_constraints(self, cs: ConstraintSystemRef<Fq>) -> Result<(), SynthesisError> {
        (self.0)(cs)
    }
}

fn load_keys(name: &str) -> R<(ProvingKey<Bls12_377>, VerifyingKey<Bls12_377>)> {
    let dir = std::env::var("VERIF_REPO").unwrap_or_else(|_| "/repo".into());
    let pk = std::fs::read(format!("{}/tests/test_vectors/{}_pk.bin", dir, name)).map_err(|e| format!("io:{}", e))?;
    let vk = std::fs::read(format!("{}/tests/test_vectors/{}_vk.param", dir, name)).map_err(|e| format!("io:{}", e))?;
    let pk = ProvingKey::deserialize_uncompressed_unchecked(&pk[..]).map_err(|_| "bad-pk")?;
    let vk = VerifyingKey::deserialize_uncompressed(&vk[..]).map_err(|_| "bad-vk")?;
    Ok((pk, vk))
}

/// the seven pinned circuits of tests/groth16_gadgets.rs, statement for statement (the order of the operands of
/// `enforce_equal` and the allocation forms matter: they fix the rows of the constraint matrices the keys were made for)
fn pinned(name: &str, a: &Args) -> R<(Box<dyn FnOnce(ConstraintSystemRef<Fq>) -> Result<(), SynthesisError>>, Vec<Fq>)> {
    match name {
        "compression" => {
            let e = a.elem("e")?;
            let fe = e.vartime_compress_to_field();
            Ok((Box::new(move |cs| {
                let w = ElementVar::new_witness(cs.clone(), || Ok(e))?;
                let p = FqVar::new_input(cs, || Ok(fe))?;
                p.enforce_equal(&w.compress_to_field()?)
            }), vec![fe]))
        }
        "decompression" => {
            let e = a.elem("e")?;
            let fe = e.vartime_compress_to_field();
            Ok((Box::new(move |cs| {
                let w = FqVar::new_witness(cs.clone(), || Ok(fe))?;
                let p: ElementVar = AllocVar::<Fq, Fq>::new_input(cs, || Ok(fe))?;
                let t = ElementVar::decompress_from_field(w)?;
                p.enforce_equal(&t)
            }), e.to_field_elements().unwrap()))
        }
        "elligator" => {
            let r0 = a.fq("r0")?;
            let e = Element::encode_to_curve(&r0);
            Ok((Box::new(move |cs| {
                let w = FqVar::new_witness(cs.clone(), || Ok(r0))?;
                let p = ElementVar::new_input(cs, || Ok(e))?;
                let t = ElementVar::encode_to_curve(&w)?;
                p.enforce_equal(&t)
            }), e.to_field_elements().unwrap()))
        }
        "discrete_log" => {
            let sc = unhex(a.get("scalar").ok_or("bad-op")?).ok_or("bad-op")?;
            let sc: [u8; 32] = sc.try_into().map_err(|_| "bad-op")?;
            let public = Fr::from_le_bytes_mod_order(&sc[..]) * Element::GENERATOR;
            Ok((Box::new(move |cs| {
                let w = UInt8::new_witness_vec(cs.clone(), &sc)?;
                let cp = public.vartime_compress_to_field();
                let p: ElementVar = AllocVar::<Fq, Fq>::new_input(cs.clone(), || Ok(cp))?;
                let b = ElementVar::new_constant(cs, Element::GENERATOR)?;
                let t = b.scalar_mul_le(w.to_bits_le()?.iter())?;
                p.enforce_equal(&t)
            }), public.to_field_elements().unwrap()))
        }
        "public_element_input" => {
            let e = a.elem("e")?;
            Ok((Box::new(move |cs| {
                let _p = ElementVar::new_input(cs, || Ok(e))?;
                Ok(())
            }), e.to_field_elements().unwrap()))
        }
        "negation" => {
            let e = a.elem("e")?;
            let n = -e;
            Ok((Box::new(move |cs| {
                let w = ElementVar::new_witness(cs.clone(), || Ok(e))?;
                let p = ElementVar::new_input(cs, || Ok(n))?;
                let t = w.negate()?;
                t.enforce_equal(&p)
            }), n.to_field_elements().unwrap()))
        }
        "add_assign_add" => {
            let ea = a.elem("a")?;
            let eb = a.elem("b")?;
            let (c, d) = (ea + eb, ea - eb);
            let mut public = c.to_field_elements().unwrap();
            public.extend_from_slice(&d.to_field_elements().unwrap());
            Ok((Box::new(move |cs| {
                let a = ElementVar::new_witness(cs.clone(), || Ok(ea))?;
                let b = ElementVar::new_witness(cs.clone(), || Ok(eb))?;
                let c_pub = ElementVar::new_input(cs.clone(), || Ok(c))?;
                let c_add = a.clone() + b.clone();
                let mut c_add_assign = a.clone();
                c_add_assign += b.clone();
                c_add.enforce_equal(&c_pub)?;
                c_add_assign.enforce_equal(&c_pub)?;
                let d_pub = ElementVar::new_input(cs, || Ok(d))?;
                let d_sub = a.clone() - b.clone();
                let mut d_sub_assign = a.clone();
                d_sub_assign -= b;
                d_sub.enforce_equal(&d_pub)?;
                d_sub_assign.enforce_equal(&d_pub)
            }), public))
        }
        _ => Err("unsupported".into()),
    }
}

pub fn exec_gadget(op: &str, args: &[&str]) -> String {
    let a = Args::parse(args);
    let r: R<String> = (|| {
        if op == "groth16" {
            let name = a.get("circuit").ok_or("bad-op")?;
            let (pk, vk) = load_keys(name)?;
            let (circ, public) = pinned(name, &a)?;
            let mut rng = rand_chacha::ChaChaRng::seed_from_u64(a.get("seed").and_then(|s| s.parse().ok()).unwrap_or(1));
            use rand_core::SeedableRng;
            let proof = Groth16::<Bls12_377, LibsnarkReduction>::prove(&pk, Circuit(circ), &mut rng).map_err(|e| format!("prove-err:{:?}", e).replace(' ', "_"))?;
            let pvk = Groth16::<Bls12_377, LibsnarkReduction>::process_vk(&vk).map_err(|_| "vk-err")?;
            let ok = Groth16::<Bls12_377, LibsnarkReduction>::verify_with_processed_vk(&pvk, &public, &proof).map_err(|_| "verify-err")?;
            let mut wrong = public.clone();
            wrong[0] += Fq::from(1u64);
            let bad = Groth16::<Bls12_377, LibsnarkReduction>::verify_with_processed_vk(&pvk, &wrong, &proof).map_err(|_| "verify-err")?;
            return Ok(format!("verify={} wrong_input={}", ok as u8, bad as u8));
        }
        if op == "shape" {
            let g = a.get("gadget").ok_or("bad-op")?;
            let mut digests = Vec::new();
            for setup in [false, true] {
                verif::set_hints(a.hints()?);
                let cs = new_cs(setup);
                match catch_unwind(AssertUnwindSafe(|| synth(g, &a, &cs))) {
                    Ok(Ok(_)) => {}
                    Ok(Err(e)) => { if !setup { return Err(e); } }
                    Err(_) => { if !setup { return Err("panic".into()); } }
                }
                digests.push(matrices_digest(&cs));
            }
            return Ok(format!("prove={} setup={}", digests[0], digests[1]));
        }
        verif::set_hints(a.hints()?);
        let cs = new_cs(false);
        let out = synth(op, &a, &cs)?;
        Ok(finish(&cs, out))
    })();
    verif::set_hints(vec![]);
    match r {
        Ok(s) => s,
        Err(e) => e,
    }
}
