//! R1CS gadget operations of the line protocol (`g.<op> key=value …`), r1cs build with `--cfg decaf377_verif`.
use super::*;
use ark_ff::{Field, PrimeField, ToConstraintField, Zero};
use ark_groth16::{r1cs_to_qap::LibsnarkReduction, Groth16, ProvingKey, VerifyingKey};
use ark_r1cs_std::fields::fp::FpVar;
use ark_r1cs_std::prelude::*;
use ark_r1cs_std::R1CSVar;
use ark_relations::r1cs::{ConstraintSynthesizer, ConstraintSystem, ConstraintSystemRef, OptimizationGoal, SynthesisError, SynthesisMode};
use ark_serialize::CanonicalDeserialize;
use ark_snark::SNARK;
use decaf377::r1cs::fqvar_ext::FqVarExtension;
use decaf377::r1cs::{verif, ElementVar, FqVar};
use decaf377::{Bls12_377, Element, Fq, Fr};
use std::collections::HashMap as Map;

type R<T> = Result<T, String>;

fn se(e: SynthesisError) -> String {
    format!("synth-err:{:?}", e).replace(' ', "_")
}

struct Args<'a> {
    kv: Vec<(&'a str, &'a str)>,
}
impl<'a> Args<'a> {
    fn parse(args: &[&'a str]) -> Self {
        let mut kv = Vec::new();
        for a in args {
            match a.find('=') {
                Some(i) => kv.push((&a[..i], &a[i + 1..])),
                None => kv.push((*a, "")),
            }
        }
        Args { kv }
    }
    fn get(&self, k: &str) -> Option<&'a str> {
        self.kv.iter().find(|(a, _)| *a == k).map(|(_, v)| *v)
    }
    fn all(&self, k: &str) -> Vec<&'a str> {
        self.kv.iter().filter(|(a, _)| *a == k).map(|(_, v)| *v).collect()
    }
    fn fq(&self, k: &str) -> R<Fq> {
        fq_of(self.get(k).ok_or("bad-op")?).ok_or_else(|| "bad-op".to_string())
    }
    /// element from `k=<encoding hex>` (decoded natively), `kxy=<x>,<y>` (unchecked) or `kp=<program>` (register E)
    fn elem(&self, k: &str) -> R<Element> {
        if let Some(h) = self.get(k) {
            let b = unhex(h).ok_or("bad-op")?;
            return Element::try_from(&b[..]).map_err(|_| "bad-elem".to_string());
        }
        if let Some(xy) = self.get(&format!("{}xy", k)) {
            let mut it = xy.split(',');
            let x = fq_of(it.next().ok_or("bad-op")?).ok_or("bad-op")?;
            let y = fq_of(it.next().ok_or("bad-op")?).ok_or("bad-op")?;
            return Ok(Element::from_affine_unchecked(x, y));
        }
        if let Some(p) = self.get(&format!("{}p", k)) {
            return crate::group_ark::eval_elem(p);
        }
        Err("bad-op".into())
    }
    fn hints(&self) -> R<Vec<Option<(bool, Fq)>>> {
        let mut out = Vec::new();
        for h in self.all("hint") {
            if h == "honest" {
                out.push(None);
            } else {
                let mut it = h.split(',');
                let f = it.next().ok_or("bad-op")? == "1";
                let y = fq_of(it.next().ok_or("bad-op")?).ok_or("bad-op")?;
                out.push(Some((f, y)));
            }
        }
        Ok(out)
    }
}

fn fqh(x: &Fq) -> String {
    tohex(&x.to_bytes_le())
}
fn absq(x: Fq) -> Fq {
    if x.to_bytes_le()[0] & 1 == 1 { -x } else { x }
}
fn ench(e: &Element) -> String {
    tohex(&e.vartime_compress().0)
}

fn elem_value(v: &ElementVar) -> String {
    match catch_unwind(AssertUnwindSafe(|| v.value())) {
        Ok(Ok(e)) => ench(&e),
        Ok(Err(_)) => "novalue".into(),
        Err(_) => "offcurve".into(),
    }
}

fn new_cs(setup: bool) -> ConstraintSystemRef<Fq> {
    let cs = ConstraintSystem::<Fq>::new_ref();
    cs.set_optimization_goal(OptimizationGoal::Constraints);
    if setup {
        cs.set_mode(SynthesisMode::Setup);
    }
    cs
}

fn finish(cs: &ConstraintSystemRef<Fq>, out: String) -> String {
    let sat = match cs.is_satisfied() {
        Ok(true) => "1",
        Ok(false) => "0",
        Err(_) => "err",
    };
    format!("sat={} out={} nc={} nw={} ni={}", sat, out, cs.num_constraints(), cs.num_witness_variables(), cs.num_instance_variables())
}

fn matrices_digest(cs: &ConstraintSystemRef<Fq>) -> String {
    cs.finalize();
    let m = match cs.to_matrices() {
        Some(m) => m,
        None => return "nomatrices".into(),
    };
    let mut h = DefaultHasher::new();
    for mat in [&m.a, &m.b, &m.c] {
        mat.len().hash(&mut h);
        for row in mat.iter() {
            row.len().hash(&mut h);
            for (coeff, idx) in row.iter() {
                coeff.to_bytes_le().hash(&mut h);
                idx.hash(&mut h);
            }
        }
    }
    format!("{:016x}:nc={}:nw={}:ni={}", h.finish(), m.num_constraints, m.num_witness_variables, m.num_instance_variables)
}

/// allocate an element as a plain witness (curve equation only, no decoding), to exercise one gadget in isolation
fn alloc_plain(cs: &ConstraintSystemRef<Fq>, e: Element) -> R<ElementVar> {
    <ElementVar as CurveVar<Element, Fq>>::new_variable_omit_prime_order_check(cs.clone(), || Ok(e), AllocationMode::Witness).map_err(se)
}

/// the value of an element-valued result; with `post=enc` also the encoding the gadget computes for it in-circuit
/// (a stale or wrong cached encoding shows up here and nowhere else)
fn fin(a: &Args, z: &ElementVar) -> R<String> {
    let mut s = elem_value(z);
    if a.get("post") == Some("enc") {
        let e = z.compress_to_field().map_err(se)?;
        s.push_str(";enc=");
        s.push_str(&e.value().map(|v| fqh(&v)).unwrap_or_else(|_| "?".into()));
    }
    Ok(s)
}

/// field inputs of the field-level gadgets: witness (default), or a constant with `fmode=const`
fn alloc_fq(a: &Args, cs: &ConstraintSystemRef<Fq>, x: Fq) -> R<FqVar> {
    if a.get("fmode") == Some("const") {
        FqVar::new_constant(cs.clone(), x).map_err(se)
    } else {
        FqVar::new_witness(cs.clone(), || Ok(x)).map_err(se)
    }
}

/// operand allocation; with `pre=enc` the operand's encoding is forced (and cached in its lazy cell) before use,
/// with `pre=input` it is allocated as a public input (encoding known, element decoded in-circuit)
fn alloc_operand(a: &Args, cs: &ConstraintSystemRef<Fq>, e: Element) -> R<ElementVar> {
    match a.get("pre") {
        Some("input") => ElementVar::new_input(cs.clone(), || Ok(e)).map_err(se),
        Some("const") => ElementVar::new_constant(cs.clone(), e).map_err(se),
        Some("enc") => {
            let v = alloc_plain(cs, e)?;
            let _ = v.compress_to_field().map_err(se)?;
            Ok(v)
        }
        _ => alloc_plain(cs, e),
    }
}

/// synthesise gadget `op`; returns the textual output value
fn synth(op: &str, a: &Args, cs: &ConstraintSystemRef<Fq>) -> R<String> {
    match op {
        "isqrt" => {
            let x = a.fq("x")?;
            let xv = alloc_fq(a, cs, x)?;
            let (f, y) = xv.isqrt().map_err(se)?;
            let fv = f.value().map(|b| if b { "1" } else { "0" }).unwrap_or("?");
            let yv = y.value().map(|v| fqh(&absq(v))).unwrap_or_else(|_| "?".into());
            Ok(format!("{},{}", fv, yv))
        }
        "isneg" | "isnonneg" | "abs" => {
            let x = a.fq("x")?;
            let xv = alloc_fq(a, cs, x)?;
            match op {
                "isneg" => Ok(xv.is_negative().map_err(se)?.value().map(|b| if b { "1" } else { "0" }).unwrap_or("?").to_string()),
                "isnonneg" => Ok(xv.is_nonnegative().map_err(se)?.value().map(|b| if b { "1" } else { "0" }).unwrap_or("?").to_string()),
                _ => Ok(xv.abs().map_err(se)?.value().map(|v| fqh(&v)).unwrap_or_else(|_| "?".into())),
            }
        }
        "compress" => {
            let e = a.elem("e")?;
            let ev = alloc_operand(a, cs, e)?;
            let s = ev.compress_to_field().map_err(se)?;
            Ok(s.value().map(|v| fqh(&v)).unwrap_or_else(|_| "?".into()))
        }
        "decompress" => {
            let s = a.fq("s")?;
            let sv = alloc_fq(a, cs, s)?;
            let ev = ElementVar::decompress_from_field(sv).map_err(se)?;
            // satisfaction and size right after the gadget call, before anything forces the variable
            let sat0 = match cs.is_satisfied() { Ok(true) => "1", Ok(false) => "0", Err(_) => "err" };
            let nc0 = cs.num_constraints();
            let v = elem_value(&ev);
            Ok(format!("{};sat0={};dnc={}", v, sat0, cs.num_constraints() - nc0))
        }
        "elligator" => {
            let r0 = a.fq("r0")?;
            let rv = alloc_fq(a, cs, r0)?;
            let ev = ElementVar::encode_to_curve(&rv).map_err(se)?;
            Ok(elem_value(&ev))
        }
        "add" | "sub" | "iseq" | "enforce_eq" | "enforce_neq" | "cenforce_eq" | "cenforce_neq" | "select" | "add_asg" | "sub_asg" | "add_ref" | "sub_ref" | "add_const" | "sub_const"
        | "add_const_asg" | "sub_const_asg" => {
            let x = a.elem("a")?;
            let y = a.elem("b")?;
            let xv = alloc_operand(a, cs, x)?;
            let yv = alloc_plain(cs, y)?;
            match op {
                "add" => fin(a, &(xv + yv)),
                "sub" => fin(a, &(xv - yv)),
                "add_ref" => fin(a, &(xv + &yv)),
                "sub_ref" => fin(a, &(xv - &yv)),
                "add_asg" => { let mut z = xv; z += yv; fin(a, &z) }
                "sub_asg" => { let mut z = xv; z -= yv; fin(a, &z) }
                "add_const" => fin(a, &(xv + y)),
                "sub_const" => fin(a, &(xv - y)),
                "add_const_asg" => { let mut z = xv; z += y; fin(a, &z) }
                "sub_const_asg" => { let mut z = xv; z -= y; fin(a, &z) }
                "iseq" => Ok(xv.is_eq(&yv).map_err(se)?.value().map(|b| if b { "1" } else { "0" }).unwrap_or("?").to_string()),
                "enforce_eq" => { xv.enforce_equal(&yv).map_err(se)?; Ok("-".into()) }
                "enforce_neq" => { xv.enforce_not_equal(&yv).map_err(se)?; Ok("-".into()) }
                "cenforce_eq" | "cenforce_neq" => {
                    // conditional enforcement: the flag as a witness, a public input or a constant (`cmode`)
                    let c = a.get("c").unwrap_or("0") == "1";
                    let cv = match a.get("cmode").unwrap_or("witness") {
                        "const" => Boolean::constant(c),
                        "input" => Boolean::new_input(cs.clone(), || Ok(c)).map_err(se)?,
                        _ => Boolean::new_witness(cs.clone(), || Ok(c)).map_err(se)?,
                    };
                    if op == "cenforce_eq" { xv.conditional_enforce_equal(&yv, &cv).map_err(se)?; } else { xv.conditional_enforce_not_equal(&yv, &cv).map_err(se)?; }
                    Ok("-".into())
                }
                _ => {
                    let c = a.get("c").unwrap_or("0") == "1";
                    let cv = Boolean::new_witness(cs.clone(), || Ok(c)).map_err(se)?;
                    fin(a, &ElementVar::conditionally_select(&cv, &xv, &yv).map_err(se)?)
                }
            }
        }
        "neg" | "dbl" => {
            let x = a.elem("a")?;
            let xv = alloc_operand(a, cs, x)?;
            if op == "neg" {
                fin(a, &xv.negate().map_err(se)?)
            } else {
                let mut z = xv;
                z.double_in_place().map_err(se)?;
                fin(a, &z)
            }
        }
        "scalarmul" => {
            let x = a.elem("a")?;
            let bits = a.get("bits").ok_or("bad-op")?;
            let xv = alloc_operand(a, cs, x)?;
            // how the scalar's bits reach the gadget: witnesses (default), constants, public inputs, or a constant low
            // half below a witnessed high half
            let bmode = a.get("bmode").unwrap_or("witness");
            let n = bits.chars().count();
            let mut bv = Vec::new();
            for (i, ch) in bits.chars().enumerate() {
                let b = ch == '1';
                let konst = bmode == "const" || (bmode == "mixed" && i < n / 2);
                bv.push(if konst {
                    Boolean::constant(b)
                } else if bmode == "input" {
                    Boolean::new_input(cs.clone(), || Ok(b)).map_err(se)?
                } else {
                    Boolean::new_witness(cs.clone(), || Ok(b)).map_err(se)?
                });
            }
            fin(a, &xv.scalar_mul_le(bv.iter()).map_err(se)?)
        }
        "alloc_witness" => {
            let e = a.elem("e")?;
            let ev = ElementVar::new_witness(cs.clone(), || Ok(e)).map_err(se)?;
            Ok(elem_value(&ev))
        }
        "alloc_witness_aff" => {
            let e = a.elem("e")?;
            let aff: <Element as ark_ec::CurveGroup>::Affine = e.into();
            let ev = <ElementVar as AllocVar<_, Fq>>::new_witness(cs.clone(), || Ok(aff)).map_err(se)?;
            Ok(elem_value(&ev))
        }
        "alloc_constant" => {
            let e = a.elem("e")?;
            let ev = ElementVar::new_constant(cs.clone(), e).map_err(se)?;
            Ok(elem_value(&ev))
        }
        "alloc_input" => {
            let e = a.elem("e")?;
            let ev = ElementVar::new_input(cs.clone(), || Ok(e)).map_err(se)?;
            let v = elem_value(&ev);
            let inst: Vec<String> = cs.borrow().unwrap().instance_assignment.iter().map(fqh).collect();
            let tfe: Vec<String> = e.to_field_elements().unwrap().iter().map(fqh).collect();
            Ok(format!("{};inst={};tfe={}", v, inst.join(","), tfe.join(",")))
        }
        "alloc_input_fq" => {
            let s = a.fq("s")?;
            let ev = <ElementVar as AllocVar<Fq, Fq>>::new_input(cs.clone(), || Ok(s)).map_err(se)?;
            let inst: Vec<String> = cs.borrow().unwrap().instance_assignment.iter().map(fqh).collect();
            let c = ev.compress_to_field().map_err(se)?.value().map(|v| fqh(&v)).unwrap_or_else(|_| "?".into());
            Ok(format!("{};inst={}", c, inst.join(",")))
        }
        "lazy2" => {
            // two variables allocated from (witnessed) encodings s1, s2 — valid or not —, neither decoded yet; `pre` lists the operands
            // forced to their element before the binary gadget `bop` runs.  Verdict and value must not depend on `pre`.
            let s1 = a.fq("s1")?;
            let s2 = a.fq("s2")?;
            let v1 = <ElementVar as AllocVar<Fq, Fq>>::new_witness(cs.clone(), || Ok(s1)).map_err(se)?;
            let v2 = <ElementVar as AllocVar<Fq, Fq>>::new_witness(cs.clone(), || Ok(s2)).map_err(se)?;
            let pre = a.get("pre").unwrap_or("");
            if pre.contains('1') { let _ = elem_value(&v1); }
            if pre.contains('2') { let _ = elem_value(&v2); }
            match a.get("bop").unwrap_or("") {
                "iseq" => Ok(v1.is_eq(&v2).map_err(se)?.value().map(|b| if b { "1" } else { "0" }).unwrap_or("?").to_string()),
                "enforce_eq" => { v1.enforce_equal(&v2).map_err(se)?; Ok("-".into()) }
                "enforce_neq" => { v1.enforce_not_equal(&v2).map_err(se)?; Ok("-".into()) }
                "cenforce_eq0" => { let c = Boolean::new_witness(cs.clone(), || Ok(false)).map_err(se)?; v1.conditional_enforce_equal(&v2, &c).map_err(se)?; Ok("-".into()) }
                "add" => Ok(elem_value(&(v1 + v2))),
                "select" => { let c = Boolean::new_witness(cs.clone(), || Ok(true)).map_err(se)?; Ok(elem_value(&ElementVar::conditionally_select(&c, &v1, &v2).map_err(se)?)) }
                _ => Err("bad-op".into()),
            }
        }
        "lazy" => {
            // from=enc s=<fq> | from=elem e=<enc>; ops=enc,elem,…  -> per step value and constraint delta
            let ops = a.get("ops").unwrap_or("");
            let var = if a.get("from") == Some("enc") {
                let s = a.fq("s")?;
                <ElementVar as AllocVar<Fq, Fq>>::new_witness(cs.clone(), || Ok(s)).map_err(se)?
            } else {
                alloc_plain(cs, a.elem("e")?)?
            };
            let mut outs = Vec::new();
            for o in ops.split(',').filter(|s| !s.is_empty()) {
                let before = cs.num_constraints();
                let v = match o {
                    "enc" => var.compress_to_field().map_err(se)?.value().map(|v| fqh(&v)).unwrap_or_else(|_| "?".into()),
                    "elem" => elem_value(&var),
                    "clone_enc" => var.clone().compress_to_field().map_err(se)?.value().map(|v| fqh(&v)).unwrap_or_else(|_| "?".into()),
                    "clone_elem" => elem_value(&var.clone()),
                    _ => return Err("bad-op".into()),
                };
                outs.push(format!("{}:{}+{}", o, v, cs.num_constraints() - before));
            }
            Ok(outs.join("|"))
        }
        _ => Err("unsupported".into()),
    }
}

struct Circuit<F: FnOnce(ConstraintSystemRef<Fq>) -> Result<(), SynthesisError>>(F);
impl<F: FnOnce(ConstraintSystemRef<Fq>) -> Result<(), SynthesisError>> ConstraintSynthesizer<Fq> for Circuit<F> {
    fn generate_constraints(self, cs: ConstraintSystemRef<Fq>) -> Result<(), SynthesisError> {
        (self.0)(cs)
    }
}

fn load_keys(name: &str) -> R<(ProvingKey<Bls12_377>, VerifyingKey<Bls12_377>)> {
    let dir = std::env::var("VERIF_REPO").unwrap_or_else(|_| "/repo".into());
    let pk = std::fs::read(format!("{}/tests/test_vectors/{}_pk.bin", dir, name)).map_err(|e| format!("io:{}", e))?;
    let vk = std::fs::read(format!("{}/tests/test_vectors/{}_vk.param", dir, name)).map_err(|e| format!("io:{}", e))?;
    let pk = ProvingKey::deserialize_uncompressed_unchecked(&pk[..]).map_err(|_| "bad-pk")?;
    let vk = VerifyingKey::deserialize_uncompressed(&vk[..]).map_err(|_| "bad-vk")?;
    Ok((pk, vk))
}

/// the seven pinned circuits of tests/groth16_gadgets.rs, statement for statement (the order of the operands of
/// `enforce_equal` and the allocation forms matter: they fix the rows of the constraint matrices the keys were made for)
fn pinned(name: &str, a: &Args) -> R<(Box<dyn FnOnce(ConstraintSystemRef<Fq>) -> Result<(), SynthesisError>>, Vec<Fq>)> {
    match name {
        "compression" => {
            let e = a.elem("e")?;
            let fe = e.vartime_compress_to_field();
            Ok((Box::new(move |cs| {
                let w = ElementVar::new_witness(cs.clone(), || Ok(e))?;
                let p = FqVar::new_input(cs, || Ok(fe))?;
                p.enforce_equal(&w.compress_to_field()?)
            }), vec![fe]))
        }
        "decompression" => {
            let e = a.elem("e")?;
            let fe = e.vartime_compress_to_field();
            Ok((Box::new(move |cs| {
                let w = FqVar::new_witness(cs.clone(), || Ok(fe))?;
                let p: ElementVar = AllocVar::<Fq, Fq>::new_input(cs, || Ok(fe))?;
                let t = ElementVar::decompress_from_field(w)?;
                p.enforce_equal(&t)
            }), e.to_field_elements().unwrap()))
        }
        "elligator" => {
            let r0 = a.fq("r0")?;
            let e = Element::encode_to_curve(&r0);
            Ok((Box::new(move |cs| {
                let w = FqVar::new_witness(cs.clone(), || Ok(r0))?;
                let p = ElementVar::new_input(cs, || Ok(e))?;
                let t = ElementVar::encode_to_curve(&w)?;
                p.enforce_equal(&t)
            }), e.to_field_elements().unwrap()))
        }
        "discrete_log" => {
            let sc = unhex(a.get("scalar").ok_or("bad-op")?).ok_or("bad-op")?;
            let sc: [u8; 32] = sc.try_into().map_err(|_| "bad-op")?;
            let public = Fr::from_le_bytes_mod_order(&sc[..]) * Element::GENERATOR;
            Ok((Box::new(move |cs| {
                let w = UInt8::new_witness_vec(cs.clone(), &sc)?;
                let cp = public.vartime_compress_to_field();
                let p: ElementVar = AllocVar::<Fq, Fq>::new_input(cs.clone(), || Ok(cp))?;
                let b = ElementVar::new_constant(cs, Element::GENERATOR)?;
                let t = b.scalar_mul_le(w.to_bits_le()?.iter())?;
                p.enforce_equal(&t)
            }), public.to_field_elements().unwrap()))
        }
        "public_element_input" => {
            let e = a.elem("e")?;
            Ok((Box::new(move |cs| {
                let _p = ElementVar::new_input(cs, || Ok(e))?;
                Ok(())
            }), e.to_field_elements().unwrap()))
        }
        "negation" => {
            let e = a.elem("e")?;
            let n = -e;
            Ok((Box::new(move |cs| {
                let w = ElementVar::new_witness(cs.clone(), || Ok(e))?;
                let p = ElementVar::new_input(cs, || Ok(n))?;
                let t = w.negate()?;
                t.enforce_equal(&p)
            }), n.to_field_elements().unwrap()))
        }
        "add_assign_add" => {
            let ea = a.elem("a")?;
            let eb = a.elem("b")?;
            let (c, d) = (ea + eb, ea - eb);
            let mut public = c.to_field_elements().unwrap();
            public.extend_from_slice(&d.to_field_elements().unwrap());
            Ok((Box::new(move |cs| {
                let a = ElementVar::new_witness(cs.clone(), || Ok(ea))?;
                let b = ElementVar::new_witness(cs.clone(), || Ok(eb))?;
                let c_pub = ElementVar::new_input(cs.clone(), || Ok(c))?;
                let c_add = a.clone() + b.clone();
                let mut c_add_assign = a.clone();
                c_add_assign += b.clone();
                c_add.enforce_equal(&c_pub)?;
                c_add_assign.enforce_equal(&c_pub)?;
                let d_pub = ElementVar::new_input(cs, || Ok(d))?;
                let d_sub = a.clone() - b.clone();
                let mut d_sub_assign = a.clone();
                d_sub_assign -= b;
                d_sub.enforce_equal(&d_pub)?;
                d_sub_assign.enforce_equal(&d_pub)
            }), public))
        }
        _ => Err("unsupported".into()),
    }
}


/// "alternative bit decomposition" attack on an honestly synthesised gadget (C14).  Every use of a bit decomposition in
/// the gadgets is meant to be the canonical one (`to_bits_le`, which also constrains the bits to spell a number < q).
/// This finds each decomposition row  0 * 0 = sum 2^k b_k - x  in the constraint matrices, replaces the bits by
/// those of x + q (when that still fits in 253 bits) and re-derives, row by row in emission order, every later
/// witness from the constraint that defines it (the first row in which it is the newest variable).  If every row
/// ends up satisfied the prover has a second witness in which the bit-derived values (sign, absolute value, …) differ
/// from the native ones.  On a sound gadget the range check rejects the forged bits at a row that defines nothing.
fn forge_bits(g: &str, a: &Args) -> R<String> {
    use ark_ff::BigInteger;
    verif::set_hints(a.hints()?);
    let cs = new_cs(false);
    synth(g, a, &cs)?;
    let honest_sat = cs.is_satisfied().map_err(se)?;
    cs.finalize();
    let m = cs.to_matrices().ok_or("no-matrices")?;
    let ni = m.num_instance_variables;
    let mut z: Vec<Fq> = Vec::new();
    {
        let b = cs.borrow().ok_or("no-cs")?;
        z.extend(b.instance_assignment.iter().cloned());
        z.extend(b.witness_assignment.iter().cloned());
    }
    let nbits = Fq::MODULUS_BIT_SIZE as usize;
    let mut p2: Map<Vec<u8>, usize> = Map::new();
    let mut c = Fq::from(1u64);
    for k in 0..nbits {
        p2.insert(fq_bytes(&c), k);
        c.double_in_place();
    }
    let eval = |row: &Vec<(Fq, usize)>, z: &Vec<Fq>| -> Fq { row.iter().fold(Fq::zero(), |acc, (c, i)| acc + *c * z[*i]) };
    let nrows = m.a.len();
    // the row that defines a variable: the first one in which it is the newest variable
    let mut def_row: Map<usize, usize> = Map::new();
    for i in 0..nrows {
        let mx = m.a[i].iter().chain(m.b[i].iter()).chain(m.c[i].iter()).map(|(_, v)| *v).max();
        if let Some(v) = mx {
            def_row.entry(v).or_insert(i);
        }
    }
    let (mut groups, mut tried, mut accepted, mut rejected, mut stuck) = (0, 0, 0, 0, 0);
    let mut detail = String::new();
    for i in 0..nrows {
        if !(m.a[i].is_empty() && m.b[i].is_empty()) {
            continue;
        }
        let mut bits: Vec<Option<usize>> = vec![None; nbits];
        for (coef, idx) in m.c[i].iter() {
            if let Some(k) = p2.get(&fq_bytes(coef)) {
                if *idx >= ni && bits[*k].is_none() && (z[*idx].is_zero() || z[*idx] == Fq::from(1u64)) {
                    bits[*k] = Some(*idx);
                }
            }
        }
        if bits.iter().any(|b| b.is_none()) {
            continue;
        }
        let bits: Vec<usize> = bits.into_iter().map(|b| b.unwrap()).collect();
        groups += 1;
        // the number the bits spell
        let mut x = Fq::zero();
        let mut c = Fq::from(1u64);
        for k in 0..nbits {
            x += c * z[bits[k]];
            c.double_in_place();
        }
        let mut alt = x.into_bigint();
        let carry = alt.add_with_carry(&Fq::MODULUS);
        if carry || alt.num_bits() as usize > nbits {
            continue; // x + q does not fit: no second decomposition of this length
        }
        tried += 1;
        let mut zf = z.clone();
        for k in 0..nbits {
            zf[bits[k]] = if alt.get_bit(k) { Fq::from(1u64) } else { Fq::zero() };
        }
        let newest_forged = *bits.iter().max().unwrap();
        let mut verdict = "accepted";
        let mut at = 0usize;
        for r in 0..nrows {
            let (av, bv, cv) = (eval(&m.a[r], &zf), eval(&m.b[r], &zf), eval(&m.c[r], &zf));
            if av * bv == cv {
                continue;
            }
            at = r;
            let u = m.a[r].iter().chain(m.b[r].iter()).chain(m.c[r].iter()).map(|(_, v)| *v).max().unwrap_or(0);
            if u <= newest_forged || u < ni || def_row.get(&u) != Some(&r) {
                verdict = "rejected";
                break;
            }
            let coef_in = |row: &Vec<(Fq, usize)>| -> Fq { row.iter().filter(|(_, v)| *v == u).fold(Fq::zero(), |acc, (c, _)| acc + *c) };
            let (ka, kb, kc) = (coef_in(&m.a[r]), coef_in(&m.b[r]), coef_in(&m.c[r]));
            let n_in = [ka, kb, kc].iter().filter(|k| !k.is_zero()).count();
            if n_in != 1 {
                verdict = "stuck";
                break;
            }
            if !kc.is_zero() {
                let rest = cv - kc * zf[u];
                zf[u] = (av * bv - rest) * kc.inverse().unwrap();
            } else if !ka.is_zero() {
                if bv.is_zero() { verdict = "stuck"; break; }
                let rest = av - ka * zf[u];
                zf[u] = (cv * bv.inverse().unwrap() - rest) * ka.inverse().unwrap();
            } else {
                if av.is_zero() { verdict = "stuck"; break; }
                let rest = bv - kb * zf[u];
                zf[u] = (cv * av.inverse().unwrap() - rest) * kb.inverse().unwrap();
            }
        }
        match verdict {
            "accepted" => { accepted += 1; if detail.is_empty() { detail = format!(";forged_row={};x={}", i, fqh(&x)); } }
            "rejected" => { rejected += 1; let _ = at; }
            _ => { stuck += 1; if detail.is_empty() { detail = format!(";stuck_row={}", at); } }
        }
    }
    Ok(format!("honest={} groups={} tried={} accepted={} rejected={} stuck={}{}", honest_sat as u8, groups, tried, accepted, rejected, stuck, detail))
}

/// single-variable mutation attack (C14).  The gadget is synthesised honestly, its (field-valued) output is pinned to a
/// fresh last witness `o` by one linear row, and then every witness allocated INSIDE the gadget (after its inputs) is in
/// turn replaced by a few other values (0, 1, -v, v+1, 2v); later witnesses are re-derived, row by row in emission
/// order, from the row that defines them (the first row in which they are the newest variable).  If every row ends up
/// satisfied and `o` changed, the prover has a second witness for the same inputs with a DIFFERENT output: a dropped or
/// misplaced constraint.  A variable the gadget deliberately leaves free up to something the output does not depend on
/// (the sign of the square root) is accepted with an unchanged output and is not a violation.
fn mutate_fuzz(g: &str, a: &Args) -> R<String> {
    verif::set_hints(a.hints()?);
    let cs = new_cs(false);
    // inputs first, then the gadget, then the output as one field element
    let (k0, out): (usize, FqVar) = match g {
        "compress" => {
            let ev = alloc_plain(&cs, a.elem("e")?)?;
            let k0 = cs.num_witness_variables();
            (k0, ev.compress_to_field().map_err(se)?)
        }
        "decompress" => {
            let sv = alloc_fq(a, &cs, a.fq("s")?)?;
            let k0 = cs.num_witness_variables();
            let ev = ElementVar::decompress_from_field(sv).map_err(se)?;
            (k0, ev.compress_to_field().map_err(se)?)
        }
        "elligator" => {
            let rv = alloc_fq(a, &cs, a.fq("r0")?)?;
            let k0 = cs.num_witness_variables();
            let ev = ElementVar::encode_to_curve(&rv).map_err(se)?;
            (k0, ev.compress_to_field().map_err(se)?)
        }
        "abs" => {
            let xv = alloc_fq(a, &cs, a.fq("x")?)?;
            let k0 = cs.num_witness_variables();
            (k0, xv.abs().map_err(se)?)
        }
        "add" | "sub" => {
            let xv = alloc_plain(&cs, a.elem("a")?)?;
            let yv = alloc_plain(&cs, a.elem("b")?)?;
            let k0 = cs.num_witness_variables();
            let z = if g == "add" { xv + yv } else { xv - yv };
            (k0, z.compress_to_field().map_err(se)?)
        }
        "scalarmul" => {
            let xv = alloc_plain(&cs, a.elem("a")?)?;
            let bits = a.get("bits").ok_or("bad-op")?;
            let mut bv = Vec::new();
            for ch in bits.chars() {
                bv.push(Boolean::new_witness(cs.clone(), || Ok(ch == '1')).map_err(se)?);
            }
            let k0 = cs.num_witness_variables();
            let z = xv.scalar_mul_le(bv.iter()).map_err(se)?;
            (k0, z.compress_to_field().map_err(se)?)
        }
        _ => return Err("unsupported".into()),
    };
    let honest_out = out.value().map_err(se)?;
    let o = FqVar::new_witness(cs.clone(), || Ok(honest_out)).map_err(se)?;
    out.enforce_equal(&o).map_err(se)?;
    let honest_sat = cs.is_satisfied().map_err(se)?;
    if !honest_sat {
        return Ok("honest=0".into());
    }
    cs.finalize();
    let m = cs.to_matrices().ok_or("no-matrices")?;
    let ni = m.num_instance_variables;
    let nw = m.num_witness_variables;
    let mut z: Vec<Fq> = Vec::new();
    {
        let b = cs.borrow().ok_or("no-cs")?;
        z.extend(b.instance_assignment.iter().cloned());
        z.extend(b.witness_assignment.iter().cloned());
    }
    let o_idx = ni + nw - 1;
    let eval = |row: &Vec<(Fq, usize)>, z: &Vec<Fq>| -> Fq { row.iter().fold(Fq::zero(), |acc, (c, i)| acc + *c * z[*i]) };
    let nrows = m.a.len();
    let mut def_row: Map<usize, usize> = Map::new();
    let mut first_row: Map<usize, usize> = Map::new();
    for i in 0..nrows {
        let mut mx = None;
        for (_, v) in m.a[i].iter().chain(m.b[i].iter()).chain(m.c[i].iter()) {
            first_row.entry(*v).or_insert(i);
            mx = Some(mx.map_or(*v, |x: usize| x.max(*v)));
        }
        if let Some(v) = mx {
            def_row.entry(v).or_insert(i);
        }
    }
    // bit-decomposition rows  0 * 0 = sum 2^k b_k - x : when the decomposed value changes, the honest prover re-derives
    // the canonical bits, and so does the propagation
    let nbits = Fq::MODULUS_BIT_SIZE as usize;
    let mut p2: Map<Vec<u8>, usize> = Map::new();
    {
        let mut c = Fq::from(1u64);
        for k in 0..nbits {
            p2.insert(fq_bytes(&c), k);
            c.double_in_place();
        }
    }
    let mut decomp: Map<usize, (Vec<usize>, Vec<(Fq, usize)>)> = Map::new();
    for i in 0..nrows {
        if !(m.a[i].is_empty() && m.b[i].is_empty()) {
            continue;
        }
        let mut bits: Vec<Option<usize>> = vec![None; nbits];
        let mut rest: Vec<(Fq, usize)> = Vec::new();
        for (coef, idx) in m.c[i].iter() {
            let mut taken = false;
            if let Some(k) = p2.get(&fq_bytes(coef)) {
                if *idx >= ni && bits[*k].is_none() && (z[*idx].is_zero() || z[*idx] == Fq::from(1u64)) {
                    bits[*k] = Some(*idx);
                    taken = true;
                }
            }
            if !taken {
                rest.push((*coef, *idx));
            }
        }
        if bits.iter().all(|b| b.is_some()) {
            decomp.insert(i, (bits.into_iter().map(|b| b.unwrap()).collect(), rest));
        }
    }
    let one = Fq::from(1u64);
    let (mut tried, mut accepted_same, mut accepted_diff, mut stuck) = (0u64, 0u64, 0u64, 0u64);
    let mut detail = String::new();
    for w in (ni + k0)..o_idx {
        let v = z[w];
        let start = match first_row.get(&w) { Some(r) => *r, None => continue };
        let mut cands = vec![Fq::zero(), one, -v, v + one, v + v];
        cands.retain(|c| *c != v);
        cands.dedup();
        for c in cands {
            tried += 1;
            let mut zf = z.clone();
            zf[w] = c;
            let mut verdict = 0u8; // 0 accepted, 1 rejected, 2 stuck
            for r in start..nrows {
                let (av, bv, cv) = (eval(&m.a[r], &zf), eval(&m.b[r], &zf), eval(&m.c[r], &zf));
                if av * bv == cv {
                    continue;
                }
                if let Some((bits, rest)) = decomp.get(&r) {
                    if bits.iter().all(|b| *b > w) {
                        use ark_ff::BigInteger;
                        // sum 2^k b_k + rest = 0  =>  the decomposed value is -rest
                        let xval = -rest.iter().fold(Fq::zero(), |acc, (c, i)| acc + *c * zf[*i]);
                        let big = xval.into_bigint();
                        for (k, bi) in bits.iter().enumerate() {
                            zf[*bi] = if big.get_bit(k) { Fq::from(1u64) } else { Fq::zero() };
                        }
                        continue;
                    }
                }
                let u = m.a[r].iter().chain(m.b[r].iter()).chain(m.c[r].iter()).map(|(_, v)| *v).max().unwrap_or(0);
                if u <= w || u < ni || def_row.get(&u) != Some(&r) {
                    verdict = 1;
                    break;
                }
                let coef_in = |row: &Vec<(Fq, usize)>| -> Fq { row.iter().filter(|(_, v)| *v == u).fold(Fq::zero(), |acc, (c, _)| acc + *c) };
                let (ka, kb, kc) = (coef_in(&m.a[r]), coef_in(&m.b[r]), coef_in(&m.c[r]));
                let n_in = [ka, kb, kc].iter().filter(|k| !k.is_zero()).count();
                if n_in != 1 {
                    verdict = 2;
                    break;
                }
                if !kc.is_zero() {
                    let rest = cv - kc * zf[u];
                    zf[u] = (av * bv - rest) * kc.inverse().unwrap();
                } else if !ka.is_zero() {
                    if bv.is_zero() { verdict = 2; break; }
                    let rest = av - ka * zf[u];
                    zf[u] = (cv * bv.inverse().unwrap() - rest) * ka.inverse().unwrap();
                } else {
                    if av.is_zero() { verdict = 2; break; }
                    let rest = bv - kb * zf[u];
                    zf[u] = (cv * av.inverse().unwrap() - rest) * kb.inverse().unwrap();
                }
            }
            match verdict {
                0 => {
                    if zf[o_idx] != z[o_idx] {
                        accepted_diff += 1;
                        if detail.is_empty() {
                            detail = format!(";witness={};from={};to={};out={}->{}", w - ni, fqh(&v), fqh(&c), fqh(&z[o_idx]), fqh(&zf[o_idx]));
                        }
                    } else {
                        accepted_same += 1;
                    }
                }
                1 => {}
                _ => stuck += 1,
            }
        }
    }
    Ok(format!("honest=1 vars={} tried={} free_same_output={} accepted_other_output={} stuck={}{}", nw - k0 - 1, tried, accepted_same, accepted_diff, stuck, detail))
}

fn fq_bytes(x: &Fq) -> Vec<u8> {
    use ark_serialize::CanonicalSerialize;
    let mut v = Vec::new();
    x.serialize_compressed(&mut v).unwrap();
    v
}

pub fn exec_gadget(op: &str, args: &[&str]) -> String {
    let a = Args::parse(args);
    let r: R<String> = (|| {
        if op == "groth16" {
            let name = a.get("circuit").ok_or("bad-op")?;
            let (pk, vk) = load_keys(name)?;
            let (circ, public) = pinned(name, &a)?;
            let mut rng = rand_chacha::ChaChaRng::seed_from_u64(a.get("seed").and_then(|s| s.parse().ok()).unwrap_or(1));
            use rand_core::SeedableRng;
            let proof = Groth16::<Bls12_377, LibsnarkReduction>::prove(&pk, Circuit(circ), &mut rng).map_err(|e| format!("prove-err:{:?}", e).replace(' ', "_"))?;
            let pvk = Groth16::<Bls12_377, LibsnarkReduction>::process_vk(&vk).map_err(|_| "vk-err")?;
            let ok = Groth16::<Bls12_377, LibsnarkReduction>::verify_with_processed_vk(&pvk, &public, &proof).map_err(|_| "verify-err")?;
            let mut wrong = public.clone();
            wrong[0] += Fq::from(1u64);
            let bad = Groth16::<Bls12_377, LibsnarkReduction>::verify_with_processed_vk(&pvk, &wrong, &proof).map_err(|_| "verify-err")?;
            return Ok(format!("verify={} wrong_input={}", ok as u8, bad as u8));
        }
        if op == "keyshape" {
            // dimensions of a pinned circuit as synthesised now vs. the dimensions baked into the pinned keys
            let name = a.get("circuit").ok_or("bad-op")?;
            let (pk, vk) = load_keys(name)?;
            let (circ, _public) = pinned(name, &a)?;
            let cs = new_cs(false);
            circ(cs.clone()).map_err(se)?;
            cs.finalize();
            let (ni, nw, nc) = (cs.num_instance_variables(), cs.num_witness_variables(), cs.num_constraints());
            let dom = (nc + ni).next_power_of_two();
            return Ok(format!("circuit:inst={},wit={},dom={} keys:inst={},wit={},dom={} sat={}", ni, nw, dom,
                vk.gamma_abc_g1.len(), pk.l_query.len(), pk.h_query.len() + 1, cs.is_satisfied().map(|b| b as u8).unwrap_or(9)));
        }
        if op == "mutate" {
            let g = a.get("gadget").ok_or("bad-op")?;
            return mutate_fuzz(g, &a);
        }
        if op == "forge" {
            let g = a.get("gadget").ok_or("bad-op")?;
            return forge_bits(g, &a);
        }
        if op == "shape" {
            let g = a.get("gadget").ok_or("bad-op")?;
            let mut digests = Vec::new();
            for setup in [false, true] {
                verif::set_hints(a.hints()?);
                let cs = new_cs(setup);
                match catch_unwind(AssertUnwindSafe(|| synth(g, &a, &cs))) {
                    Ok(Ok(_)) => {}
                    Ok(Err(e)) => { if !setup { return Err(e); } }
                    Err(_) => { if !setup { return Err("panic".into()); } }
                }
                digests.push(matrices_digest(&cs));
            }
            return Ok(format!("prove={} setup={}", digests[0], digests[1]));
        }
        verif::set_hints(a.hints()?);
        let cs = new_cs(false);
        let out = synth(op, &a, &cs)?;
        Ok(finish(&cs, out))
    })();
    verif::set_hints(vec![]);
    match r {
        Ok(s) => s,
        Err(e) => e,
    }
}
