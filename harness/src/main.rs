//! Differential harness: executes the line protocol of /verif/DESIGN.md §2.4 against the real crate,
//! in-process.  Build with `--features ark` (default arkworks build of decaf377), `--features min`
//! (decaf377 with --no-default-features) or `--features r1cs`.
//! One output line per input line; `catch_unwind` per line (a panic prints `panic`).
#![allow(clippy::all)]
#![allow(unused_imports, dead_code, non_snake_case)]

use std::collections::hash_map::DefaultHasher;
use std::collections::HashMap;
use std::hash::{Hash, Hasher};
use std::io::{BufRead, Write};
use std::panic::{catch_unwind, AssertUnwindSafe};

use decaf377::{Element, Encoding, Fq, Fr};

mod fields;
#[cfg(feature = "ark")]
mod group_ark;
#[cfg(not(feature = "ark"))]
mod group_min;
#[cfg(feature = "r1cs")]
mod gadgets;
#[cfg(feature = "ark")]
mod bls;

pub fn unhex(s: &str) -> Option<Vec<u8>> {
    if s == "-" {
        return Some(vec![]);
    }
    hex::decode(s).ok()
}

pub fn tohex(b: &[u8]) -> String {
    if b.is_empty() {
        "-".to_string()
    } else {
        hex::encode(b)
    }
}

pub fn parse_limbs(s: &str) -> Option<Vec<u64>> {
    if s == "-" {
        return Some(vec![]);
    }
    s.split(',').map(|t| t.parse::<u64>().ok()).collect()
}

pub fn fq_of(s: &str) -> Option<Fq> {
    let b = unhex(s)?;
    let a: [u8; 32] = b.try_into().ok()?;
    Fq::from_bytes_checked(&a).ok()
}

pub fn fr_of(s: &str) -> Option<Fr> {
    let b = unhex(s)?;
    let a: [u8; 32] = b.try_into().ok()?;
    Fr::from_bytes_checked(&a).ok()
}

pub fn form_of(op: &str) -> &str {
    match op.find('.') {
        Some(i) => &op[i + 1..],
        None => "",
    }
}

pub fn base_of(op: &str) -> &str {
    match op.find('.') {
        Some(i) => &op[..i],
        None => op,
    }
}

fn exec_line(line: &str) -> String {
    let mut it = line.split(' ');
    let op = it.next().unwrap_or("");
    let args: Vec<&str> = it.collect();
    if op == "prog" {
        if args.len() != 1 {
            return "bad-op".into();
        }
        #[cfg(feature = "ark")]
        return group_ark::exec_prog(args[0]);
        #[cfg(not(feature = "ark"))]
        return group_min::exec_prog(args[0]);
    }
    let parts: Vec<&str> = op.split('.').collect();
    match parts.as_slice() {
        ["f", fld, o, rest @ ..] => fields::exec_field(fld, o, rest.first().copied().unwrap_or(""), &args),
        ["spec", ..] => "skip".into(),
        #[cfg(feature = "r1cs")]
        ["g", o, ..] => gadgets::exec_gadget(o, &args),
        #[cfg(feature = "ark")]
        ["bls", o, ..] => bls::exec_bls(o, &args),
        _ => "unsupported".into(),
    }
}

fn main() {
    std::panic::set_hook(Box::new(|_| {}));
    let stdin = std::io::stdin();
    let stdout = std::io::stdout();
    let mut out = std::io::BufWriter::new(stdout.lock());
    for line in stdin.lock().lines() {
        let line = match line {
            Ok(l) => l,
            Err(_) => break,
        };
        let l = line.trim();
        if l.is_empty() || l.starts_with('#') {
            writeln!(out, "{}", l).unwrap();
            continue;
        }
        let res = catch_unwind(AssertUnwindSafe(|| exec_line(l)));
        match res {
            Ok(s) => writeln!(out, "{}", s).unwrap(),
            Err(_) => writeln!(out, "panic").unwrap(),
        }
    }
    out.flush().unwrap();
}
