//! Group programs against the minimal build (decaf377 --no-default-features).
use super::*;
use decaf377::{Element, Encoding, Fq, Fr};
use std::convert::{TryFrom, TryInto};

fn b(x: bool) -> String {
    if x { "1".into() } else { "0".into() }
}

fn fr_limbs(k: &Fr) -> [u64; 4] {
    let bytes = k.to_bytes_le();
    let mut out = [0u64; 4];
    for i in 0..4 {
        out[i] = u64::from_le_bytes(bytes[8 * i..8 * i + 8].try_into().unwrap());
    }
    out
}

fn dec(form: &str, bytes: &[u8]) -> Result<Element, String> {
    fn arr(bytes: &[u8]) -> Result<[u8; 32], String> {
        bytes.try_into().map_err(|_| "err-len".to_string())
    }
    fn ee(e: decaf377::EncodingError) -> String {
        match e {
            decaf377::EncodingError::InvalidEncoding => "err-enc".into(),
            decaf377::EncodingError::InvalidSliceLength => "err-len".into(),
        }
    }
    match form {
        "" | "try_slice" => Element::try_from(bytes).map_err(ee),
        "enc_try_slice" => {
            let e = Encoding::try_from(bytes).map_err(ee)?;
            e.vartime_decompress().map_err(ee)
        }
        "decompress" => Encoding(arr(bytes)?).vartime_decompress().map_err(ee),
        "try_arr" => Element::try_from(arr(bytes)?).map_err(ee),
        "try_enc" => Element::try_from(Encoding(arr(bytes)?)).map_err(ee),
        "try_enc_ref" => Element::try_from(&Encoding(arr(bytes)?)).map_err(ee),
        "enc_from_arr" => { let e: Encoding = arr(bytes)?.into(); e.vartime_decompress().map_err(ee) }
        _ => Err("unsupported".into()),
    }
}

pub fn exec_prog(prog: &str) -> String {
    let mut regs: HashMap<String, Element> = HashMap::new();
    let mut outs: Vec<String> = Vec::new();
    macro_rules! fail {
        ($e:expr) => {{
            outs.push($e.to_string());
            return outs.join(" ");
        }};
    }
    for st in prog.split(';') {
        if st.is_empty() {
            continue;
        }
        let (dst, rhs) = match st.find('=') {
            Some(i) => (Some(&st[..i]), &st[i + 1..]),
            None => (None, st),
        };
        let (op, argstr) = match rhs.find(':') {
            Some(i) => (&rhs[..i], &rhs[i + 1..]),
            None => (rhs, ""),
        };
        let args: Vec<&str> = if argstr.is_empty() { vec![] } else { argstr.split(',').collect() };
        let base = base_of(op);
        let form = form_of(op);
        macro_rules! reg {
            ($r:expr) => {
                match regs.get($r) {
                    Some(e) => *e,
                    None => fail!("badreg"),
                }
            };
        }
        if let Some(dst) = dst {
            let v: Element = match (base, args.as_slice()) {
                ("gen", []) => match form { "" | "const" => Element::GENERATOR, _ => fail!("unsupported") },
                ("id", []) => match form { "" | "const" => Element::IDENTITY, _ => fail!("unsupported") },
                ("dec", [h]) => match unhex(h) {
                    Some(bs) => match dec(form, &bs) { Ok(e) => e, Err(e) => fail!(e) },
                    None => fail!("bad-op"),
                },
                ("redec", [a]) => {
                    let x = reg!(*a);
                    match x.vartime_compress().vartime_decompress() {
                        Ok(e) => e,
                        Err(_) => fail!("err-enc"),
                    }
                }
                ("ell", [h]) => match fq_of(h) { Some(r0) => Element::encode_to_curve(&r0), None => fail!("bad-op") },
                ("h2c", [h1, h2]) => match (fq_of(h1), fq_of(h2)) {
                    (Some(a), Some(c)) => Element::hash_to_curve(&a, &c),
                    _ => fail!("bad-op"),
                },
                ("add", [a, c]) => {
                    let (x, y) = (reg!(*a), reg!(*c));
                    match form {
                        "" | "pp_rr" => &x + &y,
                        "pp_or" => x + &y,
                        "pp_ro" => &x + y,
                        "pp_oo" => x + y,
                        "pp_asg_r" => { let mut z = x; z += &y; z }
                        "pp_asg_o" => { let mut z = x; z += y; z }
                        _ => fail!("unsupported"),
                    }
                }
                ("sub", [a, c]) => {
                    let (x, y) = (reg!(*a), reg!(*c));
                    match form {
                        "" | "pp_rr" => &x - &y,
                        "pp_or" => x - &y,
                        "pp_ro" => &x - y,
                        "pp_oo" => x - y,
                        "pp_asg_r" => { let mut z = x; z -= &y; z }
                        "pp_asg_o" => { let mut z = x; z -= y; z }
                        _ => fail!("unsupported"),
                    }
                }
                ("neg", [a]) => match form { "" | "p" => -reg!(*a), _ => fail!("unsupported") },
                ("dbl", [a]) => match form { "" | "double" => reg!(*a).double(), _ => fail!("unsupported") },
                ("mul", [a, k]) => match fr_of(k) {
                    Some(k) => {
                        let x = reg!(*a);
                        match form {
                            "" | "pe_rr" => &x * &k,
                            "ep_rr" => &k * &x,
                            "pe_or" => x * &k,
                            "pe_ro" => &x * k,
                            "pe_oo" => x * k,
                            "ep_or" => k * &x,
                            "ep_ro" => &k * x,
                            "ep_oo" => k * x,
                            "p_asg_r" => { let mut z = x; z *= &k; z }
                            "p_asg_o" => { let mut z = x; z *= k; z }
                            "scalar_mul" => x.scalar_mul(&fr_limbs(&k)),
                            "scalar_mul_vartime" => x.scalar_mul_vartime(&fr_limbs(&k)),
                            _ => fail!("unsupported"),
                        }
                    }
                    None => fail!("bad-op"),
                },
                ("mulbig", [a, ls]) => match parse_limbs(&ls.replace('+', ",")) {
                    Some(l) => {
                        let x = reg!(*a);
                        match form {
                            "" | "p" | "scalar_mul_vartime" => x.scalar_mul_vartime(&l),
                            "scalar_mul" => x.scalar_mul(&l),
                            _ => fail!("unsupported"),
                        }
                    }
                    None => fail!("bad-op"),
                },
                ("sum", rs) => {
                    let mut acc = Element::IDENTITY;
                    for r in rs { acc = acc + reg!(*r); }
                    match form { "" => acc, _ => fail!("unsupported") }
                }
                ("msm", kvs) => {
                    if kvs.len() % 2 != 0 { fail!("bad-op"); }
                    let mut acc = Element::IDENTITY;
                    for ch in kvs.chunks(2) {
                        let p = reg!(ch[0]);
                        match fr_of(ch[1]) { Some(k) => { acc = acc + p * k; } None => fail!("bad-op") }
                    }
                    match form { "" => acc, _ => fail!("unsupported") }
                }
                _ => fail!("unsupported"),
            };
            regs.insert(dst.to_string(), v);
        } else {
            let o = match (base, args.as_slice()) {
                ("enc", [a]) => {
                    let x = reg!(*a);
                    match form {
                        "" | "compress" => tohex(&x.vartime_compress().0),
                        "to_field" => tohex(&x.vartime_compress_to_field().to_bytes_le()),
                        "into_arr" => { let a: [u8; 32] = x.into(); tohex(&a) }
                        "into_enc" => { let e: Encoding = x.into(); tohex(&e.0) }
                        "into_enc_ref" => { let e: Encoding = (&x).into(); tohex(&e.0) }
                        "enc_into_arr" => { let e: Encoding = x.into(); let a: [u8; 32] = e.into(); tohex(&a) }
                        _ => "unsupported".into(),
                    }
                }
                ("eq", [a, c]) => match form {
                    "" | "p" => b(reg!(*a) == reg!(*c)),
                    "ne" => b(!(reg!(*a) != reg!(*c))),
                    _ => "unsupported".into(),
                },
                ("isid", [a]) => match form {
                    "" | "is_identity" => b(reg!(*a).is_identity()),
                    "eq_identity" => b(reg!(*a) == Element::IDENTITY),
                    _ => "unsupported".into(),
                },
                _ => "unsupported".into(),
            };
            outs.push(o);
        }
    }
    outs.join(" ")
}
