//! Field operations of the line protocol: `f.<fq|fr|fp>.<op>[.<form>] args…`
use super::*;
use decaf377::{Fp, Fq, Fr};
use std::convert::TryInto;

/// a user-defined flags type of N bits (3 <= N <= 8), kept in the top N bits of the flag byte: the generic `Flags` API
/// of ark-serialize accepts any type with BIT_SIZE <= 8, not only the three the curve code uses
#[cfg(feature = "ark")]
#[derive(Clone, Copy, Default, PartialEq, Eq, Debug)]
pub struct NBits<const N: usize>(pub u8);
#[cfg(feature = "ark")]
impl<const N: usize> ark_serialize::Flags for NBits<N> {
    const BIT_SIZE: usize = N;
    fn u8_bitmask(&self) -> u8 {
        if N >= 8 { self.0 } else { (self.0 & ((1u16 << N) as u8).wrapping_sub(1)) << (8 - N) }
    }
    fn from_u8(value: u8) -> Option<Self> {
        Some(NBits(if N >= 8 { value } else { value >> (8 - N) }))
    }
}

#[cfg(feature = "ark")]
use ark_ff::{BigInteger, Field, One, PrimeField, Zero};
#[cfg(feature = "ark")]
use ark_ec::short_weierstrass::SWFlags;
#[cfg(feature = "ark")]
use ark_serialize::{
    CanonicalDeserialize, CanonicalDeserializeWithFlags, CanonicalSerialize, CanonicalSerializeWithFlags, EmptyFlags,
    SerializationError,
};

fn b(x: bool) -> String {
    if x { "1".into() } else { "0".into() }
}

fn hash_of<T: Hash>(t: &T) -> u64 {
    let mut h = DefaultHasher::new();
    t.hash(&mut h);
    h.finish()
}

/// `from_montgomery_limbs` is public for Fq only (Fr and Fp keep it crate-private)
pub trait FromMont: Sized {
    fn from_mont(l: &[u64]) -> Option<Option<Self>>;
}
impl FromMont for decaf377::Fq {
    fn from_mont(l: &[u64]) -> Option<Option<Self>> {
        let a: Result<[u64; 4], _> = l.to_vec().try_into();
        Some(a.ok().map(decaf377::Fq::from_montgomery_limbs))
    }
}
impl FromMont for decaf377::Fr {
    fn from_mont(_l: &[u64]) -> Option<Option<Self>> { None }
}
impl FromMont for decaf377::Fp {
    fn from_mont(_l: &[u64]) -> Option<Option<Self>> { None }
}

macro_rules! field_impl {
    ($modname:ident, $F:ty, $N8:expr, $NL:expr, $is_fq:expr) => {
        pub mod $modname {
            use super::*;
            pub type F = $F;
            pub const N8: usize = $N8;
            pub const NL: usize = $NL;

            pub fn fe(s: &str) -> Option<F> {
                let v = unhex(s)?;
                let a: [u8; N8] = v.try_into().ok()?;
                F::from_bytes_checked(&a).ok()
            }
            pub fn out(x: &F) -> String {
                tohex(&x.to_bytes_le())
            }

            pub fn binop(op: &str, form: &str, x: F, y: F) -> String {
                let mut ym = y;
                let r: F = match (op, form) {
                    ("add", "" | "oo") => x + y,
                    ("add", "or") => x + &y,
                    ("add", "om") => x + &mut ym,
                    ("add", "asg_o") => { let mut z = x; z += y; z }
                    ("add", "asg_r") => { let mut z = x; z += &y; z }
                    ("add", "asg_m") => { let mut z = x; z += &mut ym; z }
                    ("add", "inh") => x.add(&y),
                    ("sub", "" | "oo") => x - y,
                    ("sub", "or") => x - &y,
                    ("sub", "om") => x - &mut ym,
                    ("sub", "asg_o") => { let mut z = x; z -= y; z }
                    ("sub", "asg_r") => { let mut z = x; z -= &y; z }
                    ("sub", "asg_m") => { let mut z = x; z -= &mut ym; z }
                    ("sub", "inh") => x.sub(&y),
                    ("mul", "" | "oo") => x * y,
                    ("mul", "or") => x * &y,
                    ("mul", "om") => x * &mut ym,
                    ("mul", "asg_o") => { let mut z = x; z *= y; z }
                    ("mul", "asg_r") => { let mut z = x; z *= &y; z }
                    ("mul", "asg_m") => { let mut z = x; z *= &mut ym; z }
                    ("mul", "inh") => x.mul(&y),
                    ("div", "" | "oo") => x / y,
                    ("div", "or") => x / &y,
                    ("div", "om") => x / &mut ym,
                    ("div", "asg_o") => { let mut z = x; z /= y; z }
                    ("div", "asg_r") => { let mut z = x; z /= &y; z }
                    ("div", "asg_m") => { let mut z = x; z /= &mut ym; z }
                    _ => return "unsupported".into(),
                };
                out(&r)
            }

            pub fn exec(op: &str, form: &str, args: &[&str]) -> String {
                match (op, args) {
                    ("add" | "sub" | "mul" | "div", [a, c]) => match (fe(a), fe(c)) {
                        (Some(x), Some(y)) => binop(op, form, x, y),
                        _ => "bad-op".into(),
                    },
                    ("neg", [a]) => match fe(a) {
                        Some(x) => match form {
                            "" | "op" => out(&(-x)),
                            "inh" => out(&x.neg()),
                            #[cfg(feature = "ark")]
                            "in_place" => { let mut z = x; Field::neg_in_place(&mut z); out(&z) }
                            _ => "unsupported".into(),
                        },
                        None => "bad-op".into(),
                    },
                    ("square", [a]) => match fe(a) {
                        Some(x) => match form {
                            "" | "inh" => out(&x.square()),
                            #[cfg(feature = "ark")]
                            "trait" => out(&Field::square(&x)),
                            #[cfg(feature = "ark")]
                            "in_place" => { let mut z = x; Field::square_in_place(&mut z); out(&z) }
                            _ => "unsupported".into(),
                        },
                        None => "bad-op".into(),
                    },
                    ("double", [a]) => match fe(a) {
                        Some(x) => match form {
                            #[cfg(feature = "ark")]
                            "" | "trait" => out(&Field::double(&x)),
                            #[cfg(feature = "ark")]
                            "in_place" => { let mut z = x; Field::double_in_place(&mut z); out(&z) }
                            #[cfg(not(feature = "ark"))]
                            "" => out(&(x + x)),
                            _ => "unsupported".into(),
                        },
                        None => "bad-op".into(),
                    },
                    ("inv", [a]) => match fe(a) {
                        Some(x) => {
                            let r = match form {
                                "" | "inh" => x.inverse(),
                                #[cfg(feature = "ark")]
                                "trait" => Field::inverse(&x),
                                #[cfg(feature = "ark")]
                                "in_place" => { let mut z = x; match Field::inverse_in_place(&mut z) { Some(_) => Some(z), None => None } }
                                _ => return "unsupported".into(),
                            };
                            match r { Some(y) => out(&y), None => "none".into() }
                        }
                        None => "bad-op".into(),
                    },
                    ("pow", [a, ls]) => match (fe(a), parse_limbs(ls)) {
                        #[cfg(feature = "ark")]
                        (Some(x), Some(l)) => out(&Field::pow(&x, &l)),
                        #[cfg(not(feature = "ark"))]
                        (Some(_), Some(_)) => "unsupported".into(),
                        _ => "bad-op".into(),
                    },
                    ("power", [a, ls]) => match (fe(a), parse_limbs(ls)) {
                        (Some(x), Some(l)) => power(x, l),
                        _ => "bad-op".into(),
                    },
                    ("sum", [xs]) => {
                        let v: Option<Vec<F>> = if *xs == "-" { Some(vec![]) } else { xs.split(',').map(fe).collect() };
                        match v {
                            Some(v) => match form {
                                "" | "own" => out(&v.into_iter().sum::<F>()),
                                "ref" => out(&v.iter().sum::<F>()),
                                _ => "unsupported".into(),
                            },
                            None => "bad-op".into(),
                        }
                    }
                    ("product", [xs]) => {
                        let v: Option<Vec<F>> = if *xs == "-" { Some(vec![]) } else { xs.split(',').map(fe).collect() };
                        match v {
                            Some(v) => match form {
                                "" | "own" => out(&v.into_iter().product::<F>()),
                                "ref" => out(&v.iter().product::<F>()),
                                _ => "unsupported".into(),
                            },
                            None => "bad-op".into(),
                        }
                    }
                    ("select", [a, c, ch]) => match (fe(a), fe(c)) {
                        (Some(x), Some(y)) => select(x, y, *ch == "1"),
                        _ => "bad-op".into(),
                    },
                    ("cteq", [a, c]) => match (fe(a), fe(c)) {
                        (Some(x), Some(y)) => cteq(x, y),
                        _ => "bad-op".into(),
                    },
                    ("eq", [a, c]) => match (fe(a), fe(c)) {
                        (Some(x), Some(y)) => b(x == y),
                        _ => "bad-op".into(),
                    },
                    ("from_le_mod", [h]) => match unhex(h) {
                        Some(bs) => match form {
                            "" | "inh" => out(&F::from_le_bytes_mod_order(&bs)),
                            #[cfg(feature = "ark")]
                            "trait" => out(&<F as PrimeField>::from_le_bytes_mod_order(&bs)),
                            #[cfg(feature = "ark")]
                            "random_bytes" => match <F as Field>::from_random_bytes(&bs) { Some(x) => out(&x), None => "none".into() },
                            _ => "unsupported".into(),
                        },
                        None => "bad-op".into(),
                    },
                    ("from_be_mod", [h]) => match unhex(h) {
                        #[cfg(feature = "ark")]
                        Some(bs) => out(&<F as PrimeField>::from_be_bytes_mod_order(&bs)),
                        #[cfg(not(feature = "ark"))]
                        Some(_) => "unsupported".into(),
                        None => "bad-op".into(),
                    },
                    ("from_bytes_checked", [h]) => match unhex(h) {
                        Some(bs) => {
                            let a: Result<[u8; N8], _> = bs.try_into();
                            match a {
                                Ok(a) => match F::from_bytes_checked(&a) { Ok(x) => format!("ok {}", out(&x)), Err(_) => "err".into() },
                                Err(_) => "bad-op".into(),
                            }
                        }
                        None => "bad-op".into(),
                    },
                    ("to_bytes", [a]) => match fe(a) {
                        Some(x) => match form {
                            "" | "le" => tohex(&x.to_bytes_le()),
                            "to_bytes" => tohex(&x.to_bytes()),
                            #[cfg(feature = "ark")]
                            "ser" => { let mut v = Vec::new(); x.serialize_compressed(&mut v).unwrap(); tohex(&v) }
                            #[cfg(feature = "ark")]
                            "ser_drip" => {
                                // a writer taking one byte per `write` call, and a buffer that is too short (must be an error)
                                struct W(Vec<u8>);
                                impl ark_std::io::Write for W {
                                    fn write(&mut self, b: &[u8]) -> ark_std::io::Result<usize> { if b.is_empty() { return Ok(0); } self.0.push(b[0]); Ok(1) }
                                    fn flush(&mut self) -> ark_std::io::Result<()> { Ok(()) }
                                }
                                let mut w = W(Vec::new());
                                let mut small = [0u8; 7];
                                let mut sl: &mut [u8] = &mut small[..];
                                if x.serialize_compressed(&mut w).is_err() { "err-write".into() }
                                else if x.serialize_compressed(&mut sl).is_ok() { "short-buffer-accepted".into() }
                                else { tohex(&w.0) }
                            }
                            #[cfg(feature = "ark")]
                            "ser_unc" => { let mut v = Vec::new(); x.serialize_uncompressed(&mut v).unwrap(); tohex(&v) }
                            #[cfg(feature = "ark")]
                            "bigint_bytes" => tohex(&x.into_bigint().to_bytes_le()[..N8]),
                            _ => "unsupported".into(),
                        },
                        None => "bad-op".into(),
                    },
                    #[cfg(feature = "ark")]
                    ("from_bigint", [ls]) => match parse_limbs(ls) {
                        Some(l) => {
                            let a: Result<[u64; NL], _> = l.try_into();
                            match a {
                                Ok(a) => match form {
                                    "" | "from_bigint" => match F::from_bigint(ark_ff::BigInt(a)) { Some(x) => format!("some {}", out(&x)), None => "none".into() },
                                    _ => "unsupported".into(),
                                },
                                Err(_) => "bad-op".into(),
                            }
                        }
                        None => "bad-op".into(),
                    },
                    // the public constructor from Montgomery limbs (how every constant of the crate is built), both backends
                    ("from_mont", [ls]) => match parse_limbs(ls) {
                        Some(l) => match <F as FromMont>::from_mont(&l) {
                            Some(Some(x)) => out(&x),
                            Some(None) => "bad-op".into(),
                            None => "unsupported".into(),
                        },
                        None => "bad-op".into(),
                    },
                    #[cfg(feature = "ark")]
                    ("into_bigint", [a]) => match fe(a) {
                        Some(x) => {
                            let l: Vec<String> = match form {
                                "" | "into_bigint" => x.into_bigint().0.iter().map(|v| v.to_string()).collect(),
                                "from" => { let bi: ark_ff::BigInt<NL> = x.into(); bi.0.iter().map(|v| v.to_string()).collect() }
                                _ => return "unsupported".into(),
                            };
                            l.join(",")
                        }
                        None => "bad-op".into(),
                    },
                    #[cfg(feature = "ark")]
                    ("ser_flags", [k, fl, a]) => match fe(a) {
                        Some(x) => {
                            let mut v = Vec::new();
                            let r = match (*k, *fl) {
                                ("0", _) => x.serialize_with_flags(&mut v, EmptyFlags),
                                ("1", "1") => x.serialize_with_flags(&mut v, ark_ec::twisted_edwards::TEFlags::XIsNegative),
                                ("1", _) => x.serialize_with_flags(&mut v, ark_ec::twisted_edwards::TEFlags::XIsPositive),
                                ("2", "1") => x.serialize_with_flags(&mut v, SWFlags::YIsNegative),
                                ("2", "2") => x.serialize_with_flags(&mut v, SWFlags::PointAtInfinity),
                                ("2", _) => x.serialize_with_flags(&mut v, SWFlags::YIsPositive),
                                ("3", f) => x.serialize_with_flags(&mut v, NBits::<3>(f.parse().unwrap_or(0))),
                                ("4", f) => x.serialize_with_flags(&mut v, NBits::<4>(f.parse().unwrap_or(0))),
                                ("5", f) => x.serialize_with_flags(&mut v, NBits::<5>(f.parse().unwrap_or(0))),
                                ("6", f) => x.serialize_with_flags(&mut v, NBits::<6>(f.parse().unwrap_or(0))),
                                ("7", f) => x.serialize_with_flags(&mut v, NBits::<7>(f.parse().unwrap_or(0))),
                                ("8", f) => x.serialize_with_flags(&mut v, NBits::<8>(f.parse().unwrap_or(0))),
                                _ => return "bad-op".into(),
                            };
                            match r { Ok(()) => tohex(&v), Err(_) => "err".into() }
                        }
                        None => "bad-op".into(),
                    },
                    #[cfg(feature = "ark")]
                    ("deser_flags", [k, h]) => match unhex(h) {
                        Some(bs) => {
                            fn e(err: SerializationError) -> String {
                                match err {
                                    SerializationError::IoError(_) => "err-io".into(),
                                    SerializationError::UnexpectedFlags => "err-flags".into(),
                                    SerializationError::InvalidData => "err-data".into(),
                                    _ => "err-other".into(),
                                }
                            }
                            match *k {
                                "0" => match form {
                                    "" | "flags" => match F::deserialize_with_flags::<_, EmptyFlags>(&bs[..]) { Ok((x, _)) => format!("ok {} 0", out(&x)), Err(er) => e(er) },
                                    "compressed" => match F::deserialize_compressed(&bs[..]) { Ok(x) => format!("ok {} 0", out(&x)), Err(er) => e(er) },
                                    "uncompressed" => match F::deserialize_uncompressed(&bs[..]) { Ok(x) => format!("ok {} 0", out(&x)), Err(er) => e(er) },
                                    "unchecked" => match F::deserialize_compressed_unchecked(&bs[..]) { Ok(x) => format!("ok {} 0", out(&x)), Err(er) => e(er) },
                                    _ => "unsupported".into(),
                                },
                                "1" => match F::deserialize_with_flags::<_, ark_ec::twisted_edwards::TEFlags>(&bs[..]) {
                                    Ok((x, f)) => format!("ok {} {}", out(&x), if f == ark_ec::twisted_edwards::TEFlags::XIsNegative { 1 } else { 0 }),
                                    Err(er) => e(er),
                                },
                                "2" => match F::deserialize_with_flags::<_, SWFlags>(&bs[..]) {
                                    Ok((x, f)) => format!("ok {} {}", out(&x), match f { SWFlags::YIsNegative => 1, SWFlags::PointAtInfinity => 2, _ => 0 }),
                                    Err(er) => e(er),
                                },
                                "3" => match F::deserialize_with_flags::<_, NBits<3>>(&bs[..]) { Ok((x, f)) => format!("ok {} {}", out(&x), f.0), Err(er) => e(er) },
                                "4" => match F::deserialize_with_flags::<_, NBits<4>>(&bs[..]) { Ok((x, f)) => format!("ok {} {}", out(&x), f.0), Err(er) => e(er) },
                                "5" => match F::deserialize_with_flags::<_, NBits<5>>(&bs[..]) { Ok((x, f)) => format!("ok {} {}", out(&x), f.0), Err(er) => e(er) },
                                "6" => match F::deserialize_with_flags::<_, NBits<6>>(&bs[..]) { Ok((x, f)) => format!("ok {} {}", out(&x), f.0), Err(er) => e(er) },
                                "7" => match F::deserialize_with_flags::<_, NBits<7>>(&bs[..]) { Ok((x, f)) => format!("ok {} {}", out(&x), f.0), Err(er) => e(er) },
                                "8" => match F::deserialize_with_flags::<_, NBits<8>>(&bs[..]) { Ok((x, f)) => format!("ok {} {}", out(&x), f.0), Err(er) => e(er) },
                                _ => "bad-op".into(),
                            }
                        }
                        None => "bad-op".into(),
                    },
                    ("cmp", [a, c]) => match (fe(a), fe(c)) {
                        (Some(x), Some(y)) => match form {
                            "" | "cmp" => match x.cmp(&y) { std::cmp::Ordering::Less => "lt", std::cmp::Ordering::Equal => "eq", std::cmp::Ordering::Greater => "gt" }.into(),
                            "partial" => match x.partial_cmp(&y) { Some(std::cmp::Ordering::Less) => "lt", Some(std::cmp::Ordering::Equal) => "eq", Some(std::cmp::Ordering::Greater) => "gt", None => "none" }.into(),
                            "lt" => (if x < y { "lt" } else if x == y { "eq" } else { "gt" }).into(),
                            _ => "unsupported".into(),
                        },
                        _ => "bad-op".into(),
                    },
                    ("hash_eq", [a, c]) => match (fe(a), fe(c)) {
                        (Some(x), Some(y)) => b(hash_of(&x) == hash_of(&y)),
                        _ => "bad-op".into(),
                    },
                    ("from_u128", [n]) => match n.parse::<u128>() {
                        Ok(v) => match form {
                            "" | "u128" => out(&F::from(v)),
                            "u64" if v <= u64::MAX as u128 => out(&F::from(v as u64)),
                            "u32" if v <= u32::MAX as u128 => out(&F::from(v as u32)),
                            "u16" if v <= u16::MAX as u128 => out(&F::from(v as u16)),
                            "u8" if v <= u8::MAX as u128 => out(&F::from(v as u8)),
                            "bool" if v <= 1 => out(&F::from(v == 1)),
                            _ => "unsupported".into(),
                        },
                        Err(_) => "bad-op".into(),
                    },
                    #[cfg(feature = "ark")]
                    ("from_str", [s]) => {
                        use std::str::FromStr;
                        let s = if *s == "-" { "" } else { *s };
                        match F::from_str(s) { Ok(x) => format!("ok {}", out(&x)), Err(_) => "err".into() }
                    }
                    #[cfg(feature = "ark")]
                    ("display", [a]) => match fe(a) {
                        Some(x) => { let d = format!("{}", x); if d.is_empty() { "-".into() } else { d } }
                        None => "bad-op".into(),
                    },
                    #[cfg(feature = "ark")]
                    ("biguint_rt", [h]) => match unhex(h) {
                        Some(bs) => {
                            let n = num_bigint::BigUint::from_bytes_le(&bs);
                            let x: F = n.into();
                            let back: num_bigint::BigUint = x.into();
                            let mut v = back.to_bytes_le();
                            v.resize(N8, 0);
                            tohex(&v)
                        }
                        None => "bad-op".into(),
                    },
                    #[cfg(feature = "ark")]
                    ("sqrt", [a]) => match fe(a) {
                        Some(x) => match Field::sqrt(&x) {
                            Some(y) => { let y = if y.into_bigint().is_odd() { -y } else { y }; format!("some {}", out(&y)) }
                            None => "none".into(),
                        },
                        None => "bad-op".into(),
                    },
                    #[cfg(feature = "ark")]
                    ("legendre", [a]) => match fe(a) {
                        Some(x) => match Field::legendre(&x) {
                            ark_ff::LegendreSymbol::Zero => "0",
                            ark_ff::LegendreSymbol::QuadraticResidue => "1",
                            ark_ff::LegendreSymbol::QuadraticNonResidue => "2",
                        }.into(),
                        None => "bad-op".into(),
                    },
                    ("const", [name]) => match *name {
                        "ZERO" => out(&F::ZERO),
                        "ONE" => out(&F::ONE),
                        "MULTIPLICATIVE_GENERATOR" => out(&F::MULTIPLICATIVE_GENERATOR),
                        "TWO_ADIC_ROOT_OF_UNITY" => out(&F::TWO_ADIC_ROOT_OF_UNITY),
                        "FIELD_SIZE_POWER_OF_TWO" => out(&F::FIELD_SIZE_POWER_OF_TWO),
                        "MODULUS_LIMBS" => F::MODULUS_LIMBS.iter().map(|v| v.to_string()).collect::<Vec<_>>().join(","),
                        "MODULUS_MINUS_ONE_DIV_TWO_LIMBS" => F::MODULUS_MINUS_ONE_DIV_TWO_LIMBS.iter().map(|v| v.to_string()).collect::<Vec<_>>().join(","),
                        "TRACE_LIMBS" => F::TRACE_LIMBS.iter().map(|v| v.to_string()).collect::<Vec<_>>().join(","),
                        "TRACE_MINUS_ONE_DIV_TWO_LIMBS" => F::TRACE_MINUS_ONE_DIV_TWO_LIMBS.iter().map(|v| v.to_string()).collect::<Vec<_>>().join(","),
                        "MODULUS_BIT_SIZE" => F::MODULUS_BIT_SIZE.to_string(),
                        "TWO_ADICITY" => F::TWO_ADICITY.to_string(),
                        other => extra_const::<F>(other),
                    },
                    ("srz", [a, c]) => match (fe(a), fe(c)) {
                        (Some(x), Some(y)) => srz(x, y),
                        _ => "bad-op".into(),
                    },
                    _ => "unsupported".into(),
                }
            }
        }
    };
}

field_impl!(fq, Fq, 32, 4, true);
field_impl!(fr, Fr, 32, 4, false);
field_impl!(fp, Fp, 48, 6, false);

// operations that exist for Fq only --------------------------------------------------------------

mod only_fq {
    use super::*;
    use subtle::{Choice, ConditionallySelectable, ConstantTimeEq};
    pub fn power(x: Fq, l: Vec<u64>) -> String {
        fq::out(&x.power(&l))
    }
    pub fn select(x: Fq, y: Fq, c: bool) -> String {
        fq::out(&Fq::conditional_select(&x, &y, Choice::from(c as u8)))
    }
    pub fn cteq(x: Fq, y: Fq) -> String {
        if bool::from(x.ct_eq(&y)) { "1".into() } else { "0".into() }
    }
    pub fn srz(x: Fq, y: Fq) -> String {
        #[cfg(feature = "ark")]
        let (f, v) = Fq::sqrt_ratio_zeta(&x, &y);
        #[cfg(not(feature = "ark"))]
        let (f, v) = Fq::non_arkworks_sqrt_ratio_zeta(&x, &y);
        let bytes = v.to_bytes_le();
        let v = if bytes[0] & 1 == 1 { -v } else { v };
        format!("{} {}", if f { 1 } else { 0 }, fq::out(&v))
    }
}

mod fq_extra {
    pub use super::only_fq::*;
}

// dispatch of the Fq-only operations inside the macro-generated modules
mod dispatch {
    use super::*;
    pub trait Extra: Sized {
        fn power(_x: Self, _l: Vec<u64>) -> String { "unsupported".into() }
        fn select(_x: Self, _y: Self, _c: bool) -> String { "unsupported".into() }
        fn cteq(_x: Self, _y: Self) -> String { "unsupported".into() }
        fn srz(_x: Self, _y: Self) -> String { "unsupported".into() }
    }
    impl Extra for Fq {
        fn power(x: Self, l: Vec<u64>) -> String { only_fq::power(x, l) }
        fn select(x: Self, y: Self, c: bool) -> String { only_fq::select(x, y, c) }
        fn cteq(x: Self, y: Self) -> String { only_fq::cteq(x, y) }
        fn srz(x: Self, y: Self) -> String { only_fq::srz(x, y) }
    }
    impl Extra for Fr {}
    impl Extra for Fp {}
}

pub fn power<T: dispatch::Extra>(x: T, l: Vec<u64>) -> String { T::power(x, l) }
pub fn select<T: dispatch::Extra>(x: T, y: T, c: bool) -> String { T::select(x, y, c) }
pub fn cteq<T: dispatch::Extra>(x: T, y: T) -> String { T::cteq(x, y) }
pub fn srz<T: dispatch::Extra>(x: T, y: T) -> String { T::srz(x, y) }

/// constants that exist only for some of the fields
pub trait ExtraConst: Sized {
    fn get(_name: &str) -> String { "unsupported".into() }
}
impl ExtraConst for Fq {
    fn get(name: &str) -> String {
        match name {
            "QUADRATIC_NON_RESIDUE_TO_TRACE" => fq::out(&Fq::QUADRATIC_NON_RESIDUE_TO_TRACE),
            "ZETA" => fq::out(&decaf377::ZETA),
            _ => "unsupported".into(),
        }
    }
}
impl ExtraConst for Fr {}
impl ExtraConst for Fp {
    fn get(name: &str) -> String {
        match name {
            "QUADRATIC_NON_RESIDUE_TO_TRACE" => fp::out(&Fp::QUADRATIC_NON_RESIDUE_TO_TRACE),
            "MINUS_ONE" => fp::out(&Fp::MINUS_ONE),
            "QUADRATIC_NON_RESIDUE" => fp::out(&Fp::QUADRATIC_NON_RESIDUE),
            _ => "unsupported".into(),
        }
    }
}
pub fn extra_const<T: ExtraConst>(name: &str) -> String { T::get(name) }

pub fn exec_field(fld: &str, op: &str, form: &str, args: &[&str]) -> String {
    match fld {
        "fq" => fq::exec(op, form, args),
        "fr" => fr::exec(op, form, args),
        "fp" => fp::exec(op, form, args),
        _ => "bad-op".into(),
    }
}
