//! Group programs against the arkworks build: every public operator form.
use super::*;
use ark_ec::{AffineRepr, CurveGroup, Group, ScalarMul, VariableBaseMSM};
use ark_ff::{PrimeField, UniformRand, Zero};
use ark_serialize::{CanonicalDeserialize, CanonicalSerialize};
use ark_std::rand::distributions::{Distribution, Standard};
use decaf377::{Element, Encoding, Fq, Fr};
use rand_core::{RngCore, SeedableRng};
use std::convert::{TryFrom, TryInto};

type Affine = <Element as CurveGroup>::Affine;

fn b(x: bool) -> String {
    if x { "1".into() } else { "0".into() }
}
fn hash_of<T: Hash>(t: &T) -> u64 {
    let mut h = DefaultHasher::new();
    t.hash(&mut h);
    h.finish()
}

/// RNG wrapper that counts draws and panics (caught per line) after a budget: the samplers are
/// rejection loops and need not terminate on a degenerate stream.
pub struct Budget<R: RngCore> {
    pub inner: R,
    pub left: u64,
}
impl<R: RngCore> RngCore for Budget<R> {
    fn next_u32(&mut self) -> u32 {
        self.tick();
        self.inner.next_u32()
    }
    fn next_u64(&mut self) -> u64 {
        self.tick();
        self.inner.next_u64()
    }
    fn fill_bytes(&mut self, d: &mut [u8]) {
        self.tick();
        self.inner.fill_bytes(d)
    }
    fn try_fill_bytes(&mut self, d: &mut [u8]) -> Result<(), rand_core::Error> {
        self.tick();
        self.inner.try_fill_bytes(d)
    }
}
impl<R: RngCore> Budget<R> {
    fn tick(&mut self) {
        if self.left == 0 {
            std::panic::panic_any("rng-budget");
        }
        self.left -= 1;
    }
}
/// constant / low-entropy stream
pub struct ConstRng(pub u8, pub u64);
impl RngCore for ConstRng {
    fn next_u32(&mut self) -> u32 {
        let mut b = [0u8; 4];
        self.fill_bytes(&mut b);
        u32::from_le_bytes(b)
    }
    fn next_u64(&mut self) -> u64 {
        let mut b = [0u8; 8];
        self.fill_bytes(&mut b);
        u64::from_le_bytes(b)
    }
    fn fill_bytes(&mut self, d: &mut [u8]) {
        for x in d.iter_mut() {
            *x = self.0.wrapping_add((self.1 & 0xff) as u8);
            self.1 = self.1.wrapping_mul(6364136223846793005).wrapping_add(1442695040888963407) >> 3;
        }
    }
    fn try_fill_bytes(&mut self, d: &mut [u8]) -> Result<(), rand_core::Error> {
        self.fill_bytes(d);
        Ok(())
    }
}

/// the 64 hex digits a formatted element shows (the first maximal run of hex digits of length 64)
fn hex64(s: &str) -> String {
    let b = s.as_bytes();
    let mut i = 0;
    while i < b.len() {
        let mut j = i;
        while j < b.len() && b[j].is_ascii_hexdigit() { j += 1; }
        if j - i == 64 { return s[i..j].to_ascii_lowercase(); }
        i = if j > i { j } else { i + 1 };
    }
    format!("nohex:{}", s.replace(' ', "_"))
}

/// a reader that hands out one byte per `read` call
struct Drip<'a>(&'a [u8], usize);
impl<'a> ark_std::io::Read for Drip<'a> {
    fn read(&mut self, buf: &mut [u8]) -> ark_std::io::Result<usize> {
        if self.1 >= self.0.len() || buf.is_empty() { return Ok(0); }
        buf[0] = self.0[self.1];
        self.1 += 1;
        Ok(1)
    }
}

/// a writer that takes at most `k` bytes per `write` call (a pipe, a socket): `write_all` must still deliver everything
struct DripW(Vec<u8>, usize);
impl ark_std::io::Write for DripW {
    fn write(&mut self, buf: &[u8]) -> ark_std::io::Result<usize> {
        let n = buf.len().min(self.1);
        self.0.extend_from_slice(&buf[..n]);
        Ok(n)
    }
    fn flush(&mut self) -> ark_std::io::Result<()> { Ok(()) }
}

/// the bytes `f` writes through chunking writers of several chunk sizes (all must agree), and into a 20-byte buffer, which must be
/// an error and not a silently truncated encoding
fn ser_drip(f: &dyn Fn(&mut dyn ark_std::io::Write) -> Result<(), ark_serialize::SerializationError>) -> String {
    let mut outs = Vec::new();
    for k in [1usize, 5, 31, 32] {
        let mut w = DripW(Vec::new(), k);
        if f(&mut w).is_err() { return format!("err-write-chunk-{}", k); }
        outs.push(tohex(&w.0));
    }
    if outs.iter().any(|o| o != &outs[0]) { return format!("chunked-writes-differ {}", outs.join(" ")); }
    let mut small = [0u8; 20];
    let mut sl: &mut [u8] = &mut small[..];
    if f(&mut sl).is_ok() { return "short-buffer-accepted".into(); }
    outs.remove(0)
}

/// a stream that ends early is a length error, anything else an encoding error
fn ser_err(e: ark_serialize::SerializationError, len: usize) -> String {
    match e {
        ark_serialize::SerializationError::IoError(_) if len < 32 => "err-len".into(),
        _ => "err-enc".into(),
    }
}

fn dec(form: &str, bytes: &[u8]) -> Result<Element, String> {
    fn arr(bytes: &[u8]) -> Result<[u8; 32], String> {
        bytes.try_into().map_err(|_| "err-len".to_string())
    }
    fn ee(e: decaf377::EncodingError) -> String {
        match e {
            decaf377::EncodingError::InvalidEncoding => "err-enc".into(),
            decaf377::EncodingError::InvalidSliceLength => "err-len".into(),
        }
    }
    match form {
        "" | "try_slice" => Element::try_from(bytes).map_err(ee),
        "enc_try_slice" => {
            let e = Encoding::try_from(bytes).map_err(ee)?;
            e.vartime_decompress().map_err(ee)
        }
        "decompress" => Encoding(arr(bytes)?).vartime_decompress().map_err(ee),
        #[allow(deprecated)]
        "decompress_deprecated" => Encoding(arr(bytes)?).decompress().map_err(ee),
        "try_arr" => Element::try_from(arr(bytes)?).map_err(ee),
        "try_enc" => Element::try_from(Encoding(arr(bytes)?)).map_err(ee),
        "try_enc_ref" => Element::try_from(&Encoding(arr(bytes)?)).map_err(ee),
        "enc_from_arr" => { let e: Encoding = arr(bytes)?.into(); e.vartime_decompress().map_err(ee) }
        // stream deserialisers read exactly 32 bytes from the front; shorter input is an io error (= length)
        // the stream is handed over as it is (a short stream must be an error, never padded), either as one slice or
        // through a reader that delivers one byte per `read` call
        "deser_elem" | "deser_elem_drip" => {
            let r = if form == "deser_elem" { Element::deserialize_compressed(&bytes[..]) } else { Element::deserialize_compressed(Drip(bytes, 0)) };
            r.map_err(|e| ser_err(e, bytes.len()))
        }
        "deser_aff" | "deser_aff_drip" => {
            let r = if form == "deser_aff" { Affine::deserialize_compressed(&bytes[..]) } else { Affine::deserialize_compressed(Drip(bytes, 0)) };
            r.map(|a| a.into()).map_err(|e| ser_err(e, bytes.len()))
        }
        "deser_enc" | "deser_enc_drip" => {
            let r = if form == "deser_enc" { Encoding::deserialize_compressed(&bytes[..]) } else { Encoding::deserialize_compressed(Drip(bytes, 0)) };
            let e = r.map_err(|e| ser_err(e, bytes.len()))?;
            e.vartime_decompress().map_err(ee)
        }
        // the other (Compress, Validate) modes of the stream deserialisers: every one of them is a public constructor
        "deser_elem_unc" | "deser_elem_unchecked" | "deser_elem_unc_unchecked" | "deser_aff_unc" | "deser_aff_unchecked" | "deser_aff_unc_unchecked" => {
            use std::panic::{catch_unwind, AssertUnwindSafe};
            let b = bytes.to_vec();
            let f = form.to_string();
            let r = catch_unwind(AssertUnwindSafe(move || -> Result<Element, String> {
                let e = |_| "err-enc".to_string();
                Ok(match f.as_str() {
                    "deser_elem_unc" => Element::deserialize_uncompressed(&b[..]).map_err(e)?,
                    "deser_elem_unchecked" => Element::deserialize_compressed_unchecked(&b[..]).map_err(e)?,
                    "deser_elem_unc_unchecked" => Element::deserialize_uncompressed_unchecked(&b[..]).map_err(e)?,
                    "deser_aff_unc" => Affine::deserialize_uncompressed(&b[..]).map_err(e)?.into(),
                    "deser_aff_unchecked" => Affine::deserialize_compressed_unchecked(&b[..]).map_err(e)?.into(),
                    _ => Affine::deserialize_uncompressed_unchecked(&b[..]).map_err(e)?.into(),
                })
            }));
            match r {
                Ok(x) => x,
                Err(_) => Err("panic".into()),
            }
        }
        _ => Err("unsupported".into()),
    }
}

fn add(form: &str, x: Element, y: Element) -> Option<Element> {
    let xa: Affine = x.into();
    let ya: Affine = y.into();
    Some(match form {
        "" | "pp_rr" => &x + &y,
        "pp_or" => x + &y,
        "pp_ro" => &x + y,
        "pp_oo" => x + y,
        "pp_asg_r" => { let mut z = x; z += &y; z }
        "pp_asg_o" => { let mut z = x; z += y; z }
        "aa_rr" => (&xa + &ya).into(),
        "aa_or" => xa + &ya,
        "aa_ro" => (&xa + ya).into(),
        "aa_oo" => xa + ya,
        "aa_asg_r" => { let mut z = xa; z += &ya; z.into() }
        "aa_asg_o" => { let mut z = xa; z += ya; z.into() }
        "pa_or" => x + &ya,
        "pa_oo" => x + ya,
        "ap_oo" => xa + y,
        "ap_or" => xa + &y,
        "pa_asg_r" => { let mut z = x; z += &ya; z }
        "pa_asg_o" => { let mut z = x; z += ya; z }
        _ => return None,
    })
}

fn sub(form: &str, x: Element, y: Element) -> Option<Element> {
    let xa: Affine = x.into();
    let ya: Affine = y.into();
    Some(match form {
        "" | "pp_rr" => &x - &y,
        "pp_or" => x - &y,
        "pp_ro" => &x - y,
        "pp_oo" => x - y,
        "pp_asg_r" => { let mut z = x; z -= &y; z }
        "pp_asg_o" => { let mut z = x; z -= y; z }
        "aa_rr" => (&xa - &ya).into(),
        "aa_or" => (xa - &ya).into(),
        "aa_ro" => (&xa - ya).into(),
        "aa_oo" => (xa - ya).into(),
        "aa_asg_r" => { let mut z = xa; z -= &ya; z.into() }
        "aa_asg_o" => { let mut z = xa; z -= ya; z.into() }
        "pa_or" => x - &ya,
        "pa_oo" => x - ya,
        "pa_asg_r" => { let mut z = x; z -= &ya; z }
        "pa_asg_o" => { let mut z = x; z -= ya; z }
        _ => return None,
    })
}

fn mul(form: &str, x: Element, k: Fr) -> Option<Element> {
    let xa: Affine = x.into();
    Some(match form {
        "" | "pe_rr" => &x * &k,
        "ep_rr" => &k * &x,
        "pe_or" => x * &k,
        "pe_ro" => &x * k,
        "pe_oo" => x * k,
        "ep_or" => k * &x,
        "ep_ro" => &k * x,
        "ep_oo" => k * x,
        "p_asg_r" => { let mut z = x; z *= &k; z }
        "p_asg_o" => { let mut z = x; z *= k; z }
        "ae_rr" => (&xa * &k).into(),
        "ea_rr" => (&k * &xa).into(),
        "ae_or" => xa * &k,
        "ae_ro" => (&xa * k).into(),
        "ae_oo" => xa * k,
        "ea_or" => (k * &xa).into(),
        "ea_ro" => (&k * xa).into(),
        "ea_oo" => (k * xa).into(),
        "a_asg_r" => { let mut z = xa; z *= &k; z.into() }
        "a_asg_o" => { let mut z = xa; z *= k; z.into() }
        "bigint_p" => x.mul_bigint(k.into_bigint()),
        "bigint_a" => xa.mul_bigint(k.into_bigint()),
        _ => return None,
    })
}

fn enc(form: &str, x: &Element) -> String {
    let xa: Affine = (*x).into();
    match form {
        "" | "compress" => tohex(&x.vartime_compress().0),
        "to_field" => tohex(&x.vartime_compress_to_field().to_bytes_le()),
        "into_arr" => { let a: [u8; 32] = (*x).into(); tohex(&a) }
        "into_enc" => { let e: Encoding = (*x).into(); tohex(&e.0) }
        "into_enc_ref" => { let e: Encoding = x.into(); tohex(&e.0) }
        "enc_into_arr" => { let e: Encoding = (*x).into(); let a: [u8; 32] = e.into(); tohex(&a) }
        "ser" => { let mut v = Vec::new(); x.serialize_compressed(&mut v).unwrap(); tohex(&v) }
        "ser_aff" => { let mut v = Vec::new(); xa.serialize_compressed(&mut v).unwrap(); tohex(&v) }
        "ser_enc" => { let mut v = Vec::new(); x.vartime_compress().serialize_compressed(&mut v).unwrap(); tohex(&v) }
        "ser_drip" => ser_drip(&|w| x.serialize_compressed(w)),
        "ser_aff_drip" => ser_drip(&|w| xa.serialize_compressed(w)),
        "ser_enc_drip" => { let e = x.vartime_compress(); ser_drip(&|w| e.serialize_compressed(w)) }
        "ser_size" => { let e = x.vartime_compress(); if (x.compressed_size(), xa.compressed_size(), e.compressed_size()) == (32, 32, 32) { tohex(&e.0) } else { "size-not-32".into() } }
        // Debug / Display show the hex of the encoding: the observable is that hex string, whatever surrounds it
        "debug" => hex64(&format!("{:?}", x)),
        "display" => hex64(&format!("{}", x)),
        "debug_aff" => hex64(&format!("{:?}", xa)),
        "display_aff" => hex64(&format!("{}", xa)),
        "debug_enc" => hex64(&format!("{:?}", x.vartime_compress())),
        #[cfg(feature = "r1cs")]
        "to_field_elements" => {
            use ark_ff::ToConstraintField;
            let v = x.to_field_elements().unwrap();
            if v.len() != 1 { return "bad-len".into(); }
            tohex(&v[0].to_bytes_le())
        }
        _ => "unsupported".into(),
    }
}

pub fn scalar_of(s: &str) -> Option<Fr> {
    fr_of(s)
}

/// validity oracle of C06: encoding decodes to an equal element, r*P is the identity, on the curve
fn valid(p: &Element) -> String {
    let e = p.vartime_compress();
    let rt = match e.vartime_decompress() {
        Ok(q) => q == *p,
        Err(_) => false,
    };
    let r_limbs = <Fr as PrimeField>::MODULUS.0;
    let rp = p.mul_bigint(r_limbs);
    let a: Affine = (*p).into();
    let on = match a.xy() {
        Some((x, y)) => {
            let d = Fq::from(3021u64);
            (*y * *y - *x * *x) == (Fq::from(1u64) + d * *x * *x * *y * *y)
        }
        None => true,
    };
    if rt && rp.is_identity() && on {
        "valid".into()
    } else {
        format!("INVALID(roundtrip={},order={},oncurve={})", rt, rp.is_identity(), on)
    }
}

/// a generator that is stuck on one output word for a while and then recovers
pub struct StuckRng {
    word: u64,
    left: u64,
    rec: rand_chacha::ChaChaRng,
}
impl RngCore for StuckRng {
    fn next_u32(&mut self) -> u32 {
        self.next_u64() as u32
    }
    fn next_u64(&mut self) -> u64 {
        if self.left > 0 {
            self.left -= 1;
            self.word
        } else {
            self.rec.next_u64()
        }
    }
    fn fill_bytes(&mut self, d: &mut [u8]) {
        rand_core::impls::fill_bytes_via_next(self, d)
    }
    fn try_fill_bytes(&mut self, d: &mut [u8]) -> Result<(), rand_core::Error> {
        self.fill_bytes(d);
        Ok(())
    }
}

fn rng_for(kind: &str, seed: u64) -> Box<dyn RngCore> {
    match kind {
        // word = low 8 bits of the seed, stuck for (seed >> 8) & 0xffff calls
        "stuck" => Box::new(Budget { inner: StuckRng { word: seed & 0xff, left: (seed >> 8) & 0xffff, rec: rand_chacha::ChaChaRng::seed_from_u64(seed) }, left: 400_000 }),
        "const" => Box::new(Budget { inner: ConstRng(seed as u8, seed), left: 100_000 }),
        "zero" => Box::new(Budget { inner: ConstRng(0, 0), left: 100_000 }),
        _ => Box::new(Budget { inner: rand_chacha::ChaChaRng::seed_from_u64(seed), left: 100_000 }),
    }
}

pub fn exec_prog(prog: &str) -> String {
    let mut regs: HashMap<String, Element> = HashMap::new();
    run_prog(prog, &mut regs)
}

/// run a program and return the element left in register `E`
pub fn eval_elem(prog: &str) -> Result<Element, String> {
    let mut regs: HashMap<String, Element> = HashMap::new();
    let out = run_prog(&prog.replace('/', ";").replace('~', "="), &mut regs);
    regs.get("E").copied().ok_or_else(|| format!("bad-elem:{}", out))
}

fn run_prog(prog: &str, regs: &mut HashMap<String, Element>) -> String {
    let mut outs: Vec<String> = Vec::new();
    macro_rules! fail {
        ($e:expr) => {{
            outs.push($e.to_string());
            return outs.join(" ");
        }};
    }
    for st in prog.split(';') {
        if st.is_empty() {
            continue;
        }
        let (dst, rhs) = match st.find('=') {
            Some(i) => (Some(&st[..i]), &st[i + 1..]),
            None => (None, st),
        };
        let (op, argstr) = match rhs.find(':') {
            Some(i) => (&rhs[..i], &rhs[i + 1..]),
            None => (rhs, ""),
        };
        let args: Vec<&str> = if argstr.is_empty() { vec![] } else { argstr.split(',').collect() };
        let base = base_of(op);
        let form = form_of(op);
        macro_rules! reg {
            ($r:expr) => {
                match regs.get($r) {
                    Some(e) => *e,
                    None => fail!("badreg"),
                }
            };
        }
        if let Some(dst) = dst {
            let v: Element = match (base, args.as_slice()) {
                ("gen", []) => match form {
                    "" | "const" => Element::GENERATOR,
                    "group" => <Element as Group>::generator(),
                    "affine" => <Affine as AffineRepr>::generator().into(),
                    _ => fail!("unsupported"),
                },
                ("id", []) => match form {
                    "" | "const" => Element::IDENTITY,
                    "default" => Element::default(),
                    "zero" => <Element as Zero>::zero(),
                    "aff_zero" => <Affine as AffineRepr>::zero().into(),
                    "aff_default" => Affine::default().into(),
                    _ => fail!("unsupported"),
                },
                ("dec", [h]) => match unhex(h) {
                    Some(bs) => match dec(form, &bs) {
                        Ok(e) => e,
                        Err(e) => fail!(e),
                    },
                    None => fail!("bad-op"),
                },
                ("redec", [a]) => {
                    let x = reg!(*a);
                    match x.vartime_compress().vartime_decompress() {
                        Ok(e) => e,
                        Err(_) => fail!("err-enc"),
                    }
                }
                ("ell", [h]) => match fq_of(h) {
                    Some(r0) => Element::encode_to_curve(&r0),
                    None => fail!("bad-op"),
                },
                ("h2c", [h1, h2]) => match (fq_of(h1), fq_of(h2)) {
                    (Some(a), Some(c)) => Element::hash_to_curve(&a, &c),
                    _ => fail!("bad-op"),
                },
                ("add", [a, c]) => match add(form, reg!(*a), reg!(*c)) { Some(e) => e, None => fail!("unsupported") },
                ("sub", [a, c]) => match sub(form, reg!(*a), reg!(*c)) { Some(e) => e, None => fail!("unsupported") },
                ("neg", [a]) => {
                    let x = reg!(*a);
                    match form {
                        "" | "p" => -x,
                        "a" => { let xa: Affine = x.into(); (-xa).into() }
                        "negate" => x.negate(),
                        _ => fail!("unsupported"),
                    }
                }
                ("dbl", [a]) => {
                    let x = reg!(*a);
                    match form {
                        "" | "double" => Group::double(&x),
                        "in_place" => { let mut z = x; Group::double_in_place(&mut z); z }
                        _ => fail!("unsupported"),
                    }
                }
                ("aff", [a]) => {
                    let x = reg!(*a);
                    match form {
                        "" | "into" => { let xa: Affine = x.into(); xa.into() }
                        "into_ref" => { let xa: Affine = (&x).into(); (&xa).into() }
                        "into_affine" => x.into_affine().into(),
                        "into_group" => x.into_affine().into_group(),
                        "normalize_batch" => Element::normalize_batch(&[Element::GENERATOR, x, x + Element::GENERATOR])[1].into(),
                        "batch_convert" => Element::batch_convert_to_mul_base(&[x, Element::GENERATOR])[0].into(),
                        "clear_cofactor" => x.into_affine().clear_cofactor().into(),
                        "mul_by_cofactor" => x.into_affine().mul_by_cofactor_to_group(),
                        _ => fail!("unsupported"),
                    }
                }
                // whole batches through the batch helpers: `R=nbat.<i>:A,B,C` is entry i of normalize_batch([A,B,C]),
                // `R=bconv.<i>:…` the same through batch_convert_to_mul_base
                ("nbat", regs_) | ("bconv", regs_) if !regs_.is_empty() => {
                    let mut v = Vec::new();
                    for r_ in regs_.iter() { v.push(reg!(*r_)); }
                    let i: usize = match form.parse() { Ok(i) if i < v.len() => i, _ => fail!("bad-op") };
                    if base == "nbat" { Element::normalize_batch(&v)[i].into() } else { Element::batch_convert_to_mul_base(&v)[i].into() }
                }
                ("mul", [a, k]) => match scalar_of(k) {
                    Some(k) => match mul(form, reg!(*a), k) { Some(e) => e, None => fail!("unsupported") },
                    None => fail!("bad-op"),
                },
                ("mulbig", [a, ls]) => match parse_limbs(&ls.replace('+', ",")) {
                    Some(l) => {
                        let x = reg!(*a);
                        match form {
                            "" | "p" => x.mul_bigint(&l),
                            "a" => { let xa: Affine = x.into(); xa.mul_bigint(&l) }
                            _ => fail!("unsupported"),
                        }
                    }
                    None => fail!("bad-op"),
                },
                ("sum", rs) => {
                    let mut v = Vec::new();
                    for r in rs { v.push(reg!(*r)); }
                    match form {
                        "" | "p_own" => v.into_iter().sum::<Element>(),
                        "p_ref" => v.iter().sum::<Element>(),
                        "a_own" => v.into_iter().map(|e| -> Affine { e.into() }).sum::<Element>(),
                        "a_ref" => { let w: Vec<Affine> = v.into_iter().map(|e| e.into()).collect(); w.iter().sum::<Element>() }
                        _ => fail!("unsupported"),
                    }
                }
                ("msm", kvs) => {
                    if kvs.len() % 2 != 0 { fail!("bad-op"); }
                    let mut ps = Vec::new();
                    let mut ks = Vec::new();
                    for ch in kvs.chunks(2) {
                        ps.push(reg!(ch[0]));
                        match scalar_of(ch[1]) { Some(k) => ks.push(k), None => fail!("bad-op") }
                    }
                    match form {
                        "" | "vartime" => Element::vartime_multiscalar_mul(ks.iter(), ps.iter()),
                        "vartime_own" => Element::vartime_multiscalar_mul(ks.clone(), ps.clone()),
                        "msm" => {
                            let bases: Vec<Affine> = ps.iter().map(|e| (*e).into()).collect();
                            match <Element as VariableBaseMSM>::msm(&bases, &ks) { Ok(e) => e, Err(_) => fail!("err") }
                        }
                        "msm_unchecked" => {
                            let bases: Vec<Affine> = ps.iter().map(|e| (*e).into()).collect();
                            <Element as VariableBaseMSM>::msm_unchecked(&bases, &ks)
                        }
                        _ => fail!("unsupported"),
                    }
                }
                // constructors that the model cannot replay (RNG streams): oracle-only, see `valid`
                ("rand", [kind, seed]) => {
                    let seed: u64 = seed.parse().unwrap_or(0);
                    let mut rng = rng_for(kind, seed);
                    match form {
                        "" | "elem" => { let e: Element = Standard.sample(&mut *rng); e }
                        "aff" => { let a: Affine = Standard.sample(&mut *rng); a.into() }
                        "uniform" => <Element as UniformRand>::rand(&mut *rng),
                        "uniform_aff" => <Affine as UniformRand>::rand(&mut *rng).into(),
                        _ => fail!("unsupported"),
                    }
                }
                ("frb", [h]) => match unhex(h) {
                    Some(bs) => match <Affine as AffineRepr>::from_random_bytes(&bs) {
                        Some(a) => a.into(),
                        None => fail!("none"),
                    },
                    None => fail!("bad-op"),
                },
                _ => fail!("unsupported"),
            };
            regs.insert(dst.to_string(), v);
        } else {
            let o = match (base, args.as_slice()) {
                ("enc", [a]) => enc(form, &reg!(*a)),
                ("eq", [a, c]) => {
                    let (x, y) = (reg!(*a), reg!(*c));
                    match form {
                        "" | "p" => b(x == y),
                        "a" => { let (xa, ya): (Affine, Affine) = (x.into(), y.into()); b(xa == ya) }
                        "ne" => b(!(x != y)),
                        _ => "unsupported".into(),
                    }
                }
                ("isid", [a]) => {
                    let x = reg!(*a);
                    match form {
                        "" | "is_identity" => b(x.is_identity()),
                        "is_zero" => b(Zero::is_zero(&x)),
                        "eq_identity" => b(x == Element::IDENTITY),
                        "eq_default" => b(x == Element::default()),
                        "aff_is_zero" => { let xa: Affine = x.into(); b(AffineRepr::is_zero(&xa)) }
                        "aff_eq_zero" => { let xa: Affine = x.into(); b(xa == <Affine as AffineRepr>::zero()) }
                        _ => "unsupported".into(),
                    }
                }
                ("heq", [a, c]) => {
                    let (x, y) = (reg!(*a), reg!(*c));
                    match form {
                        "" | "p" => b(hash_of(&x) == hash_of(&y)),
                        "a" => { let (xa, ya): (Affine, Affine) = (x.into(), y.into()); b(hash_of(&xa) == hash_of(&ya)) }
                        _ => "unsupported".into(),
                    }
                }
                ("valid", [a]) => valid(&reg!(*a)),
                _ => "unsupported".into(),
            };
            outs.push(o);
        }
    }
    outs.join(" ")
}
