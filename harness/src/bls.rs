//! C16: the crate's BLS12-377 engine (over its own Fp / Fq) against the reference `ark_bls12_377` engine.
use super::*;
use ark_ec::pairing::Pairing;
use ark_ec::{AffineRepr, CurveGroup, Group};
use ark_ff::{Field, One, PrimeField};
use ark_serialize::{CanonicalDeserialize, CanonicalSerialize};

type Ours = decaf377::Bls12_377;
type Ref = ark_bls12_377::Bls12_377;

fn ser<T: CanonicalSerialize>(t: &T, compressed: bool) -> String {
    let mut v = Vec::new();
    if compressed { t.serialize_compressed(&mut v).unwrap(); } else { t.serialize_uncompressed(&mut v).unwrap(); }
    tohex(&v)
}

fn scalars(args: &[&str]) -> Option<(decaf377::Fq, ark_bls12_377::Fr, decaf377::Fq, ark_bls12_377::Fr)> {
    let a = unhex(args.get(0)?)?;
    let b = unhex(args.get(1)?)?;
    Some((decaf377::Fq::from_le_bytes_mod_order(&a), ark_bls12_377::Fr::from_le_bytes_mod_order(&a),
          decaf377::Fq::from_le_bytes_mod_order(&b), ark_bls12_377::Fr::from_le_bytes_mod_order(&b)))
}

pub fn exec_bls(o: &str, args: &[&str]) -> String {
    match o {
        // generators, both serialisation modes; output pairs ours/ref
        "gen" => {
            let g1 = <Ours as Pairing>::G1Affine::generator();
            let g2 = <Ours as Pairing>::G2Affine::generator();
            let r1 = <Ref as Pairing>::G1Affine::generator();
            let r2 = <Ref as Pairing>::G2Affine::generator();
            format!("{} {} {} {} {} {} {} {}", ser(&g1, true), ser(&r1, true), ser(&g2, true), ser(&r2, true),
                    ser(&g1, false), ser(&r1, false), ser(&g2, false), ser(&r2, false))
        }
        // a*G1, b*G2, e(aG1,bG2): serialised bytes of both engines, then bilinearity and non-degeneracy
        "mul" => match scalars(args) {
            Some((a, ra, b, rb)) => {
                let p = (<Ours as Pairing>::G1::generator() * a).into_affine();
                let q = (<Ours as Pairing>::G2::generator() * b).into_affine();
                let rp = (<Ref as Pairing>::G1::generator() * ra).into_affine();
                let rq = (<Ref as Pairing>::G2::generator() * rb).into_affine();
                let e = Ours::pairing(p, q);
                let re = Ref::pairing(rp, rq);
                let base = Ours::pairing(<Ours as Pairing>::G1Affine::generator(), <Ours as Pairing>::G2Affine::generator());
                let bil = e.0 == base.0.pow((a * b).into_bigint());
                let nondeg = !base.0.is_one();
                // bilinearity in each argument separately: e(aP, Q) = e(P, aQ)
                let e2 = Ours::pairing((<Ours as Pairing>::G1::generator() * b).into_affine(), (<Ours as Pairing>::G2::generator() * a).into_affine());
                format!("{} {} {} {} {} {} bil={} sym={} nondeg={}", ser(&p, true), ser(&rp, true), ser(&q, true), ser(&rq, true), ser(&e, true), ser(&re, true),
                        bil as u8, (e2.0 == e.0) as u8, nondeg as u8)
            }
            None => "bad-op".into(),
        },
        // serialised points exchanged between the two engines, both directions, both modes
        "xchg" => match scalars(args) {
            Some((a, ra, b, rb)) => {
                let p = (<Ours as Pairing>::G1::generator() * a).into_affine();
                let q = (<Ours as Pairing>::G2::generator() * b).into_affine();
                let rp = (<Ref as Pairing>::G1::generator() * ra).into_affine();
                let rq = (<Ref as Pairing>::G2::generator() * rb).into_affine();
                let mut ok = true;
                for compressed in [true, false] {
                    let mut v = Vec::new();
                    if compressed { p.serialize_compressed(&mut v).unwrap() } else { p.serialize_uncompressed(&mut v).unwrap() };
                    let back = if compressed { <Ref as Pairing>::G1Affine::deserialize_compressed(&v[..]) } else { <Ref as Pairing>::G1Affine::deserialize_uncompressed(&v[..]) };
                    ok &= back.map(|x| x == rp).unwrap_or(false);
                    let mut v = Vec::new();
                    if compressed { rq.serialize_compressed(&mut v).unwrap() } else { rq.serialize_uncompressed(&mut v).unwrap() };
                    let back = if compressed { <Ours as Pairing>::G2Affine::deserialize_compressed(&v[..]) } else { <Ours as Pairing>::G2Affine::deserialize_uncompressed(&v[..]) };
                    ok &= back.map(|x| x == q).unwrap_or(false);
                    let mut v = Vec::new();
                    if compressed { rp.serialize_compressed(&mut v).unwrap() } else { rp.serialize_uncompressed(&mut v).unwrap() };
                    let back = if compressed { <Ours as Pairing>::G1Affine::deserialize_compressed(&v[..]) } else { <Ours as Pairing>::G1Affine::deserialize_uncompressed(&v[..]) };
                    ok &= back.map(|x| x == p).unwrap_or(false);
                    let mut v = Vec::new();
                    if compressed { q.serialize_compressed(&mut v).unwrap() } else { q.serialize_uncompressed(&mut v).unwrap() };
                    let back = if compressed { <Ref as Pairing>::G2Affine::deserialize_compressed(&v[..]) } else { <Ref as Pairing>::G2Affine::deserialize_uncompressed(&v[..]) };
                    ok &= back.map(|x| x == rq).unwrap_or(false);
                }
                format!("xchg={}", ok as u8)
            }
            None => "bad-op".into(),
        },
        // arbitrary byte strings offered to both engines' deserialisers: same verdict, same value
        "deser" => {
            let kind = args.get(0).copied().unwrap_or("");
            let bytes = match args.get(1).and_then(|h| unhex(h)) { Some(b) => b, None => return "bad-op".into() };
            fn show<T: CanonicalSerialize, E>(r: Result<T, E>) -> String {
                match r { Ok(v) => { let mut o = Vec::new(); v.serialize_uncompressed(&mut o).unwrap(); format!("ok:{}", tohex(&o)) } Err(_) => "err".into() }
            }
            let (a, b) = match kind {
                "g1c" => (show(<Ours as Pairing>::G1Affine::deserialize_compressed(&bytes[..])), show(<Ref as Pairing>::G1Affine::deserialize_compressed(&bytes[..]))),
                "g1u" => (show(<Ours as Pairing>::G1Affine::deserialize_uncompressed(&bytes[..])), show(<Ref as Pairing>::G1Affine::deserialize_uncompressed(&bytes[..]))),
                "g1cu" => (show(<Ours as Pairing>::G1Affine::deserialize_compressed_unchecked(&bytes[..])), show(<Ref as Pairing>::G1Affine::deserialize_compressed_unchecked(&bytes[..]))),
                "g1uu" => (show(<Ours as Pairing>::G1Affine::deserialize_uncompressed_unchecked(&bytes[..])), show(<Ref as Pairing>::G1Affine::deserialize_uncompressed_unchecked(&bytes[..]))),
                "g2c" => (show(<Ours as Pairing>::G2Affine::deserialize_compressed(&bytes[..])), show(<Ref as Pairing>::G2Affine::deserialize_compressed(&bytes[..]))),
                "g2u" => (show(<Ours as Pairing>::G2Affine::deserialize_uncompressed(&bytes[..])), show(<Ref as Pairing>::G2Affine::deserialize_uncompressed(&bytes[..]))),
                "g2cu" => (show(<Ours as Pairing>::G2Affine::deserialize_compressed_unchecked(&bytes[..])), show(<Ref as Pairing>::G2Affine::deserialize_compressed_unchecked(&bytes[..]))),
                "gt" => (show(<Ours as Pairing>::TargetField::deserialize_compressed(&bytes[..])), show(<Ref as Pairing>::TargetField::deserialize_compressed(&bytes[..]))),
                "fp" => (show(decaf377::Fp::deserialize_compressed(&bytes[..])), show(ark_bls12_377::Fq::deserialize_compressed(&bytes[..]))),
                "fr" => (show(decaf377::Fq::deserialize_compressed(&bytes[..])), show(ark_bls12_377::Fr::deserialize_compressed(&bytes[..]))),
                _ => return "bad-op".into(),
            };
            format!("{} {}", a, b)
        }
        _ => "unsupported".into(),
    }
}
