//! placeholder, filled in for C16
pub fn exec_bls(_o: &str, _args: &[&str]) -> String { "unsupported".into() }
