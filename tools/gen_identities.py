#!/usr/bin/env python3
"""One-off generator of lean/Decaf/Lemmas/EdwardsIdentities.lean: polynomial identities modulo the curve equation(s),
with cofactors found by sympy's multivariate division.  Lean re-checks every identity with `linear_combination`
(i.e. `ring`); sympy is not trusted.  Run with python3-vt."""
import sympy as sp
x1,y1,x2,y2,x3,y3,d=sp.symbols('x1 y1 x2 y2 x3 y3 d')
def L(z): return sp.sstr(sp.expand(z)).replace('**','^')
def curve(x,y): return -x**2+y**2-1-d*x**2*y**2
def parts(xa,ya,xb,yb):
    m=xa*xb*ya*yb
    return xa*yb+ya*xb, 1+d*m, ya*yb+xa*xb, 1-d*m
H1="(h1 : -x1^2 + y1^2 = 1 + d*x1^2*y1^2)"; H2="(h2 : -x2^2 + y2^2 = 1 + d*x2^2*y2^2)"; H3="(h3 : -x3^2 + y3^2 = 1 + d*x3^2*y3^2)"
out=["""/-
GENERATED ONCE by tools/gen_identities.py.  Polynomial identities on the twisted Edwards curve
-x² + y² = 1 + d·x²y² over any commutative ring; each is checked by `linear_combination` (hence by `ring`).
-/
import Mathlib.Tactic.LinearCombination
import Mathlib.Tactic.Ring

namespace Edwards
variable {K : Type*} [CommRing K]
"""]
def lemma(name, vars_, hyps, lhs, rhs, eqs, gens, lhs_s=None, rhs_s=None, pre=""):
    expr=sp.expand(lhs-rhs)
    Q,r=sp.reduced(expr,eqs,*gens,order='grevlex')
    assert r==0,(name,r)
    comb=" + ".join(f"({L(q)}) * h{i+1}" for i,q in enumerate(Q))
    out.append(f"{pre}theorem {name} (d {vars_} : K) {hyps} :\n    {lhs_s or L(lhs)} = {rhs_s or L(rhs)} := by\n  linear_combination {comb}\n")
# closure: Nx, Dx, Ny, Dy
A,B,C,D=parts(x1,y1,x2,y2)
lemma("closure_num","x1 y1 x2 y2",H1+" "+H2, -A**2*D**2+C**2*B**2, B**2*D**2+d*A**2*C**2,[curve(x1,y1),curve(x2,y2)],(x1,y1,x2,y2,d),
      "-(x1*y2 + y1*x2)^2*(1 - d*x1*x2*y1*y2)^2 + (y1*y2 + x1*x2)^2*(1 + d*x1*x2*y1*y2)^2",
      "(1 + d*x1*x2*y1*y2)^2*(1 - d*x1*x2*y1*y2)^2 + d*(x1*y2 + y1*x2)^2*(y1*y2 + x1*x2)^2")
A2,B2,C2,D2=parts(x2,y2,x3,y3)
# associativity x
NL=A*D*y3+C*B*x3; DL=B*D+d*A*C*x3*y3
NR=x1*C2*B2+y1*A2*D2; DR=B2*D2+d*x1*y1*A2*C2
lemma("assoc_x_num","x1 y1 x2 y2 x3 y3",H1+" "+H2+" "+H3, NL*DR, NR*DL,[curve(x1,y1),curve(x2,y2),curve(x3,y3)],(x1,y1,x2,y2,x3,y3,d),
      f"({L(NL)}) * ({L(DR)})", f"({L(NR)}) * ({L(DL)})", "set_option maxHeartbeats 1000000 in\n")
NL=C*B*y3+A*D*x3; DL=B*D-d*A*C*x3*y3
NR=y1*C2*B2+x1*A2*D2; DR=B2*D2-d*x1*y1*A2*C2
lemma("assoc_y_num","x1 y1 x2 y2 x3 y3",H1+" "+H2+" "+H3, NL*DR, NR*DL,[curve(x1,y1),curve(x2,y2),curve(x3,y3)],(x1,y1,x2,y2,x3,y3,d),
      f"({L(NL)}) * ({L(DR)})", f"({L(NR)}) * ({L(DL)})", "set_option maxHeartbeats 1000000 in\n")
# character multiplicativity
S=1-d*(x1**2+x2**2+x1**2*x2**2)
lemma("char_mul","x1 y1 x2 y2",H1+" "+H2, (B**2-d*A**2)*(1-d*x1**2)*(1-d*x2**2), S**2,[curve(x1,y1),curve(x2,y2)],(x1,y1,x2,y2,d),
      "((1 + d*x1*x2*y1*y2)^2 - d*(x1*y2 + y1*x2)^2) * (1 - d*x1^2) * (1 - d*x2^2)", "(1 - d*(x1^2 + x2^2 + x1^2*x2^2))^2")
# (1 - d x^2)(1 + d y^2) = 1 + d
lemma("one_sub_one_add","x1 y1",H1,(1-d*x1**2)*(1+d*y1**2),1+d,[curve(x1,y1)],(x1,y1,d),"(1 - d*x1^2)*(1 + d*y1^2)","1 + d")
out.append("end Edwards")
open('/verif/lean/Decaf/Lemmas/EdwardsIdentities.lean','w').write("\n".join(out))
print("written")
