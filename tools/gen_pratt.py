#!/usr/bin/env python3
"""One-off generator of Decaf/Spec/Primes.lean (Pratt certificates for q, r, p).  Run with python3-vt (needs sympy).
The output is committed; the certificates are *checked* by Lean's kernel, this script is not trusted."""
import sys
from sympy import factorint
sys.setrecursionlimit(10000)
done = {}
order = []
SMALL = 10**6
def gen(p):
    f = factorint(p - 1)
    for a in range(2, 5000):
        if pow(a, p - 1, p) == 1 and all(pow(a, (p - 1) // l, p) != 1 for l in f):
            return a, f
def cert(p, forced=None):
    if p in done or p < SMALL:
        return
    a, f = gen(p)
    if forced is not None:
        a = forced
        assert pow(a, p - 1, p) == 1 and all(pow(a, (p - 1) // l, p) != 1 for l in f)
    for l in f:
        cert(l)
    done[p] = (a, f)
    order.append(p)
q = 8444461749428370424248824938781546531375899335154063827935233455917409239041
r = 2111115437357092606062206234695386632838870926408408195193685246394721360383
p = 258664426012969094010652733694893533536393512754914660539884262666720468348340822774968888139573360124440321458177
cert(q, 22); cert(r, 5); cert(p, 15)
names = {q: 'q_lit', r: 'r_lit', p: 'p_lit'}
out = []
out.append("""/-
Primality of the three moduli, by Pratt certificates checked in the kernel (`decide +kernel` over
`Model.powMod`, Mathlib's `lucas_primality`).  GENERATED ONCE by tools/gen_pratt.py (sympy finds the
factorisations and witnesses; nothing it says is trusted).  The witnesses for q, r, p are the repository's
own multiplicative generators 22, 5, 15.
-/
import Decaf.Lemmas.PowMod
import Decaf.Props.C17

namespace Model
set_option maxRecDepth 100000
""")
def nm(x):
    return f"prime_{x}"
for x in order:
    a, f = done[x]
    fs = sorted(f)
    es = [f[l] for l in fs]
    alts = " | ".join(f"exact {nm(l)}" for l in fs if l >= SMALL)
    alts = (alts + " | norm_num") if alts else "norm_num"
    rc = "|".join(["rfl"] * len(fs))
    out.append(f"theorem {nm(x)} : Nat.Prime {x} :=\n  prime_of_lucas_cert _ {a} {fs} {es} (by norm_num) (by decide +kernel) rfl\n"
               f"    (by intro l hl; simp only [List.mem_cons, List.not_mem_nil, or_false] at hl; rcases hl with {rc} <;> first | {alts})\n"
               f"    (by decide +kernel) (by decide +kernel)\n")
out.append(f"theorem prime_q : Nat.Prime q := by rw [C17.q_val]; exact {nm(q)}")
out.append(f"theorem prime_r : Nat.Prime r := by rw [C17.r_val]; exact {nm(r)}")
out.append(f"theorem prime_p : Nat.Prime p := by rw [C17.p_val]; exact {nm(p)}")
out.append("instance : Fact (Nat.Prime q) := ⟨prime_q⟩\ninstance : Fact (Nat.Prime r) := ⟨prime_r⟩\ninstance : Fact (Nat.Prime p) := ⟨prime_p⟩")
out.append("end Model")
print("\n".join(out))
