#!/bin/sh
# tools/formula_probe.sh <patch.diff>... — for each seeded change: translate a patched scratch copy of /repo/src and report which
# formula theorems (Lemmas/Formulas/*) break.  Leaves lean/Decaf/Generated/Formulas.lean regenerated from /repo.
MODS="MinDouble MinAdd MinNeg MinCompress ArkCompress MinElligator ArkElligator MinDecompress ArkDecompress Eq R1cs HashToCurve OpForms ArkSqrt Ladder ConvForms Lazy FieldFns"
T=""; for m in $MODS; do T="$T Decaf.Lemmas.Formulas.$m"; done
for patch in "$@"; do
  rm -rf /tmp/fprobe && mkdir -p /tmp/fprobe && cp -r /repo/src /tmp/fprobe/src
  ( cd /tmp/fprobe && git init -q . 2>/dev/null; git apply --include='src/*' "$patch" 2>/dev/null || patch -p1 -s < "$patch" >/dev/null 2>&1 )
  st=$(python3 /verif/translator/extract_formulas.py /tmp/fprobe /verif/lean/Decaf/Generated/Formulas.lean; python3 /verif/translator/extract_opforms.py /tmp/fprobe /verif/lean/Decaf/Generated/OpForms.lean | tr '\n' ' '; python3 /verif/translator/extract_convforms.py /tmp/fprobe /verif/lean/Decaf/Generated/ConvForms.lean | tr '\n' ' '; python3 /verif/translator/extract_lazy.py /tmp/fprobe /verif/lean/Decaf/Generated/Lazy.lean | tr '\n' ' '; python3 /verif/translator/extract_fieldfns.py /tmp/fprobe /verif/lean/Decaf/Generated/FieldFns.lean | tr '\n' ' ')
  br=$(cd /verif/lean && lake build $T 2>&1 | grep -E "^error: Decaf|^✖" | sed -E 's/.*(Formulas\/[A-Za-z]+|Formulas\.[A-Za-z]+).*/\1/' | sort -u | tr '\n' ' ')
  echo "$(dirname $patch | xargs basename): $st | broken: ${br:-none}"
done
rm -rf /tmp/fprobe
python3 /verif/translator/extract_formulas.py /repo /verif/lean/Decaf/Generated/Formulas.lean >/dev/null
python3 /verif/translator/extract_opforms.py /repo /verif/lean/Decaf/Generated/OpForms.lean >/dev/null
python3 /verif/translator/extract_convforms.py /repo /verif/lean/Decaf/Generated/ConvForms.lean >/dev/null
python3 /verif/translator/extract_lazy.py /repo /verif/lean/Decaf/Generated/Lazy.lean >/dev/null
python3 /verif/translator/extract_fieldfns.py /repo /verif/lean/Decaf/Generated/FieldFns.lean >/dev/null
