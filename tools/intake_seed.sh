#!/bin/sh
# tools/intake_seed.sh <property id> <round> [demo cargo flags]  — confirm the agent's change in its scratch worktree and store it
id="$1"; rd="$2"; shift 2
wt=/tmp/wt/r${rd}_$id
out=$(/verif/tools/confirm_seed2.sh $wt R${rd}_$id "$@" 2>&1 | tail -1)
echo "$out"
d=/verif/seeded/${id}_r$rd
mkdir -p $d
cp $wt/_seed/patch.diff $d/patch.diff
cp $wt/tests/seed_demo.rs $d/seed_demo.rs
cp $wt/_seed/README.md $d/README.agent.md
echo "$out" > $d/confirm.txt
echo "$*" > $d/demo_flags.txt
