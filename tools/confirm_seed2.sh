#!/bin/sh
# tools/confirm_seed2.sh <worktree> <label> [extra cargo test args for the demo]
# Confirms in the scratch worktree (patch applied, demo at tests/seed_demo.rs, patch in _seed/patch.diff):
#  existing suite passes with the patch, demo fails with the patch, demo passes without it.
wt="$1"; id="$2"; shift 2
export CARGO_NET_OFFLINE=true CARGO_TARGET_DIR=$wt/target
cd $wt || exit 2
mkdir -p /tmp/seedlogs
demo=tests/seed_demo.rs
mv "$demo" /tmp/seedlogs/$id.demo.rs
git diff --quiet -- src && { git apply _seed/patch.diff || exit 2; }
cargo test --workspace --no-fail-fast --offline > /tmp/seedlogs/$id.suite.log 2>&1
suite=$(grep "test result" /tmp/seedlogs/$id.suite.log | awk '{p+=$4; f+=$6} END {print p" passed "f" failed"}')
cp /tmp/seedlogs/$id.demo.rs "$demo"
cargo test --offline --test seed_demo "$@" > /tmp/seedlogs/$id.demo_with.log 2>&1; with=$?
git diff -- src > /tmp/seedlogs/$id.patch
git checkout -- src
git status --short -- src | grep '^??' | awk '{print $2}' > /tmp/seedlogs/$id.newfiles
cargo test --offline --test seed_demo "$@" > /tmp/seedlogs/$id.demo_without.log 2>&1; without=$?
git apply /tmp/seedlogs/$id.patch
echo "$id: suite-with-patch: $suite ; demo exit with patch=$with (want !=0), without=$without (want 0)"
