#!/bin/sh
# tools/fallback_selftest.sh — the "nothing translates" scenario: run the formula translators on an empty source tree, so that every
# generated definition is its fallback (the hand model), and build every module that carries translated theorems.  All of them must
# still build: an untranslatable body must never be an alarm.  Restores the generated files from /repo afterwards.
mkdir -p /tmp/empty_src/src
python3 /verif/translator/extract_formulas.py /tmp/empty_src /verif/lean/Decaf/Generated/Formulas.lean
python3 /verif/translator/extract_opforms.py /tmp/empty_src /verif/lean/Decaf/Generated/OpForms.lean
python3 /verif/translator/extract_convforms.py /tmp/empty_src /verif/lean/Decaf/Generated/ConvForms.lean
python3 /verif/translator/extract_lazy.py /tmp/empty_src /verif/lean/Decaf/Generated/Lazy.lean
python3 /verif/translator/extract_fieldfns.py /tmp/empty_src /verif/lean/Decaf/Generated/FieldFns.lean
T=""; for p in C01 C02 C03 C04 C05 C06 C07 C08 C09 C10 C11 C12 C13 C14; do T="$T Decaf.Props.Translated.$p"; done
( cd /verif/lean && lake build $T 2>&1 | grep -E "^error|success" | head -20 )
rm -rf /tmp/empty_src
python3 /verif/translator/extract_formulas.py /repo /verif/lean/Decaf/Generated/Formulas.lean >/dev/null
python3 /verif/translator/extract_opforms.py /repo /verif/lean/Decaf/Generated/OpForms.lean >/dev/null
python3 /verif/translator/extract_convforms.py /repo /verif/lean/Decaf/Generated/ConvForms.lean >/dev/null
python3 /verif/translator/extract_lazy.py /repo /verif/lean/Decaf/Generated/Lazy.lean >/dev/null
python3 /verif/translator/extract_fieldfns.py /repo /verif/lean/Decaf/Generated/FieldFns.lean >/dev/null
