#!/usr/bin/env python3
"""Regenerates /verif/MANIFEST.json from checklib/gens.py (single source of truth for what is claimed)."""
import sys, os, json
sys.path.insert(0, os.path.join(os.path.dirname(os.path.abspath(__file__)), '..', 'checklib'))
sys.argv = ['x']
import gens

TEXT = json.load(open(os.path.join(os.path.dirname(os.path.abspath(__file__)), 'manifest_text.json')))
checks = []
for pid in sorted(gens.PROPS):
    P = gens.PROPS[pid]
    t = TEXT.get(pid, {})
    checks.append(dict(
        property_id=pid,
        quick_cmd='./check %s --tier quick' % pid,
        thorough_cmd='./check %s --tier thorough' % pid,
        evidence_file='/verif/evidence/%s.json' % pid,
        replay_cmd_template='./check %s --replay {path}' % pid,
        engine='lean4-proof+correspondence',
        level_claimed=dict(category=P['level'], text=t.get('text', ''), design_ref=t.get('design_ref', 'DESIGN.md §6 ' + pid)),
        level_note=t.get('note', ''),
        technique=t.get('technique', 'Lean 4 theorems over a model tied to the code by a constant translator and a differential correspondence check'),
    ))
na = [dict(property_id=k, reason=v) for k, v in sorted(TEXT.get('not_applicable', {}).items()) if k not in gens.PROPS]
man = dict(
    version=1,
    setup_cmd='./setup.sh',
    hooks=dict(guard='decaf377_verif', enable='RUSTFLAGS="--cfg decaf377_verif" (set by ./check for the r1cs harness build only)',
               baseline_off_cmd='cd /repo && cargo test --workspace --no-fail-fast --offline',
               source_commits=TEXT.get('hook_commits', []), add_only=True),
    engines=[dict(name='lean4-proof+correspondence', path='/verif/check', serves_properties=sorted(gens.PROPS),
                  kind_free_text='Lean 4 project (lean/): model + theorems, constants regenerated from /repo by translator/; '
                                 'Rust harness (harness/) linked against /repo executes the same op lines as the Lean driver; checklib/ decides')],
    checks=checks,
    notes=TEXT.get('notes', ''),
    not_applicable=na,
)
json.dump(man, open(os.path.join(os.path.dirname(os.path.abspath(__file__)), '..', 'MANIFEST.json'), 'w'), indent=1)
print('MANIFEST.json: %d checks, %d not applicable' % (len(checks), len(na)))
