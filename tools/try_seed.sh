#!/bin/sh
# tools/try_seed.sh <patch.diff> <property id>...   — apply a seeded change to /repo, run the quick checks, undo it.
patch="$1"; shift
git -C /repo apply "$patch" || { echo "patch does not apply"; exit 2; }
for p in "$@"; do
  echo "=== $p"
  ( cd /verif && ./check "$p" --tier quick 2>&1 | grep -E "^VIOLATION|^KNOWN|^  \[|tier=" | cut -c1-420 | head -14 )
done
git -C /repo checkout -- .
echo "=== reverted: $(git -C /repo status --short | wc -l) dirty files"
