#!/bin/sh
# Build the framework from files on disk only (offline).  Run once after a fresh restore; idempotent.
set -e
cd "$(dirname "$0")"
export CARGO_NET_OFFLINE=true
python3 translator/extract_constants.py /repo lean/Decaf/Generated/Constants.lean
( cd lean && lake build Decaf driver )
mkdir -p build
[ -f harness/Cargo.lock ] || cp /repo/Cargo.lock harness/Cargo.lock
( cd harness && cargo build --offline --features ark --target-dir ../build/ark ) &
( cd harness && cargo build --offline --features min --target-dir ../build/min --config 'profile.dev.opt-level=0' --config 'profile.dev.debug=0' ) &
wait
if grep -q '^r1cs' harness/.features 2>/dev/null; then
  ( cd harness && RUSTFLAGS="--cfg decaf377_verif" cargo build --offline --features r1cs --target-dir ../build/r1cs )
fi
echo setup done
