#!/bin/sh
# Build the framework from files on disk only (offline).  Run once after a fresh restore; idempotent.
set -e
cd "$(dirname "$0")"
export CARGO_NET_OFFLINE=true
python3 translator/extract_constants.py /repo lean/Decaf/Generated/Constants.lean
python3 translator/extract_formulas.py /repo lean/Decaf/Generated/Formulas.lean
python3 translator/extract_opforms.py /repo lean/Decaf/Generated/OpForms.lean
python3 translator/extract_convforms.py /repo lean/Decaf/Generated/ConvForms.lean
python3 translator/extract_lazy.py /repo lean/Decaf/Generated/Lazy.lean
python3 translator/extract_fieldfns.py /repo lean/Decaf/Generated/FieldFns.lean
( cd lean && lake build Decaf driver Decaf.AuditCmd )
# warm the proof modules (each check builds its own; this only moves the cold Mathlib load and the long proofs out of the first check)
( cd lean && lake build Decaf.Props.C01 Decaf.Props.C02 Decaf.Props.C03 Decaf.Props.C04 Decaf.Props.C05 Decaf.Props.C06 Decaf.Props.C07 Decaf.Props.C08 \
    Decaf.Props.C09 Decaf.Props.C10 Decaf.Props.C11 Decaf.Props.C12 Decaf.Props.C13 Decaf.Props.C14 Decaf.Props.C15 Decaf.Props.C16 Decaf.Props.C17 Decaf.Spec.Primes \
    Decaf.Props.Translated.C01 Decaf.Props.Translated.C02 Decaf.Props.Translated.C03 Decaf.Props.Translated.C04 Decaf.Props.Translated.C05 Decaf.Props.Translated.C06 \
    Decaf.Props.Translated.C07 Decaf.Props.Translated.C08 Decaf.Props.Translated.C09 Decaf.Props.Translated.C10 Decaf.Props.Translated.C11 Decaf.Props.Translated.C12 Decaf.Props.Translated.C13 Decaf.Props.Translated.C14 ) || true
mkdir -p build
[ -f harness/Cargo.lock ] || cp /repo/Cargo.lock harness/Cargo.lock
( cd harness && cargo build --offline --features ark --target-dir ../build/ark ) &
( cd harness && cargo build --offline --features min --target-dir ../build/min --config 'profile.dev.opt-level=0' --config 'profile.dev.debug=0' ) &
wait
if grep -q '^r1cs' harness/.features 2>/dev/null; then
  ( cd harness && RUSTFLAGS="--cfg decaf377_verif" cargo build --offline --features r1cs --target-dir ../build/r1cs )
fi
echo setup done
