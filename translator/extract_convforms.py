#!/usr/bin/env python3
"""Translator: the conversion entry points between byte strings, `Encoding` and `Element` -> Lean.

Re-run on every check.  Every `impl From<X> for Y` / `impl TryFrom<X> for Y` with X, Y among `&[u8]`, `[u8; 32]`, `Encoding`,
`&Encoding`, `Element`, `&Element` in src/min_curve/element.rs and src/ark_curve/encoding.rs is located, its body parsed and
interpreted on denotations: a byte slice / array / `Encoding` is the list of its bytes, an `Element` an abstract value; the
two backend primitives are parameters — `dec : List Nat → Except ε α` (`Encoding::vartime_decompress`, translated and proved
separately) and `enc : α → List Nat` (`vartime_compress`).  `bytes.len()`, `try_into()` of a slice into `[u8; 32]`,
`copy_from_slice(&bytes[0..32])`, `Encoding(..)`, `.0`, `?`, `Ok`/`Err`, `if`/`else` are given their meaning on lists;
`.try_into()` / `.into()` between `Encoding` and `Element` refer to the other forms (assume-guarantee, as for the operators).

Output: lean/Decaf/Generated/ConvForms.lean — `decodeSliceForms`, `decodeFixedForms`, `encodingOfSliceForms`, `encodeForms`,
`bytesForms` — and ConvForms.index.json.  Lemmas/Formulas/ConvForms.lean proves every entry equal to its specification:
slices of length 32 decode as the decoder does and every other length is the length error; fixed-size inputs decode as
the decoder does; encoding forms are the encoder; byte-array conversions are the identity.
"""
import os, re, sys, json

sys.path.insert(0, os.path.dirname(os.path.abspath(__file__)))
from extract_constants import tokenize  # noqa: E402
from extract_formulas import Parser, Untranslatable  # noqa: E402

FILES = ['src/min_curve/element.rs', 'src/ark_curve/encoding.rs']


def kind(ty):
    t = re.sub(r"\s+", '', ty)
    t = re.sub(r"'\w+", '', t)
    return {'&[u8]': 'slice', '[u8;32]': 'arr', '&[u8;32]': 'arr', 'Encoding': 'enc', '&Encoding': 'enc', 'Element': 'elem', '&Element': 'elem',
            'Self': None}.get(t)


class Conv:
    def ev(self, e, env):
        k = e[0]
        if k == 'num':
            return (str(e[1]), 'int')
        if k == 'path':
            if e[1] in env:
                return env[e[1]]
            if e[1].endswith('InvalidSliceLength'):
                return ('lenErr', 'err')
            if e[1].endswith('InvalidEncoding'):
                return ('encErr', 'err')
            raise Untranslatable('name %s' % e[1])
        if k == 'un' and e[1] in ('&', '*'):
            return self.ev(e[2], env)
        if k == 'bin' and e[1] == '==':
            (a, ta), (b, tb) = self.ev(e[2], env), self.ev(e[3], env)
            if ta == tb == 'int':
                return ('(%s == %s)' % (a, b), 'bool')
        if k == 'field' and e[2] == '0':
            v, t = self.ev(e[1], env)
            if t == 'enc':
                return (v, 'arr')
        if k == 'index':
            v, t = self.ev(e[1], env)
            if t in ('slice', 'arr') and e[2][0] == 'range' and e[2][1] == 0:
                return ('(%s.take %d)' % (v, e[2][2]), 'arr')
            if t in ('slice', 'arr') and e[2] == ('fullrange',):
                return (v, t)
        if k == 'method':
            v, t = self.ev(e[1], env)
            name = e[2]
            if name == 'len' and t in ('slice', 'arr') and not e[3]:
                return ('%s.length' % v, 'int')
            if name == 'vartime_decompress' and t == 'enc' and not e[3]:
                return ('(dec %s)' % v, 'reselem')
            if name == 'decompress' and t == 'enc' and not e[3]:
                return ('(dec %s)' % v, 'reselem')
            if name == 'vartime_compress' and t == 'elem' and not e[3]:
                return ('(enc %s)' % v, 'enc')
            if name == 'try_into' and t == 'slice' and not e[3]:
                return (v, 'tryarr')
            if name == 'try_into' and t in ('enc', 'arr') and not e[3]:
                return ('(dec %s)' % v, 'reselem')              # TryFrom<Encoding | [u8; 32]> for Element (another form)
            if name == 'into' and t == 'arr' and not e[3]:
                return (v, 'enc')
            if name == 'map_err' and t == 'tryarr' and len(e[3]) == 1 and e[3][0][0] in ('closure', 'closure2'):
                err, te = self.ev(e[3][0][-1], env)
                if te == 'err':
                    return ((v, err), 'tryarr_e')
            if name in ('clone', 'borrow') and not e[3]:
                return (v, t)
            if name == 'and_then' and t == 'tryenc_slice' and len(e[3]) == 1 and e[3][0][0] == 'closure2' and len(e[3][0][1]) == 1:
                inner, ti = self.ev(e[3][0][2], dict(env, **{e[3][0][1][0]: (v, 'enc')}))
                if ti == 'reselem':
                    return ('(if %s.length == 32 then %s else .error lenErr)' % (v, inner), 'reselem')
            raise Untranslatable('method .%s on %s' % (name, t))
        if k == 'call' and e[1][0] == 'path':
            f = e[1][1]
            av = [self.ev(x, env) for x in e[2]]
            if f == 'Encoding' and len(av) == 1 and av[0][1] == 'arr':
                return (av[0][0], 'enc')
            # another form of the list (assume-guarantee): `Encoding::from`, `Element::try_from`, `Encoding::try_from`
            if f == 'Encoding::from' and len(av) == 1 and av[0][1] == 'elem':
                return ('(enc %s)' % av[0][0], 'enc')
            if f == 'Encoding::from' and len(av) == 1 and av[0][1] == 'arr':
                return (av[0][0], 'enc')
            if f == 'Element::try_from' and len(av) == 1 and av[0][1] in ('enc', 'arr'):
                return ('(dec %s)' % av[0][0], 'reselem')
            if f == 'Element::try_from' and len(av) == 1 and av[0][1] == 'slice':
                return ('(if %s.length == 32 then dec %s else .error lenErr)' % (av[0][0], av[0][0]), 'reselem')
            if f == 'Encoding::try_from' and len(av) == 1 and av[0][1] == 'slice':
                return (av[0][0], 'tryenc_slice')
            if f == 'Ok' and len(av) == 1:
                return av[0] if av[0][1].startswith('res') else ('(.ok %s)' % av[0][0], 'res' + av[0][1])
            if f == 'Err' and len(av) == 1 and av[0][1] == 'err':
                return ('(.error %s)' % av[0][0], 'reserr')
            raise Untranslatable('call of %s' % f)
        if k == 'try':
            v, t = self.ev(e[1], env)
            if t == 'tryarr_e':
                return (v, 'tryq')
            raise Untranslatable('? on %s' % t)
        raise Untranslatable('expression %s' % k)

    def run(self, stmts, env):
        """Lean expression for the value of the block"""
        if not stmts:
            raise Untranslatable('empty block')
        s, rest = stmts[0], stmts[1:]
        k = s[0]
        if k == 'let' and s[1][0] == 'ptstruct' and s[2] is not None:
            v, t = self.ev(s[2], env)
            if t != 'enc':
                raise Untranslatable('Encoding(..) pattern on %s' % t)
            return self.run(rest, dict(env, **{s[1][2]: (v, 'arr')}))
        if k == 'let' and s[1][0] == 'pname' and s[2] is not None:
            if s[2][0] == 'arrayrep':
                env = dict(env)
                env[s[1][1]] = (None, 'arr')
                return self.run(rest, env)
            v, t = self.ev(s[2], env)
            env = dict(env)
            if t == 'tryq':
                b, err = v
                env[s[1][1]] = (b, 'arr')
                inner, ti = self.run(rest, env)
                return ('(if %s.length == 32 then %s else .error %s)' % (b, inner, err), ti)
            env[s[1][1]] = (v, t)
            return self.run(rest, env)
        if k == 'expr' and s[1][0] == 'method' and s[1][2] == 'copy_from_slice' and len(s[1][3]) == 1 and s[1][1][0] == 'path':
            v, t = self.ev(s[1][3][0], env)
            env = dict(env)
            env[s[1][1][1]] = (v, 'arr')
            return self.run(rest, env)
        if k == 'if' and not rest and s[3] is not None:
            c, tc = self.ev(s[1], env)
            (a, ta), (b, tb) = self.run(s[2], env), self.run(s[3], env)
            t = ta if ta != 'reserr' else tb
            return ('(if %s then %s else %s)' % (c, a, b), t)
        if k == 'expr' and not rest:
            return self.ev(s[1], env)
        raise Untranslatable('statement %s' % k)


class ConvParser(Parser):
    def pattern(self):
        # `Encoding(bytes)`
        if self.peek()[0] == 'id' and self.peek()[1] == 'Encoding' and self.at('(', 1) and self.peek(2)[0] == 'id' and self.at(')', 3):
            self.eat(); self.eat('(')
            inner = self.eat()[1]
            self.eat(')')
            return ('ptstruct', 'Encoding', inner)
        return super().pattern()

    def primary(self, nostruct):
        if self.at('|') and not self.at('|', 1):
            self.eat('|')
            params = []
            while not self.at('|'):
                t = self.eat()
                if t[0] == 'id' and t[1] != 'mut':
                    params.append(t[1])
                elif t[1] == ':':
                    while not self.at(',') and not self.at('|'):
                        self.eat()
            self.eat('|')
            return ('closure2', params, self.expr())
        return self.primary0(nostruct)

    def primary0(self, nostruct):
        # `[0u8; 32]`
        if self.at('[') and self.peek(1)[0] == 'num' and self.at(';', 2):
            self.eat('['); self.eat(); self.eat(';'); self.eat(); self.eat(']')
            return ('arrayrep',)
        return super().primary(nostruct)

    def postfix(self, e, nostruct):
        # `x[0..32]`
        if self.at('[') and self.peek(1)[0] == 'num' and self.at('.', 2) and self.at('.', 3) and self.peek(4)[0] == 'num' and self.at(']', 5):
            self.eat('[')
            lo = int(re.match(r'\d+', self.eat()[1]).group())
            self.eat('.'); self.eat('.')
            hi = int(re.match(r'\d+', self.eat()[1]).group())
            self.eat(']')
            return self.postfix(('index', e, ('range', lo, hi)), nostruct)
        return super().postfix(e, nostruct)


STREAM_FILES = ['src/ark_curve/encoding.rs', 'src/ark_curve/serialize.rs']


class StreamParser(Parser):
    """adds `match <ident> { …::Yes => A, …::No => B }` with arms `()`, `unimplemented!()` or an expression"""

    def primary(self, nostruct):
        if self.at('match') and self.peek(1)[0] == 'id' and self.at('{', 2):
            self.eat('match')
            var = self.eat()[1]
            self.eat('{')
            arms = {}
            while not self.at('}'):
                pat = [self.eat()[1]]
                while self.at('::'):
                    self.eat('::')
                    pat.append(self.eat()[1])
                self.eat('=>')
                if self.at('(') and self.at(')', 1):
                    self.eat(); self.eat()
                    arm = 'unit'
                else:
                    e = self.expr()
                    arm = 'panic' if e == ('macrocall', 'unimplemented') else e
                arms[pat[-1]] = arm
                if self.at(','):
                    self.eat(',')
            self.eat('}')
            if set(arms) != {'Yes', 'No'}:
                raise Untranslatable('mode match arms %s' % sorted(arms))
            return ('modematch', var, arms['Yes'], arms['No'])
        if self.at('[') and self.peek(1)[0] == 'num' and self.at(';', 2):
            self.eat('['); self.eat(); self.eat(';'); self.eat(); self.eat(']')
            return ('arrayrep',)
        if self.at('(') and self.at(')', 1):
            self.eat(); self.eat()
            return ('unit',)
        return super().primary(nostruct)


class Stream:
    """`CanonicalDeserialize::deserialize_with_mode` of `Encoding`, `Element`, `AffinePoint` on denotations: the reader is the list
    `inp` of the bytes it will deliver, the two mode arguments are Booleans (`compress = Yes`, `validate = Yes`), `unimplemented!()`
    is the outcome `panic`, `read_exact` into a 32-byte buffer is "the first 32 bytes, or the io error when fewer are left";
    `Encoding::deserialize_compressed(reader)` refers to the `Encoding` form in (Yes, Yes) mode (assume-guarantee), `try_into()`
    to the decoder `dec`, `.into()` between `Element` and `AffinePoint` is the identity on the denotation."""

    def run(self, stmts, env):
        if not stmts:
            raise Untranslatable('no result')
        s, rest = stmts[0], stmts[1:]
        k = s[0]
        if k == 'expr' and s[1][0] == 'modematch':
            _, var, yes, no = s[1]
            if env.get(var, (None, None))[1] != 'mode' or not rest:
                raise Untranslatable('mode match on %s' % var)
            cont = self.run(rest, env)
            def arm(a):
                if a == 'unit':
                    return cont
                if a == 'panic':
                    return '.error .panic'
                raise Untranslatable('mode arm')
            return '(if %s then %s else %s)' % (env[var][0], arm(yes), arm(no))
        if k == 'let' and s[1][0] == 'pname' and s[2] is not None:
            e = s[2]
            if e == ('arrayrep',):
                return self.run(rest, dict(env, **{s[1][1]: (None, 'buf')}))
            v, t = self.ev(e, env)
            if t == 'tryenc':
                cont = self.run(rest, dict(env, **{s[1][1]: ('bs', 'enc')}))
                return '(if inp.length < 32 then .error .io else (fun bs => %s) (inp.take 32))' % cont
            if t == 'tryelem':
                cont = self.run(rest, dict(env, **{s[1][1]: ('el', 'elem')}))
                return '(match dec %s with | .ok el => %s | .error _ => .error .invalidData)' % (v, cont)
            return self.run(rest, dict(env, **{s[1][1]: (v, t)}))
        if k == 'expr' and s[1][0] == 'try' and s[1][1][0] == 'method' and s[1][1][2] == 'read_exact' and len(s[1][1][3]) == 1:
            tgt = s[1][1][3][0]
            while tgt[0] in ('un', 'index'):
                tgt = tgt[2] if tgt[0] == 'un' else tgt[1]
            if tgt[0] != 'path' or env.get(tgt[1], (None, None))[1] != 'buf' or env.get(self.reader_of(s[1][1][1]), (None, None))[1] != 'reader':
                raise Untranslatable('read_exact')
            cont = self.run(rest, dict(env, **{tgt[1]: ('bs', 'arr')}))
            return '(if inp.length < 32 then .error .io else (fun bs => %s) (inp.take 32))' % cont
        if k == 'expr' and not rest:
            v, t = self.ev(s[1], env)
            if t == 'res':
                return v
            if t == 'resmapped':
                return '(match dec %s with | .ok el => .ok el | .error _ => .error .invalidData)' % v
            raise Untranslatable('tail of type %s' % t)
        raise Untranslatable('statement %s' % k)

    def reader_of(self, e):
        while e[0] == 'un':
            e = e[2]
        return e[1] if e[0] == 'path' else None

    def ev(self, e, env):
        k = e[0]
        if k == 'path':
            if e[1] in env:
                return env[e[1]]
            raise Untranslatable('name %s' % e[1])
        if k == 'un' and e[1] in ('&', '*'):
            return self.ev(e[2], env)
        if k == 'try':
            v, t = self.ev(e[1], env)
            if t == 'resenc':
                return (v, 'tryenc')
            if t == 'resmapped':
                return (v, 'tryelem')
            raise Untranslatable('? on %s' % t)
        if k == 'call' and e[1][0] == 'path':
            f = e[1][1]
            av = [self.ev(x, env) for x in e[2]]
            if f == 'Ok' and len(av) == 1 and av[0][1] in ('enc', 'elem'):
                return ('(.ok %s)' % av[0][0], 'res')
            if f in ('Self', 'Encoding') and len(av) == 1 and av[0][1] == 'arr':
                return (av[0][0], 'enc')
            if f == 'Encoding::deserialize_compressed' and len(av) == 1 and av[0][1] == 'reader':
                return ('inp', 'resenc')
            raise Untranslatable('call of %s' % f)
        if k == 'method':
            v, t = self.ev(e[1], env)
            name = e[2]
            if name == 'try_into' and t == 'enc' and not e[3]:
                return (v, 'reselemraw')
            if name == 'map_err' and t == 'reselemraw' and len(e[3]) == 1 and e[3][0][0] == 'closure' \
                    and e[3][0][1][0] == 'path' and e[3][0][1][1].endswith('InvalidData'):
                return (v, 'resmapped')
            if name in ('into', 'into_group', 'into_affine', 'clone') and t == 'elem' and not e[3]:
                return (v, t)
            raise Untranslatable('method .%s on %s' % (name, t))
        raise Untranslatable('expression %s' % k)


class SerStream:
    """`CanonicalSerialize::{serialized_size, serialize_with_mode}` of `Encoding`, `Element`, `AffinePoint` on denotations: the
    writer is the list of bytes written to it (a writer that accepts every byte), `mode` a Boolean; `self` is the byte list `b`
    (for `Encoding`) or the abstract element `e` with its encoder `enc`; `x.serialize_with_mode(writer, mode)` on an encoding
    refers to the `Encoding` form (assume-guarantee): it writes the 32 bytes."""

    def size(self, stmts, env):
        if len(stmts) == 1 and stmts[0][0] == 'expr' and stmts[0][1][0] == 'modematch':
            _, var, yes, no = stmts[0][1]
            if env.get(var, (None, None))[1] != 'mode':
                raise Untranslatable('mode match on %s' % var)
            def arm(a):
                if a == 'panic':
                    return '.error .panic'
                if isinstance(a, tuple) and a[0] == 'num':
                    return '.ok %s' % int(re.match(r'\d+', str(a[1])).group())
                raise Untranslatable('size arm')
            return '(if %s then %s else %s)' % (env[var][0], arm(yes), arm(no))
        if len(stmts) == 1 and stmts[0][0] == 'expr' and stmts[0][1][0] == 'num':
            return '(.ok %s)' % int(re.match(r'\d+', str(stmts[0][1][1])).group())
        raise Untranslatable('size body')

    def ev(self, e, env):
        k = e[0]
        if k == 'path':
            if e[1] in env:
                return env[e[1]]
            raise Untranslatable('name %s' % e[1])
        if k == 'un' and e[1] in ('&', '*'):
            return self.ev(e[2], env)
        if k == 'field' and e[2] == '0':
            v, t = self.ev(e[1], env)
            if t == 'enc':
                return (v, 'arr')
        if k == 'field' and e[2] == 'inner' and getattr(self, 'allow_raw', False):
            # the stored curve point (or anything read off it): an uninterpreted function `raw` of the element
            v, t = self.ev(e[1], env)
            if t == 'elem':
                return ('(raw %s)' % v, 'arr')
        if k == 'field' and e[2] in ('x', 'y', 'z', 't') and getattr(self, 'allow_raw', False):
            v, t = self.ev(e[1], env)
            if t == 'arr' and v.startswith('(raw '):
                return (v, 'arr')
        if k == 'index' and e[2] == ('fullrange',):
            v, t = self.ev(e[1], env)
            if t == 'arr':
                return (v, t)
        if k == 'method':
            v, t = self.ev(e[1], env)
            name = e[2]
            if name in ('into', 'into_group', 'into_affine', 'clone') and t == 'elem' and not e[3]:
                return (v, t)
            if name in ('vartime_compress', 'compress') and t == 'elem' and not e[3]:
                return ('(enc %s)' % v, 'enc')
            if name == 'write_all' and t == 'writer' and len(e[3]) == 1:
                a, ta = self.ev(e[3][0], env)
                if ta == 'arr':
                    return (a, 'written')
            if name == 'hash' and t in ('arr', 'enc') and len(e[3]) == 1:
                a, ta = self.ev(e[3][0], env)
                if ta == 'hasher':
                    return (v, 'hashed')
            if name in ('serialize_with_mode', 'serialize_compressed') and t == 'enc':
                args = [self.ev(x, env) for x in e[3]]
                if args and args[0][1] == 'writer' and all(a[1] == 'mode' for a in args[1:]):
                    return ('(.ok %s)' % v, 'res')
            raise Untranslatable('method .%s on %s' % (name, t))
        if k == 'try':
            v, t = self.ev(e[1], env)
            if t == 'written':
                return (v, 'wrote')
            raise Untranslatable('? on %s' % t)
        if k == 'call' and e[1][0] == 'path' and e[1][1] == 'Ok' and len(e[2]) == 1 and e[2][0] in (('tuple', []), ('unit',)):
            return (None, 'okunit')
        raise Untranslatable('expression %s' % k)

    def run(self, stmts, env, out=None):
        if not stmts:
            raise Untranslatable('no result')
        s, rest = stmts[0], stmts[1:]
        k = s[0]
        if k == 'let' and s[1][0] == 'pname' and s[2] is not None:
            v, t = self.ev(s[2], env)
            if t not in ('elem', 'enc', 'arr'):
                raise Untranslatable('let of %s' % t)
            return self.run(rest, dict(env, **{s[1][1]: (v, t)}), out)
        if k == 'expr' and rest:
            v, t = self.ev(s[1], env)
            if t == 'wrote' and out is None:
                return self.run(rest, env, v)
            raise Untranslatable('statement of %s' % t)
        if k == 'expr':
            v, t = self.ev(s[1], env)
            if t == 'res' and out is None:
                return v
            if t == 'okunit' and out is not None:
                return '(.ok %s)' % out
            if t == 'written' and out is None:
                return '(.ok %s)' % v
            if t == 'hashed' and out is None:
                return v
            raise Untranslatable('tail of type %s' % t)
        raise Untranslatable('statement %s' % k)


def fn_body(body, pat):
    f = re.search(pat, body)
    if not f:
        return None
    depth, e = 1, f.end()
    while depth:
        depth += body[e] == '{'
        depth -= body[e] == '}'
        e += 1
    return f, body[f.end() - 1:e]


def ser_impls(src):
    for m in re.finditer(r'\bimpl\s+(?:\w+::)*CanonicalSerialize\s+for\s+(Encoding|Element|AffinePoint)\s*\{', src):
        depth, j = 1, m.end()
        while depth:
            depth += src[j] == '{'
            depth -= src[j] == '}'
            j += 1
        body = src[m.end():j - 1]
        line = src[:m.start()].count('\n') + 1
        size = fn_body(body, r'\bfn\s+serialized_size\s*\(\s*&self\s*,\s*(\w+)\s*:[^)]*\)[^{]*\{')
        ser = fn_body(body, r'\bfn\s+serialize_with_mode\s*<[^>]*>\s*\(\s*&self\s*,\s*(?:mut\s+)?(\w+)\s*:\s*W\s*,\s*(\w+)\s*:[^)]*\)[^{]*\{')
        yield m.group(1), line, size, ser


HASH_FILES = ['src/ark_curve/element/projective.rs', 'src/ark_curve/element/affine.rs', 'src/ark_curve/encoding.rs',
              'src/min_curve/element.rs']


def hash_impls(src):
    for m in re.finditer(r'\bimpl\s+(?:\w+::)*Hash\s+for\s+(Element|AffinePoint)\s*\{', src):
        depth, j = 1, m.end()
        while depth:
            depth += src[j] == '{'
            depth -= src[j] == '}'
            j += 1
        body = src[m.end():j - 1]
        line = src[:m.start()].count('\n') + 1
        h = fn_body(body, r'\bfn\s+hash\s*<[^>]*>\s*\(\s*&self\s*,\s*(\w+)\s*:[^)]*\)[^{]*\{')
        yield m.group(1), line, h


def stream_impls(src):
    for m in re.finditer(r'\bimpl\s+(?:\w+::)*CanonicalDeserialize\s+for\s+(Encoding|Element|AffinePoint)\s*\{', src):
        depth, j = 1, m.end()
        while depth:
            depth += src[j] == '{'
            depth -= src[j] == '}'
            j += 1
        body = src[m.end():j - 1]
        f = re.search(r'\bfn\s+deserialize_with_mode\s*<[^>]*>\s*\(\s*(?:mut\s+)?(\w+)\s*:\s*R\s*,\s*(\w+)\s*:[^,]*,\s*(\w+)\s*:[^)]*\)[^{]*\{', body)
        if not f:
            continue
        depth, e = 1, f.end()
        while depth:
            depth += body[e] == '{'
            depth -= body[e] == '}'
            e += 1
        yield m.group(1), f.group(1), f.group(2), f.group(3), body[f.end() - 1:e], src[:m.start()].count('\n') + 1


def impls(src):
    for m in re.finditer(r'\bimpl\b\s*(<[^>]*>)?\s*(TryFrom|From)\s*<\s*([^{]*?)\s*>\s+for\s+([^{]+?)\s*\{', src):
        trait, src_ty, dst_ty = m.group(2), m.group(3), m.group(4).strip()
        depth, j = 1, m.end()
        while depth:
            depth += src[j] == '{'
            depth -= src[j] == '}'
            j += 1
        body = src[m.end():j - 1]
        f = re.search(r'\bfn\s+(try_from|from)\s*\(\s*(?:mut\s+)?(\w+)\s*:\s*([^)]*)\)[^{]*\{', body)
        if not f:
            continue
        depth, e = 1, f.end()
        while depth:
            depth += body[e] == '{'
            depth -= body[e] == '}'
            e += 1
        yield trait, src_ty, dst_ty, f.group(2), body[f.end() - 1:e], src[:m.start()].count('\n') + 1


def main():
    repo, out = sys.argv[1], sys.argv[2]
    lists = {'decodeSlice': [], 'decodeFixed': [], 'encodingOfSlice': [], 'encode': [], 'bytes': []}
    report = {'forms': {}, 'untranslated': []}
    for rel in FILES:
        try:
            src = open(os.path.join(repo, rel)).read()
        except OSError as ex:
            report['untranslated'].append('%s: %s' % (rel, ex))
            continue
        src = re.sub(r'#\[cfg\(test\)\].*', '', src, flags=re.S) if False else src
        for trait, sty, dty, pname, body, line in impls(src):
            ks, kd = kind(sty), kind(dty)
            if ks is None or kd is None:
                continue
            label = '%s:%d %s<%s> for %s' % (rel, line, trait, re.sub(r'\s+', ' ', sty), dty)
            try:
                var = {'slice': 'b', 'arr': 'b', 'enc': 'b', 'elem': 'e'}[ks]
                v, t = Conv().run(ConvParser(tokenize(body)).block(), {pname: (var, ks)})
                if kd == 'elem' and ks == 'slice' and t == 'reselem':
                    lists['decodeSlice'].append((label, 'fun dec lenErr encErr b => %s' % v))
                elif kd == 'elem' and ks in ('arr', 'enc') and t == 'reselem':
                    lists['decodeFixed'].append((label, 'fun dec b => %s' % v))
                elif kd == 'enc' and ks == 'slice' and t in ('resenc', 'resarr'):
                    lists['encodingOfSlice'].append((label, 'fun lenErr encErr b => %s' % v))
                elif ks == 'elem' and kd in ('enc', 'arr') and t in ('enc', 'arr'):
                    lists['encode'].append((label, 'fun enc e => %s' % v))
                elif ks in ('arr', 'enc') and kd in ('arr', 'enc') and t in ('arr', 'enc'):
                    lists['bytes'].append((label, 'fun b => %s' % v))
                else:
                    raise Untranslatable('form of kind %s -> %s with result %s' % (ks, kd, t))
                report['forms'].setdefault(rel, 0)
                report['forms'][rel] += 1
            except (Untranslatable, IndexError, KeyError, TypeError) as ex:
                report['untranslated'].append('%s: %s' % (label, ex))
    streams = {'deserEncoding': [], 'deserElement': []}
    for rel in STREAM_FILES:
        try:
            src = open(os.path.join(repo, rel)).read()
        except OSError as ex:
            report['untranslated'].append('%s: %s' % (rel, ex))
            continue
        for target, reader, compress, validate, body, line in stream_impls(src):
            label = '%s:%d CanonicalDeserialize for %s' % (rel, line, target)
            try:
                stmts = StreamParser(tokenize(body)).block()
                v = Stream().run(stmts, {reader: ('inp', 'reader'), compress: ('compress', 'mode'), validate: ('validate', 'mode')})
                if target == 'Encoding':
                    streams['deserEncoding'].append((label, 'fun compress validate inp => %s' % v))
                else:
                    streams['deserElement'].append((label, 'fun dec compress validate inp => %s' % v))
                report['forms'].setdefault(rel, 0)
                report['forms'][rel] += 1
            except (Untranslatable, IndexError, KeyError, TypeError) as ex:
                report['untranslated'].append('%s: %s' % (label, ex))
    sers = {'serSize': [], 'serEncoding': [], 'serElement': []}
    for rel in STREAM_FILES:
        try:
            src = open(os.path.join(repo, rel)).read()
        except OSError:
            continue
        for target, line, size, ser in ser_impls(src):
            label = '%s:%d CanonicalSerialize for %s' % (rel, line, target)
            selfv = ('b', 'enc') if target == 'Encoding' else ('e', 'elem')
            try:
                if size is None:
                    raise Untranslatable('no serialized_size')
                f, body = size
                v = SerStream().size(StreamParser(tokenize(body)).block(), {f.group(1): ('compress', 'mode')})
                sers['serSize'].append((label + ' serialized_size', 'fun compress => %s' % v))
                report['forms'].setdefault(rel, 0)
                report['forms'][rel] += 1
            except (Untranslatable, IndexError, KeyError, TypeError) as ex:
                report['untranslated'].append('%s serialized_size: %s' % (label, ex))
            try:
                if ser is None:
                    raise Untranslatable('no serialize_with_mode')
                f, body = ser
                v = SerStream().run(StreamParser(tokenize(body)).block(),
                                    {'self': selfv, f.group(1): ('w', 'writer'), f.group(2): ('mode', 'mode')})
                if target == 'Encoding':
                    sers['serEncoding'].append((label + ' serialize_with_mode', 'fun mode b => %s' % v))
                else:
                    sers['serElement'].append((label + ' serialize_with_mode', 'fun enc mode e => %s' % v))
                report['forms'].setdefault(rel, 0)
                report['forms'][rel] += 1
            except (Untranslatable, IndexError, KeyError, TypeError) as ex:
                report['untranslated'].append('%s serialize_with_mode: %s' % (label, ex))
    hashes = []
    for rel in HASH_FILES:
        try:
            src = open(os.path.join(repo, rel)).read()
        except OSError:
            continue
        for target, line, h in hash_impls(src):
            label = '%s:%d Hash for %s' % (rel, line, target)
            try:
                if h is None:
                    raise Untranslatable('no hash method')
                f, body = h
                ss = SerStream()
                ss.allow_raw = True
                v = ss.run(StreamParser(tokenize(body)).block(), {'self': ('e', 'elem'), f.group(1): ('st', 'hasher')})
                hashes.append((label, 'fun enc raw e => %s' % v))
                report['forms'].setdefault(rel, 0)
                report['forms'][rel] += 1
            except (Untranslatable, IndexError, KeyError, TypeError) as ex:
                report['untranslated'].append('%s: %s' % (label, ex))
    ty = {'decodeSlice': '(List Nat → Except ε α) → ε → ε → List Nat → Except ε α', 'decodeFixed': '(List Nat → Except ε α) → List Nat → Except ε α',
          'encodingOfSlice': 'ε → ε → List Nat → Except ε (List Nat)', 'encode': '(α → List Nat) → α → List Nat', 'bytes': 'List Nat → List Nat'}
    parts = ['/- GENERATED by translator/extract_convforms.py from the Rust sources of the repository; do not edit. -/', '',
             'namespace Gen.ConvForms', 'variable {α ε : Type}', '']
    for name in ('decodeSlice', 'decodeFixed', 'encodingOfSlice', 'encode', 'bytes'):
        parts.append('def %sForms : List (String × (%s)) := [' % (name, ty[name]))
        parts.append(',\n'.join('  ("%s", %s)' % (l.replace('"', "'"), f) for l, f in lists[name]))
        parts.append(']\n')
    parts.append('/-- outcome of a stream deserialiser: io error (short input), invalid data, or the `unimplemented!()` panic -/')
    parts.append('inductive SerErr | io | invalidData | panic\n  deriving DecidableEq, Repr\n')
    parts.append('/-- `CanonicalDeserialize for Encoding`: (compress = Yes) (validate = Yes) (bytes the reader delivers) -/')
    parts.append('def deserEncodingForms : List (String × (Bool → Bool → List Nat → Except SerErr (List Nat))) := [')
    parts.append(',\n'.join('  ("%s", %s)' % (l, f) for l, f in streams['deserEncoding']))
    parts.append(']\n')
    parts.append('/-- `CanonicalDeserialize for Element | AffinePoint` over a decoder `dec` -/')
    parts.append('def deserElementForms : List (String × ((List Nat → Except ε α) → Bool → Bool → List Nat → Except SerErr α)) := [')
    parts.append(',\n'.join('  ("%s", %s)' % (l, f) for l, f in streams['deserElement']))
    parts.append(']\n')
    parts.append('/-- `CanonicalSerialize::serialized_size` (compress = Yes) -/')
    parts.append('def serSizeForms : List (String × (Bool → Except SerErr Nat)) := [')
    parts.append(',\n'.join('  ("%s", %s)' % (l, f) for l, f in sers['serSize']))
    parts.append(']\n')
    parts.append('/-- `CanonicalSerialize for Encoding`: the bytes written to an accepting writer -/')
    parts.append('def serEncodingForms : List (String × (Bool → List Nat → Except SerErr (List Nat))) := [')
    parts.append(',\n'.join('  ("%s", %s)' % (l, f) for l, f in sers['serEncoding']))
    parts.append(']\n')
    parts.append('/-- `CanonicalSerialize for Element | AffinePoint` over the encoder `enc` -/')
    parts.append('def serElementForms : List (String × ((α → List Nat) → Bool → α → Except SerErr (List Nat))) := [')
    parts.append(',\n'.join('  ("%s", %s)' % (l, f) for l, f in sers['serElement']))
    parts.append(']\n')
    parts.append('/-- `Hash for Element | AffinePoint`: what is fed to the hasher, over the encoder `enc` (`.0` of an encoding is its bytes) and an\nuninterpreted reading `raw` of the stored curve point (`self.inner` and its coordinates) -/')
    parts.append('def hashForms {β : Type} : List (String × ((α → β) → (α → β) → α → β)) := [')
    parts.append(',\n'.join('  ("%s", %s)' % (l, f) for l, f in hashes))
    parts.append(']\n')
    if report['untranslated']:
        parts.append('/- forms outside the translator\'s grammar (tied by the correspondence check only):')
        parts += ['   ' + u.replace('-/', '- /') for u in report['untranslated']]
        parts.append('-/')
    parts.append('end Gen.ConvForms')
    text = '\n'.join(parts) + '\n'
    old = open(out).read() if os.path.exists(out) else None
    if old != text:
        open(out, 'w').write(text)
    report['counts'] = {k: len(v) for k, v in lists.items()}
    report['counts'].update({k: len(v) for k, v in streams.items()})
    report['counts'].update({k: len(v) for k, v in sers.items()})
    report['counts']['hash'] = len(hashes)
    json.dump(report, open(os.path.splitext(out)[0] + '.index.json', 'w'), indent=1, sort_keys=True)
    print('convforms: %s translated, %d untranslated' % (report['counts'], len(report['untranslated'])))


if __name__ == '__main__':
    main()
