#!/usr/bin/env python3
"""Translator: the operator forms of /repo (`impl Add/Sub/Neg/Mul/…Assign … for Element | AffinePoint | Fr`) -> Lean.

Re-run on every check.  Every `impl <Trait><Rhs> for <Lhs>` block with Trait in {Add, Sub, Neg, Mul, AddAssign,
SubAssign, MulAssign} in src/min_curve/ops.rs, src/ark_curve/ops/projective.rs and src/ark_curve/ops/affine.rs is
located, its method body parsed (same parser as extract_formulas.py) and interpreted at the level of the *denoted
group element*: an `Element` / `AffinePoint` is a variable of an arbitrary additive commutative group `G`, a scalar `Fr`
a natural number acting by `•`; `.inner`, `.into()`, `&`, `*`, struct wrappers and affine/projective conversions are
the identity on the denotation; `+ - neg` between elements and `*` between an element and a scalar are the group
operations.  Inside a body these operators refer either to arkworks' arithmetic on the inner curve point (group law
by contract: C04/C05's `addRef`/`scalarMulRef` theorems), to the minimal backend's base `impl Add for Element`,
`impl Neg`, `scalar_mul_vartime` (translated and proved separately: `min_add_eq`, `min_neg_eq`, C05's ladder theorem)
or to another form in the list — so the Lean theorem `∀ form, body = a + b` is an assume-guarantee argument over the
(acyclic, terminating — the correspondence executes every form) forwarding graph.

Output: lean/Decaf/Generated/OpForms.lean with four lists (`addForms`, `subForms`, `negForms`, `mulForms`) of
(label, function) pairs over a generic `[AddCommGroup G]`, and OpForms.index.json with the count per file and trait.
Lemmas/Formulas/OpForms.lean proves every entry equal to the group operation.

Usage: extract_opforms.py <repo> <out.lean>
"""
import os, re, sys, json

sys.path.insert(0, os.path.dirname(os.path.abspath(__file__)))
from extract_constants import tokenize  # noqa: E402
from extract_formulas import Parser, Untranslatable  # noqa: E402

FILES = ['src/min_curve/ops.rs', 'src/ark_curve/ops/projective.rs', 'src/ark_curve/ops/affine.rs',
         'src/ark_curve/r1cs/ops.rs', 'src/ark_curve/r1cs/inner.rs']      # the last two: the gadget variables (value-level denotation)
FIELD_FILES = ['src/fields/fq/ops.rs', 'src/fields/fr/ops.rs', 'src/fields/fp/ops.rs']
TRAITS = {'Add': 'add', 'Sub': 'sub', 'Neg': 'neg', 'Mul': 'mul', 'AddAssign': 'add', 'SubAssign': 'sub', 'MulAssign': 'mul'}
FIELD_TRAITS = dict(TRAITS, Div='div', DivAssign='div', Sum='sum', Product='prod')
ELEM = ('Element', 'AffinePoint', 'Self', 'ElementVar')
FIELD_ELEM = ('Fq', 'Fr', 'Fp', 'Self')


class FieldOps:
    """operator forms of a prime field (src/fields/*/ops.rs) on the denoted field element: the inherent methods `add`, `sub`, `mul`,
    `neg`, `inverse` of the backend wrapper are the field operations by contract (C10: fiat-crypto / arkworks arithmetic), `unwrap`
    of `inverse()` is the inverse (division by zero panics: the denotation is for a non-zero divisor), `fold(ZERO, Add::add)` is the
    sum of the list."""

    def ev(self, e, env):
        k = e[0]
        if k == 'path':
            if e[1] in env:
                return env[e[1]]
            if e[1] in ('Self::ZERO', 'Self::ONE'):
                return ('0' if e[1].endswith('ZERO') else '1', 'g')
            if e[1] in ('Add::add', 'Mul::mul'):
                return ('+' if e[1] == 'Add::add' else '*', 'op')
            raise Untranslatable('name %s' % e[1])
        if k == 'un':
            v, t = self.ev(e[2], env)
            if e[1] in ('&', '*'):
                return (v, t)
            if e[1] == '-' and t == 'g':
                return ('(-%s)' % v, 'g')
            raise Untranslatable('unary %s' % e[1])
        if k == 'bin':
            (a, ta), (b, tb) = self.ev(e[2], env), self.ev(e[3], env)
            if ta == tb == 'g' and e[1] in '+-*/':
                return ('(%s %s %s)' % (a, e[1], b), 'g')
            raise Untranslatable('binary %s' % e[1])
        if k == 'method':
            v, t = self.ev(e[1], env)
            av = [self.ev(x, env) for x in e[3]]
            if t == 'g' and e[2] in ('add', 'sub', 'mul') and [x[1] for x in av] == ['g']:
                return ('(%s %s %s)' % (v, {'add': '+', 'sub': '-', 'mul': '*'}[e[2]], av[0][0]), 'g')
            if t == 'g' and e[2] == 'neg' and not av:
                return ('(-%s)' % v, 'g')
            if t == 'g' and e[2] == 'inverse' and not av:
                return ('(%s)⁻¹' % v, 'ginv')
            if t == 'ginv' and e[2] in ('unwrap', 'expect'):
                return (v, 'g')
            if t == 'g' and e[2] in ('clone', 'into', 'borrow') and not av:
                return (v, t)
            if t == 'iter' and e[2] == 'fold' and len(av) == 2 and av[0][1] == 'g' and av[1][1] == 'op':
                return ('(%s.foldl (fun x y => x %s y) %s)' % (v, av[1][0], av[0][0]), 'g')
            raise Untranslatable('method .%s on %s' % (e[2], t))
        raise Untranslatable('expression %s' % k)

    def run(self, stmts, env, assign_trait):
        env = dict(env)
        for i, s in enumerate(stmts):
            k = s[0]
            if k == 'let' and s[1][0] == 'pname' and s[2] is not None:
                env[s[1][1]] = self.ev(s[2], env)
                continue
            if k in ('assign', 'derefassign'):
                _, name, op, e = s
                v = self.ev(e, env)
                if op:
                    v = self.ev(('bin', op, ('path', name), e), env)
                env[name] = v
                continue
            if k == 'expr' and s[1][0] == 'method' and s[1][1] == ('path', 'self') and s[1][2] in ('mul_assign', 'div_assign', 'add_assign', 'sub_assign') and len(s[1][3]) == 1:
                b, tb = self.ev(s[1][3][0], env)
                if tb != 'g':
                    raise Untranslatable('in-place operand')
                env['self'] = ('(%s %s %s)' % (env['self'][0], {'mul_assign': '*', 'div_assign': '/', 'add_assign': '+', 'sub_assign': '-'}[s[1][2]], b), 'g')
                continue
            if k == 'expr' and i == len(stmts) - 1 and (not s[2] or s[1][0] == 'path') and not assign_trait:
                return self.ev(s[1], env)
            if k == 'expr' and s[1][0] == 'path' and i == len(stmts) - 1:
                return self.ev(s[1], env)
            raise Untranslatable('statement %s' % k)
        if assign_trait:
            return env['self']
        raise Untranslatable('no value')


def kind_of(ty):
    ty = re.sub(r"&\s*('\w+\s+)?(mut\s+)?", '', ty).strip()
    if ty in ELEM:
        return 'g'
    if ty == 'Fr':
        return 'k'
    return None


class Ops:
    def __init__(self, env, selfname='self'):
        self.env = env

    def ev(self, e, env):
        k = e[0]
        if k == 'path':
            if e[1] in env:
                return env[e[1]]
            raise Untranslatable('name %s' % e[1])
        if k == 'un':
            v, t = self.ev(e[2], env)
            if e[1] in ('&', '*'):
                return (v, t)
            if e[1] == '-' and t == 'g':
                return ('(-%s)' % v, 'g')
            raise Untranslatable('unary %s on %s' % (e[1], t))
        if k == 'bin':
            (a, ta), (b, tb) = self.ev(e[2], env), self.ev(e[3], env)
            if e[1] in ('+', '-') and ta == tb == 'g':
                return ('(%s %s %s)' % (a, e[1], b), 'g')
            if e[1] == '*' and (ta, tb) == ('g', 'k'):
                return ('(%s • %s)' % (b, a), 'g')
            if e[1] == '*' and (ta, tb) == ('k', 'g'):
                return ('(%s • %s)' % (a, b), 'g')
            raise Untranslatable('binary %s on %s, %s' % (e[1], ta, tb))
        if k == 'field':
            v, t = self.ev(e[1], env)
            if t == 'g' and e[2] == 'inner':
                return (v, t)
            raise Untranslatable('field .%s' % e[2])
        if k == 'method':
            v, t = self.ev(e[1], env)
            if not e[3] and e[2] in ('into', 'into_group', 'into_affine', 'clone', 'borrow', 'element'):
                return (v, t)
            if e[2] in ('expect', 'unwrap') and t == 'g':
                return (v, t)                 # `element().expect("element will exist")`: the carried value
            if e[2] in ('add', 'sub') and t == 'g' and len(e[3]) == 1:
                b, tb = self.ev(e[3][0], env)
                if tb == 'g':
                    return ('(%s %s %s)' % (v, '+' if e[2] == 'add' else '-', b), 'g')
            if not e[3] and e[2] in ('neg', 'negate') and t == 'g':
                return ('(-%s)' % v, 'g')
            if not e[3] and e[2] == 'to_le_limbs' and t == 'k':
                return (v, 'limbs')
            raise Untranslatable('method .%s on %s' % (e[2], t))
        if k == 'struct':
            if e[1] in ELEM and len(e[2]) == 1 and e[2][0][0] == 'inner':
                return self.ev(e[2][0][1], env)
            raise Untranslatable('struct %s' % e[1])
        if k == 'call' and e[1][0] == 'path':
            f = e[1][1].split('::')[-1]
            av = [self.ev(x, env) for x in e[2]]
            if f in ('scalar_mul_vartime', 'scalar_mul') and [t for _, t in av] == ['g', 'limbs']:
                return ('(%s • %s)' % (av[1][0], av[0][0]), 'g')        # C05: the ladder is the module action
            if f == 'new_from_element' and [t for _, t in av] == ['g']:
                return av[0]                                            # the lazy wrapper around an element
            raise Untranslatable('call of %s' % e[1][1])
        raise Untranslatable('expression %s' % k)

    def run(self, stmts, env, assign_trait):
        """value of the form: the tail expression, or the final value of `self` for the …Assign traits"""
        env = dict(env)
        for i, s in enumerate(stmts):
            k = s[0]
            if k == 'let' and s[1][0] == 'pname' and s[2] is not None:
                env[s[1][1]] = self.ev(s[2], env)
                continue
            if k == 'assign':
                _, name, op, e = s
                v = self.ev(e, env)
                if op:
                    v = self.ev(('bin', op, ('path', name), e), env)
                env[name] = v
                continue
            if k == 'derefassign':
                _, name, op, e = s
                v = self.ev(e, env)
                if op:
                    v = self.ev(('bin', op, ('path', name), e), env)
                env[name] = v
                continue
            if k == 'expr' and s[1][0] == 'method' and s[1][2] in ('add_assign', 'sub_assign') and len(s[1][3]) == 1:
                tgt = s[1][1]
                while tgt[0] == 'field' and tgt[2] == 'inner':
                    tgt = tgt[1]
                if tgt[0] == 'path' and tgt[1] in env and env[tgt[1]][1] == 'g':
                    b, tb = self.ev(s[1][3][0], env)
                    if tb == 'g':
                        env[tgt[1]] = ('(%s %s %s)' % (env[tgt[1]][0], '+' if s[1][2] == 'add_assign' else '-', b), 'g')
                        continue
                raise Untranslatable('in-place method statement')
            if k == 'expr' and not s[2] and i == len(stmts) - 1 and not assign_trait:
                return self.ev(s[1], env)
            if k == 'expr' and s[1][0] == 'path' and i == len(stmts) - 1:
                return self.ev(s[1], env)
            raise Untranslatable('statement %s' % k)
        if assign_trait:
            return env['self']
        raise Untranslatable('no value')


class OpsParser(Parser):
    def stmt(self):
        # `*self = e;`  `*self += e;`
        if self.at('*') and self.peek(1)[0] == 'id' and (self.at('=', 2) or (self.peek(2)[1] in '+-*' and self.at('=', 3))):
            self.eat('*')
            name = self.eat()[1]
            op = ''
            if not self.at('='):
                op = self.eat()[1]
            self.eat('=')
            e = self.expr()
            if self.at(';'):
                self.eat(';')
            return ('derefassign', name, op, e)
        return super().stmt()


def impls(src, traits=None):
    traits = traits or TRAITS
    for m in re.finditer(r'\bimpl\b\s*(<[^>]*>)?\s*((?:\w+::)*\w+)\s*(?:<\s*([^>{]*?)\s*>)?\s+for\s+([^{]+?)\s*\{', src):
        trait, rhs, lhs = m.group(2).split('::')[-1], m.group(3), m.group(4).strip()
        if trait not in traits:
            continue
        depth, j = 1, m.end()
        while depth:
            depth += src[j] == '{'
            depth -= src[j] == '}'
            j += 1
        body = src[m.end():j - 1]
        f = re.search(r'\bfn\s+(\w+)\s*(?:<[^(]*>)?\s*\(([^)]*)\)[^{]*\{', body)
        if not f:
            continue
        depth, e = 1, f.end()
        while depth:
            depth += body[e] == '{'
            depth -= body[e] == '}'
            e += 1
        line = src[:m.start()].count('\n') + 1
        yield trait, rhs, lhs, f.group(2), body[f.end() - 1:e], line


GROUP_ITER_FILES = ['src/ark_curve/element/projective.rs', 'src/ark_curve/element/affine.rs', 'src/min_curve/element.rs']


class GroupIter:
    """`impl Sum<…> for Element` and `Element::vartime_multiscalar_mul` on denotations: an iterator is the list of what it yields,
    `into_iter()` / `iter()` / `borrow()` / `clone()` are the identity, `zip` is `List.zip` (the shorter side decides, as in Rust),
    `fold(init, f)` is `List.foldl`; `Self::zero()`, `Element::default()`, `Self::IDENTITY` denote 0; `+` and `Add::add` the group
    sum, `scalar * point` (either order) the scalar multiple — the operator forms they resolve to are in the lists above
    (assume-guarantee over the forwarding graph)."""

    def ev(self, e, env):
        k = e[0]
        if k == 'path':
            if e[1] in env:
                return env[e[1]]
            if re.fullmatch(r'(Self|Element)::(IDENTITY|ZERO)', e[1]):
                return ('0', 'g')
            if e[1].endswith('Add::add'):
                return ('+', 'op')
            raise Untranslatable('name %s' % e[1])
        if k == 'un' and e[1] in ('&', '*'):
            return self.ev(e[2], env)
        if k == 'paren':
            return self.ev(e[1], env)
        if k == 'block':
            return self.block(e[1], env)
        if k == 'call' and e[1][0] == 'path' and not e[2] and re.fullmatch(r'(Self|Element)::(zero|default)', e[1][1]):
            return ('0', 'g')
        if k == 'bin':
            (a, ta), (b, tb) = self.ev(e[2], env), self.ev(e[3], env)
            if e[1] == '+' and ta == tb == 'g':
                return ('(%s + %s)' % (a, b), 'g')
            if e[1] == '*' and {ta, tb} == {'g', 'k'}:
                return ('(%s • %s)' % ((a, b) if ta == 'k' else (b, a)), 'g')
            raise Untranslatable('operator %s on %s, %s' % (e[1], ta, tb))
        if k == 'method':
            v, t = self.ev(e[1], env)
            name, margs = e[2], e[3]
            if name in ('into_iter', 'iter', 'borrow', 'clone', 'copied', 'cloned') and not margs:
                return (v, t)
            if name == 'zip' and t == 'klist' and len(margs) == 1:
                w, tw = self.ev(margs[0], env)
                if tw == 'glist':
                    return ('(%s.zip %s)' % (v, w), 'kglist')
            if name == 'fold' and t == 'glist' and len(margs) == 2:
                init, f = self.ev(margs[0], env), margs[1]
                if init[1] != 'g':
                    raise Untranslatable('fold from %s' % init[1])
                if f[0] == 'closure2' and len(f[1]) == 2:
                    body = self.body(f[2], dict(env, **{f[1][0]: (f[1][0], 'g'), f[1][1]: (f[1][1], 'g')}))
                    return ('(%s.foldl (fun %s %s => %s) %s)' % (v, f[1][0], f[1][1], body, init[0]), 'g')
                fv = self.ev(f, env)
                if fv == ('+', 'op'):
                    return ('(%s.foldl (fun x y => x + y) %s)' % (v, init[0]), 'g')
                raise Untranslatable('fold function')
            if name == 'map' and t == 'kglist' and len(margs) == 1 and margs[0][0] == 'closure2' and len(margs[0][1]) == 2:
                sc, pt = margs[0][1]
                body = self.body(margs[0][2], dict(env, **{sc: ('sp.1', 'k'), pt: ('sp.2', 'g')}))
                return ('(%s.map (fun sp => %s))' % (v, body), 'glist')
            if name == 'map' and t == 'glist' and len(margs) == 1 and margs[0][0] == 'closure2' and len(margs[0][1]) == 1:
                x = margs[0][1][0]
                body = self.body(margs[0][2], dict(env, **{x: (x, 'g')}))
                return ('(%s.map (fun %s => %s))' % (v, x, body), 'glist')
            if name == 'sum' and t == 'glist' and not margs:
                return ('%s.sum' % v, 'g')
            if name == 'fold' and t == 'kglist' and len(margs) == 2 and margs[1][0] == 'closure2' and len(margs[1][1]) == 3:
                init = self.ev(margs[0], env)
                acc, sc, pt = margs[1][1]
                if init[1] != 'g':
                    raise Untranslatable('fold from %s' % init[1])
                body = self.body(margs[1][2], dict(env, **{acc: (acc, 'g'), sc: ('sp.1', 'k'), pt: ('sp.2', 'g')}))
                return ('(%s.foldl (fun %s sp => %s) %s)' % (v, acc, body, init[0]), 'g')
            raise Untranslatable('method .%s on %s' % (name, t))
        raise Untranslatable('expression %s' % k)

    def body(self, b, env):
        v, t = self.block(b[1], env) if b[0] == 'block' else self.ev(b, env)
        if t != 'g':
            raise Untranslatable('closure result %s' % t)
        return v

    def block(self, stmts, env):
        env = dict(env)
        for i, st in enumerate(stmts):
            if st[0] == 'let' and st[1][0] == 'pname' and st[2] is not None:
                env[st[1][1]] = self.ev(st[2], env)
            elif st[0] == 'expr' and i == len(stmts) - 1:
                return self.ev(st[1], env)
            else:
                raise Untranslatable('statement %s' % st[0])
        raise Untranslatable('no value')


def group_iter_forms(repo, report):
    from extract_fieldfns import FParser
    gsum, msm = [], []
    for rel in GROUP_ITER_FILES:
        try:
            src = open(os.path.join(repo, rel)).read()
        except OSError as ex:
            report['untranslated'].append('%s: %s' % (rel, ex))
            continue
        src = src.split('#[cfg(test)]')[0]
        found = []
        for m in re.finditer(r'\bimpl\b[^{;]*\bSum\s*<([^{]*)>\s+for\s+(Element|AffinePoint)\s*\{', src):
            found.append(('sum', m, 'Sum<%s> for %s' % (re.sub(r'\s+', ' ', m.group(1)), m.group(2))))
        for m in re.finditer(r'\bpub\s+fn\s+vartime_multiscalar_mul\b', src):
            found.append(('msm', m, 'vartime_multiscalar_mul'))
        for kind, m, what in found:
            label = '%s:%d %s' % (rel, src[:m.start()].count('\n') + 1, what)
            try:
                if kind == 'sum':
                    f = re.compile(r'\bfn\s+sum\b[^(]*\(\s*(?:mut\s+)?(\w+)\s*:[^)]*\)[^{]*\{').search(src, m.end())
                    names = [f.group(1)] if f else None
                else:
                    f = re.compile(r'\(\s*(?:mut\s+)?(\w+)\s*:\s*I\s*,\s*(?:mut\s+)?(\w+)\s*:\s*J\s*,?\s*\)[^{]*\{').search(src, m.end())
                    names = [f.group(1), f.group(2)] if f else None
                if not f:
                    raise Untranslatable('signature')
                depth, j = 1, f.end()
                while depth:
                    depth += src[j] == '{'
                    depth -= src[j] == '}'
                    j += 1
                stmts = FParser(tokenize(src[f.end() - 1:j])).block()
                if kind == 'sum':
                    v, t = GroupIter().block(stmts, {names[0]: ('l', 'glist')})
                    if t != 'g':
                        raise Untranslatable('result %s' % t)
                    gsum.append((label, 'fun l => %s' % v))
                else:
                    v, t = GroupIter().block(stmts, {names[0]: ('ss', 'klist'), names[1]: ('ps', 'glist')})
                    if t != 'g':
                        raise Untranslatable('result %s' % t)
                    msm.append((label, 'fun ss ps => %s' % v))
                report['forms'].setdefault(rel, {}).setdefault(kind, 0)
                report['forms'][rel][kind] += 1
            except (Untranslatable, IndexError, KeyError, TypeError) as ex:
                report['untranslated'].append('%s: %s' % (label, ex))
    return gsum, msm


def main():
    repo, out = sys.argv[1], sys.argv[2]
    lists = {'add': [], 'sub': [], 'neg': [], 'mul': []}
    report = {'forms': {}, 'untranslated': []}
    for rel in FILES:
        try:
            src = open(os.path.join(repo, rel)).read()
        except OSError as ex:
            report['untranslated'].append('%s: %s' % (rel, ex))
            continue
        for trait, rhs, lhs, params, body, line in impls(src):
            label = '%s:%d %s<%s> for %s' % (rel, line, trait, rhs or '', lhs)
            op = TRAITS[trait]
            try:
                ps = [p.strip() for p in params.split(',') if p.strip()]
                env = {}
                sk = kind_of(lhs)
                if sk is None:
                    raise Untranslatable('self type %s' % lhs)
                env['self'] = ('a' if sk == 'g' else 'k', sk)
                others = []
                for p in ps[1:]:
                    mm = re.match(r'(?:mut\s+)?(\w+)\s*:\s*(.+)$', p)
                    if not mm or kind_of(mm.group(2)) is None:
                        raise Untranslatable('parameter %s' % p)
                    kd = kind_of(mm.group(2))
                    nm = ('b' if sk == 'g' else 'a') if kd == 'g' else 'k'
                    env[mm.group(1)] = (nm, kd)
                    others.append(kd)
                stmts = OpsParser(tokenize(body)).block()
                v, t = Ops(env).run(stmts, env, trait.endswith('Assign'))
                if t != 'g':
                    raise Untranslatable('result of kind %s' % t)
                if op in ('add', 'sub'):
                    if sk != 'g' or others != ['g']:
                        raise Untranslatable('operand kinds')
                    fn = 'fun a b => %s' % v
                elif op == 'neg':
                    fn = 'fun a => %s' % v
                else:
                    if sorted([sk] + others) != ['g', 'k']:
                        raise Untranslatable('operand kinds')
                    fn = 'fun k a => %s' % v
                lists[op].append((label, fn))
                report['forms'].setdefault(rel, {}).setdefault(trait, 0)
                report['forms'][rel][trait] += 1
            except (Untranslatable, IndexError, KeyError) as ex:
                report['untranslated'].append('%s: %s' % (label, ex))
    flists = {'add': [], 'sub': [], 'mul': [], 'div': [], 'neg': [], 'sum': [], 'prod': []}
    for rel in FIELD_FILES:
        try:
            src = open(os.path.join(repo, rel)).read()
        except OSError as ex:
            report['untranslated'].append('%s: %s' % (rel, ex))
            continue
        for trait, rhs, lhs, params, body, line in impls(src, FIELD_TRAITS):
            label = '%s:%d %s<%s> for %s' % (rel, line, trait, rhs or '', lhs)
            op = FIELD_TRAITS[trait]
            try:
                if lhs.replace('&', '').strip().split()[-1] not in FIELD_ELEM:
                    raise Untranslatable('self type %s' % lhs)
                ps = [p.strip() for p in params.split(',') if p.strip()]
                stmts = OpsParser(tokenize(body)).block()
                if op in ('sum', 'prod'):
                    mm = re.match(r'(?:mut\s+)?(\w+)\s*:', ps[0]) if ps else None
                    if not mm:
                        raise Untranslatable('iterator parameter')
                    v, t = FieldOps().run(stmts, {mm.group(1): ('l', 'iter')}, False)
                    fn = 'fun l => %s' % v
                else:
                    env = {'self': ('a', 'g')}
                    for p in ps[1:]:
                        mm = re.match(r'(?:mut\s+)?(\w+)\s*:\s*(.+)$', p)
                        ty_ = re.sub(r"&\s*('\w+\s+)?(mut\s+)?", '', mm.group(2)).strip() if mm else None
                        if ty_ not in FIELD_ELEM:
                            raise Untranslatable('parameter %s' % p)
                        env[mm.group(1)] = ('b', 'g')
                    v, t = FieldOps().run(stmts, env, trait.endswith('Assign'))
                    fn = ('fun a => %s' if op == 'neg' else 'fun a b => %s') % v
                if t != 'g':
                    raise Untranslatable('result of kind %s' % t)
                flists[op].append((label, fn))
                report['forms'].setdefault(rel, {}).setdefault(trait, 0)
                report['forms'][rel][trait] += 1
            except (Untranslatable, IndexError, KeyError, AttributeError) as ex:
                report['untranslated'].append('%s: %s' % (label, ex))
    # `impl From<u128 | u64 | u32 | u16 | u8 | bool> for Fq | Fr | Fp`: the integer n goes to `from_le_limbs` of its 64-bit limbs
    # (`as u64` = mod 2^64, `>> 64` = div 2^64), narrower types via `u128::from(other).into()` (= the u128 form)
    intforms = []
    for rel in FIELD_FILES:
        try:
            src = open(os.path.join(repo, rel)).read()
        except OSError:
            continue
        for m in re.finditer(r'\bimpl\s+From\s*<\s*(u128|u64|u32|u16|u8|bool)\s*>\s+for\s+(Fq|Fr|Fp)\s*\{\s*fn\s+from\s*\(\s*(\w+)\s*:\s*\w+\s*\)\s*->\s*Self\s*\{(.*?)\}\s*\}', src, re.S):
            ity, fld, var, body = m.groups()
            label = '%s:%d From<%s> for %s' % (rel, src[:m.start()].count('\n') + 1, ity, fld)
            b = re.sub(r'//[^\n]*', '', body).strip()
            mm = re.fullmatch(r'Self::from_le_limbs\(\s*\[(.*)\]\s*\)', b, re.S)
            try:
                if mm:
                    limbs = []
                    for part in [x.strip() for x in mm.group(1).split(',') if x.strip()]:
                        if part == '%s as u64' % var:
                            limbs.append('n % 2 ^ 64')
                        elif re.fullmatch(r'\(\s*%s\s*>>\s*(\d+)\s*\)\s*as\s+u64' % var, part):
                            sh = int(re.fullmatch(r'\(\s*%s\s*>>\s*(\d+)\s*\)\s*as\s+u64' % var, part).group(1))
                            limbs.append('n / 2 ^ %d %% 2 ^ 64' % sh)
                        elif re.fullmatch(r'\d+', part):
                            limbs.append(part)
                        else:
                            raise Untranslatable('limb expression %s' % part)
                    intforms.append((label, 'fun fromLimbs n => fromLimbs [%s]' % ', '.join(limbs)))
                elif b == 'u128::from(%s).into()' % var:
                    intforms.append((label, ('via', fld)))
                else:
                    raise Untranslatable('body %s' % b[:60])
                report['forms'].setdefault(rel, {}).setdefault('From<int>', 0)
                report['forms'][rel]['From<int>'] += 1
            except Untranslatable as ex:
                report['untranslated'].append('%s: %s' % (label, ex))
    ty = {'add': 'G → G → G', 'sub': 'G → G → G', 'neg': 'G → G', 'mul': 'ℕ → G → G'}
    parts = ['/- GENERATED by translator/extract_opforms.py from the Rust sources of the repository; do not edit. -/',
             'import Mathlib.Algebra.Group.Defs', 'import Mathlib.Algebra.Group.Basic', 'import Mathlib.Algebra.Field.Defs', '', 'namespace Gen.OpForms', 'variable {G : Type} [AddCommGroup G]', '']
    for op in ('add', 'sub', 'neg', 'mul'):
        parts.append('/-- every `%s`-like operator form found in the sources (label, denotation) -/' % op)
        parts.append('def %sForms : List (String × (%s)) := [' % (op, ty[op]))
        parts.append(',\n'.join('  ("%s", %s)' % (l.replace('"', "'").replace('\\', ''), f) for l, f in lists[op]))
        parts.append(']\n')
    gsum, msm = group_iter_forms(repo, report)
    parts.append('/-- `impl Sum<…> for Element`: the list the iterator yields ↦ the result -/')
    parts.append('def gsumForms : List (String × (List G → G)) := [')
    parts.append(',\n'.join('  ("%s", %s)' % (l.replace('"', "'").replace('\\', ''), f) for l, f in gsum))
    parts.append(']\n')
    parts.append('/-- `Element::vartime_multiscalar_mul`: scalars, points ↦ the result -/')
    parts.append('def msmForms : List (String × (List ℕ → List G → G)) := [')
    parts.append(',\n'.join('  ("%s", %s)' % (l.replace('"', "'").replace('\\', ''), f) for l, f in msm))
    parts.append(']\n')
    parts.append('end Gen.OpForms\n\nnamespace Gen.FieldOpForms\nvariable {K : Type} [Field K]\n')
    fty = {'add': 'K → K → K', 'sub': 'K → K → K', 'mul': 'K → K → K', 'div': 'K → K → K', 'neg': 'K → K', 'sum': 'List K → K', 'prod': 'List K → K'}
    for op in ('add', 'sub', 'mul', 'div', 'neg', 'sum', 'prod'):
        parts.append('/-- every `%s`-like operator form of the three prime fields found in the sources (label, denotation) -/' % op)
        parts.append('def %sForms : List (String × (%s)) := [' % (op, fty[op]))
        parts.append(',\n'.join('  ("%s", %s)' % (l.replace('"', "'").replace('\\', ''), f) for l, f in flists[op]))
        parts.append(']\n')
    # `u128::from(n).into()` is the `From<u128>` form of the same field: inline it (a widening conversion does not change n)
    u128of = {l.split(' for ')[-1]: f for l, f in intforms if isinstance(f, str) and 'From<u128>' in l}
    resolved = []
    for l, f in intforms:
        if isinstance(f, tuple):
            if f[1] in u128of:
                resolved.append((l, u128of[f[1]]))
            else:
                report['untranslated'].append('%s: no From<u128> form of %s to forward to' % (l, f[1]))
        else:
            resolved.append((l, f))
    intforms = resolved
    parts.append('/-- every `From<integer type>` form of the three fields: (label, fun fromLimbs n => …) with `fromLimbs` = `from_le_limbs` -/')
    parts.append('def fromIntForms : List (String × ((List Nat → K) → Nat → K)) := [')
    parts.append(',\n'.join('  ("%s", %s)' % (l, f) for l, f in intforms))
    parts.append(']\n')
    parts.append('end Gen.FieldOpForms\n\nnamespace Gen.OpForms')
    if report['untranslated']:
        parts.append('/- forms outside the translator\'s grammar (tied by the correspondence check only):')
        parts += ['   ' + u.replace('-/', '- /') for u in report['untranslated']]
        parts.append('-/')
    parts.append('end Gen.OpForms')
    text = '\n'.join(parts) + '\n'
    old = open(out).read() if os.path.exists(out) else None
    if old != text:
        open(out, 'w').write(text)
    report['counts'] = {op: len(v) for op, v in lists.items()}
    report['counts'].update(gsum=len(gsum), msm=len(msm))
    report['field_counts'] = {op: len(v) for op, v in flists.items()}
    report['field_counts']['from_int'] = len(intforms)
    json.dump(report, open(os.path.splitext(out)[0] + '.index.json', 'w'), indent=1, sort_keys=True)
    print('opforms: %s + field %s translated, %d untranslated' % (report['counts'], report['field_counts'], len(report['untranslated'])))


if __name__ == '__main__':
    main()
