#!/usr/bin/env python3
"""Translator: the byte-level wrapper functions of the three prime fields -> Lean.

Re-run on every check.  `from_bytes_checked`, `from_le_bytes_mod_order` and `to_bytes` of `impl Fq` (src/fields/fq.rs), `impl Fr`
(src/fields/fr.rs) and `impl Fp` (src/fields/fp.rs) are located, parsed and interpreted over the field model `FP` of
lean/Decaf/Model/Glue.lean: a field element is its canonical value, a byte slice / array the list of its bytes; the backend
primitives are the model's (contract: exact arithmetic, C10) — `Self::from_raw_bytes(b)` is `F.fromRawBytes b` (the integer of
exactly N_8 bytes, reduced), `x.to_bytes_le()` is `F.toBytesLe x`, `*` `+` are `fmul` / `fadd` modulo `F.m`, `Self::ZERO` is 0,
`Self::FIELD_SIZE_POWER_OF_TWO` is `F.fspt` (its value is a C17 fact), `N_8` is `F.n8`.  `bytes.chunks(N_8)` is `chunks`,
`[0u8; N_8]` followed by `padded[..x.len()].copy_from_slice(x)` is `padTo`, `.map(|x| …)`, `.rev()`, `.fold(init, |acc, x| …)`
are `List.map`, `List.reverse`, `List.foldl`; `==` on byte arrays is list equality, `Ok` / `Err(_)` are `some` / `none`.

Output: lean/Decaf/Generated/FieldFns.lean (`Gen.FieldFns.<field>_<fn> (F : FP) …`) and FieldFns.index.json.
Lemmas/Formulas/FieldFns.lean proves each equal to the hand model's `FP.fromBytesChecked`, `FP.fromLeBytesModOrder`,
`FP.toBytesLe`, on which C11's theorems (checked parsing accepts exactly the integers below p; reduction of byte strings of any
length) stand.  A body outside this grammar falls back to the hand model: no alarm, tie = correspondence only.
"""
import os, re, sys, json, hashlib

sys.path.insert(0, os.path.dirname(os.path.abspath(__file__)))
from extract_constants import tokenize  # noqa: E402
from extract_formulas import Parser, Untranslatable  # noqa: E402

FIELDS = [('fq', 'Fq', 'src/fields/fq.rs'), ('fr', 'Fr', 'src/fields/fr.rs'), ('fp', 'Fp', 'src/fields/fp.rs')]
FNS = {
    'from_bytes_checked': dict(params='(bytes : List Nat)', ret='Option Nat', env={'bytes': ('bytes', 'bytes')}, want='optfe',
                               fallback='F.fromBytesChecked bytes'),
    'from_le_bytes_mod_order': dict(params='(bytes : List Nat)', ret='Nat', env={'bytes': ('bytes', 'bytes')}, want='fe',
                                    fallback='F.fromLeBytesModOrder bytes'),
    'to_bytes': dict(params='(x : Nat)', ret='List Nat', env={'self': ('x', 'fe')}, want='bytes', fallback='F.toBytesLe x'),
}


class FParser(Parser):
    """adds `[0u8; N_8]`, `e[..n]`, and closures that keep their parameter names"""

    def primary(self, nostruct):
        if self.at('[') and self.peek(1)[0] == 'num' and self.at(';', 2) and self.at(']', 4):
            self.eat('[')
            v = self.eat()[1]
            self.eat(';')
            n = self.eat()[1]
            self.eat(']')
            if int(re.match(r'\d+', v).group()) != 0:
                raise Untranslatable('array fill %s' % v)
            return ('zeros', n)
        if self.at('|') and not self.at('|', 1):
            self.eat('|')
            params = []
            while not self.at('|'):
                t = self.eat()
                if t[0] == 'id' and t[1] != 'mut':
                    params.append(t[1])
                elif t[1] == ':':
                    while not self.at(',') and not self.at('|'):
                        self.eat()
            self.eat('|')
            return ('closure2', params, self.expr())
        return super().primary(nostruct)

    def postfix(self, e, nostruct):
        if self.at('[') and self.at('.', 1) and self.at('.', 2):
            self.eat('['); self.eat('.'); self.eat('.')
            hi = self.expr()
            self.eat(']')
            return self.postfix(('index', e, ('rangeto', hi)), nostruct)
        return super().postfix(e, nostruct)


class FieldFn:
    def __init__(self, ty):
        self.ty = ty

    def selfpath(self, name):
        for pre in ('Self::', self.ty + '::'):
            if name.startswith(pre):
                return name[len(pre):]
        return None

    def block(self, stmts, env):
        env = dict(env)
        if not stmts:
            raise Untranslatable('empty block')
        for idx, s in enumerate(stmts):
            last = idx == len(stmts) - 1
            k = s[0]
            if k == 'let' and s[1][0] == 'pname' and s[2] is not None:
                env[s[1][1]] = self.ev(s[2], env)
            elif k == 'expr' and not last and s[1][0] == 'method' and s[1][2] == 'copy_from_slice' and len(s[1][3]) == 1:
                tgt = s[1][1]
                src = self.ev(s[1][3][0], env)
                if tgt[0] == 'index' and tgt[1][0] == 'path' and tgt[2][0] == 'rangeto' and src[1] == 'bytes':
                    arr = env.get(tgt[1][1])
                    hi = self.ev(tgt[2][1], env)
                    if arr and arr[1] == 'zeros' and hi == ('%s.length' % src[0], 'int'):
                        env[tgt[1][1]] = ('(padTo %s %s)' % (arr[0], src[0]), 'bytes')
                        continue
                raise Untranslatable('copy_from_slice')
            elif k == 'if' and not last and s[3] is None and len(s[2]) == 1 and s[2][0][0] in ('return', 'expr'):
                # `if c { return X; }` followed by the rest of the block
                c = self.ev(s[1], env)
                inner = s[2][0]
                if c[1] != 'bool' or (inner[0] == 'expr' and not (isinstance(inner[1], tuple) and inner[1][0] == 'return')):
                    raise Untranslatable('early exit')
                a = self.ev(inner[1] if inner[0] == 'return' else inner[1][1], env)
                b = self.block(stmts[idx + 1:], env)
                if a[1] != b[1]:
                    raise Untranslatable('branches of different kinds')
                return ('(if %s then %s else %s)' % (c[0], a[0], b[0]), a[1])
            elif k == 'return' and last:
                return self.ev(s[1], env)
            elif k == 'if' and last and s[3] is not None:
                c = self.ev(s[1], env)
                if c[1] != 'bool':
                    raise Untranslatable('condition')
                a, b = self.block(s[2], env), self.block(s[3], env)
                if a[1] != b[1]:
                    raise Untranslatable('branches of different kinds')
                return ('(if %s then %s else %s)' % (c[0], a[0], b[0]), a[1])
            elif k == 'expr' and last:
                return self.ev(s[1], env)
            else:
                raise Untranslatable('statement %s' % k)
        raise Untranslatable('no result')

    def closure(self, c, kinds, env):
        if c[0] != 'closure2' or len(c[1]) != len(kinds):
            raise Untranslatable('closure')
        env2 = dict(env)
        for name, kd in zip(c[1], kinds):
            env2[name] = (name, kd)
        body = c[2]
        v = self.block(body[1], env2) if body[0] == 'block' else self.ev(body, env2)
        return c[1], v

    def ev(self, e, env):
        k = e[0]
        if k == 'path':
            if e[1] in env:
                return env[e[1]]
            sp = self.selfpath(e[1])
            if sp == 'ZERO':
                return ('0', 'fe')
            if sp == 'FIELD_SIZE_POWER_OF_TWO':
                return ('F.fspt', 'fe')
            if e[1] == 'N_8':
                return ('F.n8', 'int')
            if e[1].endswith('InvalidEncoding'):
                return ('_', 'err')
            raise Untranslatable('name %s' % e[1])
        if k == 'zeros':
            if e[1] != 'N_8':
                raise Untranslatable('array of size %s' % e[1])
            return ('F.n8', 'zeros')
        if k == 'un' and e[1] in ('&', '*'):
            return self.ev(e[2], env)
        if k == 'un' and e[1] == '!':
            v = self.ev(e[2], env)
            if v[1] == 'bool':
                return ('(!%s)' % v[0], 'bool')
            raise Untranslatable('! on %s' % v[1])
        if k == 'paren':
            return self.ev(e[1], env)
        if k == 'bin':
            a, b = self.ev(e[2], env), self.ev(e[3], env)
            if e[1] == '==' and a[1] == b[1] == 'bytes':
                return ('(%s == %s)' % (a[0], b[0]), 'bool')
            if e[1] == '!=' and a[1] == b[1] == 'bytes':
                return ('(%s != %s)' % (a[0], b[0]), 'bool')
            if e[1] in ('*', '+') and a[1] == b[1] == 'fe':
                return ('(%s F.m %s %s)' % ('fmul' if e[1] == '*' else 'fadd', a[0], b[0]), 'fe')
            raise Untranslatable('operator %s on %s, %s' % (e[1], a[1], b[1]))
        if k == 'call' and e[1][0] == 'path':
            f = e[1][1]
            args = [self.ev(a, env) for a in e[2]]
            if self.selfpath(f) == 'to_bytes_le' and len(args) == 1 and args[0][1] == 'fe':
                return ('(F.toBytesLe %s)' % args[0][0], 'bytes')
            if self.selfpath(f) == 'from_raw_bytes' and len(args) == 1 and args[0][1] == 'bytes':
                return ('(F.fromRawBytes %s)' % args[0][0], 'fe')
            if f == 'Ok' and len(args) == 1 and args[0][1] == 'fe':
                return ('(some %s)' % args[0][0], 'optfe')
            if f == 'Err' and len(args) == 1 and args[0][1] == 'err':
                return ('none', 'optfe')
            raise Untranslatable('call of %s' % f)
        if k == 'method':
            name, margs = e[2], e[3]
            v = self.ev(e[1], env)
            if name == 'to_bytes_le' and v[1] == 'fe' and not margs:
                return ('(F.toBytesLe %s)' % v[0], 'bytes')
            if name == 'len' and v[1] == 'bytes' and not margs:
                return ('%s.length' % v[0], 'int')
            if name in ('clone', 'iter', 'into_iter', 'as_ref') and not margs:
                return v
            if name == 'chunks' and v[1] == 'bytes' and len(margs) == 1 and self.ev(margs[0], env) == ('F.n8', 'int'):
                return ('(chunks F.n8 %s.length %s)' % (v[0], v[0]), 'byteslist')
            if name == 'map' and v[1] == 'byteslist' and len(margs) == 1:
                ps, body = self.closure(margs[0], ['bytes'], env)
                if body[1] != 'fe':
                    raise Untranslatable('map to %s' % body[1])
                return ('(%s.map (fun %s => %s))' % (v[0], ps[0], body[0]), 'felist')
            if name == 'rev' and v[1] in ('felist', 'byteslist') and not margs:
                return ('%s.reverse' % v[0], v[1])
            if name == 'fold' and v[1] == 'felist' and len(margs) == 2:
                init = self.ev(margs[0], env)
                ps, body = self.closure(margs[1], ['fe', 'fe'], env)
                if init[1] != 'fe' or body[1] != 'fe':
                    raise Untranslatable('fold')
                return ('(%s.foldl (fun %s %s => %s) %s)' % (v[0], ps[0], ps[1], body[0], init[0]), 'fe')
            raise Untranslatable('method .%s on %s' % (name, v[1]))
        if k == 'block':
            return self.block(e[1], env)
        raise Untranslatable('expression %s' % k)


def find_fn(src, ty, name):
    impl = re.search(r'\bimpl\s+%s\s*\{' % ty, src)
    if not impl:
        raise Untranslatable('impl %s not found' % ty)
    m = re.compile(r'\bpub\s+fn\s+%s\s*\([^)]*\)[^{]*\{' % name).search(src, impl.end())
    if not m:
        raise Untranslatable('fn %s not found' % name)
    depth, j = 1, m.end()
    while depth:
        depth += src[j] == '{'
        depth -= src[j] == '}'
        j += 1
    return src[m.end() - 1:j], src[:m.start()].count('\n') + 1, src[:j].count('\n') + 1


def main():
    repo, out = sys.argv[1], sys.argv[2]
    report = {'functions': {}}
    parts = ['/- GENERATED by translator/extract_fieldfns.py from src/fields/{fq,fr,fp}.rs; do not edit. -/', 'import Decaf.Model.Glue', '',
             'namespace Gen.FieldFns', 'open Model Model.FP', '']
    for fld, ty, rel in FIELDS:
        try:
            src = open(os.path.join(repo, rel)).read()
            err = None
        except OSError as ex:
            src, err = None, str(ex)
        for fn, cfg in FNS.items():
            key = '%s_%s' % (fld, fn)
            info = {'file': rel, 'fn': fn}
            try:
                if src is None:
                    raise Untranslatable(err)
                text, l0, l1 = find_fn(src, ty, fn)
                info.update(lines=[l0, l1], sha256=hashlib.sha256(text.encode()).hexdigest())
                v = FieldFn(ty).block(FParser(tokenize(text)).block(), cfg['env'])
                if v[1] != cfg['want']:
                    raise Untranslatable('result of kind %s' % v[1])
                body = v[0]
                info['status'] = 'translated'
                parts.append('/-- %s `%s::%s` lines %d-%d -/' % (rel, ty, fn, l0, l1))
            except (Untranslatable, IndexError, KeyError, TypeError, ValueError) as ex:
                body = cfg['fallback']
                info.pop('lines', None)
                info.update(status='untranslated', reason='%s: %s' % (type(ex).__name__, ex))
                parts.append('/-- %s `%s::%s` — UNTRANSLATED (%s): falls back to the hand model -/' % (rel, ty, fn, info['reason'].replace('-/', '- /')))
            report['functions'][key] = info
            parts.append('def %s (F : FP) %s : %s :=\n  %s\n' % (key, cfg['params'], cfg['ret'], body))
    parts.append('end Gen.FieldFns')
    text = '\n'.join(parts) + '\n'
    old = open(out).read() if os.path.exists(out) else None
    if old != text:
        open(out, 'w').write(text)
    json.dump(report, open(os.path.splitext(out)[0] + '.index.json', 'w'), indent=1, sort_keys=True)
    un = [k for k, v in report['functions'].items() if v['status'] != 'translated']
    print('fieldfns: %d translated, %d untranslated %s' % (len(report['functions']) - len(un), len(un), [k + ': ' + report['functions'][k]['reason'] for k in un]))


if __name__ == '__main__':
    main()
